/-
C09 as an executable predicate over (source frames, transport stream bytes), written from the
property statement with the reference demultiplexer of `Spec/TsDemux.lean`.  The driver
evaluates it on the bytes the IMPLEMENTATION wrote; the theorems of `Props/C09.lean` show that
the model's output satisfies its clauses for every input.
-/
import IpcHub.Spec.TsDemux
namespace IpcHub.TsSpec

/-- a source frame in 90 kHz units, as supplied to the writer -/
inductive Src
  | video (nal : Bytes) (dts pts : Nat)
  | audio (aac : Bytes) (pts : Nat)
deriving Repr, BEq, DecidableEq

/-- the parameter sets of the stream: SPS/PPS NAL units and the three ADTS-visible fields of the
    AudioSpecificConfig (audio object type, sampling frequency index, channel configuration) -/
structure Params where
  sps : Bytes
  pps : Bytes
  aot : Nat
  srIndex : Nat
  chanCfg : Nat
deriving Repr

def nalType (nal : Bytes) : Nat := match nal with | [] => 0 | b :: _ => b.toNat % 32

/-- the access unit delimiter NAL: type 9, primary_pic_type 7, stop bit -/
def audNal : Bytes := [0x09, 0xf0]

/-- The NAL units the PES of a video frame may consist of, in order (each alternative is a
    complete list).  From the statement and H.264 7.4.1.2.3, not from the code: a coded slice
    (type 1 non-IDR, type 5 IDR — the access data proper) MUST be preceded by an access unit
    delimiter, an IDR slice in addition by the stream's SPS and PPS (those the stream has) between
    the delimiter and the slice; any other NAL unit handed over as a frame of its own (SEI,
    parameter sets, delimiters, data partitions, …) is carried as it is, with or without a
    delimiter in front of it. -/
def expectedNalsAlts (p : Params) (nal : Bytes) : List (List Bytes) :=
  let t := nalType nal
  if t = 5 then
    [[audNal] ++ (if p.sps.isEmpty then [] else [p.sps]) ++ (if p.pps.isEmpty then [] else [p.pps]) ++ [nal]]
  else if t = 1 then [[audNal, nal]]
  else [[nal], [audNal, nal]]

def stripPrefix : Bytes → Bytes → Option Bytes
  | [], bs => some bs
  | _ :: _, [] => none
  | a :: as, b :: bs => if a = b then stripPrefix as bs else none

/-- `bs` is exactly the given NAL units, each preceded by a 3- or 4-byte start code -/
def matchAnnexB : List Bytes → Bytes → Bool
  | [], bs => bs.isEmpty
  | nal :: nals, bs =>
    let afterSc := match bs with
      | 0 :: 0 :: 1 :: rest => some rest
      | 0 :: 0 :: 0 :: 1 :: rest => some rest
      | _ => none
    match afterSc.bind (stripPrefix nal) with
    | some rest => matchAnnexB nals rest
    | none => false

def isKey (nal : Bytes) : Bool := nalType nal = 5

/-- one video PES against its source frame -/
def checkVideo (p : Params) (nal : Bytes) (dts pts : Nat) (pes : Pes) : Except String Unit := do
  if pes.streamId / 16 ≠ 0xe then throw "video-stream-id"
  if pes.pts ≠ pts % 2^33 then throw "video-pts"
  if pes.dts.getD pes.pts ≠ dts % 2^33 then throw "video-dts"
  if ¬ (expectedNalsAlts p nal).any (matchAnnexB · pes.payload) then throw s!"annexb-type-{nalType nal}"
  if isKey nal then
    if ¬ pes.rai then throw "key-no-random-access"
    if pes.pcr ≠ some (dts % 2^33) then throw "key-pcr"
  else if pes.rai then throw "random-access-on-non-key"

/-- an audio PES carrying exactly the given source AAC frames as a chain of ADTS frames -/
def checkAdtsChain (p : Params) (frames : List Bytes) (payload : Bytes) : Except String Unit :=
  match parseAdts payload.length payload with
  | none => throw "adts-malformed"
  | some fs =>
    if fs.map (·.payload) ≠ frames then throw "adts-payload"
    -- ADTS can only express object types 1‥4, frequency indices 0‥12 and channel configurations
    -- 0‥7; outside of that there is no right header and only framing and payload are checked
    else if 1 ≤ p.aot ∧ p.aot ≤ 4 ∧ p.srIndex ≤ 12 ∧ p.chanCfg ≤ 7 ∧
        ¬ fs.all (fun f => f.profile = p.aot - 1 ∧ f.srIndex = p.srIndex ∧ f.chanCfg = p.chanCfg) then
      throw "adts-config"
    else pure ()

def checkAudio (p : Params) (aac : Bytes) (pts : Nat) (pes : Pes) : Except String Unit := do
  if pes.streamId / 32 ≠ 6 then throw "audio-stream-id"
  if pes.pts ≠ pts % 2^33 then throw "audio-pts"
  if pes.dts.getD pes.pts ≠ pts % 2^33 then throw "audio-dts"
  checkAdtsChain p [aac] pes.payload

/-- source frames of one kind, in order (frames with an empty payload are not written) -/
def videoSrcs : List Src → List (Bytes × Nat × Nat)
  | [] => []
  | .video nal d p :: r => if nal.isEmpty then videoSrcs r else (nal, d, p) :: videoSrcs r
  | _ :: r => videoSrcs r
def audioSrcs : List Src → List (Bytes × Nat)
  | [] => []
  | .audio a p :: r => if a.isEmpty then audioSrcs r else (a, p) :: audioSrcs r
  | _ :: r => audioSrcs r

def zipCheck {α} (what : String) (f : α → Pes → Except String Unit) : List α → List Pes → Except String Unit
  | [], [] => pure ()
  | a :: as, p :: ps => do f a p; zipCheck what f as ps
  | [], _ :: _ => throw s!"{what}-extra-pes"
  | _ :: _, [] => throw s!"{what}-missing-pes"

/-- the order in which PES packets start in the multiplex equals the order of the source frames -/
def startOrder (vpid apid : Nat) (pkts : List TsPacket) : List Bool :=
  (pkts.filter (fun p => p.pusi ∧ (p.pid = vpid ∨ p.pid = apid))).map (·.pid = vpid)
def srcOrder : List Src → List Bool
  | [] => []
  | .video nal _ _ :: r => if nal.isEmpty then srcOrder r else true :: srcOrder r
  | .audio a _ :: r => if a.isEmpty then srcOrder r else false :: srcOrder r

/-- media packets (everything after PAT/PMT) of a stream whose PMT is `pmt`:
    continuity per PID starting from `vcc`/`acc`, PES lists equal to the sources -/
def checkMedia (p : Params) (pmt : Pmt) (vcc acc : Nat) (srcs : List Src) (media : List Bytes)
    : Except String Unit := do
  let vpid ← match pmt.streams.filter (·.1 = 0x1b) with
    | [(_, pid)] => pure pid | _ => throw "pmt-no-h264"
  let apid ← match pmt.streams.filter (·.1 = 0x0f) with
    | [(_, pid)] => pure pid | _ => throw "pmt-no-aac"
  if pmt.pcrPid ≠ vpid then throw "pmt-pcr-pid"
  let pkts ← match parsePackets media with
    | some ps => pure ps | none => throw "ts-packet-malformed"
  if ¬ pkts.all (fun k => k.pid = vpid ∨ k.pid = apid) then throw "unknown-pid"
  if ¬ ccChain vcc (pkts.filter (·.pid == vpid)) then throw "video-continuity"
  if ¬ ccChain acc (pkts.filter (·.pid == apid)) then throw "audio-continuity"
  let vpes ← match demuxPid vpid pkts with
    | some l => pure l | none => throw "video-pes-malformed"
  let apes ← match demuxPid apid pkts with
    | some l => pure l | none => throw "audio-pes-malformed"
  zipCheck "video" (fun (s : Bytes × Nat × Nat) => checkVideo p s.1 s.2.1 s.2.2) (videoSrcs srcs) vpes
  zipCheck "audio" (fun (s : Bytes × Nat) => checkAudio p s.1 s.2) (audioSrcs srcs) apes
  if startOrder vpid apid pkts ≠ srcOrder srcs then throw "frame-order"

/-- C09 for a complete stream: whole packets, PAT + PMT first, then the media packets -/
def holds (p : Params) (srcs : List Src) (ts : Bytes) : Except String Unit := do
  let chunks ← match chunk188 (ts.length / 188 + 1) ts with
    | some c => pure c | none => throw "not-whole-packets"
  match chunks with
  | p1 :: p2 :: media =>
    match parseProgram p1 p2 with
    | none => throw "pat-pmt"
    | some pmt => checkMedia p pmt 0 0 srcs media
  | _ => throw "no-pat-pmt"

def verdict : Except String Unit → String
  | .ok _ => "ok"
  | .error e => "fail:" ++ e

end IpcHub.TsSpec

namespace IpcHub.TsSpec

/-- a frame handed directly to the writer: elementary-stream bytes `data` (header ++ payload) -/
structure RawSrc where
  pid  : Nat
  sid  : Nat
  dts  : Nat
  pts  : Nat
  key  : Bool
  data : Bytes
deriving Repr, BEq, DecidableEq

def checkRawPes (s : RawSrc) (pes : Pes) : Except String Unit := do
  if pes.streamId ≠ s.sid % 256 then throw "stream-id"
  if pes.pts ≠ s.pts % 2^33 then throw "pts"
  if pes.dts.getD pes.pts ≠ s.dts % 2^33 then throw "dts"
  if pes.payload ≠ s.data then throw "payload"
  if s.key then
    if ¬ pes.rai then throw "key-no-random-access"
    if pes.pcr ≠ some (s.dts % 2^33) then throw "key-pcr"
  else if pes.rai then throw "random-access-on-non-key"

/-- writer-level C09: PAT/PMT, whole packets, continuity per PID, one PES per frame carrying the
    bytes and time stamps supplied.  `pids` = the PIDs in use. -/
def holdsRaw (pids : List Nat) (srcs : List RawSrc) (ts : Bytes) : Except String Unit := do
  let chunks ← match chunk188 (ts.length / 188 + 1) ts with
    | some c => pure c | none => throw "not-whole-packets"
  match chunks with
  | p1 :: p2 :: media =>
    if (parseProgram p1 p2).isNone then throw "pat-pmt"
    let pkts ← match parsePackets media with
      | some ps => pure ps | none => throw "ts-packet-malformed"
    if ¬ pkts.all (fun k => pids.contains k.pid) then throw "unknown-pid"
    for pid in pids do
      if ¬ ccChain 0 (pkts.filter (·.pid == pid)) then throw "continuity"
      let pes ← match demuxPid pid pkts with
        | some l => pure l | none => throw "pes-malformed"
      zipCheck "raw" checkRawPes (srcs.filter (fun s => s.pid = pid ∧ ¬ s.data.isEmpty)) pes
    if (pkts.filter (·.pusi)).map (·.pid) ≠ (srcs.filter (fun s => ¬ s.data.isEmpty)).map (·.pid) then
      throw "frame-order"
  | _ => throw "no-pat-pmt"

end IpcHub.TsSpec
