/-
Specification side of C15 for H.265: ITU-T H.265 (02/2018) 7.3.1.2 (NAL unit header),
7.3.2.1 (video_parameter_set_rbsp), 7.3.2.2.1 (seq_parameter_set_rbsp), 7.3.3
(profile_tier_level), 7.3.4 (scaling_list_data), 7.3.7 (st_ref_pic_set) with the derivation
7.4.8 of NumNegativePics / NumPositivePics / NumDeltaPocs, E.2.1 (vui_parameters), E.2.2
(hrd_parameters), E.2.3 (sub_layer_hrd_parameters) as bit-exact *encoders* of syntax trees,
and the picture size / picture rate the standard derives (7.4.3.2.1 conformance window with Table 6-1, E.3.1).  Written from the standard, independently of the Go
parser.  Core Lean only.
-/
import IpcHub.Spec.BitSyntax
namespace IpcHub.HevcSyntax
open IpcHub.BitSyntax

/-! ### syntax trees -/

/-- the profile part of profile_tier_level(): 88 bits -/
structure ProfileSyn where
  profile_space : Nat := 0
  tier_flag : Bool := false
  profile_idc : Nat := 1
  /-- general_profile_compatibility_flag[0 … 31], flag 0 first, as a 32-bit number -/
  compat : Nat := 0x60000000
  progressive_source_flag : Bool := true
  interlaced_source_flag : Bool := false
  non_packed_constraint_flag : Bool := false
  frame_only_constraint_flag : Bool := true
  /-- the 43 bits that follow (profile dependent constraint flags and reserved zero bits) -/
  constraint43 : Nat := 0
  /-- general_inbld_flag / general_reserved_zero_bit -/
  inbld : Bool := false
deriving Repr, DecidableEq

structure SubLayerSyn where
  profile_present_flag : Bool := false
  level_present_flag : Bool := false
  profile : ProfileSyn := {}
  level_idc : Nat := 0
deriving Repr, DecidableEq

structure PtlSyn where
  general : ProfileSyn := {}
  general_level_idc : Nat := 93
  /-- one entry per sub-layer below the highest: max_sub_layers_minus1 entries -/
  sub_layers : List SubLayerSyn := []
deriving Repr, DecidableEq

/-- one SchedSelIdx of sub_layer_hrd_parameters() -/
structure CpbSyn where
  bit_rate_value_minus1 : Nat := 0
  cpb_size_value_minus1 : Nat := 0
  cpb_size_du_value_minus1 : Nat := 0
  bit_rate_du_value_minus1 : Nat := 0
  cbr_flag : Bool := false
deriving Repr, DecidableEq

structure HrdSubLayerSyn where
  fixed_pic_rate_general_flag : Bool := false
  fixed_pic_rate_within_cvs_flag : Bool := false
  elemental_duration_in_tc_minus1 : Nat := 0
  low_delay_hrd_flag : Bool := false
  cpb_cnt_minus1 : Nat := 0
  nal : List CpbSyn := []
  vcl : List CpbSyn := []
deriving Repr, DecidableEq

structure HrdSyn where
  nal_hrd_parameters_present_flag : Bool := false
  vcl_hrd_parameters_present_flag : Bool := false
  sub_pic_hrd_params_present_flag : Bool := false
  tick_divisor_minus2 : Nat := 0
  du_cpb_removal_delay_increment_length_minus1 : Nat := 0
  sub_pic_cpb_params_in_pic_timing_sei_flag : Bool := false
  dpb_output_delay_du_length_minus1 : Nat := 0
  bit_rate_scale : Nat := 0
  cpb_size_scale : Nat := 0
  cpb_size_du_scale : Nat := 0
  initial_cpb_removal_delay_length_minus1 : Nat := 23
  au_cpb_removal_delay_length_minus1 : Nat := 23
  dpb_output_delay_length_minus1 : Nat := 23
  /-- maxNumSubLayersMinus1 + 1 entries -/
  sub_layers : List HrdSubLayerSyn := []
deriving Repr, DecidableEq

/-- scaling_list_data(): one (sizeId, matrixId) -/
inductive ScalingSyn where
  /-- scaling_list_pred_mode_flag = 0: scaling_list_pred_matrix_id_delta -/
  | pred (delta : Nat)
  /-- scaling_list_pred_mode_flag = 1: [scaling_list_dc_coef_minus8 when sizeId > 1] and coefNum × scaling_list_delta_coef -/
  | coded (dc : Int) (coefs : List Int)
deriving Repr, DecidableEq

/-- st_ref_pic_set(stRpsIdx) inside the SPS -/
inductive StRpsSyn where
  /-- inter_ref_pic_set_prediction_flag = 0: (delta_poc_s0_minus1, used_by_curr_pic_s0_flag)*, (…s1…)* -/
  | explicit (s0 s1 : List (Nat × Bool))
  /-- inter_ref_pic_set_prediction_flag = 1 (RefRpsIdx = stRpsIdx − 1): delta_rps_sign, abs_delta_rps_minus1,
      (used_by_curr_pic_flag[j], use_delta_flag[j]) for j = 0 … NumDeltaPocs[RefRpsIdx]
      (use_delta_flag is coded only when used_by_curr_pic_flag = 0, else inferred 1) -/
  | inter (sign : Bool) (abs_delta_rps_minus1 : Nat) (flags : List (Bool × Bool))
deriving Repr, DecidableEq

structure VuiSyn where
  aspect_ratio_info_present_flag : Bool := false
  aspect_ratio_idc : Nat := 0
  sar_width : Nat := 0
  sar_height : Nat := 0
  overscan_info_present_flag : Bool := false
  overscan_appropriate_flag : Bool := false
  video_signal_type_present_flag : Bool := false
  video_format : Nat := 5
  video_full_range_flag : Bool := false
  colour_description_present_flag : Bool := false
  colour_primaries : Nat := 2
  transfer_characteristics : Nat := 2
  matrix_coeffs : Nat := 2
  chroma_loc_info_present_flag : Bool := false
  chroma_sample_loc_type_top_field : Nat := 0
  chroma_sample_loc_type_bottom_field : Nat := 0
  neutral_chroma_indication_flag : Bool := false
  field_seq_flag : Bool := false
  frame_field_info_present_flag : Bool := false
  default_display_window_flag : Bool := false
  def_disp_win_left_offset : Nat := 0
  def_disp_win_right_offset : Nat := 0
  def_disp_win_top_offset : Nat := 0
  def_disp_win_bottom_offset : Nat := 0
  vui_timing_info_present_flag : Bool := false
  vui_num_units_in_tick : Nat := 0
  vui_time_scale : Nat := 0
  vui_poc_proportional_to_timing_flag : Bool := false
  vui_num_ticks_poc_diff_one_minus1 : Nat := 0
  vui_hrd_parameters_present_flag : Bool := false
  hrd : HrdSyn := {}
  bitstream_restriction_flag : Bool := false
  tiles_fixed_structure_flag : Bool := false
  motion_vectors_over_pic_boundaries_flag : Bool := true
  restricted_ref_pic_lists_flag : Bool := false
  min_spatial_segmentation_idc : Nat := 0
  max_bytes_per_pic_denom : Nat := 2
  max_bits_per_min_cu_denom : Nat := 1
  log2_max_mv_length_horizontal : Nat := 15
  log2_max_mv_length_vertical : Nat := 15
deriving Repr, DecidableEq

structure SpsSyn where
  nuh_layer_id : Nat := 0
  nuh_temporal_id_plus1 : Nat := 1
  sps_video_parameter_set_id : Nat := 0
  /-- sps_max_sub_layers_minus1 is `ptl.sub_layers.length` -/
  sps_temporal_id_nesting_flag : Bool := true
  ptl : PtlSyn := {}
  sps_seq_parameter_set_id : Nat := 0
  chroma_format_idc : Nat := 1
  separate_colour_plane_flag : Bool := false
  pic_width_in_luma_samples : Nat := 16
  pic_height_in_luma_samples : Nat := 16
  conformance_window_flag : Bool := false
  conf_win_left_offset : Nat := 0
  conf_win_right_offset : Nat := 0
  conf_win_top_offset : Nat := 0
  conf_win_bottom_offset : Nat := 0
  bit_depth_luma_minus8 : Nat := 0
  bit_depth_chroma_minus8 : Nat := 0
  log2_max_pic_order_cnt_lsb_minus4 : Nat := 4
  sps_sub_layer_ordering_info_present_flag : Bool := true
  /-- (sps_max_dec_pic_buffering_minus1, sps_max_num_reorder_pics, sps_max_latency_increase_plus1):
      max_sub_layers_minus1 + 1 entries when the flag is 1, one entry (the highest sub-layer) when 0 -/
  ordering : List (Nat × Nat × Nat) := [(0, 0, 0)]
  log2_min_luma_coding_block_size_minus3 : Nat := 0
  log2_diff_max_min_luma_coding_block_size : Nat := 0
  log2_min_luma_transform_block_size_minus2 : Nat := 0
  log2_diff_max_min_luma_transform_block_size : Nat := 0
  max_transform_hierarchy_depth_inter : Nat := 0
  max_transform_hierarchy_depth_intra : Nat := 0
  scaling_list_enabled_flag : Bool := false
  sps_scaling_list_data_present_flag : Bool := false
  /-- scaling_list_data(): sizeId 0, 1, 2 × matrixId 0 … 5, then sizeId 3 × matrixId 0, 3 — 20 entries -/
  scaling_list : List ScalingSyn := []
  amp_enabled_flag : Bool := false
  sample_adaptive_offset_enabled_flag : Bool := false
  pcm_enabled_flag : Bool := false
  pcm_sample_bit_depth_luma_minus1 : Nat := 0
  pcm_sample_bit_depth_chroma_minus1 : Nat := 0
  log2_min_pcm_luma_coding_block_size_minus3 : Nat := 0
  log2_diff_max_min_pcm_luma_coding_block_size : Nat := 0
  pcm_loop_filter_disabled_flag : Bool := false
  /-- num_short_term_ref_pic_sets is the length -/
  st_ref_pic_sets : List StRpsSyn := []
  long_term_ref_pics_present_flag : Bool := false
  /-- (lt_ref_pic_poc_lsb_sps[i] u(v), used_by_curr_pic_lt_sps_flag[i]); num_long_term_ref_pics_sps is the length -/
  long_term : List (Nat × Bool) := []
  sps_temporal_mvp_enabled_flag : Bool := false
  strong_intra_smoothing_enabled_flag : Bool := false
  vui_parameters_present_flag : Bool := false
  vui : VuiSyn := {}
  sps_extension_present_flag : Bool := false
  sps_range_extension_flag : Bool := false
  sps_multilayer_extension_flag : Bool := false
  sps_3d_extension_flag : Bool := false
  sps_scc_extension_flag : Bool := false
  sps_extension_4bits : Nat := 0
deriving Repr, DecidableEq

/-! ### encoders -/

/-- the two bytes of nal_unit_header() (7.3.1.2): forbidden_zero_bit, nal_unit_type u(6), nuh_layer_id u(6),
    nuh_temporal_id_plus1 u(3) -/
def nalHeaderBits (nalType layerId tidPlus1 : Nat) : List Bool :=
  flag false ++ u 6 nalType ++ u 6 layerId ++ u 3 tidPlus1



def encProfile (p : ProfileSyn) : List Bool :=
  u 2 p.profile_space ++ flag p.tier_flag ++ u 5 p.profile_idc ++ u 32 p.compat ++
  flag p.progressive_source_flag ++ flag p.interlaced_source_flag ++ flag p.non_packed_constraint_flag ++
  flag p.frame_only_constraint_flag ++ u 43 p.constraint43 ++ flag p.inbld

def encSubLayerFlags : List SubLayerSyn → List Bool
  | [] => []
  | s :: rest => flag s.profile_present_flag ++ flag s.level_present_flag ++ encSubLayerFlags rest

def encSubLayerBodies : List SubLayerSyn → List Bool
  | [] => []
  | s :: rest =>
    (if s.profile_present_flag then encProfile s.profile else []) ++
    (if s.level_present_flag then u 8 s.level_idc else []) ++ encSubLayerBodies rest

/-- profile_tier_level(1, maxNumSubLayersMinus1), 7.3.3 -/
def encPtl (p : PtlSyn) : List Bool :=
  encProfile p.general ++ u 8 p.general_level_idc ++ encSubLayerFlags p.sub_layers ++
  (if p.sub_layers.length > 0 then List.replicate (2 * (8 - p.sub_layers.length)) false else []) ++   -- reserved_zero_2bits
  encSubLayerBodies p.sub_layers

def encCpbs (subPic : Bool) : List CpbSyn → List Bool
  | [] => []
  | c :: rest =>
    ue c.bit_rate_value_minus1 ++ ue c.cpb_size_value_minus1 ++
    (if subPic then ue c.cpb_size_du_value_minus1 ++ ue c.bit_rate_du_value_minus1 else []) ++
    flag c.cbr_flag ++ encCpbs subPic rest

def encHrdSubLayers (nal vcl subPic : Bool) : List HrdSubLayerSyn → List Bool
  | [] => []
  | s :: rest =>
    flag s.fixed_pic_rate_general_flag ++
    (if s.fixed_pic_rate_general_flag then [] else flag s.fixed_pic_rate_within_cvs_flag) ++
    (if s.fixed_pic_rate_general_flag || s.fixed_pic_rate_within_cvs_flag then ue s.elemental_duration_in_tc_minus1
     else flag s.low_delay_hrd_flag) ++
    (if !(s.fixed_pic_rate_general_flag || s.fixed_pic_rate_within_cvs_flag) && s.low_delay_hrd_flag then []
     else ue s.cpb_cnt_minus1) ++
    (if nal then encCpbs subPic s.nal else []) ++ (if vcl then encCpbs subPic s.vcl else []) ++
    encHrdSubLayers nal vcl subPic rest

/-- the commonInfPresentFlag part of hrd_parameters() -/
def encHrdCommon (h : HrdSyn) : List Bool :=
  flag h.nal_hrd_parameters_present_flag ++ flag h.vcl_hrd_parameters_present_flag ++
  (if h.nal_hrd_parameters_present_flag || h.vcl_hrd_parameters_present_flag then
    flag h.sub_pic_hrd_params_present_flag ++
    (if h.sub_pic_hrd_params_present_flag then
      u 8 h.tick_divisor_minus2 ++ u 5 h.du_cpb_removal_delay_increment_length_minus1 ++
      flag h.sub_pic_cpb_params_in_pic_timing_sei_flag ++ u 5 h.dpb_output_delay_du_length_minus1 else []) ++
    u 4 h.bit_rate_scale ++ u 4 h.cpb_size_scale ++
    (if h.sub_pic_hrd_params_present_flag then u 4 h.cpb_size_du_scale else []) ++
    u 5 h.initial_cpb_removal_delay_length_minus1 ++ u 5 h.au_cpb_removal_delay_length_minus1 ++
    u 5 h.dpb_output_delay_length_minus1
   else [])

/-- hrd_parameters(commonInfPresentFlag, maxNumSubLayersMinus1), E.2.2 -/
def encHrdC (common : Bool) (h : HrdSyn) : List Bool :=
  (if common then encHrdCommon h else []) ++
  encHrdSubLayers h.nal_hrd_parameters_present_flag h.vcl_hrd_parameters_present_flag
    ((h.nal_hrd_parameters_present_flag || h.vcl_hrd_parameters_present_flag) && h.sub_pic_hrd_params_present_flag) h.sub_layers

def encHrd (h : HrdSyn) : List Bool := encHrdC true h

def encOrdering : List (Nat × Nat × Nat) → List Bool
  | [] => []
  | (a, b, c) :: rest => ue a ++ ue b ++ ue c ++ encOrdering rest

def encSes : List Int → List Bool
  | [] => []
  | d :: ds => se d ++ encSes ds

/-- scaling_list_data() entries in order; `k` is the position 0 … 19 (sizeId = k / 6, and 3 for k ≥ 18) -/
def encScaling : Nat → List ScalingSyn → List Bool
  | _, [] => []
  | k, .pred d :: rest => flag false ++ ue d ++ encScaling (k + 1) rest
  | k, .coded dc cs :: rest =>
    flag true ++ (if k ≥ 12 then se dc else []) ++ encSes cs ++ encScaling (k + 1) rest

def encRpsEntries : List (Nat × Bool) → List Bool
  | [] => []
  | (d, u) :: rest => ue d ++ flag u ++ encRpsEntries rest

def encRpsFlags : List (Bool × Bool) → List Bool
  | [] => []
  | (used, useDelta) :: rest => flag used ++ (if used then [] else flag useDelta) ++ encRpsFlags rest

/-- st_ref_pic_set(stRpsIdx), 7.3.7 (inside the SPS: no delta_idx_minus1) -/
def encStRps (idx : Nat) : StRpsSyn → List Bool
  | .explicit s0 s1 =>
    (if idx ≠ 0 then flag false else []) ++ ue s0.length ++ ue s1.length ++ encRpsEntries s0 ++ encRpsEntries s1
  | .inter sign abs flags =>
    flag true ++ flag sign ++ ue abs ++ encRpsFlags flags

def encStRpsList : Nat → List StRpsSyn → List Bool
  | _, [] => []
  | idx, r :: rest => encStRps idx r ++ encStRpsList (idx + 1) rest

def encLongTerm (bits : Nat) : List (Nat × Bool) → List Bool
  | [] => []
  | (v, u') :: rest => u bits v ++ flag u' ++ encLongTerm bits rest

def encAspect (v : VuiSyn) : List Bool :=
  flag v.aspect_ratio_info_present_flag ++
  (if v.aspect_ratio_info_present_flag then
    u 8 v.aspect_ratio_idc ++ (if v.aspect_ratio_idc = 255 then u 16 v.sar_width ++ u 16 v.sar_height else []) else [])

def encOverscan (v : VuiSyn) : List Bool :=
  flag v.overscan_info_present_flag ++ (if v.overscan_info_present_flag then flag v.overscan_appropriate_flag else [])

def encSignal (v : VuiSyn) : List Bool :=
  flag v.video_signal_type_present_flag ++
  (if v.video_signal_type_present_flag then
    u 3 v.video_format ++ flag v.video_full_range_flag ++ flag v.colour_description_present_flag ++
    (if v.colour_description_present_flag then
      u 8 v.colour_primaries ++ u 8 v.transfer_characteristics ++ u 8 v.matrix_coeffs else []) else [])

def encChromaLoc (v : VuiSyn) : List Bool :=
  flag v.chroma_loc_info_present_flag ++
  (if v.chroma_loc_info_present_flag then
    ue v.chroma_sample_loc_type_top_field ++ ue v.chroma_sample_loc_type_bottom_field else [])

def encWindow (v : VuiSyn) : List Bool :=
  flag v.default_display_window_flag ++
  (if v.default_display_window_flag then
    ue v.def_disp_win_left_offset ++ ue v.def_disp_win_right_offset ++ ue v.def_disp_win_top_offset ++
    ue v.def_disp_win_bottom_offset else [])

def encTiming (v : VuiSyn) : List Bool :=
  flag v.vui_timing_info_present_flag ++
  (if v.vui_timing_info_present_flag then
    u 32 v.vui_num_units_in_tick ++ u 32 v.vui_time_scale ++ flag v.vui_poc_proportional_to_timing_flag ++
    (if v.vui_poc_proportional_to_timing_flag then ue v.vui_num_ticks_poc_diff_one_minus1 else []) ++
    flag v.vui_hrd_parameters_present_flag ++ (if v.vui_hrd_parameters_present_flag then encHrd v.hrd else []) else [])

def encRestriction (v : VuiSyn) : List Bool :=
  flag v.bitstream_restriction_flag ++
  (if v.bitstream_restriction_flag then
    flag v.tiles_fixed_structure_flag ++ flag v.motion_vectors_over_pic_boundaries_flag ++
    flag v.restricted_ref_pic_lists_flag ++ ue v.min_spatial_segmentation_idc ++ ue v.max_bytes_per_pic_denom ++
    ue v.max_bits_per_min_cu_denom ++ ue v.log2_max_mv_length_horizontal ++ ue v.log2_max_mv_length_vertical else [])

/-- vui_parameters(), E.2.1 -/
def encVui (v : VuiSyn) : List Bool :=
  encAspect v ++ encOverscan v ++ encSignal v ++ encChromaLoc v ++
  flag v.neutral_chroma_indication_flag ++ flag v.field_seq_flag ++ flag v.frame_field_info_present_flag ++
  encWindow v ++ encTiming v ++ encRestriction v

/-- sps_video_parameter_set_id … conformance window -/
def encSpsHead (s : SpsSyn) : List Bool :=
  u 4 s.sps_video_parameter_set_id ++ u 3 s.ptl.sub_layers.length ++ flag s.sps_temporal_id_nesting_flag ++
  encPtl s.ptl ++ ue s.sps_seq_parameter_set_id ++ ue s.chroma_format_idc ++
  (if s.chroma_format_idc = 3 then flag s.separate_colour_plane_flag else []) ++
  ue s.pic_width_in_luma_samples ++ ue s.pic_height_in_luma_samples ++ flag s.conformance_window_flag ++
  (if s.conformance_window_flag then
    ue s.conf_win_left_offset ++ ue s.conf_win_right_offset ++ ue s.conf_win_top_offset ++ ue s.conf_win_bottom_offset
   else [])

def encScalingPart (s : SpsSyn) : List Bool :=
  flag s.scaling_list_enabled_flag ++
  (if s.scaling_list_enabled_flag then
    flag s.sps_scaling_list_data_present_flag ++
    (if s.sps_scaling_list_data_present_flag then encScaling 0 s.scaling_list else []) else [])

def encPcm (s : SpsSyn) : List Bool :=
  flag s.pcm_enabled_flag ++
  (if s.pcm_enabled_flag then
    u 4 s.pcm_sample_bit_depth_luma_minus1 ++ u 4 s.pcm_sample_bit_depth_chroma_minus1 ++
    ue s.log2_min_pcm_luma_coding_block_size_minus3 ++ ue s.log2_diff_max_min_pcm_luma_coding_block_size ++
    flag s.pcm_loop_filter_disabled_flag else [])

def encLongTermPart (s : SpsSyn) : List Bool :=
  flag s.long_term_ref_pics_present_flag ++
  (if s.long_term_ref_pics_present_flag then
    ue s.long_term.length ++ encLongTerm (s.log2_max_pic_order_cnt_lsb_minus4 + 4) s.long_term else [])

def encVuiPart (s : SpsSyn) : List Bool :=
  flag s.vui_parameters_present_flag ++ (if s.vui_parameters_present_flag then encVui s.vui else [])

def encExt (s : SpsSyn) : List Bool :=
  flag s.sps_extension_present_flag ++
  (if s.sps_extension_present_flag then
    flag s.sps_range_extension_flag ++ flag s.sps_multilayer_extension_flag ++ flag s.sps_3d_extension_flag ++
    flag s.sps_scc_extension_flag ++ u 4 s.sps_extension_4bits else [])

def encCoding (s : SpsSyn) : List Bool :=
  ue s.log2_min_luma_coding_block_size_minus3 ++ ue s.log2_diff_max_min_luma_coding_block_size ++
  ue s.log2_min_luma_transform_block_size_minus2 ++ ue s.log2_diff_max_min_luma_transform_block_size ++
  ue s.max_transform_hierarchy_depth_inter ++ ue s.max_transform_hierarchy_depth_intra

/-- bit depths … sps_extension flags -/
def encSpsBody (s : SpsSyn) : List Bool :=
  ue s.bit_depth_luma_minus8 ++ ue s.bit_depth_chroma_minus8 ++ ue s.log2_max_pic_order_cnt_lsb_minus4 ++
  flag s.sps_sub_layer_ordering_info_present_flag ++ encOrdering s.ordering ++
  encCoding s ++ encScalingPart s ++
  flag s.amp_enabled_flag ++ flag s.sample_adaptive_offset_enabled_flag ++ encPcm s ++
  ue s.st_ref_pic_sets.length ++ encStRpsList 0 s.st_ref_pic_sets ++
  encLongTermPart s ++
  flag s.sps_temporal_mvp_enabled_flag ++ flag s.strong_intra_smoothing_enabled_flag ++
  encVuiPart s ++ encExt s

def encSpsData (s : SpsSyn) : List Bool := encSpsHead s ++ encSpsBody s

/-- seq_parameter_set_rbsp(): data + rbsp_trailing_bits() -/
def encSpsRbsp (s : SpsSyn) : List Bool := encSpsData s ++ trailing (encSpsData s).length

/-- the NAL unit: two header bytes (nal_unit_type 33), then the RBSP bytes with emulation prevention -/
def encSpsNal (s : SpsSyn) : List UInt8 :=
  pack (nalHeaderBits 33 s.nuh_layer_id s.nuh_temporal_id_plus1) ++ insertEpb (pack (encSpsRbsp s))

/-! ### VPS -/

structure VpsSyn where
  nuh_layer_id : Nat := 0
  nuh_temporal_id_plus1 : Nat := 1
  vps_video_parameter_set_id : Nat := 0
  vps_base_layer_internal_flag : Bool := true
  vps_base_layer_available_flag : Bool := true
  vps_max_layers_minus1 : Nat := 0
  /-- vps_max_sub_layers_minus1 is `ptl.sub_layers.length` -/
  vps_temporal_id_nesting_flag : Bool := true
  ptl : PtlSyn := {}
  vps_sub_layer_ordering_info_present_flag : Bool := true
  ordering : List (Nat × Nat × Nat) := [(0, 0, 0)]
  vps_max_layer_id : Nat := 0
  /-- layer_id_included_flag[i][0 … vps_max_layer_id] for i = 1 … vps_num_layer_sets_minus1 -/
  layer_sets : List (List Bool) := []
  vps_timing_info_present_flag : Bool := false
  vps_num_units_in_tick : Nat := 0
  vps_time_scale : Nat := 0
  vps_poc_proportional_to_timing_flag : Bool := false
  vps_num_ticks_poc_diff_one_minus1 : Nat := 0
  /-- (hrd_layer_set_idx[i], cprms_present_flag[i] (coded for i > 0, 1 for i = 0), hrd_parameters) -/
  hrds : List (Nat × Bool × HrdSyn) := []
  vps_extension_flag : Bool := false
deriving Repr, DecidableEq

def encLayerSets : List (List Bool) → List Bool
  | [] => []
  | row :: rest => row ++ encLayerSets rest

def encVpsHrds : Nat → List (Nat × Bool × HrdSyn) → List Bool
  | _, [] => []
  | i, (idx, cprms, h) :: rest =>
    ue idx ++ (if i > 0 then flag cprms else []) ++ encHrdC (i = 0 || cprms) h ++ encVpsHrds (i + 1) rest

def encVpsTiming (v : VpsSyn) : List Bool :=
  flag v.vps_timing_info_present_flag ++
  (if v.vps_timing_info_present_flag then
    u 32 v.vps_num_units_in_tick ++ u 32 v.vps_time_scale ++ flag v.vps_poc_proportional_to_timing_flag ++
    (if v.vps_poc_proportional_to_timing_flag then ue v.vps_num_ticks_poc_diff_one_minus1 else []) ++
    ue v.hrds.length ++ encVpsHrds 0 v.hrds else [])

/-- video_parameter_set_rbsp() without trailing bits, 7.3.2.1 -/
def encVpsData (v : VpsSyn) : List Bool :=
  u 4 v.vps_video_parameter_set_id ++ flag v.vps_base_layer_internal_flag ++ flag v.vps_base_layer_available_flag ++
  u 6 v.vps_max_layers_minus1 ++ u 3 v.ptl.sub_layers.length ++ flag v.vps_temporal_id_nesting_flag ++
  u 16 0xffff ++ encPtl v.ptl ++ flag v.vps_sub_layer_ordering_info_present_flag ++ encOrdering v.ordering ++
  u 6 v.vps_max_layer_id ++ ue v.layer_sets.length ++ encLayerSets v.layer_sets ++
  encVpsTiming v ++ flag v.vps_extension_flag

def encVpsRbsp (v : VpsSyn) : List Bool := encVpsData v ++ trailing (encVpsData v).length

def encVpsNal (v : VpsSyn) : List UInt8 :=
  pack (nalHeaderBits 32 v.nuh_layer_id v.nuh_temporal_id_plus1) ++ insertEpb (pack (encVpsRbsp v))

/-! ### what the standard derives -/

/-- SubWidthC / SubHeightC by chroma_format_idc (Table 6-1; separate_colour_plane_flag does not change them) -/
def subWidthC (s : SpsSyn) : Nat :=
  if s.chroma_format_idc = 1 ∨ s.chroma_format_idc = 2 then 2 else 1
def subHeightC (s : SpsSyn) : Nat :=
  if s.chroma_format_idc = 1 then 2 else 1

/-- width of the output (conformance-window cropped) picture in luma samples:
    pic_width_in_luma_samples − SubWidthC·(conf_win_left_offset + conf_win_right_offset) (7.4.3.2.1) -/
def croppedWidth (s : SpsSyn) : Int :=
  Int.ofNat s.pic_width_in_luma_samples -
    (if s.conformance_window_flag then Int.ofNat (subWidthC s * (s.conf_win_left_offset + s.conf_win_right_offset)) else 0)

def croppedHeight (s : SpsSyn) : Int :=
  Int.ofNat s.pic_height_in_luma_samples -
    (if s.conformance_window_flag then Int.ofNat (subHeightC s * (s.conf_win_top_offset + s.conf_win_bottom_offset)) else 0)

/-- picture rate vui_time_scale / vui_num_units_in_tick (E.3.1: one clock tick per picture), when the SPS
    carries timing information -/
def frameRate (s : SpsSyn) : Option (Nat × Nat) :=
  if s.vui_parameters_present_flag ∧ s.vui.vui_timing_info_present_flag ∧ s.vui.vui_num_units_in_tick ≠ 0
  then some (s.vui.vui_time_scale, s.vui.vui_num_units_in_tick) else none

/-- what the CODE takes for "fixed rate" (hevc/sps.go IsFixedFrameRate, `FrameRate() > 0`, marked TODO there): timing
    information present with a non-zero tick and time scale.  This is NOT the standard's definition, see
    `fixedFrameRateStd`; the two agree on the trees of `RateAgree`. -/
def fixedFrameRate (s : SpsSyn) : Bool :=
  s.vui_parameters_present_flag && s.vui.vui_timing_info_present_flag &&
    decide (s.vui.vui_num_units_in_tick ≠ 0) && decide (s.vui.vui_time_scale ≠ 0)

/-- E.2.2 / E.3.2: the sub-layer HRD information for HighestTid = sps_max_sub_layers_minus1 (the last entry), when the
    VUI carries timing information and hrd_parameters() -/
def topHrdSubLayer (s : SpsSyn) : Option HrdSubLayerSyn :=
  if s.vui_parameters_present_flag && s.vui.vui_timing_info_present_flag && s.vui.vui_hrd_parameters_present_flag
  then s.vui.hrd.sub_layers.getLast? else none

/-- E.3.2: fixed_pic_rate_within_cvs_flag[HighestTid] (inferred 1 when fixed_pic_rate_general_flag is 1): "the temporal
    distance between the HRD output times of consecutive pictures in output order is constrained" -/
def fixedPicRate (s : SpsSyn) : Bool :=
  match topHrdSubLayer s with
  | some l => l.fixed_pic_rate_general_flag || l.fixed_pic_rate_within_cvs_flag
  | none => false

/-- The standard's "fixed rate" of an H.265 SPS: the picture rate is constrained to be constant exactly when
    fixed_pic_rate_within_cvs_flag[HighestTid] = 1 in the VUI's hrd_parameters() (and the clock is defined). -/
def fixedFrameRateStd (s : SpsSyn) : Bool := fixedFrameRate s && fixedPicRate s

/-- The standard's picture rate: with a fixed picture rate the distance between consecutive pictures is
    (elemental_duration_in_tc_minus1[HighestTid] + 1) clock ticks (E.3.2), so the rate is
    vui_time_scale / (vui_num_units_in_tick · (elemental_duration_in_tc_minus1 + 1)); without the constraint the clock
    tick rate `frameRate` is all the SPS tells. -/
def frameRateStd (s : SpsSyn) : Option (Nat × Nat) :=
  match topHrdSubLayer s with
  | some l =>
    if (l.fixed_pic_rate_general_flag || l.fixed_pic_rate_within_cvs_flag) then
      (frameRate s).map (fun (n, d) => (n, d * (l.elemental_duration_in_tc_minus1 + 1)))
    else frameRate s
  | none => frameRate s

/-- the trees on which the code's convention and the standard agree: timing information (non-zero tick and scale) comes
    with a fixed picture rate, and a fixed picture rate is one clock tick per picture -/
def RateAgree (s : SpsSyn) : Prop :=
  (fixedFrameRate s = true → fixedPicRate s = true) ∧
  (∀ l, topHrdSubLayer s = some l → (l.fixed_pic_rate_general_flag || l.fixed_pic_rate_within_cvs_flag) = true →
      l.elemental_duration_in_tc_minus1 = 0)

/-- class of a tree for the harness: which known difference between the code's convention and the standard applies -/
def rateClass (s : SpsSyn) : String :=
  if fixedFrameRate s && !fixedPicRate s then "hevc-fixed-rate-assumed-from-timing-info"
  else if frameRateStd s != frameRate s then "hevc-frame-rate-ignores-elemental-duration"
  else "agree"

/-! ### 7.4.8: the short-term reference picture sets as delta arrays -/

/-- DeltaPocS0 / DeltaPocS1 of one set, each with UsedByCurrPic -/
structure RpsArrays where
  s0 : List (Int × Bool) := []
  s1 : List (Int × Bool) := []
deriving Repr, DecidableEq

def RpsArrays.numDeltaPocs (a : RpsArrays) : Nat := a.s0.length + a.s1.length

/-- equations (7-65) … (7-70): explicit coding — running sums of delta_poc_sX_minus1 + 1 -/
def sumsOf (sign : Int) : Int → List (Nat × Bool) → List (Int × Bool)
  | _, [] => []
  | acc, (m, used) :: rest =>
    let v := acc + sign * (Int.ofNat m + 1)
    (v, used) :: sumsOf sign v rest

/-- the candidates of equations (7-61) / (7-62) in the order the standard visits them, as (dPoc, j):
    for S0: S1 of the reference backwards, deltaRps itself, S0 of the reference forwards -/
def candidatesS0 (ref : RpsArrays) (deltaRps : Int) : List (Int × Nat) :=
  ((ref.s1.zipIdx ref.s0.length).map (fun ((d, _), j) => (d + deltaRps, j))).reverse ++
  [(deltaRps, ref.numDeltaPocs)] ++
  (ref.s0.zipIdx 0).map (fun ((d, _), j) => (d + deltaRps, j))

def candidatesS1 (ref : RpsArrays) (deltaRps : Int) : List (Int × Nat) :=
  ((ref.s0.zipIdx 0).map (fun ((d, _), j) => (d + deltaRps, j))).reverse ++
  [(deltaRps, ref.numDeltaPocs)] ++
  (ref.s1.zipIdx ref.s0.length).map (fun ((d, _), j) => (d + deltaRps, j))

def pick (cond : Int → Bool) (flags : List (Bool × Bool)) : List (Int × Nat) → List (Int × Bool)
  | [] => []
  | (d, j) :: rest =>
    match flags[j]? with
    | some (used, useDelta) => if cond d && useDelta then (d, used) :: pick cond flags rest else pick cond flags rest
    | none => pick cond flags rest

/-- the arrays of set `r` given the arrays of the previous set -/
def arraysOf (prev : RpsArrays) : StRpsSyn → RpsArrays
  | .explicit s0 s1 => { s0 := sumsOf (-1) 0 s0, s1 := sumsOf 1 0 s1 }
  | .inter sign abs flags =>
    let deltaRps : Int := (1 - 2 * (if sign then 1 else 0)) * (Int.ofNat abs + 1)
    { s0 := pick (fun d => d < 0) flags (candidatesS0 prev deltaRps),
      s1 := pick (fun d => d > 0) flags (candidatesS1 prev deltaRps) }

/-- arrays of every set, in order -/
def allArrays : RpsArrays → List StRpsSyn → List RpsArrays
  | _, [] => []
  | prev, r :: rest => let a := arraysOf prev r; a :: allArrays a rest

end IpcHub.HevcSyntax
