/-
Specification side of C19 (port multiplexing), independent of the patricia tree and of the
sniffer: a decision rule over the *structured* first line (method, target, version) and the
statement "the service reads the original byte stream".  Core Lean only.

The method lists are written out here from the standards (RFC 2326 §10 for RTSP, RFC 7231 §4
+ RFC 5789 for HTTP), not taken from the code; `Props/C19.lean` proves that the lists
extracted from the source are these.
-/
namespace IpcHub.MuxSpec

local notation "Bytes" => List UInt8

def ascii (s : String) : Bytes := s.toUTF8.data.toList

inductive Proto where
  | rtsp | http | none
  deriving DecidableEq, Repr

/-- RTSP methods other than OPTIONS (RFC 2326 §10) -/
def rtspOnlyMethods : List Bytes :=
  ["DESCRIBE", "ANNOUNCE", "SETUP", "PLAY", "PAUSE", "TEARDOWN", "GET_PARAMETER",
   "SET_PARAMETER", "RECORD", "REDIRECT"].map ascii

/-- HTTP methods served on the shared port -/
def httpMethods : List Bytes :=
  ["OPTIONS", "GET", "HEAD", "POST", "PATCH", "PUT", "DELETE", "TRACE", "CONNECT"].map ascii

def optionsMethod : Bytes := ascii "OPTIONS"

/-- "an RTSP version": the protocol name of the version token is RTSP (either case spelling
    used on the wire by clients: `RTSP/1.0`, `rtsp/1.0`) -/
def isRtspVersion (v : Bytes) : Bool :=
  (ascii "RTSP").isPrefixOf v || (ascii "rtsp").isPrefixOf v

/-- "an rtsp:// URL" -/
def isRtspUrl (t : Bytes) : Bool :=
  (ascii "rtsp://").isPrefixOf t || (ascii "RTSP://").isPrefixOf t

/-- the rule of the property statement: an OPTIONS request is RTSP exactly when its target
    is `*` with an RTSP version, or an rtsp:// URL -/
def optionsIsRtsp (target version : Bytes) : Bool :=
  (target == ascii "*" && isRtspVersion version) || isRtspUrl target

/-- which service must get a connection whose first line is `method SP target SP version` -/
def classify (method target version : Bytes) : Proto :=
  if method == optionsMethod then
    if optionsIsRtsp target version then .rtsp else .http
  else if rtspOnlyMethods.contains method then .rtsp
  else if httpMethods.contains method then .http
  else .none

/-- the request line on the wire -/
def requestLine (method target version : Bytes) : Bytes :=
  method ++ [32] ++ target ++ [32] ++ version

/-- a method token of the grammar: no blank inside -/
def tokenOK (m : Bytes) : Bool := !m.contains 32

/-- some listed method is a proper prefix of the token (`GETX`, `PLAYLIST`): such extension
    tokens are outside the grammar the property quantifies over -/
def extendsListed (m : Bytes) : Bool :=
  (rtspOnlyMethods ++ httpMethods).any (fun k => k.isPrefixOf m && k != m)

end IpcHub.MuxSpec
