/-
What "the decoded structure equals the syntax tree, field by field" means for H.264:
`toRaw s` is the RawSPS a correct decoder must produce for the syntax tree `s` — every
element that is present with its value, every element that is absent with the value the
Go structure documents for it (zero, or the inferred value of the standard where the code
assigns one).  Used only to *state* the round-trip theorem.
-/
import IpcHub.Model.H264Sps
import IpcHub.Spec.H264Syntax
namespace IpcHub.H264Syntax
open IpcHub.H264

def hdrOf (s : SpsSyntax) : Header :=
  { forbiddenZeroBit := 0, nalRefIdc := s.nal_ref_idc, nalUnitType := 7, profileIdc := s.profile_idc,
    constraintSet0Flag := s.constraint_set0_flag.toNat, constraintSet1Flag := s.constraint_set1_flag.toNat,
    constraintSet2Flag := s.constraint_set2_flag.toNat, constraintSet3Flag := s.constraint_set3_flag.toNat,
    constraintSet4Flag := s.constraint_set4_flag.toNat, constraintSet5Flag := s.constraint_set5_flag.toNat,
    reservedZero2Bits := 0, levelIdc := s.level_idc, seqParameterSetID := s.seq_parameter_set_id }

def chromaOf (s : SpsSyntax) : ChromaInfo :=
  if hasChromaInfo s then
    { chromaFormatIdc := s.chroma_format_idc,
      separateColourPlaneFlag := if s.chroma_format_idc = 3 then s.separate_colour_plane_flag.toNat else 0,
      bitDepthLumaMinus8 := s.bit_depth_luma_minus8, bitDepthChromaMinus8 := s.bit_depth_chroma_minus8,
      qpprimeYZeroTransformBypassFlag := s.qpprime_y_zero_transform_bypass_flag.toNat,
      seqScalingMatrixPresentFlag := s.seq_scaling_matrix_present_flag.toNat,
      seqScalingListPresentFlag := if s.seq_scaling_matrix_present_flag then s.scaling_lists.map (fun o => o.isSome.toNat) else [],
      scalingLists := if s.seq_scaling_matrix_present_flag then s.scaling_lists.map (fun o => o.getD []) else [] }
  else { chromaFormatIdc := 1 }     -- inferred 4:2:0 (7.4.2.1.1)

def pocOf (s : SpsSyntax) : PocInfo :=
  if s.pic_order_cnt_type = 0 then
    { log2MaxFrameNumMinus4 := s.log2_max_frame_num_minus4, picOrderCntType := 0,
      log2MaxPicOrderCntLsbMinus4 := s.log2_max_pic_order_cnt_lsb_minus4 }
  else if s.pic_order_cnt_type = 1 then
    { log2MaxFrameNumMinus4 := s.log2_max_frame_num_minus4, picOrderCntType := 1,
      deltaPicOrderAlwaysZeroFlag := s.delta_pic_order_always_zero_flag.toNat,
      offsetForNonRefPic := s.offset_for_non_ref_pic, offsetForTopToBottomField := s.offset_for_top_to_bottom_field,
      numRefFramesInPicOrderCntCycle := s.offset_for_ref_frame.length, offsetForRefFrame := s.offset_for_ref_frame }
  else { log2MaxFrameNumMinus4 := s.log2_max_frame_num_minus4, picOrderCntType := s.pic_order_cnt_type }

def frameOf (s : SpsSyntax) : FrameInfo :=
  { maxNumRefFrames := s.max_num_ref_frames, gapsInFrameNumAllowedFlag := s.gaps_in_frame_num_value_allowed_flag.toNat,
    picWidthInMbsMinus1 := s.pic_width_in_mbs_minus1, picHeightInMapUnitsMinus1 := s.pic_height_in_map_units_minus1,
    frameMbsOnlyFlag := s.frame_mbs_only_flag.toNat,
    mbAdaptiveFrameFieldFlag := if s.frame_mbs_only_flag then 0 else s.mb_adaptive_frame_field_flag.toNat,
    direct8x8InferenceFlag := s.direct_8x8_inference_flag.toNat, frameCroppingFlag := s.frame_cropping_flag.toNat,
    frameCropLeftOffset := cropL s, frameCropRightOffset := cropR s, frameCropTopOffset := cropT s, frameCropBottomOffset := cropB s }

def hrdOf (h : HrdSyntax) : Hrd :=
  { cpbCntMinus1 := h.cpb.length - 1, bitRateScale := h.bit_rate_scale, cpbSizeScale := h.cpb_size_scale,
    entries := h.cpb.map (fun (a, b, c) => (a, b, c.toNat)),
    initialCpbRemovalDelayLengthMinus1 := h.initial_cpb_removal_delay_length_minus1,
    cpbRemovalDelayLengthMinus1 := h.cpb_removal_delay_length_minus1,
    dpbOutputDelayLengthMinus1 := h.dpb_output_delay_length_minus1, timeOffsetLength := h.time_offset_length }

/-- MaxDpbFrames-derived inference of max_num_reorder_frames / max_dec_frame_buffering (E.2.1) as the code has it -/
def inferredDpbOf (s : SpsSyntax) : Nat :=
  if [44, 86, 100, 110, 122, 244].contains s.profile_idc ∧ s.constraint_set3_flag = true then 0 else 16

def vuiOf (s : SpsSyntax) : Vui :=
  let v := s.vui
  if s.vui_parameters_present_flag then
    { aspectRatioInfoPresentFlag := v.aspect_ratio_info_present_flag.toNat,
      aspectRatioIdc := if v.aspect_ratio_info_present_flag then v.aspect_ratio_idc else 0,
      sarWidth := if v.aspect_ratio_info_present_flag ∧ v.aspect_ratio_idc = 255 then v.sar_width else 0,
      sarHeight := if v.aspect_ratio_info_present_flag ∧ v.aspect_ratio_idc = 255 then v.sar_height else 0,
      overscanInfoPresentFlag := v.overscan_info_present_flag.toNat,
      overscanAppropriateFlag := if v.overscan_info_present_flag then v.overscan_appropriate_flag.toNat else 0,
      videoSignalTypePresentFlag := v.video_signal_type_present_flag.toNat,
      videoFormat := if v.video_signal_type_present_flag then v.video_format else 5,
      videoFullRangeFlag := if v.video_signal_type_present_flag then v.video_full_range_flag.toNat else 0,
      colourDescriptionPresentFlag := if v.video_signal_type_present_flag then v.colour_description_present_flag.toNat else 0,
      colourPrimaries := if v.video_signal_type_present_flag then (if v.colour_description_present_flag then v.colour_primaries else 0) else 2,
      transferCharacteristics := if v.video_signal_type_present_flag then (if v.colour_description_present_flag then v.transfer_characteristics else 0) else 2,
      matrixCoefficients := if v.video_signal_type_present_flag then (if v.colour_description_present_flag then v.matrix_coefficients else 0) else 2,
      chromaLocInfoPresentFlag := v.chroma_loc_info_present_flag.toNat,
      chromaSampleLocTypeTopField := if v.chroma_loc_info_present_flag then v.chroma_sample_loc_type_top_field else 0,
      chromaSampleLocTypeBottomField := if v.chroma_loc_info_present_flag then v.chroma_sample_loc_type_bottom_field else 0,
      timingInfoPresentFlag := v.timing_info_present_flag.toNat,
      numUnitsInTick := if v.timing_info_present_flag then v.num_units_in_tick else 0,
      timeScale := if v.timing_info_present_flag then v.time_scale else 0,
      fixedFrameRateFlag := if v.timing_info_present_flag then v.fixed_frame_rate_flag.toNat else 0,
      nalHrdParametersPresentFlag := v.nal_hrd_parameters_present_flag.toNat,
      nalHrd := if v.nal_hrd_parameters_present_flag then hrdOf v.nal_hrd else {},
      vclHrdParametersPresentFlag := v.vcl_hrd_parameters_present_flag.toNat,
      vclHrd := if v.vcl_hrd_parameters_present_flag then hrdOf v.vcl_hrd else {},
      lowDelayHrdFlag := if v.nal_hrd_parameters_present_flag || v.vcl_hrd_parameters_present_flag then v.low_delay_hrd_flag.toNat
                         else 1 - (if v.timing_info_present_flag then v.fixed_frame_rate_flag.toNat else 0),
      picStructPresentFlag := v.pic_struct_present_flag.toNat,
      bitstreamRestrictionFlag := v.bitstream_restriction_flag.toNat,
      motionVectorsOverPicBoundariesFlag := if v.bitstream_restriction_flag then v.motion_vectors_over_pic_boundaries_flag.toNat else 1,
      maxBytesPerPicDenom := if v.bitstream_restriction_flag then v.max_bytes_per_pic_denom else 2,
      maxBitsPerMbDenom := if v.bitstream_restriction_flag then v.max_bits_per_mb_denom else 1,
      log2MaxMvLengthHorizontal := if v.bitstream_restriction_flag then v.log2_max_mv_length_horizontal else 15,
      log2MaxMvLengthVertical := if v.bitstream_restriction_flag then v.log2_max_mv_length_vertical else 15,
      maxNumReorderFrames := if v.bitstream_restriction_flag then v.max_num_reorder_frames else inferredDpbOf s,
      maxDecFrameBuffering := if v.bitstream_restriction_flag then v.max_dec_frame_buffering else inferredDpbOf s }
  else
    { aspectRatioIdc := 0, videoFormat := 5, videoFullRangeFlag := 0, colourPrimaries := 2,
      transferCharacteristics := 2, matrixCoefficients := 2, fixedFrameRateFlag := 0, lowDelayHrdFlag := 1,
      picStructPresentFlag := 0, motionVectorsOverPicBoundariesFlag := 1, maxBytesPerPicDenom := 2,
      maxBitsPerMbDenom := 1, log2MaxMvLengthHorizontal := 15, log2MaxMvLengthVertical := 15,
      maxNumReorderFrames := inferredDpbOf s, maxDecFrameBuffering := inferredDpbOf s }

/-- the decoded structure that agrees field by field with the syntax tree `s` -/
def toRaw (s : SpsSyntax) : RawSps :=
  { hdr := hdrOf s, chroma := chromaOf s, poc := pocOf s, frame := frameOf s,
    vuiParametersPresentFlag := s.vui_parameters_present_flag.toNat, vui := vuiOf s }

end IpcHub.H264Syntax
