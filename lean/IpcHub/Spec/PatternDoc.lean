/-
The documented permission-pattern language — docs/config.md §3.2 and the text of property C16 —
written WITHOUT any helper of the implementation model: splitting is core `List.splitOn`
(characterised in core by `List.intercalate_splitOn` / `List.splitOn_intercalate`), trimming is
`List.dropWhile` from both ends, a pattern is matched by comparing segment lists position by
position.  `IpcHub.PatternLang.specPermits` (the formulation the C11 monitor uses) is proved equal
to `permits` in Lemmas/PathMatch3.lean.

Character conventions (the property says "case-insensitively"; blanks around a pattern or a path
are not significant):
* `uLower` — Unicode simple lowercase mapping (UnicodeData.txt, field 13), given as an explicit
  table over the character class `covered`;
* `uSpace` — Unicode White_Space (PropList.txt), complete.
Core Lean only.
-/
namespace IpcHub.PatternDoc

/-! ### characters -/

/-- Unicode White_Space (PropList.txt), all 25 code points -/
def whiteSpace : List Nat :=
  [0x09, 0x0A, 0x0B, 0x0C, 0x0D, 0x20, 0x85, 0xA0, 0x1680,
   0x2000, 0x2001, 0x2002, 0x2003, 0x2004, 0x2005, 0x2006, 0x2007, 0x2008, 0x2009, 0x200A,
   0x2028, 0x2029, 0x202F, 0x205F, 0x3000]

def uSpace (c : Char) : Bool := whiteSpace.contains c.toNat

/-- non-ASCII characters of the covered class that have a simple lowercase mapping
    (UnicodeData.txt: code point, Simple_Lowercase_Mapping) -/
def lowerPairs : List (Nat × Nat) :=
  [ (0xC0, 0xE0), (0xC9, 0xE9), (0xD6, 0xF6), (0xDE, 0xFE),            -- À É Ö Þ
    (0x100, 0x101), (0x12E, 0x12F), (0x130, 0x69), (0x178, 0xFF),      -- Ā Į İ→i Ÿ→ÿ
    (0x1C4, 0x1C6), (0x1C5, 0x1C6),                                    -- Ǆ ǅ (titlecase) → ǆ
    (0x391, 0x3B1), (0x3A3, 0x3C3), (0x3A9, 0x3C9),                    -- Α Σ Ω
    (0x400, 0x450), (0x416, 0x436), (0x42F, 0x44F),                    -- Ѐ Ж Я
    (0x10A0, 0x2D00),                                                  -- Ⴀ → ⴀ
    (0x1E9E, 0xDF),                                                    -- ẞ → ß
    (0x2126, 0x3C9), (0x212A, 0x6B), (0x212B, 0xE5),                   -- Ω ohm, K kelvin, Å angstrom
    (0x2160, 0x2170), (0x24B6, 0x24D0),                                -- Ⅰ Ⓐ
    (0xFF21, 0xFF41), (0x10400, 0x10428) ]                             -- Ａ 𐐀

/-- non-ASCII characters of the covered class that are their own lowercase: lower-case letters
    (the targets above and µ ß ÿ ı ſ ς), caseless letters, marks, symbols, format and private-use
    characters, look-alikes of blanks that are NOT White_Space (U+200B, U+180E, U+FEFF, U+1F) -/
def caselessExtras : List Nat :=
  [ 0xE0, 0xE9, 0xF6, 0xFE, 0x101, 0x12F, 0xFF, 0x1C6, 0x3B1, 0x3C3, 0x3C9, 0x450, 0x436, 0x44F,
    0x2D00, 0xE5, 0x2170, 0x24D0, 0xFF41, 0x10428,
    0xB5, 0xDF, 0xD7, 0x131, 0x17F, 0x3C2, 0x3A2,
    0x4E2D, 0x3042, 0x5D0, 0x301, 0xAD, 0x200B, 0x180E, 0xFEFF, 0xFFFD, 0x1F600, 0xE000, 0x10FFFF ]

/-- the character class the specification (and the generated inputs) cover: all of ASCII (including
    the control characters), every White_Space character, and the listed non-ASCII characters -/
def coveredRune (n : Nat) : Bool :=
  n < 128 || whiteSpace.contains n || (lowerPairs.map (·.1)).contains n || caselessExtras.contains n

def covered (c : Char) : Bool := coveredRune c.toNat

/-- simple lowercase mapping on the covered class (identity elsewhere: not claimed there) -/
def lowerRune (n : Nat) : Nat :=
  if 0x41 ≤ n && n ≤ 0x5A then n + 32      -- A–Z ↦ a–z
  else match lowerPairs.lookup n with
    | some m => m
    | none => n

def uLower (c : Char) : Char := Char.ofNat (lowerRune c.toNat)

/-! ### strings -/

/-- remove the characters satisfying `p` from both ends -/
def strip (p : Char → Bool) (s : List Char) : List Char :=
  ((s.dropWhile p).reverse.dropWhile p).reverse

/-- the segments of a path or pattern: surrounding '/' are not significant, case is folded, the rest
    is split at every '/' (so `a//b` has an empty middle segment and the empty string has one empty
    segment) -/
def segments (lower : Char → Char) (s : List Char) : List (List Char) :=
  ((strip (· == '/') s).map lower).splitOn '/'

/-- one pattern segment against one path segment: `+` matches any one segment, anything else is a
    literal that matches itself -/
def segOk (p x : List Char) : Bool := p == ['+'] || p == x

/-- the same number of segments, each pattern segment accepting the path segment at its position -/
def fixedMatch (ps xs : List (List Char)) : Bool :=
  ps.length == xs.length && (List.zipWith segOk ps xs).all id

/-- a pattern (segment list) against a path (segment list): a trailing `*` stands for zero or more
    remaining segments, without it the numbers of segments must be equal -/
def segsMatch (ps xs : List (List Char)) : Bool :=
  if ps.getLast? = some ['*'] then
    let fixed := ps.dropLast
    decide (fixed.length ≤ xs.length) && fixedMatch fixed (xs.take fixed.length)
  else fixedMatch ps xs

/-- `*` alone matches everything -/
def patMatch (lower : Char → Char) (pat path : List Char) : Bool :=
  pat == ['*'] || segsMatch (segments lower pat) (segments lower path)

/-- the patterns of a right string: ';'-separated, surrounding blanks not significant, empty list
    elements ignored -/
def patterns (blank : Char → Bool) (right : List Char) : List (List Char) :=
  ((right.splitOn ';').map (strip blank)).filter (· != [])

/-- a path is permitted exactly when at least one pattern of the right matches; the empty right
    permits nothing, except that an administrator's empty right is `*` -/
def permits (lower : Char → Char) (blank : Char → Bool)
    (right : List Char) (admin : Bool) (path : List Char) : Bool :=
  let r := if admin && right == [] then ['*'] else right
  (patterns blank r).any (fun pat => patMatch lower pat (strip blank path))

/-- which of a user's two rights a request needs -/
inductive Need where
  | pull | push
  deriving Repr, DecidableEq

/-- a user as configured (users.json): the administrator flag and the two right strings -/
structure UserCfg where
  admin : Bool
  pull : List Char
  push : List Char
  deriving Repr, DecidableEq

/-- the decision for a configured user: the patterns of the RELEVANT right decide -/
def userPermits (lower : Char → Char) (blank : Char → Bool) (u : UserCfg) (need : Need)
    (path : List Char) : Bool :=
  match need with
  | .pull => permits lower blank u.pull u.admin path
  | .push => permits lower blank u.push u.admin path

end IpcHub.PatternDoc
