/-
Specification side of property C08, written from the file-format documents and NOT from the
ipchub writer code:

  * Adobe "Video File Format Specification v10.1" Annex E (FLV header, FLV body / PreviousTagSize,
    FLVTAG, AUDIODATA / AACAUDIODATA, VIDEODATA / AVCVIDEOPACKET, SCRIPTDATA) — reader `parseFlv`
  * ISO/IEC 14496-15 §5.2.4.1 `AVCDecoderConfigurationRecord`, §8.3.3.1
    `HEVCDecoderConfigurationRecord` — readers `parseAvcc`, `parseHvcc`
  * AMF0 specification §2 (number, boolean, string, long string, null, undefined, ECMA array)
    — reader `parseAmf`

and the statement of the property itself over parsed FLV (`checkMux`, `checkClient`): what a
client must see for a given stream description and source frame sequence.

Core Lean only, executable (the driver evaluates it on the bytes the implementation wrote).
-/
import IpcHub.Model.FlvTypes
namespace IpcHub.FlvSpec
open IpcHub.Flv (Bytes Frame VCodec msOf)

def u16 (a b : UInt8) : Nat := a.toNat * 256 + b.toNat
def u24 (a b c : UInt8) : Nat := a.toNat * 65536 + b.toNat * 256 + c.toNat
def u32 (a b c d : UInt8) : Nat := a.toNat * 16777216 + b.toNat * 65536 + c.toNat * 256 + d.toNat

/-! ## FLV file structure (Annex E.2, E.3, E.4.1) -/

structure FlvHeader where
  version : Nat
  audio : Bool
  video : Bool
  deriving Repr, DecidableEq

/-- an FLVTAG as read from the file -/
structure PTag where
  tagType : Nat        -- 5 bits
  filter : Bool
  timestamp : Nat      -- TimestampExtended · 2^24 + Timestamp (milliseconds)
  streamID : Nat
  data : Bytes
  deriving Repr, DecidableEq

/-- FLV body after PreviousTagSize0: a sequence of (FLVTAG, PreviousTagSize) pairs up to the end
    of the data; every PreviousTagSize must be 11 + DataSize of the tag before it, the two
    reserved bits must be 0.  `fuel` bounds the number of tags (each consumes ≥ 15 bytes). -/
def parseTags : Nat → Bytes → Option (List PTag)
  | 0, _ => none
  | _ + 1, [] => some []
  | fuel + 1, b0 :: s1 :: s2 :: s3 :: t1 :: t2 :: t3 :: te :: i1 :: i2 :: i3 :: rest =>
    let n := u24 s1 s2 s3
    if b0 &&& 0xC0 ≠ 0 then none
    else if rest.length < n + 4 then none
    else
      match rest.drop n with
      | p1 :: p2 :: p3 :: p4 :: rest' =>
        if u32 p1 p2 p3 p4 ≠ 11 + n then none
        else
          match parseTags fuel rest' with
          | none => none
          | some ts =>
            some ({ tagType := (b0 &&& 0x1F).toNat, filter := b0 &&& 0x20 ≠ 0,
                    timestamp := te.toNat * 16777216 + u24 t1 t2 t3,
                    streamID := u24 i1 i2 i3, data := rest.take n } :: ts)
      | _ => none
  | _ + 1, _ => none

/-- a complete FLV byte stream: signature "FLV", version 1, TypeFlags with reserved bits 0,
    DataOffset 9, PreviousTagSize0 = 0, then the tags -/
def parseFlv : Bytes → Option (FlvHeader × List PTag)
  | 0x46 :: 0x4C :: 0x56 :: v :: fl :: o1 :: o2 :: o3 :: o4 :: z1 :: z2 :: z3 :: z4 :: rest =>
    if v ≠ 1 then none
    else if fl &&& 0xFA ≠ 0 then none
    else if u32 o1 o2 o3 o4 ≠ 9 then none
    else if u32 z1 z2 z3 z4 ≠ 0 then none
    else
      match parseTags (rest.length + 1) rest with
      | none => none
      | some ts => some ({ version := v.toNat, audio := (fl &&& 1) != 0, video := (fl &&& 4) != 0 }, ts)
  | _ => none

/-! ## VIDEODATA (E.4.3) with AVCVIDEOPACKET -/

structure VideoBody where
  frameType : Nat
  codecID : Nat
  packetType : Nat
  /-- CompositionTime, SI24 -/
  cts : Int
  body : Bytes
  deriving Repr, DecidableEq

def si24 (n : Nat) : Int := if n < 8388608 then (n : Int) else (n : Int) - 16777216

/-- VIDEODATA whose CodecID is 7 (AVC) or 12 (HEVC, the de-facto extension) -/
def parseVideoBody : Bytes → Option VideoBody
  | b0 :: pt :: c1 :: c2 :: c3 :: body =>
    let codec := (b0 &&& 0x0F).toNat
    if codec = 7 ∨ codec = 12 then
      some { frameType := (b0 >>> 4).toNat, codecID := codec, packetType := pt.toNat,
             cts := si24 (u24 c1 c2 c3), body := body }
    else none
  | _ => none

/-- "One or more NALUs", each preceded by its length in `lenSize = 4` bytes -/
def parseNalus : Nat → Bytes → Option (List Bytes)
  | 0, _ => none
  | _ + 1, [] => some []
  | fuel + 1, l1 :: l2 :: l3 :: l4 :: rest =>
    let n := u32 l1 l2 l3 l4
    if rest.length < n then none
    else match parseNalus fuel (rest.drop n) with
      | none => none
      | some ns => some (rest.take n :: ns)
  | _ + 1, _ => none

/-! ## AVCDecoderConfigurationRecord (14496-15 §5.2.4.1.1) -/

structure Avcc where
  profile : UInt8
  compat : UInt8
  level : UInt8
  lengthSize : Nat
  spss : List Bytes
  ppss : List Bytes
  deriving Repr, DecidableEq

/-- `count` parameter sets, each `unsigned int(16) length` + bytes -/
def parseSets : Nat → Bytes → Option (List Bytes × Bytes)
  | 0, bs => some ([], bs)
  | k + 1, l1 :: l2 :: rest =>
    let n := u16 l1 l2
    if rest.length < n then none
    else match parseSets k (rest.drop n) with
      | none => none
      | some (ss, r) => some (rest.take n :: ss, r)
  | _ + 1, _ => none

def parseAvcc : Bytes → Option Avcc
  | ver :: p :: c :: l :: ls :: ns :: rest =>
    if ver ≠ 1 then none
    else if ls &&& 0xFC ≠ 0xFC then none          -- reserved '111111'b
    else if ns &&& 0xE0 ≠ 0xE0 then none          -- reserved '111'b
    else
      match parseSets (ns &&& 0x1F).toNat rest with
      | none => none
      | some (spss, np :: rest2) =>
        (match parseSets np.toNat rest2 with
         | none => none
         | some (ppss, _) =>     -- (profile-specific extension bytes may follow)
           some { profile := p, compat := c, level := l, lengthSize := (ls &&& 3).toNat + 1,
                  spss := spss, ppss := ppss })
      | some (_, []) => none
  | _ => none

/-! ## HEVCDecoderConfigurationRecord (14496-15 §8.3.3.1.2) -/

structure Hvcc where
  profileSpace : Nat
  tier : Nat
  profileIdc : Nat
  compat : Nat
  constraint : Nat
  level : Nat
  chroma : Nat
  bitDepthLumaMinus8 : Nat
  bitDepthChromaMinus8 : Nat
  numTemporalLayers : Nat
  temporalIdNested : Nat
  lengthSize : Nat
  /-- (NAL_unit_type, nalUnits) per array -/
  arrays : List (Nat × List Bytes)
  deriving Repr, DecidableEq

def parseHvccArrays : Nat → Bytes → Option (List (Nat × List Bytes))
  | 0, _ => some []
  | k + 1, ty :: n1 :: n2 :: rest =>
    (match parseSets (u16 n1 n2) rest with
     | none => none
     | some (nals, r) =>
       match parseHvccArrays k r with
       | none => none
       | some as => some (((ty &&& 0x3F).toNat, nals) :: as))
  | _ + 1, _ => none

def parseHvcc : Bytes → Option Hvcc
  | ver :: b1 :: f1 :: f2 :: f3 :: f4 :: g1 :: g2 :: g3 :: g4 :: g5 :: g6 :: lvl ::
    m1 :: _m2 :: par :: chroma :: luma :: chr :: _a1 :: _a2 :: misc :: narr :: rest =>
    if ver ≠ 1 then none
    else if m1 &&& 0xF0 ≠ 0xF0 then none          -- reserved '1111'b
    else if par &&& 0xFC ≠ 0xFC then none
    else if chroma &&& 0xFC ≠ 0xFC then none
    else if luma &&& 0xF8 ≠ 0xF8 then none
    else if chr &&& 0xF8 ≠ 0xF8 then none
    else
      match parseHvccArrays narr.toNat rest with
      | none => none
      | some as =>
        some { profileSpace := (b1 >>> 6).toNat, tier := ((b1 >>> 5) &&& 1).toNat,
               profileIdc := (b1 &&& 0x1F).toNat, compat := u32 f1 f2 f3 f4,
               constraint := u16 g1 g2 * 4294967296 + u32 g3 g4 g5 g6, level := lvl.toNat,
               chroma := (chroma &&& 3).toNat, bitDepthLumaMinus8 := (luma &&& 7).toNat,
               bitDepthChromaMinus8 := (chr &&& 7).toNat,
               numTemporalLayers := ((misc >>> 3) &&& 7).toNat,
               temporalIdNested := ((misc >>> 2) &&& 1).toNat,
               lengthSize := (misc &&& 3).toNat + 1, arrays := as }
  | _ => none

/-! ## AUDIODATA (E.4.2) with AACAUDIODATA -/

structure AudioBody where
  format : Nat
  rate : Nat
  size : Nat
  type : Nat
  packetType : Nat
  body : Bytes
  deriving Repr, DecidableEq

/-- AUDIODATA with SoundFormat 10 (AAC) -/
def parseAudioBody : Bytes → Option AudioBody
  | b0 :: pt :: body =>
    if (b0 >>> 4).toNat = 10 then
      some { format := 10, rate := ((b0 >>> 2) &&& 3).toNat, size := ((b0 >>> 1) &&& 1).toNat,
             type := (b0 &&& 1).toNat, packetType := pt.toNat, body := body }
    else none
  | _ => none

/-! ## AMF0 / SCRIPTDATA (E.4.4) -/

inductive Amf where
  | number (bits : Nat)
  | boolean (b : Bool)
  | string (s : Bytes)
  | null
  | undefined
  deriving Repr, DecidableEq

/-- one AMF0 value of a simple type: marker byte, then the payload -/
def parseAmfValue : Bytes → Option (Amf × Bytes)
  | [] => none
  | m :: rest =>
    if m = 0x00 then            -- number-marker, DOUBLE
      match rest with
      | a :: b :: c :: d :: e :: f :: g :: h :: r => some (.number (u32 a b c d * 4294967296 + u32 e f g h), r)
      | _ => none
    else if m = 0x01 then       -- boolean-marker, U8
      match rest with
      | v :: r => some (.boolean (v ≠ 0), r)
      | _ => none
    else if m = 0x02 then       -- string-marker, UTF-8 (U16 length)
      match rest with
      | l1 :: l2 :: r =>
        if r.length < u16 l1 l2 then none else some (.string (r.take (u16 l1 l2)), r.drop (u16 l1 l2))
      | _ => none
    else if m = 0x0C then       -- long-string-marker, UTF-8-long (U32 length)
      match rest with
      | l1 :: l2 :: l3 :: l4 :: r =>
        if r.length < u32 l1 l2 l3 l4 then none
        else some (.string (r.take (u32 l1 l2 l3 l4)), r.drop (u32 l1 l2 l3 l4))
      | _ => none
    else if m = 0x05 then some (.null, rest)
    else if m = 0x06 then some (.undefined, rest)
    else none

/-- the (name, value) pairs of an object / ECMA array up to the end marker `00 00 09` (an empty
    name is only legal in the end marker) -/
def parseAmfProps : Nat → Bytes → Option (List (Bytes × Amf) × Bytes)
  | 0, _ => none
  | fuel + 1, l1 :: l2 :: rest =>
    if u16 l1 l2 = 0 then
      match rest with
      | 0x09 :: r => some ([], r)
      | _ => none
    else if rest.length < u16 l1 l2 then none
    else
      match parseAmfValue (rest.drop (u16 l1 l2)) with
      | none => none
      | some (v, r) =>
        match parseAmfProps fuel r with
        | none => none
        | some (ps, r') => some ((rest.take (u16 l1 l2), v) :: ps, r')
  | _ + 1, _ => none

structure Script where
  name : Bytes
  /-- the approximate count field of the ECMA array -/
  count : Nat
  props : List (Bytes × Amf)
  deriving Repr, DecidableEq

/-- SCRIPTDATA: a String (the name) followed by an ECMA array, and nothing after it -/
def parseScript : Bytes → Option Script
  | 0x02 :: l1 :: l2 :: rest =>
    if rest.length < u16 l1 l2 then none
    else
      match rest.drop (u16 l1 l2) with
      | 0x08 :: c1 :: c2 :: c3 :: c4 :: r =>
        (match parseAmfProps (r.length + 1) r with
         | some (ps, []) => some { name := rest.take (u16 l1 l2), count := u32 c1 c2 c3 c4, props := ps }
         | _ => none)
      | _ => none
  | _ => none

def lookup (name : Bytes) : List (Bytes × Amf) → Option Amf
  | [] => none
  | (n, v) :: ps => if n = name then some v else lookup name ps

/-- IEEE-754 binary64: the bit pattern of a non-negative integer below 2^53, decoded -/
def f64ToNat? (bits : Nat) : Option Nat :=
  if bits = 0 then some 0
  else
    let e := bits / 4503599627370496
    let m := bits % 4503599627370496
    if e < 1023 ∨ e > 1075 then none
    else
      let sh := 1075 - e
      if m % 2 ^ sh ≠ 0 then none else some ((4503599627370496 + m) / 2 ^ sh)

def asciiBytes (s : String) : Bytes := s.toList.map (fun c => UInt8.ofNat c.toNat)

/-! ## the property over parsed FLV -/

/-- what the property needs to know about the source stream -/
structure Src where
  codec : VCodec
  /-- does the stream carry AAC audio? -/
  aac : Bool
  sps : Bytes
  pps : Bytes
  vps : Bytes
  /-- AudioSpecificConfig -/
  asc : Bytes
  /-- the SPS has been validated (it decodes): a corrupt parameter set — a truncated packet, say —
      is not one of "the stream's actual parameter sets" and no configuration is built from it -/
  valid : Bool := true
  deriving Repr, DecidableEq

def codecIdOf (c : VCodec) : Nat := if c = .h265 then 12 else 7

/-- H.264: nal_unit_type 5 (IDR slice).  H.265: the assigned IRAP types BLA_W_LP(16) …
    CRA_NUT(21) (22, 23 are reserved IRAP types that no conforming stream contains). -/
def isKeyNal (c : VCodec) (nal : Bytes) : Bool :=
  match nal.head? with
  | none => false
  | some h =>
    if c = .h265 then
      let t := (h.toNat / 2) % 64
      decide (16 ≤ t ∧ t ≤ 21)
    else h.toNat % 32 = 5

/-- the frames a client can be given: video, and audio only when the stream has AAC -/
def carried (s : Src) (f : Frame) : Bool := f.mediaType = 0 || (f.mediaType = 1 && s.aac)

/-- presentation order in the file: source time of a frame's tag in ms: DTS for video, PTS for audio -/
def tagTimeMs (f : Frame) : Int := if f.mediaType = 0 then msOf f.dts else msOf f.pts

/-- the rebased timestamp a client must see for source time `t` when its first tag has source
    time `t0`: the difference, and never a wrapped value for an older tag -/
def rebased (t0 t : Int) : Nat := if t < t0 then 0 else (t - t0).toNat

/-- the metadata tag: SCRIPTDATA "onMetaData" carrying an ECMA array whose count is exact and
    which names the right video codec (and the AAC codec id iff the stream has audio) -/
def isMetaTag (s : Src) (t : PTag) : Bool :=
  t.tagType = 18 && !t.filter && t.streamID = 0 &&
  match parseScript t.data with
  | none => false
  | some sc =>
    sc.name = asciiBytes "onMetaData" && sc.count = sc.props.length &&
    (match lookup (asciiBytes "videocodecid") sc.props with
     | some (.number b) => f64ToNat? b = some (codecIdOf s.codec)
     | _ => false) &&
    (match lookup (asciiBytes "audiocodecid") sc.props with
     | some (.number b) => s.aac && f64ToNat? b = some 10
     | some _ => false
     | none => !s.aac)

/-! ### general profile_tier_level( ) of an H.265 parameter set (ITU-T H.265 §7.3.1.1, §7.3.3) -/

/-- the NAL unit with its emulation-prevention bytes removed (the 03 of every 00 00 03) -/
def unescape : Nat → Bytes → Bytes
  | _, [] => []
  | zeros, b :: bs =>
    if zeros ≥ 2 ∧ b = 3 then unescape 0 bs
    else b :: unescape (if b = 0 then zeros + 1 else 0) bs

structure Ptl where
  space : Nat
  tier : Nat
  idc : Nat
  compat : Nat
  constraint : Nat
  level : Nat
  deriving Repr, DecidableEq

/-- the 12 bytes of general profile/tier/level starting at byte `off` of the unescaped NAL unit -/
def ptlAt (off : Nat) (nal : Bytes) : Option Ptl :=
  match (unescape 0 nal).drop off with
  | b :: c1 :: c2 :: c3 :: c4 :: g1 :: g2 :: g3 :: g4 :: g5 :: g6 :: lvl :: _ =>
    some { space := (b >>> 6).toNat, tier := ((b >>> 5) &&& 1).toNat, idc := (b &&& 0x1F).toNat,
           compat := u32 c1 c2 c3 c4, constraint := u16 g1 g2 * 4294967296 + u32 g3 g4 g5 g6,
           level := lvl.toNat }
  | _ => none

/-- SPS: NAL header (2 bytes), sps_video_parameter_set_id u(4) + sps_max_sub_layers_minus1 u(3) +
    sps_temporal_id_nesting_flag u(1), then profile_tier_level( ) -/
def spsPtl (sps : Bytes) : Option Ptl := ptlAt 3 sps

/-- VPS: NAL header (2 bytes), 16 bits of ids/flags/layer counts, vps_reserved_0xffff_16bits, then
    profile_tier_level( ) -/
def vpsPtl (vps : Bytes) : Option Ptl := ptlAt 6 vps

/-- the video decoder configuration tag: key frame, sequence header, CTS 0, and a configuration
    record that parses and carries exactly the stream's parameter sets with 4-byte NAL lengths
    (HEVC: and the general profile/tier/level of the parameter sets) -/
def isVideoConfigTag (s : Src) (t : PTag) : Bool :=
  t.tagType = 9 && !t.filter && t.streamID = 0 &&
  match parseVideoBody t.data with
  | none => false
  | some vb =>
    vb.frameType = 1 && vb.codecID = codecIdOf s.codec && vb.packetType = 0 && vb.cts = 0 &&
    (if s.codec = .h265 then
      match parseHvcc vb.body with
      | none => false
      | some r =>
        r.lengthSize = 4 && r.arrays = [(32, [s.vps]), (33, [s.sps]), (34, [s.pps])] &&
        -- "general_* … contain the matching values for the fields in the parameter sets"
        -- (14496-15 §8.3.3.1.3), demanded where VPS and SPS state the same values
        (match spsPtl s.sps, vpsPtl s.vps with
         | some a, some b =>
           a ≠ b || (r.profileSpace = a.space && r.tier = a.tier && r.profileIdc = a.idc &&
                     r.compat = a.compat && r.constraint = a.constraint && r.level = a.level)
         | _, _ => true)
     else
      match parseAvcc vb.body, s.sps with
      | some r, _ :: p :: c :: l :: _ =>
        r.lengthSize = 4 && r.spss = [s.sps] && r.ppss = [s.pps] &&
        r.profile = p && r.compat = c && r.level = l
      | _, _ => false)

/-- the AAC configuration tag: AAC sequence header carrying the AudioSpecificConfig -/
def isAudioConfigTag (s : Src) (t : PTag) : Bool :=
  t.tagType = 8 && !t.filter && t.streamID = 0 &&
  match parseAudioBody t.data with
  | none => false
  | some ab => ab.packetType = 0 && ab.body = s.asc

/-- a media tag carries its source frame: video = exactly one length-prefixed NAL unit equal
    to the payload, key flag ⇔ IDR/IRAP, CTS = PTS − DTS (ms); audio = raw AAC frame equal to
    the payload.  (The timestamp is checked separately.) -/
def mediaTagCarries (s : Src) (f : Frame) (t : PTag) : Bool :=
  !t.filter && t.streamID = 0 &&
  if f.mediaType = 0 then
    t.tagType = 9 &&
    match parseVideoBody t.data with
    | none => false
    | some vb =>
      vb.codecID = codecIdOf s.codec && vb.packetType = 1 &&
      vb.frameType = (if isKeyNal s.codec f.payload then 1 else 2) &&
      vb.cts = msOf f.pts - msOf f.dts &&
      parseNalus (vb.body.length + 1) vb.body = some [f.payload]
  else
    t.tagType = 8 &&
    match parseAudioBody t.data with
    | none => false
    | some ab => ab.packetType = 1 && ab.body = f.payload

/-- media tags ↔ carried frames, one to one and in order, with timestamps rebased to `t0` -/
def mediaOk (s : Src) (t0 : Int) : List Frame → List PTag → Bool
  | [], [] => true
  | f :: fs, t :: ts =>
    mediaTagCarries s f t && t.timestamp = rebased t0 (tagTimeMs f) && mediaOk s t0 fs ts
  | _, _ => false

/-- the configuration prefix: metadata, video configuration, AAC configuration iff audio — all
    with timestamp 0 — and then the media tags -/
def prefixThenMedia (s : Src) (t0 : Int) (frames : List Frame) : List PTag → Bool
  | m :: v :: rest =>
    isMetaTag s m && m.timestamp = 0 && isVideoConfigTag s v && v.timestamp = 0 &&
    (if s.aac then
      match rest with
      | a :: media => isAudioConfigTag s a && a.timestamp = 0 && mediaOk s t0 frames media
      | [] => false
     else mediaOk s t0 frames rest)
  | _ => false

/-- C08 for a client attached to the muxer from the start (its first tag is the metadata tag,
    source time 0): the bytes parse as FLV, the header announces video and (iff AAC) audio, and
    the tags are the configuration prefix followed by one tag per carried frame of `frames`
    (nothing at all after the header is also fine when no frame is carried). -/
def checkMux (s : Src) (frames : List Frame) (bytes : Bytes) : Bool :=
  match parseFlv bytes with
  | none => false
  | some (h, tags) =>
    h.version = 1 && h.video && h.audio == s.aac &&
    (match tags with
     | [] => (frames.filter (carried s)).isEmpty
     | ts => prefixThenMedia s 0 (frames.filter (carried s)) ts)

/-- do the parameter sets suffice to build a decoder configuration record?  H.264: an SPS with
    its profile/compatibility/level bytes and a PPS; H.265: VPS, SPS and PPS; the SPS validated. -/
def Src.usable (s : Src) : Bool :=
  (if s.codec = .h265 then !s.vps.isEmpty && !s.sps.isEmpty && !s.pps.isEmpty
   else decide (s.sps.length ≥ 4) && !s.pps.isEmpty) && s.valid

/-- A decoder configuration "built from the stream's actual parameter sets" can only be written
    once these are known (from frame index `known` on; 0 when the SDP carried them), and no media
    tag may precede it: the frames before `known` cannot be carried, every frame from there on
    must be.  With parameter sets that never become usable nothing can be carried. -/
def fromStart (s : Src) (known : Nat) (frames : List Frame) : List Frame :=
  if s.usable then frames.drop known else []

/-! ### joining at a known tag: exactly which frames, on which time line -/

/-- a key frame of the stream: a video frame whose NAL unit is an IDR / IRAP picture -/
def isKeyFrame (s : Src) (f : Frame) : Bool := f.mediaType = 0 && isKeyNal s.codec f.payload

/-- the frames from the last key frame of the list on (`none`: it contains no key frame) -/
def fromLastKey (s : Src) : List Frame → Option (List Frame)
  | [] => none
  | f :: fs =>
    match fromLastKey s fs with
    | some r => some r
    | none => if isKeyFrame s f then some (f :: fs) else none

/-- number of configuration tags in front of the media tags: metadata, video configuration, and
    the AAC configuration iff the stream has AAC -/
def prefixLen (s : Src) : Nat := if s.aac then 3 else 2

/-- the time of the last frame of a list (the stream's time 0 for the empty list) -/
def lastTime (l : List Frame) : Int := match l.getLast? with | some f => tagTimeMs f | none => 0

/-- What a client that joins after `j` of the carried frames `fs` went out is owed, and the
    origin of its time line ("rebased so the client's first tag is zero").  With GOP caching and a
    key frame among the first `j` frames: every frame from the latest such key frame on, and the
    time line starts at that key frame (its tag is stamped 0).  Otherwise: the frames from the
    join point on, and the time line starts at the moment of the join — the time of the latest
    frame that went out before it (the stream's time 0 when it joins before the first frame) —
    so the client's first media tag is stamped with the distance to that frame, however old the
    stream is. -/
def joinView (s : Src) (gop : Bool) (fs : List Frame) (j : Nat) : Int × List Frame :=
  match (if gop then fromLastKey s (fs.take j) else none) with
  | some (g :: gs) => (tagTimeMs g, (g :: gs) ++ fs.drop j)
  | _ => (lastTime (fs.take j), fs.drop j)

/-- C08 for a client that joins a running stream after the stream has written `k` tags (GOP
    caching `gop`): the bytes parse as FLV with the
    right header, and the tags are the configuration prefix (timestamp 0) followed by exactly one
    tag per frame of `joinView` — nothing lost, nothing twice, nothing else — each carrying its
    source frame, timestamps rebased to `joinView`'s origin and never wrapped.  Only a stream that
    never carried a frame sends nothing after the header. -/
def checkJoinedAt (s : Src) (frames : List Frame) (gop : Bool) (k : Nat) (bytes : Bytes) : Bool :=
  match parseFlv bytes with
  | none => false
  | some (h, tags) =>
    h.version = 1 && h.video && h.audio == s.aac &&
    (match tags with
     | [] => (frames.filter (carried s)).isEmpty
     | ts =>
       let v := joinView s gop (frames.filter (carried s)) (k - prefixLen s)
       prefixThenMedia s v.1 v.2 ts)

/-! ## the writer-level statement: any tag sequence handed to one client (joining at any tag) -/

/-- a tag as the media layer hands it to a client's writer: its type, its source time in ms
    (an unbounded integer; the implementation keeps the low 32 bits) and its body -/
structure SrcTag where
  tagType : Nat
  time : Int
  data : Bytes
  deriving Repr, DecidableEq

def tagsOk (t0 : Int) : List SrcTag → List PTag → Bool
  | [], [] => true
  | s :: ss, t :: ts =>
    t.tagType = s.tagType && !t.filter && t.streamID = 0 && t.data = s.data &&
    t.timestamp = rebased t0 s.time && tagsOk t0 ss ts
  | _, _ => false

/-- what one HTTP-FLV / WebSocket-FLV client receives for the tag sequence `src`: a well-formed
    FLV stream (header with the announced streams, every tag followed by its exact size) whose
    tags are exactly `src`, timestamps rebased to the first tag (so the first is 0) and a tag
    older than the first shown as 0 — never as a wrapped value -/
def checkClient (flags : UInt8) (src : List SrcTag) (bytes : Bytes) : Bool :=
  match parseFlv bytes with
  | none => false
  | some (h, tags) =>
    h.version = 1 && h.audio == ((flags &&& 1) != 0) && h.video == ((flags &&& 4) != 0) &&
    (match src with
     | [] => tags.isEmpty
     | s0 :: _ => tagsOk s0.time src tags)

end IpcHub.FlvSpec
