/-
Specification side of C15 for MPEG-4 audio: AudioSpecificConfig() of ISO/IEC 14496-3
(2009) 1.6.2.1 as a bit-exact encoder of a syntax tree — GetAudioObjectType() with the
escape value, samplingFrequencyIndex with the explicit 24-bit frequency (Table 1.18),
channelConfiguration (Table 1.19), hierarchical SBR/PS signalling (audioObjectType 5 / 29
first) and backward-compatible explicit signalling (syncExtensionType 0x2b7, 0x548) — and
the sampling rate / channel count the standard assigns to the stream.  Core Lean only.
-/
import IpcHub.Spec.BitSyntax
namespace IpcHub.AscSyntax
open IpcHub.BitSyntax

/-- how SBR / PS is signalled (1.6.5) -/
inductive Signalling where
  /-- no explicit signalling -/
  | plain
  /-- hierarchical: audioObjectType 5 (or 29 when `ps`) first, then the extension sampling frequency and
      the audioObjectType of the core coder -/
  | hierarchical (ps : Bool) (extIndex extFrequency : Nat)
  /-- backward compatible: syncExtensionType 0x2b7 after the core's specific config, extensionAudioObjectType 5,
      sbrPresentFlag, [extension sampling frequency, [syncExtensionType 0x548, psPresentFlag]] -/
  | backward (sbrPresent : Bool) (extIndex extFrequency : Nat) (ps : Option Bool)
deriving Repr, DecidableEq

structure AscSyntax where
  /-- audioObjectType of the core coder -/
  aot : Nat := 2
  samplingFrequencyIndex : Nat := 4
  /-- samplingFrequency, present when the index is 0xf -/
  samplingFrequency : Nat := 0
  channelConfiguration : Nat := 2
  /-- GASpecificConfig().frameLengthFlag (dependsOnCoreCoder = 0, extensionFlag = 0), for the GA object types 1–4 -/
  frameLengthFlag : Bool := false
  signalling : Signalling := .plain
deriving Repr, DecidableEq

/-- Table 1.18 — sampling frequency by index (0xd, 0xe reserved; 0xf = escape) -/
def frequencyTable : List Nat :=
  [96000, 88200, 64000, 48000, 44100, 32000, 24000, 22050, 16000, 12000, 11025, 8000, 7350]

def frequencyOf (index explicit : Nat) : Nat :=
  if index = 0xf then explicit else frequencyTable.getD index 0

/-- Table 1.19 — number of channels by channelConfiguration (0 = defined in the specific config) -/
def channelCount (cc : Nat) : Nat := [0, 1, 2, 3, 4, 5, 6, 8].getD cc 0

/-- GetAudioObjectType(): 5 bits, 31 escapes to 32 + 6 bits -/
def encAot (a : Nat) : List Bool := if a < 31 then u 5 a else u 5 31 ++ u 6 (a - 32)

def encFrequency (index explicit : Nat) : List Bool :=
  u 4 index ++ (if index = 0xf then u 24 explicit else [])

/-- the object-type specific configuration: GASpecificConfig for AAC Main/LC/SSR/LTP
    (frameLengthFlag, dependsOnCoreCoder = 0, extensionFlag = 0); not modelled (empty) for other types -/
def encSpecific (s : AscSyntax) : List Bool :=
  if 1 ≤ s.aot ∧ s.aot ≤ 4 then [s.frameLengthFlag, false, false] else []

/-- `if (bits_to_decode() >= 12) { syncExtensionType 0x548; psPresentFlag }` -/
def encPsExt : Option Bool → List Bool
  | some p => u 11 0x548 ++ flag p
  | none => []

def encData (s : AscSyntax) : List Bool :=
  match s.signalling with
  | .plain =>
    encAot s.aot ++ encFrequency s.samplingFrequencyIndex s.samplingFrequency ++ u 4 s.channelConfiguration ++ encSpecific s
  | .hierarchical ps ei ef =>
    encAot (if ps then 29 else 5) ++ encFrequency s.samplingFrequencyIndex s.samplingFrequency ++
    u 4 s.channelConfiguration ++ encFrequency ei ef ++ encAot s.aot ++ encSpecific s
  | .backward sbr ei ef ps =>
    encAot s.aot ++ encFrequency s.samplingFrequencyIndex s.samplingFrequency ++ u 4 s.channelConfiguration ++
    encSpecific s ++ u 11 0x2b7 ++ encAot 5 ++ flag sbr ++
    (if sbr then encFrequency ei ef ++ encPsExt ps else [])

/-- zero bits up to the byte boundary -/
def padding (len : Nat) : List Bool := List.replicate ((8 - len % 8) % 8) false

def encAsc (s : AscSyntax) : List UInt8 :=
  pack (encData s ++ padding (encData s).length)

/-- the sampling rate of the stream: the extension sampling frequency when SBR is explicitly signalled
    as present (output rate of HE-AAC), else the core sampling frequency -/
def streamRate (s : AscSyntax) : Nat :=
  match s.signalling with
  | .plain => frequencyOf s.samplingFrequencyIndex s.samplingFrequency
  | .hierarchical _ ei ef => frequencyOf ei ef
  | .backward sbr ei ef _ => if sbr then frequencyOf ei ef else frequencyOf s.samplingFrequencyIndex s.samplingFrequency

def streamChannels (s : AscSyntax) : Nat := channelCount s.channelConfiguration

/-- value ranges: a GA core type (1–4) or an escaped type other than ALS (36, whose specific config
    overrides rate and channels); table indexes that are not reserved; non-zero rates -/
structure AscWF (s : AscSyntax) : Prop where
  aot : (1 ≤ s.aot ∧ s.aot ≤ 4) ∨ (32 ≤ s.aot ∧ s.aot ≤ 95 ∧ s.aot ≠ 36)
  idx : s.samplingFrequencyIndex ≤ 12 ∨ s.samplingFrequencyIndex = 15
  freq : s.samplingFrequency < 2 ^ 24
  cc : 1 ≤ s.channelConfiguration ∧ s.channelConfiguration ≤ 7
  sig : match s.signalling with
    | .plain => True
    | .hierarchical _ ei ef => (ei ≤ 12 ∨ ei = 15) ∧ ef < 2 ^ 24 ∧ 0 < frequencyOf ei ef
    | .backward _ ei ef _ => (ei ≤ 12 ∨ ei = 15) ∧ ef < 2 ^ 24 ∧ 0 < frequencyOf ei ef ∧ (1 ≤ s.aot ∧ s.aot ≤ 4)

end IpcHub.AscSyntax
