/-
What C18 says about the stored form of users and routes (independent of init/CopyFrom):
 * a user is stored under its lower-cased name; an administrator with an empty right gets "*";
   an update replaces admin flag and rights, keeps the name, and keeps the password unless the
   request asks to change it;
 * a route is stored under its canonical pattern (rejected when the URL does not parse); an
   update replaces URL and keep-alive and keeps the pattern.
Core Lean only.
-/
import IpcHub.Spec.Table
import IpcHub.Model.UserTable
import IpcHub.Model.Route
namespace IpcHub.EntrySpecs
open IpcHub.Tables IpcHub.TableSpec IpcHub.UserTable IpcHub.Route

def dfltRight (admin : Bool) (right : List Char) : List Char :=
  if admin && right.isEmpty then ['*'] else right

def userSpec (lower : Char → Char) : EntrySpec User :=
  { key := (·.name)
    create := fun u => some { name := u.name.map lower, password := u.password, admin := u.admin,
                              push := dfltRight u.admin u.push, pull := dfltRight u.admin u.pull }
    update := fun old req chg => { name := old.name
                                   password := if chg then req.password else old.password
                                   admin := req.admin
                                   push := dfltRight req.admin req.push
                                   pull := dfltRight req.admin req.pull }
    canonKey := fun n => n.map lower }

def routeSpec (cfg : Route.Cfg) : EntrySpec Route :=
  { key := (·.pattern)
    create := fun r => if cfg.urlOk r.url then some { r with pattern := canon cfg r.pattern } else none
    update := fun old req _ => { pattern := old.pattern, url := req.url, keepAlive := req.keepAlive }
    canonKey := canon cfg }

end IpcHub.EntrySpecs
