/-
Independent specification side of C09: a reference MPEG-TS demultiplexer written from
ISO/IEC 13818-1 (not from the Go code): 188-byte framing, sync byte, PID, continuity counter,
adaptation field (random-access flag, PCR), PES reassembly at payload_unit_start (with
PES_packet_length 0 = unbounded), 33-bit PTS/DTS, PAT/PMT sections with CRC-32/MPEG;
plus reference Annex-B and ADTS encoders / parsers (ISO/IEC 14496-10 Annex B, 13818-7 §6.2).
Core Lean only, executable (the driver evaluates it on the implementation's output).
-/
namespace IpcHub.TsSpec

abbrev Bytes := List UInt8

/-! ### transport packets -/

structure AdaptField where
  len    : Nat                 -- adaptation_field_length
  rai    : Bool                -- random_access_indicator
  pcr    : Option Nat          -- program_clock_reference_base (90 kHz)
deriving Repr, BEq, DecidableEq

structure TsPacket where
  pusi    : Bool
  pid     : Nat
  cc      : Nat
  af      : Option AdaptField
  payload : Bytes
deriving Repr, BEq, DecidableEq

/-- split a byte stream into 188-byte packets; `none` unless it consists of whole packets -/
def chunk188 : Nat → Bytes → Option (List Bytes)
  | 0, bs => if bs.isEmpty then some [] else none
  | fuel + 1, bs =>
    if bs.isEmpty then some []
    else
      let pkt := bs.take 188
      if pkt.length < 188 then none
      else (chunk188 fuel (bs.drop 188)).map (pkt :: ·)

/-- the content of an adaptation field of declared length `l` (bytes after the length byte) -/
def parseAdapt (l : Nat) (body : Bytes) : Option AdaptField :=
  if l = 0 then some { len := 0, rai := false, pcr := none }
  else match body with
    | [] => none
    | fl :: rest =>
      let rai := fl.toNat / 64 % 2 = 1
      let pcrFlag := fl.toNat / 16 % 2 = 1
      -- OPCR, splicing point, private data, extension: not produced, not accepted
      if fl.toNat % 16 ≠ 0 then none
      else if pcrFlag then
        match rest with
        | p0 :: p1 :: p2 :: p3 :: p4 :: _p5 :: _ =>
          if l < 7 then none else
          some { len := l, rai := rai,
                 pcr := some (p0.toNat * 2^25 + p1.toNat * 2^17 + p2.toNat * 2^9 + p3.toNat * 2 + p4.toNat / 128) }
        | _ => none
      else some { len := l, rai := rai, pcr := none }

/-- one transport packet (2.4.3.2); transport_error, scrambling and priority must be 0 -/
def parsePacket (p : Bytes) : Option TsPacket :=
  if p.length ≠ 188 then none else
  match p with
  | s :: b1 :: b2 :: b3 :: rest =>
    if s.toNat ≠ 0x47 then none
    else if b1.toNat / 128 % 2 ≠ 0 ∨ b1.toNat / 32 % 2 ≠ 0 then none          -- error, priority
    else if b3.toNat / 64 ≠ 0 then none                                        -- scrambling
    else
      let pusi := b1.toNat / 64 % 2 = 1
      let pid := b1.toNat % 32 * 256 + b2.toNat
      let cc := b3.toNat % 16
      match b3.toNat / 16 % 4 with
      | 1 => some { pusi, pid, cc, af := none, payload := rest }
      | 3 =>
        match rest with
        | l :: rest' =>
          if l.toNat > 182 then none else
          (parseAdapt l.toNat (rest'.take l.toNat)).map fun af =>
            { pusi, pid, cc, af := some af, payload := rest'.drop l.toNat }
        | [] => none
      | _ => none                        -- adaptation-only / reserved: never written for media
  | _ => none

def parsePackets (ps : List Bytes) : Option (List TsPacket) := ps.mapM parsePacket

/-- continuity: every packet's counter is the previous one plus one modulo 16 -/
def ccChain (start : Nat) : List TsPacket → Bool
  | [] => true
  | p :: ps => p.cc == (start + 1) % 16 && ccChain p.cc ps

/-! ### PES -/

structure Pes where
  pid      : Nat
  streamId : Nat
  pts      : Nat
  dts      : Option Nat       -- present iff PTS_DTS_flags = '11'
  rai      : Bool             -- random access indicator on the first packet
  pcr      : Option Nat       -- PCR on the first packet
  payload  : Bytes
deriving Repr, BEq, DecidableEq

/-- a 5-byte time stamp with the 4-bit prefix `pre` and three marker bits -/
def parseTs (pre : Nat) : Bytes → Option Nat
  | [b0, b1, b2, b3, b4] =>
    if b0.toNat / 16 ≠ pre then none
    else if b0.toNat % 2 ≠ 1 ∨ b2.toNat % 2 ≠ 1 ∨ b4.toNat % 2 ≠ 1 then none
    else some ((b0.toNat / 2 % 8) * 2^30 + ((b1.toNat * 256 + b2.toNat) / 2) * 2^15
               + (b3.toNat * 256 + b4.toNat) / 2)
  | _ => none

/-- split the packets of one PID into access units: a unit starts at payload_unit_start.
    Packets before the first start are returned separately (must be empty for a valid stream). -/
def splitUnits : List TsPacket → List TsPacket × List (List TsPacket)
  | [] => ([], [])
  | p :: ps =>
    let (pre, units) := splitUnits ps
    if p.pusi then ([], (p :: pre) :: units) else (p :: pre, units)

/-- reassemble and parse one PES packet from its transport packets (2.4.3.6) -/
def parsePes (unit : List TsPacket) : Option Pes :=
  match unit with
  | [] => none
  | first :: _ =>
    let bytes : Bytes := (unit.map (·.payload)).flatten
    match bytes with
    | 0 :: 0 :: 1 :: sid :: l1 :: l0 :: f1 :: f2 :: hl :: rest =>
      let plen := l1.toNat * 256 + l0.toNat
      -- '10', scrambling 0, priority 0, alignment 0, copyright 0, original 0
      if f1.toNat ≠ 0x80 then none
      else if hl.toNat > rest.length then none
      else
        let hdr := rest.take hl.toNat
        let payload := rest.drop hl.toNat
        -- PES_packet_length counts everything after itself; 0 = unbounded (video only)
        if plen ≠ 0 ∧ plen ≠ 3 + hl.toNat + payload.length then none
        else if plen = 0 ∧ 3 + hl.toNat + payload.length ≤ 0xffff then none
        else
          let mk (pts : Nat) (dts : Option Nat) : Pes :=
            { pid := first.pid, streamId := sid.toNat, pts, dts,
              rai := (first.af.map (·.rai)).getD false, pcr := first.af.bind (·.pcr),
              payload }
          match f2.toNat with
          | 0x80 => if hl.toNat ≠ 5 then none else (parseTs 2 hdr).map fun pts => mk pts none
          | 0xc0 =>
            if hl.toNat ≠ 10 then none else
            match parseTs 3 (hdr.take 5), parseTs 1 (hdr.drop 5) with
            | some pts, some dts => some (mk pts (some dts))
            | _, _ => none
          | _ => none
    | _ => none

/-- all PES packets carried on `pid`, in stream order; `none` if anything is malformed -/
def demuxPid (pid : Nat) (pkts : List TsPacket) : Option (List Pes) :=
  let mine := pkts.filter (·.pid == pid)
  let (pre, units) := splitUnits mine
  if pre.isEmpty then units.mapM parsePes else none

/-! ### PSI: CRC-32/MPEG-2, PAT, PMT -/

def crcStepBit (crc : Nat) : Nat :=
  if crc / 2^31 % 2 = 1 then ((crc * 2) % 2^32) ^^^ 0x04C11DB7 else (crc * 2) % 2^32

def crcByte (crc : Nat) (b : UInt8) : Nat :=
  let c := crc ^^^ (b.toNat * 2^24)
  crcStepBit (crcStepBit (crcStepBit (crcStepBit (crcStepBit (crcStepBit (crcStepBit (crcStepBit c)))))))

/-- CRC-32/MPEG-2: poly 0x04C11DB7, init 0xFFFFFFFF, no reflection, no final xor.
    A section is valid when the CRC over the whole section including CRC_32 is 0. -/
def crc32mpeg (bs : Bytes) : Nat := bs.foldl crcByte 0xFFFFFFFF

structure Section where
  tableId : Nat
  idExt   : Nat          -- transport_stream_id / program_number
  body    : Bytes        -- between last_section_number and CRC_32
deriving Repr, BEq, DecidableEq

/-- a PSI section at the start of a PUSI payload (pointer_field 0), long syntax, single
    section, current, CRC verified; the remainder of the payload must be 0xFF stuffing -/
def parseSection (payload : Bytes) : Option Section :=
  match payload with
  | ptr :: rest =>
    if ptr.toNat ≠ 0 then none else
    match rest with
    | tid :: s1 :: s2 :: _ =>
      -- section_syntax_indicator 1, '0', reserved '11'
      if s1.toNat / 16 ≠ 0xb then none else
      let slen := s1.toNat % 16 * 256 + s2.toNat
      if slen < 9 ∨ 3 + slen > rest.length then none else
      let sec := rest.take (3 + slen)
      let pad := rest.drop (3 + slen)
      if ¬ pad.all (· == 0xff) then none
      else if crc32mpeg sec ≠ 0 then none
      else
        match sec.drop 3 with
        | e1 :: e0 :: ver :: sn :: lsn :: more =>
          -- reserved '11', version, current_next_indicator 1; section 0 of 0
          if ver.toNat / 64 ≠ 3 ∨ ver.toNat % 2 ≠ 1 ∨ sn.toNat ≠ 0 ∨ lsn.toNat ≠ 0 then none
          else some { tableId := tid.toNat, idExt := e1.toNat * 256 + e0.toNat,
                      body := more.take (slen - 9) }
        | _ => none
    | _ => none
  | [] => none

/-- PAT body: (program_number, PID) pairs -/
def patEntries : Bytes → Option (List (Nat × Nat))
  | [] => some []
  | a :: b :: c :: d :: rest =>
    if c.toNat / 32 ≠ 7 then none else
    (patEntries rest).map ((a.toNat * 256 + b.toNat, c.toNat % 32 * 256 + d.toNat) :: ·)
  | _ => none

/-- PMT elementary stream loop: (stream_type, PID); descriptors must be absent -/
def pmtStreams : Bytes → Option (List (Nat × Nat))
  | [] => some []
  | st :: c :: d :: e :: f :: rest =>
    if c.toNat / 32 ≠ 7 ∨ e.toNat / 16 ≠ 0xf then none
    else if e.toNat % 16 * 256 + f.toNat ≠ 0 then none
    else (pmtStreams rest).map ((st.toNat, c.toNat % 32 * 256 + d.toNat) :: ·)
  | _ => none

structure Pmt where
  program : Nat
  pcrPid  : Nat
  streams : List (Nat × Nat)
deriving Repr, BEq, DecidableEq

def parsePmt (s : Section) : Option Pmt :=
  if s.tableId ≠ 2 then none else
  match s.body with
  | a :: b :: c :: d :: rest =>
    if a.toNat / 32 ≠ 7 ∨ c.toNat / 16 ≠ 0xf then none
    else if c.toNat % 16 * 256 + d.toNat ≠ 0 then none      -- program_info_length 0
    else (pmtStreams rest).map fun ss =>
      { program := s.idExt, pcrPid := a.toNat % 32 * 256 + b.toNat, streams := ss }
  | _ => none

/-- What the first two packets of a stream announce: packet 1 is the PAT on PID 0 with exactly
    one program, packet 2 is that program's PMT on the PID the PAT names. -/
def parseProgram (p1 p2 : Bytes) : Option Pmt :=
  match parsePacket p1, parsePacket p2 with
  | some t1, some t2 =>
    if ¬ (t1.pusi ∧ t1.pid = 0 ∧ t1.af.isNone ∧ t2.pusi ∧ t2.af.isNone) then none else
    match parseSection t1.payload with
    | some pat =>
      if pat.tableId ≠ 0 then none else
      match patEntries pat.body with
      | some [(prog, pmtPid)] =>
        if prog = 0 ∨ t2.pid ≠ pmtPid then none else
        match (parseSection t2.payload).bind parsePmt with
        | some pmt => if pmt.program = prog then some pmt else none
        | none => none
      | _ => none
    | none => none
  | _, _ => none

/-! ### Annex B byte stream (H.264 Annex B) -/

/-- reference encoder: every NAL unit is preceded by a start code; `long i` says whether the
    i-th one is the 4-byte form -/
def annexB : List (Bool × Bytes) → Bytes
  | [] => []
  | (long, nal) :: rest => (if long then [0, 0, 0, 1] else [0, 0, 1]) ++ nal ++ annexB rest

/-- reference splitter: the NAL units of a byte stream (start code 00 00 01, optional leading
    zero byte; trailing zero bytes of a unit belong to the next start code).  `none` unless
    the stream begins with a start code. -/
def splitAnnexBAux : Nat → Bytes → Bytes → List Bytes → List Bytes
  | 0, _, cur, acc => (cur.reverse :: acc).reverse
  | fuel + 1, bs, cur, acc =>
    match bs with
    | 0 :: 0 :: 1 :: rest => splitAnnexBAux fuel rest [] (cur.reverse :: acc)
    | 0 :: 0 :: 0 :: 1 :: rest => splitAnnexBAux fuel rest [] (cur.reverse :: acc)
    | b :: rest => splitAnnexBAux fuel rest (b :: cur) acc
    | [] => (cur.reverse :: acc).reverse

def splitAnnexB (bs : Bytes) : Option (List Bytes) :=
  match bs with
  | 0 :: 0 :: 1 :: rest => some ((splitAnnexBAux rest.length rest [] []))
  | 0 :: 0 :: 0 :: 1 :: rest => some ((splitAnnexBAux rest.length rest [] []))
  | _ => none

/-! ### ADTS (ISO/IEC 13818-7 §6.2) -/

structure Adts where
  profile  : Nat       -- 2 bits (audio object type − 1)
  srIndex  : Nat       -- 4 bits
  chanCfg  : Nat       -- 3 bits
  payload  : Bytes
deriving Repr, BEq, DecidableEq

/-- parse a chain of ADTS frames covering the input exactly: syncword 0xFFF, ID 0 (MPEG-4),
    layer 0, protection_absent 1, frame_length = 7 + payload, one raw data block -/
def parseAdts : Nat → Bytes → Option (List Adts)
  | 0, bs => if bs.isEmpty then some [] else none
  | fuel + 1, bs =>
    match bs with
    | [] => some []
    | h0 :: h1 :: h2 :: h3 :: h4 :: h5 :: h6 :: rest =>
      if h0.toNat ≠ 0xff ∨ h1.toNat ≠ 0xf1 then none else
      let flen := h3.toNat % 4 * 2^11 + h4.toNat * 8 + h5.toNat / 32
      if flen < 7 ∨ flen - 7 > rest.length then none
      else if h6.toNat % 4 ≠ 0 then none
      else if h2.toNat / 2 % 2 ≠ 0 ∨ h3.toNat / 4 % 16 ≠ 0 then none   -- private, orig, home, copyright bits
      else
        (parseAdts fuel (rest.drop (flen - 7))).map
          ({ profile := h2.toNat / 64, srIndex := h2.toNat / 4 % 16,
             chanCfg := h2.toNat % 2 * 4 + h3.toNat / 64, payload := rest.take (flen - 7) } :: ·)
    | _ => none

end IpcHub.TsSpec
