/-
Independent specification side of C06 (and of the well-formed part of C07):
the RTP packetiser a *sender* runs — RFC 6184 (H.264: single NAL, STAP-A, FU-A),
RFC 7798 (H.265: single NAL, AP, FU), RFC 3640 (AAC-hbr) — written from the RFCs, not from
the ipchub depacketizers, plus the executable property predicate used as oracle.
Core Lean only.
-/
import IpcHub.Model.Depack
namespace IpcHub.Packetise
open IpcHub.Depack (Bytes Pkt Frame be16)

/-- one packetisation decision of the sender: the NAL unit(s) of one RTP timestamp that go
    into one packet (single / aggregation) or one NAL unit spread over several (fragmentation).
    `cuts` are the sizes of all fragments but the last (the last takes the rest). -/
inductive Item where
  | single (ts : UInt32) (marker : Bool) (nal : Bytes)
  | agg (ts : UInt32) (marker : Bool) (nals : List Bytes)
  | frag (ts : UInt32) (marker : Bool) (nal : Bytes) (cuts : List Nat)
deriving Repr, Inhabited, DecidableEq

def Item.ts : Item → UInt32
  | .single ts _ _ | .agg ts _ _ | .frag ts _ _ _ => ts

def Item.marker : Item → Bool
  | .single _ m _ | .agg _ m _ | .frag _ m _ _ => m

/-- the NAL units the sender packetised, in order -/
def Item.nals : Item → List Bytes
  | .single _ _ n => [n]
  | .agg _ _ ns => ns
  | .frag _ _ n _ => [n]

/-- the access-unit pieces the receiver must hand on: (RTP timestamp, NAL bytes) -/
def Item.units (it : Item) : List (UInt32 × Bytes) := it.nals.map (fun n => (it.ts, n))

def units (items : List Item) : List (UInt32 × Bytes) := items.flatMap Item.units

/-- cut `bs` into fragments of the given sizes; the last fragment takes the rest -/
def chunks : List Nat → Bytes → List Bytes
  | [], bs => [bs]
  | c :: cs, bs => bs.take c :: chunks cs (bs.drop c)

def hi8 (n : Nat) : UInt8 := UInt8.ofNat (n / 256)
def lo8 (n : Nat) : UInt8 := UInt8.ofNat (n % 256)

/-- 16-bit size prefix + NAL, for every aggregated NAL -/
def aggBody (nals : List Bytes) : Bytes := nals.flatMap (fun n => hi8 n.length :: lo8 n.length :: n)

def fuFlags (first last : Bool) : UInt8 := (if first then 0x80 else 0) ||| (if last then 0x40 else 0)

/-! ### H.264 (RFC 6184) -/

def nri (b : UInt8) : UInt8 := b &&& 0x60

/-- STAP-A header: F = 0, NRI = maximum NRI of the aggregated units, type 24 -/
def stapaHdr (nals : List Bytes) : UInt8 :=
  (nals.foldl (fun m n => match n with | [] => m | b :: _ => if nri b > m then nri b else m) (0 : UInt8)) ||| 24

/-- FU-A: indicator = F|NRI of the unit + type 28; FU header = S|E|0 + type of the unit -/
def fuaPayloads (h : UInt8) : Bool → List Bytes → List Bytes
  | _, [] => []
  | first, [d] => [((h &&& 0xe0) ||| 28) :: (fuFlags first true ||| (h &&& 0x1f)) :: d]
  | first, d :: ds => (((h &&& 0xe0) ||| 28) :: (fuFlags first false ||| (h &&& 0x1f)) :: d) :: fuaPayloads h false ds

def payloads264 : Item → List Bytes
  | .single _ _ n => [n]
  | .agg _ _ ns => [stapaHdr ns :: aggBody ns]
  | .frag _ _ [] _ => []
  | .frag _ _ (h :: data) cuts => fuaPayloads h true (chunks cuts data)

/-- a NAL unit type the H.264 payload format can carry as such: 1 … 23, F bit clear -/
def nalOk264 (n : Bytes) : Bool :=
  match n with
  | [] => false
  | b :: _ => b < 0x80 && (b &&& 0x1f) ≥ 1 && (b &&& 0x1f) ≤ 23

def cutsOk (cuts : List Nat) (dataLen : Nat) : Bool :=
  !cuts.isEmpty && cuts.all (· ≥ 1) && cuts.sum < dataLen

/-- legal packetisation decisions (RFC 6184 §5.6–5.8): aggregated units fit a 16-bit size,
    a fragmented unit has ≥ 2 non-empty fragments (S and E never in the same packet) -/
def legal264 : Item → Bool
  | .single _ _ n => nalOk264 n
  | .agg _ _ ns => !ns.isEmpty && ns.all (fun n => nalOk264 n && n.length < 65536)
  | .frag _ _ n cuts => nalOk264 n && cutsOk cuts (n.length - 1)

/-- as `nalOk264`, with the F bit free: RFC 6184 §5.3 lets a sender / middlebox set
    forbidden_zero_bit to flag a damaged unit; the unit is still packetised (the FU indicator
    carries F) and must come out byte-exact -/
def nalOk264F (n : Bytes) : Bool :=
  match n with
  | [] => false
  | b :: _ => (b &&& 0x1f) ≥ 1 && (b &&& 0x1f) ≤ 23

/-- `legal264` with the F bit free -/
def legal264F : Item → Bool
  | .single _ _ n => nalOk264F n
  | .agg _ _ ns => !ns.isEmpty && ns.all (fun n => nalOk264F n && n.length < 65536)
  | .frag _ _ n cuts => nalOk264F n && cutsOk cuts (n.length - 1)

/-! ### H.265 (RFC 7798, no DONL) -/

def layerId (h0 h1 : UInt8) : UInt8 := ((h0 &&& 1) <<< (5 : UInt8)) ||| (h1 >>> (3 : UInt8))
def tid (h1 : UInt8) : UInt8 := h1 &&& 7

/-- AP payload header: type 48, F = 0, LayerId / TID the lowest of the aggregated units -/
def apHdr (nals : List Bytes) : UInt8 × UInt8 :=
  let l := nals.foldl (fun m n => match n with | h0 :: h1 :: _ => if layerId h0 h1 < m then layerId h0 h1 else m | _ => m) (63 : UInt8)
  let t := nals.foldl (fun m n => match n with | _ :: h1 :: _ => if tid h1 < m then tid h1 else m | _ => m) (7 : UInt8)
  (96 ||| ((l >>> (5 : UInt8)) &&& 1), ((l &&& 0x1f) <<< (3 : UInt8)) ||| t)

/-- FU: payload header = F, LayerId, TID of the unit + type 49; FU header = S|E + type of the unit -/
def fuPayloads (h0 h1 : UInt8) : Bool → List Bytes → List Bytes
  | _, [] => []
  | first, [d] => [((h0 &&& 0x81) ||| 98) :: h1 :: (fuFlags first true ||| ((h0 >>> (1 : UInt8)) &&& 0x3f)) :: d]
  | first, d :: ds =>
    (((h0 &&& 0x81) ||| 98) :: h1 :: (fuFlags first false ||| ((h0 >>> (1 : UInt8)) &&& 0x3f)) :: d) :: fuPayloads h0 h1 false ds

def payloads265 : Item → List Bytes
  | .single _ _ n => [n]
  | .agg _ _ ns => [(apHdr ns).1 :: (apHdr ns).2 :: aggBody ns]
  | .frag _ _ (h0 :: h1 :: data) cuts => fuPayloads h0 h1 true (chunks cuts data)
  | .frag _ _ _ _ => []

/-- a NAL unit the H.265 payload format can carry as such: 2-byte header, type 0 … 47 -/
def nalOk265 (n : Bytes) : Bool :=
  match n with
  | h0 :: _ :: _ => ((h0 >>> (1 : UInt8)) &&& 0x3f) ≤ 47
  | _ => false

def legal265 : Item → Bool
  | .single _ _ n => nalOk265 n
  | .agg _ _ ns => !ns.isEmpty && ns.all (fun n => nalOk265 n && n.length < 65536)
  | .frag _ _ n cuts => nalOk265 n && cutsOk cuts (n.length - 2)

/-! ### sequence numbers -/

/-- consecutive sequence numbers (UInt16, wrapping); the marker bit on the last packet of the item -/
def mkPkts (ts : UInt32) (marker : Bool) : UInt16 → List Bytes → List Pkt
  | _, [] => []
  | s, [b] => [⟨s, ts, marker, b⟩]
  | s, b :: bs => ⟨s, ts, false, b⟩ :: mkPkts ts marker (s + 1) bs

def packetsWith (pl : Item → List Bytes) : UInt16 → List Item → List Pkt
  | _, [] => []
  | s, it :: its =>
    mkPkts it.ts it.marker s (pl it) ++ packetsWith pl (s + UInt16.ofNat (pl it).length) its

def packets264 := packetsWith payloads264
def packets265 := packetsWith payloads265

/-! ### AAC (RFC 3640 AAC-hbr: sizeLength 13, indexLength 3, indexDeltaLength 3) -/

/-- AU-headers-length (bits) + one 16-bit AU header (size << 3 | index 0) per AU + the AUs -/
def aacPayload (aus : List Bytes) : Bytes :=
  hi8 (16 * aus.length) :: lo8 (16 * aus.length) ::
    (aus.flatMap (fun a => [hi8 (a.length * 8), lo8 (a.length * 8)]) ++ aus.flatten)

def legalAac (aus : List Bytes) : Bool :=
  !aus.isEmpty && aus.length < 4096 && aus.all (fun a => a.length < 8192)

/-- AU i of a packet is presented at `ts + 1024·i` (RFC 3640 §3.2.3.2 with constant AU duration) -/
def aacUnits (spf : Nat) : UInt32 → List Bytes → List (UInt32 × Bytes)
  | _, [] => []
  | ts, a :: as => (ts, a) :: aacUnits spf (ts + UInt32.ofNat spf) as

/-! ### the property as an executable predicate over an observed frame list -/

/-- what arrives: positions into the sender's packet list (loss = position absent,
    reordering / duplication = any order) -/
abbrev Order := List Nat

def strictlyIncreasing : List Nat → Bool
  | [] => true
  | [_] => true
  | a :: b :: r => a < b && strictlyIncreasing (b :: r)

/-- does `blk` occur as a contiguous block in `l`? -/
def hasBlock (blk : List Nat) : List Nat → Bool
  | [] => blk.isEmpty
  | x :: xs => blk.isPrefixOf (x :: xs) || hasBlock blk xs

def countBlock (blk : List Nat) : List Nat → Nat
  | [] => 0
  | x :: xs => (if blk.isPrefixOf (x :: xs) then 1 else 0) + countBlock blk xs

/-- the items with the positions of their packets: (item, first position, number of packets) -/
def spans (pl : Item → List Bytes) : Nat → List Item → List (Item × Nat × Nat)
  | _, [] => []
  | p, it :: its => (it, p, (pl it).length) :: spans pl (p + (pl it).length) its

structure Verdict where
  ok : Bool
  cls : String
  detail : String := ""

def countOf (x : UInt32 × Bytes) (l : List (UInt32 × Bytes)) : Nat := l.countP (· == x)

/-- The C06 predicate on the frames a receiver handed on (`obs`, as (timestamp, bytes)), given
    what the sender packetised (`items`) and which packets arrived in which order:
    * every frame is one of the sender's units (same bytes, same timestamp) — nothing invented,
      truncated or spliced;
    * a unit is handed on once per complete arrival: a single / aggregation packet that arrives,
      a fragmented unit whose fragments arrive as one in-order contiguous block; never more often
      than its fragments could account for; a fragmented unit with a fragment that never arrives
      is absent;
    * if nothing is reordered (positions strictly increasing) the frames are exactly the
      surviving units in the sender's order. -/
def judgeSpans (sp : List (Item × Nat × Nat)) (order : Order) (obs : List (UInt32 × Bytes)) : Verdict :=
  let us := sp.flatMap (fun (it, _, _) => it.units)
  match obs.find? (fun o => !us.contains o) with
  | some o => ⟨false, "invented-unit", s!"frame ts={o.1} len={o.2.length} is not a unit of the sender"⟩
  | none =>
    if strictlyIncreasing order then
      let expect := sp.flatMap (fun (it, p, n) =>
        match it with
        | .frag .. => if (List.range n).all (fun k => order.contains (p + k)) then it.units else []
        | _ => if order.contains p then it.units else [])
      if obs == expect then ⟨true, "ok", ""⟩
      else if obs.length < expect.length then ⟨false, "unit-missing", s!"{obs.length} frames, expected {expect.length}"⟩
      else if obs.length > expect.length then ⟨false, "unit-extra", s!"{obs.length} frames, expected {expect.length}"⟩
      else ⟨false, "unit-order", "same number of frames, different sequence"⟩
    else
      -- reordering / duplication: multiset bounds per distinct unit value
      let lower (u : UInt32 × Bytes) : Nat := sp.foldl (fun acc (it, p, n) =>
        acc + countOf u it.units * (match it with
          | .frag .. => countBlock ((List.range n).map (p + ·)) order
          | _ => order.count p)) 0
      let upper (u : UInt32 × Bytes) : Nat := sp.foldl (fun acc (it, p, n) =>
        acc + countOf u it.units * (match it with
          | .frag .. => if (List.range n).all (fun k => order.contains (p + k)) then order.count (p + n - 1) else 0
          | _ => order.count p)) 0
      match us.find? (fun u => countOf u obs < lower u) with
      | some u => ⟨false, "unit-missing", s!"unit ts={u.1} len={u.2.length}: {countOf u obs} < {lower u}"⟩
      | none =>
        match us.find? (fun u => countOf u obs > upper u) with
        | some u => ⟨false, "unit-extra", s!"unit ts={u.1} len={u.2.length}: {countOf u obs} > {upper u}"⟩
        | none => ⟨true, "ok", ""⟩

def judge (pl : Item → List Bytes) (items : List Item) (order : Order) (obs : List (UInt32 × Bytes)) : Verdict :=
  judgeSpans (spans pl 0 items) order obs

/-- is `a` a subsequence of `b`? -/
def isSubseq : List (UInt32 × Bytes) → List (UInt32 × Bytes) → Bool
  | [], _ => true
  | _ :: _, [] => false
  | x :: xs, y :: ys => if x == y then isSubseq xs ys else isSubseq (x :: xs) ys

/-- modular (wrapping) signed difference of two RTP timestamps -/
def tsDiff (a b : UInt32) : Int :=
  let d := (a - b).toNat
  if d < 2147483648 then (d : Int) else (d : Int) - 4294967296

/-- presentation times: frames of one RTP timestamp share one PTS, and PTS differences are the
    (modular) RTP timestamp differences at the clock rate, up to `tol` ns of rounding.
    `obs` = (rtp timestamp, pts in ns) in emission order. -/
def ptsHolds (rate : Nat) (tol : Int) : List (UInt32 × Int) → Bool
  | [] => true
  | [_] => true
  | (t1, p1) :: (t2, p2) :: r =>
    let want := Int.tdiv (tsDiff t2 t1 * 1000000000) rate
    let got := p2 - p1
    (if t1 = t2 then p1 = p2 else true) && (got - want ≤ tol) && (want - got ≤ tol)
      && ptsHolds rate tol ((t2, p2) :: r)

end IpcHub.Packetise
