import IpcHub.Model.MediaCache
/-!
The cache's and the back-pressure's view of a published packet sequence, as a specification:
which kind each packet has (classifier verdict + the priority order of CachePack), which key-frame
slice packets START a key frame and which continue one, and the alignment clause of C04 on what a
consumer was delivered.  Core Lean only (used by the lemmas and by the compiled driver).
-/
namespace IpcHub.Media

inductive PK where
  | nonvideo | fault | vps | sps | pps | key | other
  deriving DecidableEq, Repr

/-- the cache's view of one packet taken alone: channel, classifier verdict, and the priority order of
    CachePack (`key` here means: a key-frame SLICE packet) -/
def pktKind (k : NalConsts) (hevc : Bool) (p : Pkt) : PK :=
  if p.ch ≠ 0 then .nonvideo else
  match (if hevc then classify265 k p.payload else classify264 k p.payload) with
  | none => .fault
  | some f =>
    if hevc && f.vps then .vps else if f.sps then .sps else if f.pps then .pps
    else if f.key then .key else .other

/-! #### key frames of several slice packets

All packets of one access unit carry the same RTP timestamp.  A key-frame slice packet that
follows a key-frame slice packet with the same timestamp continues that key frame: the cache
treats it as an ordinary packet of the GOP (it does not restart the GOP and is not reported as a
key-frame start).  `effKind` is the kind the cache acts on, given the run left by the history. -/

/-- a later (non-start) fragment of a fragmented key-frame slice -/
def isKeyFragment (k : NalConsts) (hevc : Bool) (p : Pkt) : Bool :=
  if hevc then keyFragment265 k p.payload else keyFragment264 k p.payload

/-- the key run after a packet: a key slice opens (or continues) a run with its timestamp; a later
    fragment of a key slice with the run's timestamp keeps it; any other slice packet ends it;
    packets that are not slices leave it alone -/
def nextRun (k : NalConsts) (hevc : Bool) (run : Option Nat) (p : Pkt) : Option Nat :=
  match pktKind k hevc p with
  | .key => some p.ts
  | .other => if run == some p.ts && isKeyFragment k hevc p then run else none
  | _ => run

/-- the kind the cache acts on -/
def effKind (k : NalConsts) (hevc : Bool) (run : Option Nat) (p : Pkt) : PK :=
  match pktKind k hevc p with
  | .key => if run = some p.ts then .other else .key
  | x => x

/-- the history annotated with effective kinds -/
def ann (k : NalConsts) (hevc : Bool) : Option Nat → List Pkt → List (Pkt × PK)
  | _, [] => []
  | run, p :: ps => (p, effKind k hevc run p) :: ann k hevc (nextRun k hevc run p) ps

/-- C04's alignment clause, evaluated on what a consumer was actually delivered.  `ps` = everything
    published (uid i+1 = position i); the consumer was attached for the packets with uid in
    (`joinedAt`, `detachedAt`] and had drained its queue when it was detached, so each of those was
    either delivered (`d`) or dropped for backlog.  Walking through them in published order: a
    packet that is missing although its predecessor was delivered BEGINS a drop, a packet that was
    delivered although its predecessor is missing ENDS one — both must START a key frame.
    Answer: the uid of the first offending packet. -/
def dropAligned (k : NalConsts) (hevc : Bool) (ps : List Pkt) (joinedAt detachedAt : Nat) (d : List Nat) : Option Nat :=
  let kinds := (ann k hevc none ps).map (·.2)
  let rec go (dropping : Bool) : List Nat → Option Nat
    | [] => none
    | u :: rest =>
      let got := d.contains u
      if got == !dropping then go dropping rest
      else if kinds[u - 1]? == some PK.key then go (!got) rest
      else some u
  go false ((List.range (detachedAt - joinedAt)).map (· + joinedAt + 1))

end IpcHub.Media
