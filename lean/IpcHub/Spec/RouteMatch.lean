/-
Specification of route resolution (C17), written over the abstract table (a list of routes
with distinct patterns; no map, no loop-carried variables):

  resolve t p =  nothing                         if canon p ends in '/'
                 the route with pattern canon p  if there is one
                 the directory route (pattern ends in '/') whose pattern is the longest
                   prefix of canon p, re-targeted  otherwise, if any
                 nothing                         otherwise
  re-targeted URL = route URL (one trailing '/' dropped), then '/', then the rest of the path.
Core Lean only.
-/
import IpcHub.Model.Route
namespace IpcHub.RouteSpec
open IpcHub.Route

def isDir (p : List Char) : Bool := p.getLast? = some '/'

/-- `pre` is a prefix of `s` -/
def isPrefix : List Char → List Char → Bool
  | [], _ => true
  | _ :: _, [] => false
  | a :: as, b :: bs => a = b && isPrefix as bs

/-- the directory routes that cover the path -/
def candidates (t : List Route) (cp : List Char) : List Route :=
  t.filter (fun r => isDir r.pattern && isPrefix r.pattern cp)

/-- a candidate at least as long as every candidate -/
def longest (cs : List Route) : Option Route :=
  cs.find? (fun r => cs.all (fun r' => r'.pattern.length ≤ r.pattern.length))

/-- URL, one trailing '/' dropped, '/', remainder -/
def joinSpec (url rest : List Char) : List Char :=
  (if url.getLast? = some '/' then url.dropLast else url) ++ '/' :: rest

def resolve (cfg : Cfg) (t : List Route) (p : List Char) : Option Route :=
  let cp := canon cfg p
  if isDir cp then none
  else
    match t.find? (fun r => r.pattern = cp) with
    | some r => some r
    | none =>
      match longest (candidates t cp) with
      | none => none
      | some r => some { pattern := cp, url := joinSpec r.url (cp.drop r.pattern.length), keepAlive := r.keepAlive }

/-- the outcome the specification prescribes for `Match`: a route or nothing, never a panic -/
def outOf : Option Route → MatchOut
  | none => .none
  | some r => .found r

end IpcHub.RouteSpec
