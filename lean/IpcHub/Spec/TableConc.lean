/-
Specification of an edit that overlaps a flush (C18).  The statement: "the in-memory table equals
the result of applying those operations in order … and after a flush a restarted server loads
exactly that table".  For two operations that overlap in time, "in order" is one of the two
orders: the edit takes effect before the flush (and is persisted by it) or after it (and is
persisted by the next flush).  Either way the edit is in the current table, and a further flush
persists it.  Core Lean only.
-/
import IpcHub.Spec.Table
import IpcHub.Model.TablesConc
namespace IpcHub.TableSpec
open IpcHub.Tables

/-- `flush ∥ edit` on the abstract table, in one of the two orders -/
def Abs.flushDuring {V : Type} (e : EntrySpec V) (dflt : List V) (a : Abs V) (edit : Op V) (editFirst : Bool) : Abs V :=
  if editFirst then Abs.step e dflt (Abs.step e dflt a edit) .flush
  else Abs.step e dflt (Abs.step e dflt a .flush) edit

/-- the order the table lock imposes once the flush has reached the provider: flush, then edit -/
def Abs.xstep {V : Type} (e : EntrySpec V) (dflt : List V) (a : Abs V) : XOp V → Abs V
  | .c x => Abs.cstep e dflt a x
  | .flushDuring edit => Abs.flushDuring e dflt a edit false

def Abs.xrun {V : Type} (e : EntrySpec V) (dflt : List V) (a : Abs V) (ops : List (XOp V)) : Abs V :=
  ops.foldl (Abs.xstep e dflt) a

end IpcHub.TableSpec
