/-
C09: how the specification reads the INPUT of the muxer: a codec frame with nanosecond time
stamps is a source frame "in 90 kHz units as supplied" (ns × 90000 / 10^9, truncated), and the
ADTS-visible audio parameters are those of the decoded AudioSpecificConfig.  Used by the driver
(to evaluate `TsSpec.holds` on the implementation's bytes) and by `c09_holds` (the same
predicate proved of the model's bytes for every input).
-/
import IpcHub.Model.Ts
import IpcHub.Spec.TsOracle
namespace IpcHub.TsSpec
open IpcHub.Ts

def ticksNat (ns : Int) : Nat := (Int.tdiv (ns * 90000) 1000000000).toNat

def srcOf (f : AvFrame) : List Src :=
  match f.media with
  | .video => [.video f.payload (ticksNat f.dtsNs) (ticksNat f.ptsNs)]
  | .audio => [.audio f.payload (ticksNat f.ptsNs)]
  | .other => []

/-- parameter sets of the stream and what an ADTS header must show for the decoded config `a`
    (explicit SBR signalling: the extension sampling frequency) -/
def paramsOf (sps pps : List UInt8) (a : Asc) : Params :=
  { sps, pps, aot := a.objectType,
    srIndex := (if a.extSampleRate > 0 then a.extSamplingIndex else a.samplingIndex),
    chanCfg := a.channelConfig }

end IpcHub.TsSpec
