/-
C12 specification: the reference automaton of the property statement, as an executable
monitor over what a client can observe of one session.  It knows nothing of the session
code; it reads, per request, the method, the responses received, and the resources the
session holds afterwards.  The check evaluates it on the implementation's observed
behaviour (property oracle) and the theorems of Props/C12.lean prove that every run of the
model is accepted.  Core Lean only.
-/
import IpcHub.Model.RtspBase
namespace IpcHub.RtspSpec
open IpcHub.Rtsp

/-- where a session is in the legal method order -/
inductive Phase
  | fresh | described | announced | readyPlay | readyRecord | playing | recording | closed
  deriving DecidableEq, Repr, Inhabited

/-- the flavour of connection: plain RTSP (TCP or ws-rtsp) or the WSP control channel
    (play only; PAUSE exists) -/
inductive Flavour | rtsp | wsp
  deriving DecidableEq, Repr, Inhabited

/-- the legal method order of the statement: DESCRIBE → SETUP → PLAY, ANNOUNCE → SETUP(record)
    → RECORD; OPTIONS and TEARDOWN at any time; SETUP may be repeated (one per track);
    PLAY / RECORD may be repeated once reached (keep-alive); PAUSE only on WSP while playing. -/
def legal (f : Flavour) : Phase → Method → Bool
  | .closed, _ => false
  | _, .options => true
  | _, .teardown => true
  | .fresh, .describe | .described, .describe | .announced, .describe => true
  | .fresh, .announce | .described, .announce | .announced, .announce => f == .rtsp
  | .fresh, .setup | .described, .setup | .announced, .setup => true
  | .readyPlay, .setup | .readyRecord, .setup => true
  | .readyPlay, .play | .playing, .play => true
  | .readyRecord, .record | .recording, .record => f == .rtsp
  | .playing, .pause => f == .wsp
  | _, _ => false

/-- what a SETUP request explicitly asks for in its `mode` parameter(s) -/
inductive SetupAsk
  | record        -- there are `mode` parameters and every one is `record`
  | play          -- there are `mode` parameters and none is `record`
  | unspecified   -- no `mode` parameter, or contradictory ones
  deriving DecidableEq, Repr, Inhabited

/-- what the client saw for one request (or for hanging up) -/
structure Obs where
  hangup : Bool
  method : Method
  /-- what the SETUP's Transport header asks for (`specSetupAsk`) -/
  ask : SetupAsk
  /-- number of responses received for this request -/
  nresp : Nat
  code : Nat
  /-- the response carries the request's CSeq -/
  cseqOk : Bool
  /-- the response carries the session id (the same on every response of the session) -/
  sidOk : Bool
  /-- consumers this session holds afterwards (attached to a stream / multicast member) -/
  consumers : Nat
  /-- a stream published by this session is registered afterwards -/
  published : Bool
  /-- the server has closed the connection afterwards -/
  closed : Bool
  /-- media was received from the session BEFORE the response to this request (on the WSP data
      channel, whose order against the control channel is not defined: at any time during it) -/
  media : Bool := false
  /-- not a request: the client sent an interleaved (`$`) frame on the connection -/
  frame : Bool := false
  deriving Repr, Inhabited

/-- the monitor's memory: the phase and the resources seen after the previous request -/
structure MState where
  phase : Phase
  consumers : Nat
  published : Bool
  deriving DecidableEq, Repr, Inhabited

def MState.init : MState := { phase := .fresh, consumers := 0, published := false }

/-- the values of the `mode` parameters of a Transport header (RFC 2326 §12.39: parameters
    separated by ';', `mode = <"> 1#mthd <">`; blanks and quotes around key and value ignored) -/
def modeParams (transport : Str) : List Str :=
  (splitOn ';' transport).filterMap (fun tok =>
    match cut '=' (trimSpace tok) with
    | some (k, v) => if trimFunc isSpaceOrQuote k == "mode".toList then some (trimFunc isSpaceOrQuote v) else none
    | none => if trimSpace tok == "mode".toList then some [] else none)   -- a bare `mode` has the empty value

def specSetupAsk (transport : Str) : SetupAsk :=
  let ms := modeParams transport
  if ms.isEmpty then .unspecified
  else if ms.all (· == "record".toList) then .record
  else if ms.all (· != "record".toList) then .play
  else .unspecified

/-- the phase after a successful (200) request, `none` if success is not allowed there.
    A SETUP that explicitly asks for the other direction than the session was opened for
    (DESCRIBE = play, ANNOUNCE = record) must not succeed. -/
def succPhase (f : Flavour) (ph : Phase) (m : Method) (ask : SetupAsk) : Option Phase :=
  match m, ph with
  | .describe, .fresh | .describe, .described | .describe, .announced => some .described
  | .announce, .fresh | .announce, .described | .announce, .announced =>
    if f == .rtsp then some .announced else none
  | .setup, .described | .setup, .readyPlay => if ask == .record then none else some .readyPlay
  | .setup, .announced | .setup, .readyRecord =>
    if f == .rtsp && ask != .play then some .readyRecord else none
  | .play, .readyPlay | .play, .playing => some .playing
  | .record, .readyRecord | .record, .recording => if f == .rtsp then some .recording else none
  | .pause, .playing => if f == .wsp then some .playing else none
  | _, _ => none

/-- the state-dependent part of the judgement: the request is neither OPTIONS nor TEARDOWN, it
    got exactly one well-formed response and the connection is still open -/
def mstepState (f : Flavour) (st : MState) (o : Obs) : Except String MState :=
  if !legal f st.phase o.method && o.code != 455 then .error "illegal-method-not-455"
  else if o.code == 455 then
    if o.consumers != st.consumers || o.published != st.published then .error "455-not-inert"
    else if (o.method == .describe || o.method == .announce || o.method == .setup || (o.method == .play && f == .rtsp) || (o.method == .pause && f == .wsp)) && legal f st.phase o.method then
      .error "legal-method-455"
    else .ok st
  else if o.code == 200 then
    match succPhase f st.phase o.method o.ask with
    | none => .error "success-out-of-order"
    | some ph =>
      let wantCons := if ph == .playing then 1 else 0
      let wantPub := ph == .recording
      if o.consumers != wantCons then
        .error (if o.consumers > wantCons then "media-without-play" else "play-without-media")
      else if o.published != wantPub then
        .error (if o.published then "published-without-record" else "record-without-stream")
      else .ok { phase := ph, consumers := o.consumers, published := o.published }
  else
    -- refused with another status: nothing is gained or lost, the session stays where it is
    if o.consumers != st.consumers || o.published != st.published then .error "refusal-not-inert"
    else .ok st

/-- the judgement of a request that got exactly one well-formed response -/
def mstepResp (f : Flavour) (st : MState) (o : Obs) : Except String MState :=
  if o.method == .teardown then
    if o.code != 200 then .error "teardown-refused"
    else if o.closed && o.consumers == 0 && !o.published then .ok { phase := .closed, consumers := 0, published := false }
    else .error "not-released-on-teardown"
  else if o.closed then .error "connection-lost"       -- usable after any (refused or accepted) request
  else if o.method == .options then
    if o.code != 200 then .error "options-refused"
    else if o.consumers != st.consumers || o.published != st.published then .error "options-not-inert"
    else .ok st
  else mstepState f st o

/-- One observation against the automaton.  `Except` carries the class of the violation. -/
def mstep (f : Flavour) (st : MState) (o : Obs) : Except String MState :=
  if st.phase == .closed then
    -- nothing may come out of a closed session
    if o.nresp == 0 then .ok st else .error "response-after-close"
  else if o.hangup then
    if o.closed && o.consumers == 0 && !o.published then .ok { phase := .closed, consumers := 0, published := false }
    else .error "not-released-on-disconnect"
  else if o.nresp == 0 then .error "no-response"
  else if o.nresp > 1 then .error "several-responses"
  else if !o.cseqOk then .error "cseq-not-echoed"
  else if !o.sidOk then .error "session-id-missing"
  else mstepResp f st o

/-- "No media is sent before a successful PLAY": media that precedes the response to a request
    belongs to a session that was already playing when the request was made.  (On WSP the consumer
    is attached while the PLAY is handled and the data channel is a connection of its own, so there
    media may also accompany the PLAY that is answered 200.) -/
def mediaOk (f : Flavour) (st : MState) (o : Obs) : Bool :=
  !o.media || st.phase == .playing || (f == .wsp && !o.hangup && !o.frame && o.method == .play && o.code == 200)

/-- A frame sent by the client is not a request (RFC 2326 §10.12: RTCP travels both ways on the
    interleaved channels): it is not answered, it does not cost the connection, and it neither gives
    nor takes a resource. -/
def mframe (st : MState) (o : Obs) : Except String MState :=
  if st.phase == .closed then
    if o.nresp == 0 then .ok st else .error "response-after-close"
  else if o.nresp != 0 then .error "frame-answered"
  else if o.closed then .error "connection-lost"
  else if o.consumers != st.consumers || o.published != st.published then .error "frame-not-inert"
  else .ok st

/-- a client frame or a request / hang-up -/
def mcore (f : Flavour) (st : MState) (o : Obs) : Except String MState :=
  if o.frame then mframe st o else mstep f st o

/-- One observation against the automaton, media and client frames included. -/
def mguard (f : Flavour) (st : MState) (o : Obs) : Except String MState :=
  if !mediaOk f st o then .error "media-before-play" else mcore f st o

/-- run the monitor over a whole observed dialogue -/
def mrun (f : Flavour) : MState → List Obs → Except String MState
  | st, [] => .ok st
  | st, o :: os =>
    match mguard f st o with
    | .ok st' => mrun f st' os
    | .error c => .error c

/-- the property on one observed dialogue -/
def accepts (f : Flavour) (os : List Obs) : Bool :=
  match mrun f MState.init os with
  | .ok _ => true
  | .error _ => false

/-- the class of the first violation ("ok" if none) -/
def verdict (f : Flavour) (os : List Obs) : String :=
  match mrun f MState.init os with
  | .ok _ => "ok"
  | .error c => c

/-- index of the observation at which the monitor stops (for reporting only) -/
def badIndex (f : Flavour) : MState → List Obs → Nat → Option Nat
  | _, [], _ => none
  | st, o :: os, i =>
    match mguard f st o with
    | .ok st' => badIndex f st' os (i + 1)
    | .error _ => some i

end IpcHub.RtspSpec
