/-
C10 as an executable predicate over what an HLS client can observe (playlist texts, segment
bytes fetched through the listed URIs, bytes read through readers held across roll-over) plus
the source frames, written from the property statement (RFC 8216 playlist syntax, the reference
TS demultiplexer of `Spec/TsDemux.lean`).  Independent of `Model/Hls.lean`.
-/
import IpcHub.Spec.TsOracle
namespace IpcHub.HlsSpec
open IpcHub.TsSpec

/-! ### a strict reader for the media playlist -/

structure Entry where
  disc  : Bool
  durMs : Nat            -- EXTINF value in milliseconds (three decimals)
  uri   : List Char
deriving Repr, BEq, DecidableEq

structure Playlist where
  target   : Nat
  mediaSeq : Nat
  entries  : List Entry
deriving Repr, BEq, DecidableEq

def splitLines (cs : List Char) : List (List Char) :=
  let (cur, acc) := cs.foldl (fun (st : List Char × List (List Char)) c =>
      if c = '\n' then ([], st.1.reverse :: st.2) else (c :: st.1, st.2)) ([], [])
  (if cur.isEmpty then acc else cur.reverse :: acc).reverse

def digitsToNat? (cs : List Char) : Option Nat :=
  if cs.isEmpty then none else
  cs.foldl (fun acc c => acc.bind fun n => if c.isDigit then some (n * 10 + (c.toNat - 48)) else none) (some 0)

def dropPrefix? (pre cs : List Char) : Option (List Char) :=
  if pre.isPrefixOf cs then some (cs.drop pre.length) else none

/-- `<int>.<3 digits>,` -/
def parseExtinf (cs : List Char) : Option Nat :=
  let ip := cs.takeWhile (· ≠ '.')
  match cs.dropWhile (· ≠ '.') with
  | '.' :: a :: b :: c :: [','] =>
    match digitsToNat? ip, digitsToNat? [a, b, c] with
    | some i, some f => some (i * 1000 + f)
    | _, _ => none
  | _ => none

def parseEntries : Nat → List (List Char) → Option (List Entry)
  | 0, ls => if ls.isEmpty then some [] else none
  | fuel + 1, ls =>
    match ls with
    | [] => some []
    | l :: rest =>
      let (disc, l, rest) :=
        if l = "#EXT-X-DISCONTINUITY".toList then
          match rest with
          | l' :: rest' => (true, l', rest')
          | [] => (true, [], [])
        else (false, l, rest)
      match dropPrefix? "#EXTINF:".toList l, rest with
      | some d, uri :: rest' =>
        match parseExtinf d with
        | some ms =>
          if uri.isEmpty ∨ uri.head? = some '#' then none
          else (parseEntries fuel rest').map ({ disc, durMs := ms, uri } :: ·)
        | none => none
      | _, _ => none

/-- the playlist must be: #EXTM3U, version, (allow-cache), target duration, media sequence,
    an empty line, then the entries -/
def parsePlaylist (cs : List Char) : Option Playlist :=
  match splitLines cs with
  | l1 :: l2 :: l3 :: l4 :: l5 :: l6 :: rest =>
    if l1 ≠ "#EXTM3U".toList ∨ l2 ≠ "#EXT-X-VERSION:3".toList ∨ l3 ≠ "#EXT-X-ALLOW-CACHE:NO".toList ∨ ¬ l6.isEmpty then none
    else
      match (dropPrefix? "#EXT-X-TARGETDURATION:".toList l4).bind digitsToNat?,
            (dropPrefix? "#EXT-X-MEDIA-SEQUENCE:".toList l5).bind digitsToNat? with
      | some t, some m => (parseEntries rest.length rest).map fun es => { target := t, mediaSeq := m, entries := es }
      | _, _ => none
  | _ => none

def hexVal (c : Char) : Option Nat :=
  if '0' ≤ c ∧ c ≤ '9' then some (c.toNat - 48)
  else if 'a' ≤ c ∧ c ≤ 'f' then some (c.toNat - 87)
  else if 'A' ≤ c ∧ c ≤ 'F' then some (c.toNat - 55)
  else none

/-- characters that may stand for themselves in the value of a query parameter (RFC 3986 §3.4
    `query`, minus the separators of the form encoding `&` `;` `+` `=`… `=` is harmless in a value) -/
def queryRaw (c : Char) : Bool :=
  c.isAlphanum || "-._~!$'()*,:@/?=".toList.contains c

/-- the value a query-parameter text stands for (application/x-www-form-urlencoded, as the server
    decodes it): `%XX` is the byte XX, `+` a space; anything that is neither that nor a character
    allowed to stand for itself makes the URI malformed (`none`) -/
def queryValue : List Char → Option (List Char)
  | [] => some []
  | c :: r =>
    if c = '%' then
      match r with
      | a :: b :: r' =>
        match hexVal a, hexVal b with
        | some x, some y => (queryValue r').map (Char.ofNat (x * 16 + y) :: ·)
        | _, _ => none
      | _ => none
    else if c = '+' then (queryValue r).map (' ' :: ·)
    else if queryRaw c then (queryValue r).map (c :: ·)
    else none

/-- the sequence number a segment URI of stream `path` names; the URI must carry the caller's
    token — a query `?token=<text>` whose text the server will decode to exactly `token` — when one
    was given, and no query otherwise -/
def uriSeq (path token uri : List Char) : Option Nat :=
  (dropPrefix? ("/streams".toList ++ path ++ ['/']) uri).bind fun r =>
    let num := r.takeWhile Char.isDigit
    let tail := r.dropWhile Char.isDigit
    (dropPrefix? ".ts".toList tail).bind fun q =>
      if token.isEmpty then (if q.isEmpty then digitsToNat? num else none)
      else
        match (dropPrefix? "?token=".toList q).bind queryValue with
        | some t => if t = token then digitsToNat? num else none
        | none => none

def consecutive : List Nat → Bool
  | a :: b :: r => b == a + 1 && consecutive (b :: r)
  | _ => true

/-- clauses of the statement that concern one served playlist: exactly `remain` entries with
    consecutive sequence numbers, media-sequence = the first, target duration ≥ every listed
    duration, URIs of the right form carrying the token; returns the listed numbers -/
def checkPlaylist (remain : Nat) (path token text : List Char) : Except String (List Nat) := do
  let pl ← match parsePlaylist text with
    | some p => pure p | none => throw "playlist-syntax"
  if pl.entries.length ≠ remain then throw "playlist-entry-count"
  let seqs ← match pl.entries.mapM (fun e => uriSeq path token e.uri) with
    | some s => pure s | none => throw "playlist-uri"
  if ¬ consecutive seqs then throw "playlist-not-consecutive"
  if seqs.head? ≠ some pl.mediaSeq then throw "playlist-media-sequence"
  if ¬ pl.entries.all (fun e => e.durMs ≤ pl.target * 1000) then throw "playlist-target-duration"
  pure seqs

/-! ### segments -/

/-- the PES packets of one segment file: PAT/PMT first, whole packets, continuity from 0 on
    both PIDs, well-formed PES on the two announced PIDs, nothing else -/
structure SegPes where
  video : List Pes
  audio : List Pes
  firstIsVideo : Option Bool      -- kind of the first PES of the segment
deriving Repr

def demuxSegment (ts : Bytes) : Except String SegPes := do
  let chunks ← match chunk188 (ts.length / 188 + 1) ts with
    | some c => pure c | none => throw "segment-not-whole-packets"
  match chunks with
  | p1 :: p2 :: media =>
    let pmt ← match parseProgram p1 p2 with
      | some p => pure p | none => throw "segment-pat-pmt"
    let vpid ← match pmt.streams.filter (·.1 = 0x1b) with
      | [(_, pid)] => pure pid | _ => throw "segment-pmt-no-h264"
    let apid ← match pmt.streams.filter (·.1 = 0x0f) with
      | [(_, pid)] => pure pid | _ => throw "segment-pmt-no-aac"
    let pkts ← match parsePackets media with
      | some ps => pure ps | none => throw "segment-ts-packet-malformed"
    if ¬ pkts.all (fun k => k.pid = vpid ∨ k.pid = apid) then throw "segment-unknown-pid"
    if ¬ ccChain 0 (pkts.filter (·.pid == vpid)) then throw "segment-video-continuity"
    if ¬ ccChain 0 (pkts.filter (·.pid == apid)) then throw "segment-audio-continuity"
    let v ← match demuxPid vpid pkts with
      | some l => pure l | none => throw "segment-video-pes-malformed"
    let a ← match demuxPid apid pkts with
      | some l => pure l | none => throw "segment-audio-pes-malformed"
    pure { video := v, audio := a,
           firstIsVideo := ((pkts.filter (·.pusi)).head?).map (·.pid = vpid) }
  | _ => throw "segment-no-pat-pmt"

/-- the media time a segment spans: the largest distance (in 90 kHz ticks, modulo 2^33) of a PES
    time stamp of the segment from its first PES's -/
def mediaSpan (sp : SegPes) : Nat :=
  let all := (sp.video ++ sp.audio).map (·.pts)
  match all with
  | [] => 0
  | _ =>
    let lo := all.foldl min (all.headD 0)
    -- (no wrap inside one segment unless it straddles 2^33: then measure from the smallest stamp above 2^32)
    let hi := all.foldl max 0
    if hi - lo < 2^32 then hi - lo
    else
      let up := all.filter (· ≥ 2^32)
      let lo' := up.foldl min (up.headD 0)
      let hi' := (all.filter (· < 2^32)).foldl max 0
      hi' + 2^33 - lo'

/-- the first video PES of a segment is a key frame: random access, PCR, and its Annex-B data
    begins with AUD, SPS, PPS -/
def startsWithKey (p : Params) (sp : SegPes) : Bool :=
  match sp.video with
  | [] => true                      -- an audio-only segment has no video to begin
  | v :: _ =>
    v.rai && v.pcr.isSome &&
    (match splitAnnexB v.payload with
     | some nals =>
       let nals := nals.filter (· ≠ [])
       let want := [audNal] ++ (if p.sps.isEmpty then [] else [p.sps]) ++ (if p.pps.isEmpty then [] else [p.pps])
       want.isPrefixOf nals && ((nals.drop want.length).head?.map nalType == some 5)
     | none => false)

/-- video PES packets against the source video frames they must carry, in order; returns the
    unmatched rest of the sources -/
def matchVideo (p : Params) : List (Bytes × Nat × Nat) → List Pes → Except String (List (Bytes × Nat × Nat))
  | srcs, [] => pure srcs
  | [], _ :: _ => throw "video-frame-not-in-source"
  | (nal, d, t) :: srcs, pes :: rest => do
    checkVideo p nal d t pes
    matchVideo p srcs rest

/-- audio PES packets (each a chain of ADTS frames) against the source AAC frames -/
def matchAudio (p : Params) : List (Bytes × Nat) → List Pes → Except String (List (Bytes × Nat))
  | srcs, [] => pure srcs
  | srcs, pes :: rest => do
    if pes.streamId / 32 ≠ 6 then throw "audio-stream-id"
    let fs ← match parseAdts pes.payload.length pes.payload with
      | some fs => pure fs | none => throw "adts-malformed"
    if fs.isEmpty then throw "adts-empty-pes"
    let n := fs.length
    if (srcs.take n).map (·.1) ≠ fs.map (·.payload) then throw "audio-frame-mismatch"
    -- the PES time stamp is the first frame's, re-derived from the sample count: at most 100 ms off
    match srcs.head? with
    | some (_, t) =>
      -- distance on the 33-bit circle (the stamps wrap at 2^33)
      let d := (pes.pts + 2^33 - t % 2^33) % 2^33
      if 9000 < d ∧ d < 2^33 - 9000 then throw "audio-pts-drift"
    | none => pure ()
    if 1 ≤ p.aot ∧ p.aot ≤ 4 ∧ p.srIndex ≤ 12 ∧ p.chanCfg ≤ 7 ∧
        ¬ fs.all (fun f => f.profile = p.aot - 1 ∧ f.srIndex = p.srIndex ∧ f.chanCfg = p.chanCfg) then
      throw "adts-config"
    matchAudio p (srcs.drop n) rest

/-- "Across consecutive segments every source frame appears exactly once": the segments in
    order of sequence number (complete ones, then optionally the open one) carry the source
    video frames and AAC frames in order without gap or repetition; what is left over is what
    has not been written yet.  `complete` says the open segment is included, so that no video
    frame may be left over. -/
def checkExactlyOnce (p : Params) (srcs : List Src) (segs : List SegPes) (complete : Bool)
    : Except String Unit := do
  let restV ← matchVideo p (videoSrcs srcs) (segs.flatMap (·.video))
  let _ ← matchAudio p (audioSrcs srcs) (segs.flatMap (·.audio))
  if complete ∧ ¬ restV.isEmpty then throw "video-frame-lost"

def verdict : Except String Unit → String
  | .ok _ => "ok"
  | .error e => "fail:" ++ e

end IpcHub.HlsSpec
