/-
Specification side of C15: the bit-level *encoders* of the standards' descriptors
(H.264 / H.265 clause 7.2 and 9.1, ISO 14496-3 bslbf/uimsbf), written independently of
the Go reader: u(n), ue(v), se(v), rbsp_trailing_bits, byte packing, and the
emulation-prevention insertion of the NAL unit syntax (H.264 7.3.1 / 7.4.1).
Core Lean only.
-/
namespace IpcHub.BitSyntax

/-- u(n): the `n` low bits of `v`, most significant first -/
def u : Nat → Nat → List Bool
  | 0, _ => []
  | n + 1, v => u n (v / 2) ++ [v % 2 == 1]

/-- a flag, u(1) -/
def flag (b : Bool) : List Bool := [b]

/-- ue(v), clause 9.1: codeNum = 2^z − 1 + suffix, `z` leading zero bits, a one bit, `z` suffix bits -/
def ue (k : Nat) : List Bool :=
  let z := Nat.log2 (k + 1)
  List.replicate z false ++ [true] ++ u z (k + 1 - 2 ^ z)

/-- se(v), Table 9-3: codeNum k ↦ (−1)^(k+1)·⌈k/2⌉, i.e. z > 0 ↦ 2z − 1, z ≤ 0 ↦ −2z -/
def seCodeNum (z : Int) : Nat := if z > 0 then (2 * z - 1).toNat else (-2 * z).toNat

def se (z : Int) : List Bool := ue (seCodeNum z)

/-- rbsp_trailing_bits(): a one bit, then zero bits up to the byte boundary -/
def trailing (len : Nat) : List Bool :=
  true :: List.replicate ((8 - (len + 1) % 8) % 8) false

/-- value of (up to) 8 bits, MSB first, missing bits are zero -/
def byteOf (bs : List Bool) : UInt8 :=
  UInt8.ofNat ((List.range 8).foldl (fun acc i => 2 * acc + (bs.getD i false).toNat) 0)

/-- pack bits into bytes, MSB first (a partial last byte is zero padded) -/
def pack : List Bool → List UInt8
  | b0 :: b1 :: b2 :: b3 :: b4 :: b5 :: b6 :: b7 :: rest =>
    byteOf [b0, b1, b2, b3, b4, b5, b6, b7] :: pack rest
  | [] => []
  | bs => [byteOf bs]

/-- emulation prevention (H.264 7.4.1 / H.265 7.4.2): inside the NAL unit payload a byte ≤ 3
    that follows two zero bytes is preceded by an emulation_prevention_three_byte; `z` counts
    the zero bytes just written.  An RBSP ending in 0x0000 (cabac_zero_words) gets a final 0x03. -/
def insertEpbZ : Nat → List UInt8 → List UInt8
  | z, [] => if z ≥ 2 then [3] else []
  | z, b :: rest =>
    if z ≥ 2 ∧ b ≤ 3 then 3 :: b :: insertEpbZ (if b = 0 then 1 else 0) rest
    else b :: insertEpbZ (if b = 0 then z + 1 else 0) rest

def insertEpb (rbsp : List UInt8) : List UInt8 := insertEpbZ 0 rbsp

end IpcHub.BitSyntax
