/-
Specification side of C15 for H.264: the sequence parameter set syntax of
ITU-T H.264 (04/2017) 7.3.2.1.1 (seq_parameter_set_data), 7.3.2.1.1.1 (scaling_list),
E.1.1 (vui_parameters), E.1.2 (hrd_parameters) as a bit-exact *encoder* of a syntax tree,
and the picture dimensions / frame rate the standard derives from it
(7.4.2.1.1 equations 7-13 … 7-21, Table 6-1, E.2.1).
Written from the standard, independently of the Go parser.  Core Lean only.
-/
import IpcHub.Spec.BitSyntax
namespace IpcHub.H264Syntax
open IpcHub.BitSyntax

/-- hrd_parameters(), E.1.2 -/
structure HrdSyntax where
  bit_rate_scale : Nat := 0
  cpb_size_scale : Nat := 0
  /-- (bit_rate_value_minus1, cpb_size_value_minus1, cbr_flag) for SchedSelIdx = 0 … cpb_cnt_minus1 -/
  cpb : List (Nat × Nat × Bool) := []
  initial_cpb_removal_delay_length_minus1 : Nat := 0
  cpb_removal_delay_length_minus1 : Nat := 0
  dpb_output_delay_length_minus1 : Nat := 0
  time_offset_length : Nat := 0
deriving Repr, DecidableEq

/-- vui_parameters(), E.1.1 (all syntax elements; the ones not present are ignored) -/
structure VuiSyntax where
  aspect_ratio_info_present_flag : Bool := false
  aspect_ratio_idc : Nat := 0
  sar_width : Nat := 0
  sar_height : Nat := 0
  overscan_info_present_flag : Bool := false
  overscan_appropriate_flag : Bool := false
  video_signal_type_present_flag : Bool := false
  video_format : Nat := 0
  video_full_range_flag : Bool := false
  colour_description_present_flag : Bool := false
  colour_primaries : Nat := 0
  transfer_characteristics : Nat := 0
  matrix_coefficients : Nat := 0
  chroma_loc_info_present_flag : Bool := false
  chroma_sample_loc_type_top_field : Nat := 0
  chroma_sample_loc_type_bottom_field : Nat := 0
  timing_info_present_flag : Bool := false
  num_units_in_tick : Nat := 0
  time_scale : Nat := 0
  fixed_frame_rate_flag : Bool := false
  nal_hrd_parameters_present_flag : Bool := false
  nal_hrd : HrdSyntax := {}
  vcl_hrd_parameters_present_flag : Bool := false
  vcl_hrd : HrdSyntax := {}
  low_delay_hrd_flag : Bool := false
  pic_struct_present_flag : Bool := false
  bitstream_restriction_flag : Bool := false
  motion_vectors_over_pic_boundaries_flag : Bool := false
  max_bytes_per_pic_denom : Nat := 0
  max_bits_per_mb_denom : Nat := 0
  log2_max_mv_length_horizontal : Nat := 0
  log2_max_mv_length_vertical : Nat := 0
  max_num_reorder_frames : Nat := 0
  max_dec_frame_buffering : Nat := 0
deriving Repr, DecidableEq

/-- seq_parameter_set_rbsp() preceded by the NAL unit header byte -/
structure SpsSyntax where
  nal_ref_idc : Nat := 3
  profile_idc : Nat := 66
  constraint_set0_flag : Bool := false
  constraint_set1_flag : Bool := false
  constraint_set2_flag : Bool := false
  constraint_set3_flag : Bool := false
  constraint_set4_flag : Bool := false
  constraint_set5_flag : Bool := false
  level_idc : Nat := 30
  seq_parameter_set_id : Nat := 0
  chroma_format_idc : Nat := 1
  separate_colour_plane_flag : Bool := false
  bit_depth_luma_minus8 : Nat := 0
  bit_depth_chroma_minus8 : Nat := 0
  qpprime_y_zero_transform_bypass_flag : Bool := false
  seq_scaling_matrix_present_flag : Bool := false
  /-- one entry per seq_scaling_list_present_flag[i] (8, or 12 for chroma_format_idc = 3):
      `none` = flag 0, `some ds` = flag 1 followed by scaling_list() with the delta_scale values `ds` -/
  scaling_lists : List (Option (List Int)) := []
  log2_max_frame_num_minus4 : Nat := 0
  pic_order_cnt_type : Nat := 2
  log2_max_pic_order_cnt_lsb_minus4 : Nat := 0
  delta_pic_order_always_zero_flag : Bool := false
  offset_for_non_ref_pic : Int := 0
  offset_for_top_to_bottom_field : Int := 0
  /-- offset_for_ref_frame[0 … num_ref_frames_in_pic_order_cnt_cycle − 1] -/
  offset_for_ref_frame : List Int := []
  max_num_ref_frames : Nat := 1
  gaps_in_frame_num_value_allowed_flag : Bool := false
  pic_width_in_mbs_minus1 : Nat := 0
  pic_height_in_map_units_minus1 : Nat := 0
  frame_mbs_only_flag : Bool := true
  mb_adaptive_frame_field_flag : Bool := false
  direct_8x8_inference_flag : Bool := false
  frame_cropping_flag : Bool := false
  frame_crop_left_offset : Nat := 0
  frame_crop_right_offset : Nat := 0
  frame_crop_top_offset : Nat := 0
  frame_crop_bottom_offset : Nat := 0
  vui_parameters_present_flag : Bool := false
  vui : VuiSyntax := {}
deriving Repr, DecidableEq

/-- profile_idc values whose seq_parameter_set_data() carries chroma_format_idc … scaling lists (7.3.2.1.1) -/
def highProfileIdcs : List Nat := [100, 110, 122, 244, 44, 83, 86, 118, 128, 138, 139, 134, 135]

def hasChromaInfo (s : SpsSyntax) : Bool := highProfileIdcs.contains s.profile_idc

/-- chroma_format_idc as present or inferred (7.4.2.1.1: inferred 1 when not present) -/
def chromaFormat (s : SpsSyntax) : Nat := if hasChromaInfo s then s.chroma_format_idc else 1

def separatePlanes (s : SpsSyntax) : Bool :=
  hasChromaInfo s && s.chroma_format_idc == 3 && s.separate_colour_plane_flag

/-! ### encoders -/

def encCpb : List (Nat × Nat × Bool) → List Bool
  | [] => []
  | (br, cs, cbr) :: rest => ue br ++ ue cs ++ flag cbr ++ encCpb rest

/-- hrd_parameters(): cpb_cnt_minus1 ue(v) is `cpb.length − 1` -/
def encHrd (h : HrdSyntax) : List Bool :=
  ue (h.cpb.length - 1) ++ u 4 h.bit_rate_scale ++ u 4 h.cpb_size_scale ++ encCpb h.cpb ++
  u 5 h.initial_cpb_removal_delay_length_minus1 ++ u 5 h.cpb_removal_delay_length_minus1 ++
  u 5 h.dpb_output_delay_length_minus1 ++ u 5 h.time_offset_length

def encAspect (v : VuiSyntax) : List Bool :=
  flag v.aspect_ratio_info_present_flag ++
  (if v.aspect_ratio_info_present_flag then
    u 8 v.aspect_ratio_idc ++ (if v.aspect_ratio_idc = 255 then u 16 v.sar_width ++ u 16 v.sar_height else [])
   else [])

def encOverscan (v : VuiSyntax) : List Bool :=
  flag v.overscan_info_present_flag ++
  (if v.overscan_info_present_flag then flag v.overscan_appropriate_flag else [])

def encSignal (v : VuiSyntax) : List Bool :=
  flag v.video_signal_type_present_flag ++
  (if v.video_signal_type_present_flag then
    u 3 v.video_format ++ flag v.video_full_range_flag ++ flag v.colour_description_present_flag ++
    (if v.colour_description_present_flag then
      u 8 v.colour_primaries ++ u 8 v.transfer_characteristics ++ u 8 v.matrix_coefficients else [])
   else [])

def encChromaLoc (v : VuiSyntax) : List Bool :=
  flag v.chroma_loc_info_present_flag ++
  (if v.chroma_loc_info_present_flag then
    ue v.chroma_sample_loc_type_top_field ++ ue v.chroma_sample_loc_type_bottom_field else [])

def encTiming (v : VuiSyntax) : List Bool :=
  flag v.timing_info_present_flag ++
  (if v.timing_info_present_flag then
    u 32 v.num_units_in_tick ++ u 32 v.time_scale ++ flag v.fixed_frame_rate_flag else [])

def encHrdOpt (present : Bool) (h : HrdSyntax) : List Bool :=
  flag present ++ (if present then encHrd h else [])

def encRestriction (v : VuiSyntax) : List Bool :=
  flag v.bitstream_restriction_flag ++
  (if v.bitstream_restriction_flag then
    flag v.motion_vectors_over_pic_boundaries_flag ++ ue v.max_bytes_per_pic_denom ++
    ue v.max_bits_per_mb_denom ++ ue v.log2_max_mv_length_horizontal ++ ue v.log2_max_mv_length_vertical ++
    ue v.max_num_reorder_frames ++ ue v.max_dec_frame_buffering
   else [])

/-- vui_parameters(), E.1.1 -/
def encVui (v : VuiSyntax) : List Bool :=
  encAspect v ++ encOverscan v ++ encSignal v ++ encChromaLoc v ++ encTiming v ++
  encHrdOpt v.nal_hrd_parameters_present_flag v.nal_hrd ++
  encHrdOpt v.vcl_hrd_parameters_present_flag v.vcl_hrd ++
  (if v.nal_hrd_parameters_present_flag || v.vcl_hrd_parameters_present_flag then flag v.low_delay_hrd_flag else []) ++
  flag v.pic_struct_present_flag ++ encRestriction v

def encDeltas : List Int → List Bool
  | [] => []
  | d :: ds => se d ++ encDeltas ds

def encScalingLists : List (Option (List Int)) → List Bool
  | [] => []
  | none :: rest => flag false ++ encScalingLists rest
  | some ds :: rest => flag true ++ encDeltas ds ++ encScalingLists rest

/-- nal_unit() header byte (7.3.1): forbidden_zero_bit = 0, nal_ref_idc u(2), nal_unit_type u(5) = 7 -/
def nalHeaderByte (s : SpsSyntax) : UInt8 := UInt8.ofNat (s.nal_ref_idc * 32 + 7)

/-- profile_idc … seq_parameter_set_id -/
def encProfile (s : SpsSyntax) : List Bool :=
  u 8 s.profile_idc ++ flag s.constraint_set0_flag ++ flag s.constraint_set1_flag ++
  flag s.constraint_set2_flag ++ flag s.constraint_set3_flag ++ flag s.constraint_set4_flag ++
  flag s.constraint_set5_flag ++ u 2 0 ++ u 8 s.level_idc ++ ue s.seq_parameter_set_id

def encChromaInfo (s : SpsSyntax) : List Bool :=
  if hasChromaInfo s then
    ue s.chroma_format_idc ++ (if s.chroma_format_idc = 3 then flag s.separate_colour_plane_flag else []) ++
    ue s.bit_depth_luma_minus8 ++ ue s.bit_depth_chroma_minus8 ++ flag s.qpprime_y_zero_transform_bypass_flag ++
    flag s.seq_scaling_matrix_present_flag ++
    (if s.seq_scaling_matrix_present_flag then encScalingLists s.scaling_lists else [])
  else []

def encPoc (s : SpsSyntax) : List Bool :=
  ue s.log2_max_frame_num_minus4 ++ ue s.pic_order_cnt_type ++
  (if s.pic_order_cnt_type = 0 then ue s.log2_max_pic_order_cnt_lsb_minus4
   else if s.pic_order_cnt_type = 1 then
    flag s.delta_pic_order_always_zero_flag ++ se s.offset_for_non_ref_pic ++ se s.offset_for_top_to_bottom_field ++
    ue s.offset_for_ref_frame.length ++ encDeltas s.offset_for_ref_frame
   else [])

def encFrame (s : SpsSyntax) : List Bool :=
  ue s.max_num_ref_frames ++ flag s.gaps_in_frame_num_value_allowed_flag ++
  ue s.pic_width_in_mbs_minus1 ++ ue s.pic_height_in_map_units_minus1 ++ flag s.frame_mbs_only_flag ++
  (if s.frame_mbs_only_flag then [] else flag s.mb_adaptive_frame_field_flag) ++
  flag s.direct_8x8_inference_flag ++ flag s.frame_cropping_flag ++
  (if s.frame_cropping_flag then
    ue s.frame_crop_left_offset ++ ue s.frame_crop_right_offset ++ ue s.frame_crop_top_offset ++ ue s.frame_crop_bottom_offset
   else [])

/-- seq_parameter_set_data(), 7.3.2.1.1 -/
def encSpsData (s : SpsSyntax) : List Bool :=
  encProfile s ++ encChromaInfo s ++ encPoc s ++ encFrame s ++
  flag s.vui_parameters_present_flag ++ (if s.vui_parameters_present_flag then encVui s.vui else [])

/-- seq_parameter_set_rbsp(): data + rbsp_trailing_bits() -/
def encSpsRbsp (s : SpsSyntax) : List Bool :=
  encSpsData s ++ trailing (encSpsData s).length

/-- the NAL unit (7.3.1): header byte, then the RBSP bytes with emulation prevention -/
def encSpsNal (s : SpsSyntax) : List UInt8 :=
  nalHeaderByte s :: insertEpb (pack (encSpsRbsp s))

/-! ### what the standard derives -/

/-- ChromaArrayType (7.4.2.1.1): 0 when separate_colour_plane_flag = 1, else chroma_format_idc -/
def chromaArrayType (s : SpsSyntax) : Nat := if separatePlanes s then 0 else chromaFormat s

/-- SubWidthC / SubHeightC, Table 6-1 (for ChromaArrayType 1, 2, 3) -/
def subWidthC (cat : Nat) : Nat := if cat = 1 ∨ cat = 2 then 2 else 1
def subHeightC (cat : Nat) : Nat := if cat = 1 then 2 else 1

/-- CropUnitX, CropUnitY: equations 7-19 … 7-22 -/
def cropUnitX (s : SpsSyntax) : Nat := if chromaArrayType s = 0 then 1 else subWidthC (chromaArrayType s)
def cropUnitY (s : SpsSyntax) : Nat :=
  (if chromaArrayType s = 0 then 1 else subHeightC (chromaArrayType s)) * (2 - s.frame_mbs_only_flag.toNat)

def cropL (s : SpsSyntax) : Nat := if s.frame_cropping_flag then s.frame_crop_left_offset else 0
def cropR (s : SpsSyntax) : Nat := if s.frame_cropping_flag then s.frame_crop_right_offset else 0
def cropT (s : SpsSyntax) : Nat := if s.frame_cropping_flag then s.frame_crop_top_offset else 0
def cropB (s : SpsSyntax) : Nat := if s.frame_cropping_flag then s.frame_crop_bottom_offset else 0

/-- width of the cropped frame in luma samples: PicWidthInSamplesL − CropUnitX·(left + right) -/
def croppedWidth (s : SpsSyntax) : Int :=
  Int.ofNat ((s.pic_width_in_mbs_minus1 + 1) * 16) - Int.ofNat (cropUnitX s * (cropL s + cropR s))

/-- height of the cropped frame: 16·FrameHeightInMbs − CropUnitY·(top + bottom),
    FrameHeightInMbs = (2 − frame_mbs_only_flag)·PicHeightInMapUnits -/
def croppedHeight (s : SpsSyntax) : Int :=
  Int.ofNat ((2 - s.frame_mbs_only_flag.toNat) * (s.pic_height_in_map_units_minus1 + 1) * 16)
    - Int.ofNat (cropUnitY s * (cropT s + cropB s))

/-- frame rate time_scale / (2·num_units_in_tick) (E.2.1: a frame lasts two ticks), as a fraction;
    `none` when the SPS carries no timing information -/
def frameRate (s : SpsSyntax) : Option (Nat × Nat) :=
  if s.vui_parameters_present_flag ∧ s.vui.timing_info_present_flag ∧ s.vui.num_units_in_tick ≠ 0
  then some (s.vui.time_scale, 2 * s.vui.num_units_in_tick) else none

/-- fixed_frame_rate_flag, inferred 0 when not present (E.2.1) -/
def fixedFrameRate (s : SpsSyntax) : Bool :=
  s.vui_parameters_present_flag && s.vui.timing_info_present_flag && s.vui.fixed_frame_rate_flag

/-! ### well-formedness: the value ranges of the standard that the bit syntax relies on -/

/-- a scaling_list() of `n` coefficients starting from lastScale: delta_scale values are present
    while nextScale ≠ 0 (7.3.2.1.1.1), each in −128 … 127 -/
def wfDeltas : Nat → Int → List Int → Bool
  | 0, _, ds => ds.isEmpty
  | _ + 1, _, [] => false
  | n + 1, last, d :: ds =>
    decide (-128 ≤ d) && decide (d ≤ 127) &&
      (if (last + d + 256) % 256 = 0 then ds.isEmpty else wfDeltas n ((last + d + 256) % 256) ds)

def wfScalingLists : Nat → List (Option (List Int)) → Bool
  | _, [] => true
  | i, none :: rest => wfScalingLists (i + 1) rest
  | i, some ds :: rest => wfDeltas (if i < 6 then 16 else 64) 8 ds && wfScalingLists (i + 1) rest

def wfCpb : List (Nat × Nat × Bool) → Bool
  | [] => true
  | (br, cs, _) :: rest => decide (br + 1 < 2 ^ 32) && decide (cs + 1 < 2 ^ 32) && wfCpb rest

def wfOffsets : List Int → Bool
  | [] => true
  | z :: rest => decide (-(2 ^ 31) < z) && decide (z < 2 ^ 31) && wfOffsets rest

structure HrdWF (h : HrdSyntax) : Prop where
  cnt : 1 ≤ h.cpb.length ∧ h.cpb.length ≤ 32                -- cpb_cnt_minus1 in 0 … 31
  brs : h.bit_rate_scale < 16
  css : h.cpb_size_scale < 16
  cpb : wfCpb h.cpb = true                                    -- values in 0 … 2^32 − 2
  l1 : h.initial_cpb_removal_delay_length_minus1 < 32
  l2 : h.cpb_removal_delay_length_minus1 < 32
  l3 : h.dpb_output_delay_length_minus1 < 32
  l4 : h.time_offset_length < 32

structure VuiWF (v : VuiSyntax) : Prop where
  ar : v.aspect_ratio_idc < 256
  sw : v.sar_width < 65536
  sh : v.sar_height < 65536
  vf : v.video_format < 8
  cp : v.colour_primaries < 256
  tc : v.transfer_characteristics < 256
  mc : v.matrix_coefficients < 256
  clt : v.chroma_sample_loc_type_top_field < 256             -- standard: 0 … 5
  clb : v.chroma_sample_loc_type_bottom_field < 256
  nut : v.num_units_in_tick < 2 ^ 32
  ts : v.time_scale < 2 ^ 32
  nal : v.nal_hrd_parameters_present_flag = true → HrdWF v.nal_hrd
  vcl : v.vcl_hrd_parameters_present_flag = true → HrdWF v.vcl_hrd
  r1 : v.max_bytes_per_pic_denom < 256                       -- standard: 0 … 16
  r2 : v.max_bits_per_mb_denom < 256                         -- 0 … 16
  r3 : v.log2_max_mv_length_horizontal < 256                 -- 0 … 16
  r4 : v.log2_max_mv_length_vertical < 256
  r5 : v.max_num_reorder_frames < 256                        -- 0 … MaxDpbFrames
  r6 : v.max_dec_frame_buffering < 256

/-- Value ranges under which the theorems hold.  Every bound is implied by the range the standard
    gives for the element (the standard's own, tighter, range is in the comment). -/
structure SpsWF (s : SpsSyntax) : Prop where
  ref : s.nal_ref_idc < 4
  profile : s.profile_idc < 256
  level : s.level_idc < 256
  id : s.seq_parameter_set_id < 256                          -- 0 … 31
  cf : s.chroma_format_idc < 256                             -- 0 … 3
  bdl : s.bit_depth_luma_minus8 < 256                        -- 0 … 6
  bdc : s.bit_depth_chroma_minus8 < 256                      -- 0 … 6
  sl : s.seq_scaling_matrix_present_flag = true →
        s.scaling_lists.length = (if s.chroma_format_idc = 3 then 12 else 8) ∧ wfScalingLists 0 s.scaling_lists = true
  fn : s.log2_max_frame_num_minus4 < 256                     -- 0 … 12
  pt : s.pic_order_cnt_type < 256                            -- 0 … 2
  lsb : s.log2_max_pic_order_cnt_lsb_minus4 < 256            -- 0 … 12
  o1 : -(2 ^ 31) < s.offset_for_non_ref_pic ∧ s.offset_for_non_ref_pic < 2 ^ 31
  o2 : -(2 ^ 31) < s.offset_for_top_to_bottom_field ∧ s.offset_for_top_to_bottom_field < 2 ^ 31
  cyc : s.offset_for_ref_frame.length < 256                  -- num_ref_frames_in_pic_order_cnt_cycle 0 … 255
  offs : wfOffsets s.offset_for_ref_frame = true
  refs : s.max_num_ref_frames < 256                          -- 0 … MaxDpbFrames
  w : s.pic_width_in_mbs_minus1 < 65536                      -- level limits: PicWidthInMbs ≤ 1055
  h : s.pic_height_in_map_units_minus1 < 65536
  cl : s.frame_crop_left_offset < 65536
  cr : s.frame_crop_right_offset < 65536
  ct : s.frame_crop_top_offset < 65536
  cb : s.frame_crop_bottom_offset < 65536
  vui : s.vui_parameters_present_flag = true → VuiWF s.vui

end IpcHub.H264Syntax
