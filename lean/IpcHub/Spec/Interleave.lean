/-
C13 specification: what the byte stream of an interleaved RTSP connection must look like —
a sequence of complete interleaved frames (`$`, channel, 16-bit length, payload: RFC 2326
§10.12) and complete RTSP responses (status line, header lines, empty line, a body of
Content-Length bytes) — and what a WebSocket message must be: exactly one of them.
Independent of the session code; evaluated by the check on the bytes a real session sends.
Core Lean only.
-/
namespace IpcHub.InterleaveSpec

abbrev Bytes := List UInt8

inductive Unit
  | frame (ch : UInt8) (payload : Bytes)
  | response (raw : Bytes)
  deriving DecidableEq, Repr, Inhabited

/-- RFC 2326 §10.12 encoding of one interleaved frame (payload shorter than 2^16) -/
def encodeFrame (ch : UInt8) (payload : Bytes) : Bytes :=
  [0x24, ch, UInt8.ofNat (payload.length / 256), UInt8.ofNat (payload.length % 256)] ++ payload

def Unit.bytes : Unit → Bytes
  | .frame ch p => encodeFrame ch p
  | .response raw => raw

/-- position just after the first CR LF CR LF, if any -/
def headEnd : Bytes → Nat → Option Nat
  | [], _ => none
  | b :: r, i => if (b :: r).take 4 == [13, 10, 13, 10] then some (i + 4) else headEnd r (i + 1)

def isDigit (b : UInt8) : Bool := 48 ≤ b && b ≤ 57

def natOfDigits : Bytes → Nat → Nat
  | [], acc => acc
  | b :: r, acc => natOfDigits r (acc * 10 + (b.toNat - 48))

def lower (b : UInt8) : UInt8 := if 65 ≤ b && b ≤ 90 then b + 32 else b

def startsWithCI : Bytes → Bytes → Bool
  | _, [] => true
  | [], _ :: _ => false
  | a :: as, p :: ps => lower a == p && startsWithCI as ps

/-- split a header block into lines at CR LF -/
def splitLines : Bytes → Bytes → List Bytes
  | [], cur => [cur.reverse]
  | 13 :: 10 :: r, cur => cur.reverse :: splitLines r []
  | b :: r, cur => splitLines r (b :: cur)

/-- value of the `Content-Length` field of a header block (0 when absent or malformed) -/
def contentLength (head : Bytes) : Nat :=
  let key : Bytes := [99, 111, 110, 116, 101, 110, 116, 45, 108, 101, 110, 103, 116, 104, 58]   -- "content-length:"
  match (splitLines head []).find? (fun l => startsWithCI l key) with
  | none => 0
  | some l =>
    let v := ((l.drop key.length).dropWhile (· == 32)).takeWhile isDigit
    natOfDigits v 0

/-- "RTSP/1.0 " -/
def rtspPrefix : Bytes := [82, 84, 83, 80, 47, 49, 46, 48, 32]

/-- the next unit of a stream: `none` if the stream does not start with a complete one -/
def nextUnit (s : Bytes) : Option (Unit × Bytes) :=
  match s with
  | 0x24 :: ch :: hi :: lo :: rest =>
    let n := hi.toNat * 256 + lo.toNat
    if rest.length < n then none else some (.frame ch (rest.take n), rest.drop n)
  | _ =>
    if !(rtspPrefix.isPrefixOf s) then none
    else match headEnd s 0 with
      | none => none
      | some h =>
        let total := h + contentLength (s.take h)
        if s.length < total then none else some (.response (s.take total), s.drop total)

/-- a complete RTSP response: starts with the protocol token, has a header block ended by an empty
    line, and is exactly as long as header block + Content-Length -/
def wfResponse (raw : Bytes) : Bool :=
  rtspPrefix.isPrefixOf raw &&
    match headEnd raw 0 with
    | some h => h + contentLength (raw.take h) == raw.length
    | none => false

/-- a complete unit: a frame whose payload fits the 16-bit length field, or a complete response -/
def Unit.wf : Unit → Bool
  | .frame _ p => decide (p.length < 65536)
  | .response raw => wfResponse raw

/-- parse a whole stream into units; `none` if some position is not the start of a complete unit -/
def parseStream : Nat → Bytes → Option (List Unit)
  | _, [] => some []
  | 0, _ => none
  | fuel + 1, s =>
    match nextUnit s with
    | none => none
    | some (u, rest) =>
      match parseStream fuel rest with
      | none => none
      | some us => some (u :: us)

/-- units of a stream (`fuel` = its length suffices: every unit is non-empty) -/
def parse (s : Bytes) : Option (List Unit) := parseStream (s.length + 1) s

/-- a WebSocket message must be exactly one complete unit -/
def messageOk (m : Bytes) : Bool :=
  match nextUnit m with
  | some (_, []) => true
  | _ => false

/-- the `CSeq` of a response (digits only; 0 if absent) -/
def cseqOf (raw : Bytes) : Nat :=
  let key : Bytes := [99, 115, 101, 113, 58]   -- "cseq:"
  match (splitLines raw []).find? (fun l => startsWithCI l key) with
  | none => 0
  | some l => natOfDigits (((l.drop key.length).dropWhile (· == 32)).takeWhile isDigit) 0

/-- `a` is a subsequence of `b` (order kept, gaps allowed) -/
def isSubseq : List (UInt8 × Bytes) → List (UInt8 × Bytes) → Bool
  | [], _ => true
  | _ :: _, [] => false
  | x :: xs, y :: ys => if x == y then isSubseq xs ys else isSubseq (x :: xs) ys

def framesOf (us : List Unit) : List (UInt8 × Bytes) :=
  us.filterMap (fun u => match u with
    | .frame c p => some (c, p)
    | .response _ => none)

def cseqsOf (us : List Unit) : List Nat :=
  us.filterMap (fun u => match u with
    | .frame _ _ => none
    | .response r => some (cseqOf r))

/-- The PROPERTY verdict on an observed TCP stream: it must parse into complete units, and every
    complete frame on the wire must be one of the packets handed to the media goroutine, in the
    order they were handed over.  (A lost frame or a lost response is not tearing: `exactStream`.) -/
def judgeStream (s : Bytes) (frames : List (UInt8 × Bytes)) : String :=
  match parse s with
  | none => "torn-stream"
  | some us => if isSubseq (framesOf us) frames then "ok" else "torn-frame"

/-- The correspondence verdict (model: the LTS delivers everything): the frames are EXACTLY the
    packets delivered, the responses answer exactly the requests (CSeq), both in order. -/
def exactStream (s : Bytes) (frames : List (UInt8 × Bytes)) (cseqs : List Nat) : String :=
  match parse s with
  | none => "unparsed"
  | some us =>
    if framesOf us != frames then "frames-lost"
    else if cseqsOf us != cseqs then "responses-differ"
    else "ok"

/-- the complete units at the head of a stream, and what is left (a unit still in flight, or garbage) -/
def parsePrefix : Nat → Bytes → List Unit × Bytes
  | 0, s => ([], s)
  | fuel + 1, s =>
    match nextUnit s with
    | none => ([], s)
    | some (u, rest) => let (us, r) := parsePrefix fuel rest; (u :: us, r)

/-- could these bytes be the beginning of a unit that is still being received? -/
def inFlight (rest : Bytes) : Bool :=
  match rest with
  | [] => true
  | b :: _ => b == 0x24 || rest.isPrefixOf rtspPrefix || rtspPrefix.isPrefixOf rest

/-- Verdict on the stream of a run that did not complete (a request was never answered, or the
    run was cut when the first wrong unit arrived, so not every unit can be expected): the complete
    units that did arrive must still be delivered packets, in order, and what follows them must be
    the beginning of a frame or of a response — a frame whose payload is not a packet handed to
    the media goroutine is a torn frame, bytes that start neither are a torn stream, whatever else
    went wrong. -/
def judgePartial (s : Bytes) (frames : List (UInt8 × Bytes)) : String :=
  let (us, rest) := parsePrefix (s.length + 1) s
  if !isSubseq (framesOf us) frames then "torn-frame"
  else if !inFlight rest then "torn-stream"
  else "incomplete"

end IpcHub.InterleaveSpec
