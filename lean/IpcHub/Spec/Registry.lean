/-
C05 — the independent specification of the stream registry, written in the vocabulary of
the property statement: which stream *owns* a path (the most recently registered one that
has not been unregistered), which streams are *closed*, which consumers are *attached*.
A path resolves to its owner if that owner is not closed; the counts and listings are
those of the set of live streams (enumerated over the stream identities, not over any
registry data structure); the idle task may close a stream only when nothing is attached
and there was no recent HLS access.  Executable (the driver evaluates it as the oracle).
Core Lean only.
-/
import IpcHub.Model.Registry
namespace IpcHub.RegistrySpec
open IpcHub.CanonPath IpcHub.Registry

structure Abs where
  /-- number of streams created so far; identities are 0 … n-1 -/
  n : Nat
  path : Nat → Path
  /-- the stream that currently owns the path -/
  owner : Path → Option Nat
  closed : Nat → Bool
  /-- attached consumers per stream: (isFlv, cid) -/
  attached : Nat → List (Bool × Nat)
  nextCid : Nat → Nat
  /-- last HLS access, for streams that have a playlist -/
  hls : Nat → Option Nat
  /-- retirements still pending: (stream, asReplaced, finished) in posting order -/
  tasks : List (Nat × Bool × Bool)
  now : Nat

def Abs.empty : Abs :=
  { n := 0, path := fun _ => [], owner := fun _ => none, closed := fun _ => true,
    attached := fun _ => [], nextCid := fun _ => 0, hls := fun _ => none, tasks := [], now := 0 }

def upd {α : Type} (f : Nat → α) (i : Nat) (v : α) : Nat → α := fun j => if j = i then v else f j

/-- closing a stream detaches everything attached to it -/
def Abs.close (a : Abs) (i : Nat) : Abs :=
  if a.closed i then a else { a with closed := upd a.closed i true, attached := upd a.attached i [] }

/-- a path resolves to its owner unless that owner is closed -/
def Abs.resolve (a : Abs) (cp : Path) : Option Nat :=
  match a.owner cp with
  | some i => if a.closed i then none else some i
  | none => none

def Abs.live (a : Abs) (i : Nat) : Bool := a.owner (a.path i) = some i && !a.closed i

def Abs.liveIds (a : Abs) : List Nat := (List.range a.n).filter a.live

/-- may the idle task close stream i now (period d)? -/
def Abs.idle (a : Abs) (i : Nat) (d : Nat) : Bool :=
  (a.attached i).isEmpty && (match a.hls i with | none => true | some t => decide (a.now - t ≥ d))

def specStep (cfg : Cfg) (a : Abs) : Op → Abs × Obs
  | .new p h =>
    ({ a with n := a.n + 1, path := upd a.path a.n (canonicalPath cfg p), closed := upd a.closed a.n false,
              attached := upd a.attached a.n [], nextCid := upd a.nextCid a.n 0,
              hls := upd a.hls a.n (if h then some a.now else none) }, .sid (some a.n))
  | .regist i =>
    if i < a.n then
      match a.owner (a.path i) with
      | some o =>
        if o = i then (a, .unit)
        else
          let a1 := { a with owner := fun q => if q = a.path i then some i else a.owner q }
          -- the previous owner is retired: at once if nothing is attached, else by a pending task
          if (a.attached o).isEmpty then (a1.close o, .unit)
          else ({ a1 with tasks := a1.tasks ++ [(o, true, false)] }, .unit)
      | none => ({ a with owner := fun q => if q = a.path i then some i else a.owner q }, .unit)
    else (a, .unit)
  | .unregist i =>
    if i < a.n then
      let a1 := if a.owner (a.path i) = some i
                then { a with owner := fun q => if q = a.path i then none else a.owner q } else a
      (a1.close i, .unit)
    else (a, .unit)
  | .close i => if i < a.n then (a.close i, .unit) else (a, .unit)
  | .stop p =>
    match a.resolve (canonicalPath cfg p) with
    | some i => (a.close i, .unit)
    | none => (a, .unit)
  | .join i flv =>
    if i < a.n && !a.closed i then
      let c := a.nextCid i + 1
      ({ a with nextCid := upd a.nextCid i c, attached := upd a.attached i ((flv, c) :: a.attached i) }, .cid (some c))
    else (a, .cid none)
  | .leave i flv cid =>
    if i < a.n then ({ a with attached := upd a.attached i ((a.attached i).erase (flv, cid)) }, .unit) else (a, .unit)
  | .tick t d =>
    match a.tasks[t]? with
    | none => (a, .tick .bad)
    | some (i, _, done) =>
      if i ≥ a.n then (a, .tick .bad)
      else if a.idle i d then
        ({ a with tasks := a.tasks.modify t (fun k => (k.1, k.2.1, true)) }.close i, .tick (.ran true))
      else (a, .tick (.ran done))
  | .touch i => ({ a with hls := upd a.hls i ((a.hls i).map (fun _ => a.now)) }, .unit)
  | .advance k => ({ a with now := a.now + k }, .unit)
  | .get p => (a, .sid (a.resolve (canonicalPath cfg p)))
  | .count =>
    (a, .cnt a.liveIds.length ((a.liveIds.map (fun i => ((a.attached i).length : Int))).foldl (· + ·) 0))
  | .infos token size =>
    let ps := ((a.liveIds.map a.path).filter (fun p => decide (token < p))).mergeSort strLe
    (a, .paths a.liveIds.length (ps.take size))
  | .info p =>
    -- the stream the path resolves to reports the (canonical) path it was created under and what is attached to it
    (a, .sinfo ((a.resolve (canonicalPath cfg p)).map (fun i => (a.path i, ((a.attached i).length : Int)))))
  | .postIdle i => ({ a with tasks := a.tasks ++ [(i, false, false)] }, .unit)
  | .probe i => (a, .probe (decide (i < a.n) && !a.closed i) (a.tasks.filter (fun k => k.1 = i && !k.2.2)).length)

def specObs (cfg : Cfg) (a : Abs) : List Op → List Obs
  | [] => []
  | op :: ops => (specStep cfg a op).2 :: specObs cfg (specStep cfg a op).1 ops

def specRun (cfg : Cfg) (a : Abs) : List Op → Abs
  | [] => a
  | op :: ops => specRun cfg (specStep cfg a op).1 ops

end IpcHub.RegistrySpec
