/-
C20 — the specification of "two simultaneous first requests for one path, both pulled, then the
pulls end", as a predicate over what was OBSERVED of BOTH streams at three stages (both registered;
one pull ended; the other pull ended), in the vocabulary of the property statement: consumers of a
stream whose pull ended are closed, its connection is closed, it is not registered; the registry
holds exactly the survivor or nothing; the surviving pull goes on serving; nothing is leaked.  It does
not look at the registry model, and it does not prescribe whether a replaced stream that still has a
consumer is closed at once or served on — only that it is one or the other.  Core Lean only.
-/
import IpcHub.Model.PullDual
namespace IpcHub.PullDualSpec
open IpcHub.PullDual

inductive V where
  | ok
  | connectionLeftOpen        -- the pull ended (or its stream was closed) but the client keeps the camera connection
  | consumerNotClosed         -- the pull ended but a consumer of its stream was not closed / is still counted
  | streamLeftLive            -- the pull ended but its stream still has status OK
  | streamLeftRegistered      -- the pull ended but its stream is still registered under the path
  | notOneStream              -- after both registered, the registry does not hold the last-registered stream
  | survivorNotRegistered     -- one pull ended and the other one's registration was lost
  | survivorDisturbed         -- one pull ended and the other stream stopped being served
  | neitherServedNorClosed    -- a replaced stream with a consumer is neither served on nor closed in an orderly way
  | leak                      -- connection count or goroutines left behind at the very end
  deriving DecidableEq, Repr

def V.name : V → String
  | .ok => "ok"
  | .connectionLeftOpen => "connection-left-open-after-play"
  | .consumerNotClosed => "consumer-not-closed"
  | .streamLeftLive => "stream-left-live-after-its-pull-ended"
  | .streamLeftRegistered => "stream-left-registered"
  | .notOneStream => "concurrent-first-requests-not-one-stream"
  | .survivorNotRegistered => "surviving-pull-lost-its-registration"
  | .survivorDisturbed => "surviving-pull-disturbed"
  | .neitherServedNorClosed => "replaced-stream-neither-served-nor-closed"
  | .leak => "connection-or-goroutine-leak"

/-- a stream whose pull has ended: everything released -/
def endedV (attached : Bool) (registeredHere : Bool) (o : SObs) : V :=
  if o.up then .connectionLeftOpen
  else if (attached && !o.cl) || o.cc > 0 then .consumerNotClosed
  else if o.ok then .streamLeftLive
  else if registeredHere then .streamLeftRegistered
  else .ok

/-- a stream whose pull goes on -/
def aliveOk (attached : Bool) (o : SObs) : Bool :=
  o.ok && o.up && (!attached || (o.sv && !o.cl))

def first (a b : V) : V := if a = .ok then b else a

/-- one stage.  `lEnded` / `wEnded`: the harness has ended that pull (camera event, server-side close, or idle
    close) by this stage.  The replaced stream without a consumer must have ended by itself. -/
def stageV (lc wc lEnded wEnded : Bool) (s : Stage) : V :=
  let lMust := lEnded || !lc
  let vl := if lMust then endedV lc (s.reg = some 0) s.l
            else if aliveOk lc s.l then .ok
            else if endedV lc (s.reg = some 0) s.l = .ok then .ok   -- closed in an orderly way instead: acceptable
            else .neitherServedNorClosed
  let vw := if wEnded then endedV wc (s.reg = some 1) s.w
            else if !aliveOk wc s.w then .survivorDisturbed
            else if s.reg ≠ some 1 then (if lEnded then .survivorNotRegistered else .notOneStream)
            else .ok
  let vr := if wEnded && !(s.reg = none || (s.reg = some 0 && !lMust && s.l.ok)) then V.streamLeftRegistered else .ok
  first vl (first vw vr)

/-- the whole run -/
def verdict (sc : Scn) (s0 s1 s2 : Stage) (leak : Bool) : V :=
  let l1 := sc.loserFirst && sc.lc      -- (the replaced stream without a consumer ended by itself: nothing to end)
  let w1 := !sc.loserFirst
  first (stageV sc.lc sc.wc false false s0)
    (first (stageV sc.lc sc.wc l1 w1 s1)
      (first (stageV sc.lc sc.wc true true s2) (if leak then .leak else .ok)))

end IpcHub.PullDualSpec
