/-
The documented permission-pattern language (docs/config.md §3.2 and property C16),
written independently of the implementation's scanning loop.
-/
import IpcHub.Model.PathMatch
namespace IpcHub.PatternLang
open IpcHub.PathMatch

/-- segment-by-segment matching: literal, `+`, trailing `*` -/
def segMatch : List (List Char) → List (List Char) → Bool
  | [], xs => xs.isEmpty
  | p :: ps, xs =>
    if ps.isEmpty && p = ['*'] then true          -- a trailing `*`: zero or more remaining segments
    else match xs with
      | [] => false
      | x :: xs' => (p = ['+'] || p = x) && segMatch ps xs'

/-- segments of a path or pattern: surrounding '/' ignored, case folded -/
def segs (lower : Char → Char) (s : List Char) : List (List Char) :=
  splitOn '/' ((trim isSlash s).map lower)

def patMatch (lower : Char → Char) (pat path : List Char) : Bool :=
  if pat = ['*'] then true else segMatch (segs lower pat) (segs lower path)

/-- the patterns of a right string: ';'-separated, surrounding blanks ignored, empty ones dropped -/
def patterns (isSpace : Char → Bool) (right : List Char) : List (List Char) :=
  ((splitOn ';' right).map (trim isSpace)).filter (fun p => !p.isEmpty)

def specPermits (lower : Char → Char) (isSpace : Char → Bool)
    (right : List Char) (admin : Bool) (path : List Char) : Bool :=
  let r := if admin && right.isEmpty then ['*'] else right
  (patterns isSpace r).any (fun pat => patMatch lower pat (trim isSpace path))

end IpcHub.PatternLang
