/-
Specification side of C14: the RTSP/1.0 message syntax of RFC 2326 (§4, §6.1, §7.1, §10.12)
as an *encoder* over already normalised messages, and the normal form a message has after a
round trip.  Independent of the reader; core Lean only.

  Request  = Method SP Request-URI SP "RTSP/1.0" CRLF *(field-name ":" SP field-value CRLF) CRLF [body]
  Response = "RTSP/1.0" SP 3DIGIT SP Reason-Phrase CRLF *(field CRLF) CRLF [body]
  Frame    = "$" channel(1 byte) length(2 bytes, big endian) payload

A body is announced by `Content-Length` (decimal); no body ⇒ no such field.  Several values
of one field are equivalent to one value joined with ", " (RFC 2616 §4.2); fields are
emitted in increasing order of their names.
-/
namespace IpcHub.RtspSpec

local notation "Bytes" => List UInt8

def ascii (s : String) : Bytes := s.toUTF8.data.toList
def crlf : Bytes := [13, 10]
def sp : Bytes := [32]

def digit (k : Nat) : UInt8 := UInt8.ofNat (48 + k)

/-- decimal digits of a natural number, most significant first -/
def decimal (n : Nat) : Bytes :=
  if n < 10 then [digit n] else decimal (n / 10) ++ [digit (n % 10)]
termination_by n
decreasing_by omega

def encodeFields (fields : List (Bytes × Bytes)) : Bytes :=
  (fields.map (fun f => f.1 ++ [58, 32] ++ f.2 ++ crlf)).flatten ++ crlf

def encodeRequest (method uri : Bytes) (fields : List (Bytes × Bytes)) (body : Bytes) : Bytes :=
  method ++ sp ++ uri ++ sp ++ ascii "RTSP/1.0" ++ crlf ++ encodeFields fields ++ body

def encodeResponse (code : Nat) (reason : Bytes) (fields : List (Bytes × Bytes)) (body : Bytes) : Bytes :=
  ascii "RTSP/1.0" ++ sp ++ decimal code ++ sp ++ reason ++ crlf ++ encodeFields fields ++ body

def encodeFrame (channel : UInt8) (payload : Bytes) : Bytes :=
  [36, channel, UInt8.ofNat (payload.length / 256), UInt8.ofNat (payload.length % 256)] ++ payload

/-- lexicographic byte order on field names -/
def nameLt : Bytes → Bytes → Bool
  | [], [] => false
  | [], _ :: _ => true
  | _ :: _, [] => false
  | a :: as, b :: bs => if a < b then true else if b < a then false else nameLt as bs

def joinComma : List Bytes → Bytes
  | [] => []
  | [v] => v
  | v :: vs => v ++ [44, 32] ++ joinComma vs

def insertField (f : Bytes × Bytes) : List (Bytes × Bytes) → List (Bytes × Bytes)
  | [] => [f]
  | x :: xs => if nameLt f.1 x.1 then f :: x :: xs else x :: insertField f xs

/-- the normal form of a header map for a message with this body: `Content-Length` is
    exactly the body length (absent for an empty body), multi-valued fields are joined,
    names are in increasing order -/
def normalFields (h : List (Bytes × List Bytes)) (body : Bytes) : List (Bytes × Bytes) :=
  let others := (h.filter (fun kv => kv.1 ≠ ascii "Content-Length")).map (fun kv => (kv.1, joinComma kv.2))
  let all := if body.isEmpty then others else (ascii "Content-Length", decimal body.length) :: others
  all.foldr insertField []

/-! ### what a round trip must give back -/

/-- the header fields of RFC 2326 §12 (plus the HTTP/1.1 fields it imports), canonical spelling -/
def knownFields : List Bytes :=
  ["Accept", "Accept-Encoding", "Accept-Language", "Allow", "Authorization", "Bandwidth", "Blocksize",
   "Cache-Control", "Conference", "Connection", "Content-Base", "Content-Encoding", "Content-Language",
   "Content-Length", "Content-Location", "Content-Type", "CSeq", "Date", "Expires", "From",
   "If-Modified-Since", "Last-Modified", "Proxy-Authenticate", "Proxy-Require", "Public", "Range",
   "Referer", "Require", "Retry-After", "RTP-Info", "Scale", "Session", "Server", "Speed", "Transport",
   "Unsupported", "User-Agent", "Via", "WWW-Authenticate"].map ascii

def lowerByte (b : UInt8) : UInt8 := if 0x41 ≤ b ∧ b ≤ 0x5A then b + 0x20 else b

/-- field names are case-insensitive (RFC 2326 §4.2 via RFC 2616): a known field reads back in
    its canonical spelling, any other name unchanged -/
def canonName (k : Bytes) : Bytes :=
  match knownFields.find? (fun f => f.map lowerByte == k.map lowerByte) with
  | some f => f
  | none => k

/-- RFC 2616 `token` characters (printable ASCII without separators that matter here: ':' and blank) -/
def tokenChar (b : UInt8) : Bool := 0x21 ≤ b && b ≤ 0x7E && b != 0x3A

def fieldNameOK (k : Bytes) : Bool := !k.isEmpty && k.all tokenChar

/-- field values: TEXT of RFC 2326 §15.1 without controls — printable ASCII and any byte above
    0x7F (UTF-8, ISO 8859-1) — that begins and ends with a printable ASCII character other
    than blank (white space around a value is not part of it; values whose first or last
    character is not ASCII are outside this grammar) -/
def fieldValueOK (v : Bytes) : Bool :=
  v.all (fun b => (0x20 ≤ b && b ≤ 0x7E) || 0x80 ≤ b) &&
  (match v.head? with | some b => 0x21 ≤ b && b ≤ 0x7E | none => true) &&
  (match v.getLast? with | some b => 0x21 ≤ b && b ≤ 0x7E | none => true)

/-- Request-URI on the wire: non-empty, printable ASCII without blanks (what `URL.String()` emits) -/
def uriOK (u : Bytes) : Bool := !u.isEmpty && u.all (fun b => 0x21 ≤ b && b ≤ 0x7E)

/-- the methods of RFC 2326 §10 -/
def methods : List Bytes :=
  ["OPTIONS", "DESCRIBE", "ANNOUNCE", "SETUP", "PLAY", "PAUSE", "TEARDOWN", "GET_PARAMETER",
   "SET_PARAMETER", "RECORD", "REDIRECT"].map ascii

/-- bodies up to this size must survive a round trip (an implementation may refuse larger ones) -/
def guaranteedBody : Nat := 65536

def distinctNames : List Bytes → Bool
  | [] => true
  | k :: ks => !ks.contains k && distinctNames ks

/-- the fields of a message in normal form that the round-trip law speaks about -/
def fieldsValid (fields : List (Bytes × Bytes)) : Bool :=
  fields.all (fun f => fieldNameOK f.1 && fieldValueOK f.2) && distinctNames (fields.map (fun f => canonName f.1))

/-- `Content-Length` (in any spelling) is the codec's own field: a message without a body has
    none, a message with a body exactly the one of the normal form -/
def lengthFieldOK (fields : List (Bytes × Bytes)) (body : Bytes) : Bool :=
  fields.all (fun f => canonName f.1 != ascii "Content-Length" || (!body.isEmpty && f.1 == ascii "Content-Length"))

def requestValid (method : Bytes) (fields : List (Bytes × Bytes)) (body : Bytes) : Bool :=
  methods.contains method && fieldsValid fields && lengthFieldOK fields body && body.length ≤ guaranteedBody

def responseValid (code : Nat) (reason : Bytes) (fields : List (Bytes × Bytes)) (body : Bytes) : Bool :=
  100 ≤ code && code ≤ 999 && reason.all (fun b => b != 13 && b != 10) && fieldsValid fields
    && lengthFieldOK fields body && body.length ≤ guaranteedBody

/-- what the reader must deliver for the fields of a valid message -/
def decodedFields (fields : List (Bytes × Bytes)) : List (Bytes × List Bytes) :=
  fields.map (fun f => (canonName f.1, [f.2]))

end IpcHub.RtspSpec
