/-
The RTP data packet a sender emits (RFC 3550 §5.1, §5.3.1), written from the RFC: fixed header,
CSRC list, optional header extension (generic profile), payload, optional padding whose last
octet counts the padding octets including itself.  A packet may carry no payload at all
(padding-only / empty packets: pacing, probing, keep-alive).  Core Lean only.
-/
import IpcHub.Spec.Packetise
namespace IpcHub.RtpEncode
open IpcHub.Depack (Bytes)
open IpcHub.Packetise (hi8 lo8)

structure Send where
  marker : Bool
  /-- payload type (7 bits used) -/
  pt : UInt8
  seqHi : UInt8
  seqLo : UInt8
  ts : UInt8 × UInt8 × UInt8 × UInt8
  ssrc : UInt8 × UInt8 × UInt8 × UInt8
  /-- contributing sources, 4 octets each -/
  csrc : List (UInt8 × UInt8 × UInt8 × UInt8)
  /-- header extension: the two "defined by profile" octets and the extension words -/
  ext : Option (UInt8 × UInt8 × Bytes)
  payload : Bytes
  /-- 0: P bit clear; n ≥ 1: P bit set and n padding octets, the last one holding n -/
  pad : Nat

def quad (q : UInt8 × UInt8 × UInt8 × UInt8) : Bytes := [q.1, q.2.1, q.2.2.1, q.2.2.2]

def extBytes : Option (UInt8 × UInt8 × Bytes) → Bytes
  | none => []
  | some (p0, p1, data) => p0 :: p1 :: hi8 (data.length / 4) :: lo8 (data.length / 4) :: data

def padding (n : Nat) : Bytes := if n = 0 then [] else List.replicate (n - 1) 0 ++ [UInt8.ofNat n]

/-- first octet: V = 2, P, X, CC -/
def octet0 (p : Send) : UInt8 :=
  0x80 ||| (if p.pad = 0 then 0 else 0x20) ||| (if p.ext.isSome then 0x10 else 0) ||| UInt8.ofNat p.csrc.length

def octet1 (p : Send) : UInt8 := (if p.marker then 0x80 else 0) ||| (p.pt &&& 0x7f)

def header (p : Send) : Bytes :=
  octet0 p :: octet1 p :: p.seqHi :: p.seqLo :: (quad p.ts ++ quad p.ssrc ++ p.csrc.flatMap quad ++ extBytes p.ext)

def encode (p : Send) : Bytes := header p ++ p.payload ++ padding p.pad

/-- what RFC 3550 allows: ≤ 15 CSRCs, extension data in whole 32-bit words with a 16-bit word
    count, ≤ 255 padding octets.  The RFC 8285 profiles (0xBEDE, 0x100x) give the extension data an
    inner structure that the third-party header parser walks; they are left to the harness. -/
def legal (p : Send) : Bool :=
  p.csrc.length ≤ 15 && p.pad ≤ 255 &&
  (match p.ext with
   | none => true
   | some (p0, p1, data) => data.length % 4 = 0 && data.length / 4 < 65536 &&
       IpcHub.Depack.be16 p0 p1 ≠ 0xBEDE && IpcHub.Depack.be16 p0 p1 ≠ 0x1000)

end IpcHub.RtpEncode
