/-
Specification of a persistent keyed table (C18): the table is a list of entries in
first-insertion order with pairwise distinct keys; saving an entry whose (canonical) key is
present updates it in place, otherwise appends; deleting removes; a flush persists exactly the
current table; a restart continues from the persisted table (or the default when nothing was
ever persisted).  No maps, change lists or guards here.  Core Lean only.
-/
import IpcHub.Model.Tables
namespace IpcHub.TableSpec
open IpcHub.Tables

/-- what the statement says an entry looks like after create / update -/
structure EntrySpec (V : Type) where
  key : V → Key
  /-- the entry as stored when created from the request `v` (`none`: request rejected) -/
  create : V → Option V
  /-- the stored entry `old` after an accepted update request `v` (already canonicalised by
      `create`) with the flag "also change the password" -/
  update : V → V → Bool → V
  canonKey : Key → Key

def specSave {V : Type} (e : EntrySpec V) (t : List V) (v : V) (flag : Bool) : List V :=
  match e.create v with
  | none => t
  | some nv =>
    if t.any (fun x => e.key x = e.key nv) then
      t.map (fun x => if e.key x = e.key nv then e.update x nv flag else x)
    else t ++ [nv]

def specDel {V : Type} (e : EntrySpec V) (t : List V) (name : Key) : List V :=
  t.filter (fun x => e.key x ≠ e.canonKey name)

def specGet {V : Type} (e : EntrySpec V) (t : List V) (name : Key) : Option V :=
  t.find? (fun x => e.key x = e.canonKey name)

/-- abstract server: current table and persisted table (`none`: nothing persisted yet) -/
structure Abs (V : Type) where
  cur : List V
  disk : Option (List V)

/-- what a (re)started server holds: exactly the persisted table; when nothing was ever
    persisted, the default entries as they would be stored -/
def specLoad {V : Type} (e : EntrySpec V) (dflt : List V) (disk : Option (List V)) : List V :=
  match disk with
  | some t => t
  | none => dflt.filterMap e.create

def Abs.step {V : Type} (e : EntrySpec V) (dflt : List V) (a : Abs V) : Op V → Abs V
  | .save v flag => { a with cur := specSave e a.cur v flag }
  | .del name => { a with cur := specDel e a.cur name }
  | .flush => { a with disk := some a.cur }
  | .restart => { a with cur := specLoad e dflt a.disk }

def Abs.run {V : Type} (e : EntrySpec V) (dflt : List V) (a : Abs V) (ops : List (Op V)) : Abs V :=
  ops.foldl (Abs.step e dflt) a

/-- histories with failing and dying flushes: a failed flush persists nothing and changes nothing;
    a flush during which the process dies has persisted either the complete current table or
    nothing, and the restarted server holds exactly what is persisted -/
def Abs.cstep {V : Type} (e : EntrySpec V) (dflt : List V) (a : Abs V) : COp V → Abs V
  | .op x => Abs.step e dflt a x
  | .failFlush => a
  | .crashFlush persisted =>
    let disk := if persisted then some a.cur else a.disk
    { cur := specLoad e dflt disk, disk := disk }

def Abs.crun {V : Type} (e : EntrySpec V) (dflt : List V) (a : Abs V) (ops : List (COp V)) : Abs V :=
  ops.foldl (Abs.cstep e dflt) a

/-- a first start with no table file -/
def Abs.fresh {V : Type} (e : EntrySpec V) (dflt : List V) : Abs V :=
  { cur := specLoad e dflt none, disk := none }

end IpcHub.TableSpec
