/-
C11 — the reference monitor: what the property statement says, written independently of the
implementation's tables and handlers.

* Rights are read off the *administrative history* (`lastSaved`): the most recent save of a user
  name that no delete followed.  Nothing else about the past matters ("as last saved").
* A right string means what the documented pattern language says (`specPermits`, property C16).
* A token is valid while its grant is live (not refreshed away) and unexpired; only the access
  token of a grant authenticates, the refresh token only refreshes.
* Every delivery of media of registry key `k` (SDP, RTP, FLV, playlist, segment) needs an
  authenticated caller allowed to pull `k`; every publication on `k` a caller allowed to push `k`;
  every management call an administrator.  A caller who holds the right must not get 401 / 403.
-/
import IpcHub.Spec.PatternLang
import IpcHub.Model.AuthSess
namespace IpcHub.Monitor
open IpcHub.PathMatch IpcHub.PatternLang IpcHub.Auth

/-! ## rights as last saved -/

inductive AdminOp where
  | save (u : UserIn) (updatePassword : Bool)
  | del (name : List Char)
  deriving Repr

structure Rec where
  admin : Bool
  push : List Char
  pull : List Char
  password : Secret
  deriving Repr, DecidableEq

/-- `h` lists the administrative operations, MOST RECENT FIRST.  User names are case-insensitive. -/
def lastSaved (lower : Char → Char) : List AdminOp → List Char → Option Rec
  | [], _ => none
  | .del m :: earlier, n =>
    if m.map lower = n.map lower then none else lastSaved lower earlier n
  | .save u upd :: earlier, n =>
    if u.name.map lower = n.map lower then
      let pw := if upd then u.password else
        match lastSaved lower earlier n with
        | some old => old.password
        | none => u.password          -- a new user always gets the password sent
      some { admin := u.admin, push := u.push, pull := u.pull, password := pw }
    else lastSaved lower earlier n

inductive Action where
  | pull | push | admin
  deriving DecidableEq, Repr

structure Env where
  lower : Char → Char
  isSpace : Char → Bool
  /-- the media registry's key function (utils.CanonicalPath) -/
  canon : List Char → List Char
  /-- API paths that need no token, and the read-only stream queries that need no administrator -/
  openPaths : List (List Char)
  streamQueryPrefix : List Char

def allowed (e : Env) (h : List AdminOp) (name : List Char) (act : Action) (path : List Char) : Bool :=
  match lastSaved e.lower h name with
  | none => false
  | some r =>
    match act with
    | .pull => specPermits e.lower e.isSpace r.pull r.admin path
    | .push => specPermits e.lower e.isSpace r.push r.admin path
    | .admin => r.admin

/-! ## tokens -/

structure Grant where
  user : List Char
  a : Nat
  r : Nat
  aexp : Int
  rexp : Int
  live : Bool
  deriving Repr, DecidableEq

/-- the user an access token authenticates now -/
def validAccess (gs : List Grant) (now : Int) (tok : Nat) : Option (List Char) :=
  (gs.find? (fun g => g.live && g.a = tok && decide (g.aexp > now))).map (·.user)

/-- presenting `tok` to the refresh end point: if it is the unexpired refresh token of a live grant,
    that grant is used up and its user gets a new one; anything else changes nothing -/
def refreshGrant (gs : List Grant) (now : Int) (tok : Nat) : List Grant × Option (List Char) :=
  match gs.find? (fun g => g.live && decide (g.r = tok) && decide (g.rexp > now)) with
  | none => (gs, none)
  | some g =>
    (gs.map (fun x => if x.live && decide (x.r = tok) then { x with live := false } else x), some g.user)

structure SWorld where
  authOn : Bool
  hist : List AdminOp
  grants : List Grant
  now : Int
  deriving Repr

def who (sw : SWorld) (tok : TokRef) : Option (List Char) :=
  match tok with
  | none => none
  | some t => validAccess sw.grants sw.now t

inductive Verdict where
  | ok
  | unsound      -- something was granted that the monitor forbids
  | incomplete   -- a caller who holds the right was refused
  deriving DecidableEq, Repr

/-! ## /streams/ over plain HTTP -/

/-- the registry key a /streams/ URL addresses: `/streams<path>.<ext>`, or `/streams<path>/<seq>.ts` -/
def resourceOf (e : Env) (urlPath : List Char) : Option (List Char) :=
  match extractStreamPathAndExt urlPath with
  | none => none
  | some (sp, ext) =>
    if ext = ".ts".toList then
      match splitLastSlash sp with
      | some (dir, _) => some (e.canon dir)
      | none => none
    else some (e.canon sp)

def mayPull (e : Env) (sw : SWorld) (u : Option (List Char)) (key : List Char) : Bool :=
  match u with
  | none => false
  | some n => allowed e sw.hist n .pull key

def mayPush (e : Env) (sw : SWorld) (u : Option (List Char)) (key : List Char) : Bool :=
  match u with
  | none => false
  | some n => allowed e sw.hist n .push key

def judgeHttp (e : Env) (sw : SWorld) (urlPath : List Char) (tok : TokRef) (out : HttpOut) : Verdict :=
  if !sw.authOn then .ok else
  match out with
  | .serve _ key => if mayPull e sw (who sw tok) key then .ok else .unsound
  | .unauthorized | .forbidden =>
    match resourceOf e urlPath with
    | some k => if mayPull e sw (who sw tok) k then .incomplete else .ok
    | none => .ok
  | _ => .ok

def judgeWs (e : Env) (sw : SWorld) (urlPath : List Char) (tok : TokRef) (out : WsOut) : Verdict :=
  if !sw.authOn then .ok else
  match out with
  -- a connection exists only for an authenticated caller, and it is labelled with THAT caller: the
  -- sessions that run on it (ws-rtsp, WSP) decide by the label
  | .serveFlv c key => if who sw tok = some c.user && mayPull e sw (who sw tok) key then .ok else .unsound
  | .upgraded c | .closed c => if who sw tok = some c.user then .ok else .unsound
  | .unauthorized | .forbidden =>
    match resourceOf e urlPath with
    | some k => if mayPull e sw (who sw tok) k then .incomplete else .ok
    | none => .ok
  | _ => .ok

/-! ## /api/ -/

def isOpenPath (e : Env) (path : List Char) : Bool := e.openPaths.contains (path.map e.lower)
def isStreamQuery (e : Env) (isGet : Bool) (path : List Char) : Bool := isGet && isPrefix e.streamQueryPrefix path

def isAdmin (e : Env) (sw : SWorld) (u : Option (List Char)) : Bool :=
  match u with
  | none => false
  | some n => allowed e sw.hist n .admin []

/-- a call that reached the API router -/
def judgeApi (e : Env) (sw : SWorld) (isGet : Bool) (path : List Char) (tok : TokRef) (out : ApiOut) : Verdict :=
  match out with
  | .open_ => if isOpenPath e path then .ok else .unsound
  | .pass u =>
    if who sw tok = some u && (isStreamQuery e isGet path || isAdmin e sw (some u)) then .ok else .unsound
  | .unauthorized | .forbidden =>
    if isOpenPath e path then .incomplete
    else if (who sw tok).isSome && (isStreamQuery e isGet path || isAdmin e sw (who sw tok)) then .incomplete
    else .ok
  | _ => .ok

/-- login: a token is issued exactly for the saved password (or its MD5) of an existing user -/
def loginOk (e : Env) (sw : SWorld) (name : List Char) (pw : Secret) : Bool :=
  match lastSaved e.lower sw.hist name with
  | none => false
  | some r => !name.isEmpty && !pw.under.isEmpty && validatePassword r.password pw

def judgeLogin (e : Env) (sw : SWorld) (name : List Char) (pw : Secret) (issuedFor : Option (List Char)) : Verdict :=
  match issuedFor with
  | some u => if loginOk e sw name pw && u = name.map e.lower then .ok else .unsound
  | none => if loginOk e sw name pw then .incomplete else .ok

def judgeRefresh (sw : SWorld) (tok : TokRef) (issuedFor : Option (List Char)) : Verdict :=
  let want := match tok with
    | none => none
    | some t => (refreshGrant sw.grants sw.now t).2
  match issuedFor, want with
  | some u, some v => if u = v then .ok else .unsound
  | some _, none => .unsound
  | none, some _ => .incomplete
  | none, none => .ok

/-! ## RTSP (plain and over WebSocket) -/

/-- who an RTSP request is authenticated as: plain sessions by a fresh digest of the user's saved
    password, WebSocket sessions by the identity the token interceptor attached to the connection -/
def rtspCaller (e : Env) (sw : SWorld) (ws : Option WsConn) (cred : Option Cred) : Option (List Char) :=
  match ws with
  | some c => some c.user
  | none =>
    match cred with
    | none => none
    | some c =>
      match lastSaved e.lower sw.hist c.user with
      | none => none
      | some r => if c.fresh && !c.user.isEmpty && digestSecretOk r.password c.secret then some c.user else none

/-- the monitor's view of a session: the path its last processed DESCRIBE / ANNOUNCE named and
    whether the session is a publishing one (last successful of the two was ANNOUNCE) -/
structure SSess where
  resource : List Char := []
  publishing : Bool := false
  deriving Repr

def needRight (ss : SSess) (m : Method) : Option Action :=
  match m with
  | .describe => some .pull
  | .announce => some .push
  | .record => some .push
  | .play => some .pull
  | .setup => some (if ss.publishing then .push else .pull)
  | _ => none

/-- the resource a request addresses, per the protocol -/
def rtspResource (e : Env) (ss : SSess) (ws : Option WsConn) (rq : RtspReq) : List Char :=
  match rq.method with
  | .describe => match ws with | some _ => ss.resource | none => e.canon rq.urlPath
  | .announce => e.canon rq.urlPath
  | _ => ss.resource

/-- the verdict on one RTSP exchange, for a given authenticated caller -/
def judgeRtspWith (e : Env) (sw : SWorld) (ss : SSess) (ws : Option WsConn) (rq : RtspReq) (out : RtspOut)
    (caller : Option (List Char)) : Verdict :=
  match out.eff with
  | .describe k | .play k => if mayPull e sw caller k then .ok else .unsound
  | .publish k => if mayPush e sw caller k then .ok else .unsound
  | .none =>
    if out.code = 401 || out.code = 403 then
      match needRight ss rq.method, caller with
      | some act, some n =>
        if allowed e sw.hist n act (rtspResource e ss ws rq) then .incomplete else .ok
      | _, _ => .ok
    else .ok

def judgeRtsp (e : Env) (sw : SWorld) (ss : SSess) (ws : Option WsConn) (rq : RtspReq) (out : RtspOut) : Verdict :=
  if !sw.authOn then .ok else judgeRtspWith e sw ss ws rq out (rtspCaller e sw ws rq.cred)

def SSess.step (e : Env) (ss : SSess) (ws : Option WsConn) (rq : RtspReq) (out : RtspOut) : SSess :=
  if out.code = 401 || out.code = 455 then ss
  else match rq.method with
    | .describe =>
      { resource := rtspResource e ss ws rq, publishing := if out.code = 200 then false else ss.publishing }
    | .announce =>
      if rq.ctOk then { resource := rtspResource e ss ws rq, publishing := if out.code = 200 then true else ss.publishing }
      else ss
    | _ => ss

/-! ## WSP -/

/-- PLAY / DESCRIBE on a WSP control session: media goes to the control connection's user (SDP) and
    to whoever owns the joined data channel (RTP) -/
def judgeWsp (e : Env) (sw : SWorld) (conn : WsConn) (data : Option WsConn) (out : RtspOut) : Verdict :=
  if !sw.authOn then .ok else
  match out.eff with
  | .describe k => if mayPull e sw (some conn.user) k then .ok else .unsound
  | .play k =>
    if mayPull e sw (some conn.user) k && (match data with | some d => mayPull e sw (some d.user) k | none => true)
    then .ok else .unsound
  | .publish _ => .unsound
  | .none =>
    if (out.code = 401 || out.code = 403) && mayPull e sw (some conn.user) (e.canon conn.path) then .incomplete else .ok

/-- JOIN of a data channel: if the control session is already consuming `k`, its RTP now goes to the joiner -/
def judgeJoin (e : Env) (sw : SWorld) (sess : Option (WsConn × Option (List Char))) (dc : WsConn) (code : Nat) : Verdict :=
  if !sw.authOn then .ok else
  match sess with
  | none => .ok
  | some (conn, attached) =>
    if code = 200 then
      match attached with
      | some k => if mayPull e sw (some dc.user) k then .ok else .unsound
      | none => .ok
    else if dc.user = conn.user && dc.path = conn.path && mayPull e sw (some conn.user) (e.canon conn.path) then .incomplete
    else .ok

end IpcHub.Monitor
