/-
C20 — the specification of an on-demand pull as a predicate over what was OBSERVED (the
requests the camera received, what the requester got, what is registered, what was closed),
in the vocabulary of the property statement.  It does not prescribe the client's algorithm
(e.g. how often a challenge is retried); it says which observed exchanges are acceptable.
Executable: the driver evaluates it on the implementation's observations.  Core Lean only.
-/
import IpcHub.Model.Pull
namespace IpcHub.PullSpec
open IpcHub.Pull

/-- which password the camera found the credentials to be computed from -/
inductive Cred where
  | none | plain | md5 | wrong
  deriving DecidableEq, Repr

structure SeenReq where
  /-- the method; for a SETUP also the track whose control URL (resolved against the route URL) and
      interleaved channel pair the request names -/
  method : Method
  auth : Auth
  cred : Cred
  /-- the request line names something else than the route URL (OPTIONS, DESCRIBE, PLAY, keep-alive) /
      a track's control URL with that track's TCP interleaved transport (SETUP) -/
  misaddressed : Bool := false
  deriving DecidableEq, Repr

structure Obs where
  out : Outcome
  dialled : Bool
  reqs : List SeenReq      -- up to and including the successful PLAY
  closed : Bool            -- the client closed its connection
  reg : Bool               -- the stream appeared under the requested path
  sent : Nat
  delivered : Nat
  clean : Bool             -- at the end: nothing registered under the path, consumer closed, connection closed
  cclosed : Bool
  regAfter : Bool
  cseqOk : Bool
  leak : Bool              -- connection counter or goroutine count did not come back
  /-- after everything had ended, a later request for the path dialled the camera again and got the same
      kind of result (a new stream, registered / not-found) -/
  afresh : Bool := true
  deriving Repr

def isSuccess : Resp → Bool
  | .status code _ _ => decide (200 ≤ code ∧ code ≤ 300)
  | _ => false

/-- a 401 carrying a challenge a client with credentials can answer -/
def validChallenge : Resp → Option Auth
  | .status 401 .digestOk _ => some .digest
  | .status 401 .basicOk _ => some .basic
  | _ => none

def respAt (script : List Resp) (j : Nat) : Resp := script.getD j (.status 200 .other .none)

def tracksOf : Sdp → Nat
  | .tracks v a _ => (if v then 1 else 0) + (if a then 1 else 0)
  | _ => 0

/-- one SETUP per section of the SDP that carries a control attribute, each addressed to its own track -/
def setupsOf : Sdp → List Method
  | .tracks v a _ => (if v then [.setup false] else []) ++ (if a then [.setup true] else [])
  | _ => []

/-- the requests a complete handshake consists of -/
def needed (cfg : Cfg) : List Method :=
  [.options, .describe] ++ setupsOf cfg.sdp ++ [.play]

/-- the methods of the observed requests that the camera answered with success -/
def succeeded (script : List Resp) (reqs : List SeenReq) : List Method :=
  (reqs.zipIdx.filter (fun (_, j) => isSuccess (respAt script j))).map (·.1.method)

def isPrefix : List Method → List Method → Bool
  | [], _ => true
  | _ :: _, [] => false
  | a :: as, b :: bs => a == b && isPrefix as bs

/-- was some earlier response (index < j) a valid challenge? -/
def challengedBefore (script : List Resp) (j : Nat) : Bool :=
  (List.range j).any (fun k => (validChallenge (respAt script k)).isSome)

/-- credentials are sent only after a challenge, and always computed from the URL's password -/
def credsOk (script : List Resp) (reqs : List SeenReq) : Bool :=
  reqs.zipIdx.all (fun (r, j) =>
    match r.auth with
    | .none => r.cred == .none
    | _ => (r.cred == .plain || r.cred == .md5) && challengedBefore script j)

/-- a first attempt that is challenged (and credentials exist) is repeated at once with the challenged scheme -/
def challengeAnswered (cfg : Cfg) (script : List Resp) (reqs : List SeenReq) : Bool :=
  reqs.zipIdx.all (fun (r, j) =>
    let first := j = 0 || (reqs.getD (j - 1) r).method != r.method || isSuccess (respAt script (j - 1))
    match validChallenge (respAt script j) with
    | some scheme =>
      if cfg.hasUser && first then
        match reqs[j + 1]? with
        | some r' => r'.method == r.method && r'.auth == scheme && r'.cred == .plain
        | none => false
      else true
    | none => true)

/-- is there a reason to give up: the camera does not listen, the SDP is unusable, or the last
    request the camera received was not answered with success -/
def hasReason (cfg : Cfg) (script : List Resp) (o : Obs) : Bool :=
  !cfg.listens ||
  (match cfg.sdp with
   | .tracks _ _ _ => false
   | _ => succeeded script o.reqs == [.options, .describe]) ||
  (match o.reqs.length with
   | 0 => false
   | n + 1 => !isSuccess (respAt script n))

/-- the verdict: "ok" or the class of the violation -/
def verdict (cfg : Cfg) (script : List Resp) (o : Obs) : String :=
  if o.out = .hang then "requester-hangs"
  else if o.out = .panic then "panic-reaches-requester"
  else if o.leak then "connection-or-goroutine-leak"
  else if !o.cseqOk then "cseq-not-increasing"
  else if o.reqs.any (·.misaddressed) then "request-addressed-wrongly"
  else if !credsOk script o.reqs then "credentials-wrong-or-unprompted"
  else if !challengeAnswered cfg script o.reqs then "challenge-not-answered"
  else if o.out = .stream then
    if succeeded script o.reqs != needed cfg then "handshake-incomplete-or-out-of-order"
    else if !o.reg then "stream-not-registered-under-requested-path"
    else if o.delivered != o.sent then "packets-not-delivered"
    else if !o.closed then "connection-left-open-after-play"
    else if !o.cclosed then "consumer-not-closed"
    else if o.regAfter || !o.clean then "stream-left-registered"
    else if !o.afresh then "later-request-does-not-pull-afresh"
    else "ok"
  else -- notFound
    if !isPrefix (succeeded script o.reqs) (needed cfg) then "handshake-out-of-order"
    else if o.dialled && !o.closed then "failed-open-leaves-connection"
    else if o.regAfter || o.reg then "failed-open-leaves-registration"
    else if !hasReason cfg script o then "gave-up-without-reason"
    else if !o.afresh then "later-request-does-not-pull-afresh"
    else "ok"

/-! ### the session id (RFC 2326 §12.37)

Once a successful answer has carried a `Session` header, the session exists for the camera: every later
request has to name it, or the camera answers 454 Session Not Found — whatever lay between that answer and
the request (a 401 challenge and the authenticated repetition in particular).  The clause is about what
was observed: `carried[j]` says whether request j had the Session header with the id.  It does not speak of
a camera whose latest successful answer came without the header. -/

/-- a successful answer that carries the session id -/
def sessGiven : Resp → Bool
  | .status code _ s => decide (200 ≤ code ∧ code ≤ 300) && s != .none
  | _ => false

/-- `have_`: the latest successful answer before request j carried the session id -/
def sessionCarriedFrom (script : List Resp) : Nat → Bool → List Bool → Bool
  | _, _, [] => true
  | j, have_, c :: cs =>
    (!have_ || c) &&
      sessionCarriedFrom script (j + 1) (if isSuccess (respAt script j) then sessGiven (respAt script j) else have_) cs

/-- every request sent after a successful answer that handed out (or repeated) the session id names it -/
def sessionCarried (script : List Resp) (carried : List Bool) : Bool :=
  sessionCarriedFrom script 0 false carried

/-- the verdict on an observation together with the Session headers of its requests -/
def verdictS (cfg : Cfg) (script : List Resp) (o : Obs) (carried : List Bool) : String :=
  let v := verdict cfg script o
  if v != "ok" then v
  else if !sessionCarried script carried then "session-id-not-carried"
  else "ok"

/-- the cameras of the class "accepts the route's credentials and behaves per RFC 2326": one successful
    answer per step, the session id from the first SETUP (step 2) on, and a valid challenge of kind `ch`
    in front of the steps the mask names -/
def rfcScript (ch : Chal) (mask : List Bool) : List Resp :=
  (mask.zipIdx.map (fun (m, i) =>
    (if m then [Resp.status 401 ch .none] else []) ++
      [Resp.status 200 .other (if 2 ≤ i then Sess.plain else Sess.none)])).flatten

def masks : Nat → List (List Bool)
  | 0 => [[]]
  | n + 1 => (masks n).flatMap (fun m => [false :: m, true :: m])

end IpcHub.PullSpec
