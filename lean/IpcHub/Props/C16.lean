/-
C16 — Permission patterns mean what the configuration guide says.
Property theorems only; helper lemmas live in IpcHub/Lemmas/PathMatch*.lean.
-/
import IpcHub.Lemmas.PathMatch2
import IpcHub.Model.PathMatchInst
namespace IpcHub.Props.C16
open IpcHub.PathMatch IpcHub.PatternLang

/-- Generic form: for EVERY right string, admin flag and path (no bound on lengths, any
    character functions), the implementation model — scanning loop of `initMatchers`,
    `NewPathMatcher`, `pathMacher.Match`, `ValidatePermission` — decides exactly the
    documented pattern language, provided path tokens are compared literally
    (`pathScanner` does not trim) and ';' is not a blank. -/
theorem c16_equiv_generic (cfg : Cfg) (h : cfg.pathTrims = false) (hd : cfg.isSpace ';' = false)
    (right : List Char) (admin : Bool) (path : List Char) :
    implPermits cfg right admin path = specPermits cfg.lower cfg.isSpace right admin path := by
  unfold implPermits specPermits effectiveRight
  rw [initMatchers_eq cfg hd, List.any_map]
  apply any_congr_mem          -- pointwise on the patterns of the right string
  intro pat hp
  exact matches_eq cfg h pat _ (patterns_trimmed _ _ _ hp)

/-- The source facts the theorem rests on, regenerated from /repo on every run. -/
theorem c16_source_facts :
    IpcHub.Gen.authFactsUnknown = [] ∧ IpcHub.Gen.pathScannerTrims = false ∧
    IpcHub.Gen.pathScannerDelim = "/" ∧ IpcHub.Gen.sectionWildcard = "+" ∧
    IpcHub.Gen.endWildcard = "*" ∧ IpcHub.Gen.semicolonScanner = "';',unicode.IsSpace" := by
  decide

/-- C16 for the current source tree: model instantiated with the regenerated facts. -/
theorem c16_equiv (right : List Char) (admin : Bool) (path : List Char) :
    implPermits genCfg right admin path = specPermits asciiLower asciiSpace right admin path :=
  c16_equiv_generic genCfg c16_source_facts.2.1 (by decide) right admin path

/-- Corollaries named in the statement. -/
theorem c16_empty_right_permits_nothing (path : List Char) :
    implPermits genCfg [] false path = false := by
  rw [c16_equiv]; simp [specPermits, patterns, splitOn, trim, trimLeft, trimRight]

theorem c16_admin_default_star (path : List Char) :
    implPermits genCfg [] true path = true := by
  rw [c16_equiv]
  simp [specPermits, patterns, splitOn, trim, trimLeft, trimRight, asciiSpace, patMatch]

/-- Why the hypothesis `pathTrims = false` is needed: with a trimming path scanner (the code
    before the fix) the matcher fails open and closed.  Replayed on the implementation by the
    harness (corpus/C16/segment-whitespace.case). -/
theorem c16_trimming_scanner_counterexample :
    let cfgT : Cfg := { lower := asciiLower, isSpace := asciiSpace, pathTrims := true }
    implPermits cfgT ['/', 'a', '/', 'b'] false ['/', 'a', ' ', '/', 'b'] = true ∧
    specPermits asciiLower asciiSpace ['/', 'a', '/', 'b'] false ['/', 'a', ' ', '/', 'b'] = false ∧
    implPermits cfgT ['/', 'a', ' ', '/', 'b'] false ['/', 'a', ' ', '/', 'b'] = false ∧
    specPermits asciiLower asciiSpace ['/', 'a', ' ', '/', 'b'] false ['/', 'a', ' ', '/', 'b'] = true := by
  decide

/-- The examples of docs/config.md §3.2, as a sanity check that the specification is the
    documented language (these are tests of the spec, not the unbounded claim). -/
theorem c16_doc_examples :
    let P := specPermits asciiLower asciiSpace
    P ['/','a'] false ['/','a'] = true ∧ P ['/','a'] false ['/','a','/','b'] = false ∧
    P ['/','a','/','*'] false ['/','a'] = true ∧ P ['/','a','/','*'] false ['/','a','/','b'] = true ∧
    P ['/','a','/','*'] false ['/','a','/','b','/','c'] = true ∧
    P ['/','a','/','+','/','c','/','*'] false ['a','/','b','/','c'] = true ∧
    P ['/','a','/','+','/','c','/','*'] false ['a','/','d','/','c'] = true ∧
    P ['/','a','/','+','/','c','/','*'] false ['a','/','b','/','c','/','d'] = true ∧
    P ['/','a','/','+','/','c','/','*'] false ['a','/','b','/','c','/','d','/','e'] = true ∧
    P ['/','a','/','+','/','c','/','*'] false ['a','/','c'] = false ∧
    P ['*'] false ['/','x','/','y'] = true := by
  decide

/-- non-vacuity: the hypotheses of `c16_equiv_generic` are met by the ASCII instance -/
example : ({ lower := asciiLower, isSpace := asciiSpace, pathTrims := false } : Cfg).isSpace ';' = false := by decide

end IpcHub.Props.C16
