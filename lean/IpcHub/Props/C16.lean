/-
C16 — Permission patterns mean what the configuration guide says.
Property theorems only; helper lemmas live in IpcHub/Lemmas/PathMatch*.lean.

Model      : Model/PathMatch.lean (initMatchers, NewPathMatcher, pathMacher.Match, Scanner.Scan,
             User.init, ValidatePermission), Model/GoUnicode.lean (unicode.ToLower, unicode.IsSpace).
Spec       : Spec/PatternDoc.lean — the documented language written with core `List.splitOn` and
             `List.dropWhile` only, Unicode tables for case and blanks.
Characters : strings are `List Char`, i.e. sequences of Unicode scalar values = valid UTF-8.  Byte
             strings that are NOT valid UTF-8 are outside every theorem here (stated exclusion; the
             harness probes them: the implementation treats them like the string with each invalid
             byte replaced by U+FFFD).
-/
import IpcHub.Lemmas.PathMatch4
import IpcHub.Model.PathMatchInst
import IpcHub.Model.PathMatchExpect
namespace IpcHub.Props.C16
open IpcHub.PathMatch IpcHub.PatternDoc

/-- The source facts the theorems rest on, regenerated from /repo on every run: the scanners'
    delimiters and trim functions, the wildcard constants, the two right constants, and the bodies —
    statement by statement — of every function the model mirrors (`NewPathMatcher`, both `Match`es,
    `partCount`, `initMatchers`, `User.init`, `ValidatePermission`, `CopyFrom`, `Scanner.Scan`,
    `NewScanner`), which fixes in particular the `strings.ToLower` / `strings.TrimSpace` /
    `strings.Trim(·, "/")` calls, the guards of `Match`, the wiring of the two rights and the
    administrator default (expected shapes: Model/PathMatchExpect.lean; name and password handling in
    `User.init` / `CopyFrom` is left out). -/
theorem c16_source_facts :
    IpcHub.Gen.authFactsUnknown = [] ∧ IpcHub.Gen.pathScannerTrims = false ∧
    IpcHub.Gen.pathScannerDelim = "/" ∧ IpcHub.Gen.sectionWildcard = "+" ∧
    IpcHub.Gen.endWildcard = "*" ∧ IpcHub.Gen.semicolonScanner = Expected.semicolonScanner ∧
    IpcHub.Gen.accessRights = Expected.accessRights ∧
    IpcHub.Gen.pmSkel_NewPathMatcher = Expected.pmSkel_NewPathMatcher ∧
    IpcHub.Gen.pmSkel_Match = Expected.pmSkel_Match ∧
    IpcHub.Gen.pmSkel_AlwaysMatch = Expected.pmSkel_AlwaysMatch ∧
    IpcHub.Gen.pmSkel_partCount = Expected.pmSkel_partCount ∧
    IpcHub.Gen.pmSkel_initMatchers = Expected.pmSkel_initMatchers ∧
    IpcHub.Gen.pmSkel_userInit = Expected.pmSkel_userInit ∧
    IpcHub.Gen.pmSkel_ValidatePermission = Expected.pmSkel_ValidatePermission ∧
    IpcHub.Gen.pmSkel_CopyFrom = Expected.pmSkel_CopyFrom ∧
    IpcHub.Gen.pmSkel_Scan = Expected.pmSkel_Scan ∧
    IpcHub.Gen.pmSkel_NewScanner = Expected.pmSkel_NewScanner := by
  decide

/-- Generic form: for EVERY right string, admin flag and path (no bound on lengths, ANY character
    functions `lower`, `isSpace`), the implementation model — scanning loop of `initMatchers`,
    `NewPathMatcher`, `pathMacher.Match`, `ValidatePermission` — decides exactly the documented
    pattern language, provided path tokens are compared literally (`pathScanner` does not trim)
    and ';' is not a blank. -/
theorem c16_equiv_generic (cfg : Cfg) (h : cfg.pathTrims = false) (hd : cfg.isSpace ';' = false)
    (right : List Char) (admin : Bool) (path : List Char) :
    implPermits cfg right admin path = permits cfg.lower cfg.isSpace right admin path :=
  implPermits_eq_doc cfg h hd right admin path

/-- non-vacuity of `c16_equiv_generic`: Go's functions with the current source fact meet both
    hypotheses -/
example : goCfg.pathTrims = false ∧ goCfg.isSpace ';' = false := by decide

/-- C16 for the current source tree, Go's own character functions, ALL Unicode strings: the model
    instantiated with the regenerated facts and with `unicode.ToLower` / `unicode.IsSpace`
    (complete tables of the toolchain, Model/GoUnicode.lean) decides the documented language read
    with the same two functions. -/
theorem c16_equiv (right : List Char) (admin : Bool) (path : List Char) :
    implPermits goCfg right admin path
      = permits IpcHub.GoUnicode.toLower IpcHub.GoUnicode.isSpace right admin path :=
  c16_equiv_generic goCfg c16_source_facts.2.1 (by decide) right admin path

/-- `unicode.IsSpace` is exactly Unicode White_Space — for every character. -/
theorem c16_blank_is_white_space (c : Char) : IpcHub.GoUnicode.isSpace c = uSpace c := by
  rw [goSpace_eq_uSpace]

/-- `unicode.ToLower` is the Unicode simple lowercase mapping on the covered character class (all of
    ASCII, all White_Space, the listed Latin-1 / Latin Extended / Greek / Cyrillic / Georgian /
    letterlike / fullwidth / Deseret letters with and without case, marks, format characters,
    U+FFFD, an emoji, private use). -/
theorem c16_lower_on_covered (c : Char) (h : covered c = true) :
    IpcHub.GoUnicode.toLower c = uLower c :=
  goLower_eq_uLower c h

/-- non-vacuity: the class has cased non-ASCII members (É, İ, K kelvin, 𐐀) and blanks beyond ' ' -/
example : covered 'É' = true ∧ covered 'İ' = true ∧ covered (Char.ofNat 0x212A) = true ∧
    covered (Char.ofNat 0x10400) = true ∧ covered (Char.ofNat 0x3000) = true ∧ uLower 'É' = 'é' ∧
    uLower 'İ' = 'i' ∧ uSpace (Char.ofNat 0xA0) = true ∧ uSpace (Char.ofNat 0x200B) = false := by
  decide

/-- C16, headline: for every right string and path OVER THE COVERED CHARACTER CLASS (no bound on
    lengths) and either admin flag, the implementation model decides the documented language read
    with the specification's own Unicode tables — simple lowercase mapping, White_Space.
    Characters outside the class: see `c16_equiv` (there the specification is read with Go's
    `unicode.ToLower`, whose agreement with the Unicode mapping is not proved here). -/
theorem c16_equiv_covered (right : List Char) (admin : Bool) (path : List Char)
    (hr : ∀ c ∈ right, covered c = true) (hp : ∀ c ∈ path, covered c = true) :
    implPermits goCfg right admin path = permits uLower uSpace right admin path := by
  rw [c16_equiv, goSpace_eq_uSpace]
  exact permits_congr_lower _ _ _ right admin path (by decide)
    (fun c hc => goLower_eq_uLower c (hr c hc)) (fun c hc => goLower_eq_uLower c (hp c hc))

/-- non-vacuity of `c16_equiv_covered`: a right with a blank-padded, mixed-case, non-ASCII pattern
    and a path that it permits -/
example :
    (∀ c ∈ " /É/+/*; b".toList, covered c = true) ∧ (∀ c ∈ "\t/é/x/y/ ".toList, covered c = true) ∧
    permits uLower uSpace " /É/+/*; b".toList false "\t/é/x/y/ ".toList = true := by
  decide

/-- The user level (`User.init` + `ValidatePermission`): the patterns of the RELEVANT right decide —
    the pull right for `PullRight`, the push right for `PushRight` — each with the administrator
    default; any other value of the right type is refused. -/
theorem c16_user_equiv (u : User) (path : List Char)
    (hpull : ∀ c ∈ u.pull, covered c = true) (hpush : ∀ c ∈ u.push, covered c = true)
    (hp : ∀ c ∈ path, covered c = true) :
    implValidate goCfg u path .pull
        = userPermits uLower uSpace ⟨u.admin, u.pull, u.push⟩ .pull path ∧
    implValidate goCfg u path .push
        = userPermits uLower uSpace ⟨u.admin, u.pull, u.push⟩ .push path ∧
    implValidate goCfg u path .other = false := by
  refine ⟨?_, ?_, implValidate_other _ _ _⟩
  · rw [implValidate_pull]; exact c16_equiv_covered _ _ _ hpull hp
  · rw [implValidate_push]; exact c16_equiv_covered _ _ _ hpush hp

/-- non-vacuity of `c16_user_equiv`, and the two rights really are separate: a user who may pull
    `/a/*` and push `/b` -/
example :
    let u : User := ⟨false, "/a/*".toList, "/b".toList⟩
    implValidate goCfg u "/a/x".toList .pull = true ∧ implValidate goCfg u "/a/x".toList .push = false ∧
    implValidate goCfg u "/B".toList .push = true ∧ implValidate goCfg u "/b".toList .pull = false := by
  decide

/-- The ASCII instance `genCfg` on which the C11 model is built decides the same language
    (formulation `PatternLang.specPermits`, equal to `permits` by `specPermits_eq_doc`). -/
theorem c16_equiv_ascii (right : List Char) (admin : Bool) (path : List Char) :
    implPermits genCfg right admin path
      = IpcHub.PatternLang.specPermits asciiLower asciiSpace right admin path := by
  rw [specPermits_eq_doc]
  exact c16_equiv_generic genCfg c16_source_facts.2.1 (by decide) right admin path

/-! ### the clauses of the statement, about the specification the model was proved equal to -/

/-- "A path is permitted exactly when at least one pattern of the relevant right matches." -/
theorem c16_permitted_iff_some_pattern (right : List Char) (path : List Char) :
    implPermits goCfg right false path = true ↔
      ∃ pat ∈ patterns IpcHub.GoUnicode.isSpace right,
        patMatch IpcHub.GoUnicode.toLower pat (strip IpcHub.GoUnicode.isSpace path) = true := by
  rw [c16_equiv]
  simp [permits, List.any_eq_true]

/-- "An empty right permits nothing …" -/
theorem c16_empty_right_permits_nothing (path : List Char) :
    implPermits goCfg [] false path = false := by
  rw [c16_equiv]; simp [permits, patterns, strip]

/-- "… except that an administrator with an empty right gets '*'", and "'*' alone matches
    everything". -/
theorem c16_admin_default_star (path : List Char) :
    implPermits goCfg [] true path = true ∧ implPermits goCfg ['*'] false path = true := by
  rw [c16_equiv, c16_equiv]
  constructor <;> simp [permits, patterns, strip, patMatch, List.splitOn, List.splitOnP, List.splitOnPPrepend,
    IpcHub.GoUnicode.isSpace, IpcHub.GoUnicode.isSpaceRune]

/-- "A literal segment matches itself, '+' matches exactly one arbitrary segment": two segment
    lists match as fixed segments exactly when they have the same length and every position has a
    `+` or the same (case-folded) segment. -/
theorem c16_fixed_segments (ps xs : List (List Char)) :
    fixedMatch ps xs = true ↔
      ps.length = xs.length ∧ ∀ px ∈ ps.zip xs, px.1 = ['+'] ∨ px.1 = px.2 := by
  induction ps generalizing xs with
  | nil => cases xs <;> simp [fixedMatch]
  | cons p ps ih =>
    cases xs with
    | nil => simp [fixedMatch]
    | cons x xs =>
      have h := ih xs
      simp only [fixedMatch, Bool.and_eq_true, beq_iff_eq] at h
      simp only [fixedMatch, List.length_cons, List.zipWith_cons_cons, List.all_cons, id,
        Bool.and_eq_true, beq_iff_eq, Nat.add_right_cancel_iff, List.zip_cons_cons,
        List.forall_mem_cons, segOk, Bool.or_eq_true]
      constructor
      · rintro ⟨hl, ho, ha⟩
        exact ⟨hl, ho, (h.mp ⟨hl, ha⟩).2⟩
      · rintro ⟨hl, ho, ha⟩
        exact ⟨hl, ho, (h.mpr ⟨hl, ha⟩).2⟩

/-- "A trailing '*' matches zero or more remaining segments": the fixed segments in front of it
    must match a prefix of the path's segments, whatever follows. -/
theorem c16_trailing_star (fixed xs : List (List Char)) :
    segsMatch (fixed ++ [['*']]) xs = true ↔
      ∃ ys zs, xs = ys ++ zs ∧ fixedMatch fixed ys = true := by
  simp only [segsMatch, List.getLast?_append, List.getLast?_singleton, Option.some_or, if_true,
    List.dropLast_concat, Bool.and_eq_true, decide_eq_true_eq]
  constructor
  · rintro ⟨_, hm⟩
    exact ⟨xs.take fixed.length, xs.drop fixed.length, (List.take_append_drop _ _).symm, hm⟩
  · rintro ⟨ys, zs, rfl, hm⟩
    have hl : fixed.length = ys.length := by
      simp only [fixedMatch, Bool.and_eq_true, beq_iff_eq] at hm; exact hm.1
    refine ⟨by simp [hl], ?_⟩
    rw [hl, List.take_left']
    · exact hm
    · rfl

/-- "A pattern without trailing '*' matches only paths with the same number of segments." -/
theorem c16_no_star_same_count (ps xs : List (List Char)) (h : ps.getLast? ≠ some ['*'])
    (hm : segsMatch ps xs = true) : ps.length = xs.length := by
  simp only [segsMatch, h, if_false, fixedMatch, Bool.and_eq_true, beq_iff_eq] at hm
  exact hm.1

/-- "Matched case-insensitively … segment by segment": the decision depends on the path only through
    its case-folded segment list — two paths with the same folded segments (after the surrounding
    blanks and '/' are dropped) are decided alike by the implementation model, for every right. -/
theorem c16_case_insensitive (right : List Char) (admin : Bool) (p q : List Char)
    (h : segments IpcHub.GoUnicode.toLower (strip IpcHub.GoUnicode.isSpace p)
       = segments IpcHub.GoUnicode.toLower (strip IpcHub.GoUnicode.isSpace q)) :
    implPermits goCfg right admin p = implPermits goCfg right admin q := by
  rw [c16_equiv, c16_equiv]
  unfold permits
  apply any_congr_mem
  intro pat _
  unfold patMatch
  rw [h]

/-- non-vacuity of `c16_case_insensitive`: `/Room/É` and ` room/é/ ` have the same folded segments -/
example : segments IpcHub.GoUnicode.toLower (strip IpcHub.GoUnicode.isSpace "/Room/É".toList)
    = segments IpcHub.GoUnicode.toLower (strip IpcHub.GoUnicode.isSpace " room/é/ ".toList) := by
  decide

/-- non-vacuity of `c16_no_star_same_count` -/
example : (segments uLower "/a/+".toList).getLast? ≠ some ['*'] ∧
    segsMatch (segments uLower "/a/+".toList) (segments uLower "A/b/".toList) = true := by decide

/-- Why the hypothesis `pathTrims = false` is needed: with a trimming path scanner (the code
    before the fix 9ca5877) the matcher fails open and closed.  Replayed on the implementation by
    the harness (corpus/C16/segment-whitespace.case). -/
theorem c16_trimming_scanner_counterexample :
    let cfgT : Cfg := { lower := asciiLower, isSpace := asciiSpace, pathTrims := true }
    implPermits cfgT ['/', 'a', '/', 'b'] false ['/', 'a', ' ', '/', 'b'] = true ∧
    permits uLower uSpace ['/', 'a', '/', 'b'] false ['/', 'a', ' ', '/', 'b'] = false ∧
    implPermits cfgT ['/', 'a', ' ', '/', 'b'] false ['/', 'a', ' ', '/', 'b'] = false ∧
    permits uLower uSpace ['/', 'a', ' ', '/', 'b'] false ['/', 'a', ' ', '/', 'b'] = true := by
  decide

/-- The examples of docs/config.md §3.2, as a sanity check that the specification is the
    documented language (these are tests of the spec, not the unbounded claim). -/
theorem c16_doc_examples :
    let P := fun (r p : String) => permits uLower uSpace r.toList false p.toList
    P "/a" "/a" = true ∧ P "/a" "/a/b" = false ∧
    P "/a/*" "/a" = true ∧ P "/a/*" "/a/b" = true ∧ P "/a/*" "/a/c" = true ∧ P "/a/*" "/a/b/c" = true ∧
    P "/a/+/c/*" "a/b/c" = true ∧ P "/a/+/c/*" "a/d/c" = true ∧ P "/a/+/c/*" "a/b/c/d" = true ∧
    P "/a/+/c/*" "a/b/c/d/e" = true ∧ P "/a/+/c/*" "a/c" = false ∧
    P "*" "/x/y" = true ∧ P "/test/*;/rooms/*" "/Rooms/1" = true ∧ P "/rooms/+/entrance" "/rooms/1/entrance" = true ∧
    P "/rooms/+/entrance" "/rooms/entrance" = false := by
  decide

end IpcHub.Props.C16
