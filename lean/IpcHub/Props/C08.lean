/-
C08 — FLV output is valid FLV and carries the source frames faithfully.
Property theorems only; models in Model/Flv*.lean, the independent FLV/AMF0/AVCC/HVCC readers and
the statement of the property over parsed FLV in Spec/FlvParse.lean, helper lemmas in
Lemmas/Flv*.lean.
-/
import IpcHub.Lemmas.FlvWriter
import IpcHub.Model.FlvInst
namespace IpcHub.Props.C08
open IpcHub.Flv IpcHub.FlvSpec IpcHub.FlvLemmas

/-! ## the source facts the theorems rest on (regenerated from /repo on every run) -/

/-- The constants of the FLV/AMF0 writers are those of the format documents and of the model
    (tag types 8/9/18, AVC = 7, HEVC = 12, key/inter frame 1/2, packet types 0/1, AAC = 10,
    sound rate/size/type codes, AMF0 markers, the 9-byte header template, NAL unit types, media
    types, metadata property names). -/
theorem c08_source_constants :
    IpcHub.Gen.flvFactsUnknown = [] ∧
    IpcHub.Gen.flvHeaderTemplate = [0x46, 0x4c, 0x56, 1, 0, 0, 0, 0, 9] ∧
    IpcHub.Gen.flvHeaderSize = 9 ∧ IpcHub.Gen.typeFlagsOffset = 4 ∧
    IpcHub.Gen.typeFlagsVideo = typeFlagsVideo.toNat ∧ IpcHub.Gen.typeFlagsAudio = typeFlagsAudio.toNat ∧
    IpcHub.Gen.tagTypeAudio = tagTypeAudio.toNat ∧ IpcHub.Gen.tagTypeVideo = tagTypeVideo.toNat ∧
    IpcHub.Gen.tagTypeAmf0Data = tagTypeScript.toNat ∧ IpcHub.Gen.tagHeaderSize = 11 ∧
    IpcHub.Gen.frameTypeKeyFrame = frameTypeKey.toNat ∧ IpcHub.Gen.frameTypeInterFrame = frameTypeInter.toNat ∧
    IpcHub.Gen.codecIDAVC = codecAVC.toNat ∧ IpcHub.Gen.codecIDHEVC = codecHEVC.toNat ∧
    IpcHub.Gen.h2645PacketTypeSequenceHeader = pktSeqHeader.toNat ∧ IpcHub.Gen.h2645PacketTypeNALU = pktNalu.toNat ∧
    IpcHub.Gen.soundFormatAAC = soundFormatAAC.toNat ∧
    IpcHub.Gen.soundRate5512 = 0 ∧ IpcHub.Gen.soundRate11025 = 1 ∧ IpcHub.Gen.soundRate22050 = 2 ∧
    IpcHub.Gen.soundRate44100 = 3 ∧ IpcHub.Gen.soundSize8bit = 0 ∧ IpcHub.Gen.soundSize16bit = 1 ∧
    IpcHub.Gen.soundTypeMono = 0 ∧ IpcHub.Gen.soundTypeStereo = 1 ∧
    IpcHub.Gen.aacPacketTypeSequenceHeader = aacSeqHeader.toNat ∧ IpcHub.Gen.aacPacketTypeRawData = aacRaw.toNat ∧
    IpcHub.Gen.amfTypeNumber = 0 ∧ IpcHub.Gen.amfTypeBoolean = 1 ∧ IpcHub.Gen.amfTypeString = 2 ∧
    IpcHub.Gen.amfTypeEcmaArray = 8 ∧ IpcHub.Gen.amfTypeObjectEnd = 9 ∧ IpcHub.Gen.amfTypeLongString = 12 ∧
    IpcHub.Gen.h264NalIdrSlice = 5 ∧ IpcHub.Gen.hevcNalBlaWLp = 16 ∧ IpcHub.Gen.hevcNalCraNut = 21 ∧
    IpcHub.Gen.hevcNalVps = 32 ∧ IpcHub.Gen.hevcNalSps = 33 ∧ IpcHub.Gen.hevcNalPps = 34 ∧
    IpcHub.Gen.mediaTypeVideo = 0 ∧ IpcHub.Gen.mediaTypeAudio = 1 ∧
    IpcHub.Gen.strScriptOnMetaData = "onMetaData" ∧ IpcHub.Gen.strMetaDataAudioCodecID = "audiocodecid" ∧
    IpcHub.Gen.strMetaDataAudioDateRate = "audiodatarate" ∧ IpcHub.Gen.strMetaDataAudioSampleRate = "audiosamplerate" ∧
    IpcHub.Gen.strMetaDataAudioSampleSize = "audiosamplesize" ∧ IpcHub.Gen.strMetaDataStereo = "stereo" ∧
    IpcHub.Gen.strMetaDataCreationDate = "creationdate" ∧ IpcHub.Gen.strMetaDataFrameRate = "framerate" ∧
    IpcHub.Gen.strMetaDataHeight = "height" ∧ IpcHub.Gen.strMetaDataVideoCodecID = "videocodecid" ∧
    IpcHub.Gen.strMetaDataVideoDataRate = "videodatarate" ∧ IpcHub.Gen.strMetaDataWidth = "width" := by
  decide

/-- `NewWriter`, `Writer.WriteFlvTag` and `writeTag` as the model reads them: the stream-bit
    guard, template copy → header → PreviousTagSize0, the first-tag flag, the signed clamp of a
    tag older than the first, the PreviousTagSize argument, and the header layout statements. -/
theorem c08_source_writer :
    IpcHub.Gen.newWriterGuard = "if typeFlags&0x05 == 0 return nil, errors.New(\"TypeFlags not include any streams\")" ∧
    IpcHub.Gen.newWriterFlagsExpr = "typeFlags & (TypeFlagsVideo | TypeFlagsAudio)" ∧
    IpcHub.Gen.newWriterCalls = ["copy(flvHeader[:], flvHeaderTemplate[:])", "w.Write(flvHeader[:])", "writer.writeTagSize(0)"] ∧
    IpcHub.Gen.writerSentinelInit = false ∧ IpcHub.Gen.writerFirstGuard = "!w.started" ∧
    IpcHub.Gen.writerClampOlder = true ∧ IpcHub.Gen.writerClampGuard = "int32(tag.Timestamp-timestampDelta) < 0" ∧
    IpcHub.Gen.writerTagSizeArg = "uint32(tag.Size())" ∧
    IpcHub.Gen.writeFlvTagShape =
      ["if !w.started", "timestampDelta := w.timestampDelta", "if int32(tag.Timestamp-timestampDelta) < 0",
       "if err := writeTag(w.w, tag, timestampDelta); err != nil return err",
       "return w.writeTagSize(uint32(tag.Size()))"] ∧
    IpcHub.Gen.writeTagShape =
      ["var tagHeader [TagHeaderSize + 1]byte", "offset := 0",
       "binary.BigEndian.PutUint32(tagHeader[offset:], uint32(len(tag.Data)))",
       "tagHeader[offset] = ((tag.Filter & 0x1) << 5) | (tag.TagType & 0x1f)", "offset += 4",
       "timestamp := tag.Timestamp - timestampDelta",
       "binary.BigEndian.PutUint32(tagHeader[offset:], (timestamp<<8)|(timestamp>>24))", "offset += 4",
       "binary.BigEndian.PutUint32(tagHeader[offset:], tag.StreamID<<8)", "offset += 3",
       "if _, err := w.Write(tagHeader[:offset]); err != nil return err",
       "if _, err := w.Write(tag.Data); err != nil return err", "return nil"] := by
  decide

/-- The three packetizers as the model reads them: timestamps (`uint32(dts)` for video,
    `uint32(pts)` for AAC, 0 for sequence headers), the ns→ms divisions, the VideoData fields
    (composition time `uint32(pts - dts)`, body = the frame payload), the key-frame conditions,
    the configuration records built from the metadata's parameter sets, the AAC bodies. -/
theorem c08_source_packetizers :
    IpcHub.Gen.h264TagTimestamp = "uint32(dts)" ∧ IpcHub.Gen.h264TagType = "TagTypeVideo" ∧
    IpcHub.Gen.h264SeqTagTimestamp = "0" ∧ IpcHub.Gen.h264SeqTagType = "TagTypeVideo" ∧
    IpcHub.Gen.h264Dts = ["frame.Dts / int64(time.Millisecond)"] ∧ IpcHub.Gen.h264Pts = ["frame.Pts / int64(time.Millisecond)"] ∧
    IpcHub.Gen.h264VideoData = ["FrameType: FrameTypeInterFrame", "CodecID: CodecIDAVC",
      "H2645PacketType: H2645PacketTypeNALU", "CompositionTime: uint32(pts - dts)", "Body: frame.Payload"] ∧
    IpcHub.Gen.h264SeqVideoData = ["FrameType: FrameTypeKeyFrame", "CodecID: CodecIDAVC",
      "H2645PacketType: H2645PacketTypeSequenceHeader", "CompositionTime: 0", "Body: body"] ∧
    IpcHub.Gen.h264KeyCond = "frame.Payload[0]&0x1F == h264.NalIdrSlice" ∧
    IpcHub.Gen.h264Record = ["NewAVCDecoderConfigurationRecord(h264p.meta.Sps, h264p.meta.Pps)"] ∧
    IpcHub.Gen.h265TagTimestamp = "uint32(dts)" ∧ IpcHub.Gen.h265TagType = "TagTypeVideo" ∧
    IpcHub.Gen.h265SeqTagTimestamp = "0" ∧ IpcHub.Gen.h265SeqTagType = "TagTypeVideo" ∧
    IpcHub.Gen.h265Dts = ["frame.Dts / int64(time.Millisecond)"] ∧ IpcHub.Gen.h265Pts = ["frame.Pts / int64(time.Millisecond)"] ∧
    IpcHub.Gen.h265VideoData = ["FrameType: FrameTypeInterFrame", "CodecID: CodecIDHEVC",
      "H2645PacketType: H2645PacketTypeNALU", "CompositionTime: uint32(pts - dts)", "Body: frame.Payload"] ∧
    IpcHub.Gen.h265SeqVideoData = ["FrameType: FrameTypeKeyFrame", "CodecID: CodecIDHEVC",
      "H2645PacketType: H2645PacketTypeSequenceHeader", "CompositionTime: 0", "Body: body"] ∧
    IpcHub.Gen.h265KeyCond = "nalType >= hevc.NalBlaWLp && nalType <= hevc.NalCraNut" ∧
    IpcHub.Gen.h265NalType = ["(frame.Payload[0] >> 1) & 0x3f"] ∧
    IpcHub.Gen.h265Record = ["NewHEVCDecoderConfigurationRecord(h265p.meta.Vps, h265p.meta.Sps, h265p.meta.Pps)"] ∧
    IpcHub.Gen.aacTagTimestamp = "uint32(pts)" ∧ IpcHub.Gen.aacTagType = "TagTypeAudio" ∧
    IpcHub.Gen.aacSeqTagTimestamp = "0" ∧ IpcHub.Gen.aacSeqTagType = "TagTypeAudio" ∧
    IpcHub.Gen.aacPts = ["frame.Pts / int64(time.Millisecond)"] ∧
    IpcHub.Gen.aacSeqBody = ["ap.meta.Sps"] ∧ IpcHub.Gen.aacSeqPacketType = ["AACPacketTypeSequenceHeader"] ∧
    IpcHub.Gen.aacRawBody = ["frame.Payload"] ∧
    IpcHub.Gen.aacTemplate = ["SoundFormat: SoundFormatAAC", "AACPacketType: AACPacketTypeRawData"] := by
  decide

/-- `NewMuxer` / `Muxer.process` / `muxMetadataTag` as the model reads them: video flag always,
    audio flag and AAC packetizer iff the audio codec is AAC; the worker loop; the block run while
    no sequence header has been written — wait for usable parameter sets, then metadata → video
    configuration → audio configuration; the dispatch on the media type; the readiness test;
    the metadata properties in order. -/
theorem c08_source_muxer :
    IpcHub.Gen.newMuxerTypeFlags = "byte(TypeFlagsVideo)" ∧
    IpcHub.Gen.newMuxerAudio = ["if audioMeta.Codec == \"AAC\"", "muxer.typeFlags |= TypeFlagsAudio",
      "muxer.ap = NewAacPacketizer(audioMeta, tagWriter)"] ∧
    IpcHub.Gen.muxLoopCond = "!muxer.closed" ∧
    IpcHub.Gen.muxLoop = ["f := muxer.recvQueue.Pop()", "if f == nil", "if !packSequenceHeader",
      "frame := f.(*codec.Frame)", "switch frame.MediaType"] ∧
    IpcHub.Gen.muxGateParamSets = true ∧
    IpcHub.Gen.muxSeqBlock = ["if !muxer.videoMetaReady() continue", "muxer.muxMetadataTag()",
      "muxer.vp.PacketizeSequenceHeader()", "muxer.ap.PacketizeSequenceHeader()", "packSequenceHeader = true"] ∧
    IpcHub.Gen.muxSwitch = ["case codec.MediaTypeVideo: muxer.vp.Packetize(frame)",
      "case codec.MediaTypeAudio: muxer.ap.Packetize(frame)", "default: "] ∧
    IpcHub.Gen.videoMetaReadyShape = ["vm := muxer.videoMeta",
      "if vm.Codec == \"H265\" return len(vm.Vps) > 0 && len(vm.Sps) > 0 && len(vm.Pps) > 0",
      "return len(vm.Sps) >= 4 && len(vm.Pps) > 0"] ∧
    IpcHub.Gen.metadataPropsSrc = ["\"creator\"=\"ipchub stream media server\"",
      "MetaDataCreationDate=time.Now().Format(time.RFC3339)", "audio:MetaDataAudioCodecID=SoundFormatAAC",
      "audio:MetaDataAudioDateRate=muxer.audioMeta.DataRate", "audio:MetaDataAudioSampleRate=muxer.audioMeta.SampleRate",
      "audio:MetaDataAudioSampleSize=muxer.audioMeta.SampleSize", "audio:MetaDataStereo=muxer.audioMeta.Channels > 1",
      "MetaDataVideoCodecID=vcodecID", "MetaDataVideoDataRate=muxer.videoMeta.DataRate",
      "MetaDataFrameRate=muxer.videoMeta.FrameRate", "MetaDataWidth=muxer.videoMeta.Width",
      "MetaDataHeight=muxer.videoMeta.Height"] ∧
    IpcHub.Gen.metadataTag = ["TagType: TagTypeAmf0Data", "Timestamp: 0"] ∧
    IpcHub.Gen.metadataVCodec = ["CodecIDAVC", "CodecIDHEVC"] := by
  decide

/-- the model instantiated with the regenerated switches is the repaired behaviour -/
theorem c08_gen_cfg : genCfg = fixedCfg := by decide

/-! ## what one client receives (any tag sequence: joining at any tag) -/

/-- **Valid FLV, exact tag sizes, rebased timestamps — for every tag sequence.**
    For all type flags with a stream bit and every sequence `src` of tags handed to one client's
    writer (types 8/9/18, bodies below 2^24 bytes, source times within the signed 32-bit window
    of FLV timestamps around the first tag's time — no bound on the number of tags, the times
    themselves are unbounded integers of which the implementation keeps the low 32 bits):
    the bytes of `NewWriter` + one `WriteFlvTag` per tag parse with the independent FLV reader —
    signature, version 1, the announced stream flags, DataOffset 9, PreviousTagSize0 = 0, every
    tag followed by 11 + DataSize — into exactly the tags of `src` (type, body, stream id 0, no
    filter), the first with timestamp 0, each later one with `time − time(first)`, and 0 for a
    tag older than the first (`Spec.rebased`), never a wrapped value. -/
theorem c08_client_stream (flags : UInt8) (hf : flags &&& 0x05 ≠ 0) (src : List SrcTag)
    (h : ∀ s0 ∈ src.head?, ∀ s ∈ src, SrcTag.ok s0.time s) :
    ∃ bs, clientBytes genCfg flags (src.map toTag) = some bs ∧ checkClient flags src bs = true := by
  rw [c08_gen_cfg]
  exact checkClient_clientBytes fixedCfg ⟨rfl, rfl⟩ flags hf src h

/-- non-vacuity: a client joining at a key frame (time 11891 ms) that is then handed an audio tag
    from 62 ms earlier and later tags across the 2^32 ms boundary meets the hypotheses -/
example : ∀ s ∈ ([⟨18, 4294967000, [2]⟩, ⟨9, 4294967000, [0x17, 1]⟩, ⟨8, 4294966938, [0xaf, 1]⟩,
    ⟨9, 4294967400, [0x27, 1]⟩] : List SrcTag), SrcTag.ok 4294967000 s := by decide

/-- `NewWriter` rejects type flags without a stream bit (nothing to announce) -/
theorem c08_no_stream_bit (flags : UInt8) (hf : flags &&& 0x05 = 0) (tags : List Tag) :
    clientBytes genCfg flags tags = none := by
  simp [clientBytes, newWriter, hf]

/-- **The rebase never wraps**, stated on the timestamp alone: after a first tag with source
    time `t0`, the timestamp written for a tag with source time `t` (|t − t0| < 2^31) is
    `t − t0` when `t ≥ t0` and 0 when it is older. -/
theorem c08_rebase_never_wraps (t0 : Int) (s : SrcTag)
    (h1 : -2147483648 ≤ s.time - t0) (h2 : s.time - t0 < 2147483648) :
    ((toTag s).timestamp - (Writer.rebase genCfg { delta := u32OfInt t0, started := true } (toTag s))).toNat
      = (if s.time < t0 then 0 else (s.time - t0).toNat) := by
  rw [c08_gen_cfg]
  exact rebase_fixed fixedCfg ⟨rfl, rfl⟩ t0 s h1 h2

/-- The pinned tree violated this (kept as a theorem about the model with the old switches, and as
    corpus/C08/rebase-older-than-first.case): first tag at 10000 ms, the next at 9900 ms was
    written with timestamp bytes `ff ff 9c` + extension `ff` = 4294967196 ms. -/
theorem c08_wrap_witness :
    let src : List SrcTag := [⟨9, 10000, [0x17, 1]⟩, ⟨8, 9900, [0xaf, 1]⟩]
    (∃ bs, clientBytes pinnedCfg 5 (src.map toTag) = some bs ∧ checkClient 5 src bs = false ∧
      (parseFlv bs).map (fun r => r.2.map (·.timestamp)) = some [0, 4294967196]) ∧
    (∃ bs, clientBytes fixedCfg 5 (src.map toTag) = some bs ∧ checkClient 5 src bs = true ∧
      (parseFlv bs).map (fun r => r.2.map (·.timestamp)) = some [0, 0]) := by
  decide

/-- The pinned tree's other rebase defect (corpus/C08/first-tag-sentinel.case): a first tag whose
    32-bit timestamp is 0xffffffff looked like "no tag written yet", so the second tag, 3 ms
    later, re-initialised the rebase and was written with timestamp 0 instead of 3. -/
theorem c08_sentinel_witness :
    let src : List SrcTag := [⟨9, 4294967295, []⟩, ⟨18, 4294967298, [0xf4]⟩]
    (∃ bs, clientBytes { fixedCfg with sentinelInit := true } 4 (src.map toTag) = some bs ∧
      checkClient 4 src bs = false ∧ (parseFlv bs).map (fun r => r.2.map (·.timestamp)) = some [0, 0]) ∧
    (∃ bs, clientBytes fixedCfg 4 (src.map toTag) = some bs ∧ checkClient 4 src bs = true ∧
      (parseFlv bs).map (fun r => r.2.map (·.timestamp)) = some [0, 3]) := by
  decide

end IpcHub.Props.C08
