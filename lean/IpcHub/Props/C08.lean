/-
C08 — FLV output is valid FLV and carries the source frames faithfully.
Property theorems only; models in Model/Flv*.lean, the independent FLV/AMF0/AVCC/HVCC readers and
the statement of the property over parsed FLV in Spec/FlvParse.lean, helper lemmas in
Lemmas/Flv*.lean.
-/
import IpcHub.Lemmas.FlvMux
import IpcHub.Model.FlvInst
import IpcHub.Lemmas.FlvTimeline
import IpcHub.Lemmas.FlvJoin
namespace IpcHub.Props.C08
open IpcHub.Flv IpcHub.FlvSpec IpcHub.FlvLemmas

/-! ## the source facts the theorems rest on (regenerated from /repo on every run) -/

/-- The constants of the FLV/AMF0 writers are those of the format documents and of the model
    (tag types 8/9/18, AVC = 7, HEVC = 12, key/inter frame 1/2, packet types 0/1, AAC = 10,
    sound rate/size/type codes, AMF0 markers, the 9-byte header template, NAL unit types, media
    types, metadata property names). -/
theorem c08_source_constants :
    IpcHub.Gen.flvFactsUnknown = [] ∧
    IpcHub.Gen.flvHeaderTemplate = [0x46, 0x4c, 0x56, 1, 0, 0, 0, 0, 9] ∧
    IpcHub.Gen.flvHeaderSize = 9 ∧ IpcHub.Gen.typeFlagsOffset = 4 ∧
    IpcHub.Gen.typeFlagsVideo = typeFlagsVideo.toNat ∧ IpcHub.Gen.typeFlagsAudio = typeFlagsAudio.toNat ∧
    IpcHub.Gen.tagTypeAudio = tagTypeAudio.toNat ∧ IpcHub.Gen.tagTypeVideo = tagTypeVideo.toNat ∧
    IpcHub.Gen.tagTypeAmf0Data = tagTypeScript.toNat ∧ IpcHub.Gen.tagHeaderSize = 11 ∧
    IpcHub.Gen.frameTypeKeyFrame = frameTypeKey.toNat ∧ IpcHub.Gen.frameTypeInterFrame = frameTypeInter.toNat ∧
    IpcHub.Gen.codecIDAVC = codecAVC.toNat ∧ IpcHub.Gen.codecIDHEVC = codecHEVC.toNat ∧
    IpcHub.Gen.h2645PacketTypeSequenceHeader = pktSeqHeader.toNat ∧ IpcHub.Gen.h2645PacketTypeNALU = pktNalu.toNat ∧
    IpcHub.Gen.soundFormatAAC = soundFormatAAC.toNat ∧
    IpcHub.Gen.soundRate5512 = 0 ∧ IpcHub.Gen.soundRate11025 = 1 ∧ IpcHub.Gen.soundRate22050 = 2 ∧
    IpcHub.Gen.soundRate44100 = 3 ∧ IpcHub.Gen.soundSize8bit = 0 ∧ IpcHub.Gen.soundSize16bit = 1 ∧
    IpcHub.Gen.soundTypeMono = 0 ∧ IpcHub.Gen.soundTypeStereo = 1 ∧
    IpcHub.Gen.aacPacketTypeSequenceHeader = aacSeqHeader.toNat ∧ IpcHub.Gen.aacPacketTypeRawData = aacRaw.toNat ∧
    IpcHub.Gen.amfTypeNumber = 0 ∧ IpcHub.Gen.amfTypeBoolean = 1 ∧ IpcHub.Gen.amfTypeString = 2 ∧
    IpcHub.Gen.amfTypeEcmaArray = 8 ∧ IpcHub.Gen.amfTypeObjectEnd = 9 ∧ IpcHub.Gen.amfTypeLongString = 12 ∧
    IpcHub.Gen.h264NalIdrSlice = 5 ∧ IpcHub.Gen.hevcNalBlaWLp = 16 ∧ IpcHub.Gen.hevcNalCraNut = 21 ∧
    IpcHub.Gen.hevcNalVps = 32 ∧ IpcHub.Gen.hevcNalSps = 33 ∧ IpcHub.Gen.hevcNalPps = 34 ∧
    IpcHub.Gen.mediaTypeVideo = 0 ∧ IpcHub.Gen.mediaTypeAudio = 1 ∧
    IpcHub.Gen.strScriptOnMetaData = "onMetaData" ∧ IpcHub.Gen.strMetaDataAudioCodecID = "audiocodecid" ∧
    IpcHub.Gen.strMetaDataAudioDateRate = "audiodatarate" ∧ IpcHub.Gen.strMetaDataAudioSampleRate = "audiosamplerate" ∧
    IpcHub.Gen.strMetaDataAudioSampleSize = "audiosamplesize" ∧ IpcHub.Gen.strMetaDataStereo = "stereo" ∧
    IpcHub.Gen.strMetaDataCreationDate = "creationdate" ∧ IpcHub.Gen.strMetaDataFrameRate = "framerate" ∧
    IpcHub.Gen.strMetaDataHeight = "height" ∧ IpcHub.Gen.strMetaDataVideoCodecID = "videocodecid" ∧
    IpcHub.Gen.strMetaDataVideoDataRate = "videodatarate" ∧ IpcHub.Gen.strMetaDataWidth = "width" := by
  decide

/-- `NewWriter`, `Writer.WriteFlvTag` and `writeTag` as the model reads them: the stream-bit
    guard, template copy → header → PreviousTagSize0, the first-tag flag, the signed clamp of a
    tag older than the first, the PreviousTagSize argument, and the header layout statements. -/
theorem c08_source_writer :
    IpcHub.Gen.newWriterGuard = "if typeFlags&0x05 == 0 return nil, errors.New(\"TypeFlags not include any streams\")" ∧
    IpcHub.Gen.newWriterFlagsExpr = "typeFlags & (TypeFlagsVideo | TypeFlagsAudio)" ∧
    IpcHub.Gen.newWriterCalls = ["copy(flvHeader[:], flvHeaderTemplate[:])", "w.Write(flvHeader[:])", "writer.writeTagSize(0)"] ∧
    IpcHub.Gen.writerSentinelInit = false ∧ IpcHub.Gen.writerFirstGuard = "!w.started" ∧
    IpcHub.Gen.writerClampOlder = true ∧ IpcHub.Gen.writerClampGuard = "int32(tag.Timestamp-timestampDelta) < 0" ∧
    IpcHub.Gen.writerTagSizeArg = "uint32(tag.Size())" ∧
    IpcHub.Gen.writeFlvTagShape =
      ["if !w.started", "timestampDelta := w.timestampDelta", "if int32(tag.Timestamp-timestampDelta) < 0",
       "if err := writeTag(w.w, tag, timestampDelta); err != nil return err",
       "return w.writeTagSize(uint32(tag.Size()))"] ∧
    IpcHub.Gen.writeTagShape =
      ["var tagHeader [TagHeaderSize + 1]byte", "offset := 0",
       "binary.BigEndian.PutUint32(tagHeader[offset:], uint32(len(tag.Data)))",
       "tagHeader[offset] = ((tag.Filter & 0x1) << 5) | (tag.TagType & 0x1f)", "offset += 4",
       "timestamp := tag.Timestamp - timestampDelta",
       "binary.BigEndian.PutUint32(tagHeader[offset:], (timestamp<<8)|(timestamp>>24))", "offset += 4",
       "binary.BigEndian.PutUint32(tagHeader[offset:], tag.StreamID<<8)", "offset += 3",
       "if _, err := w.Write(tagHeader[:offset]); err != nil return err",
       "if _, err := w.Write(tag.Data); err != nil return err", "return nil"] := by
  decide

/-- The three packetizers as the model reads them: timestamps (`uint32(dts)` for video,
    `uint32(pts)` for AAC, 0 for sequence headers), the ns→ms divisions, the VideoData fields
    (composition time `uint32(pts - dts)`, body = the frame payload), the key-frame conditions,
    the configuration records built from the metadata's parameter sets, the AAC bodies. -/
theorem c08_source_packetizers :
    IpcHub.Gen.h264TagTimestamp = "uint32(dts)" ∧ IpcHub.Gen.h264TagType = "TagTypeVideo" ∧
    IpcHub.Gen.h264SeqTagTimestamp = "0" ∧ IpcHub.Gen.h264SeqTagType = "TagTypeVideo" ∧
    IpcHub.Gen.h264Dts = ["frame.Dts / int64(time.Millisecond)"] ∧ IpcHub.Gen.h264Pts = ["frame.Pts / int64(time.Millisecond)"] ∧
    IpcHub.Gen.h264VideoData = ["FrameType: FrameTypeInterFrame", "CodecID: CodecIDAVC",
      "H2645PacketType: H2645PacketTypeNALU", "CompositionTime: uint32(pts - dts)", "Body: frame.Payload"] ∧
    IpcHub.Gen.h264SeqVideoData = ["FrameType: FrameTypeKeyFrame", "CodecID: CodecIDAVC",
      "H2645PacketType: H2645PacketTypeSequenceHeader", "CompositionTime: 0", "Body: body"] ∧
    IpcHub.Gen.h264KeyCond = "frame.Payload[0]&0x1F == h264.NalIdrSlice" ∧
    IpcHub.Gen.h264Record = ["NewAVCDecoderConfigurationRecord(h264p.meta.Sps, h264p.meta.Pps)"] ∧
    IpcHub.Gen.h265TagTimestamp = "uint32(dts)" ∧ IpcHub.Gen.h265TagType = "TagTypeVideo" ∧
    IpcHub.Gen.h265SeqTagTimestamp = "0" ∧ IpcHub.Gen.h265SeqTagType = "TagTypeVideo" ∧
    IpcHub.Gen.h265Dts = ["frame.Dts / int64(time.Millisecond)"] ∧ IpcHub.Gen.h265Pts = ["frame.Pts / int64(time.Millisecond)"] ∧
    IpcHub.Gen.h265VideoData = ["FrameType: FrameTypeInterFrame", "CodecID: CodecIDHEVC",
      "H2645PacketType: H2645PacketTypeNALU", "CompositionTime: uint32(pts - dts)", "Body: frame.Payload"] ∧
    IpcHub.Gen.h265SeqVideoData = ["FrameType: FrameTypeKeyFrame", "CodecID: CodecIDHEVC",
      "H2645PacketType: H2645PacketTypeSequenceHeader", "CompositionTime: 0", "Body: body"] ∧
    IpcHub.Gen.h265KeyCond = "nalType >= hevc.NalBlaWLp && nalType <= hevc.NalCraNut" ∧
    IpcHub.Gen.h265NalType = ["(frame.Payload[0] >> 1) & 0x3f"] ∧
    IpcHub.Gen.h265Record = ["NewHEVCDecoderConfigurationRecord(h265p.meta.Vps, h265p.meta.Sps, h265p.meta.Pps)"] ∧
    IpcHub.Gen.aacTagTimestamp = "uint32(pts)" ∧ IpcHub.Gen.aacTagType = "TagTypeAudio" ∧
    IpcHub.Gen.aacSeqTagTimestamp = "0" ∧ IpcHub.Gen.aacSeqTagType = "TagTypeAudio" ∧
    IpcHub.Gen.aacPts = ["frame.Pts / int64(time.Millisecond)"] ∧
    IpcHub.Gen.aacSeqBody = ["ap.meta.Sps"] ∧ IpcHub.Gen.aacSeqPacketType = ["AACPacketTypeSequenceHeader"] ∧
    IpcHub.Gen.aacRawBody = ["frame.Payload"] ∧
    IpcHub.Gen.aacTemplate = ["SoundFormat: SoundFormatAAC", "AACPacketType: AACPacketTypeRawData"] := by
  decide

/-- `NewMuxer` / `Muxer.process` / `muxMetadataTag` as the model reads them: video flag always,
    audio flag and AAC packetizer iff the audio codec is AAC; the worker loop; the block run while
    no sequence header has been written — wait for usable parameter sets, then metadata → video
    configuration → audio configuration; the dispatch on the media type; the readiness test (parameter sets present and the SPS
    validated: width known or decodable);
    the metadata properties in order. -/
theorem c08_source_muxer :
    IpcHub.Gen.newMuxerTypeFlags = "byte(TypeFlagsVideo)" ∧
    IpcHub.Gen.newMuxerAudio = ["if audioMeta.Codec == \"AAC\"", "muxer.typeFlags |= TypeFlagsAudio",
      "muxer.ap = NewAacPacketizer(audioMeta, tagWriter)"] ∧
    IpcHub.Gen.muxLoopCond = "!muxer.closed" ∧
    IpcHub.Gen.muxLoop = ["f := muxer.recvQueue.Pop()", "if f == nil", "if !packSequenceHeader",
      "frame := f.(*codec.Frame)", "switch frame.MediaType"] ∧
    IpcHub.Gen.muxGateParamSets = true ∧
    IpcHub.Gen.muxSeqBlock = ["if !muxer.videoMetaReady() continue", "muxer.muxMetadataTag()",
      "muxer.vp.PacketizeSequenceHeader()", "muxer.ap.PacketizeSequenceHeader()", "packSequenceHeader = true"] ∧
    IpcHub.Gen.muxSwitch = ["case codec.MediaTypeVideo: muxer.vp.Packetize(frame)",
      "case codec.MediaTypeAudio: muxer.ap.Packetize(frame)", "default: "] ∧
    IpcHub.Gen.videoMetaReadyShape = ["vm := muxer.videoMeta", "if vm.Codec == \"H265\"",
      "if len(vm.Sps) < 4 || len(vm.Pps) == 0 return false", "if vm.Width != 0 return true",
      "var sps h264.RawSPS", "return sps.Decode(vm.Sps) == nil"] ∧
    IpcHub.Gen.videoMetaReadyHevc = ["if len(vm.Vps) == 0 || len(vm.Sps) == 0 || len(vm.Pps) == 0 return false",
      "if vm.Width != 0 return true", "var sps hevc.H265RawSPS", "return sps.Decode(vm.Sps) == nil"] ∧
    IpcHub.Gen.metadataPropsSrc = ["\"creator\"=\"ipchub stream media server\"",
      "MetaDataCreationDate=time.Now().Format(time.RFC3339)", "audio:MetaDataAudioCodecID=SoundFormatAAC",
      "audio:MetaDataAudioDateRate=muxer.audioMeta.DataRate", "audio:MetaDataAudioSampleRate=muxer.audioMeta.SampleRate",
      "audio:MetaDataAudioSampleSize=muxer.audioMeta.SampleSize", "audio:MetaDataStereo=muxer.audioMeta.Channels > 1",
      "MetaDataVideoCodecID=vcodecID", "MetaDataVideoDataRate=muxer.videoMeta.DataRate",
      "MetaDataFrameRate=muxer.videoMeta.FrameRate", "MetaDataWidth=muxer.videoMeta.Width",
      "MetaDataHeight=muxer.videoMeta.Height"] ∧
    IpcHub.Gen.metadataTag = ["TagType: TagTypeAmf0Data", "Timestamp: 0"] ∧
    IpcHub.Gen.metadataVCodec = ["CodecIDAVC", "CodecIDHEVC"] := by
  decide

/-- The two client ends (HTTP-FLV, WebSocket-FLV) are the writer the theorems are about: the type
    flags are the muxer's (`Stream.FlvTypeFlags`), the header is written by `flv.NewWriter` on the
    client connection before the consumer is registered for FLV packets, and every packet handed to
    `Consume` goes through that writer's `WriteFlvTag`. -/
theorem c08_source_services :
    IpcHub.Gen.httpTypeFlags = ["stream.FlvTypeFlags()"] ∧ IpcHub.Gen.httpNewWriter = "flv.NewWriter(w, typeFlags)" ∧
    IpcHub.Gen.httpStartConsume = "stream.StartConsume(c, media.FLVPacket, ...)" ∧
    IpcHub.Gen.httpConsumeWrite = "c.w.WriteFlvTag(pack.(*flv.Tag))" ∧
    IpcHub.Gen.wsTypeFlags = ["stream.FlvTypeFlags()"] ∧ IpcHub.Gen.wsNewWriter = "flv.NewWriter(conn, typeFlags)" ∧
    IpcHub.Gen.wsStartConsume = "stream.StartConsume(c, media.FLVPacket, ...)" ∧
    IpcHub.Gen.wsConsumeWrite = "c.w.WriteFlvTag(pack.(*flv.Tag))" := by
  decide

/-- The marshalling code, statement by statement, as the model reads it (`Model/Flv.lean`:
    `videoDataBytes`, `audioDataBytes`, `scriptDataBytes`, `avcRecord`, `hevcInit`/`applyPLT`/
    `hevcRecordBytes`, the `amf` writers, `Tag.Size`): VIDEODATA = frame type and codec nibbles,
    packet type and the 24 low bits of the composition time, a 4-byte length in front of a NAL
    unit; AUDIODATA = format/rate/size/type bits and the AAC packet type; the AVC record =
    version 1, profile/compatibility/level from `sps[1..3]`, `0xff`, `0xe1`, 16-bit lengths; the
    HEVC record = the 23 fixed bytes from the decoded VPS/SPS and three arrays of one NAL unit
    each; AMF0 = marker byte + big-endian payloads.  A source change in any of these functions
    breaks this theorem; the correspondence run then says whether behaviour changed. -/
theorem c08_source_marshal :
    IpcHub.Gen.marshalVideoData = ["buff := make([]byte, videoData.MarshalSize())", "offset := 0",
      "buff[offset] = (videoData.FrameType << 4) | (videoData.CodecID & 0x0f)", "offset++",
      "if videoData.CodecID == CodecIDAVC || videoData.CodecID == CodecIDHEVC",
      "binary.BigEndian.PutUint32(buff[offset:], (uint32(videoData.H2645PacketType)<<24)|(videoData.CompositionTime&0x00ffffff))",
      "offset += 4", "if videoData.H2645PacketType == H2645PacketTypeNALU",
      "binary.BigEndian.PutUint32(buff[offset:], uint32(len(videoData.Body)))", "offset += 4",
      "offset += copy(buff[offset:], videoData.Body)", "return buff[:offset], nil"] ∧
    IpcHub.Gen.marshalVideoDataSize = ["if videoData.H2645PacketType == H2645PacketTypeNALU", "return 9 + len(videoData.Body)",
      "return 5 + len(videoData.Body)"] ∧
    IpcHub.Gen.marshalAudioData = ["buff := make([]byte, audioData.MarshalSize())", "offset := 0",
      "buff[offset] = (audioData.SoundFormat << 4) | ((audioData.SoundRate & 0x03) << 2) | ((audioData.SoundSize & 0x01) << 1) | (audioData.SoundType & 0x01)",
      "offset++", "if audioData.SoundFormat == SoundFormatAAC", "buff[offset] = audioData.AACPacketType",
      "offset++", "offset += copy(buff[offset:], audioData.Body)", "return buff[:offset], nil"] ∧
    IpcHub.Gen.marshalAudioDataSize = ["return 2 + len(audioData.Body)"] ∧
    IpcHub.Gen.marshalScriptData = ["buff := bytes.NewBuffer(make([]byte, 0, 1024))",
      "if err := amf.WriteString(buff, scriptData.Name); err != nil", "return nil, err",
      "if err := amf.WriteAny(buff, scriptData.Value); err != nil", "return nil, err",
      "return buff.Bytes(), nil"] := by
  set_option maxRecDepth 100000 in decide

/-- … the AVC decoder configuration record (see `c08_source_marshal`) -/
theorem c08_source_marshal_avc :
    IpcHub.Gen.newAvcRecord = ["return &AVCDecoderConfigurationRecord{ ConfigurationVersion: 1, AVCProfileIndication: sps[1], ProfileCompatibility: sps[2], AVCLevelIndication: sps[3], SPS: sps, PPS: pps, }"] ∧
    IpcHub.Gen.marshalAvcRecord = ["buff := make([]byte, record.MarshalSize())", "offset := 0",
      "buff[offset] = record.ConfigurationVersion", "offset++", "buff[offset] = record.AVCProfileIndication",
      "offset++", "buff[offset] = record.ProfileCompatibility", "offset++",
      "buff[offset] = record.AVCLevelIndication", "offset++", "buff[offset] = 0xff", "offset++",
      "buff[offset] = 0xe1", "offset++", "binary.BigEndian.PutUint16(buff[offset:], uint16(len(record.SPS)))",
      "offset += 2", "offset += copy(buff[offset:], record.SPS)", "buff[offset] = 0x01", "offset++",
      "binary.BigEndian.PutUint16(buff[offset:], uint16(len(record.PPS)))", "offset += 2",
      "offset += copy(buff[offset:], record.PPS)", "return buff, nil"] ∧
    IpcHub.Gen.marshalAvcRecordSize = ["return 4 + 2 + 2 + len(record.SPS) + 1 + 2 + len(record.PPS)"] := by
  set_option maxRecDepth 100000 in decide

/-- … the HEVC decoder configuration record: constructor, `init`, `applyPLT`, `Marshal` (see `c08_source_marshal`) -/
theorem c08_source_marshal_hevc :
    IpcHub.Gen.newHevcRecord = ["record := &HEVCDecoderConfigurationRecord{ ConfigurationVersion: 1, LengthSizeMinusOne: 3, GeneralProfileCompatibilityFlags: 0xffffffff, GeneralConstraintIndicatorFlags: 0xffffffffffff, VPS: vps, SPS: sps, PPS: pps, }",
      "record.init()", "return record"] ∧
    IpcHub.Gen.hevcRecordInit = ["var rawVps hevc.H265RawVPS", "if err := rawVps.Decode(record.VPS); err != nil", "return err",
      "if rawVps.Vps_max_sub_layers_minus1+1 > record.MaxSubLayers",
      "record.MaxSubLayers = rawVps.Vps_max_sub_layers_minus1 + 1",
      "record.applyPLT(&rawVps.Profile_tier_level)", "var rawSps hevc.H265RawSPS",
      "if err := rawSps.Decode(record.SPS); err != nil", "return err",
      "if rawSps.Sps_max_sub_layers_minus1+1 > record.MaxSubLayers",
      "record.MaxSubLayers = rawSps.Sps_max_sub_layers_minus1 + 1",
      "record.TemporalIdNestingFlag = rawSps.Sps_temporal_id_nesting_flag",
      "record.applyPLT(&rawSps.Profile_tier_level)", "record.ChromaFormatIDC = rawSps.Chroma_format_idc",
      "record.BitDepthLumaMinus8 = rawSps.Bit_depth_luma_minus8",
      "record.BitDepthChromaMinus8 = rawSps.Bit_depth_chroma_minus8", "return nil"] ∧
    IpcHub.Gen.hevcRecordApplyPLT = ["record.GeneralProfileSpace = ptl.General_profile_space",
      "if ptl.General_tier_flag > record.GeneralTierFlag", "record.GeneralLevelIDC = ptl.General_level_idc",
      "record.GeneralTierFlag = ptl.General_tier_flag", "if ptl.General_level_idc > record.GeneralLevelIDC",
      "record.GeneralLevelIDC = ptl.General_level_idc",
      "if ptl.General_profile_idc > record.GeneralProfileIDC",
      "record.GeneralProfileIDC = ptl.General_profile_idc",
      "record.GeneralProfileCompatibilityFlags &= ptl.GeneralProfileCompatibilityFlags",
      "record.GeneralConstraintIndicatorFlags &= ptl.GeneralConstraintIndicatorFlags"] ∧
    IpcHub.Gen.marshalHevcRecord = ["buff := make([]byte, record.MarshalSize())", "offset := 0", "buff[offset] = 0x1", "offset++",
      "buff[offset] = record.GeneralProfileSpace<<6 | record.GeneralTierFlag<<5 | record.GeneralProfileIDC",
      "offset++", "binary.BigEndian.PutUint32(buff[offset:], record.GeneralProfileCompatibilityFlags)",
      "offset += 4",
      "binary.BigEndian.PutUint32(buff[offset:], uint32(record.GeneralConstraintIndicatorFlags>>16))",
      "offset += 4",
      "binary.BigEndian.PutUint16(buff[offset:], uint16(record.GeneralConstraintIndicatorFlags))",
      "offset += 2", "buff[offset] = record.GeneralLevelIDC", "offset++",
      "binary.BigEndian.PutUint16(buff[offset:], 0xf000)", "offset += 2", "buff[offset] = 0xfc", "offset++",
      "buff[offset] = record.ChromaFormatIDC | 0xfc", "offset++",
      "buff[offset] = record.BitDepthLumaMinus8 | 0xf8", "offset++",
      "buff[offset] = record.BitDepthChromaMinus8 | 0xf8", "offset++",
      "binary.BigEndian.PutUint16(buff[offset:], 0)", "offset += 2",
      "buff[offset] = 0<<6 | record.MaxSubLayers<<3 | record.TemporalIdNestingFlag<<2 | record.LengthSizeMinusOne",
      "offset++", "buff[offset] = 0x03", "offset++",
      "pset := []struct { nalType uint8 data []byte }{ {hevc.NalVps, record.VPS}, {hevc.NalSps, record.SPS}, {hevc.NalPps, record.PPS}, }",
      "for range pset", "buff[offset] = ps.nalType", "offset++",
      "binary.BigEndian.PutUint16(buff[offset:], 1)", "offset += 2",
      "binary.BigEndian.PutUint16(buff[offset:], uint16(len(ps.data)))", "offset += 2",
      "copy(buff[offset:], ps.data)", "offset += len(ps.data)", "return buff, nil"] ∧
    IpcHub.Gen.marshalHevcRecordSize = ["return 23 + 5 + len(record.VPS) + 5 + len(record.SPS) + 5 + len(record.PPS)"] := by
  set_option maxRecDepth 100000 in decide

/-- … the AMF0 writers and `Tag.Size` (see `c08_source_marshal`) -/
theorem c08_source_marshal_amf :
    IpcHub.Gen.amfWriteAny = ["if any == nil", "err = writeType(w, TypeNull)", "return", "switch v := any.(type)", "v := any.(type)",
      "case *string", "if len(*v) > 65535", "err = WriteLongString(w, *v)", "err = WriteString(w, *v)",
      "case string", "if len(v) > 65535", "err = WriteLongString(w, v)", "err = WriteString(w, v)",
      "case *bool", "err = WriteBool(w, *v)", "case bool", "err = WriteBool(w, v)", "case *int",
      "err = WriteNumber(w, float64(*v))", "case int", "err = WriteNumber(w, float64(v))", "case *int8",
      "err = WriteNumber(w, float64(*v))", "case int8", "err = WriteNumber(w, float64(v))", "case *int16",
      "err = WriteNumber(w, float64(*v))", "case int16", "err = WriteNumber(w, float64(v))", "case *int32",
      "err = WriteNumber(w, float64(*v))", "case int32", "err = WriteNumber(w, float64(v))", "case *int64",
      "err = WriteNumber(w, float64(*v))", "case int64", "err = WriteNumber(w, float64(v))", "case *uint",
      "err = WriteNumber(w, float64(*v))", "case uint", "err = WriteNumber(w, float64(v))", "case *uint8",
      "err = WriteNumber(w, float64(*v))", "case uint8", "err = WriteNumber(w, float64(v))", "case *uint16",
      "err = WriteNumber(w, float64(*v))", "case uint16", "err = WriteNumber(w, float64(v))", "case *uint32",
      "err = WriteNumber(w, float64(*v))", "case uint32", "err = WriteNumber(w, float64(v))", "case *uint64",
      "err = WriteNumber(w, float64(*v))", "case uint64", "err = WriteNumber(w, float64(v))", "case *float32",
      "err = WriteNumber(w, float64(*v))", "case float32", "err = WriteNumber(w, float64(v))",
      "case *float64", "err = WriteNumber(w, *v)", "case float64", "err = WriteNumber(w, v)",
      "case *time.Time", "err = WriteDate(w, *v)", "case time.Time", "err = WriteDate(w, v)",
      "case *UndefinedValue", "err = writeType(w, TypeUndefined)", "case UndefinedValue",
      "err = writeType(w, TypeUndefined)", "case *EcmaArray", "err = WriteEcmaArray(w, *v)", "case EcmaArray",
      "err = WriteEcmaArray(w, v)", "case *Object", "err = WriteObject(w, *v)", "case Object",
      "err = WriteObject(w, v)", "case *StrictArray", "err = WriteStrictArray(w, *v)", "case StrictArray",
      "err = WriteStrictArray(w, v)", "default",
      "err = fmt.Errorf(\"Unsupported type : %v\", reflect.TypeOf(v))", "return"] ∧
    IpcHub.Gen.amfWriteEcmaArray = ["var buff [5]byte", "buff[0] = TypeEcmaArray",
      "binary.BigEndian.PutUint32(buff[1:], uint32(len(arr)))", "if _, err = w.Write(buff[:]); err != nil",
      "return", "for range arr", "if err = writeUtf8(w, elem.Name, 2); err != nil", "return",
      "if err = WriteAny(w, elem.Value); err != nil", "return",
      "if _, err = w.Write([]byte{0x00, 0x00, TypeObjectEnd}); err != nil", "return", "return"] ∧
    IpcHub.Gen.amfWriteBool = ["var buff [2]byte", "buff[0] = TypeBoolean", "if value", "buff[1] = 1", "buff[1] = 0",
      "_, err = w.Write(buff[:])", "return"] ∧
    IpcHub.Gen.amfWriteNumber = ["var buff [9]byte", "buff[0] = TypeNumber", "v2 := math.Float64bits(value)",
      "binary.BigEndian.PutUint64(buff[1:], v2)", "_, err = w.Write(buff[:])", "return"] ∧
    IpcHub.Gen.amfWriteString = ["var buff [1]byte", "buff[0] = TypeString", "if _, err = w.Write(buff[:]); err != nil", "return",
      "return writeUtf8(w, value, 2)"] ∧
    IpcHub.Gen.amfWriteLongString = ["var buff [1]byte", "buff[0] = TypeLongString", "if _, err = w.Write(buff[:]); err != nil", "return",
      "return writeUtf8(w, value, 4)"] ∧
    IpcHub.Gen.amfWriteType = ["var buff [1]byte", "buff[0] = typ", "_, err = w.Write(buff[:])", "return"] ∧
    IpcHub.Gen.amfWriteUtf8 = ["var buff [4]byte", "binary.BigEndian.PutUint32(buff[:], uint32(len(value)))",
      "if _, err = w.Write(buff[4-lenSize:]); err != nil", "return", "if ws, ok := w.(io.StringWriter); ok",
      "_, err = ws.WriteString(value)", "else", "_, err = w.Write([]byte(value))", "return"] ∧
    IpcHub.Gen.tagSize = ["return TagHeaderSize + len(tag.Data)"] := by
  set_option maxRecDepth 100000 in decide

/-- `media/cache.FlvCache` as the joiner model (`Model/FlvJoin.lean` over `Model/FlvCacheM.lean`)
    reads it: `CachePack` records the timestamp of every media tag (after the three header
    cases, before the GOP logic); `PushTo` starts the replay's time stamp from it and takes the
    first cached GOP tag's instead when there is one; each cached header is COPIED, the copy is
    stamped and queued (the cached tag — shared with every client that still has it queued —
    is never written to). -/
theorem c08_source_cache :
    IpcHub.Gen.cacheStampNow = true ∧
    IpcHub.Gen.flvCacheInitDefs = ["cache.lastTimestamp", "tag.Timestamp"] ∧
    IpcHub.Gen.flvCacheLastDefs = ["tag.Timestamp"] ∧
    IpcHub.Gen.flvCachePackShape = ["tag := pack.(*flv.Tag)", "cache.l.Lock()", "defer", "if tag.IsMetadata()",
      "if tag.IsH2645SequenceHeader()", "if tag.IsAACSequenceHeader()", "cache.lastTimestamp = tag.Timestamp",
      "keyframe := tag.IsH2645KeyFrame()", "if cache.cacheGop", "return keyframe"] ∧
    IpcHub.Gen.flvCachePushHeaders = ["nil != cache.metaData", "metaData := *cache.metaData", "metaData.Timestamp = initTimestamp",
      "q.Queue().Push(&metaData)", "bytes += metaData.Size()", "nil != cache.videoSequenceHeader",
      "videoSequenceHeader := *cache.videoSequenceHeader", "videoSequenceHeader.Timestamp = initTimestamp",
      "q.Queue().Push(&videoSequenceHeader)", "bytes += videoSequenceHeader.Size()",
      "nil != cache.audioSequenceHeader", "audioSequenceHeader := *cache.audioSequenceHeader",
      "audioSequenceHeader.Timestamp = initTimestamp", "q.Queue().Push(&audioSequenceHeader)",
      "bytes += audioSequenceHeader.Size()"] := by
  decide

/-- the model instantiated with the regenerated switches is the repaired behaviour -/
theorem c08_gen_cfg : genCfg = fixedCfg := by decide

/-! ## what one client receives (any tag sequence: joining at any tag) -/

/-- **Valid FLV, exact tag sizes, rebased timestamps — for every tag sequence.**
    For all type flags with a stream bit and every sequence `src` of tags handed to one client's
    writer (types 8/9/18, bodies below 2^24 bytes, source times within the signed 32-bit window
    of FLV timestamps around the first tag's time — no bound on the number of tags, the times
    themselves are unbounded integers of which the implementation keeps the low 32 bits):
    the bytes of `NewWriter` + one `WriteFlvTag` per tag parse with the independent FLV reader —
    signature, version 1, the announced stream flags, DataOffset 9, PreviousTagSize0 = 0, every
    tag followed by 11 + DataSize — into exactly the tags of `src` (type, body, stream id 0, no
    filter), the first with timestamp 0, each later one with `time − time(first)`, and 0 for a
    tag older than the first (`Spec.rebased`), never a wrapped value. -/
theorem c08_client_stream (flags : UInt8) (hf : flags &&& 0x05 ≠ 0) (src : List SrcTag)
    (h : ∀ s0 ∈ src.head?, ∀ s ∈ src, SrcTag.ok s0.time s) :
    ∃ bs, clientBytes genCfg flags (src.map toTag) = some bs ∧ checkClient flags src bs = true := by
  rw [c08_gen_cfg]
  exact checkClient_clientBytes fixedCfg ⟨rfl, rfl⟩ flags hf src h

/-- non-vacuity: a client joining at a key frame (time 11891 ms) that is then handed an audio tag
    from 62 ms earlier and later tags across the 2^32 ms boundary meets the hypotheses -/
example : ∀ s ∈ ([⟨18, 4294967000, [2]⟩, ⟨9, 4294967000, [0x17, 1]⟩, ⟨8, 4294966938, [0xaf, 1]⟩,
    ⟨9, 4294967400, [0x27, 1]⟩] : List SrcTag), SrcTag.ok 4294967000 s := by decide

/-- `NewWriter` rejects type flags without a stream bit (nothing to announce) -/
theorem c08_no_stream_bit (flags : UInt8) (hf : flags &&& 0x05 = 0) (tags : List Tag) :
    clientBytes genCfg flags tags = none := by
  simp [clientBytes, newWriter, hf]

/-- **The rebase never wraps**, stated on the timestamp alone: after a first tag with source
    time `t0`, the timestamp written for a tag with source time `t` (|t − t0| < 2^31) is
    `t − t0` when `t ≥ t0` and 0 when it is older. -/
theorem c08_rebase_never_wraps (t0 : Int) (s : SrcTag)
    (h1 : -2147483648 ≤ s.time - t0) (h2 : s.time - t0 < 2147483648) :
    ((toTag s).timestamp - (Writer.rebase genCfg { delta := u32OfInt t0, started := true } (toTag s))).toNat
      = (if s.time < t0 then 0 else (s.time - t0).toNat) := by
  rw [c08_gen_cfg]
  exact rebase_fixed fixedCfg ⟨rfl, rfl⟩ t0 s h1 h2

/-- The pinned tree violated this (kept as a theorem about the model with the old switches, and as
    corpus/C08/rebase-older-than-first.case): first tag at 10000 ms, the next at 9900 ms was
    written with timestamp bytes `ff ff 9c` + extension `ff` = 4294967196 ms. -/
theorem c08_wrap_witness :
    let src : List SrcTag := [⟨9, 10000, [0x17, 1]⟩, ⟨8, 9900, [0xaf, 1]⟩]
    (∃ bs, clientBytes pinnedCfg 5 (src.map toTag) = some bs ∧ checkClient 5 src bs = false ∧
      (parseFlv bs).map (fun r => r.2.map (·.timestamp)) = some [0, 4294967196]) ∧
    (∃ bs, clientBytes fixedCfg 5 (src.map toTag) = some bs ∧ checkClient 5 src bs = true ∧
      (parseFlv bs).map (fun r => r.2.map (·.timestamp)) = some [0, 0]) := by
  decide

/-- The pinned tree's other rebase defect (corpus/C08/first-tag-sentinel.case): a first tag whose
    32-bit timestamp is 0xffffffff looked like "no tag written yet", so the second tag, 3 ms
    later, re-initialised the rebase and was written with timestamp 0 instead of 3. -/
theorem c08_sentinel_witness :
    let src : List SrcTag := [⟨9, 4294967295, []⟩, ⟨18, 4294967298, [0xf4]⟩]
    (∃ bs, clientBytes { fixedCfg with sentinelInit := true } 4 (src.map toTag) = some bs ∧
      checkClient 4 src bs = false ∧ (parseFlv bs).map (fun r => r.2.map (·.timestamp)) = some [0, 0]) ∧
    (∃ bs, clientBytes fixedCfg 4 (src.map toTag) = some bs ∧ checkClient 4 src bs = true ∧
      (parseFlv bs).map (fun r => r.2.map (·.timestamp)) = some [0, 3]) := by
  decide

/-! ## what the muxer writes for a frame sequence -/

/-- **C08 for a frame sequence through `flv.Muxer` + `flv.Writer`.**
    For every stream (H.264 or H.265, with or without AAC; parameter sets shorter than 2^16
    bytes, known from frame index `known` on — 0 when the SDP carried them; a configuration is
    only owed for a validated SPS, `Src.valid`: width known or the SPS decodes — otherwise nothing
    may be written, which is what `fromStart` says), every
    `creationdate` string and every frame sequence — any length, any NAL types, any media types —
    whose carried frames (video; audio iff AAC) from `known` on are admissible (`FrameOk`: a
    video frame has its NAL header byte, the body fits DataSize, tag time within the signed 32-bit
    millisecond window, |PTS−DTS| < 2^23 ms) — and, for H.265, given parameter-set decoders
    that return the general profile/tier/level found in the bytes (`hevcFaithful`, property C15):

    * the worker goroutine survives (`false`: no panic escaped), and
    * the bytes the client receives satisfy `Spec.checkMux`: they parse as FLV (header announcing
      video and, iff AAC, audio; every tag followed by its exact size); the tags are `onMetaData`
      (exact ECMA-array count, the right codec ids), then the AVC/HEVC decoder configuration
      record carrying exactly the stream's SPS/PPS(/VPS) with 4-byte NAL lengths (AVC: and the SPS's
      profile/compatibility/level bytes; HEVC: and the general profile space/tier/idc,
      compatibility and constraint flags and level that VPS and SPS both state), then the AAC configuration with the stream's
      AudioSpecificConfig iff AAC — all with timestamp 0 — then exactly one tag per carried
      frame from `known` on, in order: a video tag holds one length-prefixed NAL unit equal to
      the frame's payload, is flagged key frame iff that NAL is an IDR (H.264) / IRAP 16..21
      (H.265), has CTS = PTS − DTS in ms; an audio tag holds the AAC frame; timestamps are the
      DTS (video) / PTS (audio) in ms, never wrapped; nothing is written for the frames before
      `known`, and nothing at all when the parameter sets never become usable. -/
theorem c08_end_to_end (vm : VideoMeta) (am : AudioMeta) (date : Bytes) (known : Nat) (frames : List Frame)
    (hcodec : vm.codec ≠ .other) (hfaith : hevcFaithful vm = true)
    (hs : vm.sps.length < 65536) (hp : vm.pps.length < 65536) (hv : vm.vps.length < 65536)
    (ha : am.asc.length + 2 < 16777216) (hd : date.length < 65536)
    (hall : ∀ f ∈ fromStart (srcOf vm am) known frames, carried (srcOf vm am) f = true → FrameOk f) :
    ∃ bs, muxBytes genCfg vm am date known frames = some (bs, false) ∧
      checkMux (srcOf vm am) (fromStart (srcOf vm am) known frames) bs = true := by
  rw [c08_gen_cfg]
  exact checkMux_muxBytes fixedCfg ⟨rfl, rfl⟩ rfl vm am date known frames hcodec hfaith hs hp hv ha hd hall

/-- non-vacuity: an H.264+AAC stream whose parameter sets arrive in band (known = 1), an audio
    frame first, an IDR with PTS > DTS, a 1-byte NAL with PTS < DTS, times below and above 2^31−1 ms
    excluded — all carried frames are admissible -/
example :
    let vm : VideoMeta :=
      { codec := .h264, width := 640, height := 480, frameRate := 0, dataRate := 0,
        sps := [0x67, 0x42, 0xc0, 0x1e, 0xd9], pps := [0x68, 0xcb], vps := [], hevcVps := none, hevcSps := none }
    let am : AudioMeta :=
      { aac := true, sampleRate := 44100, sampleSize := 16, channels := 2, dataRate := 0, asc := [0x12, 0x10] }
    let frames : List Frame := [⟨1, 21000000, 21000000, [0x21]⟩, ⟨0, 40000000, 80000000, [0x65, 0x88]⟩,
      ⟨1, 44000000, 44000000, []⟩, ⟨0, 2147483647000000, 2147483607000000, [0x41]⟩, ⟨7, 0, 0, []⟩]
    hevcFaithful vm = true ∧
    ∀ f ∈ fromStart (srcOf vm am) 1 frames, carried (srcOf vm am) f = true → FrameOk f := by decide

/-- non-vacuity for H.265: a real camera's VPS/SPS (the vectors of av/codec/hevc/*_test.go) with the
    values ipchub's decoders return for them meet `hevcFaithful` — the general profile/tier/level
    read at the standard's positions (after removing the emulation-prevention bytes) are Main
    profile (idc 1), main tier, level 93, compatibility 0x60000000, constraint 0x900000000000 -/
example :
    let ptl : HevcPtl := { space := 0, tier := 0, idc := 1, compat := 1610612736, constraint := 158329674399744, level := 93 }
    let vm : VideoMeta :=
      { codec := .h265, width := 0, height := 0, frameRate := 0, dataRate := 0,
        sps := [0x42, 0x01, 0x01, 0x01, 0x60, 0x00, 0x00, 0x03, 0x00, 0x90, 0x00, 0x00, 0x03, 0x00, 0x00, 0x03, 0x00, 0x5d,
                0xa0, 0x02, 0x80, 0x80, 0x2d, 0x16, 0x59, 0x59, 0xa4, 0x93, 0x2b, 0x80, 0x40, 0x00, 0x00, 0xfa, 0x40, 0x00,
                0x17, 0x70, 0x02],
        pps := [0x44, 0x01, 0xc1, 0x72, 0xb4, 0x62, 0x40],
        vps := [0x40, 0x01, 0x0c, 0x01, 0xff, 0xff, 0x01, 0x60, 0x00, 0x00, 0x03, 0x00, 0x90, 0x00, 0x00, 0x03, 0x00, 0x00,
                0x03, 0x00, 0x5d, 0x95, 0x98, 0x09],
        hevcVps := some { maxSubLayersMinus1 := 0, ptl := ptl },
        hevcSps := some { maxSubLayersMinus1 := 0, nesting := 1, ptl := ptl, chroma := 1, lumaM8 := 0, chromaM8 := 0 } }
    hevcFaithful vm = true ∧ spsPtl vm.sps = some (ptlNat ptl) ∧ vpsPtl vm.vps = some (ptlNat ptl) := by
  decide

/-- **One tag per frame** (the per-frame part of the statement, on its own): a carried admissible
    frame is packetised into exactly one tag, stamped with the low 32 bits of its DTS (video) /
    PTS (audio) in ms, whose body the independent reader decodes to the source NAL unit with the
    right key flag and CTS, resp. to the source AAC frame — whatever rebase value `d` the writer
    then applies. -/
theorem c08_media_tag (vm : VideoMeta) (am : AudioMeta) (f : Frame) (hcodec : vm.codec ≠ .other)
    (hc : carried (srcOf vm am) f = true) (hok : FrameOk f) :
    ∃ t, packetize vm am f = ([t], false) ∧ t.timestamp = u32OfInt (tagTimeMs f) ∧
      ∀ d, mediaTagCarries (srcOf vm am) f (viewTag t d) = true := by
  obtain ⟨t, h1, _, h3, h4⟩ := packetize_carried vm am f hcodec hc hok.fits
  exact ⟨t, h1, h3, h4⟩

/-- frames that are not carried (audio of a stream without AAC, other media types) produce no tag -/
theorem c08_other_frames_dropped (vm : VideoMeta) (am : AudioMeta) (f : Frame)
    (h : carried (srcOf vm am) f = false) : packetize vm am f = ([], false) :=
  packetize_not_carried vm am f h

/-- **Decoder configuration records**: with usable parameter sets the video sequence header exists
    and, read back by the independent AVCC / HVCC reader, carries exactly one SPS, one PPS (and one
    VPS) equal to the stream's, 4-byte NAL lengths, key-frame + sequence-header flags, CTS 0; the
    AAC sequence header carries the AudioSpecificConfig. -/
theorem c08_config_records (vm : VideoMeta) (am : AudioMeta) (hcodec : vm.codec ≠ .other)
    (hready : videoMetaReady vm = true) (hfaith : hevcFaithful vm = true)
    (hs : vm.sps.length < 65536) (hp : vm.pps.length < 65536) (hv : vm.vps.length < 65536)
    (ha : am.asc.length + 2 < 16777216) :
    (∃ t, videoSeqHeaderTag vm = .ok t ∧ t.timestamp = 0 ∧ ∀ d, isVideoConfigTag (srcOf vm am) (viewTag t d) = true) ∧
    (∀ d, isAudioConfigTag (srcOf vm am) (viewTag (audioSeqHeaderTag am) d) = true) := by
  obtain ⟨t, h1, _, h3, _, _, _, h7⟩ := videoConfig_ok vm am hcodec hready hfaith hs hp hv
  exact ⟨⟨t, h1, h3, h7⟩, fun d => (audioConfig_ok vm am d ha).2.2⟩

/-- The HEVC record's general profile/tier/level bytes are those `init`/`applyPLT` computed from
    the decoded VPS and SPS (C15's subject), at the positions ISO/IEC 14496-15 gives them. -/
theorem c08_hevc_record_fields (r : HevcRecord) (vps sps pps : Bytes) (hl : r.lengthSizeMinusOne = 3)
    (hv : vps.length < 65536) (hs : sps.length < 65536) (hp : pps.length < 65536) :
    ∃ h, parseHvcc (hevcRecordBytes r vps sps pps) = some h ∧ h.lengthSize = 4 ∧
      h.arrays = [(32, [vps]), (33, [sps]), (34, [pps])] ∧
      h.profileSpace = (((r.space <<< 6) ||| (r.tier <<< 5) ||| r.idc) >>> 6).toNat ∧
      h.tier = ((((r.space <<< 6) ||| (r.tier <<< 5) ||| r.idc) >>> 5) &&& 1).toNat ∧
      h.profileIdc = (((r.space <<< 6) ||| (r.tier <<< 5) ||| r.idc) &&& 0x1F).toNat ∧
      h.compat = r.compat.toNat ∧ h.level = r.level.toNat ∧
      (r.constraint.toNat < 281474976710656 → h.constraint = r.constraint.toNat) :=
  parseHvcc_hevcRecord r vps sps pps hl hv hs hp

/-- When VPS and SPS were decoded to the same general profile/tier/level `p`, `init`/`applyPLT`
    leave exactly `p` in the record (space, tier, profile idc, compatibility and constraint flags,
    level). -/
theorem c08_hevc_record_ptl (v : HevcVpsInfo) (s : HevcSpsInfo) (p : HevcPtl) (hv : v.ptl = p) (hs : s.ptl = p)
    (hc : p.constraint.toNat < 281474976710656) :
    (hevcInit (some v) (some s)).space = p.space ∧ (hevcInit (some v) (some s)).tier = p.tier ∧
    (hevcInit (some v) (some s)).idc = p.idc ∧ (hevcInit (some v) (some s)).compat = p.compat ∧
    (hevcInit (some v) (some s)).constraint = p.constraint ∧ (hevcInit (some v) (some s)).level = p.level :=
  hevcInit_agree v s p hv hs hc

/-- **Metadata**: the script tag reads back as `onMetaData` with an exact ECMA-array count and the
    right video (and, iff AAC, audio) codec id. -/
theorem c08_metadata (vm : VideoMeta) (am : AudioMeta) (date : Bytes) (d : UInt32) (hd : date.length < 4294967296) :
    isMetaTag (srcOf vm am) (viewTag (metadataTag vm am date) d) = true :=
  isMetaTag_view vm am date d hd

/-- **Order**, on the tag list itself: with usable parameter sets from frame `known` on, the tags
    handed to the writer are nothing for the frames before `known`, then — at the first frame
    from there — metadata, video configuration, AAC configuration iff AAC, and then the media tags
    of every frame from there on; the worker survives as long as no video frame is empty. -/
theorem c08_order (vm : VideoMeta) (am : AudioMeta) (date : Bytes) (known : Nat) (frames : List Frame)
    (hr : videoMetaReady vm = true) (v : Tag) (hv : videoSeqHeaderTag vm = .ok v)
    (hnd : ∀ f ∈ frames.drop known, (packetize vm am f).2 = false) :
    muxRun genCfg vm am date known frames =
      (match frames.drop known with
       | [] => []
       | f :: fs => ([metadataTag vm am date, v] ++ (if am.aac then [audioSeqHeaderTag am] else [])) ++
                    mediaTags vm am (f :: fs), false) := by
  have hseq : seqHeaders vm am date =
      ([metadataTag vm am date, v] ++ (if am.aac then [audioSeqHeaderTag am] else []), false) := by
    simp only [seqHeaders, hv]
  have := muxLoop_unpacked genCfg (by decide) vm am date known hr _ hseq frames 0 (by simpa using hnd)
  simp only [Nat.sub_zero] at this
  unfold muxRun
  exact this

/-- The pinned tree violated the order part (corpus/C08/seqhdr-without-paramsets.case): SDP without
    sprop-parameter-sets, an audio frame reaches the muxer before the video parameter sets — the
    sequence headers were built at that frame, `sps[1]` of the empty SPS panicked after the
    metadata tag and the worker was gone (`true`); the repaired muxer drops the early frame and
    carries everything from the first frame with known parameter sets. -/
theorem c08_seqhdr_witness :
    let vm : VideoMeta :=
      { codec := .h264, width := 640, height := 480, frameRate := 0, dataRate := 0,
        sps := [0x67, 0x42, 0xc0, 0x1e, 0xd9], pps := [0x68, 0xcb], vps := [], hevcVps := none, hevcSps := none }
    let am : AudioMeta :=
      { aac := true, sampleRate := 44100, sampleSize := 16, channels := 2, dataRate := 0, asc := [0x12, 0x10] }
    let frames : List Frame := [⟨1, 21000000, 21000000, [0x21]⟩, ⟨0, 40000000, 80000000, [0x65, 0x88]⟩]
    -- (worker died?, does the client's stream satisfy C08?, number of tags the client got)
    let outcome := fun (r : Bytes × Bool) =>
      (r.2, checkMux (srcOf vm am) (fromStart (srcOf vm am) 1 frames) r.1,
       (parseFlv r.1).map (fun p => p.2.length))
    (muxBytes pinnedCfg vm am [] 1 frames).map outcome = some (true, false, some 1) ∧
    (muxBytes fixedCfg vm am [] 1 frames).map outcome = some (false, true, some 4) := by
  set_option maxRecDepth 100000 in decide

/-! ## joining at any tag -/

/-- **C08 for a client that joins a running stream — at any tag, with or without GOP caching.**
    For every stream, frame sequence and `creationdate` as in `c08_end_to_end`, every
    `k` (the number of tags the stream has written when the HTTP-FLV / WebSocket-FLV client
    attaches) and both settings of `cache_gop`, composing the three models the way `media.Stream`
    wires them — `flv.Muxer` (frames → tags), `cache.FlvCache` (`CachePack` per tag; `PushTo` at
    the join: copies of the cached configuration tags stamped with the replay's time, the cached
    GOP; then every later tag) and the client's own `flv.Writer`:

    * the worker survives, and
    * the bytes the client receives satisfy `Spec.checkJoinedAt`: they parse as FLV (right
      header flags, every tag followed by its exact size); first come `onMetaData`, the AVC/HEVC
      decoder configuration built from the stream's parameter sets and (iff AAC) the AAC
      configuration, all with timestamp 0; then exactly one tag per frame the client is owed
      (`Spec.joinView`: with GOP caching every carried frame from the latest key frame before
      the join, otherwise every carried frame from the join on — nothing lost, nothing twice),
      each holding its source NAL unit / AAC frame with the right key flag and CTS; timestamps
      are the DTS/PTS in ms rebased to the client's time origin (that key frame, resp. the
      latest frame before the join), a frame older than the origin is stamped 0, never a
      wrapped value.

    Hypotheses: as in `c08_end_to_end`, except that the signed 32-bit window of FLV timestamps
    (24.8 days) is demanded around the CLIENT's time origin and only of the frames it is owed —
    the age of the stream does not matter (before 75c064c it did: `c08_nogop_join_witness`). -/
theorem c08_joiner_end_to_end (vm : VideoMeta) (am : AudioMeta) (date : Bytes) (known : Nat) (frames : List Frame)
    (gop : Bool) (k : Nat)
    (hcodec : vm.codec ≠ .other) (hfaith : hevcFaithful vm = true)
    (hs : vm.sps.length < 65536) (hp : vm.pps.length < 65536) (hv : vm.vps.length < 65536)
    (ha : am.asc.length + 2 < 16777216) (hd : date.length < 65536)
    (hall : ∀ f ∈ fromStart (srcOf vm am) known frames, carried (srcOf vm am) f = true → FrameFits f)
    (hwin : ∀ f ∈ (joinView (srcOf vm am) gop ((fromStart (srcOf vm am) known frames).filter (carried (srcOf vm am)))
                    (k - prefixLen (srcOf vm am))).2,
        -2147483648 ≤ tagTimeMs f - (joinView (srcOf vm am) gop
            ((fromStart (srcOf vm am) known frames).filter (carried (srcOf vm am))) (k - prefixLen (srcOf vm am))).1 ∧
        tagTimeMs f - (joinView (srcOf vm am) gop
            ((fromStart (srcOf vm am) known frames).filter (carried (srcOf vm am))) (k - prefixLen (srcOf vm am))).1 < 2147483648) :
    ∃ bs, IpcHub.FlvJoin.joinBytes genCfg vm am date known frames gop k = some (bs, false) ∧
      checkJoinedAt (srcOf vm am) (fromStart (srcOf vm am) known frames) gop k bs = true := by
  rw [c08_gen_cfg]
  exact checkJoinedAt_joinBytes fixedCfg ⟨rfl, rfl⟩ rfl rfl vm am date known frames gop k hcodec hfaith hs hp hv ha hd hall hwin

/-- non-vacuity: an H.264+AAC stream 50 days old (times beyond 2^32 ms), GOP caching on, a client that
    joins after 7 tags — behind the second key frame — is owed that key frame, the audio frame
    20 ms older than it and the frame after the join; all lie within the window around the key frame -/
example :
    let vm : VideoMeta :=
      { codec := .h264, width := 640, height := 480, frameRate := 0, dataRate := 0,
        sps := [0x67, 0x42, 0xc0, 0x1e, 0xd9], pps := [0x68, 0xcb], vps := [], hevcVps := none, hevcSps := none }
    let am : AudioMeta :=
      { aac := true, sampleRate := 44100, sampleSize := 16, channels := 2, dataRate := 0, asc := [0x12, 0x10] }
    let frames : List Frame := [⟨0, 4320000000000000, 4320000000000000, [0x65, 0x88]⟩, ⟨0, 4320000040000000, 4320000040000000, [0x41]⟩,
      ⟨0, 4320000080000000, 4320000120000000, [0x65, 0x89]⟩, ⟨1, 4320000060000000, 4320000060000000, [0x21]⟩,
      ⟨0, 4320000120000000, 4320000120000000, [0x41, 0x9a]⟩]
    let v := joinView (srcOf vm am) true ((fromStart (srcOf vm am) 0 frames).filter (carried (srcOf vm am))) (7 - prefixLen (srcOf vm am))
    v.1 = 4320000080 ∧ v.2 = frames.drop 2 ∧
    (∀ f ∈ fromStart (srcOf vm am) 0 frames, carried (srcOf vm am) f = true → FrameFits f) ∧
    (∀ f ∈ v.2, -2147483648 ≤ tagTimeMs f - v.1 ∧ tagTimeMs f - v.1 < 2147483648) := by decide

/-- Before 75c064c this failed without a cached GOP (kept as a theorem about the model with the
    old switch, and as corpus/C08/nogop-join-old-stream.case): an H.264 stream 2 200 000 000 ms old
    (25.5 days), `cache_gop` off, a client joins behind the key frame (3 tags written).  It is owed
    the next two frames, 40 and 80 ms later.  The replayed configuration tags were stamped 0, the
    writer took 0 as its time base, and both frames — 2^31 ms and more away from it — were taken
    for older than the first tag and written with timestamp 0 (0, 0 instead of 40, 80).  With the
    configuration tags stamped with the stream's current time they are written correctly. -/
theorem c08_nogop_join_witness :
    let vm : VideoMeta :=
      { codec := .h264, width := 640, height := 480, frameRate := 0, dataRate := 0,
        sps := [0x67, 0x42, 0xc0, 0x1e, 0xd9], pps := [0x68, 0xcb], vps := [], hevcVps := none, hevcSps := none }
    let am : AudioMeta :=
      { aac := false, sampleRate := 44100, sampleSize := 16, channels := 2, dataRate := 0, asc := [0x12, 0x10] }
    let frames : List Frame := [⟨0, 2200000000000000, 2200000000000000, [0x65, 0x88]⟩,
      ⟨0, 2200000040000000, 2200000040000000, [0x41, 0x9a]⟩, ⟨0, 2200000080000000, 2200000080000000, [0x41, 0x9b]⟩]
    -- (does the client's stream satisfy C08?, the timestamps of the tags it got)
    let outcome := fun (r : Bytes × Bool) =>
      (checkJoinedAt (srcOf vm am) (fromStart (srcOf vm am) 0 frames) false 3 r.1,
       (parseFlv r.1).map (fun p => p.2.map (·.timestamp)))
    (IpcHub.FlvJoin.joinBytes { fixedCfg with stampNow := false } vm am [] 0 frames false 3).map outcome
      = some (false, some [0, 0, 0, 0]) ∧
    (IpcHub.FlvJoin.joinBytes fixedCfg vm am [] 0 frames false 3).map outcome = some (true, some [0, 0, 40, 80]) := by
  set_option maxRecDepth 100000 in decide

/-- The joiner's timeline at the current tree's writer configuration: when a consumer joins an
    FLV stream, the first tag its writer is handed becomes the time base and every replayed header
    tag and the first replayed media tag go on the wire with timestamp 0 — with a cached GOP (the
    base is the GOP's first tag) and without (the base is the stream's current time, the latest
    media tag's timestamp); a client that is replayed nothing gets its first live tag with 0.
    (The cache side of this statement is `c02_flv_timeline_starts_at_zero`.) -/
theorem c08_joiner_timeline_zero (gop : Bool) (tags : List IpcHub.FlvCacheM.FTag) :
    let c := IpcHub.FlvCacheM.cacheAfter gop tags
    let w1 : Writer := { delta := UInt32.ofNat c.initTs, started := true }
    (c.pushTo ≠ [] → ∃ first more, c.pushTo.map IpcHub.FlvCacheM.toTag = first :: more ∧
        Writer.next genCfg {} first = w1) ∧
    (∀ t ∈ c.headers ++ c.gop.head?.toList, IpcHub.FlvCacheM.wireTs genCfg w1 (IpcHub.FlvCacheM.toTag t) = 0) ∧
    (∀ live : Tag, IpcHub.FlvCacheM.wireTs genCfg (Writer.next genCfg {} live) live = 0) :=
  IpcHub.FlvCacheM.joiner_timeline genCfg (by decide) gop tags

end IpcHub.Props.C08
