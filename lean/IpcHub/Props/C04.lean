/-
C04 — Stalled or failing consumers are isolated; backlog bounded; drops align to GOPs.
-/
import IpcHub.Lemmas.Media5
import IpcHub.Model.MediaInst
import IpcHub.Props.C01
namespace IpcHub.Props.C04
open IpcHub.Media
open IpcHub.Props.C01 (subseq countOf)

/-- Source facts: the backlog limit; `send` decides on the queue length and only then pushes;
    the critical sections of the table mutex contain no call into a consumer and no blocking
    wait (only cache update, queue pushes, map operations), so a publisher is delayed by a joiner
    or a remover for a bounded number of non-blocking steps only; the consumer goroutine recovers
    a panicking Consume and then detaches and closes. -/
theorem c04_source_facts :
    IpcHub.Gen.mediaFactsUnknown = [] ∧ IpcHub.Gen.maxQLen = 1000 ∧
    subseq ["c.recvQueue.Len", "set c.discarding", "set c.discarding", "c.recvQueue.Push"] IpcHub.Gen.progConsSend = true ∧
    -- the decisions of send: only at a key-frame start, drop above the limit, resume below it, push unless dropping
    IpcHub.Gen.condsConsSend = ["keyframe", "c.discarding && n < c.maxQLen", "!c.discarding && n > c.maxQLen", "!c.discarding"] ∧
    countOf "c.consumer.Consume" IpcHub.Gen.progCacheAndSend = 0 ∧ countOf "c.recvQueue.Pop" IpcHub.Gen.progCacheAndSend = 0 ∧
    countOf "c.consumer.Consume" IpcHub.Gen.progSendToAll = 0 ∧ countOf "c.consumer.Consume" IpcHub.Gen.progConsSend = 0 ∧
    countOf "c.recvQueue.Pop" IpcHub.Gen.progConsSend = 0 ∧
    countOf "c.consumer.Consume" IpcHub.Gen.progRemove = 0 ∧ countOf "c.consumer.Close" IpcHub.Gen.progRemove = 0 ∧
    countOf "c.consumer.Close" IpcHub.Gen.progRemoveAndCloseAll = 0 ∧ countOf "c.consumer.Close" IpcHub.Gen.progConsClose = 0 ∧
    subseq ["defer func", "recover", "c.stream.StopConsume", "c.consumer.Close", "c.consumer.Consume"] IpcHub.Gen.progConsConsume = true := by
  decide

/-- Backlog bound.  For EVERY execution (any packet bytes, any stall/resume pattern, any relative
    speeds): if the stream never has more than `G` accepted packets in a row without a key-frame
    verdict (`maxSince ≤ G`: "a key frame at least every G packets"), every attached consumer's
    queue holds at most the fixed limit (1000) plus one GOP plus its join replay. -/
theorem c04_backlog_bound (hevc gop : Bool) (ls : List Label) (G : Nat)
    (hG : ((genInit hevc gop).run ls).maxSince ≤ G) :
    ∀ c ∈ ((genInit hevc gop).run ls).cons, c.registered = true →
      c.queue.length ≤ IpcHub.Gen.maxQLen + G + c.replay.length := by
  intro c hc hr
  have hg := ginv_run _ _ ls (ginv_init genConsts IpcHub.Gen.maxQLen hevc gop)
  have hb := hg.binv c hc
  have h1 := hb.bound hr
  have h2 := hb.le_max
  have hm : ((genInit hevc gop).run ls).maxQLen = IpcHub.Gen.maxQLen := by
    have : ∀ (s : St) (l : Label), (s.step l).maxQLen = s.maxQLen := by
      intro s l
      cases l <;> simp only [St.step]
      · split
        · rfl
        · split <;> rfl
      · split
        · rfl
        · split <;> rfl
      · split <;> rfl
    have hrun : ∀ (ls : List Label) (s : St), (s.run ls).maxQLen = s.maxQLen := by
      intro ls
      induction ls with
      | nil => intro s; rfl
      | cons l ls ih => intro s; simp only [St.run, List.foldl_cons]; rw [← this s l]; exact ih _
    exact hrun ls _
  simp only [genInit] at hm hG
  rw [hm] at h1
  omega

/-- GOP alignment.  In every execution, for every consumer, the kept/dropped decision of
    consecutive sends changes only at a packet with a key-frame verdict (starting from "kept"):
    dropping begins and ends only at the start of a key frame, so after any drop the next
    video data the consumer is given starts a key frame. -/
theorem c04_gop_aligned (hevc gop : Bool) (ls : List Label) :
    ∀ c ∈ ((genInit hevc gop).run ls).cons,
      aligned true c.sendLog ∧ lastKept true c.sendLog = !c.discarding := by
  intro c hc
  have hb := (ginv_run _ _ ls (ginv_init genConsts IpcHub.Gen.maxQLen hevc gop)).binv c hc
  exact ⟨hb.al, hb.lk⟩

/-- The publisher is never blocked by a consumer: `pub` is a total, always enabled step of the
    LTS, and a stalled consumer (blocked inside `Consume`) changes nothing for the publisher or
    for any other consumer: what consumer `n` holds is independent of every other consumer's
    steps, including their stalls and panics (this is c01_independent, restated for C04). -/
theorem c04_isolation (hevc gop : Bool) (n : Nat) (ls : List Label) :
    ((genInit hevc gop).run ls).cons.filter (fun c => c.name = n)
      = ((genInit hevc gop).run (ls.filter (Label.concerns n))).cons :=
  IpcHub.Props.C01.c01_independent hevc gop n ls

/-- A panicking consumer is detached and closed: the goroutine step in which `Consume` panics
    leaves the consumption unregistered, closed, its goroutine gone and Consumer.Close called. -/
theorem c04_panic_detaches (c : Cons) (p : Pkt) (hex : c.exited = false) (hin : c.inflight = some p)
    (hst : c.stalled = false) (hp : c.panicAt ≠ 0 ∧ c.delivered.length + 1 = c.panicAt) :
    c.step.1.registered = false ∧ c.step.1.closed = true ∧ c.step.1.exited = true ∧
    c.step.1.closeCalls = c.closeCalls + 1 ∧ c.step.2 = c.registered := by
  have k1 : c.stepKind = .panic := by simp [Cons.stepKind, hex, hin, hst, hp]
  have : c.step = c.apply .panic := by show c.apply c.stepKind = _; rw [k1]
  rw [this]; simp [Cons.apply]

/-- A healthy consumer loses nothing.  One publish step of the stream, any packet, any verdict of
    the classifier: a registered consumer that is not discarding and whose backlog is within the
    limit is given the packet (appended to its queue, still not discarding), whatever the other
    consumers of the stream are doing (stalled, discarding, panicking). -/
theorem c04_healthy_keeps (s : St) (p : Pkt) (cache' : Cache) (key : Bool)
    (hst : s.status = 0) (hp : s.cache.pack s.consts p = some (cache', key)) :
    (s.step (.pub p)).cons = s.cons.map (Cons.send s.maxQLen p key) ∧
    ∀ c ∈ s.cons, c.registered = true → c.discarding = false → c.queue.length ≤ s.maxQLen →
      (Cons.send s.maxQLen p key c).queue = c.queue ++ [some p] ∧
      (Cons.send s.maxQLen p key c).discarding = false := by
  refine ⟨by simp [St.step, hst, hp], ?_⟩
  intro c _ hr hd hl
  have hn : nextDiscarding s.maxQLen key false c.queue.length = false := by
    unfold nextDiscarding
    cases key
    · simp
    · have : ¬ (c.queue.length > s.maxQLen) := by omega
      simp [this]
  simp [Cons.send, hr, hd, hn, Cons.keep]

/-- Dropping starts only above the limit and only at a key-frame start: if a publish step turns a
    consumer that was not discarding into a discarding one, the packet had a key-frame verdict and
    the backlog was already above the limit. -/
theorem c04_drop_starts_only_over_limit (M : Nat) (p : Pkt) (key : Bool) (c : Cons)
    (hd : c.discarding = false) (h : (Cons.send M p key c).discarding = true) :
    key = true ∧ c.queue.length > M ∧ c.registered = true := by
  unfold Cons.send at h
  by_cases hr : c.registered = true
  · simp only [hr, Bool.not_true, Bool.false_eq_true, if_false] at h
    by_cases hn : nextDiscarding M key c.discarding c.queue.length = true
    · unfold nextDiscarding at hn
      cases key
      · simp [hd] at hn
      · by_cases hq : c.queue.length > M
        · exact ⟨rfl, hq, hr⟩
        · simp [hd, hq] at hn
    · simp only [hn, Bool.false_eq_true, if_false] at h
      simp [Cons.keep] at h
  · simp only [Bool.not_eq_true] at hr
    simp [hr, hd] at h

/-- Recovery.  A discarding consumer whose backlog has drained below the limit is given the next
    key-frame start and everything after it: at the first packet with a key-frame verdict the
    packet is queued and discarding ends; until then (no key-frame verdict) nothing is queued, so
    delivery resumes exactly at the start of a key frame. -/
theorem c04_recovery_at_key (M : Nat) (p : Pkt) (c : Cons)
    (hr : c.registered = true) (hd : c.discarding = true) (hl : c.queue.length < M) :
    (Cons.send M p true c).queue = c.queue ++ [some p] ∧ (Cons.send M p true c).discarding = false ∧
    (Cons.send M p false c).queue = c.queue ∧ (Cons.send M p false c).discarding = true := by
  have h1 : nextDiscarding M true true c.queue.length = false := by simp [nextDiscarding, hl]
  have h2 : nextDiscarding M false true c.queue.length = true := by simp [nextDiscarding]
  simp [Cons.send, hr, hd, h1, h2, Cons.keep, Cons.drop]

/-- non-vacuity of the three one-step theorems: a registered consumer over the limit that is not
    yet discarding starts dropping at a key packet; drained below the limit it resumes at the next one -/
example :
    let key : Pkt := { uid := 0, ch := 0, payload := [0x65, 1] }
    let c : Cons := { name := 0, queue := [some key, some key, some key] }
    (Cons.send 2 key true c).discarding = true ∧
    (Cons.send 2 key true { c with discarding := true, queue := [some key] }).discarding = false := by
  decide

/-- non-vacuity: a stalled consumer of a stream with a key frame every 3 packets, limit 2:
    the queue stays within limit + G + replay while 30 packets are published
    (a test of the statement on a small instance, with a small limit) -/
example :
    let key : Pkt := { uid := 0, ch := 0, payload := [0x65, 1, 2, 3] }
    let non : Pkt := { uid := 0, ch := 0, payload := [0x61, 1, 2, 3] }
    let gopL : List Label := [.pub key, .pub non, .pub non]
    let s := (St.init genConsts 2 false false).run ([.join 0 true 0, .stall 0] ++ gopL ++ gopL ++ gopL ++ gopL ++ gopL)
    s.maxSince = 3 ∧ (s.cons.map (fun c => (c.queue.length, c.discarding))) = [(3, true)] := by
  decide

end IpcHub.Props.C04
