/-
C09 — MPEG-TS output is structurally valid and carries the source frames faithfully.
Property theorems only; the model is `Model/Ts.lean` instantiated with the facts regenerated
from /repo (`Model/TsInst.lean`), the reference demultiplexer / Annex-B / ADTS parsers are
`Spec/TsDemux.lean`, `Spec/TsOracle.lean`; helper lemmas live in `Lemmas/Ts*.lean`.
-/
import IpcHub.Lemmas.TsStream
import IpcHub.Lemmas.TsEs
import IpcHub.Model.TsInst
namespace IpcHub.Props.C09
open IpcHub.Ts IpcHub.TsSpec IpcHub.TsLemmas

/-- The source facts the theorems rest on, regenerated from /repo on every run: every tracked
    shape was recognised; the PCR adaptation field is 7 bytes with flags 0x50; PES_packet_length
    is 0 above 0xffff; prepareAvcHeader inserts the delimiter for types 1/5/6, SPS/PPS for type 5
    and has NO early return that skips the start code; key = IDR; the ADTS template. -/
theorem c09_source_facts :
    IpcHub.Gen.tsFactsUnknown = [] ∧ CfgOk genCfg ∧ AvcCfgOk genCfg ∧ AdtsCfgOk genCfg ∧
    genCfg.keyType = 5 ∧ genCfg.videoPid < 8192 ∧ genCfg.audioPid < 8192 ∧
    genCfg.videoPid ≠ genCfg.audioPid ∧ genCfg.videoSid / 16 = 0xe ∧ genCfg.audioSid / 32 = 6 ∧
    genCfg.videoSid < 256 := by
  unfold CfgOk AvcCfgOk AdtsCfgOk
  decide

/-- PAT/PMT block (on the generated table, by kernel evaluation of the reference PSI parser,
    CRC-32 included): two whole packets; the PAT names one program whose PMT is the second
    packet; the PMT announces H.264 (0x1B) on the video PID and AAC (0x0F) on the audio PID the
    writer uses, PCR on the video PID. -/
theorem c09_header_block :
    genCfg.header.length = 2 * 188 ∧
    parseProgram (genCfg.header.take 188) (genCfg.header.drop 188) =
      some { program := 1, pcrPid := genCfg.videoPid,
             streams := [(0x1b, genCfg.videoPid), (0x0f, genCfg.audioPid)] } := by
  constructor <;> decide +kernel

/-- One frame, every size: for EVERY frame with a non-empty payload, every header, every
    continuity-counter value, PTS/DTS below 2^33 (PID 13 bits, stream id 8 bits), the packets
    written for it are whole 188-byte packets that the reference parser accepts (sync byte,
    no error/scrambling bits), all on the frame's PID, with continuity counters cc+1, cc+2, …
    modulo 16, the first one with payload_unit_start; and reassembling them yields exactly ONE
    PES packet with the frame's stream id, PTS, DTS (field present iff it differs from the
    PTS), payload = header ++ payload byte for byte, and on key frames the random-access
    indicator and a PCR equal to the DTS.  All payload sizes modulo 184, with and without PCR,
    PTS only and PTS+DTS, PES longer than 65535 are covered by the proof (case analysis in
    `firstPacket_parse` / `contPacket_parse`, induction in `contPackets_parse`). -/
theorem c09_frame_roundtrip (f : Frame) (cc : Nat) (hf : FrameOk f) (hne : f.payload ≠ []) :
    ∃ tps, parsePackets (framePackets genCfg f cc) = some tps
      ∧ (∀ p ∈ tps, p.pid = f.pid) ∧ ccChain cc tps = true
      ∧ (tps.head?.map (·.pusi)) = some true
      ∧ demuxPid f.pid tps = some [pesOf f] :=
  framePackets_demux genCfg f cc c09_source_facts.2.1 hf hne

/-- A whole stream, every frame list: for EVERY list of frames on the video and audio PID (any
    sizes, empty payloads allowed, any interleaving), the bytes written by NewWriter followed by
    WriteMpegtsFrame per frame are: the PAT/PMT block followed by whole 188-byte packets
    (`chunk188` returns the header's two packets and the media packets); every media packet is
    accepted by the reference parser and is on one of the two PIDs; the continuity counter of
    each PID counts 1, 2, 3, … modulo 16 across all frames; demultiplexing each PID yields
    exactly one PES per frame with a non-empty payload, in order, each with the frame's bytes,
    stream id, PTS/DTS, random-access flag and PCR (`pesOf`); the order in which the PES
    packets start is the order of the frames. -/
theorem c09_stream (fs : List Frame)
    (h : ∀ f ∈ fs, FrameOk f ∧ (f.pid = genCfg.videoPid ∨ f.pid = genCfg.audioPid)) :
    ∃ media tps,
      chunk188 ((writeStream genCfg fs).length / 188 + 1) (writeStream genCfg fs)
        = some (genCfg.header.take 188 :: genCfg.header.drop 188 :: media)
      ∧ parsePackets media = some tps
      ∧ (∀ p ∈ tps, p.pid = genCfg.videoPid ∨ p.pid = genCfg.audioPid)
      ∧ ccChain 0 (tps.filter (·.pid == genCfg.videoPid)) = true
      ∧ ccChain 0 (tps.filter (·.pid == genCfg.audioPid)) = true
      ∧ demuxPid genCfg.videoPid tps = some (pesFor genCfg.videoPid fs)
      ∧ demuxPid genCfg.audioPid tps = some (pesFor genCfg.audioPid fs)
      ∧ (tps.filter (·.pusi)).map (·.pid) = startPids fs := by
  obtain ⟨tps, hp, hpid, hv, ha, hu, ho⟩ :=
    writeFrames_parse genCfg c09_source_facts.2.1 c09_source_facts.2.2.2.2.2.2.2.1 fs {} h
  have h188 := parsePackets_all188 _ _ hp
  refine ⟨Ts.writeFrames genCfg {} fs, tps, ?_, hp, hpid, hv, ha, ?_, ?_, ho⟩
  · have hall : ∀ p ∈ genCfg.header.take 188 :: genCfg.header.drop 188 :: Ts.writeFrames genCfg {} fs, p.length = 188 := by
      intro p hp'
      rcases List.mem_cons.mp hp' with rfl | hp'
      · decide +kernel
      · rcases List.mem_cons.mp hp' with rfl | hp'
        · decide +kernel
        · exact h188 p hp'
    have hcat : writeStream genCfg fs
        = (genCfg.header.take 188 :: genCfg.header.drop 188 :: Ts.writeFrames genCfg {} fs).flatten := by
      simp only [writeStream, List.flatten_cons, ← List.append_assoc, List.take_append_drop]
    rw [hcat]
    apply chunk188_flatten _ _ _ hall
    have hl : (genCfg.header.take 188 :: genCfg.header.drop 188 :: Ts.writeFrames genCfg {} fs).flatten.length
        = 188 * (Ts.writeFrames genCfg {} fs).length + 376 := by
      simp only [List.flatten_cons, List.length_append]
      have e1 : (genCfg.header.take 188).length = 188 := by decide +kernel
      have e2 : (genCfg.header.drop 188).length = 188 := by decide +kernel
      have e3 : ∀ (l : List (List UInt8)), (∀ p ∈ l, p.length = 188) → l.flatten.length = 188 * l.length := by
        intro l
        induction l with
        | nil => intro _; simp
        | cons a l ih =>
          intro hl
          simp only [List.flatten_cons, List.length_append, List.length_cons, hl a (List.mem_cons_self ..),
            ih (fun p hp => hl p (List.mem_cons_of_mem _ hp))]
          omega
      rw [e1, e2, e3 _ h188]; omega
    rw [hl]
    simp only [List.length_cons]
    omega
  · obtain ⟨u, hu1, hu2⟩ := hu genCfg.videoPid
    simp [demuxPid, hu1, hu2]
  · obtain ⟨u, hu1, hu2⟩ := hu genCfg.audioPid
    simp [demuxPid, hu1, hu2]

/-- a frame with an empty payload writes nothing (`if len(frame.Payload) <= 0 { return }`) -/
theorem c09_empty_payload_writes_nothing (f : Frame) (cc : Nat) (h : f.payload = []) :
    framePackets genCfg f cc = [] := by
  simp [framePackets, h]

/-- Video elementary stream: for every NAL unit (any type, any length ≥ 1) and every SPS/PPS,
    the PES payload (header built by prepareAvcHeader ++ the NAL) is an Annex-B byte stream —
    every unit preceded by a start code — of a form the specification allows
    (`expectedNalsAlts`, written from the statement: a coded slice MUST have the access unit
    delimiter in front, an IDR slice also the stream's SPS and PPS; other units may or may not):
    concretely (`modelNals`) the delimiter in front of slices, IDR slices and SEI; the stream's
    SPS and PPS (when known) in front of an IDR slice; then the source NAL unit, unchanged.
    Key flag = IDR; PID/stream id fixed; 90 kHz stamps. -/
theorem c09_annexb (sps pps nal : List UInt8) (dtsNs ptsNs : Int) (f : Frame)
    (h : videoFrame genCfg sps pps dtsNs ptsNs nal = some f) (aot sr ch : Nat) :
    (expectedNalsAlts { sps, pps, aot, srIndex := sr, chanCfg := ch } nal).any (matchAnnexB · (f.header ++ f.payload)) = true
    ∧ modelNals { sps, pps, aot, srIndex := sr, chanCfg := ch } nal ∈ expectedNalsAlts { sps, pps, aot, srIndex := sr, chanCfg := ch } nal
    ∧ matchAnnexB (modelNals { sps, pps, aot, srIndex := sr, chanCfg := ch } nal) (f.header ++ f.payload) = true
    ∧ f.payload = nal ∧ f.key = isKey nal ∧ f.pid = genCfg.videoPid ∧ f.streamId = genCfg.videoSid
    ∧ f.dts = toTicks dtsNs ∧ f.pts = toTicks ptsNs := by
  cases nal with
  | nil => simp [videoFrame] at h
  | cons b0 tl =>
    cases hh : avcHeader genCfg sps pps (b0 :: tl) with
    | none => simp [videoFrame, hh] at h
    | some hdr =>
      simp only [videoFrame, hh] at h
      injection h with h; subst h
      refine ⟨avcHeader_alts genCfg c09_source_facts.2.2.1 { sps, pps, aot, srIndex := sr, chanCfg := ch } _ _ hh,
        modelNals_mem_alts _ _,
        avcHeader_annexb genCfg c09_source_facts.2.2.1 { sps, pps, aot, srIndex := sr, chanCfg := ch } _ _ hh,
        rfl, ?_, rfl, rfl, rfl, rfl⟩
      rw [Bool.eq_iff_iff]; simp [isKey, nalType, c09_source_facts.2.2.2.2.1]
      exact (decide_eq_true_iff).symm

/-- the video packetizer fails only on an empty payload (index out of range on Payload[0]) -/
theorem c09_video_total (sps pps nal : List UInt8) (d p : Int) (h : nal ≠ []) :
    (videoFrame genCfg sps pps d p nal).isSome = true := by
  cases nal with
  | nil => exact absurd rfl h
  | cons b0 tl =>
    have : ∃ h', avcHeader genCfg sps pps (b0 :: tl) = some h' := ⟨_, rfl⟩
    obtain ⟨h', hh⟩ := this
    simp [videoFrame, hh]

/-- Why the absence of the early return matters (the code before fix b0e3094): with
    `if nalUnitType >= 7 && nalUnitType <= 9 { return }` in place, an SPS / PPS / AUD NAL unit is
    written into the PES with no start code at all, which is not an Annex-B stream.
    Replayed on the implementation by corpus/C09/paramset-no-startcode.case. -/
theorem c09_paramset_no_startcode_witness :
    let old : Cfg := { genCfg with skipLo := 7, skipHi := 9 }
    avcHeader old [0x67, 0x42] [0x68, 0xce] [0x67, 0x42, 0x00] = some [] ∧
    (expectedNalsAlts { sps := [0x67, 0x42], pps := [0x68, 0xce], aot := 2, srIndex := 4, chanCfg := 2 }
      [0x67, 0x42, 0x00]).any (matchAnnexB · ([] ++ [0x67, 0x42, 0x00])) = false ∧
    splitAnnexB ([] ++ [0x67, 0x42, 0x00]) = none := by
  decide

/-- Audio elementary stream: for every AAC frame shorter than 2^13 − 7 bytes and every decoded
    AudioSpecificConfig with object type 1‥4, frequency index < 16, channel configuration < 8,
    the PES payload is one well-formed ADTS frame (syncword, MPEG-4, layer 0, no CRC,
    frame_length = 7 + n, one raw data block) carrying object type − 1, the frequency index and
    the channel configuration of the config and exactly the source bytes — and the parser
    continues right behind it (frame lengths chain). -/
theorem c09_adts (a : Asc) (payload rest : List UInt8) (ptsNs : Int) (f : Frame)
    (hot : 1 ≤ a.objectType ∧ a.objectType ≤ 4) (hch : a.channelConfig < 8)
    (hsi : a.samplingIndex < 16 ∧ a.extSamplingIndex < 16)
    (hlen : payload.length + 7 < 2^13)
    (h : audioFrame genCfg (some a) ptsNs payload = some f) (fuel : Nat) :
    parseAdts (fuel + 1) (f.header ++ (f.payload ++ rest))
      = (parseAdts fuel rest).map
          ({ profile := a.objectType - 1,
             srIndex := if a.extSampleRate > 0 then a.extSamplingIndex else a.samplingIndex,
             chanCfg := a.channelConfig, payload := payload } :: ·)
    ∧ f.pid = genCfg.audioPid ∧ f.streamId = genCfg.audioSid ∧ f.key = false
    ∧ f.pts = toTicks ptsNs ∧ f.dts = toTicks ptsNs := by
  simp only [audioFrame] at h
  injection h with h; subst h
  refine ⟨?_, rfl, rfl, rfl, rfl, rfl⟩
  simp only [ascAdtsHeader, adtsHeader]
  have hp : (a.objectType + 255) % 256 = a.objectType - 1 := by omega
  have := parseAdts_adtsHeader genCfg c09_source_facts.2.2.2.1 (a.objectType - 1)
    (if a.extSampleRate > 0 then a.extSamplingIndex else a.samplingIndex) a.channelConfig
    (by omega) (by split <;> omega) hch payload rest hlen fuel
  simp only [adtsHeader] at this
  have hm1 : (a.objectType - 1) % 256 = a.objectType - 1 := by omega
  rw [hp]
  rw [hm1] at this
  exact this

/-! ### non-vacuity: the hypotheses are met by concrete, non-trivial values -/

/-- a key frame with PTS ≠ DTS satisfies `FrameOk` and has a non-empty payload -/
example : FrameOk { pid := 256, streamId := 0xe0, dts := 90000, pts := 93003, header := [0,0,0,1,9,0xf0,0,0,1],
                    payload := [0x65, 0x88], key := true } := by
  unfold FrameOk; decide

/-- the hypothesis of `c09_stream` holds for a video + audio pair -/
example : ∀ f ∈ [({ pid := 256, streamId := 0xe0, dts := 0, pts := 3003, header := [0,0,0,1], payload := [0x65], key := true } : Frame),
                 { pid := 257, streamId := 0xc0, dts := 10, pts := 10, header := [0xff,0xf1], payload := [1,2,3], key := false }],
    FrameOk f ∧ (f.pid = genCfg.videoPid ∨ f.pid = genCfg.audioPid) := by
  unfold FrameOk; decide

example : ∃ f, videoFrame genCfg [0x67, 0x42] [0x68, 0xce] 1000000000 1033366667 [0x65, 0x88, 0x84] = some f ∧ f.key = true :=
  ⟨_, rfl, by decide⟩

example : ∃ f, audioFrame genCfg (some { objectType := 2, samplingIndex := 4, extSampleRate := 0, extSamplingIndex := 0, channelConfig := 2 })
    23219955 [0x21, 0x10, 0x05] = some f := ⟨_, rfl⟩

end IpcHub.Props.C09
