/-
C09 — MPEG-TS output is structurally valid and carries the source frames faithfully.
Property theorems only; the model is `Model/Ts.lean` instantiated with the facts regenerated
from /repo (`Model/TsInst.lean`), the reference demultiplexer / Annex-B / ADTS parsers are
`Spec/TsDemux.lean`, `Spec/TsOracle.lean`; helper lemmas live in `Lemmas/Ts*.lean`.
-/
import IpcHub.Lemmas.TsStream
import IpcHub.Lemmas.TsEs
import IpcHub.Lemmas.TsHolds
import IpcHub.Model.TsInst
namespace IpcHub.Props.C09
open IpcHub.Ts IpcHub.TsSpec IpcHub.TsLemmas

/-- The source facts the theorems rest on, regenerated from /repo on every run: every tracked
    shape was recognised; the PCR adaptation field is 7 bytes with flags 0x50; PES_packet_length
    is 0 above 0xffff; prepareAvcHeader inserts the delimiter for types 1/5/6, SPS/PPS for type 5
    and has NO early return that skips the start code; key = IDR; the ADTS template. -/
theorem c09_source_facts :
    IpcHub.Gen.tsFactsUnknown = [] ∧ CfgOk genCfg ∧ AvcCfgOk genCfg ∧ AdtsCfgOk genCfg ∧
    genCfg.keyType = 5 ∧ genCfg.videoPid < 8192 ∧ genCfg.audioPid < 8192 ∧
    genCfg.videoPid ≠ genCfg.audioPid ∧ genCfg.videoSid / 16 = 0xe ∧ genCfg.audioSid / 32 = 6 ∧
    genCfg.videoSid < 256 := by
  unfold CfgOk AvcCfgOk AdtsCfgOk
  decide

/-- PAT/PMT block (on the generated table, by kernel evaluation of the reference PSI parser,
    CRC-32 included): two whole packets; the PAT names one program whose PMT is the second
    packet; the PMT announces H.264 (0x1B) on the video PID and AAC (0x0F) on the audio PID the
    writer uses, PCR on the video PID. -/
theorem c09_header_block :
    genCfg.header.length = 2 * 188 ∧
    parseProgram (genCfg.header.take 188) (genCfg.header.drop 188) =
      some { program := 1, pcrPid := genCfg.videoPid,
             streams := [(0x1b, genCfg.videoPid), (0x0f, genCfg.audioPid)] } := by
  constructor <;> decide +kernel

/-- One frame, every size: for EVERY frame with a non-empty payload, every header, every
    continuity-counter value, PTS/DTS below 2^33 (PID 13 bits, stream id 8 bits), the packets
    written for it are whole 188-byte packets that the reference parser accepts (sync byte,
    no error/scrambling bits), all on the frame's PID, with continuity counters cc+1, cc+2, …
    modulo 16, the first one with payload_unit_start; and reassembling them yields exactly ONE
    PES packet with the frame's stream id, PTS, DTS (field present iff it differs from the
    PTS), payload = header ++ payload byte for byte, and on key frames the random-access
    indicator and a PCR equal to the DTS.  All payload sizes modulo 184, with and without PCR,
    PTS only and PTS+DTS, PES longer than 65535 are covered by the proof (case analysis in
    `firstPacket_parse` / `contPacket_parse`, induction in `contPackets_parse`). -/
theorem c09_frame_roundtrip (f : Frame) (cc : Nat) (hf : FrameOk f) (hne : f.payload ≠ []) :
    ∃ tps, parsePackets (framePackets genCfg f cc) = some tps
      ∧ (∀ p ∈ tps, p.pid = f.pid) ∧ ccChain cc tps = true
      ∧ (tps.head?.map (·.pusi)) = some true
      ∧ demuxPid f.pid tps = some [pesOf f] :=
  framePackets_demux genCfg f cc c09_source_facts.2.1 hf hne

/-- A whole stream, every frame list: for EVERY list of frames on the video and audio PID (any
    sizes, empty payloads allowed, any interleaving), the bytes written by NewWriter followed by
    WriteMpegtsFrame per frame are: the PAT/PMT block followed by whole 188-byte packets
    (`chunk188` returns the header's two packets and the media packets); every media packet is
    accepted by the reference parser and is on one of the two PIDs; the continuity counter of
    each PID counts 1, 2, 3, … modulo 16 across all frames; demultiplexing each PID yields
    exactly one PES per frame with a non-empty payload, in order, each with the frame's bytes,
    stream id, PTS/DTS, random-access flag and PCR (`pesOf`); the order in which the PES
    packets start is the order of the frames. -/
theorem c09_stream (fs : List Frame)
    (h : ∀ f ∈ fs, FrameOk f ∧ (f.pid = genCfg.videoPid ∨ f.pid = genCfg.audioPid)) :
    ∃ media tps,
      chunk188 ((writeStream genCfg fs).length / 188 + 1) (writeStream genCfg fs)
        = some (genCfg.header.take 188 :: genCfg.header.drop 188 :: media)
      ∧ parsePackets media = some tps
      ∧ (∀ p ∈ tps, p.pid = genCfg.videoPid ∨ p.pid = genCfg.audioPid)
      ∧ ccChain 0 (tps.filter (·.pid == genCfg.videoPid)) = true
      ∧ ccChain 0 (tps.filter (·.pid == genCfg.audioPid)) = true
      ∧ demuxPid genCfg.videoPid tps = some (pesFor genCfg.videoPid fs)
      ∧ demuxPid genCfg.audioPid tps = some (pesFor genCfg.audioPid fs)
      ∧ (tps.filter (·.pusi)).map (·.pid) = startPids fs :=
  writeStream_spec fs h

/-- a frame with an empty payload writes nothing (`if len(frame.Payload) <= 0 { return }`) -/
theorem c09_empty_payload_writes_nothing (f : Frame) (cc : Nat) (h : f.payload = []) :
    framePackets genCfg f cc = [] := by
  simp [framePackets, h]

/-- Video elementary stream: for every NAL unit (any type, any length ≥ 1) and every SPS/PPS,
    the PES payload (header built by prepareAvcHeader ++ the NAL) is an Annex-B byte stream —
    every unit preceded by a start code — of a form the specification allows
    (`expectedNalsAlts`, written from the statement: a coded slice MUST have the access unit
    delimiter in front, an IDR slice also the stream's SPS and PPS; other units may or may not):
    concretely (`modelNals`) the delimiter in front of slices, IDR slices and SEI; the stream's
    SPS and PPS (when known) in front of an IDR slice; then the source NAL unit, unchanged.
    Key flag = IDR; PID/stream id fixed; 90 kHz stamps. -/
theorem c09_annexb (sps pps nal : List UInt8) (dtsNs ptsNs : Int) (f : Frame)
    (h : videoFrame genCfg sps pps dtsNs ptsNs nal = some f) (aot sr ch : Nat) :
    (expectedNalsAlts { sps, pps, aot, srIndex := sr, chanCfg := ch } nal).any (matchAnnexB · (f.header ++ f.payload)) = true
    ∧ modelNals { sps, pps, aot, srIndex := sr, chanCfg := ch } nal ∈ expectedNalsAlts { sps, pps, aot, srIndex := sr, chanCfg := ch } nal
    ∧ matchAnnexB (modelNals { sps, pps, aot, srIndex := sr, chanCfg := ch } nal) (f.header ++ f.payload) = true
    ∧ f.payload = nal ∧ f.key = isKey nal ∧ f.pid = genCfg.videoPid ∧ f.streamId = genCfg.videoSid
    ∧ f.dts = toTicks dtsNs ∧ f.pts = toTicks ptsNs := by
  cases nal with
  | nil => simp [videoFrame] at h
  | cons b0 tl =>
    cases hh : avcHeader genCfg sps pps (b0 :: tl) with
    | none => simp [videoFrame, hh] at h
    | some hdr =>
      simp only [videoFrame, hh] at h
      injection h with h; subst h
      refine ⟨avcHeader_alts genCfg c09_source_facts.2.2.1 { sps, pps, aot, srIndex := sr, chanCfg := ch } _ _ hh,
        modelNals_mem_alts _ _,
        avcHeader_annexb genCfg c09_source_facts.2.2.1 { sps, pps, aot, srIndex := sr, chanCfg := ch } _ _ hh,
        rfl, ?_, rfl, rfl, rfl, rfl⟩
      rw [Bool.eq_iff_iff]; simp [isKey, nalType, c09_source_facts.2.2.2.2.1]
      exact (decide_eq_true_iff).symm

/-- the video packetizer fails only on an empty payload (index out of range on Payload[0]) -/
theorem c09_video_total (sps pps nal : List UInt8) (d p : Int) (h : nal ≠ []) :
    (videoFrame genCfg sps pps d p nal).isSome = true := by
  cases nal with
  | nil => exact absurd rfl h
  | cons b0 tl =>
    have : ∃ h', avcHeader genCfg sps pps (b0 :: tl) = some h' := ⟨_, rfl⟩
    obtain ⟨h', hh⟩ := this
    simp [videoFrame, hh]

/-- Why the absence of the early return matters (the code before fix b0e3094): with
    `if nalUnitType >= 7 && nalUnitType <= 9 { return }` in place, an SPS / PPS / AUD NAL unit is
    written into the PES with no start code at all, which is not an Annex-B stream.
    Replayed on the implementation by corpus/C09/paramset-no-startcode.case. -/
theorem c09_paramset_no_startcode_witness :
    let old : Cfg := { genCfg with skipLo := 7, skipHi := 9 }
    avcHeader old [0x67, 0x42] [0x68, 0xce] [0x67, 0x42, 0x00] = some [] ∧
    (expectedNalsAlts { sps := [0x67, 0x42], pps := [0x68, 0xce], aot := 2, srIndex := 4, chanCfg := 2 }
      [0x67, 0x42, 0x00]).any (matchAnnexB · ([] ++ [0x67, 0x42, 0x00])) = false ∧
    splitAnnexB ([] ++ [0x67, 0x42, 0x00]) = none := by
  decide

/-- Audio elementary stream: for every AAC frame shorter than 2^13 − 7 bytes and every decoded
    AudioSpecificConfig with object type 1‥4, frequency index < 16, channel configuration < 8,
    the PES payload is one well-formed ADTS frame (syncword, MPEG-4, layer 0, no CRC,
    frame_length = 7 + n, one raw data block) carrying object type − 1, the frequency index and
    the channel configuration of the config and exactly the source bytes — and the parser
    continues right behind it (frame lengths chain). -/
theorem c09_adts (a : Asc) (payload rest : List UInt8) (ptsNs : Int) (f : Frame)
    (hot : 1 ≤ a.objectType ∧ a.objectType ≤ 4) (hch : a.channelConfig < 8)
    (hsi : a.samplingIndex < 16 ∧ a.extSamplingIndex < 16)
    (hlen : payload.length + 7 < 2^13)
    (h : audioFrame genCfg (some a) ptsNs payload = some f) (fuel : Nat) :
    parseAdts (fuel + 1) (f.header ++ (f.payload ++ rest))
      = (parseAdts fuel rest).map
          ({ profile := a.objectType - 1,
             srIndex := if a.extSampleRate > 0 then a.extSamplingIndex else a.samplingIndex,
             chanCfg := a.channelConfig, payload := payload } :: ·)
    ∧ f.pid = genCfg.audioPid ∧ f.streamId = genCfg.audioSid ∧ f.key = false
    ∧ f.pts = toTicks ptsNs ∧ f.dts = toTicks ptsNs := by
  simp only [audioFrame] at h
  injection h with h; subst h
  refine ⟨?_, rfl, rfl, rfl, rfl, rfl⟩
  simp only [ascAdtsHeader, adtsHeader]
  have hp : (a.objectType + 255) % 256 = a.objectType - 1 := by omega
  have := parseAdts_adtsHeader genCfg c09_source_facts.2.2.2.1 (a.objectType - 1)
    (if a.extSampleRate > 0 then a.extSamplingIndex else a.samplingIndex) a.channelConfig
    (by omega) (by split <;> omega) hch payload rest hlen fuel
  simp only [adtsHeader] at this
  have hm1 : (a.objectType - 1) % 256 = a.objectType - 1 := by omega
  rw [hp]
  rw [hm1] at this
  exact this

/-- COMPOSITION — the statement of C09 as ONE predicate, proved of the model for every input.
    `TsSpec.holds` is the executable specification the check evaluates on the bytes the real
    code wrote (whole 188-byte packets; PAT + PMT first, announcing H.264 and AAC, CRCs valid;
    only the announced PIDs; continuity per PID; every PES well formed; per video frame ONE PES
    whose Annex-B data is the source NAL unit with delimiter / SPS / PPS as `expectedNalsAlts`
    demands, PTS and DTS the supplied 90 kHz values, random-access flag and PCR = DTS exactly on
    IDR frames; per AAC frame ONE PES that is one well-formed ADTS frame with the config's
    profile / frequency index / channels and exactly the source bytes; PES packets start in the
    order of the frames).  For EVERY list of codec frames in the domain (`AvOk`: video payload
    not empty, AAC frame below 8185 bytes, time stamps ≥ 0 and below 2^33 ticks; any NAL types,
    any sizes, any interleaving of video / audio / other frames), every SPS / PPS (known or not)
    and every ADTS-expressible AudioSpecificConfig, the stream the model's Muxer → packetizers →
    Writer produce is accepted, and no packetizer panics.  Together with the correspondence run
    (model bytes = implementation bytes on the generated inputs, facts regenerated) this is the
    property for the code; a change that breaks a clause shows up as a failing `holds` on the
    implementation's bytes (oracle finding) or as a broken proof here. -/
theorem c09_holds (m : Meta) (a : Asc) (frames : List AvFrame) (hasc : m.asc = some a) (ha : AscOk a)
    (hf : ∀ f ∈ frames, AvOk f) :
    (muxFrames genCfg m frames).2 = false
    ∧ holds (paramsOf m.sps m.pps a) (frames.flatMap srcOf)
        (writeStream genCfg (muxFrames genCfg m frames).1) = .ok () :=
  ⟨muxFrames_nopanic m frames hf, holds_model m a hasc ha frames hf⟩

/-! ### non-vacuity: the hypotheses are met by concrete, non-trivial values -/

/-- the hypotheses of `c09_holds`: an AAC-LC 44.1 kHz stereo config and a video + audio pair -/
example : AscOk { objectType := 2, samplingIndex := 4, extSampleRate := 0, extSamplingIndex := 0, channelConfig := 2 } := by
  unfold AscOk; decide

example : ∀ f ∈ [({ media := .video, dtsNs := 1000000000, ptsNs := 1033366667, payload := [0x65, 0x88, 0x84] } : AvFrame),
                 { media := .audio, dtsNs := 1000000000, ptsNs := 1000000000, payload := [0x21, 0x10, 0x05] }],
    AvOk f := by
  intro f hf
  simp only [List.mem_cons, List.mem_nil_iff, or_false] at hf
  rcases hf with rfl | rfl <;> (unfold AvOk TickOk toTicks; decide)


/-- a key frame with PTS ≠ DTS satisfies `FrameOk` and has a non-empty payload -/
example : FrameOk { pid := 256, streamId := 0xe0, dts := 90000, pts := 93003, header := [0,0,0,1,9,0xf0,0,0,1],
                    payload := [0x65, 0x88], key := true } := by
  unfold FrameOk; decide

/-- the hypothesis of `c09_stream` holds for a video + audio pair -/
example : ∀ f ∈ [({ pid := 256, streamId := 0xe0, dts := 0, pts := 3003, header := [0,0,0,1], payload := [0x65], key := true } : Frame),
                 { pid := 257, streamId := 0xc0, dts := 10, pts := 10, header := [0xff,0xf1], payload := [1,2,3], key := false }],
    FrameOk f ∧ (f.pid = genCfg.videoPid ∨ f.pid = genCfg.audioPid) := by
  unfold FrameOk; decide

example : ∃ f, videoFrame genCfg [0x67, 0x42] [0x68, 0xce] 1000000000 1033366667 [0x65, 0x88, 0x84] = some f ∧ f.key = true :=
  ⟨_, rfl, by decide⟩

example : ∃ f, audioFrame genCfg (some { objectType := 2, samplingIndex := 4, extSampleRate := 0, extSamplingIndex := 0, channelConfig := 2 })
    23219955 [0x21, 0x10, 0x05] = some f := ⟨_, rfl⟩

end IpcHub.Props.C09
