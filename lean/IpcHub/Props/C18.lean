/-
C18 — Users and routes survive edits, reloads and crashes intact.
Property theorems only; helper lemmas live in IpcHub/Lemmas/Tables.lean, Lemmas/TableInst.lean,
Lemmas/Fs.lean, Lemmas/PathCanon.lean.  Models: Model/Tables.lean (manager / routetable: map,
list, saves, removes, Flush guard, Reset), Model/UserTable.lean, Model/Route.lean (init, CopyFrom),
Model/Fs.lean (file system with process crashes and power loss); specification: Spec/Table.lean,
Spec/UserEntry.lean.
-/
import IpcHub.Lemmas.TableInst
import IpcHub.Lemmas.Fs
import IpcHub.Lemmas.PathCanon
namespace IpcHub.Props.C18
open IpcHub.Tables IpcHub.TableSpec IpcHub.UserTable IpcHub.Route IpcHub.EntrySpecs IpcHub.Fs

/-- The source facts the theorems rest on, regenerated from /repo on every run: both Flush
    methods hand the full list to the provider and clear the change lists, both JSON providers
    write that list with EncodeJSONFile, the literal returned for a missing file, the lock taken
    by every method of both tables, and the file-system program of EncodeJSONFile, whose
    essential part is: open/truncate the *temporary* file, write, fsync, rename over the target. -/
theorem c18_source_facts :
    IpcHub.Gen.tableFactsUnknown = [] ∧
    IpcHub.Gen.managerFlushPassesFull = true ∧ IpcHub.Gen.routetableFlushPassesFull = true ∧
    IpcHub.Gen.userJsonFlushWritesFull = true ∧ IpcHub.Gen.routeJsonFlushWritesFull = true ∧
    IpcHub.Gen.userJsonMissingFile = "[]*User{{Name:\"admin\",Password:\"admin\",Admin:true}}" ∧
    IpcHub.Gen.routeJsonMissingFile = "nil" ∧
    IpcHub.Gen.managerLocks = ["Reset:Lock", "Get:RLock", "Del:Lock", "Save:Lock", "Flush:Lock", "All:RLock"] ∧
    IpcHub.Gen.routetableLocks = ["Reset:Lock", "Get:RLock", "Del:Lock", "Save:Lock", "Flush:Lock", "All:RLock", "Match:RLock"] ∧
    Fs.genProg.map essential = some atomicProg := by
  decide

/-- USERS.  For EVERY history of save(update_password?) / delete / flush / restart, of any
    length, over any names, from a first start without a file: the list the manager holds equals
    the abstract table of the specification (update keeps the password unless asked, names
    lower-cased, an administrator's empty right becomes "*", delete then re-create leaves one
    entry, order = first insertion); `Get` agrees with the abstract lookup; the representation
    invariant holds (map keys distinct, every entry filed under its own name, list = map); and a
    restart at this point would load exactly what the specification says is persisted.
    `guarded` is the regenerated fact "Flush returns early when nothing is pending". -/
theorem c18_users_refine (lower : Char → Char) (hl : ∀ c, lower (lower c) = lower c) (ops : List (Op User)) :
    let sv := Server.run (userOps lower) IpcHub.Gen.managerFlushGuard defaultUsers (Server.boot (userOps lower) defaultUsers .missing).1 ops
    let a := Abs.run (userSpec lower) defaultUsers (Abs.fresh (userSpec lower) defaultUsers) ops
    all sv.st = a.cur ∧ (∀ name, get (userOps lower) sv.st name = specGet (userSpec lower) a.cur name) ∧
    WF (userOps lower) sv.st ∧
    restartView (userOps lower) defaultUsers sv.disk = specLoad (userSpec lower) defaultUsers a.disk := by
  have h := userHyps lower hl
  have hs := sim_run _ _ _ _ IpcHub.Gen.managerFlushGuard h ops _ _ (sim_fresh _ _ _ _ h)
  refine ⟨hs.cur, ?_, hs.good.wf, hs.view⟩
  intro name
  rw [← hs.cur]; exact get_spec _ _ _ h.refines _ name hs.good

/-- ROUTES, generic form: the same for the route table (patterns canonicalised, a route whose URL
    does not parse is rejected, update keeps the pattern), for any configuration whose
    CanonicalPath is idempotent. -/
theorem c18_routes_refine_generic (cfg : Route.Cfg) (hidem : ∀ p, canon cfg (canon cfg p) = canon cfg p)
    (guarded : Bool) (ops : List (Op Route)) :
    let sv := Server.run (routeOps cfg) guarded defaultRoutes (Server.boot (routeOps cfg) defaultRoutes .missing).1 ops
    let a := Abs.run (routeSpec cfg) defaultRoutes (Abs.fresh (routeSpec cfg) defaultRoutes) ops
    all sv.st = a.cur ∧ (∀ name, get (routeOps cfg) sv.st name = specGet (routeSpec cfg) a.cur name) ∧
    WF (routeOps cfg) sv.st ∧
    restartView (routeOps cfg) defaultRoutes sv.disk = specLoad (routeSpec cfg) defaultRoutes a.disk := by
  have h := routeHyps cfg hidem
  have hs := sim_run _ _ _ _ guarded h ops _ _ (sim_fresh _ _ _ _ h)
  refine ⟨hs.cur, ?_, hs.good.wf, hs.view⟩
  intro name
  rw [← hs.cur]; exact get_spec _ _ _ h.refines _ name hs.good

/-- After a flush a restarted server loads exactly the table it had: for every history `ops`,
    appending `flush; restart` leaves the table unchanged (users). -/
theorem c18_users_reload (lower : Char → Char) (hl : ∀ c, lower (lower c) = lower c) (ops : List (Op User)) :
    let boot := (Server.boot (userOps lower) defaultUsers .missing).1
    all (Server.run (userOps lower) IpcHub.Gen.managerFlushGuard defaultUsers boot (ops ++ [.flush, .restart])).st =
    all (Server.run (userOps lower) IpcHub.Gen.managerFlushGuard defaultUsers boot ops).st := by
  have h1 := (c18_users_refine lower hl (ops ++ [.flush, .restart])).1
  have h2 := (c18_users_refine lower hl ops).1
  simp only at h1 h2 ⊢
  rw [h1, h2, abs_run_append]
  simp [Abs.run, Abs.step, specLoad]

/-- … and the same for routes. -/
theorem c18_routes_reload_generic (cfg : Route.Cfg) (hidem : ∀ p, canon cfg (canon cfg p) = canon cfg p)
    (guarded : Bool) (ops : List (Op Route)) :
    let boot := (Server.boot (routeOps cfg) defaultRoutes .missing).1
    all (Server.run (routeOps cfg) guarded defaultRoutes boot (ops ++ [.flush, .restart])).st =
    all (Server.run (routeOps cfg) guarded defaultRoutes boot ops).st := by
  have h1 := (c18_routes_refine_generic cfg hidem guarded (ops ++ [.flush, .restart])).1
  have h2 := (c18_routes_refine_generic cfg hidem guarded ops).1
  simp only at h1 h2 ⊢
  rw [h1, h2, abs_run_append]
  simp [Abs.run, Abs.step, specLoad]

/-- A flush is never skipped while changes are pending: in every reachable state, whenever both
    change lists are empty (the only case in which `Flush` returns early), a restart would load
    exactly the current table; and the table file is never unreadable, so `Reset` never panics
    and never falls back to the default administrator once a table was flushed. -/
theorem c18_users_flush_skipped_only_when_persisted (lower : Char → Char) (hl : ∀ c, lower (lower c) = lower c)
    (ops : List (Op User)) :
    let sv := Server.run (userOps lower) IpcHub.Gen.managerFlushGuard defaultUsers (Server.boot (userOps lower) defaultUsers .missing).1 ops
    (sv.st.saves = [] → sv.st.removes = [] → restartView (userOps lower) defaultUsers sv.disk = all sv.st) ∧
    (Server.boot (userOps lower) defaultUsers sv.disk).2 = true := by
  have h := userHyps lower hl
  have hs := sim_run _ _ _ _ IpcHub.Gen.managerFlushGuard h ops _ _ (sim_fresh _ _ _ _ h)
  exact ⟨hs.clean, (boot_ok _ _ _ _ h _ hs.disk_ok).1⟩

theorem c18_routes_flush_skipped_only_when_persisted_generic (cfg : Route.Cfg)
    (hidem : ∀ p, canon cfg (canon cfg p) = canon cfg p) (guarded : Bool) (ops : List (Op Route)) :
    let sv := Server.run (routeOps cfg) guarded defaultRoutes (Server.boot (routeOps cfg) defaultRoutes .missing).1 ops
    (sv.st.saves = [] → sv.st.removes = [] → restartView (routeOps cfg) defaultRoutes sv.disk = all sv.st) ∧
    (Server.boot (routeOps cfg) defaultRoutes sv.disk).2 = true := by
  have h := routeHyps cfg hidem
  have hs := sim_run _ _ _ _ guarded h ops _ _ (sim_fresh _ _ _ _ h)
  exact ⟨hs.clean, (boot_ok _ _ _ _ h _ hs.disk_ok).1⟩

/-- Crash atomicity of a flush, for the regenerated program of utils.EncodeJSONFile: for EVERY
    previous content `old` of the table file (or none), every leftover temporary file, every new
    content, EVERY crash point `k` (between any two operations) and every number of bytes a
    write in progress had put out — after a process crash the file is the complete previous or
    the complete new content, and so is every content a power loss may leave.  Never empty,
    truncated or mixed; never missing if it existed. -/
theorem c18_crash_atomic (prog : List FsOp) (hp : Fs.genProg = some prog)
    (old stale : Option Bytes) (new : Bytes) (k : Nat) (part : Option Nat) :
    let fs := crashState new (Fs.initWithStaleTemp old stale) prog k part
    (processOutcome fs = old ∨ processOutcome fs = some new) ∧
    ∀ c, PowerLossOutcome fs c → (c = old ∨ c = some new) := by
  have he : essential prog = atomicProg := by
    have := c18_source_facts.2.2.2.2.2.2.2.2.2
    rw [hp] at this; simpa using this
  obtain ⟨k', part', h⟩ := crashState_essential new prog (Fs.initWithStaleTemp old stale) k part
  simp only
  rw [h, he]
  exact atomicProg_crash old stale new k' part'

/-- … and a flush that runs to completion leaves the new content. -/
theorem c18_flush_completes (prog : List FsOp) (hp : Fs.genProg = some prog)
    (old stale : Option Bytes) (new : Bytes) :
    processOutcome (runN new (Fs.initWithStaleTemp old stale) prog prog.length) = some new := by
  have he : essential prog = atomicProg := by
    have := c18_source_facts.2.2.2.2.2.2.2.2.2
    rw [hp] at this; simpa using this
  rw [runN_essential, he]
  exact atomicProg_done old stale new

/-- non-vacuity: the regenerated program parses -/
example : ∃ prog, Fs.genProg = some prog := by
  cases h : Fs.genProg with
  | none => exact absurd h (by decide)
  | some p => exact ⟨p, rfl⟩

/-- Why the program matters: the pinned EncodeJSONFile (open the *target* with O_TRUNC, marshal,
    write, fsync) is not atomic.  A process dying right after the open leaves an empty file, one
    dying with 3 bytes written a truncated one (replayed on the implementation:
    corpus/C18/flush-crash.case). -/
theorem c18_truncate_in_place_counterexample :
    let pinned : List FsOp := [.openTrunc .target, .hook "opened", .marshal, .hook "before-write", .write .target,
                               .hook "written", .sync .target, .hook "synced"]
    let old : Bytes := [91, 49, 93]          -- "[1]"
    let new : Bytes := [91, 49, 44, 50, 93]  -- "[1,2]"
    processOutcome (crashState new (Fs.init (some old)) pinned 2 none) = some [] ∧
    processOutcome (crashState new (Fs.init (some old)) pinned 4 (some 3)) = some [91, 49, 44] := by
  decide

end IpcHub.Props.C18
