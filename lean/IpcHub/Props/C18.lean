/-
C18 — Users and routes survive edits, reloads and crashes intact.
Property theorems only; helper lemmas live in IpcHub/Lemmas/Tables.lean, Lemmas/Fs.lean.
-/
import IpcHub.Model.TablesInst
import IpcHub.Spec.UserEntry
namespace IpcHub.Props.C18

/-- The source facts the theorems rest on, regenerated from /repo on every run. -/
theorem c18_source_facts :
    IpcHub.Gen.tableFactsUnknown = [] ∧
    IpcHub.Gen.managerFlushPassesFull = true ∧ IpcHub.Gen.routetableFlushPassesFull = true ∧
    IpcHub.Gen.userJsonFlushWritesFull = true ∧ IpcHub.Gen.routeJsonFlushWritesFull = true ∧
    IpcHub.Gen.userJsonMissingFile = "[]*User{{Name:\"admin\",Password:\"admin\",Admin:true}}" ∧
    IpcHub.Gen.routeJsonMissingFile = "nil" ∧
    IpcHub.Gen.managerLocks = ["Reset:Lock", "Get:RLock", "Del:Lock", "Save:Lock", "Flush:Lock", "All:RLock"] ∧
    IpcHub.Gen.routetableLocks = ["Reset:Lock", "Get:RLock", "Del:Lock", "Save:Lock", "Flush:Lock", "All:RLock", "Match:RLock"] := by
  decide

end IpcHub.Props.C18
