/-
C15 — Codec parameter parsing is spec-correct and total on arbitrary bytes.
Property theorems only; helper lemmas live in IpcHub/Lemmas/{Bits,Epb,Pack,H264Sps,H264Dims,Asc,Hevc*,MetaReady}.lean.

Models: Model/Bits.lean (utils/bits/reader.go), Model/Epb.lean (utils/h264or5.go),
Model/H264Sps.lean (av/codec/h264/sps.go, shortcut.go); instantiated with the facts regenerated
from /repo in Model/CodecInst.lean.  Specification: Spec/BitSyntax.lean, Spec/H264Syntax.lean (the
standards' syntax as bit-exact encoders and the derived dimensions), Spec/H264Agree.lean
(field-wise agreement).
-/
import IpcHub.Lemmas.H264Sps
import IpcHub.Lemmas.H264Dims
import IpcHub.Lemmas.Asc
import IpcHub.Lemmas.HevcDecode
import IpcHub.Lemmas.HevcVps
import IpcHub.Lemmas.MetaReady
import IpcHub.Model.CodecInst
namespace IpcHub.Props.C15
open IpcHub.Bits IpcHub.BitSyntax IpcHub.Epb IpcHub.H264 IpcHub.H264Syntax IpcHub.AscSyntax

/-- The source facts the theorems rest on, regenerated from /repo on every run: the reader's
    constants and the statements of `ReadUe`, `ReadSe`, `readUint64`; the H.264 constants, the
    profile list of `Decode`, and the shape of `Width`/`Height`/`FrameRate`. -/
theorem c15_source_facts :
    IpcHub.Gen.codecFactsUnknown = [] ∧
    IpcHub.Gen.bitsMask = [0, 1, 3, 7, 15, 31, 63, 127, 255] ∧
    IpcHub.Gen.readUeLimit = 32 ∧
    IpcHub.Gen.readUeBody = "i := 0 ; for { if bit := r.ReadBit(); !(bit == 0 && i < 32) { break } i++ } ; res = r.Read(i) ; res += (1 << uint(i)) - 1 ; return" ∧
    IpcHub.Gen.readSeFromUe = true ∧
    IpcHub.Gen.readUint64Body = "if n <= 0 || n > max { return 0 } ; _ = r.buf[(r.offset+n-1)>>3] ; idx := r.offset >> 3 ; validBits := 8 - r.offset&0x7 ; r.offset += n ; var tmp uint64 ; for n >= validBits { n -= validBits tmp |= uint64(r.buf[idx]&bitsMask[validBits]) << n idx++ validBits = 8 } ; if n > 0 { tmp |= uint64((r.buf[idx] >> (validBits - n)) & bitsMask[n]) } ; return tmp" ∧
    IpcHub.Gen.h264NalSps = 7 ∧ IpcHub.Gen.h264SvcTypes = [14, 20, 21] ∧
    IpcHub.Gen.h264HighProfiles = highProfileIdcs ∧
    IpcHub.Gen.h264MaxCpbCnt = 32 ∧ IpcHub.Gen.h264MaxDpbFrames = 16 ∧
    IpcHub.Gen.h264Mono183 = false ∧ IpcHub.Gen.h264CropByChroma = true ∧ IpcHub.Gen.h264FpsWide = true :=
  ⟨rfl, rfl, rfl, rfl, rfl, rfl, rfl, rfl, rfl, rfl, rfl, rfl, rfl, rfl⟩

/-- The bodies behind the Boolean shape facts, as obligations of their own: `Width`, `Height`, `cropUnits`, `FrameRate`,
    `IsFixedFrameRate` of h264.RawSPS; `FrameRate`, `IsFixedFrameRate` of hevc.H265RawSPS (the code's convention, see
    `c15_hevc_sps_rate_partial`); the three `MetadataIsReady` shortcuts — the error of `Decode` is returned BEFORE anything
    is stored in the metadata, which is what Model/MetaReady.lean describes and `c15_total_usable_*` rest on —; and the two
    functions of av/format/sdp/parsemeta.go that take the parameter sets out of an fmtp line (after 36129d9 / eb46fba). -/
theorem c15_shape_facts :
    IpcHub.Gen.h264WidthBody = "cropUnitX, _ := sps.cropUnits() ; return (int(sps.PicWidthInMbsMinus1)+1)*16 - cropUnitX*(int(sps.FrameCropLeftOffset)+int(sps.FrameCropRightOffset))" ∧
    IpcHub.Gen.h264HeightBody = "_, cropUnitY := sps.cropUnits() ; return (2-int(sps.FrameMbsOnlyFlag))*(int(sps.PicHeightInMapUnitsMinus1)+1)*16 - cropUnitY*(int(sps.FrameCropTopOffset)+int(sps.FrameCropBottomOffset))" ∧
    IpcHub.Gen.h264CropUnitsBody = "chromaArrayType := sps.ChromaFormatIdc ; if sps.SeparateColourPlaneFlag == 1 { chromaArrayType = 0 } ; cropUnitX, cropUnitY = 1, 2-int(sps.FrameMbsOnlyFlag) ; switch chromaArrayType { case 1: cropUnitX, cropUnitY = 2, 2*cropUnitY case 2: cropUnitX = 2 } ; return" ∧
    IpcHub.Gen.h264FrameRateBody = "if sps.Vui.NumUnitsInTick == 0 { return 0.0 } ; return float64(sps.Vui.TimeScale) / (2 * float64(sps.Vui.NumUnitsInTick))" ∧
    IpcHub.Gen.h264FixedRateStd = true ∧ IpcHub.Gen.hevcFrameRateStd = true ∧ IpcHub.Gen.hevcFixedRateStd = true ∧
    IpcHub.Gen.h264ReadyStd = true ∧ IpcHub.Gen.hevcReadyStd = true ∧ IpcHub.Gen.aacReadyStd = true ∧
    IpcHub.Gen.sdpH264SetsStd = true ∧ IpcHub.Gen.sdpH265SetsStd = true :=
  ⟨rfl, rfl, rfl, rfl, rfl, rfl, rfl, rfl, rfl, rfl, rfl, rfl⟩

/-! ### bits: every descriptor of the standards is read back exactly -/

/-- u(n): `readUint64(n, max)` (ReadUint8/16/32/64, Read, ReadInt) returns the value written and
    leaves exactly the following bits, for every width `n ≤ max`, value and continuation. -/
theorem c15_bits_u (n max v : Nat) (rest : List Bool) (hn : n ≤ max) (hv : v < 2 ^ n) :
    readU n max (u n v ++ rest) = .ok (v, rest) :=
  readU_u n max v rest hn hv

/-- ue(v): `ReadUe` returns the code number and advances by exactly the code length, for every
    code number the standards allow (0 … 2^32 − 2) and every continuation. -/
theorem c15_bits_ue (k : Nat) (rest : List Bool) (hk : k + 1 < 2 ^ 32) :
    readUeL IpcHub.Gen.readUeLimit (ue k ++ rest) = .ok (k, rest) := by
  rw [c15_source_facts.2.2.1]; exact readUe_ue k rest hk

/-- se(v): the current `ReadSe` returns the signed value for the whole range −(2^31 − 1) … 2^31 − 1. -/
theorem c15_bits_se (z : Int) (rest : List Bool) (h1 : -(2 ^ 31) < z) (h2 : z < 2 ^ 31) :
    readSeC IpcHub.Gen.readSeFromUe (se z ++ rest) = .ok (z, rest) := by
  rw [c15_source_facts.2.2.2.2.1]; exact readSe_se z rest h1 h2

/-- The pinned tree's `ReadSe` (result computed from the zero result variable, not from the decoded
    code) returned 0 for **every** code: the counter-example kept for the old behaviour
    (corpus/C15/readse.case replays it on the implementation). -/
theorem c15_readse_pinned_counterexample :
    (∀ (z : Int) (rest : List Bool), -(2 ^ 31) < z → z < 2 ^ 31 → readSeC false (se z ++ rest) = .ok (0, rest)) ∧
    readSeC false (se (-1)) ≠ .ok (-1, []) := by
  refine ⟨readSe_old_zero, ?_⟩
  have := readSe_old_zero (-1) [] (by decide) (by decide)
  simp only [List.append_nil] at this
  rw [this]; simp

/-! ### emulation prevention -/

/-- For every payload and every non-zero NAL header byte, `RemoveH264or5EmulationBytes` applied to
    header + the standard's emulation-prevention insertion gives back header + payload; and the Go
    loop (with its output-size guards) is the plain left-to-right removal on every input. -/
theorem c15_epb (hdr : UInt8) (payload data : List UInt8) (h : hdr ≠ 0) :
    removeEmulationBytes (hdr :: insertEpb payload) = hdr :: payload ∧
    removeEmulationBytes data = strip (removeNaluSeparator data) :=
  ⟨removeEmulationBytes_nal hdr payload h, removeEmulationBytes_eq data⟩

/-! ### H.264 SPS -/

/-- Generic form: for every configuration of the source facts that satisfies `CfgOK`
    (ReadSe from the code, the standard's profile list, NalSps = 7, …) and every syntax tree `s`
    within the value ranges `SpsWF`, decoding the NAL unit produced by the specification's encoder
    (header byte, seq_parameter_set_data with all optional branches — chroma info, scaling lists
    with early termination, the three POC types, cropping, VUI with both HRDs —, trailing bits,
    emulation prevention) yields the structure that agrees with `s` field by field, and
    Width/Height/FrameRate/IsFixedFrameRate of it are the standard's cropped frame size
    (CropUnitX/Y for all chroma formats, separate planes and field coding), time_scale /
    (2·num_units_in_tick) and fixed_frame_rate_flag. -/
theorem c15_h264_sps_generic (cfg : Cfg) (ok : CfgOK cfg) (hc : cfg.cropByChroma = true) (hf : cfg.fpsWide = true)
    (s : SpsSyntax) (wf : SpsWF s) :
    decode cfg (encSpsNal s) = .ok (toRaw s) ∧
    dimsOf cfg (toRaw s) = { width := croppedWidth s, height := croppedHeight s,
                             fixed := fixedFrameRate s, fps := H264Syntax.frameRate s } :=
  ⟨decode_enc cfg ok s wf, dims_toRaw cfg hc hf s⟩

/-- the regenerated facts satisfy the hypotheses of the generic theorem -/
theorem c15_h264_cfg_ok : CfgOK genCfg ∧ genCfg.cropByChroma = true ∧ genCfg.fpsWide = true := by
  refine ⟨⟨?_, ?_, ?_, ?_, ?_, ?_, ?_⟩, ?_, ?_⟩ <;> decide

/-- C15 / H.264 for the current source tree: `h264.MetadataIsReady` on a valid SPS (any syntax
    tree in range) with a non-empty PPS is ready and stores exactly the standard's width, height,
    fixed-rate flag and frame rate. -/
theorem c15_h264_sps (s : SpsSyntax) (wf : SpsWF s) (pps : List UInt8) (hp : pps ≠ []) :
    decode genCfg (encSpsNal s) = .ok (toRaw s) ∧
    metadataIsReady genCfg (encSpsNal s) pps =
      some { width := croppedWidth s, height := croppedHeight s,
             fixed := fixedFrameRate s, fps := H264Syntax.frameRate s } := by
  obtain ⟨ok, hc, hf⟩ := c15_h264_cfg_ok
  obtain ⟨hd, hdim⟩ := c15_h264_sps_generic genCfg ok hc hf s wf
  refine ⟨hd, ?_⟩
  have h1 : (encSpsNal s).isEmpty = false := rfl
  have h2 : pps.isEmpty = false := by cases pps <;> simp_all
  simp [metadataIsReady, h1, h2, hd, hdim]

/-- C15, last clause, H.264 ("for arbitrary bytes … and SDP with such parameter sets still yields a usable stream").
    Totality itself is Lean totality of the models: every decoder model is a structurally recursive total function whose
    only outcomes are `.ok` and `.error` (`Fault.panic` = the index panic the deferred `recover` of `Decode` turns into an
    error), so "no panic escapes, no loop" holds of the model by construction and of the code by the differential run
    under a watchdog.  What needs proof is the consequence for the stream: WHATEVER bytes the SDP carried as
    sprop-parameter-sets (`sps0`, `pps0` — any byte strings), after parsemeta.go stored them and ran
    `h264.MetadataIsReady`, one in-band repetition of a valid SPS (any syntax tree in range) with a non-empty PPS and a
    coded slice leaves the depacketizer ready, hands the slice on, and the metadata is that of a parameter set the
    parser accepts: either the SDP's own SPS with exactly the values decoded from it, or the in-band SPS with the
    standard's width, height, fixed-rate flag and frame rate; and if the parser rejects the SDP's SPS it is the in-band
    one — a rejected parameter set never poisons the stream (what the stored seed C15b broke). -/
theorem c15_total_usable_h264 (sps0 pps0 : List UInt8) (s : SpsSyntax) (wf : SpsWF s) (pps : List UInt8) (hp : pps ≠ []) :
    let dec := IpcHub.MetaReady.dec264 genCfg
    let std : IpcHub.MetaReady.Dims := { width := croppedWidth s, height := croppedHeight s,
                                         fixed := fixedFrameRate s, fps := H264Syntax.frameRate s }
    let r := IpcHub.MetaReady.afterSdpAndInBand false dec [] sps0 pps0 [] (encSpsNal s) pps
    r.2 = true ∧ r.1.metaReady = true ∧
    ((r.1.vm.sps = removeNaluSeparator sps0 ∧ dec (removeNaluSeparator sps0) = some r.1.vm.dims) ∨
     (r.1.vm.sps = encSpsNal s ∧ r.1.vm.dims = std)) ∧
    (dec (removeNaluSeparator sps0) = none → r.1.vm.sps = encSpsNal s ∧ r.1.vm.dims = std) := by
  intro dec std r
  obtain ⟨ok, hc, hf⟩ := c15_h264_cfg_ok
  obtain ⟨hd, hdim⟩ := c15_h264_sps_generic genCfg ok hc hf s wf
  have hdec : dec (encSpsNal s) = some std := by
    simp only [dec, IpcHub.MetaReady.dec264, hd]
    simp only [dimsOf] at hdim
    injection hdim with h1 h2 h3 h4
    simp [std, h1, h2, h3, h4]
  have hne : encSpsNal s ≠ [] := by intro h; have : (encSpsNal s).isEmpty = false := rfl; simp [h] at this
  exact IpcHub.MetaReady.usable false dec [] sps0 pps0 [] (encSpsNal s) pps (by simp) hne hp std hdec

/-- The pinned tree's Width/Height (crop unit fixed to 2, uint16 arithmetic), FrameRate
    (`num_units_in_tick*2` in uint32) and profile list, as models with the old facts: concrete valid
    SPS on which they differ from the standard (replayed on the implementation from corpus/C15). -/
theorem c15_h264_pinned_counterexamples :
    let old : Cfg := { genCfg with cropByChroma := false, fpsWide := false }
    let s444 : SpsSyntax := { profile_idc := 244, chroma_format_idc := 3, pic_width_in_mbs_minus1 := 19,
                              pic_height_in_map_units_minus1 := 14, frame_cropping_flag := true,
                              frame_crop_left_offset := 2, frame_crop_right_offset := 2 }
    let sField : SpsSyntax := { profile_idc := 100, pic_width_in_mbs_minus1 := 44, pic_height_in_map_units_minus1 := 17,
                                frame_mbs_only_flag := false, frame_cropping_flag := true, frame_crop_bottom_offset := 2 }
    let sFps : SpsSyntax := { vui_parameters_present_flag := true,
                              vui := { timing_info_present_flag := true, num_units_in_tick := 2 ^ 31 + 1, time_scale := 50 } }
    width old (toRaw s444) = 312 ∧ croppedWidth s444 = 316 ∧
    height old (toRaw sField) = 572 ∧ croppedHeight sField = 568 ∧
    H264.frameRate old (toRaw sFps) = some (50, 2) ∧ H264Syntax.frameRate sFps = some (50, 2 ^ 32 + 2) := by
  decide

/-! ### AudioSpecificConfig -/

/-- The regenerated AAC facts (Table 1.18 sampling frequencies, Table 1.19 channel counts, the object
    type numbers, the hierarchical-signalling guard, the sync extension types) are the standard's. -/
theorem c15_asc_source_facts :
    IpcHub.Asc.genCfg = IpcHub.Asc.stdCfg ∧ IpcHub.Gen.aacSyncExtTypes = [0x2b7, 0x548] ∧
    IpcHub.Gen.aacHierGuard = "asc.ObjectType == AOT_SBR || (asc.ObjectType == AOT_PS && !(r.Peek(3)&0x03 != 0 && r.Peek(9)&0x3F == 0))" :=
  ⟨rfl, rfl, rfl⟩

/-- C15 / AAC for the current source tree, **partial**.
    Full statement: for EVERY syntactically valid AudioSpecificConfig `aac.MetadataIsReady` reports the channel count of
    Table 1.19 and the stream's sampling rate (the extension sampling frequency when SBR is signalled present).
    Proved for the syntax trees of `AscWF`: core audioObjectType 1–4 (AAC Main/LC/SSR/LTP, GASpecificConfig with
    dependsOnCoreCoder = 0 and extensionFlag = 0) or an escaped audioObjectType 32–95 other than ALS with an empty specific
    configuration; sampling frequency by table index 0–12 or the explicit 24-bit value; channelConfiguration 1–7; no /
    hierarchical (audioObjectType 5, 29 first) / backward-compatible (syncExtensionType 0x2b7, 0x548) SBR and PS signalling.
    On these `AudioSpecificConfig.Decode` of the specification's encoder's bytes succeeds with the object type and core
    frequency of the tree and `aac.MetadataIsReady` reports Table 1.19's channels and the stream's rate.
    EXCLUDED: audioObjectType 6–30 as the core type (their specific configurations — ER types, CELP, HVXC, TTSI, SSC,
    ELD … — are not in the specification's encoder); GASpecificConfig with dependsOnCoreCoder = 1 or extensionFlag = 1;
    channelConfiguration 0 (program_config_element) and 8–15; ALS (36), whose specific config overrides rate and channels
    (modelled and run differentially, no theorem); epConfig.  Reason: the code does not parse the object-type specific
    configuration but looks for the 11 bits 0x2b7 bit by bit behind the header (FFmpeg's heuristic); the statement for an
    arbitrary specific configuration needs "the configuration does not contain the pattern", which is false in general. -/
theorem c15_asc_partial (s : AscSyntax) (wf : AscWF s) :
    (∃ a, IpcHub.Asc.decode IpcHub.Asc.genCfg (encAsc s) = .ok a ∧ a.objectType = s.aot ∧
          a.sampleRate = frequencyOf s.samplingFrequencyIndex s.samplingFrequency ∧
          a.channels = channelCount s.channelConfiguration ∧ a.extSampleRate = IpcHub.Asc.extRateOf s) ∧
    IpcHub.Asc.metadataIsReady IpcHub.Asc.genCfg (encAsc s) = some (streamChannels s, streamRate s) := by
  rw [c15_asc_source_facts.1]
  obtain ⟨a, hd, hs⟩ := IpcHub.Asc.decode_enc s wf
  simp only [IpcHub.Asc.summary, Prod.mk.injEq] at hs
  exact ⟨⟨a, hd, hs.1, hs.2.2.1, hs.2.2.2.1, hs.2.2.2.2⟩, IpcHub.Asc.metadataIsReady_enc s wf⟩

/-- The pinned tree's guard (`Peek(3)&3 == 0 && Peek(9)&0x3F == 0`, a wrong negation of FFmpeg's MP3onMP4
    draft check) took an HE-AAC v2 configuration with audioObjectType 29 for a plain object type:
    the 24 kHz core rate was reported instead of the 48 kHz of the stream (corpus/C15/asc-ps.case). -/
theorem c15_asc_pinned_counterexample :
    let old : IpcHub.Asc.Cfg := { IpcHub.Asc.stdCfg with psGuardFFmpeg := false }
    let s : AscSyntax := { aot := 2, samplingFrequencyIndex := 6, channelConfiguration := 1,
                           signalling := .hierarchical true 3 0 }
    IpcHub.Asc.metadataIsReady old (encAsc s) = some (1, 24000) ∧ streamRate s = 48000 ∧
    IpcHub.Asc.metadataIsReady IpcHub.Asc.stdCfg (encAsc s) = some (1, 48000) := by
  decide

/-! ### H.265 SPS -/

/-- The regenerated H.265 facts: NAL types, array bounds, the start of the sub-layer ordering loop and the
    body of `H265RawSTRefPicSet.decode` (by hash) are the repaired ones the model describes. -/
theorem c15_hevc_source_facts :
    IpcHub.Hevc.CfgOK IpcHub.Hevc.genCfg ∧
    IpcHub.Gen.hevcSpsOrderingStart = "loopStart := sps.Sps_max_sub_layers_minus1 ; if sps.Sps_sub_layer_ordering_info_present_flag == 1 { loopStart = 0 }" ∧
    IpcHub.Gen.hevcStRpsBodySha = "aa90604d2b14f72d50d55e6dae0deb87532f22599f3b3d2ef76d6e33e0617a4d" :=
  ⟨⟨rfl, rfl, rfl, rfl, rfl, rfl, rfl, rfl, rfl, rfl, rfl⟩, rfl, rfl⟩

/-- Stage 1 (full strength): for every H.265 SPS syntax tree — any profile_tier_level with any number of
    sub-layers, any chroma format, any conformance window — the parser reads NAL header … conformance window
    exactly (whatever follows is left untouched) and Width()/Height() of the result are the standard's cropped
    picture size pic_width/height_in_luma_samples − SubWidthC/SubHeightC · (offsets) (Table 6-1). -/
theorem c15_hevc_sps_head (s : IpcHub.HevcSyntax.SpsSyn) (wf : IpcHub.Hevc.HeadWF s) (rest : List Bool) :
    ∃ h, IpcHub.Hevc.spsHead IpcHub.Hevc.genCfg
        (IpcHub.HevcSyntax.nalHeaderBits 33 s.nuh_layer_id s.nuh_temporal_id_plus1 ++ (IpcHub.HevcSyntax.encSpsHead s ++ rest))
          = .ok (h, rest) ∧
      h.picWidthInLumaSamples = s.pic_width_in_luma_samples ∧ h.picHeightInLumaSamples = s.pic_height_in_luma_samples ∧
      h.chromaFormatIdc = s.chroma_format_idc ∧ h.spsMaxSubLayersMinus1 = s.ptl.sub_layers.length ∧
      IpcHub.Hevc.width h = IpcHub.HevcSyntax.croppedWidth s ∧ IpcHub.Hevc.height h = IpcHub.HevcSyntax.croppedHeight s := by
  obtain ⟨q, hq⟩ := IpcHub.Hevc.spsHead_enc _ c15_hevc_source_facts.1 s wf rest
  exact ⟨_, hq, rfl, rfl, rfl, rfl, IpcHub.Hevc.width_headOf s q, IpcHub.Hevc.height_headOf s q⟩

/-- Stage 2 (full strength for decode, width and height): for every H.265 SPS syntax tree in range, `H265RawSPS.Decode` on
    the NAL unit of the specification's encoder succeeds and agrees with the tree, and `hevc.MetadataIsReady` is ready and
    stores the standard's width and height; the fixed-rate flag and the rate it stores are the CODE's convention
    (`HevcSyntax.fixedFrameRate`: timing information present; `HevcSyntax.frameRate`: one clock tick per picture) — what
    the standard says about those two is `c15_hevc_sps_rate_partial`.
    Covered: profile_tier_level with sub-layers, sub-layer ordering info (both flag values), scaling list data, PCM,
    short-term reference picture sets — explicitly coded **and** predicted (inter_ref_pic_set_prediction_flag = 1; the
    stored delta-step form is proved to represent the delta arrays of 7.4.8, so NumDeltaPocs is the standard's for every
    following set) —, long-term pictures, VUI with default display window, timing, HRD with sub-picture parameters and
    sub-layers, extension flags, trailing bits and emulation prevention. -/
theorem c15_hevc_sps (s : IpcHub.HevcSyntax.SpsSyn) (hw : IpcHub.Hevc.HeadWF s) (bw : IpcHub.Hevc.BodyWF s)
    (htid : 1 ≤ s.nuh_temporal_id_plus1) (vps pps : List UInt8) (hv : vps ≠ []) (hp : pps ≠ []) :
    (∃ raw, IpcHub.Hevc.decodeSps IpcHub.Hevc.genCfg (IpcHub.HevcSyntax.encSpsNal s) = .ok raw ∧ IpcHub.Hevc.Agrees raw s) ∧
    IpcHub.Hevc.metadataIsReady IpcHub.Hevc.genCfg vps (IpcHub.HevcSyntax.encSpsNal s) pps =
      some { width := IpcHub.HevcSyntax.croppedWidth s, height := IpcHub.HevcSyntax.croppedHeight s,
             fixed := IpcHub.HevcSyntax.fixedFrameRate s, fps := IpcHub.HevcSyntax.frameRate s } := by
  obtain ⟨raw, hd, ha⟩ := IpcHub.Hevc.decodeSps_enc _ c15_hevc_source_facts.1 s hw bw htid
  refine ⟨⟨raw, hd, ha⟩, ?_⟩
  have h1 : vps.isEmpty = false := by cases vps <;> simp_all
  have h2 : pps.isEmpty = false := by cases pps <;> simp_all
  have h3 : (IpcHub.HevcSyntax.encSpsNal s).isEmpty = false := by
    obtain ⟨b0, b1, hpk, _, _⟩ := IpcHub.Hevc.pack_nalHeader 33 s.nuh_layer_id s.nuh_temporal_id_plus1 (Or.inr rfl) ⟨htid, hw.tid⟩
    simp [IpcHub.HevcSyntax.encSpsNal, hpk]
  simp [IpcHub.Hevc.metadataIsReady, h1, h2, h3, hd, IpcHub.Hevc.dims_of_agrees raw s ha]

/-- H.265 fixed-rate flag and picture rate, **partial**.
    Full statement: for every H.265 SPS syntax tree in range `hevc.MetadataIsReady` stores the STANDARD's fixed-rate flag
    (`fixedFrameRateStd`: fixed_pic_rate_general/within_cvs_flag[HighestTid] = 1 in the VUI's hrd_parameters(), E.3.2) and
    picture rate (`frameRateStd`: vui_time_scale / (vui_num_units_in_tick · (elemental_duration_in_tc_minus1[HighestTid] + 1))
    when the rate is fixed, the clock tick rate otherwise).
    Proved for the trees of `RateAgree`: timing information (non-zero tick and scale) comes with a fixed picture rate of one
    clock tick per picture — and for every tree without timing information.
    EXCLUDED (the code's `IsFixedFrameRate` is `FrameRate() > 0`, marked TODO in the source; open known findings
    hevc-fixed-rate-assumed-from-timing-info and hevc-frame-rate-ignores-elemental-duration, witnesses in
    `c15_hevc_rate_counterexamples`): timing information without fixed_pic_rate_*_flag[HighestTid] = 1 (in particular
    without hrd_parameters()), and elemental_duration_in_tc_minus1[HighestTid] > 0. -/
theorem c15_hevc_sps_rate_partial (s : IpcHub.HevcSyntax.SpsSyn) (hw : IpcHub.Hevc.HeadWF s) (bw : IpcHub.Hevc.BodyWF s)
    (htid : 1 ≤ s.nuh_temporal_id_plus1) (vps pps : List UInt8) (hv : vps ≠ []) (hp : pps ≠ [])
    (agree : IpcHub.HevcSyntax.RateAgree s) :
    (IpcHub.Hevc.metadataIsReady IpcHub.Hevc.genCfg vps (IpcHub.HevcSyntax.encSpsNal s) pps).map (fun d => (d.fixed, d.fps)) =
      some (IpcHub.HevcSyntax.fixedFrameRateStd s, IpcHub.HevcSyntax.frameRateStd s) := by
  rw [(c15_hevc_sps s hw bw htid vps pps hv hp).2]
  simp only [Option.map_some, Option.some.injEq, Prod.mk.injEq]
  obtain ⟨hfix, hel⟩ := agree
  constructor
  · cases hf : IpcHub.HevcSyntax.fixedFrameRate s
    · simp [IpcHub.HevcSyntax.fixedFrameRateStd, hf]
    · simp [IpcHub.HevcSyntax.fixedFrameRateStd, hf, hfix hf]
  · unfold IpcHub.HevcSyntax.frameRateStd
    cases ht : IpcHub.HevcSyntax.topHrdSubLayer s with
    | none => rfl
    | some l =>
      cases hfl : (l.fixed_pic_rate_general_flag || l.fixed_pic_rate_within_cvs_flag)
      · simp only [hfl]; simp
      · have := hel l ht hfl
        cases IpcHub.HevcSyntax.frameRate s with
        | none => simp [hfl]
        | some q => obtain ⟨n, d⟩ := q; simp [this, hfl]

/-- Witnesses of the two excluded classes, proved on the current model (replayed on the implementation from
    corpus/C15/hevc-fixed-rate.case): (a) 1280x720 with timing 1001/30000 and no hrd_parameters(): the standard constrains
    no picture rate, `hevc.MetadataIsReady` stores fixed = true; (b) timing 1/50 with fixed_pic_rate_general_flag = 1 and
    elemental_duration_in_tc_minus1 = 1: 25 pictures per second by the standard, 50 stored. -/
theorem c15_hevc_rate_counterexamples :
    let a : IpcHub.HevcSyntax.SpsSyn :=
      { pic_width_in_luma_samples := 1280, pic_height_in_luma_samples := 720, ordering := [(4, 2, 5)],
        vui_parameters_present_flag := true,
        vui := { vui_timing_info_present_flag := true, vui_num_units_in_tick := 1001, vui_time_scale := 30000 } }
    let b : IpcHub.HevcSyntax.SpsSyn :=
      { pic_width_in_luma_samples := 1280, pic_height_in_luma_samples := 720, ordering := [(4, 2, 5)],
        vui_parameters_present_flag := true,
        vui := { vui_timing_info_present_flag := true, vui_num_units_in_tick := 1, vui_time_scale := 50,
                 vui_hrd_parameters_present_flag := true,
                 hrd := { sub_layers := [{ fixed_pic_rate_general_flag := true, elemental_duration_in_tc_minus1 := 1 }] } } }
    (IpcHub.Hevc.metadataIsReady IpcHub.Hevc.genCfg [0x40] (IpcHub.HevcSyntax.encSpsNal a) [0x44]).map (·.fixed) = some true ∧
    IpcHub.HevcSyntax.fixedFrameRateStd a = false ∧
    (IpcHub.Hevc.metadataIsReady IpcHub.Hevc.genCfg [0x40] (IpcHub.HevcSyntax.encSpsNal b) [0x44]).map (·.fps) = some (some (50, 1)) ∧
    IpcHub.HevcSyntax.frameRateStd b = some (50, 2) ∧ IpcHub.HevcSyntax.fixedFrameRateStd b = true := by
  decide +kernel

/-- C15, last clause, H.265: the same as `c15_total_usable_h264` with sprop-vps / sprop-sps / sprop-pps of the SDP being ANY
    byte strings and the in-band repetition VPS, SPS (any syntax tree in range), PPS, slice through the H.265 depacketizer. -/
theorem c15_total_usable_hevc (vps0 sps0 pps0 : List UInt8) (s : IpcHub.HevcSyntax.SpsSyn) (hw : IpcHub.Hevc.HeadWF s)
    (bw : IpcHub.Hevc.BodyWF s) (htid : 1 ≤ s.nuh_temporal_id_plus1) (vps pps : List UInt8) (hv : vps ≠ []) (hp : pps ≠ []) :
    let dec := IpcHub.MetaReady.dec265 IpcHub.Hevc.genCfg
    let std : IpcHub.MetaReady.Dims := { width := IpcHub.HevcSyntax.croppedWidth s, height := IpcHub.HevcSyntax.croppedHeight s,
                                         fixed := IpcHub.HevcSyntax.fixedFrameRate s, fps := IpcHub.HevcSyntax.frameRate s }
    let r := IpcHub.MetaReady.afterSdpAndInBand true dec vps0 sps0 pps0 vps (IpcHub.HevcSyntax.encSpsNal s) pps
    r.2 = true ∧ r.1.metaReady = true ∧
    ((r.1.vm.sps = removeNaluSeparator sps0 ∧ dec (removeNaluSeparator sps0) = some r.1.vm.dims) ∨
     (r.1.vm.sps = IpcHub.HevcSyntax.encSpsNal s ∧ r.1.vm.dims = std)) ∧
    (dec (removeNaluSeparator sps0) = none → r.1.vm.sps = IpcHub.HevcSyntax.encSpsNal s ∧ r.1.vm.dims = std) := by
  intro dec std r
  obtain ⟨raw, hd, ha⟩ := IpcHub.Hevc.decodeSps_enc _ c15_hevc_source_facts.1 s hw bw htid
  have hdim := IpcHub.Hevc.dims_of_agrees raw s ha
  have hdec : dec (IpcHub.HevcSyntax.encSpsNal s) = some std := by
    simp only [dec, IpcHub.MetaReady.dec265, hd]
    simp only [IpcHub.Hevc.dimsOf] at hdim
    injection hdim with h1 h2 h3 h4
    simp [std, h1, h2, h3, h4]
  have hne : IpcHub.HevcSyntax.encSpsNal s ≠ [] := by
    obtain ⟨b0, b1, hpk, _, _⟩ := IpcHub.Hevc.pack_nalHeader 33 s.nuh_layer_id s.nuh_temporal_id_plus1 (Or.inr rfl) ⟨htid, hw.tid⟩
    simp [IpcHub.HevcSyntax.encSpsNal, hpk]
  exact IpcHub.MetaReady.usable true dec vps0 sps0 pps0 vps (IpcHub.HevcSyntax.encSpsNal s) pps (fun _ => hv) hne hp std hdec

/-- H.265 VPS, **partial**.  Full statement: for every VPS syntax tree in range `H265RawVPS.Decode` on the NAL unit of
    the specification's encoder succeeds and agrees with the tree.  Proved for every tree whose hrd_parameters()
    entries all carry the common information (cprms_present_flag = 1, `VpsWF.hrds`): NAL header, ids and flags,
    profile_tier_level with sub-layers (consumed exactly; its individual flags are not part of the claim),
    sub-layer ordering info for both flag values, layer sets, timing, HRD list, extension flag, trailing bits and
    emulation prevention; the decoded structure equals `vpsOf v q` field by field.
    Excluded: entries with cprms_present_flag = 0, for which the standard infers the common information from the
    previous entry while the code starts from a zero structure (the values are not reported for the stream). -/
theorem c15_hevc_vps_partial (v : IpcHub.HevcSyntax.VpsSyn) (wf : IpcHub.Hevc.VpsWF v) :
    ∃ q, IpcHub.Hevc.decodeVps IpcHub.Hevc.genCfg (IpcHub.HevcSyntax.encVpsNal v) = .ok (IpcHub.Hevc.vpsOf v q) :=
  IpcHub.Hevc.decodeVps_enc _ c15_hevc_source_facts.1 v wf

/-- The pinned tree as models with the old facts: (a) with the sub-layer ordering loop inverted, a valid SPS with
    two temporal sub-layers and ordering info for both is misparsed — 30000/1001 fps becomes "no timing"; (b) with
    the `uint8` down-counting loops, a valid SPS whose second RPS is predicted from the first is rejected by an
    index panic, while the repaired decoder accepts it (corpus/C15/hevc-*.case replay both on the implementation). -/
theorem c15_hevc_pinned_counterexamples :
    let oldOrd : IpcHub.Hevc.Cfg := { IpcHub.Hevc.genCfg with spsOrderingStd := false }
    let oldRps : IpcHub.Hevc.Cfg := { IpcHub.Hevc.genCfg with rpsInterStd := false }
    let s2 : IpcHub.HevcSyntax.SpsSyn :=
      { ptl := { sub_layers := [{}] }, pic_width_in_luma_samples := 1280, pic_height_in_luma_samples := 720,
        ordering := [(2, 0, 0), (4, 2, 5)], vui_parameters_present_flag := true,
        vui := { vui_timing_info_present_flag := true, vui_num_units_in_tick := 1001, vui_time_scale := 30000 } }
    let sInter : IpcHub.HevcSyntax.SpsSyn :=
      { pic_width_in_luma_samples := 64, pic_height_in_luma_samples := 64,
        st_ref_pic_sets := [.explicit [(0, true), (1, true)] [(0, true)],
                            .inter true 0 [(true, true), (false, false), (true, true), (false, true)]] }
    (IpcHub.Hevc.metadataIsReady oldOrd [0x40] (IpcHub.HevcSyntax.encSpsNal s2) [0x44]).map (·.fps) ≠ some (some (30000, 1001)) ∧
    (IpcHub.Hevc.metadataIsReady IpcHub.Hevc.genCfg [0x40] (IpcHub.HevcSyntax.encSpsNal s2) [0x44]).map (·.fps) = some (some (30000, 1001)) ∧
    IpcHub.Hevc.metadataIsReady oldRps [0x40] (IpcHub.HevcSyntax.encSpsNal sInter) [0x44] = none ∧
    (IpcHub.Hevc.metadataIsReady IpcHub.Hevc.genCfg [0x40] (IpcHub.HevcSyntax.encSpsNal sInter) [0x44]).map (·.width) = some 64 := by
  decide +kernel

/-! ### non-vacuity -/

/-- a syntax tree with scaling lists (one ending early), POC type 1 with negative offsets, field
    coding, cropping, VUI with timing and a NAL HRD meets `SpsWF` -/
example : SpsWF
    { profile_idc := 100, level_idc := 40, chroma_format_idc := 1, seq_scaling_matrix_present_flag := true,
      scaling_lists := [some [-8], none, some [2, -3, -7], none, none, none, none, none],
      pic_order_cnt_type := 1, offset_for_non_ref_pic := -5, offset_for_top_to_bottom_field := 7,
      offset_for_ref_frame := [-1, 2], pic_width_in_mbs_minus1 := 119, pic_height_in_map_units_minus1 := 33,
      frame_mbs_only_flag := false, frame_cropping_flag := true, frame_crop_bottom_offset := 2,
      vui_parameters_present_flag := true,
      vui := { timing_info_present_flag := true, num_units_in_tick := 1001, time_scale := 60000, fixed_frame_rate_flag := true,
               nal_hrd_parameters_present_flag := true, nal_hrd := { cpb := [(1000, 2000, true)] } } } := by
  refine { ref := ?_, profile := ?_, level := ?_, id := ?_, cf := ?_, bdl := ?_, bdc := ?_, sl := ?_, fn := ?_, pt := ?_,
           lsb := ?_, o1 := ?_, o2 := ?_, cyc := ?_, offs := ?_, refs := ?_, w := ?_, h := ?_, cl := ?_, cr := ?_,
           ct := ?_, cb := ?_, vui := ?_ } <;> try decide
  intro _
  refine { ar := ?_, sw := ?_, sh := ?_, vf := ?_, cp := ?_, tc := ?_, mc := ?_, clt := ?_, clb := ?_, nut := ?_,
           ts := ?_, nal := ?_, vcl := ?_, r1 := ?_, r2 := ?_, r3 := ?_, r4 := ?_, r5 := ?_, r6 := ?_ } <;> try decide
  · intro _
    refine { cnt := ?_, brs := ?_, css := ?_, cpb := ?_, l1 := ?_, l2 := ?_, l3 := ?_, l4 := ?_ } <;> decide
  · intro h; exact absurd h (by decide)

/-- HE-AAC v2 with backward-compatible explicit signalling and an explicit extension frequency meets `AscWF` -/
example : AscWF { aot := 2, samplingFrequencyIndex := 6, channelConfiguration := 1,
                  signalling := .backward true 15 48000 (some true) } := by
  refine { aot := ?_, idx := ?_, freq := ?_, cc := ?_, sig := ?_ } <;> decide

/-- an H.265 SPS with two sub-layers, conformance window, PCM, an explicit, a predicted and another explicit reference picture set, long-term
    pictures, VUI with timing and HRD meets `HeadWF` and `BodyWF` -/
example : let s : IpcHub.HevcSyntax.SpsSyn :=
      { ptl := { sub_layers := [{ profile_present_flag := true, level_present_flag := true }] },
        pic_width_in_luma_samples := 1920, pic_height_in_luma_samples := 1088, conformance_window_flag := true,
        conf_win_bottom_offset := 4, ordering := [(2, 0, 0), (4, 2, 5)], pcm_enabled_flag := true,
        st_ref_pic_sets := [.explicit [(0, true), (1, true)] [(0, true)],
                            .inter true 0 [(true, true), (false, false), (true, true), (false, true)], .explicit [(3, true)] []],
        long_term_ref_pics_present_flag := true, long_term := [(5, true)],
        vui_parameters_present_flag := true,
        vui := { vui_timing_info_present_flag := true, vui_num_units_in_tick := 1001, vui_time_scale := 60000,
                 vui_hrd_parameters_present_flag := true,
                 hrd := { nal_hrd_parameters_present_flag := true,
                          sub_layers := [{ nal := [{}] }, { fixed_pic_rate_general_flag := true, cpb_cnt_minus1 := 1, nal := [{}, {}] }] } } }
    IpcHub.Hevc.HeadWF s ∧ IpcHub.Hevc.BodyWF s := by
  intro s
  constructor
  · refine { layer := ?_, tid := ?_, vid := ?_, msl := ?_, id := ?_, cf := ?_, w := ?_, h := ?_, cl := ?_, cr := ?_, ct := ?_, cb := ?_ } <;> decide
  · refine { msl := by decide, bdl := by decide, bdc := by decide, lsb := by decide, ordLen := by decide, ord := by decide,
             minCb := by decide, diffCb := by decide, minTb := by decide, diffTb := by decide, thInter := by decide,
             thIntra := by decide, alignW := by decide, alignH := by decide, sl := fun h => absurd h (by decide),
             pcm1 := by decide, pcm2 := by decide, pcm3 := by decide, pcm4 := by decide, nrps := by decide,
             rps := ?rps,
             lt := fun _ => ⟨by decide, by decide⟩, vui := fun _ => ?vui, e5 := by decide }
    case vui =>
      refine { ar := by decide, sw := by decide, sh := by decide, vf := by decide, cp := by decide, tc := by decide,
               mc := by decide, clt := by decide, clb := by decide, dl := by decide, dr := by decide, dt := by decide,
               db := by decide, nut := by decide, ts := by decide, nt := by decide, hrd := fun _ _ => ?_, mss := by decide,
               r1 := by decide, r2 := by decide, r3 := by decide, r4 := by decide }
      refine { td := by decide, du := by decide, dd := by decide, brs := by decide, css := by decide, cds := by decide,
               i1 := by decide, i2 := by decide, i3 := by decide, len := by decide, subs := ?_ }
      exact ⟨⟨by decide, by decide, fun _ => ⟨by decide, by decide⟩, fun h => absurd h (by decide)⟩,
             ⟨by decide, by decide, fun _ => ⟨by decide, by decide⟩, fun h => absurd h (by decide)⟩, trivial⟩
    case rps =>
      have g : ∀ a : IpcHub.HevcSyntax.RpsArrays, IpcHub.Hevc.Good a ↔
          (IpcHub.Hevc.Desc 0 (a.s0.map (·.1)) ∧ IpcHub.Hevc.Asc 0 (a.s1.map (·.1)) ∧ a.s0.length + a.s1.length ≤ 15) := fun _ => Iff.rfl
      refine ⟨fun _ => ⟨_, _, rfl⟩, ⟨by decide, by decide, ?_⟩, fun h => absurd h (by decide),
        ⟨by decide, by decide, by decide, by decide, ?_⟩, fun h => absurd h (by decide), ⟨by decide, by decide, ?_⟩, trivial⟩ <;>
        (rw [g]; simp [IpcHub.HevcSyntax.arraysOf, IpcHub.HevcSyntax.sumsOf, IpcHub.HevcSyntax.pick,
          IpcHub.HevcSyntax.candidatesS0, IpcHub.HevcSyntax.candidatesS1, IpcHub.HevcSyntax.RpsArrays.numDeltaPocs,
          IpcHub.Hevc.Desc, IpcHub.Hevc.Asc, List.zipIdx])

/-- `RateAgree` is satisfiable by a tree WITH timing information: 1/50 with fixed_pic_rate_general_flag = 1 and one clock
    tick per picture — the standard and the code both say fixed, 50 pictures per second -/
example : let s : IpcHub.HevcSyntax.SpsSyn :=
      { pic_width_in_luma_samples := 1280, pic_height_in_luma_samples := 720, ordering := [(4, 2, 5)],
        vui_parameters_present_flag := true,
        vui := { vui_timing_info_present_flag := true, vui_num_units_in_tick := 1, vui_time_scale := 50,
                 vui_hrd_parameters_present_flag := true,
                 hrd := { sub_layers := [{ fixed_pic_rate_general_flag := true }] } } }
    IpcHub.HevcSyntax.RateAgree s ∧ IpcHub.HevcSyntax.fixedFrameRateStd s = true ∧
    IpcHub.HevcSyntax.frameRateStd s = some (50, 1) := by
  intro s
  refine ⟨⟨fun _ => by decide, ?_⟩, by decide, by decide⟩
  intro l hl _
  have : IpcHub.HevcSyntax.topHrdSubLayer s = some { fixed_pic_rate_general_flag := true } := by decide
  rw [this] at hl
  injection hl with hl
  rw [← hl]

/-- a VPS with two sub-layers, one layer set, timing and one HRD meets `VpsWF` -/
example : IpcHub.Hevc.VpsWF
    { ptl := { sub_layers := [{}] }, ordering := [(1, 0, 0), (3, 1, 0)], vps_max_layer_id := 1, layer_sets := [[true, false]],
      vps_timing_info_present_flag := true, vps_num_units_in_tick := 1, vps_time_scale := 25,
      hrds := [(0, true, { sub_layers := [{}, {}] })] } := by
  refine { layer := by decide, tid := by decide, vid := by decide, ml := by decide, msl := by decide, nest := fun h => absurd h (by decide),
           ordLen := by decide, ord := by decide, mli := by decide, nls := by decide, rows := ⟨by decide, trivial⟩,
           nut := by decide, ts := by decide, nt := by decide, nhrd := by decide, hrds := ⟨by decide, fun h => absurd h (by decide), ?_, trivial⟩ }
  refine { td := by decide, du := by decide, dd := by decide, brs := by decide, css := by decide, cds := by decide,
           i1 := by decide, i2 := by decide, i3 := by decide, len := by decide, subs := ?_ }
  exact ⟨⟨by decide, by decide, fun h => absurd h (by decide), fun h => absurd h (by decide)⟩,
         ⟨by decide, by decide, fun h => absurd h (by decide), fun h => absurd h (by decide)⟩, trivial⟩

end IpcHub.Props.C15
