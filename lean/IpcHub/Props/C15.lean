/-
C15 — Codec parameter parsing is spec-correct and total on arbitrary bytes.
Property theorems only; helper lemmas live in IpcHub/Lemmas/{Bits,Epb,Pack,H264Sps,H264Dims}.lean.

Models: Model/Bits.lean (utils/bits/reader.go), Model/Epb.lean (utils/h264or5.go),
Model/H264Sps.lean (av/codec/h264/sps.go, shortcut.go); instantiated with the facts regenerated
from /repo in Model/CodecInst.lean.  Specification: Spec/BitSyntax.lean, Spec/H264Syntax.lean (the
standards' syntax as bit-exact encoders and the derived dimensions), Spec/H264Agree.lean
(field-wise agreement).
-/
import IpcHub.Lemmas.H264Sps
import IpcHub.Lemmas.H264Dims
import IpcHub.Lemmas.Asc
import IpcHub.Model.CodecInst
namespace IpcHub.Props.C15
open IpcHub.Bits IpcHub.BitSyntax IpcHub.Epb IpcHub.H264 IpcHub.H264Syntax IpcHub.AscSyntax

/-- The source facts the theorems rest on, regenerated from /repo on every run: the reader's
    constants and the statements of `ReadUe`, `ReadSe`, `readUint64`; the H.264 constants, the
    profile list of `Decode`, and the shape of `Width`/`Height`/`FrameRate`. -/
theorem c15_source_facts :
    IpcHub.Gen.codecFactsUnknown = [] ∧
    IpcHub.Gen.bitsMask = [0, 1, 3, 7, 15, 31, 63, 127, 255] ∧
    IpcHub.Gen.readUeLimit = 32 ∧
    IpcHub.Gen.readUeBody = "i := 0 ; for { if bit := r.ReadBit(); !(bit == 0 && i < 32) { break } i++ } ; res = r.Read(i) ; res += (1 << uint(i)) - 1 ; return" ∧
    IpcHub.Gen.readSeFromUe = true ∧
    IpcHub.Gen.readUint64Body = "if n <= 0 || n > max { return 0 } ; _ = r.buf[(r.offset+n-1)>>3] ; idx := r.offset >> 3 ; validBits := 8 - r.offset&0x7 ; r.offset += n ; var tmp uint64 ; for n >= validBits { n -= validBits tmp |= uint64(r.buf[idx]&bitsMask[validBits]) << n idx++ validBits = 8 } ; if n > 0 { tmp |= uint64((r.buf[idx] >> (validBits - n)) & bitsMask[n]) } ; return tmp" ∧
    IpcHub.Gen.h264NalSps = 7 ∧ IpcHub.Gen.h264SvcTypes = [14, 20, 21] ∧
    IpcHub.Gen.h264HighProfiles = highProfileIdcs ∧
    IpcHub.Gen.h264MaxCpbCnt = 32 ∧ IpcHub.Gen.h264MaxDpbFrames = 16 ∧
    IpcHub.Gen.h264Mono183 = false ∧ IpcHub.Gen.h264CropByChroma = true ∧ IpcHub.Gen.h264FpsWide = true :=
  ⟨rfl, rfl, rfl, rfl, rfl, rfl, rfl, rfl, rfl, rfl, rfl, rfl, rfl, rfl⟩

/-! ### bits: every descriptor of the standards is read back exactly -/

/-- u(n): `readUint64(n, max)` (ReadUint8/16/32/64, Read, ReadInt) returns the value written and
    leaves exactly the following bits, for every width `n ≤ max`, value and continuation. -/
theorem c15_bits_u (n max v : Nat) (rest : List Bool) (hn : n ≤ max) (hv : v < 2 ^ n) :
    readU n max (u n v ++ rest) = .ok (v, rest) :=
  readU_u n max v rest hn hv

/-- ue(v): `ReadUe` returns the code number and advances by exactly the code length, for every
    code number the standards allow (0 … 2^32 − 2) and every continuation. -/
theorem c15_bits_ue (k : Nat) (rest : List Bool) (hk : k + 1 < 2 ^ 32) :
    readUeL IpcHub.Gen.readUeLimit (ue k ++ rest) = .ok (k, rest) := by
  rw [c15_source_facts.2.2.1]; exact readUe_ue k rest hk

/-- se(v): the current `ReadSe` returns the signed value for the whole range −(2^31 − 1) … 2^31 − 1. -/
theorem c15_bits_se (z : Int) (rest : List Bool) (h1 : -(2 ^ 31) < z) (h2 : z < 2 ^ 31) :
    readSeC IpcHub.Gen.readSeFromUe (se z ++ rest) = .ok (z, rest) := by
  rw [c15_source_facts.2.2.2.2.1]; exact readSe_se z rest h1 h2

/-- The pinned tree's `ReadSe` (result computed from the zero result variable, not from the decoded
    code) returned 0 for **every** code: the counter-example kept for the old behaviour
    (corpus/C15/readse.case replays it on the implementation). -/
theorem c15_readse_pinned_counterexample :
    (∀ (z : Int) (rest : List Bool), -(2 ^ 31) < z → z < 2 ^ 31 → readSeC false (se z ++ rest) = .ok (0, rest)) ∧
    readSeC false (se (-1)) ≠ .ok (-1, []) := by
  refine ⟨readSe_old_zero, ?_⟩
  have := readSe_old_zero (-1) [] (by decide) (by decide)
  simp only [List.append_nil] at this
  rw [this]; simp

/-! ### emulation prevention -/

/-- For every payload and every non-zero NAL header byte, `RemoveH264or5EmulationBytes` applied to
    header + the standard's emulation-prevention insertion gives back header + payload; and the Go
    loop (with its output-size guards) is the plain left-to-right removal on every input. -/
theorem c15_epb (hdr : UInt8) (payload data : List UInt8) (h : hdr ≠ 0) :
    removeEmulationBytes (hdr :: insertEpb payload) = hdr :: payload ∧
    removeEmulationBytes data = strip (removeNaluSeparator data) :=
  ⟨removeEmulationBytes_nal hdr payload h, removeEmulationBytes_eq data⟩

/-! ### H.264 SPS -/

/-- Generic form: for every configuration of the source facts that satisfies `CfgOK`
    (ReadSe from the code, the standard's profile list, NalSps = 7, …) and every syntax tree `s`
    within the value ranges `SpsWF`, decoding the NAL unit produced by the specification's encoder
    (header byte, seq_parameter_set_data with all optional branches — chroma info, scaling lists
    with early termination, the three POC types, cropping, VUI with both HRDs —, trailing bits,
    emulation prevention) yields the structure that agrees with `s` field by field, and
    Width/Height/FrameRate/IsFixedFrameRate of it are the standard's cropped frame size
    (CropUnitX/Y for all chroma formats, separate planes and field coding), time_scale /
    (2·num_units_in_tick) and fixed_frame_rate_flag. -/
theorem c15_h264_sps_generic (cfg : Cfg) (ok : CfgOK cfg) (hc : cfg.cropByChroma = true) (hf : cfg.fpsWide = true)
    (s : SpsSyntax) (wf : SpsWF s) :
    decode cfg (encSpsNal s) = .ok (toRaw s) ∧
    dimsOf cfg (toRaw s) = { width := croppedWidth s, height := croppedHeight s,
                             fixed := fixedFrameRate s, fps := H264Syntax.frameRate s } :=
  ⟨decode_enc cfg ok s wf, dims_toRaw cfg hc hf s⟩

/-- the regenerated facts satisfy the hypotheses of the generic theorem -/
theorem c15_h264_cfg_ok : CfgOK genCfg ∧ genCfg.cropByChroma = true ∧ genCfg.fpsWide = true := by
  refine ⟨⟨?_, ?_, ?_, ?_, ?_, ?_, ?_⟩, ?_, ?_⟩ <;> decide

/-- C15 / H.264 for the current source tree: `h264.MetadataIsReady` on a valid SPS (any syntax
    tree in range) with a non-empty PPS is ready and stores exactly the standard's width, height,
    fixed-rate flag and frame rate. -/
theorem c15_h264_sps (s : SpsSyntax) (wf : SpsWF s) (pps : List UInt8) (hp : pps ≠ []) :
    decode genCfg (encSpsNal s) = .ok (toRaw s) ∧
    metadataIsReady genCfg (encSpsNal s) pps =
      some { width := croppedWidth s, height := croppedHeight s,
             fixed := fixedFrameRate s, fps := H264Syntax.frameRate s } := by
  obtain ⟨ok, hc, hf⟩ := c15_h264_cfg_ok
  obtain ⟨hd, hdim⟩ := c15_h264_sps_generic genCfg ok hc hf s wf
  refine ⟨hd, ?_⟩
  have h1 : (encSpsNal s).isEmpty = false := rfl
  have h2 : pps.isEmpty = false := by cases pps <;> simp_all
  simp [metadataIsReady, h1, h2, hd, hdim]

/-- The pinned tree's Width/Height (crop unit fixed to 2, uint16 arithmetic), FrameRate
    (`num_units_in_tick*2` in uint32) and profile list, as models with the old facts: concrete valid
    SPS on which they differ from the standard (replayed on the implementation from corpus/C15). -/
theorem c15_h264_pinned_counterexamples :
    let old : Cfg := { genCfg with cropByChroma := false, fpsWide := false }
    let s444 : SpsSyntax := { profile_idc := 244, chroma_format_idc := 3, pic_width_in_mbs_minus1 := 19,
                              pic_height_in_map_units_minus1 := 14, frame_cropping_flag := true,
                              frame_crop_left_offset := 2, frame_crop_right_offset := 2 }
    let sField : SpsSyntax := { profile_idc := 100, pic_width_in_mbs_minus1 := 44, pic_height_in_map_units_minus1 := 17,
                                frame_mbs_only_flag := false, frame_cropping_flag := true, frame_crop_bottom_offset := 2 }
    let sFps : SpsSyntax := { vui_parameters_present_flag := true,
                              vui := { timing_info_present_flag := true, num_units_in_tick := 2 ^ 31 + 1, time_scale := 50 } }
    width old (toRaw s444) = 312 ∧ croppedWidth s444 = 316 ∧
    height old (toRaw sField) = 572 ∧ croppedHeight sField = 568 ∧
    H264.frameRate old (toRaw sFps) = some (50, 2) ∧ H264Syntax.frameRate sFps = some (50, 2 ^ 32 + 2) := by
  decide

/-! ### AudioSpecificConfig -/

/-- The regenerated AAC facts (Table 1.18 sampling frequencies, Table 1.19 channel counts, the object
    type numbers, the hierarchical-signalling guard, the sync extension types) are the standard's. -/
theorem c15_asc_source_facts :
    IpcHub.Asc.genCfg = IpcHub.Asc.stdCfg ∧ IpcHub.Gen.aacSyncExtTypes = [0x2b7, 0x548] ∧
    IpcHub.Gen.aacHierGuard = "asc.ObjectType == AOT_SBR || (asc.ObjectType == AOT_PS && !(r.Peek(3)&0x03 != 0 && r.Peek(9)&0x3F == 0))" :=
  ⟨rfl, rfl, rfl⟩

/-- C15 / AAC for the current source tree: for every AudioSpecificConfig syntax tree in range — GA object
    types 1–4 or an escaped object type, table or explicit 24-bit sampling frequency, channel
    configurations 1–7, no / hierarchical (AOT 5, AOT 29) / backward-compatible (0x2b7, 0x548) SBR and PS
    signalling — `AudioSpecificConfig.Decode` on the bytes of the specification's encoder succeeds with the
    object type and core frequency of the tree, and `aac.MetadataIsReady` reports the channel count of
    Table 1.19 and the stream's sampling rate (the extension frequency when SBR is signalled present). -/
theorem c15_asc (s : AscSyntax) (wf : AscWF s) :
    (∃ a, IpcHub.Asc.decode IpcHub.Asc.genCfg (encAsc s) = .ok a ∧ a.objectType = s.aot ∧
          a.sampleRate = frequencyOf s.samplingFrequencyIndex s.samplingFrequency ∧
          a.channels = channelCount s.channelConfiguration ∧ a.extSampleRate = IpcHub.Asc.extRateOf s) ∧
    IpcHub.Asc.metadataIsReady IpcHub.Asc.genCfg (encAsc s) = some (streamChannels s, streamRate s) := by
  rw [c15_asc_source_facts.1]
  obtain ⟨a, hd, hs⟩ := IpcHub.Asc.decode_enc s wf
  simp only [IpcHub.Asc.summary, Prod.mk.injEq] at hs
  exact ⟨⟨a, hd, hs.1, hs.2.2.1, hs.2.2.2.1, hs.2.2.2.2⟩, IpcHub.Asc.metadataIsReady_enc s wf⟩

/-- The pinned tree's guard (`Peek(3)&3 == 0 && Peek(9)&0x3F == 0`, a wrong negation of FFmpeg's MP3onMP4
    draft check) took an HE-AAC v2 configuration with audioObjectType 29 for a plain object type:
    the 24 kHz core rate was reported instead of the 48 kHz of the stream (corpus/C15/asc-ps.case). -/
theorem c15_asc_pinned_counterexample :
    let old : IpcHub.Asc.Cfg := { IpcHub.Asc.stdCfg with psGuardFFmpeg := false }
    let s : AscSyntax := { aot := 2, samplingFrequencyIndex := 6, channelConfiguration := 1,
                           signalling := .hierarchical true 3 0 }
    IpcHub.Asc.metadataIsReady old (encAsc s) = some (1, 24000) ∧ streamRate s = 48000 ∧
    IpcHub.Asc.metadataIsReady IpcHub.Asc.stdCfg (encAsc s) = some (1, 48000) := by
  decide

/-! ### non-vacuity -/

/-- a syntax tree with scaling lists (one ending early), POC type 1 with negative offsets, field
    coding, cropping, VUI with timing and a NAL HRD meets `SpsWF` -/
example : SpsWF
    { profile_idc := 100, level_idc := 40, chroma_format_idc := 1, seq_scaling_matrix_present_flag := true,
      scaling_lists := [some [-8], none, some [2, -3, -7], none, none, none, none, none],
      pic_order_cnt_type := 1, offset_for_non_ref_pic := -5, offset_for_top_to_bottom_field := 7,
      offset_for_ref_frame := [-1, 2], pic_width_in_mbs_minus1 := 119, pic_height_in_map_units_minus1 := 33,
      frame_mbs_only_flag := false, frame_cropping_flag := true, frame_crop_bottom_offset := 2,
      vui_parameters_present_flag := true,
      vui := { timing_info_present_flag := true, num_units_in_tick := 1001, time_scale := 60000, fixed_frame_rate_flag := true,
               nal_hrd_parameters_present_flag := true, nal_hrd := { cpb := [(1000, 2000, true)] } } } := by
  refine { ref := ?_, profile := ?_, level := ?_, id := ?_, cf := ?_, bdl := ?_, bdc := ?_, sl := ?_, fn := ?_, pt := ?_,
           lsb := ?_, o1 := ?_, o2 := ?_, cyc := ?_, offs := ?_, refs := ?_, w := ?_, h := ?_, cl := ?_, cr := ?_,
           ct := ?_, cb := ?_, vui := ?_ } <;> try decide
  intro _
  refine { ar := ?_, sw := ?_, sh := ?_, vf := ?_, cp := ?_, tc := ?_, mc := ?_, clt := ?_, clb := ?_, nut := ?_,
           ts := ?_, nal := ?_, vcl := ?_, r1 := ?_, r2 := ?_, r3 := ?_, r4 := ?_, r5 := ?_, r6 := ?_ } <;> try decide
  · intro _
    refine { cnt := ?_, brs := ?_, css := ?_, cpb := ?_, l1 := ?_, l2 := ?_, l3 := ?_, l4 := ?_ } <;> decide
  · intro h; exact absurd h (by decide)

/-- HE-AAC v2 with backward-compatible explicit signalling and an explicit extension frequency meets `AscWF` -/
example : AscWF { aot := 2, samplingFrequencyIndex := 6, channelConfiguration := 1,
                  signalling := .backward true 15 48000 (some true) } := by
  refine { aot := ?_, idx := ?_, freq := ?_, cc := ?_, sig := ?_ } <;> decide

end IpcHub.Props.C15
