/-
C06 — RTP depacketisation reproduces the sender's access units exactly.
Property theorems only; helper lemmas live in IpcHub/Lemmas/Depack*.lean.
Model: IpcHub/Model/Depack.lean (h264/h265/aac depacketizers, sync clock, demuxer dispatch),
specification: IpcHub/Spec/Packetise.lean (the sender's packetiser per RFC 6184 / 7798 / 3640).
-/
import IpcHub.Model.DepackInst
import IpcHub.Spec.Packetise
import IpcHub.Lemmas.DepackRound265
import IpcHub.Lemmas.DepackLoss265
import IpcHub.Lemmas.DepackDemux
import IpcHub.Lemmas.DepackPts
import IpcHub.Lemmas.RtpPayload
import IpcHub.Model.RtpPacketInst
namespace IpcHub.Props.C06
open IpcHub.Depack IpcHub.Packetise IpcHub.DepackRound IpcHub.DepackLoss IpcHub.DepackDemux IpcHub.DepackPts

/-- The source facts the theorems rest on, regenerated from /repo on every run: every guard
    (if / for / case condition) of the depacketizer functions in source order, the assignments
    that rebuild NAL header bytes, the offset arithmetic, the NAL-type / channel constants,
    `ptsDelay`, `SamplesPerFrame`, the AU-header field widths, `RelativeNtp` and `Payload()`.
    A dropped bounds check, a changed constant or a reordered guard changes a generated
    definition and this theorem no longer type-checks. -/
theorem c06_source_facts :
    IpcHub.Gen.h264DepacketizeConds = ["if len(payload) < 1", "switch", "case naluType < h264.NalStapaInRtp", "case naluType == h264.NalStapaInRtp", "case naluType == h264.NalFuAInRtp", "default"] ∧
    IpcHub.Gen.h264StapaConds = ["for", "if off+2 > len(payload)", "if nalSize < 1", "if off+int(nalSize) > len(payload)", "if err != nil", "if off >= len(payload)"] ∧
    IpcHub.Gen.h264FuAConds = ["if len(payload) < 3", "if (fuHeader>>7)&1 == 1", "if len(h264dp.fragments) == 0", "if len(h264dp.fragments) != 0 &&\n\th264dp.fragments[len(h264dp.fragments)-1].SequenceNumber != packet.SequenceNumber-1", "if (fuHeader>>6)&1 == 1"] ∧
    IpcHub.Gen.h264WriteFrameConds = ["switch nalType", "case h264.NalSps", "if len(h264dp.meta.Sps) == 0 || h264dp.unvalidated()", "case h264.NalPps", "if len(h264dp.meta.Pps) == 0 || h264dp.unvalidated()", "case h264.NalFillerData", "if !h264dp.metaReady", "if !h264.MetadataIsReady(h264dp.meta)", "if h264dp.meta.FixedFrameRate", "if h264dp.dtsStep > 0"] ∧
    IpcHub.Gen.h265DepacketizeConds = ["if len(payload) < 2", "switch naluType", "case hevc.NalStapInRtp", "case hevc.NalFuInRtp", "default"] ∧
    IpcHub.Gen.h265StapConds = ["for", "if off+2 > len(payload)", "if nalSize < 1", "if off+int(nalSize) > len(payload)", "if err != nil", "if off >= len(payload)"] ∧
    IpcHub.Gen.h265FuConds = ["if len(payload) < 3", "if (fuHeader>>7)&1 == 1", "if len(h265dp.fragments) == 0 || (len(h265dp.fragments) != 0 &&\n\th265dp.fragments[len(h265dp.fragments)-1].SequenceNumber != packet.SequenceNumber-1)", "if (fuHeader>>6)&1 == 1"] ∧
    IpcHub.Gen.h265WriteFrameConds = ["switch nalType", "case hevc.NalVps", "if len(h265dp.meta.Vps) == 0 || h265dp.unvalidated()", "case hevc.NalSps", "if len(h265dp.meta.Sps) == 0 || h265dp.unvalidated()", "case hevc.NalPps", "if len(h265dp.meta.Pps) == 0 || h265dp.unvalidated()", "if !h265dp.metaReady", "if !hevc.MetadataIsReady(h265dp.meta)", "if h265dp.meta.FixedFrameRate", "if h265dp.dtsStep > 0"] ∧
    IpcHub.Gen.aacConds = ["if len(payload) < 2", "if framesPayloadOffset > len(payload)", "for i < int(auHeadersCount)", "if int(frameSize) > len(framesPayload)", "if err != nil"] ∧
    IpcHub.Gen.syncDecodeConds = ["if len(data) >= 20 && data[1] == 200"] ∧
    IpcHub.Gen.controlConds = ["if dp.syncClock.RTPTime == 0", "if ok"] ∧
    IpcHub.Gen.demuxProcessConds = ["if r != nil", "for !demuxer.closed", "if p == nil", "if !demuxer.closed", "switch packet.Channel", "case ChannelVideo", "case ChannelVideoControl", "case ChannelAudio", "case ChannelAudioControl", "if err != nil"] ∧
    IpcHub.Gen.aacEntry = "aacdp.depacketizeFor2ByteAUHeader(packet)" ∧
    IpcHub.Gen.h264StapaHeaderAssigns = [] ∧
    IpcHub.Gen.h264FuAHeaderAssigns = ["frame.Payload[0] = (header & 0xE0) | (fuHeader & 0x1F)"] ∧
    IpcHub.Gen.h265StapHeaderAssigns = [] ∧
    IpcHub.Gen.h265FuHeaderAssigns = ["frame.Payload[0] = (payload[0] & 0x81) | (fuHeader&0x3f)<<1", "frame.Payload[1] = payload[1]"] ∧
    IpcHub.Gen.h264StapaOffsets = ["off := 1", "off += 2", "off += int(nalSize)"] ∧
    IpcHub.Gen.h264FuAOffsets = ["frameLen := 1", "frameLen += len(fragment.Payload()) - 2", "offset := 1", "offset += len(payload)"] ∧
    IpcHub.Gen.h265StapOffsets = ["off := 2", "off += 2", "off += int(nalSize)"] ∧
    IpcHub.Gen.h265FuOffsets = ["rawDataOffset := 3", "frameLen := 2", "frameLen += len(fragment.Payload()) - rawDataOffset", "offset := 2", "offset += len(payload)"] ∧
    IpcHub.Gen.aacOffsets = ["framesPayloadOffset := 2 + int(auHeadersCount)<<1", "frameTimeStamp := packet.Timestamp", "frameTimeStamp += aac.SamplesPerFrame", "frameSize := auHeader >> aacdp.indexLength", "auHeadersCount := auHeadersLength >> 4"] ∧
    IpcHub.Gen.h264Min = 1 ∧
    IpcHub.Gen.fuaMin = 3 ∧
    IpcHub.Gen.h265Min = 2 ∧
    IpcHub.Gen.fuMin = 3 ∧
    IpcHub.Gen.stapaChecked = true ∧
    IpcHub.Gen.stapaRewritesNri = false ∧
    IpcHub.Gen.fuaNeedsStart = true ∧
    IpcHub.Gen.fuaKeepsF = true ∧
    IpcHub.Gen.apChecked = true ∧
    IpcHub.Gen.aacChecked = true ∧
    IpcHub.Gen.srChecked = true ∧
    IpcHub.Gen.psUntilReady264 = true ∧
    IpcHub.Gen.psUntilReady265 = true ∧
    IpcHub.Gen.h264Unvalidated = ["return !h264dp.metaReady && h264dp.meta.Width == 0"] ∧
    IpcHub.Gen.h265Unvalidated = ["return !h265dp.metaReady && h265dp.meta.Width == 0"] ∧
    IpcHub.Gen.h264NalSps = 7 ∧
    IpcHub.Gen.h264NalPps = 8 ∧
    IpcHub.Gen.h264NalIdrSlice = 5 ∧
    IpcHub.Gen.h264NalFillerData = 12 ∧
    IpcHub.Gen.h264NalStapaInRtp = 24 ∧
    IpcHub.Gen.h264NalFuAInRtp = 28 ∧
    IpcHub.Gen.h264NalTypeBitmask = 31 ∧
    IpcHub.Gen.hevcNalVps = 32 ∧
    IpcHub.Gen.hevcNalSps = 33 ∧
    IpcHub.Gen.hevcNalPps = 34 ∧
    IpcHub.Gen.hevcNalBlaWLp = 16 ∧
    IpcHub.Gen.hevcNalCraNut = 21 ∧
    IpcHub.Gen.hevcNalStapInRtp = 48 ∧
    IpcHub.Gen.hevcNalFuInRtp = 49 ∧
    IpcHub.Gen.samplesPerFrame = 1024 ∧
    IpcHub.Gen.channelVideo = 0 ∧
    IpcHub.Gen.channelVideoControl = 1 ∧
    IpcHub.Gen.channelAudio = 2 ∧
    IpcHub.Gen.channelAudioControl = 3 ∧
    IpcHub.Gen.channelCount = 4 ∧
    IpcHub.Gen.transferPrefix = 36 ∧
    IpcHub.Gen.ptsDelayExpr = "int64(time.Second) / 2" ∧
    IpcHub.Gen.jan1970Expr = "0x83aa7e80" ∧
    IpcHub.Gen.aacSizeLength = 13 ∧
    IpcHub.Gen.aacIndexLength = 3 ∧
    IpcHub.Gen.relativeNtpBody = ["diff := int64(rtptime) - int64(sc.RTPTime)", "return int64(float64(diff) * sc.RTPTimeUnit)"] ∧
    IpcHub.Gen.payloadBody = ["if p.Channel == ChannelVideo || p.Channel == ChannelAudio { end := len(p.Data) if p.Padding && end > p.PayloadOffset { if n := int(p.Data[end-1]); n > 0 && n <= end-p.PayloadOffset { end -= n } } return p.Data[p.PayloadOffset:end] }", "return nil"] ∧
    IpcHub.Gen.payloadStripsPadding = true ∧
    IpcHub.Gen.depackFactsUnknown = [] := by
  and_intros <;> rfl

/-- the configuration of the model derived from those facts is the repaired one -/
theorem c06_gen_cfg :
    genCfg.h264Min = 1 ∧ genCfg.stapaChecked = true ∧ genCfg.stapaRewritesNri = false ∧
    genCfg.fuaMin = 3 ∧ genCfg.fuaNeedsStart = true ∧ genCfg.fuaKeepsF = true ∧ genCfg.h265Min = 2 ∧ genCfg.apChecked = true ∧
    genCfg.fuMin = 3 ∧ genCfg.aacChecked = true ∧ genCfg.srChecked = true ∧
    genCfg.psUntilReady264 = true ∧ genCfg.psUntilReady265 = true ∧
    genCfg.aacIndexLength = 3 ∧ genCfg.samplesPerFrame = 1024 ∧ genCfg.ptsDelay = 500000000 := by
  decide

/-- the guards the round trip needs are those of the current source -/
theorem c06_round_cfg : RoundCfg genCfg := by
  refine ⟨?_, ?_, ?_, ?_, ?_, ?_⟩ <;> decide

/-- C06, H.264 (RFC 6184 single NAL unit / STAP-A / FU-A).  For EVERY list of packetisation
    decisions `items` of a sender — any NAL units (type 1…23, F bit clear or set, any size ≥ 1 byte; aggregated
    ones < 64 KiB), any aggregation grouping, any fragment sizes (≥ 2 non-empty fragments), any
    marker bits, any initial sequence number (UInt16 arithmetic: wrap included), any RTP
    timestamps — and EVERY depacketizer state whose metadata is ready (parameter sets known; the
    fragment buffer and the stored parameter sets may hold anything, e.g. the left-overs of
    garbage), the frames handed to the FrameWriter are exactly the sender's units: same bytes,
    same order, none invented, each with its RTP timestamp and the one clock base; no call
    returns an error or panics.
    FULL STATEMENT: the same without `itemNoFiller`.  `_partial`: filler data NAL units (type 12)
    are excluded — the code drops them on purpose (open known finding `h264-filler-dropped`,
    `c06_filler_dropped_witness`). -/
theorem c06_h264_roundtrip_partial (spsOk : Bytes → Bool) (items : List Item) (st : VSt) (seq0 : UInt16)
    (hr : st.ready = true) (hl : ∀ it ∈ items, legal264F it = true ∧ itemNoFiller it = true) :
    (vRun genCfg spsOk .h264 st (packets264 seq0 items)).2 = ((units items).map (frameOf st.base), .ok) := by
  obtain ⟨st', h, _⟩ := h264_roundtrip genCfg c06_round_cfg spsOk items st seq0 hr hl
  rw [h]

/-- non-vacuity: a stream with all three packetisation modes (SPS+PPS+SEI aggregated, an IDR slice
    with the F bit set in 3 fragments, a 1-byte end-of-sequence unit as single NAL unit packet) meets the hypotheses,
    and the theorem's conclusion evaluates to the three + one + one units -/
example :
    let items : List Item := [.agg 9000 false [[0x67, 0x42, 0x00], [0x68, 0xce], [0x06, 0x05]],
      .frag 9000 true [0xe5, 1, 2, 3, 4, 5, 6, 7] [2, 3], .single 12000 true [0x0a]]
    (∀ it ∈ items, legal264F it = true ∧ itemNoFiller it = true) ∧
    (vRun genCfg (fun _ => false) .h264 { ready := true, frags := [⟨7, 7, false, [0x5c, 0x05, 9]⟩] } (packets264 65534 items)).2.1.length = 5 := by
  decide

/-- C06, start-up of a stream WITHOUT SDP parameter sets (H.264): from the fresh depacketizer the
    sender's SPS (any the decoder accepts) and PPS, sent as single NAL unit packets, are stored, the
    depacketizer is ready, and from the PPS on every unit of the stream is handed on exactly as in
    the round trip.
    FULL STATEMENT: the SPS is handed on as a frame too.  `_partial`: the first SPS is consumed into
    the stream's VideoMeta (from which the FLV sequence header and the TS key-frame headers are
    built) and is NOT handed on as a frame; the harness judges such streams from the parameter-set
    prefix on (containment mode, `skip`). -/
theorem c06_startup_h264_partial (spsOk : Bytes → Bool) (s1 s2 seq0 : UInt16) (t1 t2 : UInt32) (m1 m2 : Bool)
    (b c : UInt8) (bs cs : Bytes) (hb : b &&& 0x1f = 7) (hc : c &&& 0x1f = 8) (hok : spsOk (b :: bs) = true)
    (items : List Item) (hl : ∀ it ∈ items, legal264F it = true ∧ itemNoFiller it = true) :
    (vRun genCfg spsOk .h264 {} ([⟨s1, t1, m1, b :: bs⟩, ⟨s2, t2, m2, c :: cs⟩] ++ packets264 seq0 items)).2
      = (⟨false, t2, 0, c :: cs⟩ :: (units items).map (frameOf 0), .ok) := by
  have h0 := startup264 genCfg c06_round_cfg spsOk s1 s2 t1 t2 m1 m2 b c bs cs hb hc hok
  obtain ⟨st', h, _⟩ := h264_roundtrip genCfg c06_round_cfg spsOk items
    { vmeta := { sps := b :: bs, pps := c :: cs }, ready := true } seq0 rfl hl
  rw [vRun_append genCfg spsOk .h264 _ _ _ _ _ h0, h]
  rfl

example : (0x67 : UInt8) &&& 0x1f = 7 ∧ (0x68 : UInt8) &&& 0x1f = 8 := by decide

/-- C06, loss (H.264).  The sender packetises `items` (any decisions, as in the round trip; at
    most 65536 packets, so that 16-bit sequence numbers identify packets) and ANY subset of the
    packets is lost — single or multiple losses, inside or outside fragmented units, start, middle
    or end fragments; the survivors `arr` arrive in order.  Then `arr` splits item by item
    (`Lossy`) and the frames handed on are exactly the units of the items whose packets ALL
    arrived (`survivors`), in the sender's order: a fragmented unit with any fragment missing is
    dropped as a whole, no truncated or spliced unit is ever emitted, nothing is invented, and an
    incomplete unit never damages a later one.  From every ready state with an empty fragment
    buffer.
    FULL STATEMENT: also for filler units and for reordered / duplicated arrivals.
    `_partial`: filler data excluded as in the round trip; reordering and duplication are
    exercised by the harness (judge `judgeSpans`, multiset bounds per unit) but not proved. -/
theorem c06_loss_never_splices_h264_partial (spsOk : Bytes → Bool) (items : List Item) (st : VSt) (seq0 : UInt16)
    (arr : List Pkt) (hr : st.ready = true) (hf : st.frags = [])
    (hl : ∀ it ∈ items, legal264F it = true ∧ itemNoFiller it = true)
    (hn : totalPkts payloads264 items ≤ 65536) (hsub : arr.Sublist (packets264 seq0 items)) :
    ∃ arrs, Lossy payloads264 seq0 items arrs ∧ arr = arrs.flatten ∧
      (vRun genCfg spsOk .h264 st arr).2 = ((survivors payloads264 seq0 items arrs).map (frameOf st.base), .ok) := by
  obtain ⟨arrs, hlos, hfl⟩ := sublist_decompose payloads264 items seq0 arr hsub
  obtain ⟨st', h, _⟩ := h264_loss genCfg c06_round_cfg (by decide) spsOk items seq0 st 65536 arrs hl hr
    (Stale.of_nil hf _ _) hn (Nat.le_refl _) hlos
  exact ⟨arrs, hlos, hfl, by rw [hfl, h]⟩

/-- non-vacuity: unit A in 3 fragments with its middle fragment lost, unit B in 2 fragments
    complete, a single unit lost entirely: exactly B is handed on -/
example :
    let items : List Item := [.frag 3000 true [0x41, 1, 2, 3, 4] [1, 1], .frag 6000 true [0x65, 5, 6, 7] [2], .single 9000 true [0x41, 9]]
    let ps := packets264 65534 items
    let arrs : List (List Pkt) := [[ps[0]!, ps[2]!], [ps[3]!, ps[4]!], []]
    (∀ it ∈ items, legal264F it = true ∧ itemNoFiller it = true) ∧ totalPkts payloads264 items ≤ 65536 ∧
    arrs.flatten.Sublist ps ∧
    survivors payloads264 65534 items arrs = [(6000, [0x65, 5, 6, 7])] ∧
    (vRun genCfg (fun _ => false) .h264 { ready := true } arrs.flatten).2.1 = [⟨false, 6000, 0, [0x65, 5, 6, 7]⟩] := by
  decide

/-- C06, loss (H.265): the same for FU fragmentation units and aggregation packets, every NAL
    type 0…47.  `_partial` only because reordered / duplicated arrivals are not covered by the
    theorem (they are by the harness). -/
theorem c06_loss_never_splices_h265_partial (spsOk : Bytes → Bool) (items : List Item) (st : VSt) (seq0 : UInt16)
    (arr : List Pkt) (hr : st.ready = true) (hf : st.frags = [])
    (hl : ∀ it ∈ items, legal265 it = true)
    (hn : totalPkts payloads265 items ≤ 65536) (hsub : arr.Sublist (packets265 seq0 items)) :
    ∃ arrs, Lossy payloads265 seq0 items arrs ∧ arr = arrs.flatten ∧
      (vRun genCfg spsOk .h265 st arr).2 = ((survivors payloads265 seq0 items arrs).map (frameOf st.base), .ok) := by
  obtain ⟨arrs, hlos, hfl⟩ := sublist_decompose payloads265 items seq0 arr hsub
  obtain ⟨st', h, _⟩ := h265_loss genCfg c06_round_cfg spsOk items seq0 st 65536 arrs hl hr
    (Stale.of_nil hf _ _) hn (Nat.le_refl _) hlos
  exact ⟨arrs, hlos, hfl, by rw [hfl, h]⟩

example :
    let items : List Item := [.frag 3000 true [0x02, 1, 2, 3, 4] [1, 1], .frag 6000 true [0x26, 1, 6, 7] [1]]
    let ps := packets265 65535 items
    let arrs : List (List Pkt) := [[ps[1]!, ps[2]!], [ps[3]!, ps[4]!]]
    (∀ it ∈ items, legal265 it = true) ∧ arrs.flatten.Sublist ps ∧
    (vRun genCfg (fun _ => false) .h265 { ready := true } arrs.flatten).2.1 = [⟨false, 6000, 0, [0x26, 1, 6, 7]⟩] := by
  decide

/-- C06, H.265 (RFC 7798 single NAL unit / AP / FU, no DONL): as above, at full strength —
    every NAL unit with a 2-byte header and type 0…47, every grouping, every fragment sizes. -/
theorem c06_h265_roundtrip (spsOk : Bytes → Bool) (items : List Item) (st : VSt) (seq0 : UInt16)
    (hr : st.ready = true) (hl : ∀ it ∈ items, legal265 it = true) :
    (vRun genCfg spsOk .h265 st (packets265 seq0 items)).2 = ((units items).map (frameOf st.base), .ok) := by
  obtain ⟨st', h, _⟩ := h265_roundtrip genCfg c06_round_cfg spsOk items st seq0 hr hl
  rw [h]

example :
    let items : List Item := [.agg 9000 false [[0x40, 1, 0x0c], [0x42, 1, 1], [0x44, 1, 0xc1]],
      .frag 9000 true [0x26, 1, 2, 3, 4, 5, 6, 7] [1, 1, 2], .single 12000 true [0x48, 1]]
    (∀ it ∈ items, legal265 it = true) ∧
    (vRun genCfg (fun _ => false) .h265 { ready := true } (packets265 65535 items)).2.1.length = 5 := by
  decide

/-- C06, AAC (RFC 3640 AAC-hbr, 13-bit size / 3-bit index): for EVERY list of 1 … 4095 access
    units of < 8192 bytes each in one packet, any clock base, sequence number, timestamp and
    marker, the frames are exactly the AUs in order, AU i stamped `ts + 1024·i` (UInt32
    arithmetic), and the call returns nil. -/
theorem c06_aac_roundtrip (base : UInt32) (s : UInt16) (ts : UInt32) (m : Bool) (aus : List Bytes)
    (hl : legalAac aus = true) :
    aacStep genCfg base ⟨s, ts, m, aacPayload aus⟩
      = ((aacUnits 1024 ts aus).map (fun u => ⟨true, u.1, base, u.2⟩), .ok) := by
  have := aac_roundtrip genCfg (by decide) base s ts m aus hl
  rw [show genCfg.samplesPerFrame = 1024 from by decide] at this
  exact this

example : legalAac [[1, 2, 3], [], [4]] = true ∧
    (aacStep genCfg 0 ⟨0, 4294966784, true, aacPayload [[1, 2, 3], [], [4]]⟩).1.map (·.ts) = [4294966784, 512, 1536] := by
  decide

/-- C06, presentation times.  Two units `u`, `v` of the round trip (frames `frameOf base ·`: the
    sender's RTP timestamp, the depacketizer's clock base) with the clock base not after them and
    no 2^32 wrap between them (`v` at most 2^31 − 1 ticks after `u`):
    * equal RTP timestamps ⇒ equal presentation times;
    * the presentation-time difference is the RTP-timestamp difference (the modular `tsDiff` of the
      specification) converted at the clock rate, within the 1 ns of the truncating division;
    * i.e. the oracle's predicate `ptsHolds` (tolerance 1 ns) holds of the pair.
    FULL STATEMENT: for every pair of units, also across the 2^32 wrap and across an RTCP sender
    report.  `_partial`: both are false of the code — open findings `rtp-timestamp-wrap`
    (`c06_timestamp_wrap_witness`) and `sr-rebase` (`c06_sr_rebase_witness`, which can put the
    base after the timestamps); `conv` is the exact-rational stand-in for the float64 product
    (the harness checks the Go result is within 1 ns of it). -/
theorem c06_presentation_times_partial (rate : Nat) (hrate : 0 < rate) (base : UInt32) (u v : UInt32 × Bytes)
    (hb : base.toNat ≤ u.1.toNat) (huv : u.1.toNat ≤ v.1.toNat) (hd : v.1.toNat - u.1.toNat < 2147483648) :
    let pu := (frameOf base u).pts genCfg rate
    let pv := (frameOf base v).pts genCfg rate
    (u.1 = v.1 → pu = pv) ∧
    Int.tdiv (tsDiff v.1 u.1 * 1000000000) rate ≤ pv - pu ∧ pv - pu ≤ Int.tdiv (tsDiff v.1 u.1 * 1000000000) rate + 1 ∧
    ptsHolds rate 1 [(u.1, pu), (v.1, pv)] = true := by
  have h := pts_diff genCfg rate hrate base u v hb huv hd
  refine ⟨?_, h.1, h.2, pts_pair_holds genCfg rate hrate base u v hb huv hd⟩
  intro he; simp [Frame.pts, frameOf, he]

/-- non-vacuity: 90 kHz, two units 3000 ticks apart: 33 333 333 ns (one third of a nanosecond truncated) -/
example :
    (0 : UInt32).toNat ≤ (9000 : UInt32).toNat ∧ (9000 : UInt32).toNat ≤ (12000 : UInt32).toNat ∧
    (frameOf 0 (12000, [0x41])).pts genCfg 90000 - (frameOf 0 (9000, [0x41])).pts genCfg 90000 = 33333333 ∧
    Int.tdiv (tsDiff 12000 9000 * 1000000000) 90000 = 33333333 := by
  decide

/-- C06 at the level of `Demuxer.process`, H.264 + AAC.  The demuxer pops the packets of the video
    RTP stream (the sender's `items`, packetised as in the round trip) and of the audio RTP stream
    (`auds`: sequence number, timestamp, marker, the AUs of one RFC 3640 packet) in ANY interleaving
    `ins` — an audio packet may arrive between two fragments of a video unit.  From every alive
    demuxer state whose video metadata is ready: the video frames handed on are exactly the
    sender's NAL units and the audio frames exactly the AUs, each in its stream's order, AU i of
    a packet stamped `ts + 1024·i`; the streams do not disturb each other.
    FULL STATEMENT: also with RTCP packets in between and with filler units.  `_partial`: an RTCP
    sender report re-bases the clock in mid-stream (open finding `sr-rebase`); filler data as in
    the round trip. -/
theorem c06_demux_roundtrip_h264_partial (spsOk : Bytes → Bool) (d : DemuxSt) (ins : List In) (items : List Item)
    (seq0 : UInt16) (auds : List (UInt16 × UInt32 × Bool × List Bytes))
    (hcodec : d.codec = .h264) (ha : d.alive = true) (haac : d.hasAac = true) (hr : d.v.ready = true)
    (hn : noCtl ins = true)
    (hv : vidOf ins = packets264 seq0 items) (hl : ∀ it ∈ items, legal264F it = true ∧ itemNoFiller it = true)
    (hau : audOf ins = auds.map (fun a => ⟨a.1, a.2.1, a.2.2.1, aacPayload a.2.2.2⟩))
    (hla : ∀ a ∈ auds, legalAac a.2.2.2 = true) :
    let out := (demuxRun genCfg spsOk d ins).2
    out.filter (fun f => !f.audio) = (units items).map (frameOf d.v.base) ∧
    out.filter (fun f => f.audio)
      = auds.flatMap (fun a => (aacUnits 1024 a.2.1 a.2.2.2).map (fun u => ⟨true, u.1, d.abase, u.2⟩)) := by
  have hsafe : SafeCfg genCfg := by refine ⟨?_, ?_, ?_, ?_, ?_, ?_, ?_, ?_⟩ <;> decide
  refine ⟨?_, ?_⟩
  · rw [demuxRun_video genCfg hsafe spsOk ins d ha hn, hv, hcodec]
    obtain ⟨st', h, _⟩ := h264_roundtrip genCfg c06_round_cfg spsOk items d.v seq0 hr hl
    rw [h]
  · rw [demuxRun_audio genCfg hsafe spsOk ins d ha haac hn, hau, List.flatMap_map]
    apply flatMap_congr'
    intro a hmem
    rw [c06_aac_roundtrip d.abase a.1 a.2.1 a.2.2.1 a.2.2.2 (hla a hmem)]

/-- the same for H.265 + AAC (every NAL type 0…47); `_partial` only for the RTCP exclusion -/
theorem c06_demux_roundtrip_h265_partial (spsOk : Bytes → Bool) (d : DemuxSt) (ins : List In) (items : List Item)
    (seq0 : UInt16) (auds : List (UInt16 × UInt32 × Bool × List Bytes))
    (hcodec : d.codec = .h265) (ha : d.alive = true) (haac : d.hasAac = true) (hr : d.v.ready = true)
    (hn : noCtl ins = true)
    (hv : vidOf ins = packets265 seq0 items) (hl : ∀ it ∈ items, legal265 it = true)
    (hau : audOf ins = auds.map (fun a => ⟨a.1, a.2.1, a.2.2.1, aacPayload a.2.2.2⟩))
    (hla : ∀ a ∈ auds, legalAac a.2.2.2 = true) :
    let out := (demuxRun genCfg spsOk d ins).2
    out.filter (fun f => !f.audio) = (units items).map (frameOf d.v.base) ∧
    out.filter (fun f => f.audio)
      = auds.flatMap (fun a => (aacUnits 1024 a.2.1 a.2.2.2).map (fun u => ⟨true, u.1, d.abase, u.2⟩)) := by
  have hsafe : SafeCfg genCfg := by refine ⟨?_, ?_, ?_, ?_, ?_, ?_, ?_, ?_⟩ <;> decide
  refine ⟨?_, ?_⟩
  · rw [demuxRun_video genCfg hsafe spsOk ins d ha hn, hv, hcodec]
    obtain ⟨st', h, _⟩ := h265_roundtrip genCfg c06_round_cfg spsOk items d.v seq0 hr hl
    rw [h]
  · rw [demuxRun_audio genCfg hsafe spsOk ins d ha haac hn, hau, List.flatMap_map]
    apply flatMap_congr'
    intro a hmem
    rw [c06_aac_roundtrip d.abase a.1 a.2.1 a.2.2.1 a.2.2.2 (hla a hmem)]

/-- non-vacuity: a unit in two FU-A fragments with an AAC packet (two AUs) arriving between the
    fragments, then a second AAC packet: the hypotheses hold and the demuxer hands on the video
    unit once and the three AUs -/
example :
    let items : List Item := [.frag 9000 true [0x65, 1, 2, 3] [1]]
    let ps := packets264 65535 items
    let a1 : Pkt := ⟨7, 4294966784, true, aacPayload [[1, 2], [3]]⟩
    let a2 : Pkt := ⟨8, 1536, true, aacPayload [[4]]⟩
    let ins : List In := [.video ps[0]!, .audio a1, .video ps[1]!, .audio a2]
    noCtl ins = true ∧ vidOf ins = ps ∧ audOf ins = [a1, a2] ∧
    (demuxRun genCfg (fun _ => true) { codec := .h264, hasAac := true, v := { ready := true } } ins).2.map (fun f => (f.audio, f.ts, f.payload))
      = [(true, 4294966784, [1, 2]), (true, 512, [3]), (false, 9000, [0x65, 1, 2, 3]), (true, 1536, [4])] := by
  decide

/-- C06, from the wire to the depacketizer: for EVERY RTP data packet a sender may emit (RFC 3550
    §5.1 — any marker / payload type / sequence number / timestamp / SSRC, 0…15 CSRCs, an optional
    header extension of any whole number of words with a generic profile, ANY payload including
    none at all, 0…255 padding octets the last of which counts them), `ReadPacket`'s header parser
    accepts the packet, keeps the marker bit, and `Packet.Payload()` — what every depacketizer
    starts from — is exactly the sender's payload: CSRC list, extension and padding removed.  A
    padding-only packet (pacing / probing / keep-alive) yields the EMPTY payload, for which
    `Depacketize` hands on nothing (`c06_empty_payload_no_frame`): no unit is invented.
    (The RFC 8285 profiles 0xBEDE / 0x100x, whose element structure the third-party parser walks,
    are exercised by the harness only.) -/
theorem c06_rtp_payload_extraction (p : IpcHub.RtpEncode.Send) (hl : IpcHub.RtpEncode.legal p = true) :
    ∃ h, IpcHub.RtpPacket.unmarshal (IpcHub.RtpEncode.encode p) = .ok h ∧ h.marker = p.marker ∧
      IpcHub.RtpPacket.payload IpcHub.RtpPacket.genPayloadCfg h (IpcHub.RtpEncode.encode p) = p.payload :=
  IpcHub.RtpPayload.payload_encode _ (by decide) p hl

/-- non-vacuity: a padding-only packet behind 2 CSRCs and a one-word extension -/
example :
    let p : IpcHub.RtpEncode.Send := { marker := true, pt := 96, seqHi := 0xff, seqLo := 0xff, ts := (0, 0, 0x23, 0x28), ssrc := (1, 2, 3, 4), csrc := [(9, 9, 9, 1), (9, 9, 9, 2)], ext := some (0x12, 0x34, [1, 2, 3, 4]), payload := [], pad := 4 }
    IpcHub.RtpEncode.legal p = true ∧ (IpcHub.RtpEncode.encode p).length = 32 ∧
    (IpcHub.RtpEncode.encode p).drop 28 = [0, 0, 0, 4] := by
  decide

/-- an empty payload (padding-only packet, bare header) makes no depacketizer hand on anything, in
    any state -/
theorem c06_empty_payload_no_frame (spsOk : Bytes → Bool) (st : VSt) (base : UInt32) (s : UInt16) (ts : UInt32) (m : Bool) :
    (h264Step genCfg spsOk st ⟨s, ts, m, []⟩).out = [] ∧ (h265Step genCfg spsOk st ⟨s, ts, m, []⟩).out = [] ∧
    (aacStep genCfg base ⟨s, ts, m, []⟩).1 = [] := by
  refine ⟨?_, ?_, ?_⟩
  · simp [h264Step, show genCfg.h264Min = 1 from by decide]
  · simp [h265Step, show genCfg.h265Min = 2 from by decide]
  · simp [aacStep]

/-- FIXED (191bb64) / seeded class: without the padding strip — or with a strip that refuses to
    remove ALL of the area after the header — the padding octets of a padding-only packet reach the
    depacketizer as payload and `00 00 00 04` is handed on as a NAL unit of type 0: an invented unit.
    Replayed: corpus/C06/rtp-padding.case -/
theorem c06_padding_only_witness :
    let p : IpcHub.RtpEncode.Send := { marker := false, pt := 96, seqHi := 0, seqLo := 7, ts := (0, 0, 0x23, 0x28), ssrc := (1, 2, 3, 4), csrc := [], ext := none, payload := [], pad := 4 }
    let h : IpcHub.RtpPacket.Hdr := { padding := true, ext := false, marker := false, pt := 96, seq := 7, ts := 9000, payloadOffset := 12 }
    (IpcHub.RtpPacket.unmarshal (IpcHub.RtpEncode.encode p)).toOption = some h ∧
    IpcHub.RtpPacket.payload { IpcHub.RtpPacket.genPayloadCfg with stripsPadding := false } h (IpcHub.RtpEncode.encode p) = [0, 0, 0, 4] ∧
    IpcHub.RtpPacket.payload IpcHub.RtpPacket.genPayloadCfg h (IpcHub.RtpEncode.encode p) = [] ∧
    (h264Step genCfg (fun _ => true) { ready := true } ⟨7, 9000, false, [0, 0, 0, 4]⟩).out = [⟨false, 9000, 0, [0, 0, 0, 4]⟩] := by
  decide

private def pk (s : UInt16) (ts : UInt32) (b : Bytes) : Pkt := ⟨s, ts, false, b⟩

/-- DESIGN §6 #5, the pinned tree (49348c9): the unit `41 aa bb cc dd` is sent as FU-A fragments
    S(aa) M(bb cc) E(dd); the start fragment is lost.  The old code accepted the middle fragment
    into the empty buffer and emitted the truncated unit `41 bb cc dd`; the repaired code emits
    nothing.  Replayed on the implementation: corpus/C06/fua-start-lost.case -/
theorem c06_h264_fua_start_loss_witness :
    (vRun pinnedCfg (fun _ => true) .h264 { ready := true }
        [pk 2 1000 [0x5c, 0x01, 0xbb, 0xcc], pk 3 1000 [0x5c, 0x41, 0xdd]]).2.1
      = [⟨false, 1000, 0, [0x41, 0xbb, 0xcc, 0xdd]⟩] ∧
    (vRun genCfg (fun _ => true) .h264 { ready := true }
        [pk 2 1000 [0x5c, 0x01, 0xbb, 0xcc], pk 3 1000 [0x5c, 0x41, 0xdd]]).2.1 = [] := by
  decide

/-- FIXED in round 2 (cbc871f): `depacketizeFuA` rebuilt the NAL header from the NRI bits of the FU
    indicator only (`header & 0x60`).  A unit whose forbidden_zero_bit is set (RFC 6184 §5.3: a
    sender / middlebox flags a damaged unit) came out of FU-A reassembly with the bit cleared —
    `e5 01 02 03` as `65 01 02 03`, not the sender's bytes; single NAL unit packets and STAP-A kept it.
    Replayed: corpus/C06/fua-f-bit.case -/
theorem c06_fua_f_bit_witness :
    (vRun { genCfg with fuaKeepsF := false } (fun _ => true) .h264 { ready := true }
        (packets264 7 [.frag 1000 true [0xe5, 1, 2, 3] [1]])).2.1 = [⟨false, 1000, 0, [0x65, 1, 2, 3]⟩] ∧
    (vRun genCfg (fun _ => true) .h264 { ready := true }
        (packets264 7 [.frag 1000 true [0xe5, 1, 2, 3] [1]])).2.1 = [⟨false, 1000, 0, [0xe5, 1, 2, 3]⟩] := by
  decide

/-- the pinned tree rewrote the NRI bits of every NAL unit of a STAP-A with the STAP-A header's:
    SPS `67 42` + SEI `06 05` (NRI 3 and 0, STAP header NRI 3) came out as `67 42`, `66 05`.
    Replayed: corpus/C06/stapa-nri.case -/
theorem c06_stapa_nri_rewrite_witness :
    (vRun pinnedCfg (fun _ => true) .h264 { ready := true }
        (packets264 7 [.agg 1000 true [[0x67, 0x42], [0x06, 0x05]]])).2.1
      = [⟨false, 1000, 0, [0x67, 0x42]⟩, ⟨false, 1000, 0, [0x66, 0x05]⟩] ∧
    (vRun genCfg (fun _ => true) .h264 { ready := true }
        (packets264 7 [.agg 1000 true [[0x67, 0x42], [0x06, 0x05]]])).2.1
      = [⟨false, 1000, 0, [0x67, 0x42]⟩, ⟨false, 1000, 0, [0x06, 0x05]⟩] := by
  decide

/-- the pinned tree ignored every payload shorter than 3 bytes: an access-unit delimiter
    `09 f0` (H.264) or an end-of-sequence unit `48 01` (H.265) sent as a single NAL unit packet
    was dropped.  Replayed: corpus/C06/short-single-nal.case -/
theorem c06_short_single_nal_witness :
    (vRun pinnedCfg (fun _ => true) .h264 { ready := true } (packets264 0 [.single 5 true [0x09, 0xf0]])).2.1 = [] ∧
    (vRun genCfg (fun _ => true) .h264 { ready := true } (packets264 0 [.single 5 true [0x09, 0xf0]])).2.1
      = [⟨false, 5, 0, [0x09, 0xf0]⟩] ∧
    (vRun pinnedCfg (fun _ => true) .h265 { ready := true } (packets265 0 [.single 5 true [0x48, 0x01]])).2.1 = [] ∧
    (vRun genCfg (fun _ => true) .h265 { ready := true } (packets265 0 [.single 5 true [0x48, 0x01]])).2.1
      = [⟨false, 5, 0, [0x48, 0x01]⟩] := by
  decide

/-- OPEN (known finding `h264-filler-dropped`, deliberate in the source): filler data NAL units
    (type 12) are not handed on, also by the current tree. -/
theorem c06_filler_dropped_witness :
    (vRun genCfg (fun _ => true) .h264 { ready := true }
        (packets264 0 [.single 5 false [0x0c, 0xff, 0xff, 0x80], .single 5 true [0x41, 0x9a, 0x00]])).2.1
      = [⟨false, 5, 0, [0x41, 0x9a, 0x00]⟩] := by
  decide

/-- OPEN (known finding `rtp-timestamp-wrap`, DESIGN §6 #6): `RelativeNtp` subtracts the 32-bit
    timestamps as int64, not modulo 2^32.  Two units 3000 ticks apart across the wrap get
    presentation times 2^32 − 3000 ticks apart in the wrong direction. -/
theorem c06_timestamp_wrap_witness :
    let fs := (vRun genCfg (fun _ => true) .h264 { ready := true }
        (packets264 0 [.single 4294966296 true [0x41, 0x01, 0x02], .single 2000 true [0x41, 0x03, 0x04]])).2.1
    fs.map (·.pts genCfg 90000) = [47722347733333, 522222222] ∧
    tsDiff 2000 4294966296 = 3000 ∧ ptsHolds 90000 2 (fs.map (fun f => (f.ts, f.pts genCfg 90000))) = false := by
  decide

/-- OPEN (known finding `sr-rebase`): the first RTCP sender report re-bases the clock
    (`syncClock.RTPTime`), so the presentation time of the next unit jumps back by the report's
    RTP timestamp although the RTP timestamps advance by 3000 ticks. -/
theorem c06_sr_rebase_witness :
    let sr : Bytes := [0x80, 200, 0, 6, 0, 0, 0, 1, 0, 0, 0, 0, 0, 0, 0, 0, 0, 0, 0x27, 0x10, 0, 0, 0, 0, 0, 0, 0, 0]
    let r := demuxRun genCfg (fun _ => true) { codec := .h264, hasAac := false, v := { ready := true } }
      [.video (pk 1 12000 [0x41, 0x01, 0x02]), .vctl sr, .video (pk 2 15000 [0x41, 0x03, 0x04])]
    r.2.map (·.pts genCfg 90000) = [633333333, 555555555] := by
  decide

end IpcHub.Props.C06
