/-
C01 — Fan-out delivers every packet once, in order, unmodified, to every consumer.
Property theorems only (helper lemmas: IpcHub/Lemmas/Media*.lean).  All theorems quantify
over EVERY finite label sequence of the stream LTS (Model/Media.lean): any number of
consumers, any interleaving of publish / join / stop / close / consumer-goroutine steps,
any packet bytes.  The model is instantiated with the regenerated facts (`genInit`).
-/
import IpcHub.Lemmas.Media5
import IpcHub.Lemmas.MediaCache
import IpcHub.Lemmas.Media6
import IpcHub.Model.MediaInst
namespace IpcHub.Props.C01
open IpcHub.Media

/-- subsequence test on the generated event programs -/
def subseq : List String → List String → Bool
  | [], _ => true
  | _ :: _, [] => false
  | x :: xs, y :: ys => if x = y then subseq xs ys else subseq (x :: xs) ys

def countOf (x : String) (l : List String) : Nat := (l.filter (· = x)).length

/-- Source facts the atomic steps of the model rest on (regenerated from /repo on every run):
    cache-then-broadcast and snapshot-then-register run under the same table mutex, every
    publisher path goes through `cacheAndSend`, and the fan-out pushes the same pack object. -/
theorem c01_source_facts :
    IpcHub.Gen.mediaFactsUnknown = [] ∧
    subseq ["cs.l.Lock", "defer cs.l.Unlock", "cache.CachePack", "cs.SendToAll"] IpcHub.Gen.progCacheAndSend = true ∧
    countOf "cs.l.Lock" IpcHub.Gen.progCacheAndSend = 1 ∧
    countOf "s.cacheAndSend" IpcHub.Gen.progWriteRtpPacket = 1 ∧
    subseq ["atomic.LoadInt32", "s.cacheAndSend"] IpcHub.Gen.progWriteFlvTag = true ∧
    subseq ["cs.l.Lock", "atomic.LoadInt32", "c.sendGop", "cs.Add", "cs.l.Unlock", "go c.consume"] IpcHub.Gen.progStartConsume = true ∧
    countOf "cs.l.Lock" IpcHub.Gen.progStartConsume = 1 ∧ countOf "cs.l.Unlock" IpcHub.Gen.progStartConsume = 1 ∧
    subseq ["m.Range", "c.send"] IpcHub.Gen.progSendToAll = true ∧
    subseq ["c.recvQueue.Len", "c.recvQueue.Push"] IpcHub.Gen.progConsSend = true ∧
    subseq ["c.recvQueue.Pop", "c.consumer.Consume"] IpcHub.Gen.progConsConsume = true ∧
    -- the critical sections start with the lock: no path touches the table or the cache before it
    IpcHub.Gen.progCacheAndSend.take 2 = ["cs.l.Lock", "defer cs.l.Unlock"] ∧
    -- PushTo hands out COPIES of the cached FLV header tags (it assigns to locals, never through the cache's pointers)
    countOf "set cache.metaData.Timestamp" IpcHub.Gen.progFlvPushTo = 0 ∧
    countOf "set cache.videoSequenceHeader.Timestamp" IpcHub.Gen.progFlvPushTo = 0 ∧
    countOf "set cache.audioSequenceHeader.Timestamp" IpcHub.Gen.progFlvPushTo = 0 ∧
    -- "unmodified": the delivery side never writes through the shared packet / tag object
    IpcHub.Gen.mutPacketWrite = [] ∧ IpcHub.Gen.mutTcpConsume = [] ∧ IpcHub.Gen.mutUdpConsume = [] ∧
    IpcHub.Gen.mutWspConsume = [] ∧ IpcHub.Gen.mutMulticastConsume = [] ∧ IpcHub.Gen.mutHttpFlvConsume = [] ∧
    IpcHub.Gen.mutWsFlvConsume = [] ∧ IpcHub.Gen.mutFlvWriteTag = [] ∧ IpcHub.Gen.mutFlvWriteTagFn = [] := by
  decide

/-- Shape: for every consumer, what it has received plus what is still queued for it is exactly
    its join replay followed by the packets `send` kept for it; what it has received is a prefix
    of that; and the kept packets are a subsequence (published order, nothing invented) of the
    packets published after it attached. -/
theorem c01_stream_shape (hevc gop : Bool) (ls : List Label) :
    let s := (genInit hevc gop).run ls
    ∀ c ∈ s.cons,
      (c.exited = false → c.delivered ++ c.pending = c.replay ++ c.sent) ∧
      c.delivered <+: c.replay ++ c.sent ∧
      List.Sublist c.sent (s.published.drop c.joinedAt) := by
  intro s c hc
  have h := (ginv_run _ _ ls (ginv_init genConsts IpcHub.Gen.maxQLen hevc gop)).cinv c hc
  exact ⟨h.shape, h.pre, h.sent_sub⟩

/-- Completeness: while nothing was ever dropped for backlog, an attached consumer is sent ALL
    packets published after it attached. -/
theorem c01_complete_when_not_dropping (hevc gop : Bool) (ls : List Label) :
    let s := (genInit hevc gop).run ls
    ∀ c ∈ s.cons, c.registered = true → c.everDiscarded = false →
      c.sent = s.published.drop c.joinedAt := by
  intro s c hc
  exact ((ginv_run _ _ ls (ginv_init genConsts IpcHub.Gen.maxQLen hevc gop)).cinv c hc).sent_all

/-- Completeness outside the drop episodes ("while nothing is being dropped for backlog it receives
    all of them", for a consumer that HAS dropped before): in every execution, for every consumer,
    `send` made one logged decision for EVERY packet published since it attached, in published order
    (all of them while it is attached, a prefix of them once it is detached); what it was sent is
    exactly the packets whose decision was "kept"; so a packet published while the consumer was
    attached is missing from what it is sent only if the decision taken for that very packet was
    "dropped" — and by c04_gop_aligned those decisions form runs that begin and end at key-frame
    starts.  In particular everything published after the end of a drop episode is sent again. -/
theorem c01_complete_outside_drop_episodes (hevc gop : Bool) (ls : List Label) :
    let s := (genInit hevc gop).run ls
    ∀ c ∈ s.cons,
      c.sendLog.map (·.1) <+: s.published.drop c.joinedAt ∧
      (c.registered = true → c.sendLog.map (·.1) = s.published.drop c.joinedAt) ∧
      c.sent = (c.sendLog.filter (fun e => e.2.2)).map (·.1) := by
  intro s c hc
  have h := linv_run (genInit hevc gop) ls (by intro c hc; simp [genInit, St.init] at hc) c hc
  exact ⟨h.ld, h.lp, h.ls⟩

/-- non-vacuity: a consumer with limit 2 that dropped a GOP and resumed at the next key frame: its
    log has an entry per published packet, the kept ones are what it was sent, and the packets
    after the episode are all there -/
example :
    let key : Pkt := { uid := 0, ch := 0, payload := [0x65, 1, 2, 3] }
    let non : Pkt := { uid := 0, ch := 0, payload := [0x61, 1, 2, 3] }
    let s := (St.init genConsts 2 false false).run
      [.join 0 false 0, .stall 0, .pub { key with uid := 1 }, .pub { non with uid := 2 }, .pub { non with uid := 3 },
       .pub { non with uid := 4 }, .pub { key with uid := 5 }, .pub { non with uid := 6 },
       .resume 0, .cstep 0, .cstep 0, .cstep 0, .cstep 0, .cstep 0, .cstep 0, .cstep 0, .cstep 0,
       .pub { key with uid := 7 }, .pub { non with uid := 8 }]
    s.cons.map (fun c => (c.sendLog.map (fun e => (e.1.uid, e.2.2)), c.sent.map (·.uid))) =
      [([(1, true), (2, true), (3, true), (4, true), (5, false), (6, false), (7, true), (8, true)], [1, 2, 3, 4, 7, 8])] := by
  decide

/-- At most once: if the publisher never publishes the same packet object twice, no consumer
    receives a packet twice — neither within the live part, nor between the cache replay and
    the live part. -/
theorem c01_at_most_once (hevc gop : Bool) (ls : List Label)
    (hfresh : ((genInit hevc gop).run ls).published.Nodup) :
    ∀ c ∈ ((genInit hevc gop).run ls).cons, c.delivered.Nodup := by
  intro c hc
  have hg := ginv_run _ _ ls (ginv_init genConsts IpcHub.Gen.maxQLen hevc gop)
  have h := hg.cinv c hc
  have hrep := hg.replay c hc
  -- replay ++ sent is duplicate-free
  have hsplit : (((genInit hevc gop).run ls).published.take c.joinedAt ++
      ((genInit hevc gop).run ls).published.drop c.joinedAt).Nodup := by
    rw [List.take_append_drop]; exact hfresh
  rw [List.nodup_append] at hsplit
  obtain ⟨hnt, hnd, hdisj⟩ := hsplit
  have hsent : c.sent.Nodup := hnd.sublist h.sent_sub
  have hrp : c.replay.Nodup ∧ ∀ q ∈ c.replay, q ∈ ((genInit hevc gop).run ls).published.take c.joinedAt := by
    rw [hrep]
    split
    · exact pushTo_nodup_subset _ _ (cachewf_packAll _ _ _ (cachewf_init hevc gop) hnt) hnt
    · exact ⟨by simp, by simp⟩
  have hall : (c.replay ++ c.sent).Nodup := by
    rw [List.nodup_append]
    refine ⟨hrp.1, hsent, ?_⟩
    intro a ha b hb
    exact hdisj a (hrp.2 a ha) b (h.sent_sub.subset hb)
  exact hall.sublist h.pre.sublist

/-- Independence: what a consumer `n` holds after any execution is what it holds after the same
    execution with every step of every OTHER consumer (their joins, stops, stalls, goroutine steps)
    erased — it depends neither on how many other consumers exist nor on when they attach or detach. -/
theorem c01_independent (hevc gop : Bool) (n : Nat) (ls : List Label) :
    ((genInit hevc gop).run ls).cons.filter (fun c => c.name = n)
      = ((genInit hevc gop).run (ls.filter (Label.concerns n))).cons := by
  have h0 : Proj n (genInit hevc gop) (genInit hevc gop) :=
    ⟨rfl, rfl, rfl, rfl, rfl, rfl, rfl, by simp [genInit, St.init]⟩
  exact (proj_run n _ _ ls h0).cons.symm

/-- non-vacuity: a concrete execution with two consumers where the hypotheses above are met and
    the conclusions are non-trivial (this is a test of the statements, not the unbounded claim) -/
example :
    let p1 : Pkt := { uid := 1, ch := 0, payload := [0x67, 1, 2, 3] }
    let p2 : Pkt := { uid := 2, ch := 0, payload := [0x65, 1, 2, 3] }
    let p3 : Pkt := { uid := 3, ch := 0, payload := [0x61, 1, 2, 3] }
    let s := (genInit false true).run [.pub p1, .pub p2, .join 0 true 0, .pub p3, .join 1 true 0,
                                       .cstep 0, .cstep 0, .cstep 0, .cstep 0, .stop 1]
    s.published.Nodup ∧ (s.cons.map (fun c => (c.name, c.delivered.map (·.uid), c.registered))) =
      [(0, [1, 2], true), (1, [], false)] := by
  decide

end IpcHub.Props.C01
