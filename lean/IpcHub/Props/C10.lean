/-
C10 — HLS playlist and segments are consistent, bounded and independently decodable.
Property theorems only; the model is `Model/Hls.lean` instantiated with the facts regenerated
from /repo (`Model/HlsInst.lean`); helper lemmas live in `Lemmas/Hls*.lean`.
-/
import IpcHub.Lemmas.Hls
import IpcHub.Model.HlsInst
namespace IpcHub.Props.C10
open IpcHub.Ts IpcHub.Hls IpcHub.HlsLemmas

/-- The source facts the theorems rest on, regenerated from /repo on every run: all shapes were
    recognised; three segments are kept; a segment shorter than 100 ms would be dropped;
    memorySegmentFile.get and Playlist.M3u8 hand out private copies (not the pooled buffers);
    every access to the segment list is under the playlist lock; the persistent file is flushed
    before it is closed; reapSegment closes, opens, then flushes the audio cache. -/
theorem c10_source_facts :
    IpcHub.Gen.hlsFactsUnknown = [] ∧ genCfg.remain = 3 ∧ genCfg.minDurMs = 100 ∧
    genCfg.aacDelay = 100 ∧ genCfg.aacSync = 100 ∧ genCfg.samples = 1024 ∧
    genCfg.getCopies = true ∧ genCfg.m3u8Copies = true ∧
    IpcHub.Gen.lockAddSegment = true ∧ IpcHub.Gen.lockClose = true ∧
    IpcHub.Gen.rlockM3u8 = true ∧ IpcHub.Gen.rlockSegment = true ∧
    IpcHub.Gen.persistentFlushBeforeClose = true ∧
    IpcHub.Gen.reapOrder = ["segmentClose", "segmentOpen", "flushAudioCache"] := by
  decide

/-- Playlist invariant, for EVERY frame sequence (any PIDs, sizes, time stamps, monotone or
    not), every fragment length and audio rate: whenever the generator has not panicked,
    * the segments ever completed are numbered 1, 2, 3, … and the listed ones are the LAST of
      them: consecutive numbers, the open segment carries the next number;
    * at most 3 are listed, exactly 3 as soon as 3 have been completed (`deleted ≠ []` or not);
    * everything older has been deleted;
    * no listed segment is shorter than the 100 ms minimum. -/
theorem c10_playlist_inv (frag rate : Nat) (fs : List Frame) (g : Gen)
    (h : Hls.writeFrames genCfg frag rate init fs = some g) :
    (g.deleted ++ g.playlist).map (·.seq) = List.range' 1 (g.deleted ++ g.playlist).length
    ∧ (∃ s, g.current = some s ∧ s.seq = (g.deleted ++ g.playlist).length + 1)
    ∧ g.playlist.length ≤ 3 ∧ (g.deleted ≠ [] → g.playlist.length = 3)
    ∧ (∀ s ∈ g.playlist, s.dur ≥ 9000) := by
  obtain ⟨⟨hn, s, hs, hseq, hno⟩, h2, h3, h4⟩ := writeFrames_inv genCfg frag rate fs init g h (inv_init genCfg)
  refine ⟨hn, ⟨s, hs, by omega⟩, h2, h3, ?_⟩
  intro x hx
  have := h4 x (List.mem_append_right _ hx)
  have e : (genCfg.minDurMs : Int) = 100 := by decide
  rw [e] at this
  omega

/-- What a served playlist says (the text is rendered from these fields by `Hls.m3u8`): it is
    served exactly when 3 segments are listed; the media sequence is the first listed number;
    the target duration (whole seconds) is strictly above every listed duration. -/
theorem c10_m3u8 (path token : List Char) (pl : List Seg) :
    ((m3u8 genCfg path pl token).isSome = true ↔ 3 ≤ pl.length)
    ∧ (∀ s ∈ pl, s.dur < (targetDuration pl : Int) * 90000) := by
  refine ⟨?_, fun s hs => target_gt pl s hs⟩
  have e : genCfg.remain = 3 := by decide
  unfold m3u8
  rw [e]
  constructor
  · intro h
    by_cases hl : pl.length < 3
    · simp [hl] at h
    · omega
  · intro h
    have hl : ¬ pl.length < 3 := by omega
    rw [if_neg hl]
    cases pl with
    | nil => simp at h
    | cons a l => rfl

/-- Every listed number resolves to a segment, every other number to none; what is fetched is
    the transport stream written for that segment: `mpegtsHeader` followed by the packets of
    exactly the frames put into it (`segBytes` = C09's `writeStream`). -/
theorem c10_segment_resolves (pl : List Seg) :
    (∀ s ∈ pl, ∃ s' ∈ pl, s'.seq = s.seq ∧ segment genCfg pl s.seq = some (writeStream genCfg.ts s'.frames))
    ∧ (∀ q, (∀ s ∈ pl, s.seq ≠ q) → segment genCfg pl q = none) :=
  ⟨fun s hs => segment_of_mem genCfg pl s hs, fun q h => segment_none genCfg pl q h⟩

/-- Bounded storage: at any time at most 3 finished segments and the open one exist; all other
    segments ever created are in `deleted` (file removed / buffer returned) or `dropped`. -/
theorem c10_bounded (frag rate : Nat) (fs : List Frame) (g : Gen)
    (h : Hls.writeFrames genCfg frag rate init fs = some g) :
    g.playlist.length + g.current.toList.length ≤ 4 := by
  obtain ⟨_, _, h3, _, _⟩ := c10_playlist_inv frag rate fs g h
  cases g.current <;> simp <;> omega

/-! ### non-vacuity -/

/-- a run of the model on a concrete stream (two GOPs of one second, fragment 1 s) succeeds
    and completes a segment -/
example : ∃ g, Hls.writeFrames genCfg 1 8000 init
    [ { pid := 256, streamId := 0xe0, dts := 0, pts := 0, header := [0,0,0,1,9,0xf0,0,0,1], payload := [0x65, 1], key := true },
      { pid := 256, streamId := 0xe0, dts := 45000, pts := 45000, header := [0,0,0,1,9,0xf0,0,0,1], payload := [0x41, 2], key := false },
      { pid := 256, streamId := 0xe0, dts := 90000, pts := 90000, header := [0,0,0,1,9,0xf0,0,0,1], payload := [0x65, 3], key := true },
      { pid := 256, streamId := 0xe0, dts := 180000, pts := 180000, header := [0,0,0,1,9,0xf0,0,0,1], payload := [0x65, 4], key := true } ] = some g
    ∧ g.playlist.map (·.seq) = [1] ∧ g.current.map (·.seq) = some 2 := ⟨_, rfl, by decide, by decide⟩

end IpcHub.Props.C10
