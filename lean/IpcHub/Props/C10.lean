/-
C10 — HLS playlist and segments are consistent, bounded and independently decodable.
Property theorems only; the model is `Model/Hls.lean` instantiated with the facts regenerated
from /repo (`Model/HlsInst.lean`); helper lemmas live in `Lemmas/Hls*.lean`.
-/
import IpcHub.Lemmas.Hls
import IpcHub.Lemmas.HlsFrames
import IpcHub.Lemmas.HlsKey
import IpcHub.Lemmas.HlsStore
import IpcHub.Lemmas.HlsDisk
import IpcHub.Lemmas.HlsText
import IpcHub.Model.HlsInst
namespace IpcHub.Props.C10
open IpcHub.Ts IpcHub.Hls IpcHub.HlsLemmas

/-- The source facts the theorems rest on, regenerated from /repo on every run: all shapes were
    recognised; three segments are kept; a segment shorter than 100 ms would be dropped;
    memorySegmentFile.get and Playlist.M3u8 hand out private copies (not the pooled buffers);
    every access to the segment list is under the playlist lock; the persistent file is flushed
    before it is closed; segmentClose closes the finished file before it lists the segment;
    reapSegment closes, opens, then flushes the audio cache; the caller's
    token is query-escaped in the segment URIs; the first segment is timed from its first frame;
    config.HlsFragment() never yields less than one second. -/
theorem c10_source_facts :
    IpcHub.Gen.hlsFactsUnknown = [] ∧ genCfg.remain = 3 ∧ genCfg.minDurMs = 100 ∧
    genCfg.aacDelay = 100 ∧ genCfg.aacSync = 100 ∧ genCfg.samples = 1024 ∧
    genCfg.getCopies = true ∧ genCfg.m3u8Copies = true ∧
    IpcHub.Gen.lockAddSegment = true ∧ IpcHub.Gen.lockClose = true ∧
    IpcHub.Gen.rlockM3u8 = true ∧ IpcHub.Gen.rlockSegment = true ∧
    IpcHub.Gen.persistentFlushBeforeClose = true ∧
    IpcHub.Gen.segmentClosedBeforeListed = true ∧
    IpcHub.Gen.reapOrder = ["segmentClose", "segmentOpen", "flushAudioCache"] ∧
    genCfg.tokenEscaped = true ∧ genCfg.firstFromFrame = true ∧ 1 ≤ genCfg.minFragment := by
  decide

/-- Playlist invariant, for EVERY frame sequence (any PIDs, sizes, time stamps, monotone or
    not), every fragment length and audio rate: whenever the generator has not panicked,
    * the segments ever completed are numbered 1, 2, 3, … and the listed ones are the LAST of
      them: consecutive numbers, the open segment carries the next number;
    * at most 3 are listed, exactly 3 as soon as 3 have been completed (`deleted ≠ []` or not);
    * everything older has been deleted;
    * no listed segment is shorter than the 100 ms minimum. -/
theorem c10_playlist_inv (frag rate : Nat) (fs : List Frame) (g : Gen)
    (h : Hls.writeFrames genCfg frag rate (initOf genCfg) fs = some g) :
    (g.deleted ++ g.playlist).map (·.seq) = List.range' 1 (g.deleted ++ g.playlist).length
    ∧ (∃ s, g.current = some s ∧ s.seq = (g.deleted ++ g.playlist).length + 1)
    ∧ g.playlist.length ≤ 3 ∧ (g.deleted ≠ [] → g.playlist.length = 3)
    ∧ (∀ s ∈ g.playlist, s.dur ≥ 9000) := by
  obtain ⟨⟨hn, s, hs, hseq, hno⟩, h2, h3, h4⟩ := writeFrames_inv genCfg frag rate fs (initOf genCfg) g h (inv_init genCfg _)
  refine ⟨hn, ⟨s, hs, by omega⟩, h2, h3, ?_⟩
  intro x hx
  have := h4 x (List.mem_append_right _ hx)
  have e : (genCfg.minDurMs : Int) = 100 := by decide
  rw [e] at this
  omega

/-- What a served playlist says (the text is rendered from these fields by `Hls.m3u8`): it is
    served exactly when 3 segments are listed; the media sequence is the first listed number;
    the target duration (whole seconds) is strictly above every listed duration. -/
theorem c10_m3u8 (path token : List Char) (pl : List Seg) :
    ((m3u8 genCfg path pl token).isSome = true ↔ 3 ≤ pl.length)
    ∧ (∀ s ∈ pl, s.dur < (targetDuration pl : Int) * 90000) := by
  refine ⟨?_, fun s hs => target_gt pl s hs⟩
  have e : genCfg.remain = 3 := by decide
  unfold m3u8
  rw [e]
  constructor
  · intro h
    by_cases hl : pl.length < 3
    · simp [hl] at h
    · omega
  · intro h
    have hl : ¬ pl.length < 3 := by omega
    rw [if_neg hl]
    cases pl with
    | nil => simp at h
    | cons a l => rfl

/-- Every listed number resolves to a segment, every other number to none; what is fetched is
    the transport stream written for that segment: `mpegtsHeader` followed by the packets of
    exactly the frames put into it (`segBytes` = C09's `writeStream`). -/
theorem c10_segment_resolves (pl : List Seg) :
    (∀ s ∈ pl, ∃ s' ∈ pl, s'.seq = s.seq ∧ segment genCfg pl s.seq = some (writeStream genCfg.ts s'.frames))
    ∧ (∀ q, (∀ s ∈ pl, s.seq ≠ q) → segment genCfg pl q = none) :=
  ⟨fun s hs => segment_of_mem genCfg pl s hs, fun q h => segment_none genCfg pl q h⟩

/-- Exactly once, for EVERY frame sequence, audio rate and every fragment length of at least one
    second (config.HlsFragment clamps to ≥ 5): whenever the generator has not panicked,
    * no segment was ever dropped (the "< 100 ms, reuse the number" branch of segmentClose is
      unreachable: a segment is only closed after it lasted a whole fragment);
    * the video frames in the segments — deleted ones, listed ones, the open one, in order of
      sequence number — are exactly the source video frames (non-empty payload), in order, each
      once;
    * the audio elementary stream in the segments followed by what waits in the audio cache is
      exactly the concatenation of (ADTS header ++ AAC frame) over the source audio frames: no
      audio frame is lost, duplicated or reordered by the caching and re-framing. -/
theorem c10_exactly_once (frag rate : Nat) (hfrag : 1 ≤ frag) (fs : List Frame) (g : Gen)
    (h : Hls.writeFrames genCfg frag rate (initOf genCfg) fs = some g) :
    g.dropped = []
    ∧ videoOf genCfg (written g) = srcVideo genCfg fs
    ∧ audioEs genCfg (written g) ++ cacheEs g = srcAudioEs genCfg fs := by
  have := writeFrames_cons genCfg frag rate hfrag (by decide) fs (initOf genCfg) g [] [] (cons_init genCfg _) h
  obtain ⟨h1, _, h3, h4, _⟩ := this
  exact ⟨h1, by simpa using h3, by simpa using h4⟩

/-- The same for every fragment length the server can be configured with: `config.HlsFragment()`
    returns the configured value raised to the regenerated minimum (`hlsFragmentMin`, 5 s), which
    is at least one second — so on the running server no segment is ever dropped and every
    source frame is in the segments exactly once, whatever `hlsfragment` says. -/
theorem c10_exactly_once_configured (configured rate : Nat) (fs : List Frame) (g : Gen)
    (h : Hls.writeFrames genCfg (max configured genCfg.minFragment) rate (initOf genCfg) fs = some g) :
    g.dropped = []
    ∧ videoOf genCfg (written g) = srcVideo genCfg fs
    ∧ audioEs genCfg (written g) ++ cacheEs g = srcAudioEs genCfg fs :=
  c10_exactly_once _ rate (by have : 1 ≤ genCfg.minFragment := by decide
                              omega) fs g h

/-- Why the fragment length matters: with hlsFragment = 0 (which only a caller bypassing
    config.HlsFragment can pass) every key frame reaps, a GOP shorter than 100 ms is closed below
    the minimum duration, its segment is deleted and its frames are lost.  -/
theorem c10_short_segment_dropped_when_frag_zero :
    ∃ g, Hls.writeFrames genCfg 0 8000 (initOf genCfg)
      [ { pid := 256, streamId := 0xe0, dts := 0, pts := 0, header := [0,0,0,1], payload := [0x65, 1], key := true },
        { pid := 256, streamId := 0xe0, dts := 3000, pts := 3000, header := [0,0,0,1], payload := [0x65, 2], key := true },
        { pid := 256, streamId := 0xe0, dts := 6000, pts := 6000, header := [0,0,0,1], payload := [0x65, 3], key := true } ] = some g
    ∧ g.dropped.length = 3 ∧ (videoOf genCfg (written g)).length = 1 := ⟨_, rfl, by decide, by decide⟩

/-- the stream of `c10_audio_reap_witness`: one key frame, then a GOP of more than two seconds with
    8 kHz AAC frames every 128 ms -/
def longGopStream : List Frame :=
  [ { pid := 256, streamId := 0xe0, dts := 0, pts := 0, header := [0,0,1], payload := [0x65, 1], key := true },
    { pid := 257, streamId := 0xc0, dts := 300, pts := 300, header := [0xff,0xf1], payload := [0], key := false },
    { pid := 257, streamId := 0xc0, dts := 11820, pts := 11820, header := [0xff,0xf1], payload := [1], key := false },
    { pid := 257, streamId := 0xc0, dts := 23340, pts := 23340, header := [0xff,0xf1], payload := [2], key := false },
    { pid := 257, streamId := 0xc0, dts := 34860, pts := 34860, header := [0xff,0xf1], payload := [3], key := false },
    { pid := 257, streamId := 0xc0, dts := 46380, pts := 46380, header := [0xff,0xf1], payload := [4], key := false },
    { pid := 257, streamId := 0xc0, dts := 57900, pts := 57900, header := [0xff,0xf1], payload := [5], key := false },
    { pid := 256, streamId := 0xe0, dts := 60000, pts := 60000, header := [0,0,1], payload := [0x41, 2], key := false },
    { pid := 257, streamId := 0xc0, dts := 69420, pts := 69420, header := [0xff,0xf1], payload := [6], key := false },
    { pid := 257, streamId := 0xc0, dts := 80940, pts := 80940, header := [0xff,0xf1], payload := [7], key := false },
    { pid := 257, streamId := 0xc0, dts := 92460, pts := 92460, header := [0xff,0xf1], payload := [8], key := false },
    { pid := 257, streamId := 0xc0, dts := 103980, pts := 103980, header := [0xff,0xf1], payload := [9], key := false },
    { pid := 257, streamId := 0xc0, dts := 115500, pts := 115500, header := [0xff,0xf1], payload := [10], key := false },
    { pid := 256, streamId := 0xe0, dts := 120000, pts := 120000, header := [0,0,1], payload := [0x41, 3], key := false },
    { pid := 257, streamId := 0xc0, dts := 127020, pts := 127020, header := [0xff,0xf1], payload := [11], key := false },
    { pid := 257, streamId := 0xc0, dts := 138540, pts := 138540, header := [0xff,0xf1], payload := [12], key := false },
    { pid := 257, streamId := 0xc0, dts := 150060, pts := 150060, header := [0xff,0xf1], payload := [13], key := false },
    { pid := 257, streamId := 0xc0, dts := 161580, pts := 161580, header := [0xff,0xf1], payload := [14], key := false },
    { pid := 257, streamId := 0xc0, dts := 173100, pts := 173100, header := [0xff,0xf1], payload := [15], key := false },
    { pid := 257, streamId := 0xc0, dts := 184620, pts := 184620, header := [0xff,0xf1], payload := [16], key := false },
    { pid := 256, streamId := 0xe0, dts := 185000, pts := 185000, header := [0,0,1], payload := [0x41, 4], key := false },
    { pid := 257, streamId := 0xc0, dts := 196140, pts := 196140, header := [0xff,0xf1], payload := [17], key := false },
    { pid := 257, streamId := 0xc0, dts := 207660, pts := 207660, header := [0xff,0xf1], payload := [18], key := false },
    { pid := 257, streamId := 0xc0, dts := 219180, pts := 219180, header := [0xff,0xf1], payload := [19], key := false },
    { pid := 256, streamId := 0xe0, dts := 225000, pts := 225000, header := [0,0,1], payload := [0x41, 5], key := false },
    { pid := 257, streamId := 0xc0, dts := 230700, pts := 230700, header := [0xff,0xf1], payload := [20], key := false } ]

/-- Key-frame start, partial.  Full statement (FALSE, see the witness below): "every segment
    after the first begins its video with a key frame".  Proved, for EVERY frame sequence,
    fragment length and audio rate: every segment — deleted, listed or open — that is not the
    very first one and was NOT opened by the audio-side reap (`isSegmentAbsolutelyOverflow`,
    duration ≥ 2 × fragment seen from an audio frame) contains video and its first video frame
    is a key frame (which, by C09 `c09_annexb`, carries AUD + SPS + PPS in front of the IDR
    slice).  Excluded: exactly the segments with the ghost flag `byAudio` (open known finding
    `segment-not-starting-with-key:audio-side-reap`). -/
theorem c10_starts_with_key_partial (frag rate : Nat) (fs : List Frame) (g : Gen)
    (h : Hls.writeFrames genCfg frag rate (initOf genCfg) fs = some g) :
    ∀ s ∈ g.deleted ++ g.playlist ++ g.current.toList, s.byAudio = false → s.seqHdr = false →
      ∃ v rest, videoOf genCfg s.frames = v :: rest ∧ v.key = true := by
  obtain ⟨hcl, ⟨s0, hs0, hk0⟩, _⟩ := writeFrames_key genCfg frag rate fs (initOf genCfg) g (keyInv_init genCfg _) h
  intro s hs
  rcases List.mem_append.mp hs with hs | hs
  · exact hcl s hs
  · rw [hs0] at hs; simp at hs; subst hs; exact hk0

/-- The excluded case is real: with a GOP longer than 2 × fragment and audio present, the audio
    path reaps the segment two seconds in; segment 2 is opened in the middle of the GOP and its
    first video frame is not a key frame.  Replayed on the implementation by
    corpus/C10/witnesses.case. -/
theorem c10_audio_reap_witness :
    (match Hls.writeFrames genCfg 1 8000 (initOf genCfg) longGopStream with
     | some g =>
       (match g.current with
        | some s => s.seq == 2 && s.byAudio &&
            (match videoOf genCfg s.frames with | v :: _ => !v.key | [] => false)
        | none => false)
     | none => false) = true := by
  decide +kernel

/-- the stream of `c10_first_segment_from_zero_counterexample`: stream time starts at 10 s (RTP
    time stamps rarely start at 0): a key frame, an AAC frame, the next frame of the GOP -/
def lateStartStream : List Frame :=
  [ { pid := 256, streamId := 0xe0, dts := 900000, pts := 900000, header := [0,0,1], payload := [0x65, 1], key := true },
    { pid := 257, streamId := 0xc0, dts := 900300, pts := 900300, header := [0xff,0xf1], payload := [0], key := false },
    { pid := 256, streamId := 0xe0, dts := 903000, pts := 903000, header := [0,0,1], payload := [0x41, 2], key := false } ]

/-- Why the first segment is timed from its first frame (fix 79c2429).  With the start time 0 of
    the code before (`initWith false`), a stream whose time stamps begin at 10 s makes segment 1
    look 10 s long: the very first audio frame reaps it (absolute overflow) and segment 2 begins
    with the second frame of the GOP — not a key frame.  With the regenerated fact
    (`firstFromFrame = true`) the three frames stay in segment 1.  Replayed on the implementation
    by corpus/C10/witnesses.case. -/
theorem c10_first_segment_from_zero_counterexample :
    (match Hls.writeFrames genCfg 5 8000 (initWith false) lateStartStream with
     | some g => (match g.current with
        | some s => s.seq == 2 && s.byAudio && (match videoOf genCfg s.frames with | v :: _ => !v.key | [] => false)
        | none => false)
     | none => false) = true
    ∧ (match Hls.writeFrames genCfg 5 8000 (initOf genCfg) lateStartStream with
       | some g => (match g.current with
          | some s => s.seq == 1 && s.start == 900000 && s.frames.length == 2
          | none => false)
       | none => false) = true := by
  constructor <;> decide +kernel

/-- The caller's token in the segment URIs: the model writes `?token=` followed by
    `url.QueryEscape(token)` (regenerated fact `tokenEscaped`), and the text the specification's
    reader of query values recovers from that is exactly the caller's token — for EVERY token made
    of bytes, whatever characters it contains (`&`, `#`, `%`, spaces, line breaks, non-ASCII). -/
theorem c10_token_roundtrip (token : List Char) (h : ∀ c ∈ token, c.toNat < 256) :
    genCfg.tokenEscaped = true
    ∧ IpcHub.HlsSpec.queryValue (queryEscape token) = some token :=
  ⟨by decide, queryValue_escape token h⟩

/-- … which the raw token of the code before fix a77ce75 did not satisfy: `a&b` written as it is
    names the token `a`, `a b` or `50%` are no URI; the playlist model with `tokenEscaped := false`
    writes exactly that. -/
theorem c10_token_raw_counterexample :
    IpcHub.HlsSpec.queryValue "a&b".toList = none
    ∧ IpcHub.HlsSpec.uriSeq "/s".toList "a&b".toList "/streams/s/7.ts?token=a&b".toList = none
    ∧ IpcHub.HlsSpec.uriSeq "/s".toList "a&b".toList "/streams/s/7.ts?token=a%26b".toList = some 7 := by
  decide +kernel

/-- Read stability under roll-over (storage LTS, every interleaving): with the regenerated fact
    `memoryGetCopies = true`, a reader obtained by `Segment(seq)` while the file of `seq` holds the
    bytes `x` delivers exactly `x` whenever it is read later — after ANY sequence of further
    operations of the generator and of other clients (segments written, deleted, their pooled
    buffers recycled and overwritten, other readers taken and read). -/
theorem c10_read_stable (st : HlsStore.Store) (seq : Nat) (x : List UInt8)
    (hx : HlsStore.content st seq = some x) (ops : List HlsStore.Op) :
    let st1 := (HlsStore.step genCfg.getCopies st (.get seq)).1
    let st2 := HlsStore.run genCfg.getCopies st1 ops
    (HlsStore.step genCfg.getCopies st2 (.read st.readers.length)).2 = some x := by
  have e : genCfg.getCopies = true := by decide
  simp only [e]
  have h1 := HlsStore.get_copies st seq x hx
  have h2 := HlsStore.run_readers true ops _ _ _ h1
  generalize HlsStore.run true (HlsStore.step true st (.get seq)).1 ops = st2 at h2
  show (HlsStore.step true st2 (.read st.readers.length)).2 = some x
  simp only [HlsStore.step, h2, HlsStore.readNow]

/-- The behaviour before fix 934291d (`get` wrapping the pooled buffer itself): a client takes a
    reader for segment 1, the playlist rolls over (segment 1 deleted, its buffer recycled for
    segment 2), the client then reads the bytes of segment 2.  Reproduced on the implementation
    by corpus/C10/witnesses.case (class read-not-stable). -/
theorem c10_read_stable_alias_counterexample :
    let ops : List HlsStore.Op := [.openSeg 1, .write 1 [1, 2, 3], .get 1, .delete 1, .openSeg 2, .write 2 [9, 9, 9]]
    (HlsStore.step false (HlsStore.run false HlsStore.empty ops) (.read 0)).2 = some [9, 9, 9]
    ∧ (HlsStore.step true (HlsStore.run true HlsStore.empty ops) (.read 0)).2 = some [1, 2, 3] := by
  decide

/-- Playlist privacy: `M3u8` renders into a pooled buffer and (fact `m3u8Copies = true`) returns a
    private copy; the bytes handed to one caller are never changed by any later call.  Instance
    of the storage LTS: render (open, write, get, delete→pool) twice; the first caller's bytes
    stay `t1`.  With the aliasing return value (before fix e764d8f) the first caller reads the
    second caller's playlist — including the second caller's token. -/
theorem c10_m3u8_private (t1 t2 : List UInt8) :
    let call (k : Nat) (t : List UInt8) : List HlsStore.Op := [.openSeg k, .write k t, .get k, .delete k]
    (HlsStore.step genCfg.m3u8Copies (HlsStore.run genCfg.m3u8Copies HlsStore.empty (call 1 t1 ++ call 2 t2)) (.read 0)).2
      = some t1 := by
  have e : genCfg.m3u8Copies = true := by decide
  simp only [e]
  simp [HlsStore.run, HlsStore.step, HlsStore.empty, HlsStore.lookup, HlsStore.setAt, HlsStore.readNow]

theorem c10_m3u8_alias_counterexample :
    let call (k : Nat) (t : List UInt8) : List HlsStore.Op := [.openSeg k, .write k t, .get k, .delete k]
    (HlsStore.step false (HlsStore.run false HlsStore.empty (call 1 [0x61, 0x61] ++ call 2 [0x62, 0x62])) (.read 0)).2
      = some [0x62, 0x62] := by
  decide

/-- Fetch during roll-over, disk storage (disk-file LTS `Model/HlsDisk.lean`): for EVERY sequence of
    frames and roll-overs, EVERY buffering policy of the 64 KiB writer (how much of the buffered
    bytes each write passes on to the file is arbitrary) and EVERY point at which another goroutine
    can be scheduled between two atomic steps of the generator (segmentClose: take the open segment,
    close its file, list it; segmentOpen) — with the regenerated fact that segmentClose closes
    (flushes) the file BEFORE the segment enters the playlist — whatever `Playlist.Segment(q)`
    delivers for a listed number `q` is the whole content of the listed file of that number: all
    bytes ever written to it, none of them still in the writer's buffer. -/
theorem c10_disk_fetch_complete (acts : List HlsDisk.Act) :
    ∀ st ∈ HlsDisk.observable IpcHub.Gen.segmentClosedBeforeListed HlsDisk.init acts,
      ∀ q b, HlsDisk.fetch st q = some b → ∃ f ∈ st.listed, f.seq = q ∧ b = f.content := by
  have e : IpcHub.Gen.segmentClosedBeforeListed = true := by decide
  rw [e]
  intro st hst q b h
  exact HlsDisk.fetch_flushed st q b (HlsDisk.observable_closeFirst acts _ HlsDisk.inv_init st hst) h

/-- … and the content of the open segment only ever grows by the frames written to it; closing
    (flushing) a file does not change its content. -/
theorem c10_disk_content (st : HlsDisk.St) (f : HlsDisk.File) (d : HlsDisk.Bytes) (k : Nat)
    (h : st.current = some f) :
    (∃ f', (HlsDisk.step st (.write d k)).current = some f' ∧ f'.seq = f.seq ∧ f'.content = f.content ++ d)
    ∧ (HlsDisk.flush f).content = f.content :=
  ⟨HlsDisk.write_content st f d k h, HlsDisk.flush_content f⟩

/-- Listing before closing (`defer curr.file.close()` in segmentClose) breaks it: three bytes are
    written to segment 1 and stay in the writer; at the schedule point between "listed" and "closed"
    a client is served an empty segment 1.  In the source's order every observable state serves
    either nothing (not listed yet) or all three bytes. -/
theorem c10_disk_listed_before_closed_counterexample :
    let acts : List HlsDisk.Act := [.frame [1, 2, 3] 0, .rollover 2]
    (HlsDisk.observable false HlsDisk.init acts).any (fun st => HlsDisk.fetch st 1 == some []) = true
    ∧ (HlsDisk.observable true HlsDisk.init acts).all
        (fun st => HlsDisk.fetch st 1 == none || HlsDisk.fetch st 1 == some [1, 2, 3]) = true := by
  decide

/-- Bounded storage: at any time at most 3 finished segments and the open one exist; all other
    segments ever created are in `deleted` (file removed / buffer returned) or `dropped`. -/
theorem c10_bounded (frag rate : Nat) (fs : List Frame) (g : Gen)
    (h : Hls.writeFrames genCfg frag rate (initOf genCfg) fs = some g) :
    g.playlist.length + g.current.toList.length ≤ 4 := by
  obtain ⟨_, _, h3, _, _⟩ := c10_playlist_inv frag rate fs g h
  cases g.current <;> simp <;> omega

/-! ### non-vacuity -/

/-- a token with reserved characters meets the hypothesis of `c10_token_roundtrip` -/
example : ∀ c ∈ "k=v&x #\n".toList, c.toNat < 256 := by decide

/-- the hypothesis of `c10_disk_fetch_complete` is met with a fetch that delivers bytes: after two
    frames (the writer passing 2 of the first 3 bytes on) and a roll-over, segment 1 is served whole -/
example : ∃ st ∈ HlsDisk.observable true HlsDisk.init [.frame [1, 2, 3] 2, .frame [4] 0, .rollover 2],
    HlsDisk.fetch st 1 = some [1, 2, 3, 4] := by decide

/-- a run of the model on a concrete stream (two GOPs of one second, fragment 1 s) succeeds
    and completes a segment -/
example : ∃ g, Hls.writeFrames genCfg 1 8000 (initOf genCfg)
    [ { pid := 256, streamId := 0xe0, dts := 0, pts := 0, header := [0,0,0,1,9,0xf0,0,0,1], payload := [0x65, 1], key := true },
      { pid := 256, streamId := 0xe0, dts := 45000, pts := 45000, header := [0,0,0,1,9,0xf0,0,0,1], payload := [0x41, 2], key := false },
      { pid := 256, streamId := 0xe0, dts := 90000, pts := 90000, header := [0,0,0,1,9,0xf0,0,0,1], payload := [0x65, 3], key := true },
      { pid := 256, streamId := 0xe0, dts := 180000, pts := 180000, header := [0,0,0,1,9,0xf0,0,0,1], payload := [0x65, 4], key := true } ] = some g
    ∧ g.playlist.map (·.seq) = [1] ∧ g.current.map (·.seq) = some 2 := ⟨_, rfl, by decide, by decide⟩

end IpcHub.Props.C10
