/-
C13 — Concurrent writers never tear messages on an interleaved connection.
Property theorems only.  Model: IpcHub/Model/Writers.lean (+ WritersInst: the generated
programs), specification: IpcHub/Spec/Interleave.lean, lemmas: IpcHub/Lemmas/Writers*.lean.
-/
import IpcHub.Lemmas.Writers
import IpcHub.Lemmas.WritersLts
import IpcHub.Lemmas.WritersSound
import IpcHub.Model.WritersInst
namespace IpcHub.Props.C13
open IpcHub.Writers IpcHub.InterleaveSpec

/-- The source facts, regenerated from /repo on every run: in every writer of a session
    (`Session.response` and `tcpConsumer.Consume`, both for TCP and for WebSocket, and
    `wsp.Session.Consume`) every primitive that touches the connection lies inside one
    `lockW.Lock … lockW.Unlock` section with nothing but writes in it; the WebSocket writers send
    exactly one message per call, the buffer filled by one `Write` after a `Reset`, and skip an
    empty buffer; `Packet.Write` makes two writes (prefix, payload) after the unsubscribed-channel
    guard; `websocketTransport.Write` is one `NextWriter` / `Write` / `Close` under its own mutex;
    the WSP reply is written once per request. -/
theorem c13_source_programs :
    IpcHub.Gen.writerFactsUnknown = [] ∧
    wellLocked IpcHub.Gen.responseTcp = true ∧ wellLocked IpcHub.Gen.consumeTcp = true ∧
    wellLocked IpcHub.Gen.responseWs = true ∧ wellLocked IpcHub.Gen.consumeWs = true ∧
    wellLocked IpcHub.Gen.wspConsume = true ∧
    oneMessage IpcHub.Gen.responseWs = true ∧ oneMessage IpcHub.Gen.consumeWs = true ∧
    oneMessage IpcHub.Gen.wspConsume = true ∧
    genSkipEmpty = true ∧
    IpcHub.Gen.packetWrite = ["return-if:p.Channel >= ChannelCount", "return-if:ch < 0 || ch > 255", "write:prefix[:]",
      "return-if:err != nil", "hook", "write:p.Data", "return-if:err != nil"] ∧
    IpcHub.Gen.wsTransportWrite = ["lock:self", "nextwriter:websocket.BinaryMessage", "write:b", "close", "deferred:unlock:self"] ∧
    IpcHub.Gen.wsTextTransportWrite = ["lock:self", "nextwriter:websocket.TextMessage", "write:b", "close", "deferred:unlock:self"] ∧
    IpcHub.Gen.wspReplyWrites = 1 := by
  decide

/-- The SET of writers, regenerated from /repo on every run: in the two session packages
    (service/rtsp, service/wsp) a session connection (`.conn`, `.wsconn`, `.dataChannel`) is written,
    flushed, handed to a callee or copied ONLY at these places — `Session.response`,
    `tcpConsumer.Consume`, `wsp.Session.Consume` (the programs of `c13_source_programs`), the single
    reply write and the request reader of the WSP control loop, and the pull client's own
    request/response writers (a different connection, to a camera).  A new writer, an alias of a
    connection or a helper that receives one breaks this obligation. -/
theorem c13_source_writers :
    IpcHub.Gen.connUses =
      ["service/rtsp/pull_client.go:PullClient.request: c.conn.Flush()",
      "service/rtsp/pull_client.go:PullClient.request: req.Write(c.conn)",
      "service/rtsp/pull_client.go:PullClient.response: c.conn.Flush()",
      "service/rtsp/pull_client.go:PullClient.response: resp.Write(c.conn)",
      "service/rtsp/session.go:Session.response: resp.Write(s.conn)",
      "service/rtsp/session.go:Session.response: s.conn.Flush()",
      "service/rtsp/session.go:Session.response: s.wsconn.Write(buf.Bytes())",
      "service/rtsp/session_roles.go:tcpConsumer.Consume: c.wsconn.Write(buf.Bytes())",
      "service/rtsp/session_roles.go:tcpConsumer.Consume: p2.Write(c.conn, c.transport.Channels[:])",
      "service/wsp/session.go:Session.Consume: s.dataChannel.Write(buf.Bytes())",
      "service/wsp/session.go:Session.process: DecodeRequest(s.conn, s.logger)",
      "service/wsp/session.go:Session.process: s.conn.Write(buf.Bytes())"] := by
  decide

/-- The scratch buffers of the WebSocket writers (the frame is composed OUTSIDE `lockW`, only the
    one `Write` of the finished message is under it) come from a `sync.Pool`; a buffer is private to
    the goroutine that took it only if it goes back exactly once: in every function of the two
    session packages each `buffers.Get` is matched by one deferred `buffers.Put` and there is no
    other `Put` (a second `Put` hands the same buffer to two later users, whose messages then mix). -/
theorem c13_source_buffers :
    IpcHub.Gen.poolUses.all (fun u => u.2.1 == u.2.2.1 && u.2.2.2 == 0) = true ∧
    IpcHub.Gen.poolUses.map (·.1) = ["service/rtsp/session.go:Session.response", "service/rtsp/session_roles.go:tcpConsumer.Consume",
      "service/wsp/session.go:Session.Consume", "service/wsp/session.go:Session.process",
      "service/wsp/wsp.go:Server.handshakeControlChannel", "service/wsp/wsp.go:Server.handshakeDataChannel"] := by
  decide

/-- `wellLocked` on the shapes a harmless refactoring produces and on the shapes it must refuse
    (tests on literals): a deferred unlock with early returns inside the section is well-locked; an
    early return that keeps the lock, a write after the unlock, a flush outside the section and a
    second lock are not. -/
theorem c13_well_locked_shapes :
    wellLocked ["lock:lockW", "connwrite", "return-unlocks", "flush", "unlock:lockW"] = true ∧
    wellLocked ["return-if:c.closed", "lock:lockW", "connwrite", "return-unlocks", "  in-return:closeSession", "unlock:lockW"] = true ∧
    wellLocked ["lock:lockW", "connwrite", "return-if:err != nil", "flush", "unlock:lockW"] = false ∧
    wellLocked ["lock:lockW", "connwrite", "unlock:lockW", "flush"] = false ∧
    wellLocked ["lock:lockW", "connwrite", "unlock:lockW", "lock:lockW", "flush", "unlock:lockW"] = false ∧
    wellLocked ["connwrite", "flush"] = false ∧
    wellLocked ["lock:lockW", "write?connWriter{c.Session}", "unlock:lockW"] = false := by
  decide

/-- The generated TCP programs ARE well-locked jobs of the LTS: for every chunk list, the
    operations of `tcpConsumer.Consume` are `lock; write chunk…; unlock` and those of
    `Session.response` are `lock; write chunk…; flush; unlock`. -/
theorem c13_source_jobs (writes : List (List UInt8)) :
    opsOfShape IpcHub.Gen.consumeTcp writes = jobOps ⟨writes.map Op.write⟩ ∧
    opsOfShape IpcHub.Gen.responseTcp writes = jobOps ⟨writes.map Op.write ++ [Op.flush]⟩ ∧
    bodyOk (writes.map Op.write) = true ∧ bodyOk (writes.map Op.write ++ [Op.flush]) = true := by
  refine ⟨by simp [opsOfShape, IpcHub.Gen.consumeTcp, jobOps], by simp [opsOfShape, IpcHub.Gen.responseTcp, jobOps], ?_, ?_⟩
  · induction writes with
    | nil => rfl
    | cons w r ih => simpa [bodyOk] using ih
  · induction writes with
    | nil => rfl
    | cons w r ih => simpa [bodyOk] using ih

/-- No tearing, for EVERY number of writer goroutines, every list of messages per goroutine and
    EVERY interleaving (schedule) of their primitive steps, including a pre-emption between any two
    writes of a message: if every message is sent by a well-locked program (`lock; writes/flushes;
    unlock` on the connection's mutex), then at every moment the chunks handed to the connection are
    the complete messages of the sections completed so far — in the order the sections completed,
    each goroutine's own messages in its own order — followed by a prefix of the ONE message in
    progress, and by nothing if no section is open. -/
theorem c13_no_tear (jobs : Nat → List Job) (hok : ∀ t, ∀ j ∈ jobs t, bodyOk j.body = true) (sched : List Nat) :
    let st := exec (initSt (fun t => progOf (jobs t))) sched
    ∃ (done : List (Nat × Job)) (cur : List UInt8),
      st.out.flatten = (done.map (fun p => p.2.msg)).flatten ++ cur ∧
      (∀ t, ∃ n, doneOf done t = (jobs t).take n) ∧
      (st.holder = none → cur = []) ∧
      (∀ h, st.holder = some h → ∃ j ∈ jobs h, ∃ more, j.msg = cur ++ more) := by
  intro st
  obtain ⟨k, done, hdone, hm⟩ := inv_exec jobs hok _ (inv_init jobs) sched
  cases hh : st.holder with
  | none =>
    rw [show (exec (initSt fun t => progOf (jobs t)) sched).holder = st.holder from rfl, hh] at hm
    refine ⟨done, [], ?_, fun t => ⟨k t, hdone t⟩, fun _ => rfl, fun h hc => by simp at hc⟩
    show st.out.flatten = _
    rw [show st.out = _ from hm.1, doneChunks_flatten]; simp
  | some h =>
    rw [show (exec (initSt fun t => progOf (jobs t)) sched).holder = st.holder from rfl, hh] at hm
    obtain ⟨j, pre, post, hget, hbody, hout, _, _⟩ := hm
    refine ⟨done, (writesOf pre).flatten, ?_, fun t => ⟨k t, hdone t⟩, fun hc => by simp at hc, ?_⟩
    · show st.out.flatten = _
      rw [show st.out = _ from hout, List.flatten_append, doneChunks_flatten]
    · intro h' hh'
      cases hh'
      refine ⟨j, List.mem_of_getElem? hget, (writesOf post).flatten, ?_⟩
      simp [Job.msg, hbody, writesOf_append]

/-- … and when every goroutine has run to completion the byte stream is exactly the
    concatenation of complete messages, every goroutine's messages all present and in order. -/
theorem c13_no_tear_complete (jobs : Nat → List Job) (hok : ∀ t, ∀ j ∈ jobs t, bodyOk j.body = true)
    (sched : List Nat) (hfin : ∀ t, (exec (initSt (fun t => progOf (jobs t))) sched).threads t = []) :
    ∃ done : List (Nat × Job),
      (exec (initSt (fun t => progOf (jobs t))) sched).out.flatten = (done.map (fun p => p.2.msg)).flatten ∧
      ∀ t, doneOf done t = jobs t := by
  obtain ⟨k, done, hdone, hm⟩ := inv_exec jobs hok _ (inv_init jobs) sched
  cases hh : (exec (initSt (fun t => progOf (jobs t))) sched).holder with
  | some h =>
    rw [hh] at hm
    obtain ⟨j, pre, post, _, _, _, hth, _⟩ := hm
    rw [hfin h] at hth
    simp at hth
  | none =>
    rw [hh] at hm
    refine ⟨done, by rw [hm.1, doneChunks_flatten], fun t => ?_⟩
    have h1 := hm.2 t
    rw [hfin t] at h1
    have hdrop : (jobs t).drop (k t) = [] := by
      cases hd : (jobs t).drop (k t) with
      | nil => rfl
      | cons j r => rw [hd, progOf_cons] at h1; simp at h1
    rw [hdone t]
    have := List.take_append_drop (k t) (jobs t)
    rw [hdrop, List.append_nil] at this
    exact this

/-- The converse witness (what the check searches for when `wellLocked` breaks): a frame writer
    WITHOUT the lock and a response writer; the schedule "prefix, whole response, body" splices the
    response into the frame. -/
theorem c13_tear_without_lock :
    let frame : List Op := [.write [0x24, 0, 0, 2], .write [0xAA, 0xBB]]            -- no lock / unlock
    let resp : List Op := jobOps ⟨[.write [82, 84, 83, 80]]⟩                          -- lock; write "RTSP"; unlock
    let st := exec (initSt (fun t => if t = 0 then frame else if t = 1 then resp else [])) [0, 1, 1, 1, 0]
    st.out.flatten = [0x24, 0, 0, 2, 82, 84, 83, 80, 0xAA, 0xBB] ∧
    parse st.out.flatten = none := by
  decide

/-- buffered.Conn never reorders: for EVERY sequence of writes and flushes and EVERY answer of the
    rate limiter at every write, the bytes already on the socket followed by the bytes still in the
    buffer are exactly the concatenation of the payloads written, in order; a flush leaves the
    buffer empty. -/
theorem c13_buffered_order (bufferSize : Nat) (ops : List COp) :
    let c := (BConn.mk bufferSize [] []).run ops
    c.sock ++ c.buf = (payloads ops).flatten ∧ (c.flush).buf = [] := by
  intro c
  refine ⟨?_, flush_empties c⟩
  have := run_inv (BConn.mk bufferSize [] []) ops
  simpa using this

/-- The METHOD SET of buffered.Conn, regenerated from /repo on every run: the struct embeds nothing
    (no promoted methods), the only methods that touch the write queue, the socket's `Write` or the rate
    limiter are `Write`, `Flush` and their helper `writeFull` — the ones the model describes — and the
    type has none of the methods an `io.Writer`-probing caller looks for (`WriteString`: `io.WriteString`
    and the `writeStringer` probe of av/format/rtsp `Response.Write` / `Header.Write` / `Request.Write`;
    `ReadFrom`: `io.Copy`; `WriteByte`, `WriteRune`, `WriteTo`).  A new write method breaks this
    obligation: it is a write path `c13_buffered_order_all_paths` does not cover. -/
theorem c13_source_conn_methods :
    IpcHub.Gen.bconnEmbedded = [] ∧
    IpcHub.Gen.bconnWritePaths = ["Flush", "Write", "writeFull"] ∧
    (probedMethods.all fun m => !IpcHub.Gen.bconnMethods.contains m) = true ∧
    (∀ v : Via, v = .write ∨ IpcHub.Gen.bconnMethods.contains v.method = false) := by
  refine ⟨by decide, by decide, by decide, ?_⟩
  intro v
  cases v
  · exact Or.inl rfl
  all_goals exact Or.inr (by decide)

/-- EVERY write path of buffered.Conn keeps the order: whatever method a caller picks for each
    hand-over — `Write` itself or, through an io.Writer probe, `WriteString`, `ReadFrom`, `WriteByte` —
    with the method set of the CURRENT source every sequence of hand-overs and flushes, under every
    answer of the rate limiter, is described by the model (the probe finds nothing and the bytes go
    through `Write`), and the bytes on the socket followed by the bytes still queued are exactly the
    concatenation of what was handed over, in order. -/
theorem c13_buffered_order_all_paths (bufferSize : Nat) (ops : List VOp) :
    ∃ c, (BConn.mk bufferSize [] []).runVia IpcHub.Gen.bconnMethods ops = some c ∧
      c.sock ++ c.buf = (vpayloads ops).flatten ∧ (c.flush).buf = [] := by
  refine ⟨(BConn.mk bufferSize [] []).run (vplain ops), runVia_plain _ c13_source_conn_methods.2.2.2 _ ops, ?_⟩
  have := c13_buffered_order bufferSize (vplain ops)
  simpa [vpayloads_vplain] using this

/-- What the obligation is for: a type that HAS the probed method is outside the model (the run is not
    described), and a `WriteString` that writes straight to the socket whenever the limiter has a token —
    without looking at the queue, unlike `Write` — lets the new bytes overtake the queued ones: with
    `[1]` queued, handing over `[2]` puts `[2]` on the socket in front of it. -/
theorem c13_unmodelled_write_path_witness :
    (BConn.mk 8 [] []).runVia ["Flush", "Write", "WriteString"] [.write .writeString [2] false] = none ∧
    (let queued : BConn := (BConn.mk 8 [] []).write [1] true                    -- limited: queued
     let direct : BConn := { queued with sock := queued.sock ++ [2] }           -- token: straight to the socket
     queued.buf = [1] ∧ direct.sock ++ direct.buf = [2, 1] ∧
     (queued.write [2] false).sock ++ (queued.write [2] false).buf = [1, 2]) := by
  decide

/-- `Packet.Write` puts on its writer nothing at all (channel not subscribed) or exactly the
    RFC 2326 §10.12 frame `$`, channel, 16-bit length, payload — for every channel value and every
    payload shorter than 2^16 bytes (the length field of the frame). -/
theorem c13_frame_bytes (ch : Int) (data : List UInt8) (h : data.length < 65536) :
    (packetWrites ch data).flatten = if ch < 0 ∨ ch > 255 then [] else encodeFrame (UInt8.ofNat ch.toNat) data :=
  packetWrites_flatten ch data h

/-- A complete frame is self-delimiting: in front of any further bytes it is read back as exactly
    that frame and the rest is left untouched (so a concatenation of complete frames parses into
    exactly those frames). -/
theorem c13_frame_self_delimiting (ch : UInt8) (p rest : List UInt8) (h : p.length < 65536) :
    nextUnit (encodeFrame ch p ++ rest) = some (Unit.frame ch p, rest) :=
  nextUnit_frame ch p rest h

/-- A complete RTSP response (protocol token, header block ended by an empty line, body of exactly
    Content-Length bytes) is self-delimiting as well. -/
theorem c13_response_self_delimiting (raw rest : List UInt8) (h : wfResponse raw = true) :
    nextUnit (raw ++ rest) = some (InterleaveSpec.Unit.response raw, rest) :=
  nextUnit_response raw rest h

/-- Hence every concatenation of complete frames and complete responses — any number, any order —
    is parsed by the stream specification into exactly those units. -/
theorem c13_stream_of_units (us : List InterleaveSpec.Unit) (hw : ∀ u ∈ us, u.wf = true) :
    parse (us.map InterleaveSpec.Unit.bytes).flatten = some us :=
  parseStream_concat us hw _ (Nat.lt_succ_self _)

/-- The property end to end: writers whose programs are well-locked and whose messages are complete
    responses or complete interleaved frames, in EVERY interleaving that runs them to completion, put
    on the connection a byte stream that the specification reads as a sequence of complete responses
    and complete frames — the units of the sections in the order they completed, every goroutine's own
    units all present and in its own order. -/
theorem c13_stream_parses (jobs : Nat → List Job) (unit : Job → InterleaveSpec.Unit)
    (hok : ∀ t, ∀ j ∈ jobs t, bodyOk j.body = true)
    (hunit : ∀ t, ∀ j ∈ jobs t, (unit j).wf = true ∧ j.msg = (unit j).bytes)
    (sched : List Nat) (hfin : ∀ t, (exec (initSt (fun t => progOf (jobs t))) sched).threads t = []) :
    ∃ done : List (Nat × Job),
      parse (exec (initSt (fun t => progOf (jobs t))) sched).out.flatten = some (done.map (fun p => unit p.2)) ∧
      ∀ t, doneOf done t = jobs t := by
  obtain ⟨done, hout, hdone⟩ := c13_no_tear_complete jobs hok sched hfin
  refine ⟨done, ?_, hdone⟩
  have hmem : ∀ p ∈ done, p.2 ∈ jobs p.1 := by
    intro p hp
    have : p.2 ∈ doneOf done p.1 := by
      simp only [doneOf, List.mem_map, List.mem_filter]
      exact ⟨p, ⟨hp, by simp⟩, rfl⟩
    rw [hdone p.1] at this
    exact this
  have hbytes : done.map (fun p => p.2.msg) = (done.map (fun p => unit p.2)).map InterleaveSpec.Unit.bytes := by
    rw [List.map_map]
    apply List.map_congr_left
    intro p hp
    exact (hunit p.1 p.2 (hmem p hp)).2
  rw [hout, hbytes]
  apply c13_stream_of_units
  intro u hu
  simp only [List.mem_map] at hu
  obtain ⟨p, hp, rfl⟩ := hu
  exact (hunit p.1 p.2 (hmem p hp)).1

/-- The verdict the check applies to the bytes a real session sent is a SOUND reading of the
    statement: whenever it says "ok", the stream IS a concatenation of complete units — complete
    interleaved frames (payload within the 16-bit length field) and complete RTSP responses — and
    the frames among them are packets that were handed to the media goroutine, in that order. -/
theorem c13_oracle_sound (s : List UInt8) (frames : List (UInt8 × List UInt8)) (h : judgeStream s frames = "ok") :
    ∃ us : List InterleaveSpec.Unit, s = (us.map InterleaveSpec.Unit.bytes).flatten ∧ (∀ u ∈ us, u.wf = true) ∧
      isSubseq (framesOf us) frames = true := by
  unfold judgeStream at h
  split at h
  · exact absurd h (by decide)
  · rename_i us hp
    split at h
    · rename_i hsub
      obtain ⟨h1, h2⟩ := parseStream_sound _ _ _ hp
      exact ⟨us, h1, h2, hsub⟩
    · exact absurd h (by decide)

/-- … and a COMPLETE one: every concatenation of complete units whose frames are delivered packets
    (in order) gets the verdict "ok" — the oracle raises no alarm on a stream that satisfies the
    statement. -/
theorem c13_oracle_complete (us : List InterleaveSpec.Unit) (frames : List (UInt8 × List UInt8))
    (hw : ∀ u ∈ us, u.wf = true) (hf : isSubseq (framesOf us) frames = true) :
    judgeStream (us.map InterleaveSpec.Unit.bytes).flatten frames = "ok" := by
  unfold judgeStream
  rw [c13_stream_of_units us hw]
  simp [hf]

/-- The verdict of the check on the model: for the goroutines of a playing session — the media
    goroutine (thread 0) and any number of others that send responses only — with well-locked
    programs and complete units, in EVERY interleaving that runs them to completion, the property
    verdict on the byte stream, given the packets handed to the media goroutine, is "ok".  (So an
    alarm of the stream oracle on a real session always means the code has left the model.) -/
theorem c13_model_verdict_ok (jobs : Nat → List Job) (unit : Job → InterleaveSpec.Unit)
    (hok : ∀ t, ∀ j ∈ jobs t, bodyOk j.body = true)
    (hunit : ∀ t, ∀ j ∈ jobs t, (unit j).wf = true ∧ j.msg = (unit j).bytes)
    (hresp : ∀ t, t ≠ 0 → ∀ j ∈ jobs t, ∃ r, unit j = .response r)
    (sched : List Nat) (hfin : ∀ t, (exec (initSt (fun t => progOf (jobs t))) sched).threads t = []) :
    judgeStream (exec (initSt (fun t => progOf (jobs t))) sched).out.flatten (framesOf ((jobs 0).map unit)) = "ok" := by
  obtain ⟨done, hparse, hdone⟩ := c13_stream_parses jobs unit hok hunit sched hfin
  have hmem : ∀ p ∈ done, p.2 ∈ jobs p.1 := by
    intro p hp
    have : p.2 ∈ doneOf done p.1 := by
      simp only [doneOf, List.mem_map, List.mem_filter]
      exact ⟨p, ⟨hp, by simp⟩, rfl⟩
    rw [hdone p.1] at this
    exact this
  unfold judgeStream
  rw [hparse]
  simp only
  rw [frames_of_done jobs unit done hmem hresp, hdone 0, isSubseq_refl]
  rfl

/-- non-vacuity of `c13_oracle_sound` / `c13_oracle_complete` (tests on literals): a frame and a response
    are accepted; a response spliced between a frame prefix and the body is a torn frame (the bytes
    still parse, into a frame that was never delivered); a body without its prefix is a torn stream. -/
example :
    let resp : List UInt8 := [82, 84, 83, 80, 47, 49, 46, 48, 32, 50, 48, 48, 32, 79, 75, 13, 10, 13, 10]
    judgeStream (encodeFrame 0 [1, 2, 3] ++ resp) [(0, [1, 2, 3])] = "ok" ∧
    judgeStream ([0x24, 0, 0, 22] ++ resp ++ [1, 2, 3]) [(0, [1, 2, 3])] = "torn-frame" ∧
    judgeStream (resp ++ [1, 2, 3]) [(0, [1, 2, 3])] = "torn-stream" := by
  decide

/-- On the WebSocket transports the consumer of the current source tree sends, for every packet,
    at most one message, and every message it sends is exactly one complete interleaved frame. -/
theorem c13_ws_one_message (ch : Int) (data : List UInt8) (h : data.length < 65536) :
    (wsConsume genSkipEmpty ch data).length ≤ 1 ∧
    ∀ m ∈ wsConsume genSkipEmpty ch data, messageOk m = true := by
  have hs : genSkipEmpty = true := c13_source_programs.2.2.2.2.2.2.2.2.2.1
  rw [hs]
  unfold wsConsume
  simp only [Bool.true_and]
  rw [packetWrites_flatten ch data h]
  by_cases hch : ch < 0 ∨ ch > 255
  · simp [hch]
  · have hne : (encodeFrame (UInt8.ofNat ch.toNat) data).isEmpty = false := by simp [encodeFrame]
    simp only [hch, ↓reduceIte, hne, Bool.false_eq_true, List.length_cons, List.length_nil, Nat.le_refl, List.mem_cons,
      List.not_mem_nil, or_false, forall_eq, true_and]
    exact messageOk_frame _ _ h

/-- The defect that was fixed: a consumer that sends the buffer unconditionally emits, for a
    packet of an unsubscribed channel, an EMPTY WebSocket message, which is neither a response
    nor a frame. -/
theorem c13_ws_empty_message_witness (data : List UInt8) :
    wsConsume false (-1) data = [[]] ∧ messageOk [] = false := by
  constructor
  · simp [wsConsume, packetWrites]
  · decide

/-- non-vacuity of `c13_no_tear`: two goroutines with well-locked jobs -/
example : ∀ t, ∀ j ∈ (fun t : Nat => if t = 0 then [Job.mk [.write [1], .write [2]]] else [Job.mk [.write [3], .flush]]) t,
    bodyOk j.body = true := by
  intro t j hj
  by_cases h : t = 0 <;> simp [h] at hj <;> subst hj <;> rfl

/-- non-vacuity of `c13_response_self_delimiting` / `c13_stream_parses`: the bytes of
    "RTSP/1.0 200 OK\\r\\nCSeq: 3\\r\\nContent-Length: 4\\r\\n\\r\\nabcd" are a well-formed response -/
example : wfResponse [82, 84, 83, 80, 47, 49, 46, 48, 32, 50, 48, 48, 32, 79, 75, 13, 10, 67, 83, 101, 113, 58, 32, 51, 13, 10, 67, 111, 110, 116, 101, 110, 116, 45, 76, 101, 110, 103, 116, 104, 58, 32, 52, 13, 10, 13, 10, 97, 98, 99, 100] = true := by
  decide

/-- non-vacuity of `c13_no_tear_complete` / `c13_stream_parses`: a media goroutine with one frame and a
    request goroutine with one response; the schedule has the request goroutine try the lock while the
    frame is half written (it stays blocked) and runs both to completion -/
example :
    let jobs : Nat → List Job := fun t =>
      if t = 0 then [Job.mk [.write [0x24, 0, 0, 1], .write [7]]] else if t = 1 then [Job.mk [.write [82], .flush]] else []
    ∀ t, (exec (initSt (fun t => progOf (jobs t))) [0, 0, 1, 0, 0, 1, 1, 1, 1]).threads t = [] := by
  intro jobs t
  match t with
  | 0 => rfl
  | 1 => rfl
  | n + 2 => rfl

end IpcHub.Props.C13
