/-
C02 — Late joiners start with parameter sets and the current GOP, contiguous with live.
(RTP caches: media/cache/h264cache.go, hevccache.go; the join in media/stream.go.)
-/
import IpcHub.Lemmas.Media5
import IpcHub.Lemmas.MediaCache2
import IpcHub.Model.MediaInst
import IpcHub.Props.C01
import IpcHub.Model.FlvCacheM
import IpcHub.Lemmas.FlvCacheM
import IpcHub.Lemmas.MediaPacketise
import IpcHub.Lemmas.FlvTimeline
namespace IpcHub.Props.C02
open IpcHub.Media
open IpcHub.Props.C01 (subseq countOf)

/-- Source facts: the NAL-type constants the classifier uses, the slot/GOP update order of
    CachePack, the replay order of PushTo (VPS, SPS, PPS, then the GOP), the FLV replay
    re-stamping its three header tags before the GOP, and the join running snapshot-then-register
    under the table mutex (so the cut between replay and live is one point of the history). -/
theorem c02_source_facts :
    IpcHub.Gen.mediaFactsUnknown = [] ∧
    IpcHub.Gen.h264NalSps = 7 ∧ IpcHub.Gen.h264NalPps = 8 ∧ IpcHub.Gen.h264NalIdrSlice = 5 ∧
    IpcHub.Gen.h264NalStapaInRtp = 24 ∧ IpcHub.Gen.h264NalMtap24InRtp = 27 ∧
    IpcHub.Gen.h264NalFuAInRtp = 28 ∧ IpcHub.Gen.h264NalFuBInRtp = 29 ∧
    IpcHub.Gen.hevcNalVps = 32 ∧ IpcHub.Gen.hevcNalSps = 33 ∧ IpcHub.Gen.hevcNalPps = 34 ∧
    IpcHub.Gen.hevcNalBlaWLp = 16 ∧ IpcHub.Gen.hevcNalCraNut = 21 ∧
    IpcHub.Gen.hevcNalStapInRtp = 48 ∧ IpcHub.Gen.hevcNalFuInRtp = 49 ∧
    subseq ["cache.getPalyloadType", "cache.l.Lock", "set cache.sps", "return", "set cache.pps", "return",
            "cache.gop.Reset", "cache.gop.Push", "cache.gop.Len", "cache.gop.Push"] IpcHub.Gen.progH264CachePack = true ∧
    subseq ["cache.getPalyloadType", "cache.l.Lock", "set cache.vps", "return", "set cache.sps", "return", "set cache.pps", "return",
            "cache.gop.Reset", "cache.gop.Push", "cache.gop.Len", "cache.gop.Push"] IpcHub.Gen.progHevcCachePack = true ∧
    -- the payload classifiers (getPalyloadType, nalType of both caches) are the reviewed ones that
    -- Model/MediaCache.lean mirrors statement by statement (hash of the printed body: any edit shows)
    IpcHub.Gen.hashH264PayloadType = 15336468611961896817 ∧ IpcHub.Gen.hashH264NalType = 10879418973220888540 ∧
    IpcHub.Gen.hashHevcPayloadType = 10988566405585208546 ∧ IpcHub.Gen.hashHevcNalType = 17511132945312526616 ∧
    IpcHub.Gen.hashH264KeyFragment = 908050043377899341 ∧ IpcHub.Gen.hashHevcKeyFragment = 2275853270803203746 ∧
    -- a key frame of several slice packets: the key run (same RTP timestamp as the previous key slice) is
    -- tested before the GOP is touched, kept per cache, and cleared by Reset
    IpcHub.Gen.condsH264CachePack = ["rtppack.Channel != rtp.ChannelVideo", "sps", "pps",
      "islice && cache.keyRun && cache.keyTs == rtppack.Timestamp",
      "!(cache.keyRun && cache.keyTs == rtppack.Timestamp && cache.keyFragment(payload))", "cache.cacheGop", "islice", "cache.gop.Len() > 0"] ∧
    IpcHub.Gen.condsHevcCachePack = ["rtppack.Channel != rtp.ChannelVideo", "vps", "sps", "pps",
      "islice && cache.keyRun && cache.keyTs == rtppack.Timestamp",
      "!(cache.keyRun && cache.keyTs == rtppack.Timestamp && cache.keyFragment(payload))", "cache.cacheGop", "islice", "cache.gop.Len() > 0"] ∧
    subseq ["set cache.pps", "return", "set cache.keyRun", "set cache.keyTs", "cache.gop.Reset"] IpcHub.Gen.progH264CachePack = true ∧
    subseq ["set cache.pps", "return", "set cache.keyRun", "set cache.keyTs", "cache.gop.Reset"] IpcHub.Gen.progHevcCachePack = true ∧
    countOf "set cache.keyRun" IpcHub.Gen.progH264CachePack = 1 ∧ countOf "set cache.keyRun" IpcHub.Gen.progHevcCachePack = 1 ∧
    subseq ["cache.gop.Reset", "set cache.keyRun"] IpcHub.Gen.progH264CacheReset = true ∧
    subseq ["cache.gop.Reset", "set cache.keyRun"] IpcHub.Gen.progHevcCacheReset = true ∧
    subseq ["cache.sps.Size", "cache.pps.Size", "cache.gop.Elems", "q.Queue().PushN"] IpcHub.Gen.progH264PushTo = true ∧
    subseq ["cache.vps.Size", "cache.sps.Size", "cache.pps.Size", "cache.gop.Elems", "q.Queue().PushN"] IpcHub.Gen.progHevcPushTo = true ∧
    subseq ["cache.gop.Elems", "set metaData.Timestamp", "set videoSequenceHeader.Timestamp",
            "set audioSequenceHeader.Timestamp", "q.Queue().PushN"] IpcHub.Gen.progFlvPushTo = true ∧
    subseq ["tag.IsMetadata", "set cache.metaData", "tag.IsH2645SequenceHeader", "set cache.videoSequenceHeader",
            "tag.IsAACSequenceHeader", "set cache.audioSequenceHeader", "set cache.lastTimestamp", "tag.IsH2645KeyFrame",
            "cache.gop.Reset", "cache.gop.Push", "cache.gop.Len", "cache.gop.Push"] IpcHub.Gen.progFlvCachePack = true ∧
    subseq ["cs.l.Lock", "c.sendGop", "cs.Add", "cs.l.Unlock"] IpcHub.Gen.progStartConsume = true ∧
    subseq ["cache.PushTo"] IpcHub.Gen.progConsSendGop = true := by
  decide

/-- What the cache holds after ANY accepted packet sequence: each parameter-set slot holds the
    most recent packet of that kind (VPS only for H.265), and with GOP caching the GOP is exactly
    the video slice packets from the START of the most recent key frame onward (parameter-set
    packets, audio and RTCP are not part of it); without GOP caching it is empty.
    `ann` annotates the history with the kind the cache acts on: a key-frame slice packet that
    follows a key-frame slice packet with the same RTP timestamp continues that key frame
    (`c02_key_frame_start`), so a key frame sent as several slice packets is kept whole. -/
theorem c02_cache_state (hevc gop : Bool) (ps : List Pkt) :
    let c := packAll genConsts { hevc := hevc, cacheGop := gop } ps
    c.vps = (ps.filter (fun p => pktKind genConsts hevc p = .vps)).getLast? ∧
    c.sps = (ps.filter (fun p => pktKind genConsts hevc p = .sps)).getLast? ∧
    c.pps = (ps.filter (fun p => pktKind genConsts hevc p = .pps)).getLast? ∧
    c.gop = (if gop then
        ((suffixFromLast (fun x => decide (x.2 = PK.key))
          ((ann genConsts hevc none ps).filter (fun x => decide (x.2 = PK.key ∨ x.2 = PK.other)))).map (·.1))
      else []) := by
  intro c
  have h := cacheSpec_packAll genConsts hevc gop ps
  exact ⟨h.vps, h.sps, h.pps, h.gopS⟩

/-- Which packets start a key frame.  The history leaves a key run (`runAfter`): it is opened by a
    key-frame slice packet (with that packet's RTP timestamp), kept by further key-frame slice
    packets and by later FU fragments of key-frame slices carrying the same timestamp, closed by
    any other slice packet, and left alone by packets that are not slices (`nextRun`, unfolded in
    the second part).  The packet published after the history `ps` is acted on as a key-frame START
    iff it is a key-frame slice packet and the run is not open with its timestamp; a key-frame
    slice packet that continues the run is acted on as an ordinary packet of the GOP; every other
    packet is acted on as what it is.  And an open run always carries the timestamp of a key-frame
    slice packet of the history. -/
theorem c02_key_frame_start (hevc : Bool) (ps : List Pkt) (p : Pkt) :
    (effKind genConsts hevc (runAfter genConsts hevc none ps) p =
      (if pktKind genConsts hevc p = .key then
         (if runAfter genConsts hevc none ps = some p.ts then .other else .key)
       else pktKind genConsts hevc p)) ∧
    (runAfter genConsts hevc none (ps ++ [p]) =
      (match pktKind genConsts hevc p with
       | .key => some p.ts
       | .other => if runAfter genConsts hevc none ps == some p.ts && isKeyFragment genConsts hevc p
                   then runAfter genConsts hevc none ps else none
       | _ => runAfter genConsts hevc none ps)) ∧
    (∀ t, runAfter genConsts hevc none ps = some t →
      ∃ q ∈ ps, pktKind genConsts hevc q = .key ∧ q.ts = t) := by
  refine ⟨?_, ?_, fun t h => runAfter_from_key _ _ _ _ h⟩
  · unfold effKind
    cases hk : pktKind genConsts hevc p <;> simp
  · rw [runAfter_snoc]; rfl

/-- A key frame of several slice packets is kept whole (H.264, single-NAL IDR slices with one
    timestamp): the GOP replayed to a joiner starts with the FIRST slice. -/
theorem c02_multi_slice_key_frame :
    let sps : Pkt := { uid := 1, ch := 0, payload := [0x67, 1, 2, 3], ts := 9000 }
    let pps : Pkt := { uid := 2, ch := 0, payload := [0x68, 1, 2, 3], ts := 9000 }
    let s1 : Pkt := { uid := 3, ch := 0, payload := [0x65, 0x88, 2, 3], ts := 9000 }
    let s2 : Pkt := { uid := 4, ch := 0, payload := [0x65, 0x08, 2, 3], ts := 9000 }
    let q : Pkt := { uid := 5, ch := 0, payload := [0x61, 0x9a, 2, 3], ts := 12000 }
    (packAll genConsts { hevc := false, cacheGop := true } [sps, pps, s1, s2, q]).pushTo = [sps, pps, s1, s2, q] := by
  decide

/-- The usual case of a large key frame: each slice is FRAGMENTED (FU-A), all packets carry one
    timestamp.  The later fragments of slice 1 keep the key run open, so the start fragment of
    slice 2 continues the key frame and the joiner's GOP starts with the first fragment of slice 1. -/
theorem c02_multi_slice_key_frame_fragmented :
    let sps : Pkt := { uid := 1, ch := 0, payload := [0x67, 1, 2, 3], ts := 9000 }
    let pps : Pkt := { uid := 2, ch := 0, payload := [0x68, 1, 2, 3], ts := 9000 }
    let a1 : Pkt := { uid := 3, ch := 0, payload := [0x7c, 0x85, 0x88, 1], ts := 9000 }   -- slice 1, FU start
    let a2 : Pkt := { uid := 4, ch := 0, payload := [0x7c, 0x05, 2, 3], ts := 9000 }      -- slice 1, middle
    let a3 : Pkt := { uid := 5, ch := 0, payload := [0x7c, 0x45, 4, 5], ts := 9000 }      -- slice 1, end
    let b1 : Pkt := { uid := 6, ch := 0, payload := [0x7c, 0x85, 0x08, 1], ts := 9000 }   -- slice 2, FU start
    let b2 : Pkt := { uid := 7, ch := 0, payload := [0x7c, 0x45, 6, 7], ts := 9000 }      -- slice 2, end
    let q : Pkt := { uid := 8, ch := 0, payload := [0x61, 0x9a, 2, 3], ts := 12000 }
    (packAll genConsts { hevc := false, cacheGop := true } [sps, pps, a1, a2, a3, b1, b2, q]).pushTo
      = [sps, pps, a1, a2, a3, b1, b2, q] ∧
    -- a non-key packet with another timestamp ends the run: the next key slice starts a new key frame
    (packAll genConsts { hevc := false, cacheGop := true }
      [sps, pps, a1, a2, a3, q, { b1 with ts := 15000 }]).pushTo = [sps, pps, { b1 with ts := 15000 }] := by
  decide

/-- The behaviour before the repair (every key-frame slice packet restarted the GOP: the model
    with the key run ignored): the joiner's GOP starts in the middle of the key frame. -/
theorem c02_multi_slice_key_frame_old_counterexample :
    let sps : Pkt := { uid := 1, ch := 0, payload := [0x67, 1, 2, 3], ts := 9000 }
    let pps : Pkt := { uid := 2, ch := 0, payload := [0x68, 1, 2, 3], ts := 9000 }
    let s1 : Pkt := { uid := 3, ch := 0, payload := [0x65, 0x88, 2, 3], ts := 9000 }
    let s2 : Pkt := { uid := 4, ch := 0, payload := [0x65, 0x08, 2, 3], ts := 9000 }
    let q : Pkt := { uid := 5, ch := 0, payload := [0x61, 0x9a, 2, 3], ts := 12000 }
    let packOld := fun (c : Cache) (p : Pkt) =>
      match ({ c with keyRun := none } : Cache).pack genConsts p with | some (c', _) => c' | none => c
    ([sps, pps, s1, s2, q].foldl packOld { hevc := false, cacheGop := true }).pushTo = [sps, pps, s2, q] := by
  decide

/-- The join is one cut of the history, for every interleaving: a consumer's replay is the cache
    replay of exactly the packets accepted before its attach point `joinedAt` (parameter sets, then
    the current GOP), or nothing when it joined without the cache. -/
theorem c02_join_prefix (hevc gop : Bool) (ls : List Label) :
    let s := (genInit hevc gop).run ls
    ∀ c ∈ s.cons, c.joinedAt ≤ s.published.length ∧
      c.replay = (if c.usedGop then
          (packAll genConsts { hevc := hevc, cacheGop := gop } (s.published.take c.joinedAt)).pushTo
        else []) := by
  intro s c hc
  have hg : GInv _ s := ginv_run _ _ ls (ginv_init genConsts IpcHub.Gen.maxQLen hevc gop)
  refine ⟨(hg.cinv c hc).joined_le, ?_⟩
  have := hg.replay c hc
  have hk : s.consts = genConsts := by
    have h1 : ∀ (t : St) (l : Label), (t.step l).consts = t.consts := by
      intro t l
      cases l <;> simp only [St.step]
      · split
        · rfl
        · split <;> rfl
      · split
        · rfl
        · split <;> rfl
      · split <;> rfl
    have hrun : ∀ (ls : List Label) (t : St), (t.run ls).consts = t.consts := by
      intro ls
      induction ls with
      | nil => intro t; rfl
      | cons l ls ih => intro t; simp only [St.run, List.foldl_cons]; rw [← h1 t l]; exact ih _
    exact hrun ls _
  rw [hk] at this
  exact this

/-- No gap and no repeat between the cached part and the live part: while nothing was dropped for
    backlog, what an attached consumer has received plus what is queued for it is its replay
    followed by EVERY packet accepted from its attach point on — and (c01_at_most_once) no packet
    occurs twice in it. -/
theorem c02_contiguous (hevc gop : Bool) (ls : List Label) :
    let s := (genInit hevc gop).run ls
    ∀ c ∈ s.cons, c.registered = true → c.everDiscarded = false →
      c.delivered ++ c.pending = c.replay ++ s.published.drop c.joinedAt := by
  intro s c hc hr hd
  have hg : GInv _ s := ginv_run _ _ ls (ginv_init genConsts IpcHub.Gen.maxQLen hevc gop)
  have h := hg.cinv c hc
  rw [← h.sent_all hr hd]
  exact h.shape (h.reg hr).2.1

/-- The aggregation blind spot of the classifier, as a proved fact about the model (recorded as an
    open known finding): an H.264 STAP-A packet that carries SPS, PPS and an IDR slice together is
    treated as "the SPS packet" — it is not reported as a key frame and does not start the GOP. -/
theorem c02_stap_sps_idr_not_key :
    let stap : Pkt := { uid := 1, ch := 0, payload := [0x78, 0, 2, 0x67, 1, 0, 2, 0x68, 1, 0, 2, 0x65, 1] }
    pktKind genConsts false stap = .sps ∧
    ((packAll genConsts { hevc := false, cacheGop := true } [stap]).gop = []) := by
  decide

/-- What the cache makes of the packets an RFC 6184 sender produces (the independent packetiser
    Spec/Packetise.lean), for EVERY legal packetisation decision — any NAL bytes and sizes, any
    fragment sizes, any aggregation grouping:
    * a NAL unit sent as a single NAL unit packet is classified by its own type (SPS → SPS slot,
      PPS → PPS slot, IDR → key frame / start of the GOP, anything else → GOP member);
    * of a NAL unit sent as FU-A fragments the FIRST fragment is classified by the unit's type and
      every later fragment is a GOP member (so the whole fragmented IDR lands in the GOP);
    * a STAP-A packet is classified by the union of its units' types, parameter sets first — which
      is exactly why an aggregation carrying SPS/PPS together with an IDR is "the SPS packet"
      (open known finding; `c02_stap_sps_idr_not_key`).
    Together with `c02_cache_state` this gives the replay in terms of the sender's frames.
    Hypothesis: a single NAL unit packet has at least 3 bytes (the classifier ignores shorter
    payloads; no parameter set or slice is that short). -/
theorem c02_decodable_h264 (it : IpcHub.Packetise.Item) (hleg : IpcHub.Packetise.legal264 it = true)
    (hlen : ∀ ts m n, it = .single ts m n → 3 ≤ n.length) :
    (IpcHub.Packetise.payloads264 it).map payloadKind =
      match it with
      | .single _ _ n => [kindOfType (nalType n)]
      | .frag _ _ n cuts => kindOfType (nalType n) :: List.replicate cuts.length .other
      | .agg _ _ ns => [kindOfFlags (aggFlags ns)] := by
  cases it with
  | single ts m n =>
    have hok : IpcHub.Packetise.nalOk264 n = true := by simpa [IpcHub.Packetise.legal264] using hleg
    simp only [IpcHub.Packetise.payloads264, List.map_cons, List.map_nil]
    rw [payloadKind_of_classify _ _ (classify_single n hok (hlen ts m n rfl)), kindOfFlags_type]
  | agg ts m ns =>
    simp only [IpcHub.Packetise.legal264, Bool.and_eq_true, Bool.not_eq_true', List.all_eq_true,
      decide_eq_true_eq] at hleg
    obtain ⟨hne, hall⟩ := hleg
    have hne' : ns ≠ [] := by intro e; simp [e] at hne
    have hok : ∀ n ∈ ns, aggOk n := by
      intro n hn
      obtain ⟨h1, h2⟩ := hall n hn
      refine ⟨?_, h2⟩
      cases n with
      | nil => simp [IpcHub.Packetise.nalOk264] at h1
      | cons b tl => simp
    simp only [IpcHub.Packetise.payloads264, List.map_cons, List.map_nil]
    rw [payloadKind_of_classify _ _ (classify_stapa ns hne' hok)]
  | frag ts m n cuts =>
    simp only [IpcHub.Packetise.legal264, Bool.and_eq_true] at hleg
    obtain ⟨hok, hcuts⟩ := hleg
    cases n with
    | nil => simp [IpcHub.Packetise.nalOk264] at hok
    | cons h data =>
      simp only [IpcHub.Packetise.cutsOk, Bool.and_eq_true, Bool.not_eq_true', List.all_eq_true,
        decide_eq_true_eq, List.length_cons, Nat.add_sub_cancel] at hcuts
      obtain ⟨⟨_, hge⟩, hsum⟩ := hcuts
      have hch := chunks_nonempty cuts data hge hsum
      have hl := chunks_length cuts data
      simp only [IpcHub.Packetise.payloads264]
      rw [fua_kinds h _ hch true]
      have hne : (IpcHub.Packetise.chunks cuts data).isEmpty = false := by
        cases hc : IpcHub.Packetise.chunks cuts data with
        | nil => rw [hc] at hl; simp at hl
        | cons d tl => rfl
      simp [hne, hl, nalType]

/-- FLV variant: whatever tags were written, a joining FLV consumer is first given the cached
    metadata, video and audio sequence headers (in that order, those that exist), every one of them
    presented with the timestamp of the first replayed media tag — when the GOP part is empty, with
    the stream's current time: the timestamp of the latest media tag written (0 before the first) —
    and otherwise unchanged, followed by the cached GOP; the cached tags themselves are not modified
    (`pushTo` is a function of the cache; the model hands out re-stamped copies — the source fact
    that PushTo assigns to local copies is part of c01_source_facts / c02_source_facts). -/
theorem c02_flv_replay (gop : Bool) (tags : List IpcHub.FlvCacheM.FTag) :
    let c := IpcHub.FlvCacheM.cacheAfter gop tags
    c.pushTo = c.headers ++ c.gop ∧
    (∀ t ∈ c.headers, t.ts = c.initTs) ∧
    c.headers.map (fun t => (t.uid, t.tagType, t.data))
      = (c.mdata.toList ++ c.vseq.toList ++ c.aseq.toList).map (fun t => (t.uid, t.tagType, t.data)) ∧
    (c.gop = [] → c.initTs =
      (match (tags.filter IpcHub.FlvCacheM.isMedia).getLast? with | some t => t.ts | none => 0)) ∧
    (∀ t rest, c.gop = t :: rest → c.initTs = t.ts) := by
  intro c
  refine ⟨rfl, ?_, ?_, ?_, ?_⟩
  · intro t ht
    simp only [IpcHub.FlvCacheM.FCache.headers, List.mem_map] at ht
    obtain ⟨t', _, rfl⟩ := ht
    rfl
  · simp [IpcHub.FlvCacheM.FCache.headers, IpcHub.FlvCacheM.restamp, List.map_map, Function.comp_def]
  · intro h
    have hl := IpcHub.FlvCacheM.last_cacheG gop true tags
    show (IpcHub.FlvCacheM.cacheG gop true tags).initTs = _
    have h' : (IpcHub.FlvCacheM.cacheG gop true tags).gop = [] := h
    simp only [IpcHub.FlvCacheM.FCache.initTs, h', hl.1, if_true]
    exact hl.2
  · intro t rest h; simp [IpcHub.FlvCacheM.FCache.initTs, h]

/-- The pinned behaviour (kept as a theorem about the model with the old switch): without a cached
    GOP the replayed headers were stamped 0 however old the stream — so that the joiner's FLV
    writer, which takes its first tag as the time base and treats timestamps as signed 32-bit
    numbers, saw every tag of a stream older than 2^31 ms as older than its first tag. -/
theorem c02_flv_replay_pinned_stamps_zero (gop : Bool) (tags : List IpcHub.FlvCacheM.FTag)
    (h : (IpcHub.FlvCacheM.cacheG gop false tags).gop = []) :
    (IpcHub.FlvCacheM.cacheG gop false tags).initTs = 0 := by
  have hl := IpcHub.FlvCacheM.last_cacheG gop false tags
  simp [IpcHub.FlvCacheM.FCache.initTs, h, hl.1]

/-- FLV variant of c02_cache_state: after ANY written tag sequence the FLV cache holds the most
    recent metadata tag, video sequence header and AAC sequence header (byte-level predicates of
    flv/tag.go, in CachePack's priority order), and with GOP caching exactly the media tags from the
    most recent H.264/H.265 key-frame tag onward; without it, no media tag. -/
theorem c02_flv_cache_state (gop : Bool) (tags : List IpcHub.FlvCacheM.FTag) :
    let c := IpcHub.FlvCacheM.cacheAfter gop tags
    c.mdata = (tags.filter (fun t => IpcHub.FlvCacheM.tagKind t = .mdata)).getLast? ∧
    c.vseq = (tags.filter (fun t => IpcHub.FlvCacheM.tagKind t = .vseq)).getLast? ∧
    c.aseq = (tags.filter (fun t => IpcHub.FlvCacheM.tagKind t = .aseq)).getLast? ∧
    c.gop = (if gop then
        suffixFromLast (fun t => IpcHub.FlvCacheM.tagKind t = .key)
          (tags.filter (fun t => IpcHub.FlvCacheM.tagKind t = .key ∨ IpcHub.FlvCacheM.tagKind t = .other))
      else []) := by
  intro c
  have h := IpcHub.FlvCacheM.fspec_cacheAfter gop tags
  exact ⟨h.md, h.vs, h.as, h.gopS⟩

/-- The FLV joiner's timeline starts at zero — composition of the cache replay with the FLV
    writer's rebase (the writer model of C08; `cfg.sentinelInit = false` is what the regenerated
    facts of the current tree give, `c08_gen_cfg`, and `c08_joiner_timeline_zero` is this
    theorem at that configuration).  Whatever was written before the join — with or without a
    cached GOP: when anything is replayed, the first tag the joiner's writer is handed carries
    `initTs` (the timestamp of the first replayed media tag; without a cached GOP the stream's
    current time, `c02_flv_replay`), the writer takes it as its time base, and every replayed
    header tag as well as the first replayed media tag go on the wire with timestamp 0.  When
    nothing is replayed (nothing cached yet) the first live tag is the writer's first tag and is
    written with 0 as well (`IpcHub.FlvCacheM.first_tag_zero`).  (Later tags go out with
    `ts − initTs`, 0 when older: `c08_rebase_never_wraps`.) -/
theorem c02_flv_timeline_starts_at_zero (cfg : IpcHub.Flv.Cfg) (hs : cfg.sentinelInit = false)
    (gop : Bool) (tags : List IpcHub.FlvCacheM.FTag) :
    let c := IpcHub.FlvCacheM.cacheAfter gop tags
    let w1 : IpcHub.Flv.Writer := { delta := UInt32.ofNat c.initTs, started := true }
    (c.pushTo ≠ [] → ∃ first more, c.pushTo.map IpcHub.FlvCacheM.toTag = first :: more ∧
        IpcHub.Flv.Writer.next cfg {} first = w1) ∧
    (∀ t ∈ c.headers ++ c.gop.head?.toList, IpcHub.FlvCacheM.wireTs cfg w1 (IpcHub.FlvCacheM.toTag t) = 0) ∧
    (∀ live : IpcHub.Flv.Tag, IpcHub.FlvCacheM.wireTs cfg (IpcHub.Flv.Writer.next cfg {} live) live = 0) :=
  IpcHub.FlvCacheM.joiner_timeline cfg hs gop tags

/-- non-vacuity / sanity of the cache specification on a concrete H.264 sequence -/
example :
    let sps : Pkt := { uid := 1, ch := 0, payload := [0x67, 1, 2] }
    let pps : Pkt := { uid := 2, ch := 0, payload := [0x68, 1, 2] }
    let idr : Pkt := { uid := 3, ch := 0, payload := [0x7c, 0x85, 2] }   -- FU-A start of an IDR
    let mid : Pkt := { uid := 4, ch := 0, payload := [0x7c, 0x05, 2] }   -- FU-A middle
    let aud : Pkt := { uid := 5, ch := 2, payload := [0, 16, 0, 8, 1] }
    let non : Pkt := { uid := 6, ch := 0, payload := [0x61, 1, 2] }
    ((packAll genConsts { hevc := false, cacheGop := true } [non, sps, pps, idr, mid, aud, non]).pushTo.map (·.uid))
      = [1, 2, 3, 4, 6] := by
  decide

end IpcHub.Props.C02
