/-
C03 — Every consumer is released when its stream ends or it is stopped.
Two layers: the stream LTS (table, counters, release of consumptions; Model/Media.lean) and the
wake-up protocol of the four worker goroutines below `Pop` (Model/Worker.lean).
-/
import IpcHub.Lemmas.Media5
import IpcHub.Lemmas.Worker
import IpcHub.Model.MediaInst
import IpcHub.Props.C01
namespace IpcHub.Props.C03
open IpcHub.Media
open IpcHub.Props.C01 (subseq countOf)

/-- Source facts (regenerated on every run): every Close wakes its worker THROUGH THE QUEUE LOCK
    (`recvQueue.Push`, never a bare `Signal`) after setting the flag; every worker loop blocks in
    `recvQueue.Pop`; removals and the close sweep run under the table mutex; the status is
    published before the sweeps; startConsume checks the status under the same mutex; the
    consumer goroutine's deferred clean-up calls StopConsume then Consumer.Close. -/
theorem c03_source_facts :
    IpcHub.Gen.mediaFactsUnknown = [] ∧
    subseq ["set c.closed", "c.recvQueue.Push"] IpcHub.Gen.progConsClose = true ∧
    countOf "c.recvQueue.Signal" IpcHub.Gen.progConsClose = 0 ∧
    subseq ["set demuxer.closed", "demuxer.recvQueue.Push"] IpcHub.Gen.progDemuxerClose = true ∧
    countOf "demuxer.recvQueue.Signal" IpcHub.Gen.progDemuxerClose = 0 ∧
    subseq ["set muxer.closed", "muxer.recvQueue.Push"] IpcHub.Gen.progFlvMuxerClose = true ∧
    countOf "muxer.recvQueue.Signal" IpcHub.Gen.progFlvMuxerClose = 0 ∧
    subseq ["set muxer.closed", "muxer.recvQueue.Push"] IpcHub.Gen.progTsMuxerClose = true ∧
    countOf "muxer.recvQueue.Signal" IpcHub.Gen.progTsMuxerClose = 0 ∧
    countOf "c.recvQueue.Pop" IpcHub.Gen.progConsConsume = 1 ∧
    countOf "demuxer.recvQueue.Pop" IpcHub.Gen.progDemuxerProcess = 1 ∧
    countOf "muxer.recvQueue.Pop" IpcHub.Gen.progFlvMuxerProcess = 1 ∧
    countOf "muxer.recvQueue.Pop" IpcHub.Gen.progTsMuxerProcess = 1 ∧
    subseq ["m.l.Lock", "defer m.l.Unlock", "m.Load", "m.Delete", "atomic.AddInt32"] IpcHub.Gen.progRemove = true ∧
    subseq ["m.l.Lock", "defer m.l.Unlock", "m.Range", "m.Delete", "c.Close", "atomic.StoreInt32"] IpcHub.Gen.progRemoveAndCloseAll = true ∧
    subseq ["atomic.StoreInt32", "s.flvConsumptions.RemoveAndCloseAll", "s.flvMuxer.Close", "s.rtpDemuxer.Close", "s.consumptions.RemoveAndCloseAll"] IpcHub.Gen.progStreamClose = true ∧
    subseq ["cs.l.Lock", "atomic.LoadInt32", "c.Close", "cs.Add", "cs.l.Unlock", "go c.consume"] IpcHub.Gen.progStartConsume = true ∧
    subseq ["cs.Remove", "c.Close"] IpcHub.Gen.progStopConsume = true ∧
    subseq ["defer func", "c.stream.StopConsume", "c.consumer.Close", "c.recvQueue.Pop"] IpcHub.Gen.progConsConsume = true ∧
    -- removals take the table mutex FIRST: no fast path reads the counter or the map outside it
    IpcHub.Gen.progRemove.take 2 = ["m.l.Lock", "defer m.l.Unlock"] ∧
    IpcHub.Gen.progRemoveAndCloseAll.take 2 = ["m.l.Lock", "defer m.l.Unlock"] := by
  decide

/-- position of the first occurrence -/
def idxOf (x : String) (l : List String) : Nat := (l.findIdx? (· = x)).getD l.length

/-- `rel` is called in the function's first deferred closure, which is registered before the
    single `add`, with no `return` between the registration and the `add` (so no exit path can
    release without having added, and every exit path after the `add` — return or panic —
    releases exactly once) -/
def balancedCounter (rel add : String) (prog : List String) : Bool :=
  countOf add prog = 1 && countOf rel prog = 1 &&
  subseq ["defer func", rel, add] prog &&
  countOf "return" ((prog.take (idxOf add prog)).drop (idxOf "defer func" prog)) = 0

/-- Per-protocol active-connection counters: every service entry point that counts a connection
    (RTSP session, pull client, WSP session, HTTP-FLV, WebSocket-FLV) is balanced. -/
theorem c03_conn_counters :
    balancedCounter "stats.RtspConns.Release" "stats.RtspConns.Add" IpcHub.Gen.progRtspSessionProcess = true ∧
    balancedCounter "stats.RtspConns.Release" "stats.RtspConns.Add" IpcHub.Gen.progPullPlayStream = true ∧
    balancedCounter "stats.WspConns.Release" "stats.WspConns.Add" IpcHub.Gen.progWspSessionProcess = true ∧
    balancedCounter "stats.FlvConns.Release" "stats.FlvConns.Add" IpcHub.Gen.progHttpFlvConsume = true ∧
    balancedCounter "stats.FlvConns.Release" "stats.FlvConns.Add" IpcHub.Gen.progWsFlvConsume = true ∧
    -- the FLV entry points detach their consumer in the same deferred closure
    subseq ["defer func", "stream.StopConsume", "stats.FlvConns.Release"] IpcHub.Gen.progHttpFlvConsume = true ∧
    subseq ["defer func", "stream.StopConsume", "stats.FlvConns.Release"] IpcHub.Gen.progWsFlvConsume = true := by
  decide

/-- the worker-protocol configuration of the current source tree -/
def genWorkerCfg : IpcHub.Worker.Cfg :=
  { wakeViaPush := subseq ["set c.closed", "c.recvQueue.Push"] IpcHub.Gen.progConsClose
      && subseq ["set demuxer.closed", "demuxer.recvQueue.Push"] IpcHub.Gen.progDemuxerClose
      && subseq ["set muxer.closed", "muxer.recvQueue.Push"] IpcHub.Gen.progFlvMuxerClose
      && subseq ["set muxer.closed", "muxer.recvQueue.Push"] IpcHub.Gen.progTsMuxerClose }

/-- Counter: in every reachable state the consumer count equals the number of registered
    consumptions — in particular it is never negative — and it is zero once the stream is closed. -/
theorem c03_count (hevc gop : Bool) (ls : List Label) :
    let s := (genInit hevc gop).run ls
    s.count = ((s.cons.filter (·.registered)).length : Int) ∧ 0 ≤ s.count ∧
    (s.status ≠ 0 → s.count = 0 ∧ ∀ c ∈ s.cons, c.registered = false) := by
  intro s
  have hg : GInv _ s := ginv_run _ _ ls (ginv_init genConsts IpcHub.Gen.maxQLen hevc gop)
  refine ⟨hg.count, by rw [hg.count]; exact Int.natCast_nonneg _, ?_⟩
  intro hst
  have hnone : ∀ c ∈ s.cons, c.registered = false := by
    intro c hc
    cases hr : c.registered with
    | false => rfl
    | true => exact absurd ((hg.cinv c hc).reg hr).2.2 hst
  refine ⟨?_, hnone⟩
  rw [hg.count]
  have : s.cons.filter (·.registered) = [] := by
    rw [List.filter_eq_nil_iff]; intro c hc; simp [hnone c hc]
  simp [this]

/-- Release: a consumption that is not (or no longer) registered — stopped, swept by the stream's
    close, attached to an already closed stream, or detached after a panic — has its closed flag
    set; Consumer.Close is invoked at most once per consumer, exactly once iff its goroutine has
    run its clean-up, and a registered consumption is never closed. -/
theorem c03_released_exactly_once (hevc gop : Bool) (ls : List Label) :
    let s := (genInit hevc gop).run ls
    ∀ c ∈ s.cons,
      (c.registered = false → c.closed = true) ∧
      (c.closeCalls = if c.exited then 1 else 0) ∧
      (c.registered = true → c.closed = false ∧ c.exited = false) := by
  intro s c hc
  have hg := ginv_run _ _ ls (ginv_init genConsts IpcHub.Gen.maxQLen hevc gop)
  have hu : UAll s := uall_run _ ls (by intro c hc; simp [genInit, St.init] at hc)
  have h := hg.cinv c hc
  exact ⟨hu c hc, h.calls, fun hr => ⟨(h.reg hr).1, (h.reg hr).2.1⟩⟩

/-- Promptness (stream layer), PARTIAL: a closed consumption whose consumer is NOT blocked inside
    `Consume` is released within TWO steps of its own goroutine, whatever else happens in between
    is irrelevant to it (c01_independent): Consumer.Close has then been called exactly once.
    The full statement of the property ("every consumer … has its connection closed promptly")
    has no such hypothesis; it fails for a consumer blocked inside `Consume` (a client that stopped
    reading: the transports write without a deadline and nothing but the delivery goroutine itself
    ever closes the transport): `c03_blocked_consumer_not_released` — open finding
    `stalled-consumer-not-released-at-stream-end`. -/
theorem c03_released_within_two_steps_partial (c : Cons) (hcl : c.closed = true) (hst : c.stalled = false)
    (hex : c.exited = false) (hcalls : c.closeCalls = 0) :
    c.step.1.step.1.exited = true ∧ c.step.1.step.1.closeCalls = 1 ∧ c.step.1.step.1.registered = false :=
  released_in_two c hcl hst hex hcalls

/-- The excluded case, as a theorem about the model (and a scenario on the implementation, every
    run): a consumer blocked inside `Consume` with a packet in flight makes no step at all, so after
    the stream closed it stays unreleased — Consumer.Close not called, goroutine alive — for as
    long as it stays blocked, whatever number of steps its goroutine is offered. -/
theorem c03_blocked_consumer_not_released (c : Cons) (p : Pkt) (hex : c.exited = false)
    (hin : c.inflight = some p) (hst : c.stalled = true) (n : Nat) :
    (Nat.repeat (fun c => c.step.1) n c) = c := by
  have h1 : c.step.1 = c := by
    have k : c.stepKind = .blocked := by simp [Cons.stepKind, hex, hin, hst]
    show (c.apply c.stepKind).1 = c
    rw [k]; simp [Cons.apply]
  induction n with
  | zero => rfl
  | succ n ih => simp only [Nat.repeat]; rw [ih, h1]

/-- … and such a state is reached: join, stall, two packets published (the first one is now in
    flight inside the blocked `Consume`), the stream closes, the goroutine is offered five steps:
    closed, not exited, Consumer.Close never called. -/
theorem c03_blocked_consumer_witness :
    let pk : Pkt := { uid := 1, ch := 0, payload := [0x61, 1, 2, 3] }
    let s := (genInit false false).run [.join 0 false 0, .stall 0, .pub pk, .pub { pk with uid := 2 },
      .cstep 0, .cstep 0, .close, .cstep 0, .cstep 0, .cstep 0, .cstep 0, .cstep 0]
    s.cons.map (fun c => (c.closed, c.exited, c.closeCalls, c.inflight.isSome)) = [(true, false, 0, true)] := by
  decide

/-- Attach during / after close: a consumer that attaches once the stream's status is no longer OK
    is never registered and is closed at once (so the two-step release applies to it). -/
theorem c03_attach_to_closed_stream (s : St) (name : Nat) (useGop : Bool) (panicAt : Nat)
    (hst : s.status ≠ 0) (hn : s.hasName name = false) :
    ∃ c ∈ (s.step (.join name useGop panicAt)).cons,
      c.name = name ∧ c.registered = false ∧ c.closed = true ∧ c.exited = false ∧ c.closeCalls = 0 ∧
      (s.step (.join name useGop panicAt)).count = s.count := by
  refine ⟨Cons.close { name := name, registered := false, panicAt := panicAt, joinedAt := s.published.length }, ?_, ?_⟩
  · simp [St.step, hn, hst]
  · simp [St.step, hn, hst, Cons.close]

/-- The close sweep, one step, any state: ending a live stream publishes a non-OK status, zeroes
    the counter, leaves NO consumption registered, and turns every consumption that was registered
    into a closed one whose queue ends with the wake-up sentinel — whatever each consumer is doing
    at that moment (stalled, discarding, mid-delivery); consumptions that were no longer registered
    are left exactly as they were (not closed or woken a second time). -/
theorem c03_close_sweeps_every_consumer (s : St) (hst : s.status = 0) :
    (s.step .close).status ≠ 0 ∧ (s.step .close).count = 0 ∧
    (∀ c ∈ (s.step .close).cons, c.registered = false) ∧
    (∀ c ∈ s.cons, c.registered = true → c.closed = false →
        ∃ c' ∈ (s.step .close).cons, c'.name = c.name ∧ c'.registered = false ∧ c'.closed = true ∧
          c'.queue = c.queue ++ [none]) ∧
    (∀ c ∈ s.cons, c.registered = false → c ∈ (s.step .close).cons) := by
  have hst' : ¬ (s.status ≠ 0) := by simp [hst]
  simp only [St.step, hst', if_false]
  refine ⟨by simp, trivial, ?_, ?_, ?_⟩
  · intro c hc
    simp only [List.mem_map] at hc
    obtain ⟨c0, _, rfl⟩ := hc
    by_cases hr : c0.registered = true
    · simp only [hr, if_true, Cons.close]; split
      all_goals first | rfl | skip
    · simp only [hr, Bool.false_eq_true, if_false]
  · intro c hc hr hcl
    refine ⟨Cons.close { c with registered := false }, ?_, ?_⟩
    · simp only [List.mem_map]; exact ⟨c, hc, by simp [hr]⟩
    · simp [Cons.close, hcl]
  · intro c hc hr
    simp only [List.mem_map]; exact ⟨c, hc, by simp [hr]⟩

/-- No lost wake-up (worker layer).  With Close waking through the queue lock (the regenerated
    fact), in EVERY reachable state of the flag/queue/condition-variable protocol — every
    interleaving of the worker, any number of pushes, and the two steps of Close, including the
    window between the worker's closed-check and its blocking wait — a worker that waits after
    Close completed has been signalled; its own step is therefore enabled until it has exited. -/
theorem c03_no_lost_wakeup (ls : List IpcHub.Worker.Label) :
    let s := IpcHub.Worker.run genWorkerCfg {} ls
    s.closeDone = true → s.pc ≠ .exited → IpcHub.Worker.workerEnabled s = true := by
  intro s hd hne
  have hc : genWorkerCfg.wakeViaPush = true := by decide
  have hi := IpcHub.Worker.inv_run genWorkerCfg hc {} ls IpcHub.Worker.inv_init
  unfold IpcHub.Worker.workerEnabled
  cases hpc : s.pc with
  | waiting => exact hi.waiting_sig hd hpc
  | exited => exact absurd hpc hne
  | top => rfl
  | checked => rfl
  | got e => rfl

/-- Termination (worker layer): once Close has completed, ANY continuation of the schedule that
    gives the worker at least three steps ends with the worker goroutine gone. -/
theorem c03_worker_terminates (ls ls' : List IpcHub.Worker.Label)
    (hd : (IpcHub.Worker.run genWorkerCfg {} ls).closeDone = true)
    (hw : 3 ≤ IpcHub.Worker.wcount ls') :
    (IpcHub.Worker.run genWorkerCfg (IpcHub.Worker.run genWorkerCfg {} ls) ls').pc = .exited := by
  have hc : genWorkerCfg.wakeViaPush = true := by decide
  have hi := IpcHub.Worker.inv_run genWorkerCfg hc {} ls IpcHub.Worker.inv_init
  apply IpcHub.Worker.terminates_aux genWorkerCfg hc ls' _ hi hd
  have : IpcHub.Worker.rank (IpcHub.Worker.run genWorkerCfg {} ls).pc ≤ 3 := by
    cases (IpcHub.Worker.run genWorkerCfg {} ls).pc <;> simp [IpcHub.Worker.rank]
  omega

/-- Why the fact matters — the pinned tree's defect as a proved witness: with a bare Signal
    (`wakeViaPush = false`) the schedule "worker passes its closed-check; Close sets the flag;
    Close signals (nobody waits: lost); worker enters Wait" reaches a state where Close has
    completed and the worker waits unsignalled on an empty queue, for ever. -/
theorem c03_lost_wakeup_counterexample :
    let s := IpcHub.Worker.run { wakeViaPush := false } {} [.w, .closeFlag, .closeWake, .w]
    s.closeDone = true ∧ s.pc = .waiting ∧ s.signalled = false ∧ s.queue = [] ∧
    IpcHub.Worker.workerEnabled s = false := by
  decide

/-- non-vacuity of the termination theorem: Close can complete while the worker is anywhere -/
example : (IpcHub.Worker.run genWorkerCfg {} [.w, .closeFlag, .closeWake]).closeDone = true ∧
    (IpcHub.Worker.run genWorkerCfg {} [.w, .closeFlag, .closeWake, .w, .w, .w]).pc = .exited := by decide

end IpcHub.Props.C03
