/-
C11 — Authorization holds on every entry point and follows the rights currently saved.
(property theorems; under construction)
-/
import IpcHub.Spec.Monitor
import IpcHub.Model.AuthInst
namespace IpcHub.Props.C11
open IpcHub.PathMatch IpcHub.PatternLang IpcHub.Auth IpcHub.Monitor

/-- placeholder while the pipeline is brought up -/
theorem c11_unknown_facts : IpcHub.Gen.c11FactsUnknown = [] := by decide

end IpcHub.Props.C11
