/-
C11 — Authorization holds on every entry point and follows the rights currently saved.

Property theorems only.  The model is IpcHub/Model/Auth.lean + AuthSess.lean (instantiated with the
regenerated facts in Model/AuthInst.lean), the specification is the reference monitor of
IpcHub/Spec/Monitor.lean on top of C16's `specPermits`; helper lemmas live in IpcHub/Lemmas/Auth*.lean.

Reading guide.  The monitor *judges* an observed outcome of an entry point: `Verdict.ok`, `.unsound`
(something was granted that the rights as last saved forbid) or `.incomplete` (a caller who holds
the right was refused).  Each "…_ok" theorem says: for EVERY model state related to the monitor's
state (`Rel`: same administrative history, tokens valid exactly as the monitor's grants) and EVERY
request, the outcome the model produces is judged `ok` — soundness and completeness at once.
`c11_rel_users` discharges the user half of `Rel` for every administrative history, the token
theorems the other half; the session theorems also show their invariants are preserved, so the
statements hold along every request sequence.
-/
import IpcHub.Lemmas.AuthRel
import IpcHub.Lemmas.AuthTokens
import IpcHub.Lemmas.AuthTokSim
import IpcHub.Lemmas.Ids
import IpcHub.Lemmas.AuthWitness
import IpcHub.Lemmas.AuthSeq
import IpcHub.Lemmas.AuthShort
import IpcHub.Model.PathMatchExpect
import IpcHub.Model.AuthInst
namespace IpcHub.Props.C11
open IpcHub.PathMatch IpcHub.PatternLang IpcHub.Auth IpcHub.Monitor

/-- the monitor's environment: ASCII character functions, the registry's key function, and the
    API paths that are open / read-only by design (docs/apis.md) -/
def env : Env :=
  { lower := asciiLower, isSpace := asciiSpace, canon := canonicalPath genCfg,
    openPaths := ["/api/v1/login", "/api/v1/refreshtoken", "/api/v1/runtime", "/api/v1/server"].map String.toList,
    streamQueryPrefix := "/api/v1/streams".toList }

/-! ## the source facts (regenerated from /repo on every run) -/

/-- Every tracked function of the current source tree has the skeleton (guards, tracked calls,
    assignments, returns, in order) of the reviewed code the model mirrors; the translator
    recognised every shape.  A dropped or reordered check, a changed constant or table breaks this. -/
theorem c11_source_facts :
    Gen.c11FactsUnknown = [] ∧
    Gen.skel_userInit = Expected.skel_userInit ∧
    Gen.skel_userCopyFrom = Expected.skel_userCopyFrom ∧
    Gen.skel_userValidatePermission = Expected.skel_userValidatePermission ∧
    Gen.skel_userValidatePassword = Expected.skel_userValidatePassword ∧
    Gen.skel_managerGet = Expected.skel_managerGet ∧
    Gen.skel_managerSave = Expected.skel_managerSave ∧
    Gen.skel_managerDel = Expected.skel_managerDel ∧
    Gen.skel_tokenNew = Expected.skel_tokenNew ∧
    Gen.skel_tokenRefresh = Expected.skel_tokenRefresh ∧
    Gen.skel_tokenAccessCheck = Expected.skel_tokenAccessCheck ∧
    Gen.skel_tokenExpCheck = Expected.skel_tokenExpCheck ∧
    Gen.skel_newSecret = Expected.skel_newSecret ∧
    Gen.skel_canonicalPathLoop = Expected.skel_canonicalPathLoop ∧
    Gen.skel_canonicalPathOnce = Expected.skel_canonicalPathOnce ∧
    Gen.skel_streamInterceptor = Expected.skel_streamInterceptor ∧
    Gen.skel_permissionInterceptor = Expected.skel_permissionInterceptor ∧
    Gen.skel_extractStreamPathAndExt = Expected.skel_extractStreamPathAndExt ∧
    Gen.skel_onStreamsRequest = Expected.skel_onStreamsRequest ∧
    Gen.skel_onWebSocketRequest = Expected.skel_onWebSocketRequest ∧
    Gen.skel_authInterceptor = Expected.skel_authInterceptor ∧
    Gen.skel_roleInterceptor = Expected.skel_roleInterceptor ∧
    Gen.skel_onLogin = Expected.skel_onLogin ∧
    Gen.skel_onRefreshToken = Expected.skel_onRefreshToken ∧
    Gen.skel_hlsGetTS = Expected.skel_hlsGetTS ∧
    Gen.skel_hlsGetM3u8 = Expected.skel_hlsGetM3u8 ∧
    Gen.skel_flvConsumeByHTTP = Expected.skel_flvConsumeByHTTP ∧
    Gen.skel_flvConsumeByWebsocket = Expected.skel_flvConsumeByWebsocket ∧
    Gen.skel_rtspNewSessionWs = Expected.skel_rtspNewSessionWs ∧
    Gen.skel_rtspCheckPermission = Expected.skel_rtspCheckPermission ∧
    Gen.skel_rtspHttpAuthed = Expected.skel_rtspHttpAuthed ∧
    Gen.skel_rtspCheckAuth = Expected.skel_rtspCheckAuth ∧
    Gen.skel_rtspOnPreprocess = Expected.skel_rtspOnPreprocess ∧
    Gen.skel_rtspOnRequest = Expected.skel_rtspOnRequest ∧
    Gen.skel_rtspOnDescribe = Expected.skel_rtspOnDescribe ∧
    Gen.skel_rtspOnAnnounce = Expected.skel_rtspOnAnnounce ∧
    Gen.skel_rtspOnSetup = Expected.skel_rtspOnSetup ∧
    Gen.skel_rtspOnRecord = Expected.skel_rtspOnRecord ∧
    Gen.skel_rtspOnPlay = Expected.skel_rtspOnPlay ∧
    Gen.skel_rtspAsTCPPusher = Expected.skel_rtspAsTCPPusher ∧
    Gen.skel_wspHandshakeData = Expected.skel_wspHandshakeData ∧
    Gen.skel_wspAcceptsDataChannel = Expected.skel_wspAcceptsDataChannel ∧
    Gen.skel_wspCheckPermission = Expected.skel_wspCheckPermission ∧
    Gen.skel_wspOnDescribe = Expected.skel_wspOnDescribe ∧
    Gen.skel_wspOnPlay = Expected.skel_wspOnPlay ∧
    Gen.skel_wspOnPreprocess = Expected.skel_wspOnPreprocess ∧
    Gen.skel_wspOnRequest = Expected.skel_wspOnRequest ∧
    Gen.skel_wspNewSession = Expected.skel_wspNewSession ∧
    Gen.noAuthRequired = Expected.noAuthRequired ∧
    Gen.apiRoutes = Expected.apiRoutes ∧
    Gen.apiInterceptorChain = Expected.apiInterceptorChain ∧
    Gen.apiMuxHandler = Expected.apiMuxHandler ∧
    Gen.streamsMux = Expected.streamsMux ∧
    Gen.roleExemptPrefix = Expected.roleExemptPrefix ∧
    Gen.tokenField_Username = Expected.tokenField_Username ∧
    Gen.tokenField_AToken = Expected.tokenField_AToken ∧
    Gen.tokenField_AExp = Expected.tokenField_AExp ∧
    Gen.tokenField_RToken = Expected.tokenField_RToken ∧
    Gen.tokenField_RExp = Expected.tokenField_RExp ∧
    Gen.accessTTL = Expected.accessTTL ∧
    Gen.refreshTTL = Expected.refreshTTL ∧
    Gen.securityRandImports = Expected.securityRandImports ∧
    Gen.rtspRealmExpr = Expected.rtspRealmExpr :=
  ⟨rfl, rfl, rfl, rfl, rfl, rfl, rfl, rfl, rfl, rfl, rfl, rfl, rfl, rfl, rfl, rfl, rfl, rfl, rfl, rfl, rfl, rfl, rfl, rfl, rfl, rfl, rfl, rfl, rfl, rfl, rfl, rfl, rfl, rfl, rfl, rfl, rfl, rfl, rfl, rfl, rfl, rfl, rfl, rfl, rfl, rfl, rfl, rfl, rfl, rfl, rfl, rfl, rfl, rfl, rfl, rfl, rfl, rfl, rfl, rfl, rfl, rfl, rfl⟩

/-- what the model flags computed from those skeletons are, for the current tree -/
theorem c11_model_flags :
    genCfg.initResets = true ∧ genCfg.tsPermDir = true ∧ genCfg.permCanonical = true ∧
    genCfg.wsRtspChecks = true ∧ genCfg.digestShowsNewNonce = true ∧ genCfg.wspJoinChecks = true ∧
    genCfg.wspPlayChecks = true ∧ genCfg.accessTTL = 7200 ∧ genCfg.refreshTTL = 604800 ∧
    genCfg.noAuth = env.openPaths ∧ genCfg.streamQueryPrefix = env.streamQueryPrefix ∧
    genCfg.pm.pathTrims = false := by
  have e1 : Gen.skel_userInit = Expected.skel_userInit := rfl
  have e2 : Gen.skel_permissionInterceptor = Expected.skel_permissionInterceptor := rfl
  have e3 : Gen.skel_rtspCheckPermission = Expected.skel_rtspCheckPermission := rfl
  have e4 : Gen.skel_rtspHttpAuthed = Expected.skel_rtspHttpAuthed := rfl
  have e5 : Gen.skel_rtspCheckAuth = Expected.skel_rtspCheckAuth := rfl
  have e6 : Gen.skel_rtspOnPreprocess = Expected.skel_rtspOnPreprocess := rfl
  have e7 : Gen.skel_wspHandshakeData = Expected.skel_wspHandshakeData := rfl
  have e8 : Gen.skel_wspAcceptsDataChannel = Expected.skel_wspAcceptsDataChannel := rfl
  have e9 : Gen.skel_wspCheckPermission = Expected.skel_wspCheckPermission := rfl
  have e10 : Gen.skel_wspOnDescribe = Expected.skel_wspOnDescribe := rfl
  have e11 : Gen.skel_wspOnPlay = Expected.skel_wspOnPlay := rfl
  refine ⟨?_, ?_, ?_, ?_, ?_, ?_, ?_, rfl, rfl, rfl, rfl, rfl⟩
  · exact decide_eq_true e1
  · exact decide_eq_true e2
  · exact decide_eq_true e2
  · simp only [Auth.genCfg, e3, e4, e5, decide_true, Bool.and_self]
  · exact decide_eq_true e6
  · simp only [Auth.genCfg, e7, e8, decide_true, Bool.and_self]
  · simp only [Auth.genCfg, e9, e10, e11, decide_true, Bool.and_self]


/-- `authInterceptor` of the current tree REPLACES the internal identity header with the verified
    user name (`r.Header.Set`): computed from the regenerated skeleton of the function. -/
theorem c11_identity_flag : genCfg.identityReplaces = true := by
  have e : Gen.skel_authInterceptor = Expected.skel_authInterceptor := rfl
  exact decide_eq_true e

/-- the reviewed shape of `authInterceptor`: token from the query, `AccessCheck`, then `Header.Set`
    (no `Add`, no other header call), 401 otherwise -/
theorem c11_identity_source_facts :
    Expected.skel_authInterceptor =
      ["call r.URL.Query().Get(\"token\")", "set token := r.URL.Query().Get(\"token\")", "if token != \"\" {",
       "call s.tokens.AccessCheck(token)", "set username := s.tokens.AccessCheck(token)", "if username != \"\" {",
       "call r.Header.Set(usernameHeaderKey, username)", "return true", "}", "}",
       "call http.Error(w, \"Token is not valid\", http.StatusUnauthorized)", "return false"] := rfl

/-- facts about the ASCII character functions and the regenerated source facts, in the form the
    generic lemmas take them -/
theorem c11_user_facts : UserFacts Auth.genCfg env :=
  ⟨asciiLower_idem, c11_model_flags.1, c11_model_flags.2.2.2.2.2.2.2.2.2.2.2, by decide, rfl, rfl⟩

theorem c11_char_facts : CharOK Auth.genCfg := ⟨asciiLower_idem, by decide, by decide⟩

/-! ## rights follow the last save -/

/-- **Rights as last saved.**  For EVERY administrative history `h` (saves — creations and updates,
    with or without password — and deletes, most recent first, of any length), every user name,
    path and right: what the model's user table (built by `manager.Save` / `Del`, `User.init`,
    `CopyFrom`, `initMatchers`) lets `ValidatePermission` decide is exactly the documented pattern
    language applied to the right string LAST SAVED for that name; `false` if the user was deleted
    since or never existed.  Old rights grant nothing, held rights are never refused. -/
theorem c11_rights_follow_save (h : List AdminOp) (n p : List Char) (rt : Right) :
    (match getUser Auth.genCfg (usersOf Auth.genCfg h) n with
      | none => false
      | some u => u.validatePermission Auth.genCfg p rt) = allowed env h n (actOf rt) p :=
  perm_usersOf Auth.genCfg env c11_user_facts h n p rt

/-- after a delete nothing is allowed, whatever was saved before -/
theorem c11_deleted_user_has_no_rights (h : List AdminOp) (n p : List Char) (rt : Right) :
    (match getUser Auth.genCfg (usersOf Auth.genCfg (.del n :: h)) n with
      | none => false
      | some u => u.validatePermission Auth.genCfg p rt) = false := by
  rw [c11_rights_follow_save]
  simp [allowed, lastSaved]

/-- after a save the decision depends on the strings just saved and on nothing older -/
theorem c11_saved_rights_replace_old (h : List AdminOp) (u : UserIn) (upd : Bool) (p : List Char) :
    (match getUser Auth.genCfg (usersOf Auth.genCfg (.save u upd :: h)) u.name with
      | none => false
      | some x => x.validatePermission Auth.genCfg p .pull)
      = specPermits asciiLower asciiSpace u.pull u.admin p := by
  rw [c11_rights_follow_save]
  simp [allowed, lastSaved, actOf, env]

/-- administrators are exactly the users last saved as administrators -/
theorem c11_admin_follows_save (h : List AdminOp) (n : List Char) :
    (match getUser Auth.genCfg (usersOf Auth.genCfg h) n with
      | none => false
      | some u => u.admin) = allowed env h n .admin [] :=
  admin_usersOf Auth.genCfg env c11_user_facts h n

/-! ## a right covers nothing above its masks -/

/-- Every decision of C11 goes through the matcher of C16: its source facts — the path scanner, the
    wildcard constants and, statement by statement, `NewPathMatcher`, `pathMacher.Match` (BOTH length
    guards: a path with fewer sections than the mask is refused, a longer one only under the end
    wildcard), `partCount`, `initMatchers`, `ValidatePermission`, `Scanner.Scan` — are obligations
    of C11 too (regenerated from the tree under check by C16's translator on every run of C11). -/
theorem c11_matcher_source_facts :
    Gen.authFactsUnknown = [] ∧ Gen.pathScannerTrims = false ∧ Gen.pathScannerDelim = "/" ∧
    Gen.sectionWildcard = "+" ∧ Gen.endWildcard = "*" ∧
    Gen.semicolonScanner = PathMatch.Expected.semicolonScanner ∧
    Gen.pmSkel_NewPathMatcher = PathMatch.Expected.pmSkel_NewPathMatcher ∧
    Gen.pmSkel_Match = PathMatch.Expected.pmSkel_Match ∧
    Gen.pmSkel_AlwaysMatch = PathMatch.Expected.pmSkel_AlwaysMatch ∧
    Gen.pmSkel_partCount = PathMatch.Expected.pmSkel_partCount ∧
    Gen.pmSkel_initMatchers = PathMatch.Expected.pmSkel_initMatchers ∧
    Gen.pmSkel_ValidatePermission = PathMatch.Expected.pmSkel_ValidatePermission ∧
    Gen.pmSkel_Scan = PathMatch.Expected.pmSkel_Scan ∧
    Gen.pmSkel_NewScanner = PathMatch.Expected.pmSkel_NewScanner := by
  decide

/-- the right string of a saved record that an action is decided with -/
def rightOf (r : Rec) : Right → List Char
  | .pull => r.pull
  | .push => r.push

/-- **A right covers no path that is two or more sections shorter than each of its masks.**  For
    EVERY administrative history, user, right (pull and push) and path: if every mask of the right
    string last saved has at least two sections more than the path (`/live/room1/*`, `/a/+/c/*`,
    `/cam/1/3` against `/live`, `/a`, `/a/x`, `/cam`), the model's `ValidatePermission` refuses —
    whatever the sections are, with or without the end wildcard (which stands for zero or more
    sections AFTER all the others have been met: `/live/*` does cover `/live`).  With the
    entry-point theorems below: no entry point serves or publishes such a path. -/
theorem c11_right_covers_no_shorter_path (h : List AdminOp) (n p : List Char) (rt : Right) (r : Rec)
    (hr : lastSaved asciiLower h n = some r)
    (hadm : r.admin = false ∨ rightOf r rt ≠ [])
    (hshort : ∀ pat ∈ patterns asciiSpace (rightOf r rt),
      (segs asciiLower (trim asciiSpace p)).length + 1 < (segs asciiLower pat).length) :
    (match getUser Auth.genCfg (usersOf Auth.genCfg h) n with
      | none => false
      | some u => u.validatePermission Auth.genCfg p rt) = false := by
  rw [c11_rights_follow_save]
  cases rt
  · simpa [allowed, env, hr, actOf, rightOf] using
      specPermits_short asciiLower asciiSpace r.pull r.admin p hadm hshort
  · simpa [allowed, env, hr, actOf, rightOf] using
      specPermits_short asciiLower asciiSpace r.push r.admin p hadm hshort

/-- non-vacuity of `c11_right_covers_no_shorter_path`, and the boundary (tests by evaluation): after
    "viewer" was saved with pull `/live/room1/*;/a/+/c/*`, `/live` and `/a` are two sections short
    of every mask — refused; `/live/room1` is one short of a `*`-mask — covered, like everything
    below it; `/live/room2/a` is not. -/
example :
    let u : UserIn := { name := "viewer".toList, admin := false, push := "/pub/cam1/*".toList,
                        pull := "/live/room1/*;/a/+/c/*".toList, password := .plain "pw".toList }
    let h := [AdminOp.save u true]
    (∃ r, lastSaved asciiLower h "Viewer".toList = some r ∧ (r.admin = false ∨ rightOf r .pull ≠ []) ∧
      (∀ p ∈ ["/live".toList, "/a".toList, " /A/ ".toList], ∀ pat ∈ patterns asciiSpace (rightOf r .pull),
        (segs asciiLower (trim asciiSpace p)).length + 1 < (segs asciiLower pat).length)) ∧
    allowed env h "viewer".toList .pull "/live".toList = false ∧
    allowed env h "viewer".toList .pull "/a/x".toList = false ∧
    allowed env h "viewer".toList .push "/pub".toList = false ∧
    allowed env h "viewer".toList .pull "/live/room1".toList = true ∧
    allowed env h "viewer".toList .pull "/live/room1/a/b".toList = true ∧
    allowed env h "viewer".toList .pull "/a/zz/c/1".toList = true ∧
    allowed env h "viewer".toList .pull "/live/room2/a".toList = false ∧
    allowed env h "viewer".toList .push "/pub/cam1/x".toList = true := by
  decide

/-- The relation the decision theorems assume holds for the table built from the monitor's own
    history, given a token table that answers like the monitor's grants (`c11_tokens_*`). -/
theorem c11_rel_users (w : World) (sw : SWorld)
    (hu : w.users = usersOf Auth.genCfg sw.hist) (ha : w.authOn = sw.authOn)
    (ht : ∀ t, (accessCheck w.toks t w.now).2 = validAccess sw.grants sw.now t) :
    Rel Auth.genCfg env w sw :=
  rel_of_history Auth.genCfg env c11_user_facts w sw hu ha ht

/-- The configuration computed from the regenerated facts IS the reviewed configuration written out
    in Lemmas/AuthWitness.lean (`cfgFixed`): every flag on, the TTLs, the open paths.  The concrete
    examples and counter-examples below are evaluated with `cfgFixed` (so that the kernel does not
    re-compare the generated skeletons in every step); this theorem is what makes them statements
    about the current tree. -/
theorem c11_cfg_is_reviewed : Auth.genCfg = Witness.cfgFixed := by
  obtain ⟨h1, h2, h3, h4, h5, h6, h7, h8, h9, h10, h11, _⟩ := c11_model_flags
  have h12 := c11_identity_flag
  have e : ∀ c : Auth.Cfg, c = ⟨c.pm, c.initResets, c.tsPermDir, c.permCanonical, c.wsRtspChecks, c.digestShowsNewNonce,
      c.wspJoinChecks, c.wspPlayChecks, c.identityReplaces, c.accessTTL, c.refreshTTL, c.noAuth, c.streamQueryPrefix⟩ :=
    fun c => by cases c; rfl
  rw [e Auth.genCfg, h1, h2, h3, h4, h5, h6, h7, h8, h9, h10, h11, h12]
  rfl

/-! ## the entry points -/

/-- **The caller's identity comes from the token only.**  The verified user name travels to the
    permission / role interceptors and to the WebSocket upgrade in the request header
    `user_name_in_token`; a client can send a header of that name itself.  For EVERY list `hdr` of
    values the client sent under that key, every state, method, path and token, the three HTTP entry
    points behave exactly as if the client had sent none: the client's values are never read. -/
theorem c11_client_identity_header_ignored (w : World) (m : HMethod) (isGet : Bool) (path : List Char)
    (tok : TokRef) (sub : WsSub) (hdr : List (List Char)) :
    httpStreamH Auth.genCfg w m path tok hdr = httpStream Auth.genCfg w m path tok ∧
    apiGateH Auth.genCfg w m isGet path tok hdr = apiGate Auth.genCfg w m isGet path tok ∧
    wsUpgradeH Auth.genCfg w path tok sub hdr = wsUpgrade Auth.genCfg w path tok sub :=
  ⟨httpStreamH_eq _ c11_identity_flag w m path tok hdr, apiGateH_eq _ c11_identity_flag w m isGet path tok hdr,
   wsUpgradeH_eq _ c11_identity_flag w path tok sub hdr⟩

/-- **HTTP-FLV, HLS playlist, HLS segment** (`/streams/...` without upgrade).  For every related
    state, method (GET, CONNECT — whose path net/http does not clean —, other), URL path, token and
    client-sent identity header values: media of registry key `k` is served only if the token is a
    valid access token of a user whose pull right as last saved covers `k` (for a segment: the
    stream it belongs to), and 401 / 403 are never answered to such a user asking for a resource
    his right covers. -/
theorem c11_http_streams_ok (w : World) (sw : SWorld) (r : Rel Auth.genCfg env w sw)
    (m : HMethod) (path : List Char) (tok : TokRef) (hdr : List (List Char)) :
    judgeHttp env sw path tok (httpStreamH Auth.genCfg w m path tok hdr).2 = .ok := by
  rw [httpStreamH_eq _ c11_identity_flag]
  exact httpStream_ok Auth.genCfg env rfl c11_model_flags.2.1 c11_model_flags.2.2.1 w sw r m path tok

/-- **Management API.**  A call reaches the router without a token only on the four open paths, with
    a token only if it is a valid access token and (the call is a read-only stream query or the
    user OF THE TOKEN is an administrator as last saved), whatever identity header the client
    sent; administrators and stream queries are not refused. -/
theorem c11_api_ok (w : World) (sw : SWorld) (r : Rel Auth.genCfg env w sw)
    (m : HMethod) (isGet : Bool) (path : List Char) (tok : TokRef) (hdr : List (List Char)) :
    judgeApi env sw isGet path tok (apiGateH Auth.genCfg w m isGet path tok hdr).2 = .ok := by
  rw [apiGateH_eq _ c11_identity_flag]
  exact apiGate_ok Auth.genCfg env rfl c11_model_flags.2.2.2.2.2.2.2.2.2.1.symm
    c11_model_flags.2.2.2.2.2.2.2.2.2.2.1.symm w sw r m isGet path tok

/-- **WebSocket upgrade** (WS-FLV, and the hand-over to ws-rtsp / WSP): a connection exists only for
    an authenticated caller and is LABELLED WITH THE USER OF THE TOKEN (the sessions that run on it
    decide by that label), FLV of `k` only with the pull right on `k`, no false denial — whatever
    identity header the client sent. -/
theorem c11_ws_upgrade_ok (w : World) (sw : SWorld) (r : Rel Auth.genCfg env w sw)
    (path : List Char) (tok : TokRef) (sub : WsSub) (hdr : List (List Char)) :
    judgeWs env sw path tok (wsUpgradeH Auth.genCfg w path tok sub hdr).2 = .ok := by
  rw [wsUpgradeH_eq _ c11_identity_flag]
  exact wsUpgrade_ok Auth.genCfg env rfl c11_model_flags.2.1 c11_model_flags.2.2.1 w sw r path tok sub

/-- **RTSP, one request** (plain or over WebSocket).  In a session satisfying the invariants, for
    every request (any method, URL, credentials, SDP / transport outcome): an SDP is returned, a
    consumer attached or a stream published under key `k` only for a caller authenticated in THIS
    request (fresh digest of the saved password; for WebSocket the token user, looked up again)
    whose pull / push right as last saved covers `k`; 401 / 403 never hit a caller who holds the
    right on the session's resource.  Switching path or user mid-session and publishing through a
    WebSocket session are ordinary requests here. -/
theorem c11_rtsp_step_ok (w : World) (sw : SWorld) (r : Rel Auth.genCfg env w sw) (hon : sw.authOn = true)
    (s : RtspSess) (ss : SSess) (hd : s.digest = (s.ws.isNone && w.authOn))
    (inv : SInv Auth.genCfg s) (rel : SessRel s ss) (rq : RtspReq) (hfresh : FreshOK s rq) :
    judgeRtsp env sw ss s.ws rq (rtspStep Auth.genCfg w s rq).2.2 = .ok :=
  rtspStep_ok Auth.genCfg env w sw c11_char_facts rfl c11_model_flags.2.2.2.1 r hon rfl s ss hd inv rel rq hfresh

/-- ... and every request preserves the invariants, so `c11_rtsp_step_ok` applies to the next one:
    by induction, to every request sequence, whatever happens to users and tokens in between. -/
theorem c11_rtsp_invariants (w : World) (s : RtspSess) (ss : SSess)
    (inv : SInv Auth.genCfg s) (rel : SessRel s ss) (rq : RtspReq) :
    let res := rtspStep Auth.genCfg w s rq
    SInv Auth.genCfg res.2.1 ∧ SessRel res.2.1 (ss.step env s.ws rq res.2.2) ∧
      res.2.1.digest = s.digest ∧ res.2.1.ws = s.ws :=
  rtspStep_keeps Auth.genCfg env w c11_char_facts rfl c11_model_flags.2.2.2.2.1 s ss inv rel rq

/-- a new plain RTSP session satisfies the invariants -/
theorem c11_rtsp_plain_session_init (w : World) (id : Nat) :
    SInv Auth.genCfg (newRtspSess w id none) ∧ SessRel (newRtspSess w id none) {} ∧
      (newRtspSess w id none).digest = ((newRtspSess w id none).ws.isNone && w.authOn) := by
  refine ⟨⟨?_, ?_, ?_, Or.inl rfl⟩, ⟨rfl, ?_⟩, rfl⟩ <;> simp [newRtspSess]

/-- FULL STATEMENT: a new WebSocket RTSP session satisfies the invariants.
    PROVED (`_partial`): for a WebSocket opened on a stream path that is its own canonical form
    (lower case, no `//`, `.` or `..` elements, no surrounding blanks).  EXCLUDED: other spellings of
    the ws:// path (e.g. upper case letters: GET requests are path-cleaned by net/http but not
    case-folded) — for those the session validates the raw path while the registry looks up the
    canonical one; the two agree on every spelling the correspondence run generates, but this is
    not proved. -/
theorem c11_rtsp_ws_session_init_partial (w : World) (id : Nat) (c : WsConn)
    (hc : canonicalPath Auth.genCfg c.path = c.path) :
    SInv Auth.genCfg (newRtspSess w id (some c)) ∧ SessRel (newRtspSess w id (some c)) { resource := c.path } ∧
      (newRtspSess w id (some c)).digest = ((newRtspSess w id (some c)).ws.isNone && w.authOn) := by
  refine ⟨⟨?_, ?_, ?_, Or.inl rfl⟩, ⟨rfl, ?_⟩, rfl⟩
  · simp [newRtspSess]
  · intro _; exact hc
  · intro _; exact hc
  · simp [newRtspSess]

/-- **WSP control channel, one request**: SDP / RTP of `k` go to the control channel's user (and to
    the joined data channel's user) only while that user's pull right as last saved covers `k`;
    no false 403. -/
theorem c11_wsp_step_ok (w : World) (sw : SWorld) (r : Rel Auth.genCfg env w sw)
    (s : WspSess) (inv : WspInv Auth.genCfg w s) (m : Method) (ctrl : Ctrl) (trOk : Bool) :
    judgeWsp env sw s.conn s.data (wspStep Auth.genCfg w s m ctrl trOk).2 = .ok :=
  wspStep_ok Auth.genCfg env w sw rfl c11_model_flags.2.2.2.2.2.2.1 c11_model_flags.2.2.2.2.2.1 r s inv m ctrl trOk

/-- **WSP data channel JOIN**: a data channel is attached to a session (and so handed the RTP of
    what the session is consuming) only if it was opened by the same user on the same path and
    that user's pull right still covers it; such a channel is not refused. -/
theorem c11_wsp_join_ok (w : World) (sw : SWorld) (r : Rel Auth.genCfg env w sw)
    (s : WspSess) (inv : WspInv Auth.genCfg w s)
    (hatt : ∀ k, s.attached = some k → k = s.conn.path) (dc : WsConn) :
    judgeJoin env sw (some (s.conn, s.attached)) dc (wspJoin Auth.genCfg w (some s) dc).1 = .ok :=
  wspJoin_ok Auth.genCfg env w sw rfl c11_model_flags.2.2.2.2.2.2.1 c11_model_flags.2.2.2.2.2.1 r s inv hatt dc

/-- the WSP invariants are preserved by every control request (and by JOIN: `wspJoin_keeps`), and a
    session created on a canonical path starts with them -/
theorem c11_wsp_invariants (w : World) (s : WspSess) (inv : WspInv Auth.genCfg w s)
    (hatt : ∀ k, s.attached = some k → k = s.conn.path) (m : Method) (ctrl : Ctrl) (trOk : Bool) :
    WspInv Auth.genCfg w (wspStep Auth.genCfg w s m ctrl trOk).1 ∧
    (∀ k, (wspStep Auth.genCfg w s m ctrl trOk).1.attached = some k → k = s.conn.path) ∧
    (wspStep Auth.genCfg w s m ctrl trOk).1.conn = s.conn :=
  wspStep_keeps Auth.genCfg w s inv hatt m ctrl trOk

theorem c11_wsp_session_init_partial (w : World) (i : Nat) (c : WsConn)
    (hc : canonicalPath Auth.genCfg c.path = c.path) :
    WspInv Auth.genCfg w { chan := i, conn := c } := by
  refine ⟨?_, ?_, ?_, hc⟩
  · intro _ d hd; simp at hd
  · intro h; simp at h
  · intro h; simp at h


/-! ## tokens

`TState.run genCfg TState.init ops` is the token table after ANY history `ops` of logins, refreshes
(with any string), access checks (with any string; they delete expired entries), expiry sweeps and
ticks of the clock.  Secrets are handles: the k-th call of `security.NewSecret()` yields `k`
(unpredictability is `c11_token_secrecy`, absence of collisions is assumed). -/

/-- AccessCheck accepts ONLY the access secret of a stored, unexpired record — after every history.
    In particular a refresh secret never authenticates and an expired token is refused. -/
theorem c11_tokens_accept_only_valid_access (ops : List TokOp) (k : Nat) :
    let s := TState.init.run Auth.genCfg ops
    (∀ u, (accessCheck s.t k s.now).2 = some u →
        ∃ tok, tget s.t k = some tok ∧ tok.a = k ∧ tok.aexp > s.now ∧ tok.user = u) ∧
    (∀ tok, tget s.t k = some tok → k = tok.r → (accessCheck s.t k s.now).2 = none) ∧
    (∀ tok, tget s.t k = some tok → tok.aexp ≤ s.now → (accessCheck s.t k s.now).2 = none) := by
  intro s
  have hm : TM s.t s.next := TM.run Auth.genCfg ops TState.init TM.nil
  refine ⟨fun u h => access_sound s.t k s.now u h, ?_, ?_⟩
  · intro tok hg hk
    have hsh := hm.shape (k, tok) (tget_mem hg)
    simp only at hsh
    have hne : ¬ tok.a = k := by omega
    simp [accessCheck, hg, hne]
  · intro tok hg he
    have : ¬ tok.aexp > s.now := by omega
    unfold accessCheck
    rw [hg]
    by_cases ha : tok.a = k <;> simp [ha, this]

/-- A token that was refreshed away is refused for ever: after `Refresh` with the refresh secret of a
    stored record, neither secret of that record is ever accepted again — not by AccessCheck and not
    by another Refresh — whatever happens later. -/
theorem c11_tokens_superseded_refused_forever (ops later : List TokOp) (r : Nat) (old : Tok) :
    let s := TState.init.run Auth.genCfg ops
    tget s.t r = some old → old.r = r →
    let s' := (s.step Auth.genCfg (.refresh r)).run Auth.genCfg later
    accessCheck s'.t old.a s'.now = (s'.t, none) ∧ accessCheck s'.t old.r s'.now = (s'.t, none) ∧
      (refreshToken Auth.genCfg s'.t s'.next old.r s'.now).2.2 = none := by
  intro s hg hr s'
  have hm : TM s.t s.next := TM.run Auth.genCfg ops TState.init TM.nil
  obtain ⟨h1, h2, h3, h4⟩ := refresh_supersedes Auth.genCfg s hm r old hg hr
  have g1 := gone_stays_gone Auth.genCfg old.a later _ h3 h1
  have g2 := gone_stays_gone Auth.genCfg old.r later _ h4 h2
  refine ⟨access_none_of_absent _ _ _ g1, access_none_of_absent _ _ _ g2, ?_⟩
  show (refreshToken Auth.genCfg s'.t s'.next old.r s'.now).2.2 = none
  unfold refreshToken
  rw [show tget s'.t old.r = none from g2]

/-- No false refusal: the access secret of a stored record is accepted, for its user, after every
    continuation in which its own refresh secret is not used and its life time has not run out. -/
theorem c11_tokens_valid_accepted (ops later : List TokOp) (a : Nat) (tok : Tok) :
    let s := TState.init.run Auth.genCfg ops
    tget s.t a = some tok → tok.a = a → (∀ op ∈ later, op ≠ .refresh tok.r) →
    let s' := s.run Auth.genCfg later
    s'.now < tok.aexp → accessCheck s'.t a s'.now = (s'.t, some tok.user) := by
  intro s hg ha hops s' hnow
  have hm : TM s.t s.next := TM.run Auth.genCfg ops TState.init TM.nil
  have := valid_survives Auth.genCfg a tok ha later s hm hg hops hnow
  exact access_complete _ _ _ tok this ha (by omega)

/-- what login and refresh store: a record under both of its (new) secrets, alive for the generated
    life times -/
theorem c11_tokens_issue (ops : List TokOp) (u : List Char) :
    let s := TState.init.run Auth.genCfg ops
    let s' := s.step Auth.genCfg (.login u)
    ∃ tok, tget s'.t tok.a = some tok ∧ tget s'.t tok.r = some tok ∧ tok.user = u ∧ tok.a = s.next ∧
      tok.aexp = s.now + 7200 ∧ tok.rexp = s.now + 604800 := by
  intro s s'
  refine ⟨{ user := u, a := s.next, aexp := s.now + 7200, r := s.next + 1, rexp := s.now + 604800 }, ?_, ?_, rfl, rfl, rfl, rfl⟩
  · show tget (newToken Auth.genCfg s.t s.next u s.now).1 s.next = _
    unfold Auth.newToken
    simp only
    rw [tget_tput_ne _ _ _ _ (by omega), tget_tput_self]
    rfl
  · show tget (newToken Auth.genCfg s.t s.next u s.now).1 (s.next + 1) = _
    unfold Auth.newToken
    simp only
    rw [tget_tput_self]
    rfl


/-- **The token table simulates the monitor's grants.**  Run the model's table and the monitor's
    grant list side by side through ANY history of logins, refreshes (any string), access checks
    (any string), sweeps and clock ticks: afterwards `AccessCheck` answers, for every string, exactly
    the user `validAccess` finds among the grants — a token authenticates iff it is the access token of
    a grant that was not refreshed away and has not expired.  This is the token half of `Rel`
    (hypothesis `ht` of `c11_rel_users`) for every reachable state. -/
theorem c11_tokens_simulate_grants (ops : List TokOp) (k : Nat) :
    let p := grun Auth.genCfg TState.init [] ops
    (accessCheck p.1.t k p.1.now).2 = validAccess p.2 p.1.now k := by
  intro p
  have hTTL : Auth.genCfg.accessTTL ≤ Auth.genCfg.refreshTTL := by
    rw [c11_model_flags.2.2.2.2.2.2.2.1, c11_model_flags.2.2.2.2.2.2.2.2.1]; decide
  exact (Sim.run Auth.genCfg hTTL ops TState.init [] Sim.init).access k

/-! ### non-vacuity of the hypotheses used above

A concrete world: alice (pull `/cam/+`), bob (pull `/a/b`, narrowed from `/a/*`), carl deleted,
root administrator; alice, bob and root logged in, bob's first token refreshed away, an hour gone. -/
section
open IpcHub.Auth.Witness

def exHist : List AdminOp :=
  [.save (user "bob" "/a/b" "") false, .del "carl".toList,
   .save { name := "root".toList, password := .plain "pw".toList, admin := true, push := [], pull := [] } true,
   .save (user "carl" "*" "*") true, .save (user "bob" "/a/*" "/pub/*") true, .save (user "alice" "/cam/+" "") true]

def exTokOps : List TokOp :=
  [.login "alice".toList, .login "bob".toList, .tick 600, .refresh 3, .login "root".toList, .tick 3000, .access 2, .sweep]

def exWorld : World :=
  let p := grun Auth.genCfg TState.init [] exTokOps
  { authOn := true, users := usersOf Auth.genCfg exHist, toks := p.1.t, next := p.1.next, now := p.1.now,
    streams := [{ key := "/a/b".toList, segs := [1, 2, 3], owner := none }, { key := "/cam/1".toList, segs := [1, 2, 3], owner := none }] }

def exSWorld : SWorld :=
  let p := grun Auth.genCfg TState.init [] exTokOps
  { authOn := true, hist := exHist, grants := p.2, now := p.1.now }

/-- `Rel` — the hypothesis of every entry-point theorem — holds of this world (by the two halves
    proved for every history: `c11_rel_users` and `c11_tokens_simulate_grants`) -/
theorem c11_example_world_related : Rel Auth.genCfg env exWorld exSWorld :=
  c11_rel_users exWorld exSWorld rfl rfl (fun t => c11_tokens_simulate_grants exTokOps t)

/-- the same world written with the reviewed configuration (for evaluation) -/
def exWorldF : World :=
  let p := grun cfgFixed TState.init [] exTokOps
  { authOn := true, users := usersOf cfgFixed exHist, toks := p.1.t, next := p.1.next, now := p.1.now,
    streams := [{ key := "/a/b".toList, segs := [1, 2, 3], owner := none }, { key := "/cam/1".toList, segs := [1, 2, 3], owner := none }] }

theorem exWorld_eq : exWorld = exWorldF := by
  unfold exWorld exWorldF
  rw [c11_cfg_is_reviewed]

/-- ... and the theorems are not true of it for the trivial reason that everything is refused or
    everything granted (a test on literals, evaluated by `decide`): tokens are 0/1 alice, 2/3 bob
    (refreshed away), 4/5 bob's new pair, 6/7 root.  alice is served `/cam/1` as FLV, playlist and
    segment and refused `/a/b`; bob's superseded token and his refresh token are refused, his new
    token gets `/a/b` but — narrowed — no longer `/a/c`; only root passes the user API; bob's own
    `user_name_in_token: root` header changes nothing. -/
theorem c11_example_outcomes :
    (httpStreamH Auth.genCfg exWorld .get "/streams/cam/1.flv".toList (some 0) []).2 = .serve .flv "/cam/1".toList ∧
    (httpStreamH Auth.genCfg exWorld .get "/streams/cam/1.m3u8".toList (some 0) []).2 = .serve .m3u8 "/cam/1".toList ∧
    (httpStreamH Auth.genCfg exWorld .get "/streams/cam/1/2.ts".toList (some 0) []).2 = .serve .ts "/cam/1".toList ∧
    (httpStreamH Auth.genCfg exWorld .get "/streams/a/b.flv".toList (some 0) []).2 = .forbidden ∧
    (httpStreamH Auth.genCfg exWorld .get "/streams/a/b.flv".toList (some 2) []).2 = .unauthorized ∧
    (httpStreamH Auth.genCfg exWorld .get "/streams/a/b.flv".toList (some 5) []).2 = .unauthorized ∧
    (httpStreamH Auth.genCfg exWorld .get "/streams/a/b.flv".toList (some 4) []).2 = .serve .flv "/a/b".toList ∧
    (httpStreamH Auth.genCfg exWorld .connect "/streams/a/../a/c.flv".toList (some 4) []).2 = .forbidden ∧
    (apiGateH Auth.genCfg exWorld .get true "/api/v1/users".toList (some 6) []).2 = .pass "root".toList ∧
    (apiGateH Auth.genCfg exWorld .get true "/api/v1/users".toList (some 4) ["root".toList]).2 = .forbidden ∧
    (wsUpgradeH Auth.genCfg exWorld "/streams/a/b".toList (some 4) .rtsp ["root".toList]).2
      = .upgraded { path := "/a/b".toList, user := "bob".toList } := by
  rw [exWorld_eq, c11_cfg_is_reviewed]
  decide

/-- non-vacuity of `c11_rtsp_step_ok`: a new plain session in the example world and bob's first
    DESCRIBE (no credentials yet) meet every hypothesis; so does the session after it. -/
example :
    let s := newRtspSess exWorld 7 none
    let rq : RtspReq := { method := .describe, urlPath := "/a/b".toList, cred := none }
    Rel Auth.genCfg env exWorld exSWorld ∧ exSWorld.authOn = true ∧ s.digest = (s.ws.isNone && exWorld.authOn) ∧
      SInv Auth.genCfg s ∧ SessRel s {} ∧ FreshOK s rq ∧
      SInv Auth.genCfg (rtspStep Auth.genCfg exWorld s rq).2.1 := by
  intro s rq
  obtain ⟨i1, i2, i3⟩ := c11_rtsp_plain_session_init exWorld 7
  refine ⟨c11_example_world_related, rfl, i3, i1, i2, ?_, (c11_rtsp_invariants exWorld s {} i1 i2 rq).1⟩
  intro c hc; cases hc

/-- non-vacuity of the WebSocket / WSP session theorems: `/a/b` is its own canonical form, so the
    `_partial` initialisation theorems apply to sessions opened on it. -/
example : canonicalPath Auth.genCfg "/a/b".toList = "/a/b".toList ∧
    WspInv Auth.genCfg exWorld { chan := 0, conn := { path := "/a/b".toList, user := "bob".toList } } := by
  have h : canonicalPath Auth.genCfg "/a/b".toList = "/a/b".toList := by rw [c11_cfg_is_reviewed]; decide
  exact ⟨h, c11_wsp_session_init_partial exWorld 0 _ h⟩

/-- non-vacuity of the token theorems' hypotheses: after the example history, record 4/5 is stored
    under its access secret, unexpired -/
example :
    let st := TState.init.run cfgFixed exTokOps
    ∃ tok, tget st.t 4 = some tok ∧ tok.a = 4 ∧ tok.user = "bob".toList ∧ st.now < tok.aexp := by
  decide

end

/-! ## all histories, all request sequences: the statements with no hypothesis left -/

/-- the model world after ANY administrative history `h` (most recent first) and ANY token history
    `ops` (logins, refreshes and access checks with arbitrary strings, sweeps, clock ticks), with any
    registry content -/
def worldOf (h : List AdminOp) (ops : List TokOp) (authOn : Bool) (streams : List StreamEnt) : World :=
  let p := grun Auth.genCfg TState.init [] ops
  { authOn := authOn, users := usersOf Auth.genCfg h, toks := p.1.t, next := p.1.next, now := p.1.now, streams := streams }

/-- the monitor's state after the same histories: the history itself and the grants it implies -/
def sworldOf (h : List AdminOp) (ops : List TokOp) (authOn : Bool) : SWorld :=
  let p := grun Auth.genCfg TState.init [] ops
  { authOn := authOn, hist := h, grants := p.2, now := p.1.now }

/-- after every pair of histories the model state is related to the monitor's -/
theorem c11_histories_related (h : List AdminOp) (ops : List TokOp) (authOn : Bool) (streams : List StreamEnt) :
    Rel Auth.genCfg env (worldOf h ops authOn streams) (sworldOf h ops authOn) :=
  c11_rel_users _ _ rfl rfl (fun t => c11_tokens_simulate_grants ops t)

/-- **All histories, all HTTP entry points.**  After EVERY history of user creations / updates /
    deletions and EVERY history of logins, refreshes, expiry sweeps and passing time, for every
    registry content, request method, URL path, token string, sub-protocol and client-sent identity
    header: what `/streams/` (FLV, playlist, segment), the WebSocket upgrade and `/api/` do is
    accepted by the reference monitor — media and management only for the user of a live,
    unexpired access token whose rights AS LAST SAVED cover it, and no refusal of such a user. -/
theorem c11_all_histories_http (h : List AdminOp) (ops : List TokOp) (authOn : Bool) (streams : List StreamEnt)
    (m : HMethod) (isGet : Bool) (path : List Char) (tok : TokRef) (sub : WsSub) (hdr : List (List Char)) :
    let w := worldOf h ops authOn streams
    let sw := sworldOf h ops authOn
    judgeHttp env sw path tok (httpStreamH Auth.genCfg w m path tok hdr).2 = .ok ∧
    judgeWs env sw path tok (wsUpgradeH Auth.genCfg w path tok sub hdr).2 = .ok ∧
    judgeApi env sw isGet path tok (apiGateH Auth.genCfg w m isGet path tok hdr).2 = .ok := by
  intro w sw
  have r := c11_histories_related h ops authOn streams
  exact ⟨c11_http_streams_ok w sw r m path tok hdr, c11_ws_upgrade_ok w sw r path tok sub hdr,
         c11_api_ok w sw r m isGet path tok hdr⟩

/-- **Every request sequence on a session** (by induction with `c11_rtsp_step_ok` and
    `c11_rtsp_invariants`; a request changes nothing of the world but the registry).  From a session
    satisfying the invariants, in any related state, EVERY verdict along ANY coherent request
    sequence is `ok`.  (`Coherent`: a request claims a response to "the nonce of the latest
    response" only if a response was shown; users and tokens stay as they are during the sequence —
    changes in between are what the one-step theorem is for.) -/
theorem c11_rtsp_sequence_ok (sw : SWorld) (hon : sw.authOn = true) (reqs : List RtspReq) :
    ∀ (w : World) (s : RtspSess) (ss : SSess), Rel Auth.genCfg env w sw →
      s.digest = (s.ws.isNone && w.authOn) → SInv Auth.genCfg s → SessRel s ss → Coherent Auth.genCfg w s reqs →
      ∀ v ∈ rtspVerdicts Auth.genCfg env sw w s ss reqs, v = .ok := by
  induction reqs with
  | nil => intro w s ss _ _ _ _ _ v hv; cases hv
  | cons rq rest ih =>
    intro w s ss r hd inv rel hcoh v hv
    simp only [rtspVerdicts, List.mem_cons] at hv
    obtain ⟨hf, hrest⟩ := hcoh
    rcases hv with hv | hv
    · rw [hv]; exact c11_rtsp_step_ok w sw r hon s ss hd inv rel rq hf
    · have hk := c11_rtsp_invariants w s ss inv rel rq
      have hsame := rtspStep_same Auth.genCfg w s rq
      refine ih _ _ _ (rel_of_same r hsame) ?_ hk.1 hk.2.1 hrest v hv
      rw [hk.2.2.1, hk.2.2.2, hsame.2.2.2]; exact hd

/-- on a digest session that has shown a nonce every sequence is coherent -/
theorem c11_coherent_of_shown (reqs : List RtspReq) :
    ∀ (w : World) (s : RtspSess) (ss : SSess), s.digest = true → SInv Auth.genCfg s → SessRel s ss →
      s.shown.isSome = true → Coherent Auth.genCfg w s reqs := by
  induction reqs with
  | nil => intro _ _ _ _ _ _ _; trivial
  | cons rq rest ih =>
    intro w s ss hd inv rel hs
    have hk := c11_rtsp_invariants w s ss inv rel rq
    exact ⟨fun _ _ _ => hs, ih _ _ _ (by rw [hk.2.2.1]; exact hd) hk.1 hk.2.1 (rtspStep_shown _ w s rq hd)⟩

/-- **All histories, every request sequence on a new plain RTSP session, no hypothesis left** but
    that the very first request cannot answer a nonce nobody has shown yet: after every
    administrative and token history, with authentication on, any registry, any session id, any
    first request and any continuation — every exchange is judged `ok`. -/
theorem c11_rtsp_every_sequence (h : List AdminOp) (ops : List TokOp) (streams : List StreamEnt) (id : Nat)
    (rq0 : RtspReq) (h0 : ∀ c, rq0.cred = some c → c.fresh = false) (rest : List RtspReq) :
    let w := worldOf h ops true streams
    ∀ v ∈ rtspVerdicts Auth.genCfg env (sworldOf h ops true) w (newRtspSess w id none) {} (rq0 :: rest), v = .ok := by
  intro w
  obtain ⟨i1, i2, i3⟩ := c11_rtsp_plain_session_init w id
  have r := c11_histories_related h ops true streams
  have hk := c11_rtsp_invariants w (newRtspSess w id none) {} i1 i2 rq0
  have hdig : (newRtspSess w id none).digest = true := rfl
  refine c11_rtsp_sequence_ok _ rfl _ w _ _ r i3 i1 i2 ⟨?_, ?_⟩
  · intro c hc hf; rw [h0 c hc] at hf; cases hf
  · exact c11_coherent_of_shown rest _ _ _ (by rw [hk.2.2.1]; exact hdig) hk.1 hk.2.1
      (rtspStep_shown _ w _ rq0 hdig)

/-- FULL STATEMENT: the same for a session opened over WebSocket on any path the mux lets through.
    PROVED (`_partial`): for a WebSocket connection on a path that is its own canonical form (see
    `c11_rtsp_ws_session_init_partial`), and requests that carry no digest claim (a WebSocket session
    never shows a nonce).  The connection label `c` is the one `c11_ws_upgrade_ok` guarantees. -/
theorem c11_rtsp_ws_every_sequence_partial (h : List AdminOp) (ops : List TokOp) (streams : List StreamEnt) (id : Nat)
    (c : WsConn) (hc : canonicalPath Auth.genCfg c.path = c.path) (reqs : List RtspReq)
    (hn : ∀ rq ∈ reqs, ∀ cr, rq.cred = some cr → cr.fresh = false) :
    let w := worldOf h ops true streams
    ∀ v ∈ rtspVerdicts Auth.genCfg env (sworldOf h ops true) w (newRtspSess w id (some c)) { resource := c.path } reqs, v = .ok := by
  intro w
  obtain ⟨i1, i2, i3⟩ := c11_rtsp_ws_session_init_partial w id c hc
  exact c11_rtsp_sequence_ok _ rfl _ w _ _ (c11_histories_related h ops true streams) i3 i1 i2
    (coherent_of_nofresh _ reqs hn w _)

/-- non-vacuity: a four-request sequence (challenge, DESCRIBE, SETUP, PLAY by alice with her saved
    password and the nonce shown) meets the hypothesis of `c11_rtsp_every_sequence`, and in the
    example world it ends with a consumer attached (evaluated with the reviewed configuration). -/
example :
    let cred : Cred := { user := "alice".toList, secret := .plain "pw".toList, fresh := true }
    let q (m : Method) (c : Option Cred) : RtspReq := { method := m, urlPath := "/cam/1".toList, cred := c }
    (∀ c, (q .describe none).cred = some c → c.fresh = false) ∧
    (let s0 := newRtspSess exWorldF 7 none
     let r0 := rtspStep Witness.cfgFixed exWorldF s0 (q .describe none)
     let r1 := rtspStep Witness.cfgFixed r0.1 r0.2.1 (q .describe (some cred))
     let r2 := rtspStep Witness.cfgFixed r1.1 r1.2.1 (q .setup (some cred))
     let r3 := rtspStep Witness.cfgFixed r2.1 r2.2.1 (q .play (some cred))
     r0.2.2.code = 401 ∧ r1.2.2 = { code := 200, eff := .describe "/cam/1".toList } ∧ r2.2.2.code = 200 ∧
     r3.2.2 = { code := 200, eff := .play "/cam/1".toList }) := by
  intro cred q
  refine ⟨fun c hc => (by simp [q] at hc), ?_⟩
  decide

/-! ## secrecy of tokens and nonces -/

/-- **Secrecy.**  In the current source every token and digest nonce is a crypto/rand draw
    (`security.NewSecret`; the six source sites are pinned), and such a draw cannot be computed by an
    attacker who is given ANY set of terms that do not contain it — any number of `Session:`
    headers, channel ids, his own tokens and nonces, in any rendering — using the invertible
    renderings backwards, every public function forwards, and arithmetic on counter values. -/
theorem c11_token_secrecy :
    Auth.genSource = .randomDraw ∧
    ∀ (K : List Ids.Term) (c i : Nat), (∀ k ∈ K, Ids.mentions k (.rnd i) = false) →
      Ids.derivable K (Ids.secretTerm Auth.genSource c i) = false := by
  have e1 : Gen.tokenField_AToken = Expected.tokenField_AToken := rfl
  have e2 : Gen.tokenField_RToken = Expected.tokenField_RToken := rfl
  have e3 : Gen.skel_newSecret = Expected.skel_newSecret := rfl
  have e4 : Gen.securityRandImports = Expected.securityRandImports := rfl
  have e5 : Gen.skel_rtspNewSessionWs = Expected.skel_rtspNewSessionWs := rfl
  have e6 : Gen.skel_rtspCheckAuth = Expected.skel_rtspCheckAuth := rfl
  have hs : Auth.genSource = .randomDraw := by
    simp only [Auth.genSource, e1, e2, e3, e4, e5, e6, decide_true, Bool.and_self, if_true]
  refine ⟨hs, ?_⟩
  intro K c i h
  rw [hs]
  exact Ids.rnd_secret K i h

/-- the reviewed shape of the secret source really is crypto/rand, and the token fields use it -/
theorem c11_secret_source_facts :
    Expected.securityRandImports = ["crypto/rand"] ∧
    Expected.tokenField_AToken = "security.NewSecret()" ∧ Expected.tokenField_RToken = "security.NewSecret()" ∧
    Expected.skel_newSecret = ["call rand.Read(b[:])", "if err != nil {", "}", "call hex.EncodeToString(b[:])",
      "return hex.EncodeToString(b[:])"] :=
  ⟨rfl, rfl, rfl, rfl⟩

/-- Why the source had to change (DESIGN §6 #26, fixed by b89a9e1): with tokens = MD5 of the next
    counter value, ONE `Session:` header (base64 of a counter value) or WSP channel id (decimal)
    makes every token and nonce derivable — for every counter value and every token. -/
theorem c11_token_from_session_id_counterexample (c c' i : Nat) :
    Ids.derivable [.b64 (.ctr c)] (Ids.secretTerm .md5OfCounter c' i) = true ∧
    Ids.derivable [.dec (.ctr c)] (Ids.secretTerm .md5OfCounter c' i) = true :=
  ⟨Ids.md5_counter_derivable _ c _ (Or.inl (List.mem_singleton.mpr rfl)),
   Ids.md5_counter_derivable _ c _ (Or.inr (List.mem_singleton.mpr rfl))⟩


/-! ## proved counter-examples: the behaviour before each `fix:` commit

Each of these is the model with ONE source fact switched back (the configurations of
IpcHub/Lemmas/AuthWitness.lean), on a concrete small world; the monitor's verdict is evaluated by
`decide`.  They show that the hypotheses `c11_model_flags` supplies are needed, and they are the
Lean side of the witnesses replayed on the implementation from corpus/C11/. -/
section
open IpcHub.Auth.Witness

/-- DESIGN §6 #27 (fixed by 3f411ea): with `User.init` appending, bob — narrowed from `/a/*` to `/x/y` —
    still passes the model's permission check for `/a/b`, which the rights as last saved forbid. -/
theorem c11_rights_append_counterexample :
    let h : List AdminOp := [.save (user "bob" "/x/y" "") false, .save (user "bob" "/a/*" "") true]
    (match getUser cfgAppend (usersOf cfgAppend h) "bob".toList with
      | none => false
      | some u => u.validatePermission cfgAppend "/a/b".toList .pull) = true ∧
    allowed Witness.env h "bob".toList .pull "/a/b".toList = false := by
  decide

/-- DESIGN §6 #25 (fixed by f816728): the segment `/streams/cam/1/3.ts` of stream `/cam/1` is served to
    bob, whose right `/cam/1/+` does not cover `/cam/1` (unsound), and refused to alice, whose right
    is exactly `/cam/1` (incomplete). -/
theorem c11_ts_path_counterexample :
    let h : List AdminOp := [.save (user "bob" "/cam/1/+" "") true, .save (user "alice" "/cam/1" "") true]
    let w := world cfgTsRaw h ["bob", "alice"] ["/cam/1", "/cam/1/3"]
    let sw := sworld cfgTsRaw h ["bob", "alice"]
    let p := "/streams/cam/1/3.ts".toList
    (httpStream cfgTsRaw w .get p (some 0)).2 = .serve .ts "/cam/1".toList ∧
    judgeHttp Witness.env sw p (some 0) (httpStream cfgTsRaw w .get p (some 0)).2 = .unsound ∧
    (httpStream cfgTsRaw w .get p (some 2)).2 = .forbidden ∧
    judgeHttp Witness.env sw p (some 2) (httpStream cfgTsRaw w .get p (some 2)).2 = .incomplete := by
  decide

/-- New finding (fixed by 764697a): with the right checked on the raw URL path, a CONNECT request for
    `/streams/x/../a/b.flv` passes bob's right `/x/*` and is served the stream `/a/b`. -/
theorem c11_noncanonical_path_counterexample :
    let h : List AdminOp := [.save (user "bob" "/x/*" "") true]
    let w := world cfgRawPath h ["bob"] ["/a/b"]
    let sw := sworld cfgRawPath h ["bob"]
    let p := "/streams/x/../a/b.flv".toList
    (httpStream cfgRawPath w .connect p (some 0)).2 = .serve .flv "/a/b".toList ∧
    judgeHttp Witness.env sw p (some 0) (httpStream cfgRawPath w .connect p (some 0)).2 = .unsound ∧
    -- a GET of the same URL is redirected by net/http before any handler runs
    (httpStream cfgRawPath w .get p (some 0)).2 = .redirect := by
  decide

/-- DESIGN §6 #24 (fixed by 78415a3): on a WebSocket session opened for `/x/y`, carl (pull `/x/y`, no
    push right at all) ANNOUNCEs `/a/b`, then DESCRIBEs and gets the SDP of `/a/b`; and he RECORDs
    a stream on `/live/evil`. -/
theorem c11_ws_announce_bypass_counterexample :
    let h : List AdminOp := [.save (user "carl" "/x/y" "") true]
    let w := world cfgWsOpen h ["carl"] ["/a/b", "/x/y"]
    let sw := sworld cfgWsOpen h ["carl"]
    let c : WsConn := { path := "/x/y".toList, user := "carl".toList }
    let s0 := newRtspSess w 1000 (some c)
    let ann : RtspReq := { method := .announce, urlPath := "/a/b".toList, cred := none }
    let r1 := rtspStep cfgWsOpen w s0 ann
    let desc : RtspReq := { method := .describe, urlPath := "/whatever".toList, cred := none }
    let r2 := rtspStep cfgWsOpen r1.1 r1.2.1 desc
    r1.2.2.code = 200 ∧ r2.2.2 = { code := 200, eff := .describe "/a/b".toList } ∧
    judgeRtsp Witness.env sw { resource := "/a/b".toList, publishing := true } (some c) desc r2.2.2 = .unsound ∧
    (let ann2 : RtspReq := { method := .announce, urlPath := "/live/evil".toList, cred := none }
     let a1 := rtspStep cfgWsOpen w s0 ann2
     let a2 := rtspStep cfgWsOpen a1.1 a1.2.1
        { method := .setup, urlPath := "/live/evil".toList, cred := none, tr := { spec := some .tcp, modeParam := some .record, bad := false } }
     let rec_ : RtspReq := { method := .record, urlPath := "/live/evil".toList, cred := none }
     let a3 := rtspStep cfgWsOpen a2.1 a2.2.1 rec_
     a3.2.2 = { code := 200, eff := .publish "/live/evil".toList } ∧
     judgeRtsp Witness.env sw { resource := "/live/evil".toList, publishing := true } (some c) rec_ a3.2.2 = .unsound) := by
  decide

/-- New finding (fixed by 7b1536d): after one wrong digest response the 401 shows the old nonce; bob's
    correct response to the nonce he was shown is refused — the monitor calls that incomplete. -/
theorem c11_digest_nonce_lockout_counterexample :
    let h : List AdminOp := [.save (user "bob" "/a/b" "") true]
    let w := world cfgStaleNonce h [] ["/a/b"]
    let sw := sworld cfgStaleNonce h []
    let s0 := newRtspSess w 0 none
    let q (pw : String) (c : Bool) : RtspReq :=
      { method := .describe, urlPath := "/a/b".toList,
        cred := if c then some { user := "bob".toList, secret := .plain pw.toList, fresh := true } else none }
    let r0 := rtspStep cfgStaleNonce w s0 (q "" false)          -- 401, shows the nonce
    let r1 := rtspStep cfgStaleNonce w r0.2.1 (q "wrong" true)  -- 401, nonce replaced, old one shown
    let r2 := rtspStep cfgStaleNonce w r1.2.1 (q "pw" true)     -- the right password, the shown nonce
    r0.2.2.code = 401 ∧ r1.2.2.code = 401 ∧ r2.2.2.code = 401 ∧
    judgeRtsp Witness.env sw { resource := "/a/b".toList } none (q "pw" true) r2.2.2 = .incomplete ∧
    -- with the repaired code the same exchange succeeds
    (let g := cfgFixed
     let t0 := rtspStep g w s0 (q "" false)
     let t1 := rtspStep g w t0.2.1 (q "wrong" true)
     let t2 := rtspStep g w t1.2.1 (q "pw" true)
     t2.2.2 = { code := 200, eff := .describe "/a/b".toList }) := by
  decide

/-- DESIGN §6 #28 (fixed by a213511, 5313f25): carl's data channel (opened for `/x/y`) JOINs alice's
    playing control session for `/a/b` and is accepted; the monitor objects. -/
theorem c11_wsp_join_any_channel_counterexample :
    let h : List AdminOp := [.save (user "carl" "/x/y" "") true, .save (user "alice" "/a/b" "") true]
    let w := world cfgJoinAny h ["alice", "carl"] ["/a/b", "/x/y"]
    let sw := sworld cfgJoinAny h ["alice", "carl"]
    let ctl : WsConn := { path := "/a/b".toList, user := "alice".toList }
    let dc : WsConn := { path := "/x/y".toList, user := "carl".toList }
    let s : WspSess := { chan := 0, conn := ctl, path := "/a/b".toList, hasSdp := true, status := .playing,
                         attached := some "/a/b".toList }
    (wspJoin cfgJoinAny w (some s) dc).1 = 200 ∧
    judgeJoin Witness.env sw (some (ctl, s.attached)) dc (wspJoin cfgJoinAny w (some s) dc).1 = .unsound ∧
    (wspJoin cfgFixed w (some s) dc).1 = 403 := by
  decide

/-- (same commits) a WSP session PLAYs after its user's right was narrowed: before the repair the
    right was only looked at when the WebSocket was opened. -/
theorem c11_wsp_play_after_narrowing_counterexample :
    let h : List AdminOp := [.save (user "alice" "/x/y" "") false, .save (user "alice" "/a/b" "") true]
    let w := world cfgWspNoRecheck h ["alice"] ["/a/b"]
    let sw := sworld cfgWspNoRecheck h ["alice"]
    let ctl : WsConn := { path := "/a/b".toList, user := "alice".toList }
    let s : WspSess := { chan := 0, conn := ctl, path := "/a/b".toList, hasSdp := true, status := .ready }
    (wspStep cfgWspNoRecheck w s .play .video true).2 = { code := 200, eff := .play "/a/b".toList } ∧
    judgeWsp Witness.env sw ctl none (wspStep cfgWspNoRecheck w s .play .video true).2 = .unsound ∧
    (wspStep cfgFixed w s .play .video true).2.code = 403 := by
  decide

/-- Seeded change C11c: with `authInterceptor` APPENDING the verified name (`r.Header.Add`), bob — a
    plain user with a valid token and no rights — sends `user_name_in_token: root` himself: the role
    interceptor lets him through the administrator gate, `/streams/a/b.flv` is served to him, and
    the WebSocket he opens is labelled `root`.  The monitor (identity = user of the token) objects
    to all three; with the reviewed code (`cfgFixed`) the same requests are refused. -/
theorem c11_identity_header_spoof_counterexample :
    let h : List AdminOp := [.save (user "bob" "" "") true,
                             .save { name := "root".toList, password := .plain "pw".toList, admin := true, push := [], pull := [] } true]
    let w := world cfgHeaderAdd h ["bob"] ["/a/b"]
    let sw := sworld cfgHeaderAdd h ["bob"]
    let spoof := ["root".toList]
    let users := "/api/v1/users".toList
    let flv := "/streams/a/b.flv".toList
    (apiGateH cfgHeaderAdd w .get true users (some 0) spoof).2 = .pass "root".toList ∧
    judgeApi Witness.env sw true users (some 0) (.pass "bob".toList) = .unsound ∧
    (httpStreamH cfgHeaderAdd w .get flv (some 0) spoof).2 = .serve .flv "/a/b".toList ∧
    judgeHttp Witness.env sw flv (some 0) (httpStreamH cfgHeaderAdd w .get flv (some 0) spoof).2 = .unsound ∧
    (wsUpgradeH cfgHeaderAdd w flv (some 0) .rtsp spoof).2 = .upgraded { path := "/a/b".toList, user := "root".toList } ∧
    judgeWs Witness.env sw flv (some 0) (wsUpgradeH cfgHeaderAdd w flv (some 0) .rtsp spoof).2 = .unsound ∧
    (apiGateH cfgFixed w .get true users (some 0) spoof).2 = .forbidden ∧
    (httpStreamH cfgFixed w .get flv (some 0) spoof).2 = .forbidden := by
  decide

end

end IpcHub.Props.C11
