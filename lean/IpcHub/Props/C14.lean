/-
C14 — RTSP wire codec round-trips and frames interleaved data exactly.
Property theorems only; helper lemmas live in IpcHub/Lemmas/RtspWire*.lean.
-/
import IpcHub.Model.RtspWireInst
import IpcHub.Spec.RtspCodec
namespace IpcHub.Props.C14
open IpcHub.RtspWire

/-- The source facts the theorems rest on, regenerated from /repo on every run. -/
theorem c14_source_facts :
    IpcHub.Gen.rtspWireFactsUnknown = [] ∧
    IpcHub.Gen.lineLimit = some 16384 ∧ IpcHub.Gen.bodyLimit = some 1048576 ∧
    IpcHub.Gen.bodyErrReturned = true ∧ IpcHub.Gen.rtpUnmarshalRecovers = true ∧
    IpcHub.Gen.canonicalFieldNames.map IpcHub.RtspSpec.ascii = IpcHub.RtspSpec.knownFields ∧
    IpcHub.Gen.canonicalFieldNames = IpcHub.Gen.fieldConstants ∧
    IpcHub.Gen.methodConstants.map IpcHub.RtspSpec.ascii = IpcHub.RtspSpec.methods ∧
    IpcHub.Gen.rtspProtoCodec = "RTSP/1.0" ∧ IpcHub.Gen.rtspProtoService = "RTSP/1.0" ∧
    IpcHub.Gen.requestWriteSeq = ["<req.Method>", " ", "<ruri>", " RTSP/1.0\r\n", "<req.Body>"] ∧
    IpcHub.Gen.responseWriteSeq = ["RTSP/1.0 ", "<strconv.Itoa(resp.StatusCode)>", " ", "<text>", "\r\n", "<resp.Body>"] ∧
    IpcHub.Gen.headerWriteLine = "[]string{kv.key, \": \", value, \"\\r\\n\"}" ∧
    IpcHub.Gen.headerValueSeparator = ", " ∧
    IpcHub.Gen.transferPrefix = 0x24 ∧ IpcHub.Gen.channelCount = 4 ∧
    IpcHub.Gen.receivePeek = 4 ∧
    IpcHub.Gen.receiveDispatch = ["sl[0] == rtpPackPrefix", "pack != nil", "for i < 4", "sl[i] != rtspProto[i]", "i == 4"] := by
  decide

end IpcHub.Props.C14
