/-
C14 — RTSP wire codec round-trips and frames interleaved data exactly.
Property theorems only; helper lemmas live in IpcHub/Lemmas/RtspWire*.lean.

Model: Model/RtspWire.lean (header.go, request.go, response.go, rtp/packet.go, service/rtsp/io.go),
instantiated with the regenerated facts in Model/RtspWireInst.lean (`genCfg`, `genStatusTable`,
`genMethods`).  Specification: Spec/RtspCodec.lean.  `net/url` is the parameter `ops`.
-/
import IpcHub.Lemmas.RtspWireStream
import IpcHub.Lemmas.RtspWirePanic
import IpcHub.Lemmas.RtspWireCanon
import IpcHub.Lemmas.RtspWirePrefix
import IpcHub.Lemmas.WsTransport
import IpcHub.Model.RtspWireInst
namespace IpcHub.Props.C14
open IpcHub.RtspWire
open IpcHub.RtspSpec (fieldNameOK fieldValueOK uriOK decimal guaranteedBody)

local notation "Bytes" => List UInt8

/-- The source facts the theorems rest on, regenerated from /repo on every run: a line limit
    (between 1 KiB and 1 MiB) and a Content-Length limit (between 64 KiB and 16 MiB) with their guards, the body read error being returned, the recovering
    RTP header parse, the field-name / status / method tables, the literals the writers emit,
    and the dispatch of `receive`. -/
theorem c14_source_facts :
    IpcHub.Gen.rtspWireFactsUnknown = [] ∧
    IpcHub.Gen.lineLimit.any (fun ml => decide (1024 ≤ ml ∧ ml ≤ 1048576)) = true ∧
    IpcHub.Gen.bodyLimit.any (fun mb => decide (65536 ≤ mb ∧ mb ≤ 16777216)) = true ∧
    IpcHub.Gen.bodyErrReturned = true ∧ IpcHub.Gen.rtpUnmarshalRecovers = true ∧
    IpcHub.Gen.canonicalFieldNames.map IpcHub.RtspSpec.ascii = IpcHub.RtspSpec.knownFields ∧
    IpcHub.Gen.canonicalFieldNames = IpcHub.Gen.fieldConstants ∧
    IpcHub.Gen.methodConstants.map IpcHub.RtspSpec.ascii = IpcHub.RtspSpec.methods ∧
    IpcHub.Gen.rtspProtoCodec = "RTSP/1.0" ∧ IpcHub.Gen.rtspProtoService = "RTSP/1.0" ∧
    IpcHub.Gen.requestWriteSeq = ["<req.Method>", " ", "<ruri>", " RTSP/1.0\r\n", "<req.Body>"] ∧
    IpcHub.Gen.responseWriteSeq = ["RTSP/1.0 ", "<strconv.Itoa(resp.StatusCode)>", " ", "<text>", "\r\n", "<resp.Body>"] ∧
    IpcHub.Gen.headerWriteLine = "[]string{kv.key, \": \", value, \"\\r\\n\"}" ∧
    IpcHub.Gen.headerValueSeparator = ", " ∧
    IpcHub.Gen.transferPrefix = 0x24 ∧ IpcHub.Gen.channelCount = 4 ∧
    IpcHub.Gen.packetWriteSeq =
      ["if p.Channel >= ChannelCount { return errors.New(\"unknow pack type\") }", "ch := channelConfig[p.Channel]",
       "if ch < 0 || ch > 255 { return nil }", "prefix[0] = TransferPrefix", "prefix[1] = byte(ch)",
       "binary.BigEndian.PutUint16(prefix[2:], uint16(len(p.Data)))",
       "if _, err := w.Write(prefix[:]); err != nil { return err }",
       "if _, err := w.Write(p.Data); err != nil { return err }", "return nil"] ∧
    IpcHub.Gen.receivePeek = 4 ∧
    IpcHub.Gen.receiveDispatch = ["sl[0] == rtpPackPrefix", "pack != nil", "for i < 4", "sl[i] != rtspProto[i]", "i == 4"] := by
  decide

/-- The codec of the current tree as the model sees it: limits on (`genMaxLine`, `genMaxBody`:
    the values in the source, 16384 and 1048576 at the time of writing), errors returned; the
    limits leave room for every body the specification guarantees; the canonical field names are ASCII
    and pairwise different when upper-cased (so the case folding is well defined) and contain
    `Content-Length`; every status text of the table is free of CR/LF with a code of three
    digits, and every method constant is a token of ≥ 4 bytes that starts with neither `$` nor
    "RTSP" (so `receive` dispatches emitted messages correctly). -/
theorem c14_codec_facts :
    genCfg.maxLine = some genMaxLine ∧ genCfg.maxBody = some genMaxBody ∧ genCfg.bodyErrReturned = true ∧
    genCfg.rtpRecover = true ∧ guaranteedBody ≤ genMaxBody ∧
    (∀ f ∈ genCfg.fieldNames, ∀ b ∈ f, b < 0x80) ∧
    (genCfg.fieldNames.map (fun f => f.map upperByte)).Nodup ∧
    fieldContentLength ∈ genCfg.fieldNames ∧
    (∀ p ∈ genStatusTable, 100 ≤ p.1 ∧ p.1 ≤ 999 ∧ (0x0A : UInt8) ∉ p.2 ∧ (0x0D : UInt8) ∉ p.2) ∧
    (∀ m ∈ genMethods, fieldNameOK m = true ∧ m.head? ≠ some 0x24 ∧ m.length ≥ 4 ∧ m.take 4 ≠ rtspProto.take 4) := by
  decide

/-- every canonical field name is a fixed point of the case folding -/
theorem c14_canonical_names_fixed (f : Bytes) (hf : f ∈ genCfg.fieldNames) : canonKey genCfg f = f :=
  canonKey_fold genCfg c14_codec_facts.2.2.2.2.2.2.1 f f hf (c14_codec_facts.2.2.2.2.2.1 f hf) rfl

/-- `c14_request_roundtrip`: for EVERY request the writer can emit — any method token (not
    starting with `$`), any URL that `net/url` prints without blanks and parses back, any header
    map whose written form consists of well-formed field lines (token names; values of TEXT,
    bytes above 0x7F included, that begin and end with a printable non-blank ASCII character)
    with pairwise different canonical names, any body up to the limit — and EVERY continuation `rest` of the stream:
    `ReadRequest` returns the same method, URL, protocol "RTSP/1.0", the header with canonical
    names / joined values / Content-Length set, and the same body, and leaves the stream exactly
    at `rest`. -/
theorem c14_request_roundtrip {U : Type} (ops : UrlOps U)
    (method : Bytes) (url : U) (proto0 : Bytes) (h : Header) (body rest : Bytes)
    (hm : fieldNameOK method = true) (hdollar : method.head? ≠ some 0x24)
    (hu : uriOK (ops.print url) = true) (hparse : ops.parse (ops.print url) = some url)
    (hset : ops.setHost url (ops.host url) = url) (hhost : trimSuffixColon (ops.host url) = ops.host url)
    (hstar : ops.print url = [0x2A] → method = methodOptions)
    (hline : method.length + 1 + (ops.print url).length + 9 ≤ genMaxLine)
    (hh : HeaderOK genCfg h body) (hlen : body.length ≤ genMaxBody) :
    readRequest genCfg ops (writeRequest ops { method, url, proto := proto0, header := h, body } ++ rest) =
      .ok ({ method, url, proto := ascii "RTSP/1.0", header := readBackHeader genCfg h body, body }, rest) := by
  rw [ascii_proto]
  exact readRequest_written genCfg ops genMaxLine genMaxBody c14_codec_facts.1 c14_codec_facts.2.1 (by decide)
    method url proto0 h body rest hm hdollar hu hparse hset hhost hstar hline hh.fields hh.distinct
    (c14_canonical_names_fixed _ c14_codec_facts.2.2.2.2.2.2.2.1) hh.stray hlen

/-- `c14_response_roundtrip`: for EVERY response the writer can emit (status code 100…999, reason
    text — given, from the status table, or "status code N" — free of LF, header and body as
    above) and EVERY continuation: `ReadResponse` returns protocol "RTSP/1.0", the same code,
    the status line text, header and body, and leaves the stream exactly at `rest`. -/
theorem c14_response_roundtrip (code : Nat) (status : Bytes) (h : Header) (body rest : Bytes)
    (hc1 : 100 ≤ code) (hc2 : code ≤ 999)
    (hreason : (0x0A : UInt8) ∉ statusTextOf genStatusTable code status)
    (hline : 13 + (statusTextOf genStatusTable code status).length ≤ genMaxLine)
    (hh : HeaderOK genCfg h body) (hlen : body.length ≤ genMaxBody) :
    readResponse genCfg (writeResponse genStatusTable code status h body ++ rest) =
      .ok ({ proto := ascii "RTSP/1.0", statusCode := code,
             status := decimal code ++ 0x20 :: statusTextOf genStatusTable code status,
             header := readBackHeader genCfg h body, body }, rest) := by
  rw [ascii_proto]
  exact readResponse_written genCfg genMaxLine genMaxBody c14_codec_facts.1 c14_codec_facts.2.1 (by decide)
    genStatusTable code status h body rest hc1 hc2 hreason hline hh.fields hh.distinct
    (c14_canonical_names_fixed _ c14_codec_facts.2.2.2.2.2.2.2.1) hh.stray hlen

/-- `c14_frame_roundtrip`: for EVERY channel table, EVERY channel type `c < 4` whose table entry
    is a channel number 0…255 that maps back to `c`, EVERY payload of 0…65535 bytes (with a
    parsable RTP header on the two media channels) and EVERY continuation: `ReadPacket` reads
    what `Packet.Write` wrote as the same channel type and payload and leaves the stream at `rest`. -/
theorem c14_frame_roundtrip (chans : List Int) (c : Nat) (ch : Int) (data rest : Bytes) (off : Nat)
    (hc : c < 4) (hch : chans[c]? = some ch) (hr : 0 ≤ ch ∧ ch ≤ 255)
    (hfirst : findChannel chans ch 0 = some c) (hlen : data.length ≤ 65535)
    (hrtp : if c = 0 ∨ c = 2 then rtpUnmarshal data = .ok off else off = 0) :
    ∃ w, writePacket chans c data = some w ∧
      readPacket genCfg chans (w ++ rest) = .ok (some ⟨c, data, off⟩, rest) :=
  readPacket_writePacket genCfg chans c ch data rest off hc hch hr hfirst hlen hrtp

/-- `c14_frame_any_payload`: the frame statement WITHOUT the RTP-header hypothesis of
    `c14_frame_roundtrip` — for EVERY payload of 0…65535 bytes on every subscribed channel and
    EVERY continuation: `ReadPacket` consumes exactly the frame `Packet.Write` wrote (the stream
    is left at `rest`) and either delivers it with the same channel type and payload, or — only
    on the two media channels, and only when the payload has no parsable RTP header, which no
    packet the server or the pull client relays has — skips it.  So a frame never desynchronises
    the stream, whatever it carries. -/
theorem c14_frame_any_payload (chans : List Int) (c : Nat) (ch : Int) (data rest : Bytes)
    (hc : c < 4) (hch : chans[c]? = some ch) (hr : 0 ≤ ch ∧ ch ≤ 255)
    (hfirst : findChannel chans ch 0 = some c) (hlen : data.length ≤ 65535) :
    ∃ w o, writePacket chans c data = some w ∧ readPacket genCfg chans (w ++ rest) = .ok (o, rest) ∧
      (∀ p, o = some p → p.channel = c ∧ p.data = data) ∧
      (o = none → (c = 0 ∨ c = 2) ∧ ∀ off, rtpUnmarshal data ≠ .ok off) :=
  readPacket_writePacket_any genCfg c14_codec_facts.2.2.2.1 (by decide) chans c ch data rest hc hch hr hfirst hlen

/-- non-vacuity of `c14_frame_roundtrip` / `c14_frame_any_payload`: channel type 2 on the
    default table carries a minimal RTP packet -/
example : ([0, 1, 2, 3] : List Int)[2]? = some 2 ∧ findChannel [0, 1, 2, 3] 2 0 = some 2 ∧
    (match rtpUnmarshal [0x80, 96, 0, 1, 0, 0, 0, 1, 0, 0, 0, 2, 7] with | .ok off => off == 12 | .error _ => false) = true := by
  decide

/-- `c14_stream`: for EVERY list of emit-able requests, responses and interleaved frames
    (`Item.OK`: the hypotheses of the three theorems above), the read loop of `Session.process`
    / `PullClient` — `receive` until it fails — applied to their concatenation yields exactly
    that sequence of events, each `receive` consuming exactly one item, and then ends with EOF. -/
theorem c14_stream {U : Type} (ops : UrlOps U) (chans : List Int) (items : List (Item U))
    (hok : ∀ it ∈ items, it.OK genCfg ops genStatusTable chans genMaxLine genMaxBody) (fuel : Nat) (hf : fuel > items.length) :
    receiveAll genCfg ops chans fuel ((items.map (fun it => it.wire ops genStatusTable chans)).flatten) =
      (items.map (fun it => it.event genCfg genStatusTable), .eof) :=
  receiveAll_items genCfg ops genStatusTable chans genMaxLine genMaxBody c14_codec_facts.1 c14_codec_facts.2.1 (by decide)
    (c14_canonical_names_fixed _ c14_codec_facts.2.2.2.2.2.2.2.1) items hok fuel hf

/-- one step of `c14_stream`, for an arbitrary continuation (not only further items): one
    `receive` consumes exactly one item and leaves the stream positioned at what follows -/
theorem c14_receive_one {U : Type} (ops : UrlOps U) (chans : List Int) (it : Item U)
    (hok : it.OK genCfg ops genStatusTable chans genMaxLine genMaxBody) (rest : Bytes) :
    receive genCfg ops chans (it.wire ops genStatusTable chans ++ rest) = .ok (it.event genCfg genStatusTable, rest) :=
  receive_item genCfg ops genStatusTable chans genMaxLine genMaxBody c14_codec_facts.1 c14_codec_facts.2.1 (by decide)
    (c14_canonical_names_fixed _ c14_codec_facts.2.2.2.2.2.2.2.1) it hok rest

/-- `c14_chunking` (prefix stability), for EVERY byte string — written by the codec or not: if
    `receive` (or one of the three readers) returned an item for the bytes that had arrived, it
    returns the same item when more bytes follow, and leaves exactly those extra bytes behind in
    addition.  Hence the item a reader delivers, and the position it leaves, depend only on the
    bytes of that item, not on how much more of the stream has already arrived — i.e. not on
    how the stream is cut into read chunks. -/
theorem c14_chunking {U : Type} (ops : UrlOps U) (chans : List Int) (s t : Bytes) :
    (∀ ev r, receive genCfg ops chans s = .ok (ev, r) → receive genCfg ops chans (s ++ t) = .ok (ev, r ++ t)) ∧
    (∀ q r, readRequest genCfg ops s = .ok (q, r) → readRequest genCfg ops (s ++ t) = .ok (q, r ++ t)) ∧
    (∀ q r, readResponse genCfg s = .ok (q, r) → readResponse genCfg (s ++ t) = .ok (q, r ++ t)) ∧
    (∀ o r, readPacket genCfg chans s = .ok (o, r) → readPacket genCfg chans (s ++ t) = .ok (o, r ++ t)) :=
  ⟨fun ev r h => receive_stable genCfg c14_codec_facts.2.2.1 ops chans s ev r h t,
   fun q r h => readRequest_stable genCfg c14_codec_facts.2.2.1 ops s q r h t,
   fun q r h => readResponse_stable genCfg c14_codec_facts.2.2.1 s q r h t,
   fun o r h => readPacket_stable genCfg chans s o r h t⟩

/-- The second kind of connection the receive loop reads from — RTSP over WebSocket
    (network/websocket/websocket.go `(*websocketTransport).Read`, wrapped in `buffered.NewConn`
    by `newSession`): the source facts the transport model rests on, regenerated on every run.
    The current message reader is dropped only where it reported `io.EOF`; `NextReader` is
    called in one place, when there is no current reader; `c.reader` is set in one place, from
    it; one `c.reader.Read(b)` per call. -/
theorem c14_ws_source_facts :
    IpcHub.Gen.wsReaderDroppedOnlyAtEOF = true ∧ IpcHub.Gen.wsNextReaderOnlyWhenNil = true ∧
    IpcHub.Gen.wsReaderSetFromNextReader = true ∧ IpcHub.Gen.wsReadOncePerCall = true ∧
    genWsCfg.dropOnlyAtEOF = true := by
  decide

/-- `c14_ws_transport_lossless`: for EVERY sequence of WebSocket data messages, every way their
    readers hand the payload out in pieces (frame borders of fragmented messages, read-buffer
    borders, segment borders, empty fragments and empty messages) and EVERY sequence of `Read`
    calls with any buffer lengths: the bytes returned so far, followed by the bytes not yet
    returned, are exactly the bytes sent — nothing is lost, duplicated or reordered, at any
    point of the reading. -/
theorem c14_ws_transport_lossless (msgs : List IpcHub.WsTransport.Msg) (caps : List Nat) :
    (IpcHub.WsTransport.drain genWsCfg caps ⟨none, msgs⟩).1 ++
      IpcHub.WsTransport.pending (IpcHub.WsTransport.drain genWsCfg caps ⟨none, msgs⟩).2 =
    (msgs.map List.flatten).flatten := by
  simpa [IpcHub.WsTransport.pending] using
    IpcHub.WsTransport.drain_lossless genWsCfg c14_ws_source_facts.2.2.2.2 caps ⟨none, msgs⟩

/-- `c14_ws_transport_delivers`: a byte stream cut into messages and pieces in ANY way (`plan`:
    per message the lengths of its pieces) and read to the end with buffers of at least one byte
    arrives unchanged. -/
theorem c14_ws_transport_delivers (plan : List (List Nat)) (s : Bytes) (cap : Nat) (hc : 1 ≤ cap) :
    IpcHub.WsTransport.deliver genWsCfg cap (IpcHub.WsTransport.cutMsgs plan s) = s := by
  rw [IpcHub.WsTransport.deliver_eq genWsCfg c14_ws_source_facts.2.2.2.2 cap hc, IpcHub.WsTransport.cutMsgs_flatten]

/-- `c14_ws_stream`: `c14_stream` on the WebSocket transport — for every list of emit-able
    requests, responses and interleaved frames whose concatenation travels as WebSocket messages
    cut at ANY points into ANY pieces, the receive loop over what the transport delivers yields
    exactly that sequence and then ends.  (The model's end of stream is `.eof`; on the real
    transport it is gorilla's close error.) -/
theorem c14_ws_stream {U : Type} (ops : UrlOps U) (chans : List Int) (items : List (Item U))
    (hok : ∀ it ∈ items, it.OK genCfg ops genStatusTable chans genMaxLine genMaxBody) (fuel : Nat) (hf : fuel > items.length)
    (plan : List (List Nat)) (cap : Nat) (hc : 1 ≤ cap) :
    receiveAll genCfg ops chans fuel
      (IpcHub.WsTransport.deliver genWsCfg cap
        (IpcHub.WsTransport.cutMsgs plan ((items.map (fun it => it.wire ops genStatusTable chans)).flatten))) =
      (items.map (fun it => it.event genCfg genStatusTable), .eof) := by
  rw [c14_ws_transport_delivers plan _ cap hc]
  exact c14_stream ops chans items hok fuel hf

/-- Why the reader must be kept until `io.EOF`: a transport that also drops it after a short
    read (fewer bytes than asked for) loses the rest of every message that is not handed out in
    one piece — proved on the model with that flag: of the messages `[1][2]` (two fragments) and
    `[3]`, read with buffers of 4 bytes, the byte 2 never arrives (a test on literals). -/
theorem c14_ws_drop_on_short_read_counterexample :
    IpcHub.WsTransport.deliver { dropOnlyAtEOF := false } 4 [[[1], [2]], [[3]]] = [1, 3] ∧
    IpcHub.WsTransport.deliver genWsCfg 4 [[[1], [2]], [[3]]] = [1, 2, 3] := by
  decide

/-- non-vacuity of the plan: a stream cut into a two-fragment message, an empty message and a
    rest arrives whole -/
example : IpcHub.WsTransport.deliver genWsCfg 2 (IpcHub.WsTransport.cutMsgs [[1, 2], [], [0, 1]] [10, 11, 12, 13, 14]) = [10, 11, 12, 13, 14] := by
  decide

/-- field names are case-insensitive: a name that equals a known field up to ASCII case reads
    back in the canonical spelling, any other ASCII name unchanged -/
theorem c14_field_names_fold (f k : Bytes) (hf : f ∈ genCfg.fieldNames) (hk : ∀ b ∈ k, b < 0x80) :
    (k.map upperByte = f.map upperByte → canonKey genCfg k = f) ∧
    ((∀ g ∈ genCfg.fieldNames, g.map upperByte ≠ k.map upperByte) → canonKey genCfg k = k) :=
  ⟨canonKey_fold genCfg c14_codec_facts.2.2.2.2.2.2.1 f k hf hk, canonKey_other genCfg k hk⟩

/-- `c14_total`: for EVERY byte string, EVERY channel table and EVERY `net/url` behaviour the
    readers and the read loop return a message or an ordinary error — no Go slice or index
    expression of the codec goes out of range, and a panic inside pion's RTP header parser is
    turned into an error. -/
theorem c14_never_panics {U : Type} (ops : UrlOps U) (chans : List Int) (s : Bytes) :
    receive genCfg ops chans s ≠ .error .panic ∧ readRequest genCfg ops s ≠ .error .panic ∧
    readResponse genCfg s ≠ .error .panic ∧ readPacket genCfg chans s ≠ .error .panic ∧
    ∀ fuel, (receiveAll genCfg ops chans fuel s).2 ≠ .panic :=
  ⟨receive_ne_panic genCfg c14_codec_facts.2.2.2.1 ops chans s,
   fun h => readRequest_ne_panic genCfg ops s _ rfl h,
   readResponse_ne_panic genCfg s,
   readPacket_ne_panic genCfg c14_codec_facts.2.2.2.1 chans s,
   fun fuel => receiveAll_ne_panic genCfg c14_codec_facts.2.2.2.1 ops chans fuel s⟩

/-- `c14_bounded` (lines): if the first `genMaxLine + 2` bytes of what a line reader sees hold no LF, the
    request, the response and the header reader fail with the line-limit error WHATEVER follows —
    the verdict needs a bounded prefix only, nothing is buffered beyond it. -/
theorem c14_line_bounded {U : Type} (ops : UrlOps U) (l rest : Bytes) (h : (0x0A : UInt8) ∉ l) (hl : l.length ≥ genMaxLine + 2) :
    readRequest genCfg ops (l ++ rest) = .error .lineTooLong ∧
    readResponse genCfg (l ++ rest) = .error .lineTooLong ∧
    readHeader genCfg (l ++ rest) = .error .lineTooLong := by
  have hr := readLine_too_long genCfg genMaxLine c14_codec_facts.1 l rest h hl
  refine ⟨?_, ?_, ?_⟩
  · unfold readRequest; rw [hr]
  · unfold readResponse; rw [hr]
  · unfold readHeader readHeaderAux; rw [hr]

/-- `c14_bounded` (bodies): a header whose Content-Length is a number above `genMaxBody`, or does not
    fit 64 bits, makes the body reader fail before it looks at — let alone allocates for — a
    single body byte, for EVERY stream behind it. -/
theorem c14_content_length_bounded (h : Header) (s : Bytes)
    (hbig : parseInt (h.get fieldContentLength) 64 = .rangeErr ∨
            ∃ n, parseInt (h.get fieldContentLength) 64 = .ok n ∧ n > genMaxBody) :
    readBody genCfg h s = .error .bodyTooLarge := by
  unfold readBody contentLength
  rw [c14_codec_facts.2.1]
  rcases hbig with hb | ⟨n, hn, hgt⟩
  · simp [hb]
  · simp [hn, hgt]

/-- `c14_bounded` at STREAM level, for EVERY byte string and EVERY `net/url` behaviour: whatever
    the line reader returns is at most `genMaxLine` bytes long, and whatever request or response
    the readers accept carries a body of at most `genMaxBody` bytes — so no input makes the
    codec hold a longer line or a larger body (together with `c14_line_bounded` /
    `c14_content_length_bounded`: the refusal needs only a bounded prefix).  Not covered: the
    NUMBER of header lines of one message is not limited by the code. -/
theorem c14_accepted_is_bounded {U : Type} (ops : UrlOps U) (s : Bytes) :
    (∀ l r, readLine genCfg s = .ok (l, r) → l.length ≤ genMaxLine) ∧
    (∀ q r, readRequest genCfg ops s = .ok (q, r) → q.body.length ≤ genMaxBody) ∧
    (∀ q r, readResponse genCfg s = .ok (q, r) → q.body.length ≤ genMaxBody) :=
  ⟨fun l r h => readLine_le genCfg genMaxLine c14_codec_facts.1 s l r h,
   fun q r h => readRequest_body_le genCfg genMaxBody c14_codec_facts.2.1 c14_codec_facts.2.2.1 ops s q r h,
   fun q r h => readResponse_body_le genCfg genMaxBody c14_codec_facts.2.1 c14_codec_facts.2.2.1 s q r h⟩

/-- the body read error is returned: a stream that ends inside the announced body yields an
    error, never a padded message -/
theorem c14_truncated_body_is_error (h : Header) (s : Bytes) (n : Nat)
    (hcl : contentLength genCfg h = .ok n) (hshort : s.length < n) :
    ∃ e, readBody genCfg h s = .error e := by
  unfold readBody
  rw [hcl]
  cases n with
  | zero => omega
  | succ k =>
    simp only
    have : readFull (k + 1) s = .error (if s.isEmpty then .eof else .unexpectedEOF) := by
      unfold readFull
      have : ¬ (k + 1 ≤ s.length) := by omega
      simp only [this, if_false]
      split <;> simp_all
    rw [this, c14_codec_facts.2.2.1]
    exact ⟨_, rfl⟩

/-- the codec before the fixes (limits off, body error dropped, no recover) -/
def oldCfg : Cfg := { genCfg with maxLine := none, maxBody := none, bodyErrReturned := false, rtpRecover := false }

/-- Why the limits and the returned error matter — the behaviour of the code before the fixes
    (`ee03415`, `e7ebddf`, `a2bb290`), kept as proved counter-examples about the model with the
    old flags: a line of ANY length was accepted; ANY Content-Length below 2^31 was accepted (and
    allocated) — in particular 2^31−1; EVERY stream ending inside the announced body produced a
    complete-looking message padded with zero bytes; an RTP header extension running past the
    packet made `ReadPacket` panic. -/
theorem c14_old_code_counterexamples :
    (∀ n, readLine oldCfg (List.replicate n 0x61 ++ crlf) = .ok (List.replicate n 0x61, [])) ∧
    (∀ n, n < 2 ^ 31 → contentLength oldCfg [(fieldContentLength, [decimal n])] = .ok n) ∧
    (∀ h s n, contentLength oldCfg h = .ok (n + 1) → s.length < n + 1 →
       readBody oldCfg h s = .ok (s ++ List.replicate (n + 1 - s.length) 0, [])) ∧
    resultErr (readPacket oldCfg [0, 1, 2, 3]
      [0x24, 0, 0, 20, 0x90, 96, 0, 1, 0, 0, 0, 1, 0, 0, 0, 2, 0x10, 0x00, 0, 1, 5, 200, 1, 2]) = some .panic := by
  refine ⟨fun n => ?_, fun n hn => ?_, fun h s n hcl hs => readBody_old_pads oldCfg rfl h s n hcl hs, by decide⟩
  · have := readLine_crlf oldCfg (List.replicate n 0x61) [] (by simp) (by intro m hm; simp [oldCfg] at hm)
    simpa using this
  · have hp := parseInt_decimal n 32 (by simpa using hn) (by omega)
    simp [contentLength, oldCfg, Header.int, Header.get, hp]
    omega

/-- the same frame on the current tree: no panic; the frame is consumed and skipped, the stream
    stays in step (a test on a literal) -/
theorem c14_fixed_example :
    resultVal (readPacket genCfg [0, 1, 2, 3]
      [0x24, 0, 0, 20, 0x90, 96, 0, 1, 0, 0, 0, 1, 0, 0, 0, 2, 0x10, 0x00, 0, 1, 5, 200, 1, 2, 0x24]) = some (none, [0x24]) := by
  decide

/-- the value grammar of the round-trip theorems (`HeaderOK` → `fieldValueOK`) is TEXT: bytes
    above 0x7F are allowed inside a value (here UTF-8 `é`), its first and last character are
    printable ASCII other than blank -/
example : fieldValueOK (IpcHub.RtspSpec.ascii "cam\u00e9ra 1") = true ∧ fieldValueOK (IpcHub.RtspSpec.ascii "caf\u00e9") = false ∧
    fieldValueOK (IpcHub.RtspSpec.ascii " x") = false := by decide

/-- non-vacuity: an ordinary header satisfies `HeaderOK` (the other hypotheses of the round-trip
    theorems are plain size bounds and `net/url` laws) -/
example : HeaderOK genCfg [(ascii "CSeq", [ascii "2"])] [] := by
  have hw : writtenFields [(ascii "CSeq", [ascii "2"])] [] = [(ascii "CSeq", ascii "2")] := by decide
  refine ⟨?_, ?_, ?_⟩
  · rw [hw]; intro f hf
    simp only [List.mem_singleton] at hf; subst hf
    refine ⟨by decide, by decide, ?_⟩
    intro m hm; rw [c14_codec_facts.1] at hm; cases hm; decide
  · rw [hw]; simp
  · intro _ f hf
    rw [hw] at hf; simp only [List.mem_singleton] at hf; subst hf
    rw [c14_canonical_names_fixed _ (by decide)]; decide

end IpcHub.Props.C14
