/-
C12 — RTSP sessions answer every request once and follow the legal method order.
Property theorems only; the model is IpcHub/Model/RtspSession.lean (+ RtspTransport),
the specification IpcHub/Spec/RtspAutomaton.lean, helper lemmas IpcHub/Lemmas/RtspSession*.lean.
-/
import IpcHub.Lemmas.RtspSession
import IpcHub.Lemmas.RtspOrder
import IpcHub.Lemmas.RtspEffects
import IpcHub.Lemmas.WspSim
namespace IpcHub.Props.C12
open IpcHub.Rtsp IpcHub.RtspSpec

/-- The source facts the theorems rest on, regenerated from /repo on every run:
    the status constants in their order, the `onPreprocess` gate tables of both session kinds
    (equal to the reference gates), what precedes the gate (OPTIONS answered, TEARDOWN answered
    and then closed), the `onRequest` dispatch (PLAY answers by itself, everything else is
    answered after the switch, unknown methods get 455), the two `onPlay` guards, the
    response-before-attach order of the consumer roles, the deferred cleanup, the method
    tokens and the status codes. -/
theorem c12_source_facts :
    IpcHub.Gen.rtspFactsUnknown = [] ∧
    cfgOk genCfg = true ∧
    gateEq genWspGate refWspGate = true ∧
    IpcHub.Gen.rtspStatusOrder = ["statusInit", "statusReady", "statusPlaying", "statusRecording"] ∧
    IpcHub.Gen.wspStatusOrder = ["statusInit", "statusReady", "statusPlaying"] ∧
    IpcHub.Gen.rtspPre = [("MethodOptions", ["s.response"]), ("MethodTeardown", ["s.response", "s.Close"])] ∧
    IpcHub.Gen.wspPre = [("MethodOptions", []), ("MethodTeardown", [])] ∧
    IpcHub.Gen.rtspGateRefusal = "StatusMethodNotValidInThisState" ∧
    IpcHub.Gen.wspGateRefusal = "StatusMethodNotValidInThisState" ∧
    IpcHub.Gen.rtspDispatch = [("MethodDescribe", "s.onDescribe", false), ("MethodAnnounce", "s.onAnnounce", false),
      ("MethodSetup", "s.onSetup", false), ("MethodRecord", "s.onRecord", false), ("MethodPlay", "s.onPlay", true)] ∧
    IpcHub.Gen.rtspDispatchDefault = "StatusMethodNotValidInThisState" ∧
    IpcHub.Gen.rtspRequestRespondsAfterSwitch = true ∧
    IpcHub.Gen.wspDispatch = [("MethodDescribe", "s.onDescribe", false), ("MethodSetup", "s.onSetup", false),
      ("MethodPlay", "s.onPlay", false), ("MethodPause", "s.onPause", false)] ∧
    IpcHub.Gen.wspDispatchDefault = "StatusMethodNotValidInThisState" ∧
    IpcHub.Gen.asTCPConsumerCalls = ["s.response", "stream.StartConsume"] ∧
    IpcHub.Gen.asUDPConsumerCalls = ["c.prepareUDP", "s.response", "s.response", "stream.StartConsume"] ∧
    IpcHub.Gen.asMulticastConsumerCalls = ["s.response", "s.response", "ma.AddMember"] ∧
    IpcHub.Gen.asTCPPusherCalls = ["media.Regist"] ∧
    IpcHub.Gen.processCleanup = ["s.Close", "s.consumer.Close", "s.stream.Close"] ∧
    IpcHub.Gen.wspProcessCleanup = ["s.svr.sessions.Delete", "s.source.StopConsume", "s.Close"] ∧
    IpcHub.Gen.tcpConsumerCloseCalls = ["c.source.StopConsume"] ∧
    IpcHub.Gen.udpConsumerCloseCalls = ["c.source.StopConsume"] ∧
    IpcHub.Gen.multicastConsumerCloseCalls = ["c.source.Multicastable().ReleaseMember"] ∧
    IpcHub.Gen.tcpPushStreamCloseCalls = ["media.Unregist"] ∧
    IpcHub.Gen.methodTokens = [("MethodOptions", "OPTIONS"), ("MethodDescribe", "DESCRIBE"), ("MethodAnnounce", "ANNOUNCE"),
      ("MethodSetup", "SETUP"), ("MethodPlay", "PLAY"), ("MethodPause", "PAUSE"), ("MethodTeardown", "TEARDOWN"),
      ("MethodGetParameter", "GET_PARAMETER"), ("MethodSetParameter", "SET_PARAMETER"), ("MethodRecord", "RECORD"),
      ("MethodRedirect", "REDIRECT")] ∧
    IpcHub.Gen.wspConsts = [("wspProto", "WSP/1.1"), ("prefixBody", "\r\n\r\n"), ("CmdInit", "INIT"), ("CmdJoin", "JOIN"),
      ("CmdWrap", "WRAP"), ("CmdGetInfo", "GET_INFO"), ("CmdSwitch", "SWITCH"), ("FieldSeq", "seq"), ("FieldChannel", "channel")] ∧
    IpcHub.Gen.statusCodes = [("StatusOK", 200), ("StatusBadRequest", 400), ("StatusForbidden", 403), ("StatusNotFound", 404),
      ("StatusInvalidParameter", 451), ("StatusMethodNotValidInThisState", 455), ("StatusUnsupportedTransport", 461),
      ("StatusInternalServerError", 500)] := by
  decide

/-- More source facts: `newResponse` (the only constructor of responses, called once per request)
    copies the request's CSeq and sets the Session header to the id assigned in `newSession`, and
    nothing else in the session files touches either header or the id; `onPack` hands an interleaved
    packet of the client to the stream only while recording and drops it otherwise. -/
theorem c12_source_responses :
    IpcHub.Gen.onPackGuard = "s.status != statusRecording => return nil" ∧
    IpcHub.Gen.onPackCalls = ["s.stream.WritePacket"] ∧
    IpcHub.Gen.rtspNewResponseSets = [("FieldCSeq", "req.Header.Get(FieldCSeq)"), ("FieldSession", "s.lsession")] ∧
    IpcHub.Gen.wspNewResponseSets = [("FieldCSeq", "req.Header.Get(FieldCSeq)"), ("FieldSession", "s.lsession")] ∧
    IpcHub.Gen.respIdentityTouched = [] ∧
    IpcHub.Gen.newResponseCalls = [("rtsp:onRequest", 1), ("wsp:onRequest", 1)] ∧
    genWspSid = true := by
  decide

/-- What a role acquires and what its `Close` hands back, whole calls with their arguments: the
    interleaved and the UDP player keep the consumer id `StartConsume` returned in `c.cid` and stop
    exactly that id; the multicast player registers the `*Session` `s` with the source's multicast
    proxy and releases `c.Session` — the same value, the role object is built with `Session: s` — not
    the role object itself (the proxy finds a member by comparing the interface values); the pusher
    registers the stream it stores and unregisters the stored one.  The proxy keeps the first member,
    starts socket and consumer with it, removes the member equal to the released value and stops
    (consumer, socket, remaining members) when none is left.  The model's `releaseConsumer` /
    `releaseStream` effects (`c12_teardown_releases`) stand for exactly these pairs. -/
theorem c12_source_release_handles :
    IpcHub.Gen.roleHandles =
      [("tcp", ["c.cid = stream.StartConsume(s, media.RTPPacket, \"net=rtsp-tcp\")"], ["c.source.StopConsume(c.cid)"]),
       ("udp", ["c.cid = stream.StartConsume(s, media.RTPPacket, \"net=rtsp-udp\")"], ["c.source.StopConsume(c.cid)"]),
       ("multicast", ["ma.AddMember(s)"], ["c.source.Multicastable().ReleaseMember(c.Session)"]),
       ("pusher", ["media.Regist(pusher.stream)"], ["media.Unregist(s.stream)"])] ∧
    IpcHub.Gen.roleLiterals =
      ["asTCPConsumer: tcpConsumer{ Session: s, source: stream, }", "asUDPConsumer: udpConsumer{ Session: s, source: stream, }",
       "asMulticastConsumer: multicastConsumer{ Session: s, source: stream, }", "asTCPPusher: tcpPushStream{}"] ∧
    IpcHub.Gen.proxyAddConds = ["len(proxy.members) == 0", "stream == nil", "err != nil", "port > 0"] ∧
    IpcHub.Gen.proxyReleaseConds = ["m == m2", "len(proxy.members) == 0"] ∧
    IpcHub.Gen.proxyAddCalls = ["net.ListenUDP", "append", "stream.StartConsume"] ∧
    IpcHub.Gen.proxyReleaseCalls = ["append", "proxy.close"] ∧
    IpcHub.Gen.proxyCloseCalls = ["stream.StopConsume", "proxy.udpConn.Close", "m.Close"] := by
  decide

/-- The member registry of the multicast proxy (multicast_proxy.go `AddMember` / `ReleaseMember`,
    members as opaque handles): releasing the handle that was added stops the proxy; releasing ANY
    other handle — the role object instead of the session — leaves the member, and with it socket
    and consumer, in place. -/
theorem c12_proxy_release (m : Nat) :
    ((McProxy.idle.add m).release m) = McProxy.idle ∧
    ∀ m', m' ≠ m → ((McProxy.idle.add m).release m').running = true ∧ ((McProxy.idle.add m).release m').members = [m] := by
  refine ⟨by simp [McProxy.idle, McProxy.add, McProxy.release], fun m' h => ?_⟩
  have : ([m].erase m') = [m] := by
    simp [List.erase_cons, h.symm]
  simp [McProxy.idle, McProxy.add, McProxy.release, this]

/-- The refusal ladders of the handlers (condition, status constant, how the rung ends: the `return`
    that leaves the handler, or "else" when the accepting branch is skipped) in source order: the
    model's handlers mirror exactly these; a rung that no longer leaves the handler breaks this. -/
theorem c12_source_ladders :
    IpcHub.Gen.onPlayLadder = [("s.mode != PlaySession || s.transport.Type == RTPUnknownTrans", "StatusMethodNotValidInThisState", "return s.response(resp)"), ("stream == nil", "StatusNotFound", "return s.response(resp)"), ("!s.checkPermission(auth.PullRight)", "StatusForbidden", "return s.response(resp)")] ∧
    IpcHub.Gen.onRecordLadder = [("s.mode != RecordSession || s.transport.Type != RTPTCPUnicast", "StatusMethodNotValidInThisState", "return"), ("!s.checkPermission(auth.PushRight)", "StatusForbidden", "return")] ∧
    IpcHub.Gen.onDescribeLadder = [("stream == nil", "StatusNotFound", "return"), ("!s.checkPermission(auth.PullRight)", "StatusForbidden", "return"), ("len(sdpRaw) == 0", "StatusNotFound", "return"), ("err != nil", "StatusNotFound", "return")] ∧
    IpcHub.Gen.onAnnounceLadder = [("req.Header.Get(FieldContentType) != \"application/sdp\"", "StatusBadRequest", "return"), ("!s.checkPermission(auth.PushRight)", "StatusForbidden", "return"), ("err != nil", "StatusBadRequest", "return")] ∧
    IpcHub.Gen.onSetupLadder = [("err != nil", "StatusInternalServerError", "return"), ("err != nil", "StatusInternalServerError", "return"), ("err != nil", "StatusInvalidParameter", "return"), ("s.mode != s.transport.Mode", "StatusInvalidParameter", "return"), ("!s.checkPermission(auth.PushRight)", "StatusForbidden", "return"), ("s.transport.Type != RTPTCPUnicast", "StatusUnsupportedTransport", "else"), ("!s.checkPermission(auth.PullRight)", "StatusForbidden", "return"), ("st == nil", "StatusNotFound", "return"), ("ma == nil", "StatusUnsupportedTransport", "return")] ∧
    IpcHub.Gen.wspOnSetupLadder = [("vPath == \"\"", "StatusInternalServerError", "return"), ("err != nil", "StatusInvalidParameter", "return"), ("rtsp.PlaySession != s.transport.Mode", "StatusInvalidParameter", "return"), ("s.transport.Type != rtsp.RTPTCPUnicast", "StatusUnsupportedTransport", "return")] ∧
    IpcHub.Gen.wspOnPlayLadder = [("stream == nil", "StatusNotFound", "return"), ("!s.checkPermission()", "StatusForbidden", "return")] ∧
    IpcHub.Gen.wspOnDescribeLadder = [("stream == nil", "StatusNotFound", "return"), ("!s.checkPermission()", "StatusForbidden", "return"), ("len(sdpRaw) == 0", "StatusNotFound", "return"), ("err != nil", "StatusNotFound", "return")] := by
  decide

/-- Exactly one response per request, echoing its CSeq: for EVERY state of an open session,
    every request and every environment (registry, SDP parser, permissions, sockets), the
    session of the current source tree writes exactly one response and it carries the request's
    CSeq.  (The Session id: `c12_source_facts` pins `newResponse`; `cfgOk genCfg` includes it and
    `c12_model_accepted` carries it through the reference automaton's `session-id-missing` clause.) -/
theorem c12_one_response (s : Sess) (r : Req) (e : Env) (h : s.closed = false) :
    ∃ x, respsOf (step genCfg s r e).2 = [x] ∧ x.cseq = r.cseq :=
  step_one_response genCfg (cfgOk_spec c12_source_facts.2.1).1 s r e h

/-- A request answered with 455 changes nothing — for every configuration, state, request and
    environment: the whole session state after the request equals the state before. -/
theorem c12_455_inert (cfg : Cfg) (s : Sess) (r : Req) (e : Env) (x : Resp)
    (hx : x ∈ respsOf (step cfg s r e).2) (h : x.code = 455) : (step cfg s r e).1 = s :=
  step_455_inert cfg s r e x hx h

/-- The main theorem: EVERY dialogue of the model — any number of requests of any method with any
    URL, Transport header, body, in any environment (registry contents, SDP parser results,
    permission decisions, socket failures chosen adversarially per request), and hang-ups anywhere —
    on plain RTSP and on ws-rtsp, is accepted by the reference automaton of the statement
    (Spec/RtspAutomaton.lean): exactly one response per request with the CSeq echoed, the connection
    usable after every request but TEARDOWN, a method that is not legal in the current phase refused
    with 455, a 455 inert, DESCRIBE/ANNOUNCE/SETUP (and PLAY; PAUSE on WSP) never refused with 455 where
    they are legal, success only along DESCRIBE → SETUP → PLAY and ANNOUNCE → SETUP → RECORD (a SETUP whose
    `mode` parameter contradicts the direction is never accepted), a consumer attached exactly
    while playing, a stream published exactly while recording, refusals inert, TEARDOWN and
    disconnect release everything, every response carries the session id, and media precedes the
    response to a request only on a session that was already playing when the request was made
    (`media-before-play`).  The only hypothesis: the SETUP path the URL library delivers is not the
    empty string. -/
theorem c12_model_accepted (ws : Bool) (wsPath : List Char) (ins : List Input) (hwf : ∀ i ∈ ins, i.wf) :
    accepts .rtsp (trace genCfg (Sess.init ws wsPath) ins) = true := by
  have h := (trace_mrun genCfg c12_source_facts.2.1 ins (Sess.init ws wsPath) (sinv_init ws wsPath) hwf).1
  have h0 : mstateOf (Sess.init ws wsPath) = MState.init := by
    cases ws <;> rfl
  rw [h0] at h
  simp [accepts, h]

/-- Playing can only be reached through DESCRIBE then SETUP then PLAY: whenever the session is in
    the playing state after a dialogue, the observed history contains a successful DESCRIBE, a later
    successful SETUP and a later successful PLAY.  Likewise recording: ANNOUNCE, SETUP, RECORD. -/
theorem c12_order (ws : Bool) (wsPath : List Char) (ins : List Input) (hwf : ∀ i ∈ ins, i.wf) :
    let s := final genCfg (Sess.init ws wsPath) ins
    let hist := history (trace genCfg (Sess.init ws wsPath) ins)
    (s.closed = false → s.status = .playing →
      [(Method.describe, 200), (Method.setup, 200), (Method.play, 200)].Sublist hist) ∧
    (s.closed = false → s.status = .recording →
      [(Method.announce, 200), (Method.setup, 200), (Method.record, 200)].Sublist hist) := by
  intro s hist
  have h := (trace_mrun genCfg c12_source_facts.2.1 ins (Sess.init ws wsPath) (sinv_init ws wsPath) hwf).1
  have hn := mrun_need .rtsp _ _ _ [] h (by cases ws <;> simp [mstateOf, absPhase, Sess.init, need])
  simp only [List.nil_append] at hn
  constructor
  · intro hc hs
    have : (mstateOf s).phase = .playing := by simp [mstateOf, absPhase, hc, hs]
    rw [show final genCfg (Sess.init ws wsPath) ins = s from rfl, this] at hn
    exact hn
  · intro hc hs
    have : (mstateOf s).phase = .recording := by simp [mstateOf, absPhase, hc, hs]
    rw [show final genCfg (Sess.init ws wsPath) ins = s from rfl, this] at hn
    exact hn

/-- No media before a successful PLAY, no stream before a successful RECORD, as a state invariant
    of every reachable state: a consumer is held only in the playing state, a published stream only in
    the recording state, and nothing is held once the connection is closed. -/
theorem c12_resources_follow_state (ws : Bool) (wsPath : List Char) (ins : List Input) (hwf : ∀ i ∈ ins, i.wf) :
    let s := final genCfg (Sess.init ws wsPath) ins
    (s.role ≠ .none → s.closed = false ∧ s.status = .playing) ∧
    (s.pusher = true → s.closed = false ∧ s.status = .recording) := by
  intro s
  have hi := (trace_mrun genCfg c12_source_facts.2.1 ins (Sess.init ws wsPath) (sinv_init ws wsPath) hwf).2
  have hi : SInv s := hi
  constructor
  · intro hr
    cases hc : s.closed with
    | true => exact absurd (hi.closedClean hc).1 hr
    | false =>
      refine ⟨rfl, ?_⟩
      cases hs : s.status with
      | init => exact absurd (hi.initClean hc hs).1 hr
      | ready => exact absurd (hi.ready hc hs).1 hr
      | playing => rfl
      | recording => exact absurd (hi.recording hc hs).1 hr
  · intro hp
    cases hc : s.closed with
    | true => rw [(hi.closedClean hc).2] at hp; cases hp
    | false =>
      refine ⟨rfl, ?_⟩
      cases hs : s.status with
      | init => rw [(hi.initClean hc hs).2] at hp; cases hp
      | ready => rw [(hi.ready hc hs).2.1] at hp; cases hp
      | playing => rw [(hi.playing hc hs).2] at hp; cases hp
      | recording => rfl

/-- Where things happen: for every configuration, state, request and environment, a consumer is
    attached (StartConsume / AddMember) only by a PLAY whose response is 200, and only AFTER that
    response has been written (so no media precedes the PLAY response on the connection); a stream
    is registered only by a RECORD that is answered 200; every other effect belongs to TEARDOWN. -/
theorem c12_effects (cfg : Cfg) (s : Sess) (r : Req) (e : Env) (eff : Effect) (h : Ev.eff eff ∈ (step cfg s r e).2) :
    (r.method = .play ∧ (eff = .attachTcp ∨ eff = .attachUdp ∨ eff = .attachMc) ∧
      ∃ x, (step cfg s r e).2 = [.resp x, .eff eff] ∧ x.code = 200) ∨
    (r.method = .record ∧ eff = .register ∧ ∃ x, (step cfg s r e).2 = [.eff eff, .resp x] ∧ x.code = 200) ∨
    (r.method = .teardown ∧ (eff = .closeConn ∨ eff = .releaseConsumer ∨ eff = .releaseStream)) :=
  step_effs cfg s r e eff h

/-- TEARDOWN or disconnect releases whatever the session held: in every state, after a TEARDOWN
    request or a hang-up the session is closed, holds no consumer and no published stream, and the
    events contain the release of each resource that was held. -/
theorem c12_teardown_releases (s : Sess) (i : Input) (hopen : s.closed = false)
    (hi : i = .hangup ∨ ∃ r e, i = .req r e ∧ r.method = .teardown) :
    let out := stepInput genCfg s i
    out.1.closed = true ∧ out.1.role = .none ∧ out.1.pusher = false ∧
    (s.role ≠ .none → Effect.releaseConsumer ∈ effsOf out.2) ∧
    (s.pusher = true → Effect.releaseStream ∈ effsOf out.2) ∧
    Effect.closeConn ∈ effsOf out.2 := by
  have key : ∀ evs : List Ev, evs = (finish s).2 ∨ (∃ x, evs = .resp x :: (finish s).2) →
      (s.role ≠ .none → Effect.releaseConsumer ∈ effsOf evs) ∧
      (s.pusher = true → Effect.releaseStream ∈ effsOf evs) ∧ Effect.closeConn ∈ effsOf evs := by
    intro evs h
    rcases h with h | ⟨x, h⟩ <;> subst h
    · refine ⟨fun hr => ?_, fun hp => ?_, ?_⟩
      · simp [finish, effsOf, hr]
      · simp [finish, effsOf, hp]
      · simp [finish, effsOf]
    · refine ⟨fun hr => ?_, fun hp => ?_, ?_⟩
      · simp [finish, effsOf, hr]
      · simp [finish, effsOf, hp]
      · simp [finish, effsOf]
  rcases hi with hi | ⟨r, e, hi, hm⟩
  · subst hi
    have : stepInput genCfg s .hangup = finish s := by simp [stepInput, disconnect, hopen]
    simp only [this]
    exact ⟨rfl, rfl, rfl, key _ (Or.inl rfl)⟩
  · subst hi
    have : stepInput genCfg s (.req r e) = ((finish s).1, .resp (mkResp r) :: (finish s).2) := by
      simp [stepInput, step, hopen, hm]
    simp only [this]
    exact ⟨rfl, rfl, rfl, key _ (Or.inr ⟨_, rfl⟩)⟩

/-- The same for the WSP control channel (service/wsp/session.go), with its own gate table as
    regenerated from the source: EVERY dialogue of WRAPped requests and hang-ups is accepted by the
    reference automaton in its WSP flavour (play only: ANNOUNCE / RECORD always 455; PAUSE legal only
    while playing and refused with 455 before; one response per request; consumer attached exactly
    while playing; TEARDOWN and disconnect release it). -/
theorem c12_wsp_accepted (wsPath : List Char) (ins : List Input) :
    accepts .wsp (wtrace genWspGate genWspSid (WSess.init wsPath) ins) = true := by
  have hsid : genWspSid = true := by decide
  rw [hsid]
  have h := wtrace_mrun genWspGate c12_source_facts.2.2.1 ins (WSess.init wsPath) (winv_init wsPath)
  have h0 : wmstateOf (WSess.init wsPath) = MState.init := rfl
  rw [h0] at h
  simp [accepts, h]

/-- A refused request changes nothing that any later request can tell: in every reachable state, a
    request (other than TEARDOWN) whose response is not 200 leaves the session exactly where the
    reference automaton had it — same phase of the legal order, same consumer, same published stream,
    connection open.  (Together with `c12_model_accepted` from that state: whatever follows a refusal is
    judged as if the refused request had never been sent.) -/
theorem c12_refused_inert (s : Sess) (r : Req) (e : Env) (hinv : SInv s) (hwf : r.setupPath ≠ [])
    (hopen : s.closed = false) (hm : r.method ≠ .teardown)
    (hx : ∀ x ∈ respsOf (step genCfg s r e).2, x.code ≠ 200) :
    mstateOf (step genCfg s r e).1 = mstateOf s := by
  obtain ⟨_, hs⟩ := step_sim genCfg c12_source_facts.2.1 s r e hinv hwf
  obtain ⟨x, hx1, _⟩ := c12_one_response s r e hopen
  have hcode := hx x (by rw [hx1]; simp)
  rcases mstep_ok _ _ _ _ hs with h | h | ⟨_, h200, _⟩
  · exact h
  · exfalso
    have hcl := mstep_open _ _ _ _ hs (absPhase_open s hopen) (by simp [obsOf]) (by simpa [obsOf] using hm)
    have : (step genCfg s r e).1.closed = false := by simpa [obsOf] using hcl
    exact absPhase_open _ this h
  · exfalso
    simp only [obsOf, hx1] at h200
    exact hcode h200

/-- non-vacuity of `c12_refused_inert`: on a described session an ANNOUNCE with an unparsable SDP is
    refused with 400 (test on literals) -/
example :
    let env : Env := { lookup := fun _ => some { sdp := 1, mc := none },
                       sdp := fun n => if n == 1 then { ok := true, medias := [(.video, "t=1".toList)] } else { ok := false, medias := [] },
                       urlNorm := fun _ => none, permPull := true, permPush := true, udpOk := true }
    let rq (m : Method) (ct : Bool) (body : Nat) : Req :=
      { method := m, cseq := [], path := "/a".toList, setupPath := "rtsp://h:554/a".toList, transport := [],
        ctypeSdp := ct, range := [], body := body }
    let s := (step genCfg (Sess.init false []) (rq .describe false 0) env).1
    (respsOf (step genCfg s (rq .announce true 2) env).2).map (·.code) = [400] ∧ s.mode = .play ∧
      (step genCfg s (rq .announce true 2) env).1.mode = .play := by
  decide

/-- Playing on the WSP control channel, too, is reached only through DESCRIBE, then SETUP, then PLAY,
    each answered 200 (there is no recording there). -/
theorem c12_wsp_order (wsPath : List Char) (ins : List Input) :
    let s := wfinal genWspGate (WSess.init wsPath) ins
    let hist := history (wtrace genWspGate genWspSid (WSess.init wsPath) ins)
    s.closed = false → s.status = .playing →
      [(Method.describe, 200), (Method.setup, 200), (Method.play, 200)].Sublist hist := by
  intro s hist hc hs
  have hsid : genWspSid = true := by decide
  have h := wtrace_mrun genWspGate c12_source_facts.2.2.1 ins (WSess.init wsPath) (winv_init wsPath)
  have hn := mrun_need .wsp _ _ _ [] h (by simp [wmstateOf, wabsPhase, WSess.init, need])
  simp only [List.nil_append] at hn
  have : (wmstateOf s).phase = .playing := by simp [wmstateOf, wabsPhase, hc, hs]
  rw [show wfinal genWspGate (WSess.init wsPath) ins = s from rfl, this] at hn
  show List.Sublist _ (history (wtrace genWspGate genWspSid (WSess.init wsPath) ins))
  rw [hsid]
  exact hn

/-- The defect that was fixed on the WSP channel: with the old gate (PAUSE admitted in the initial
    state) a PAUSE before any PLAY is answered 200, which the reference automaton rejects. -/
theorem c12_wsp_pause_witness :
    let oldGate : Status → Method → Bool := fun st m =>
      match st with
      | .ready => m == .setup || m == .play
      | .playing => m == .play || m == .pause
      | _ => !(m == .play || m == .record)
    ∀ (e : Env), verdict .wsp (wtrace oldGate true (WSess.init []) [.req { (default : Req) with method := .pause } e])
      = "illegal-method-not-455" := by
  intro oldGate e
  rfl

/-- The other defect that was fixed: with the old `onPlay` tail (`status = playing` whenever the role
    function returned nil) a PLAY refused with 461 leaves the session "playing": the following SETUP is
    refused with 455 although it is legal, which the reference automaton rejects. -/
theorem c12_refused_play_stuck_witness :
    let old : Cfg := { genCfg with playingNeedsOk := false }
    let env : Env := { lookup := fun _ => some { sdp := 1, mc := none }, sdp := fun _ => { ok := true, medias := [(.video, "t=1".toList)] },
                       urlNorm := fun _ => none, permPull := true, permPush := true, udpOk := true }
    let rq (m : Method) (sp tr : String) : Input :=
      .req { method := m, cseq := [], path := "/a".toList, setupPath := sp.toList, transport := tr.toList,
             ctypeSdp := false, range := [], body := 0 } env
    verdict .rtsp (trace old (Sess.init false [])
      [rq .describe "rtsp://h:554/a" "", rq .setup "rtsp://h:554/a/t=1" "RTP/AVP/TCP;interleaved=0-1",
       rq .setup "rtsp://h:554/a/t=1" "RTP/AVP;multicast", rq .play "rtsp://h:554/a" "",
       rq .setup "rtsp://h:554/a/t=1" "RTP/AVP/TCP;interleaved=0-1"]) = "legal-method-455" := by
  decide

/-- Candidate 29 (fixed): with the old `onPlay` (the `status == statusPlaying` branch returns
    without writing) a PLAY on a playing session gets no response at all. -/
theorem c12_play_twice_witness :
    let old : Cfg := { genCfg with playAgainResponds := false }
    let s : Sess := { Sess.init false [] with status := .playing, mode := .play, role := .tcp }
    ∀ (r : Req) (e : Env), r.method = .play → respsOf (step old s r e).2 = [] := by
  intro old s r e hm
  simp [step, old, s, Sess.init, hm, genCfg, gateOfTable, IpcHub.Gen.rtspGate, statusName, gateRow, methodOfName, onPlay, respsOf]

/-- A client may send interleaved frames at any time (a player's RTCP receiver reports, RFC 2326
    §10.12): for EVERY reachable state and every frame — any channel byte, RTP header parsable or
    not — the session of the current source tree writes nothing, keeps the connection, and keeps
    exactly what it held; the whole state is unchanged. -/
theorem c12_client_frames (s : Sess) (ch : Int) (hdrOk : Bool) :
    stepInput genCfg s (.frame ch hdrOk) = (s, []) := by
  have hf : genCfg.framesDropped = true := by decide
  simp only [stepInput, onFrame, hf]
  by_cases hc : s.closed = true <;> simp [hc]

/-- The defect that was fixed: with the old `onPack` (every packet handed to `s.stream`, which for a
    session that is not recording is the place-holder stream whose `WritePacket` fails) a receiver
    report on the negotiated control channel of a PLAYING session ends it — the reference automaton
    rejects the dialogue as `connection-lost`; with the current one it is accepted. -/
theorem c12_player_rtcp_witness :
    let old : Cfg := { genCfg with framesDropped := false }
    let env : Env := { lookup := fun _ => some { sdp := 1, mc := none }, sdp := fun _ => { ok := true, medias := [(.video, "t=1".toList)] },
                       urlNorm := fun _ => none, permPull := true, permPush := true, udpOk := true }
    let rq (m : Method) (sp tr : String) : Input :=
      .req { method := m, cseq := [], path := "/a".toList, setupPath := sp.toList, transport := tr.toList,
             ctypeSdp := false, range := [], body := 0 } env
    let ins := [rq .describe "rtsp://h:554/a" "", rq .setup "rtsp://h:554/a/t=1" "RTP/AVP/TCP;interleaved=0-1", rq .play "rtsp://h:554/a" "",
       .frame 1 false, rq .options "rtsp://h:554/a" ""]
    verdict .rtsp (trace old (Sess.init false []) ins) = "connection-lost" ∧
    verdict .rtsp (trace genCfg (Sess.init false []) ins) = "ok" := by
  decide

/-- The media clause of the reference automaton has teeth: media in front of the response to the very
    first request (DESCRIBE, answered 200), or together with the 200 of a PLAY on plain RTSP, is
    rejected as `media-before-play`; a response without the session id as `session-id-missing`. -/
theorem c12_media_sid_witness :
    let o (m : Method) (media sid : Bool) : Obs :=
      { hangup := false, method := m, ask := .unspecified, nresp := 1, code := 200, cseqOk := true, sidOk := sid,
        consumers := 0, published := false, closed := false, media := media }
    verdict .rtsp [o .describe true true] = "media-before-play" ∧
    verdict .rtsp [o .describe false true, o .setup false true, { o .play true true with consumers := 1 }] = "media-before-play" ∧
    verdict .rtsp [o .describe false true, o .setup false true, { o .play false true with consumers := 1 },
      { o .options true true with consumers := 1 }] = "ok" ∧
    verdict .rtsp [o .describe false false] = "session-id-missing" := by
  decide

/-- The model does produce media observations (non-vacuity of the media clause inside
    `c12_model_accepted`): after DESCRIBE, SETUP, PLAY the next request is observed with `media`. -/
theorem c12_media_observed :
    let env : Env := { lookup := fun _ => some { sdp := 1, mc := none }, sdp := fun _ => { ok := true, medias := [(.video, "t=1".toList)] },
                       urlNorm := fun _ => none, permPull := true, permPush := true, udpOk := true }
    let rq (m : Method) (sp tr : String) : Input :=
      .req { method := m, cseq := [], path := "/a".toList, setupPath := sp.toList, transport := tr.toList,
             ctypeSdp := false, range := [], body := 0 } env
    (trace genCfg (Sess.init false [])
      [rq .describe "rtsp://h:554/a" "", rq .setup "rtsp://h:554/a/t=1" "RTP/AVP/TCP;interleaved=0-1", rq .play "rtsp://h:554/a" "",
       rq .options "rtsp://h:554/a" ""]).map (·.media) = [false, false, false, true] := by
  decide

/-- non-vacuity of `c12_one_response` / `c12_455_inert`: an open session, and a request that is
    answered 455 (PLAY before anything else) -/
example : (Sess.init false []).closed = false := rfl
example : ∀ e : Env, respsOf (step genCfg (Sess.init false []) { (default : Req) with method := .play } e).2
    = [{ mkResp { (default : Req) with method := .play } with code := 455 }] := by
  intro e
  simp [step, Sess.init, genCfg, gateOfTable, IpcHub.Gen.rtspGate, statusName, gateRow, methodOfName, respsOf]

/-- non-vacuity of `c12_model_accepted` / `c12_order`: a well-formed dialogue that reaches playing -/
example :
    let env : Env := { lookup := fun _ => some { sdp := 1, mc := none }, sdp := fun _ => { ok := true, medias := [(.video, "t=1".toList)] },
                       urlNorm := fun _ => none, permPull := true, permPush := true, udpOk := true }
    let rq (m : Method) (sp tr : String) : Input :=
      .req { method := m, cseq := [], path := "/a".toList, setupPath := sp.toList, transport := tr.toList,
             ctypeSdp := false, range := [], body := 0 } env
    let ins := [rq .describe "rtsp://h:554/a" "", rq .setup "rtsp://h:554/a/t=1" "RTP/AVP/TCP;interleaved=0-1", rq .play "rtsp://h:554/a" ""]
    (∀ i ∈ ins, i.wf) ∧ (final genCfg (Sess.init false []) ins).status = .playing := by
  refine ⟨?_, by decide⟩
  intro i hi
  simp only [List.mem_cons, List.not_mem_nil, or_false] at hi
  rcases hi with rfl | rfl | rfl <;> simp [Input.wf]

end IpcHub.Props.C12
