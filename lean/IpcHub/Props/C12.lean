/-
C12 — RTSP sessions answer every request once and follow the legal method order.
Property theorems only; the model is IpcHub/Model/RtspSession.lean (+ RtspTransport),
the specification IpcHub/Spec/RtspAutomaton.lean, helper lemmas IpcHub/Lemmas/RtspSession*.lean.
-/
import IpcHub.Lemmas.RtspSession
namespace IpcHub.Props.C12
open IpcHub.Rtsp IpcHub.RtspSpec

/-- The source facts the theorems rest on, regenerated from /repo on every run:
    the status constants in their order, the `onPreprocess` gate tables of both session kinds
    (equal to the reference gates), what precedes the gate (OPTIONS answered, TEARDOWN answered
    and then closed), the `onRequest` dispatch (PLAY answers by itself, everything else is
    answered after the switch, unknown methods get 455), the two `onPlay` guards, the
    response-before-attach order of the consumer roles, the deferred cleanup, the method
    tokens and the status codes. -/
theorem c12_source_facts :
    IpcHub.Gen.rtspFactsUnknown = [] ∧
    cfgOk genCfg = true ∧
    gateEq genWspGate refWspGate = true ∧
    IpcHub.Gen.rtspStatusOrder = ["statusInit", "statusReady", "statusPlaying", "statusRecording"] ∧
    IpcHub.Gen.wspStatusOrder = ["statusInit", "statusReady", "statusPlaying"] ∧
    IpcHub.Gen.rtspPre = [("MethodOptions", ["s.response"]), ("MethodTeardown", ["s.response", "s.Close"])] ∧
    IpcHub.Gen.wspPre = [("MethodOptions", []), ("MethodTeardown", [])] ∧
    IpcHub.Gen.rtspGateRefusal = "StatusMethodNotValidInThisState" ∧
    IpcHub.Gen.wspGateRefusal = "StatusMethodNotValidInThisState" ∧
    IpcHub.Gen.rtspDispatch = [("MethodDescribe", "s.onDescribe", false), ("MethodAnnounce", "s.onAnnounce", false),
      ("MethodSetup", "s.onSetup", false), ("MethodRecord", "s.onRecord", false), ("MethodPlay", "s.onPlay", true)] ∧
    IpcHub.Gen.rtspDispatchDefault = "StatusMethodNotValidInThisState" ∧
    IpcHub.Gen.rtspRequestRespondsAfterSwitch = true ∧
    IpcHub.Gen.wspDispatch = [("MethodDescribe", "s.onDescribe", false), ("MethodSetup", "s.onSetup", false),
      ("MethodPlay", "s.onPlay", false), ("MethodPause", "s.onPause", false)] ∧
    IpcHub.Gen.wspDispatchDefault = "StatusMethodNotValidInThisState" ∧
    IpcHub.Gen.asTCPConsumerCalls = ["s.response", "stream.StartConsume"] ∧
    IpcHub.Gen.asUDPConsumerCalls = ["c.prepareUDP", "s.response", "s.response", "stream.StartConsume"] ∧
    IpcHub.Gen.asMulticastConsumerCalls = ["s.response", "s.response", "ma.AddMember"] ∧
    IpcHub.Gen.asTCPPusherCalls = ["media.Regist"] ∧
    IpcHub.Gen.processCleanup = ["s.Close", "s.consumer.Close", "s.stream.Close"] ∧
    IpcHub.Gen.wspProcessCleanup = ["s.svr.sessions.Delete", "s.source.StopConsume", "s.Close"] ∧
    IpcHub.Gen.tcpConsumerCloseCalls = ["c.source.StopConsume"] ∧
    IpcHub.Gen.udpConsumerCloseCalls = ["c.source.StopConsume"] ∧
    IpcHub.Gen.multicastConsumerCloseCalls = ["c.source.Multicastable().ReleaseMember"] ∧
    IpcHub.Gen.tcpPushStreamCloseCalls = ["media.Unregist"] ∧
    IpcHub.Gen.methodTokens = [("MethodOptions", "OPTIONS"), ("MethodDescribe", "DESCRIBE"), ("MethodAnnounce", "ANNOUNCE"),
      ("MethodSetup", "SETUP"), ("MethodPlay", "PLAY"), ("MethodPause", "PAUSE"), ("MethodTeardown", "TEARDOWN"),
      ("MethodGetParameter", "GET_PARAMETER"), ("MethodSetParameter", "SET_PARAMETER"), ("MethodRecord", "RECORD"),
      ("MethodRedirect", "REDIRECT")] ∧
    IpcHub.Gen.statusCodes = [("StatusOK", 200), ("StatusBadRequest", 400), ("StatusForbidden", 403), ("StatusNotFound", 404),
      ("StatusInvalidParameter", 451), ("StatusMethodNotValidInThisState", 455), ("StatusUnsupportedTransport", 461),
      ("StatusInternalServerError", 500)] := by
  decide

/-- The refusal ladders of the handlers (condition, status constant) in source order: the model's
    handlers mirror exactly these. -/
theorem c12_source_ladders :
    IpcHub.Gen.onPlayLadder = [("s.mode != PlaySession || s.transport.Type == RTPUnknownTrans", "StatusMethodNotValidInThisState"),
      ("stream == nil", "StatusNotFound"), ("!s.checkPermission(auth.PullRight)", "StatusForbidden")] ∧
    IpcHub.Gen.onRecordLadder = [("s.mode != RecordSession || s.transport.Type != RTPTCPUnicast", "StatusMethodNotValidInThisState"),
      ("!s.checkPermission(auth.PushRight)", "StatusForbidden")] ∧
    IpcHub.Gen.onDescribeLadder = [("stream == nil", "StatusNotFound"), ("!s.checkPermission(auth.PullRight)", "StatusForbidden"),
      ("len(sdpRaw) == 0", "StatusNotFound"), ("err != nil", "StatusNotFound")] ∧
    IpcHub.Gen.onAnnounceLadder = [("req.Header.Get(FieldContentType) != \"application/sdp\"", "StatusBadRequest"),
      ("!s.checkPermission(auth.PushRight)", "StatusForbidden"), ("err != nil", "StatusBadRequest")] ∧
    IpcHub.Gen.onSetupLadder = [("err != nil", "StatusInternalServerError"), ("err != nil", "StatusInternalServerError"),
      ("err != nil", "StatusInvalidParameter"), ("s.mode != s.transport.Mode", "StatusInvalidParameter"),
      ("!s.checkPermission(auth.PushRight)", "StatusForbidden"), ("s.transport.Type != RTPTCPUnicast", "StatusUnsupportedTransport"),
      ("!s.checkPermission(auth.PullRight)", "StatusForbidden"), ("st == nil", "StatusNotFound"), ("ma == nil", "StatusUnsupportedTransport")] ∧
    IpcHub.Gen.wspOnSetupLadder = [("vPath == \"\"", "StatusInternalServerError"), ("err != nil", "StatusInvalidParameter"),
      ("rtsp.PlaySession != s.transport.Mode", "StatusInvalidParameter"), ("s.transport.Type != rtsp.RTPTCPUnicast", "StatusUnsupportedTransport")] ∧
    IpcHub.Gen.wspOnPlayLadder = [("stream == nil", "StatusNotFound")] := by
  decide

/-- Exactly one response per request, echoing its CSeq: for EVERY state of an open session,
    every request and every environment (registry, SDP parser, permissions, sockets), the
    session of the current source tree writes exactly one response and it carries the request's
    CSeq.  (The Session id is set by `newResponse` on every response; it is not data of the model.) -/
theorem c12_one_response (s : Sess) (r : Req) (e : Env) (h : s.closed = false) :
    ∃ x, respsOf (step genCfg s r e).2 = [x] ∧ x.cseq = r.cseq :=
  step_one_response genCfg (cfgOk_spec c12_source_facts.2.1).1 s r e h

/-- A request answered with 455 changes nothing — for every configuration, state, request and
    environment: the whole session state after the request equals the state before. -/
theorem c12_455_inert (cfg : Cfg) (s : Sess) (r : Req) (e : Env) (x : Resp)
    (hx : x ∈ respsOf (step cfg s r e).2) (h : x.code = 455) : (step cfg s r e).1 = s :=
  step_455_inert cfg s r e x hx h

/-- Candidate 29 (fixed): with the old `onPlay` (the `status == statusPlaying` branch returns
    without writing) a PLAY on a playing session gets no response at all. -/
theorem c12_play_twice_witness :
    let old : Cfg := { genCfg with playAgainResponds := false }
    let s : Sess := { Sess.init false [] with status := .playing, mode := .play, role := .tcp }
    ∀ (r : Req) (e : Env), r.method = .play → respsOf (step old s r e).2 = [] := by
  intro old s r e hm
  simp [step, old, s, Sess.init, hm, genCfg, gateOfTable, IpcHub.Gen.rtspGate, statusName, gateRow, methodOfName, onPlay, respsOf]

/-- non-vacuity of `c12_one_response` / `c12_455_inert`: an open session, and a request that is
    answered 455 (PLAY before anything else) -/
example : (Sess.init false []).closed = false := rfl
example : ∀ e : Env, respsOf (step genCfg (Sess.init false []) { (default : Req) with method := .play } e).2
    = [{ mkResp { (default : Req) with method := .play } with code := 455 }] := by
  intro e
  simp [step, Sess.init, genCfg, gateOfTable, IpcHub.Gen.rtspGate, statusName, gateRow, methodOfName, respsOf]

end IpcHub.Props.C12
