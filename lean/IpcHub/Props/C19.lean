/-
C19 — Port multiplexing routes each connection to the right protocol, losing no byte.
Property theorems only; helper lemmas live in IpcHub/Lemmas/Patricia.lean, Lemmas/Sniffer.lean.
-/
import IpcHub.Model.MuxInst
namespace IpcHub.Props.C19
open IpcHub.Patricia IpcHub.Sniffer IpcHub.MuxSpec IpcHub.MuxInst

/-- The source facts the theorems rest on, regenerated from /repo on every run: the HTTP
    method table, the strings of `rtsp.MatchRTSP()`, prefix-mode matching with
    `maxDepth = max + 1`, the registration order in `service.listen` (RTSP before HTTP, each
    matcher with its own service), the sniff time-out being set, and the call order of
    `Listener.serve` / `sniffer.reset` the model mirrors. -/
theorem c19_source_facts :
    IpcHub.Gen.muxFactsUnknown = [] ∧
    IpcHub.Gen.defaultHTTPMethods.map ascii = httpMethods ∧
    IpcHub.Gen.matchRTSPArgs.map ascii =
      ["OPTIONS * RTSP", "OPTIONS * rtsp", "OPTIONS rtsp://", "OPTIONS RTSP://"].map ascii ++ rtspOnlyMethods ∧
    IpcHub.Gen.matchPrefixUsesPrefixMode = true ∧ IpcHub.Gen.maxDepthPlus = 1 ∧
    IpcHub.Gen.muxRegistrations = ["rtsp.MatchRTSP() -> s.rtsp.Serve", "listener.MatchHTTP() -> s.http.Serve"] ∧
    IpcHub.Gen.sniffTimeoutSet = true ∧
    IpcHub.Gen.sniffTimeoutExpr = "time.Duration(int64(config.NetTimeout()) / 3)" ∧
    IpcHub.Gen.serveSequence =
      ["m.settingsHandler(c)", "muc=newConn(c)",
       "if(m.readTimeout > noTimeout)/_=c.SetReadDeadline(time.Now().Add(m.readTimeout))",
       "range(m.matchers)/range(sl.matchers)/matched=processor(muc.startSniffing())",
       "range(m.matchers)/range(sl.matchers)/if(matched)/muc.doneSniffing()",
       "range(m.matchers)/range(sl.matchers)/if(matched)/if(m.readTimeout > noTimeout)/_=c.SetReadDeadline(time.Time{})",
       "range(m.matchers)/range(sl.matchers)/if(matched)/select(sl.listen.connections <- muc)",
       "range(m.matchers)/range(sl.matchers)/if(matched)/select(<-donec)/_=c.Close()",
       "range(m.matchers)/range(sl.matchers)/if(matched)/return",
       "_=c.Close()", "if(!m.handleErr(err))/_=m.root.Close()"] ∧
    IpcHub.Gen.snifferReset = ["s.sniffing = snif", "s.bufferRead = 0", "s.bufferSize = s.buffer.Len()"] ∧
    IpcHub.Gen.sniffingSwitch =
      ["startSniffing: m.sniffer.reset(true)", "startSniffing: return &m.sniffer", "doneSniffing: m.sniffer.reset(false)"] := by
  decide

end IpcHub.Props.C19
