/-
C19 — Port multiplexing routes each connection to the right protocol, losing no byte.
Property theorems only; helper lemmas live in IpcHub/Lemmas/Patricia.lean, Lemmas/Sniffer.lean,
Lemmas/MuxClassify.lean.

Model: Model/Patricia.lean (matcher.go), Model/Sniffer.lean (listener.go: sniffer, Conn,
io.ReadFull, Listener.serve), Model/MuxInst.lean (service.listen's registrations from the
regenerated facts).  Specification: Spec/MuxRoute.lean.
-/
import IpcHub.Lemmas.MuxClassify
namespace IpcHub.Props.C19
open IpcHub.Patricia IpcHub.Sniffer IpcHub.MuxSpec IpcHub.MuxInst

/-- The source facts the theorems rest on, regenerated from /repo on every run: the HTTP
    method table, the strings of `rtsp.MatchRTSP()`, prefix-mode matching with
    `maxDepth = max + 1`, the registration order in `service.listen` (RTSP before HTTP, each
    matcher with its own service), the sniff time-out being set, the error handler of
    `service.listen` returning `true` (Serve goes on after a connection nobody matched), and the call order of
    `Listener.serve` / `sniffer.reset` the model mirrors. -/
theorem c19_source_facts :
    IpcHub.Gen.muxFactsUnknown = [] ∧
    IpcHub.Gen.defaultHTTPMethods.map ascii = httpMethods ∧
    IpcHub.Gen.matchRTSPArgs.map ascii =
      ["OPTIONS * RTSP", "OPTIONS * rtsp", "OPTIONS rtsp://", "OPTIONS RTSP://"].map ascii ++ rtspOnlyMethods ∧
    IpcHub.Gen.matchPrefixUsesPrefixMode = true ∧ IpcHub.Gen.maxDepthPlus = 1 ∧
    IpcHub.Gen.muxRegistrations = [("rtsp.MatchRTSP()", "s.rtsp.Serve"), ("listener.MatchHTTP()", "s.http.Serve")] ∧
    IpcHub.Gen.sniffTimeoutSet = true ∧
    IpcHub.Gen.sniffTimeoutExpr = "time.Duration(int64(config.NetTimeout()) / 3)" ∧
    IpcHub.Gen.listenErrorHandlerReturns = ["true"] ∧
    IpcHub.Gen.serveSequence =
      ["muc=newConn(c)",
       "if(m.readTimeout > noTimeout)/_=c.SetReadDeadline(time.Now().Add(m.readTimeout))",
       "range(m.matchers)/range(sl.matchers)/matched=processor(muc.startSniffing())",
       "range(m.matchers)/range(sl.matchers)/if(matched)/muc.doneSniffing()",
       "range(m.matchers)/range(sl.matchers)/if(matched)/if(m.readTimeout > noTimeout)/_=c.SetReadDeadline(time.Time{})",
       "range(m.matchers)/range(sl.matchers)/if(matched)/select(sl.listen.connections <- muc)",
       "range(m.matchers)/range(sl.matchers)/if(matched)/select(<-donec)/_=c.Close()",
       "range(m.matchers)/range(sl.matchers)/if(matched)/return",
       "_=c.Close()", "if(!m.handleErr(err))/_=m.root.Close()"] ∧
    IpcHub.Gen.snifferReset = ["s.sniffing = snif", "s.bufferRead = 0", "s.bufferSize = s.buffer.Len()"] ∧
    IpcHub.Gen.sniffingSwitch =
      ["startSniffing: m.sniffer.reset(true)", "startSniffing: return &m.sniffer", "doneSniffing: m.sniffer.reset(false)"] := by
  decide

/-- The multiplexer of the current tree, as the model sees it: the RTSP matcher (the four
    OPTIONS forms and the ten other RTSP methods) feeding the RTSP service is tried first,
    the HTTP matcher feeding the HTTP service second; the sniff time-out is armed. -/
theorem c19_registrations :
    genRegs = some [(.rtsp, specials ++ rtspOnlyMethods), (.http, httpMethods)] ∧ genTimeoutSet = true := by
  decide

/-- `c19_patricia` (prefix mode, what `MatchPrefix` uses): for EVERY non-empty set of byte
    strings and EVERY input, the tree built by `newPatriciaTree` / `newNode` / `splitPrefix`
    and walked by `match` after `io.ReadFull` of `maxDepth` bytes accepts exactly the inputs
    that start with one of the strings. -/
theorem c19_patricia_prefix (S : List Bytes) (hS : S ≠ []) (b : Bytes) :
    (newTree S).matchInput b true = S.any (fun s => s.isPrefixOf b) :=
  matchInput_prefix S hS b

/-- `c19_patricia` (exact mode, `patriciaTree.match`): it accepts exactly the members of the set. -/
theorem c19_patricia_exact (S : List Bytes) (hS : S ≠ []) (b : Bytes) :
    (newTree S).matchInput b false = S.contains b :=
  matchInput_exact S hS b

/-- `c19_replay`: for EVERY byte stream, EVERY adversarial segmentation / failure script of
    the socket that never returns data together with an error (a TCP conn does not), ANY
    number of sniffing passes each with ANY read sizes, and ANY read-buffer sizes `ks` of the
    receiving service: nothing panics, and what the service has read so far, followed by what
    is still buffered for it, followed by what the peer has not yet delivered, is exactly the
    original stream — from its first byte, each byte once, in order. -/
theorem c19_replay (s : Bytes) (evs : List Ev) (hne : noDataErr evs) (passes : List (List Nat)) (ks : List Nat) :
    ∃ tr outs st evs', runOps { st := { rem := s }, evs := evs } (sniffOps passes) = .ok tr ∧
      svcReads tr.st ks tr.evs [] = .ok (outs, st, evs') ∧
      (outs.map (·.1)).flatten ++ pending st ++ st.rem = s :=
  replay_no_loss s evs hne passes ks

/-- progress part of `c19_replay`: while replayed bytes are pending, a service read of k ≥ 1
    bytes returns the next `min k |pending|` of them with no error and without touching the
    socket (whatever the socket would do) -/
theorem c19_replay_progress (s : Bytes) (evs : List Ev) (hne : noDataErr evs) (passes : List (List Nat)) (tr : Trace)
    (h : runOps { st := { rem := s }, evs := evs } (sniffOps passes) = .ok tr) (k : Nat) (hk : k ≥ 1)
    (hp : pending tr.st ≠ []) :
    ∃ r, connRead tr.st k tr.evs = .ok r ∧ r.bytes ≠ [] ∧ r.err = none ∧ r.evs = tr.evs ∧ r.st.rem = tr.st.rem ∧
      r.bytes = (pending tr.st).take k :=
  replay_progress s evs hne passes tr h k hk hp

/-- last part of `c19_replay`: once the buffered part is drained, the read goes straight to
    the connection and `Conn.Read` bypasses the sniffer from then on -/
theorem c19_replay_then_direct (st : St) (k : Nat) (evs : List Ev) (hs : st.sniffing = false) (hd : st.direct = false)
    (hcap : st.capNonzero = true) (hp : st.bufferSize ≤ st.bufferRead) :
    connRead st k evs = .ok (srcRead { st with buffer := [], capNonzero := false, direct := true } k evs) :=
  replay_drained_goes_direct st k evs hs hd hcap hp

/-- `c19_no_stale_error`: for EVERY byte stream and EVERY socket script that never returns data
    together with an error — pauses, the sniff time-out firing inside any matcher's read after
    any first segment, EOF and read errors anywhere — a connection that `Listener.serve` hands
    to a service remembers no error of the sniffing phase; and from such a state EVERY read of
    the service, with EVERY buffer size, again leaves a state that remembers none and either
    returns no error, leaving the script and the undelivered bytes untouched (it was served
    from the replay buffer, or asked for 0 bytes), or is as a whole the result of the socket's
    own read of the next event of the script in the socket's present state (undelivered bytes,
    deadline, expiry, closed).  By induction over the service's reads: an error the service
    sees is always the one the socket produces at that point of the script; an error of an
    event that a matcher already consumed never reappears.  (With `c19_replay`: nothing is
    lost either.) -/
theorem c19_no_stale_error (s : Bytes) (evs : List Ev) (hne : noDataErr evs) (r : ServeRes)
    (h : genServe s evs = .ok r) (hr : r.route ≠ .closed) :
    (r.st.lastErr = none ∧ r.st.sniffing = false ∧ noDataErr r.evs) ∧
    ∀ (st : St) (k : Nat) (evs' : List Ev) (q : ReadRes), st.lastErr = none → st.sniffing = false →
      connRead st k evs' = .ok q →
      q.st.lastErr = none ∧ q.st.sniffing = false ∧
      ((q.err = none ∧ q.evs = evs' ∧ q.st.rem = st.rem) ∨
       ∃ st', q = srcRead st' k evs' ∧ st'.rem = st.rem ∧ st'.deadline = st.deadline ∧
         st'.timedOut = st.timedOut ∧ st'.closed = st.closed) := by
  obtain ⟨hl, hne', hsn⟩ := serve_lastErr genTimeoutSet genTrees s evs hne r h
  refine ⟨⟨hl, ?_, hne'⟩, fun st k evs' q hl' hs' hq => connRead_err_is_the_sockets hq hl' hs'⟩
  cases hroute : r.route with
  | service j => exact hsn j hroute
  | closed => exact absurd hroute hr

/-- `Listener.serve` never panics (the slice `s.buffer.Bytes()[s.bufferRead:s.bufferSize]`
    stays in range) for every stream and every socket script, and every matcher pass sees
    the stream from its first byte. -/
theorem c19_serve_total (s : Bytes) (evs : List Ev) :
    ∃ r, genServe s evs = .ok r ∧ (noDataErr evs → ∀ v ∈ r.views, v.isPrefixOf s = true) := by
  obtain ⟨r, hr⟩ := serve_no_panic genTimeoutSet genTrees s evs
  exact ⟨r, hr, fun hne => serve_views_are_prefixes genTimeoutSet genTrees s evs hne r hr⟩

/-- Full-strength routing rule of the current tree, for EVERY byte stream and EVERY
    segmentation of the client's writes (scripts that only deliver data): the connection goes
    to the RTSP service when the stream starts with one of `MatchRTSP`'s strings, else to the
    HTTP service when it starts with an HTTP method, else it is closed; exactly one of the
    three.  A handed-over connection is open, its sniff deadline is cleared, and the whole
    stream is still there for the service (buffered ++ undelivered = stream). -/
theorem c19_route_by_prefix (s : Bytes) (evs : List Ev) (hc : cleanEvs evs) :
    ∃ r, genServe s evs = .ok r ∧
      svcOfRoute r.route =
        (if (specials ++ rtspOnlyMethods).any (fun k => k.isPrefixOf s) then Proto.rtsp
         else if httpMethods.any (fun k => k.isPrefixOf s) then Proto.http else Proto.none) ∧
      (r.route = .closed ↔ svcOfRoute r.route = .none) ∧
      (r.route ≠ .closed → r.st.closed = false ∧ r.st.deadline = false ∧ pending r.st ++ r.st.rem = s) ∧
      (r.route = .closed → r.st.closed = true) := by
  obtain ⟨r, hr, hroute, hopen, hclosed⟩ := serve_clean genTimeoutSet genTrees s evs hc
  refine ⟨r, hr, ?_, ?_, ?_, hclosed⟩
  · rw [hroute, genTrees_eq]
    simp only [routeOf]
    rw [matchInput_prefix _ (by decide), matchInput_prefix _ (by decide)]
    split
    · exact svcOfRoute_0
    · split
      · exact svcOfRoute_1
      · exact svcOfRoute_closed
  · rw [hroute, genTrees_eq]
    simp only [routeOf]
    split
    · simp [svcOfRoute_0]
    · split
      · simp [svcOfRoute_1]
      · simp [svcOfRoute_closed]
  · intro hne
    obtain ⟨h1, h2, _, _, h5⟩ := hopen hne
    exact ⟨h1, h2 c19_registrations.2, h5⟩

/-- Routing is SOUND under EVERY behaviour of the peer and the socket — any segmentation, any
    pauses, the sniff time-out firing at any point, EOF, read errors, even data delivered
    together with an error — and for EVERY byte stream: `Listener.serve` does not panic; the
    RTSP service gets the connection only if the stream starts with one of `MatchRTSP`'s
    strings and the HTTP service only if it starts with an HTTP method (so a stream that
    begins with no listed method reaches nobody: `c19_no_method_at_start_closed`); the
    outcome is exactly one of RTSP / HTTP / closed; a handed-over connection is open, its sniff
    deadline is cleared and buffered ++ undelivered is the whole original stream; a connection
    nobody gets is closed.  (Which of the services a *fragment* followed by a pause longer
    than the sniff time-out reaches is decided by what had arrived when the time-out fired:
    `c19_fragment_then_timeout`; completeness — the right service for a whole request line —
    is `c19_classify`, for scripts that only deliver data.) -/
theorem c19_route_sound_any_script (s : Bytes) (evs : List Ev) :
    ∃ r, genServe s evs = .ok r ∧
      (svcOfRoute r.route = .rtsp → (specials ++ rtspOnlyMethods).any (fun k => k.isPrefixOf s) = true) ∧
      (svcOfRoute r.route = .http → httpMethods.any (fun k => k.isPrefixOf s) = true) ∧
      (r.route = .closed ↔ svcOfRoute r.route = .none) ∧
      (r.route ≠ .closed → r.st.closed = false ∧ r.st.deadline = false ∧ pending r.st ++ r.st.rem = s) ∧
      (r.route = .closed → r.st.closed = true) := by
  obtain ⟨r, hr, h1, h2, h3, h4, h5⟩ := serve_gen_any s evs
  refine ⟨r, hr, h1, h2, h3, fun hne => ?_, h5⟩
  obtain ⟨a, b, c⟩ := h4 hne
  exact ⟨a, b c19_registrations.2, c⟩

/-- a stream that begins with no registered string reaches no service, whatever the peer and
    the socket do (the all-scripts strengthening of `c19_not_a_request_line_closed`) -/
theorem c19_no_method_at_start_closed (s : Bytes) (evs : List Ev)
    (h : ∀ k ∈ specials ++ rtspOnlyMethods ++ httpMethods, k.isPrefixOf s = false) :
    ∃ r, genServe s evs = .ok r ∧ r.route = .closed ∧ r.st.closed = true := by
  obtain ⟨r, hr, h1, h2, h3, _, h5⟩ := c19_route_sound_any_script s evs
  have hcl : r.route = .closed := by
    rw [h3]
    cases hp : svcOfRoute r.route with
    | none => rfl
    | rtsp =>
      have := h1 hp
      rw [List.any_eq_true] at this
      obtain ⟨k, hk, hkp⟩ := this
      rw [h k (List.mem_append_left _ hk)] at hkp; cases hkp
    | http =>
      have := h2 hp
      rw [List.any_eq_true] at this
      obtain ⟨k, hk, hkp⟩ := this
      rw [h k (List.mem_append_right _ hk)] at hkp; cases hkp
  exact ⟨r, hr, hcl, h5 hcl⟩

/-- `c19_fragment_then_timeout`: what happens to a client that is slower than the sniff
    time-out, for EVERY stream: when `n` bytes (1 ≤ n ≤ 15, fewer than the RTSP matcher reads)
    arrive and the peer then pauses until the sniff time-out fires — whatever it sends later and
    however the socket behaves afterwards — the connection is routed by that fragment alone:
    RTSP if the fragment starts with a `MatchRTSP` string, else HTTP if it starts with an HTTP
    method, else closed.  (Together with `c19_route_sound_any_script`: the service then still
    finds the whole stream.)  This is the precise content of "a client slower than the sniff
    time-out is classified on what has arrived"; `c19_classify` speaks about scripts that only
    deliver data. -/
theorem c19_fragment_then_timeout (s : Bytes) (n : Nat) (hn : 1 ≤ n) (hns : n ≤ s.length) (hn15 : n ≤ 15)
    (evs : List Ev) :
    ∃ r, genServe s (.deliver n :: .fail .timeout :: evs) = .ok r ∧
      svcOfRoute r.route =
        (if (specials ++ rtspOnlyMethods).any (fun k => k.isPrefixOf (s.take n)) then Proto.rtsp
         else if httpMethods.any (fun k => k.isPrefixOf (s.take n)) then Proto.http else Proto.none) := by
  have hd0 : (newTree (specials ++ rtspOnlyMethods)).maxDepth = 16 := by decide
  have hd1 : (newTree httpMethods).maxDepth = 8 := by decide
  obtain ⟨r, hr, hroute⟩ := serve_fragment_then_timeout (newTree (specials ++ rtspOnlyMethods)) [newTree httpMethods]
    (by intro u hu; simp only [List.mem_cons, List.mem_nil_iff, or_false] at hu; rcases hu with h | h <;> subst h <;> omega)
    s n hn hns (by omega) evs
  refine ⟨r, ?_, ?_⟩
  · unfold genServe; rw [c19_registrations.2, genTrees_eq]; exact hr
  · rw [hroute]
    simp only [routeOf]
    rw [matchInput_prefix _ (by decide), matchInput_prefix _ (by decide)]
    split
    · exact svcOfRoute_0
    · split
      · exact svcOfRoute_1
      · exact svcOfRoute_closed

/-- `c19_fragment_then_timeout` on literals (tests): `OPTIONS * RT` + silence reaches the HTTP
    service (its first 7 bytes are an HTTP method) although the complete line is an RTSP
    request; `DESCR` + silence and `OPTION` + silence are closed; `GET ` + silence reaches HTTP. -/
theorem c19_fragment_then_timeout_examples (evs : List Ev) :
    (∃ r, genServe (ascii "OPTIONS * RTSP/1.0\r\nCSeq: 1\r\n\r\n") (.deliver 12 :: .fail .timeout :: evs) = .ok r ∧
        svcOfRoute r.route = .http) ∧
    classify (ascii "OPTIONS") (ascii "*") (ascii "RTSP/1.0") = .rtsp ∧
    (∃ r, genServe (ascii "DESCRIBE rtsp://h/ RTSP/1.0\r\n\r\n") (.deliver 5 :: .fail .timeout :: evs) = .ok r ∧
        svcOfRoute r.route = .none) ∧
    (∃ r, genServe (ascii "OPTIONS * RTSP/1.0\r\n\r\n") (.deliver 6 :: .fail .timeout :: evs) = .ok r ∧
        svcOfRoute r.route = .none) ∧
    (∃ r, genServe (ascii "GET / HTTP/1.1\r\n\r\n") (.deliver 4 :: .fail .timeout :: evs) = .ok r ∧
        svcOfRoute r.route = .http) := by
  refine ⟨?_, by decide, ?_, ?_, ?_⟩
  · obtain ⟨r, hr, h⟩ := c19_fragment_then_timeout (ascii "OPTIONS * RTSP/1.0\r\nCSeq: 1\r\n\r\n") 12 (by decide) (by decide) (by decide) evs
    exact ⟨r, hr, by rw [h]; decide⟩
  · obtain ⟨r, hr, h⟩ := c19_fragment_then_timeout (ascii "DESCRIBE rtsp://h/ RTSP/1.0\r\n\r\n") 5 (by decide) (by decide) (by decide) evs
    exact ⟨r, hr, by rw [h]; decide⟩
  · obtain ⟨r, hr, h⟩ := c19_fragment_then_timeout (ascii "OPTIONS * RTSP/1.0\r\n\r\n") 6 (by decide) (by decide) (by decide) evs
    exact ⟨r, hr, by rw [h]; decide⟩
  · obtain ⟨r, hr, h⟩ := c19_fragment_then_timeout (ascii "GET / HTTP/1.1\r\n\r\n") 4 (by decide) (by decide) (by decide) evs
    exact ⟨r, hr, by rw [h]; decide⟩

/-- non-vacuity of `c19_no_stale_error`, and the scenario it is about: 11 bytes of a request
    line (`GET /live/a`), then a pause past the sniff time-out inside the RTSP matcher's read,
    then the rest — the HTTP service gets the connection, and the connection it gets remembers
    no error: its reads return the 11 buffered bytes without the time-out of the sniffing phase. -/
theorem c19_no_stale_error_example :
    ∃ r, genServe (ascii "GET /live/a.flv HTTP/1.1\r\n\r\n") [.deliver 11, .fail .timeout, .deliver 400] = .ok r ∧
      svcOfRoute r.route = .http ∧ r.st.lastErr = none ∧ r.st.sniffing = false := by
  obtain ⟨r, hr, h⟩ := c19_fragment_then_timeout (ascii "GET /live/a.flv HTTP/1.1\r\n\r\n") 11 (by decide) (by decide) (by decide) [.deliver 400]
  have hroute : svcOfRoute r.route = .http := by rw [h]; decide
  have hne : noDataErr [.deliver 11, .fail .timeout, .deliver 400] := by
    intro e he n x; simp at he; rcases he with h | h | h <;> subst h <;> simp
  have hnc : r.route ≠ .closed := by
    intro hc; rw [hc, svcOfRoute_closed] at hroute; cases hroute
  obtain ⟨⟨h1, h2, _⟩, _⟩ := c19_no_stale_error _ _ hne r hr hnc
  exact ⟨r, hr, hroute, h1, h2⟩

/-- non-vacuity of `c19_fragment_then_timeout`: 12 bytes of a 31-byte stream -/
example : (1 : Nat) ≤ 12 ∧ 12 ≤ (ascii "OPTIONS * RTSP/1.0\r\nCSeq: 1\r\n\r\n").length ∧ (12 : Nat) ≤ 15 := by decide

/-- `c19_classify`: for EVERY first line `method SP target SP version` followed by CR / LF /
    nothing, with a blank-free method token that is a listed method or extends none, a
    blank-free target, ANY version, ANY payload behind the line and ANY segmentation of the
    client's writes: the connection reaches exactly the service the decision rule names —
    RTSP for an RTSP method, for OPTIONS exactly when the target is `*` with an RTSP version
    or an rtsp:// URL; HTTP for an HTTP method and every other OPTIONS; closed when the token
    is no listed method — and a connection that is handed over is open, its sniff deadline
    cleared, and the service finds the original stream from its first byte. -/
theorem c19_classify (method target version rest : Bytes) (evs : List Ev) (hc : cleanEvs evs)
    (hm : tokenOK method = true) (ht : tokenOK target = true) (hext : extendsListed method = false)
    (hend : lineEnd rest) :
    ∃ r, genServe (requestLine method target version ++ rest) evs = .ok r ∧
      svcOfRoute r.route = classify method target version ∧
      (r.route = .closed ↔ classify method target version = .none) ∧
      (r.route ≠ .closed → r.st.closed = false ∧ r.st.deadline = false ∧
        pending r.st ++ r.st.rem = requestLine method target version ++ rest) ∧
      (r.route = .closed → r.st.closed = true) := by
  obtain ⟨r, hr, hroute, hopen, hclosed⟩ := serve_clean genTimeoutSet genTrees _ evs hc
  have hcls := routeOf_gen method target version rest hm ht hext hend
  rw [← hroute] at hcls
  obtain ⟨r', hr', _, hiff, hopen', _⟩ := c19_route_by_prefix (requestLine method target version ++ rest) evs hc
  have : r' = r := by unfold genServe at hr'; rw [hr] at hr'; cases hr'; rfl
  subst this
  exact ⟨r', hr, hcls, by rw [← hcls]; exact hiff, hopen', hclosed⟩

/-- arbitrary first bytes that begin with none of the registered strings: closed -/
theorem c19_not_a_request_line_closed (s : Bytes) (evs : List Ev) (hc : cleanEvs evs)
    (h : ∀ k ∈ specials ++ rtspOnlyMethods ++ httpMethods, k.isPrefixOf s = false) :
    ∃ r, genServe s evs = .ok r ∧ r.route = .closed ∧ r.st.closed = true := by
  obtain ⟨r, hr, hsvc, hiff, _, hclosed⟩ := c19_route_by_prefix s evs hc
  have h1 : (specials ++ rtspOnlyMethods).any (fun k => k.isPrefixOf s) = false := by
    rw [List.any_eq_false]; intro k hk
    have hk' : k ∈ specials ++ rtspOnlyMethods ++ httpMethods := List.mem_append_left _ hk
    rw [h k hk']; simp
  have h2 : httpMethods.any (fun k => k.isPrefixOf s) = false := by
    rw [List.any_eq_false]; intro k hk
    have hk' : k ∈ specials ++ rtspOnlyMethods ++ httpMethods := List.mem_append_right _ hk
    rw [h k hk']; simp
  rw [h1, h2] at hsvc
  have hcl : r.route = .closed := hiff.mpr (by simpa using hsvc)
  exact ⟨r, hr, hcl, hclosed hcl⟩

/-- a connection that stays silent until the sniff time-out fires is closed, whatever the peer
    would have sent later -/
theorem c19_silent_closed (s : Bytes) (evs : List Ev) :
    ∃ r, genServe s (Ev.fail .timeout :: evs) = .ok r ∧ r.route = .closed ∧ r.st.closed = true := by
  have hroot : ∀ t ∈ genTrees, t.matchBuf [] true = false := by
    rw [genTrees_eq]
    intro t ht
    simp only [List.mem_cons, List.mem_nil_iff, or_false] at ht
    rcases ht with ht | ht <;> subst ht
    · show matchNode (newNode _ _) [] true = false
      rw [matchNode_newNode_prefix _ _ (by decide) (by decide)]; decide
    · show matchNode (newNode _ _) [] true = false
      rw [matchNode_newNode_prefix _ _ (by decide) (by decide)]; decide
  have := serve_silent_timeout_closed genTrees s evs hroot
  unfold genServe
  rw [c19_registrations.2]
  exact this

/-- Why `extendsListed method = false` is a hypothesis of `c19_classify`: the matchers compare
    prefixes, so a token that extends a listed method is routed by that prefix — `PLAYX /
    HTTP/1.1` reaches the RTSP service and `GETX rtsp://h/ RTSP/1.0` the HTTP service, while
    the decision rule over whole tokens names no service for either. -/
theorem c19_extension_token_routed_by_prefix :
    (∀ evs, cleanEvs evs → ∃ r, genServe (ascii "PLAYX / HTTP/1.1\r\n\r\n") evs = .ok r ∧ svcOfRoute r.route = .rtsp) ∧
    classify (ascii "PLAYX") (ascii "/") (ascii "HTTP/1.1") = .none ∧
    (∀ evs, cleanEvs evs → ∃ r, genServe (ascii "GETX rtsp://h/ RTSP/1.0\r\n\r\n") evs = .ok r ∧ svcOfRoute r.route = .http) ∧
    classify (ascii "GETX") (ascii "rtsp://h/") (ascii "RTSP/1.0") = .none := by
  refine ⟨fun evs hc => ?_, by decide, fun evs hc => ?_, by decide⟩
  · obtain ⟨r, hr, hs, _⟩ := c19_route_by_prefix (ascii "PLAYX / HTTP/1.1\r\n\r\n") evs hc
    exact ⟨r, hr, by rw [hs]; decide⟩
  · obtain ⟨r, hr, hs, _⟩ := c19_route_by_prefix (ascii "GETX rtsp://h/ RTSP/1.0\r\n\r\n") evs hc
    exact ⟨r, hr, by rw [hs]; decide⟩

/-- The decision rule on the forms named in the property statement (tests of the
    specification, not the unbounded claim). -/
theorem c19_rule_examples :
    classify (ascii "OPTIONS") (ascii "*") (ascii "RTSP/1.0") = .rtsp ∧
    classify (ascii "OPTIONS") (ascii "*") (ascii "HTTP/1.1") = .http ∧
    classify (ascii "OPTIONS") (ascii "rtsp://cam/live") (ascii "RTSP/1.0") = .rtsp ∧
    classify (ascii "OPTIONS") (ascii "/index.html") (ascii "HTTP/1.1") = .http ∧
    classify (ascii "DESCRIBE") (ascii "rtsp://cam/live") (ascii "RTSP/1.0") = .rtsp ∧
    classify (ascii "GET_PARAMETER") (ascii "rtsp://cam/live") (ascii "RTSP/1.0") = .rtsp ∧
    classify (ascii "GET") (ascii "/") (ascii "HTTP/1.1") = .http ∧
    classify (ascii "BREW") (ascii "/") (ascii "HTTP/1.1") = .none := by
  decide

/-- non-vacuity: the hypotheses of `c19_classify` are met by ordinary request lines, a script
    of three segments is clean, and `c19_replay`'s script hypothesis by a script with a
    time-out in it -/
example : tokenOK (ascii "OPTIONS") = true ∧ tokenOK (ascii "rtsp://cam/live") = true ∧
    extendsListed (ascii "OPTIONS") = false ∧ extendsListed (ascii "BREW") = false ∧
    lineEnd (ascii "\r\nCSeq: 1\r\n\r\n") := by
  refine ⟨by decide, by decide, by decide, by decide, Or.inr ⟨13, _, rfl, Or.inl rfl⟩⟩
example : cleanEvs [.deliver 3, .deliver 1, .deliver 4000] := by
  intro e he; simp at he; rcases he with h | h | h <;> exact ⟨_, h⟩
example : noDataErr [.deliver 3, .fail .timeout, .deliver 7] := by
  intro e he n x; simp at he; rcases he with h | h | h <;> subst h <;> simp

end IpcHub.Props.C19
