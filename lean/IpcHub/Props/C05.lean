/-
C05 — One live stream per path; replace/unregister/idle-close keep the registry consistent.
Property theorems only.
-/
import IpcHub.Model.RegistryInst
import IpcHub.Spec.Registry
namespace IpcHub.Props.C05
open IpcHub.Registry

theorem c05_source_facts_wip : IpcHub.Gen.registryFactsUnknown = [] := by decide

end IpcHub.Props.C05
