/-
C05 — One live stream per path; replace / unregister / idle-close keep the registry consistent.
Property theorems only; the proofs' helper lemmas live in IpcHub/Lemmas/{Registry,RegistryRefine,
RegistryLts,CanonPath}.lean.  Models: Model/Registry.lean (media/global.go, the registry-relevant part
of media/stream.go, onStopStream), Model/RegistryLts.lean (the bodies of Regist / Unregist as
interleavable micro-steps), Model/CanonPath.lean (utils/path.go).  Specification: Spec/Registry.lean.
-/
import IpcHub.Model.RegistryInst
import IpcHub.Lemmas.Registry
import IpcHub.Lemmas.RegistryRefine
import IpcHub.Lemmas.RegistryLts
import IpcHub.Lemmas.CanonPath
import IpcHub.Lemmas.CanonPathSpell
namespace IpcHub.Props.C05
open IpcHub.CanonPath IpcHub.Registry IpcHub.RegistrySpec IpcHub.RegistryLts

/-- The source facts the theorems rest on, regenerated from /repo on every run: the call order and
    guards of Regist / Unregist / Get / Count / Infos / GetOrCreate, the idle task's period, fields and
    decision, the one-pass body and fixed-point loop of CanonicalPath, NewStream's canonicalisation,
    ConsumerCount over both tables, onStopStream's two calls. A source change that flips one of them
    breaks this proof. -/
theorem c05_source_facts :
    IpcHub.Gen.registryFactsUnknown = [] ∧
    IpcHub.Gen.registCalls = ["registLock.Lock()", "defer registLock.Unlock()", "streams.Load(s.path)",
      "streams.Store(s.path, s)", "oldS.ConsumerCount()", "oldS.close(StreamReplaced)",
      "runZeroConsumersCloseTask(oldS, StreamReplaced)"] ∧
    IpcHub.Gen.registCallsConds = ["s == oldSI", "ok", "oldS.ConsumerCount() <= 0"] ∧
    IpcHub.Gen.registStoreGuard = [] ∧
    IpcHub.Gen.registCloseGuard = ["ok", "oldS.ConsumerCount() <= 0"] ∧
    IpcHub.Gen.registTaskGuard = ["ok", "!(oldS.ConsumerCount() <= 0)"] ∧
    IpcHub.Gen.unregistCalls = ["registLock.Lock()", "defer registLock.Unlock()", "streams.Load(s.path)",
      "streams.Delete(s.path)", "s.Close()"] ∧
    IpcHub.Gen.unregistCallsConds = ["ok", "s2 == s"] ∧
    IpcHub.Gen.unregistDeleteGuard = ["ok", "s2 == s"] ∧
    IpcHub.Gen.unregistCloseGuard = [] ∧
    IpcHub.Gen.registLocked = true ∧ IpcHub.Gen.unregistLocked = true ∧ IpcHub.Gen.registLockIsMutex = true ∧
    IpcHub.Gen.getCalls = ["utils.CanonicalPath(path)", "streams.Load(path)"] ∧
    IpcHub.Gen.getCallsConds = ["ok", "atomic.LoadInt32(&s.status) == StreamOK"] ∧
    IpcHub.Gen.countConds = ["atomic.LoadInt32(&s.status) != StreamOK"] ∧
    IpcHub.Gen.infosConds = ["atomic.LoadInt32(&s.status) != StreamOK", "v.Path > pagetoken", "pagesize > len(ss)"] ∧
    IpcHub.Gen.lookupSkipsClosed = true ∧
    IpcHub.Gen.idlePeriod = "time.Minute * 5" ∧
    IpcHub.Gen.idleTaskFields = ["s=s", "d=time.Minute * 5", "closedStats=closedStatus"] ∧
    IpcHub.Gen.idleRunConds = ["r.s.ConsumerCount() <= 0", "pl == nil || time.Now().Sub(pl.LastAccessTime()) >= r.d"] ∧
    IpcHub.Gen.idleRunAssigns = ["pl := r.s.hlsPlaylist", "r.closed = true"] ∧
    IpcHub.Gen.idleRunCalls = ["r.s.close(r.closedStats)"] ∧
    IpcHub.Gen.idleNextConds = ["r.closed"] ∧
    IpcHub.Gen.idleCountsFlv = true ∧ IpcHub.Gen.idleNilSafe = true ∧
    IpcHub.Gen.getOrCreateTaskGuard = ["r != nil", "psf.Can(r.URL)", "err == nil", "!r.KeepAlive"] ∧
    IpcHub.Gen.getOrCreateCalls = ["Get(path)", "utils.CanonicalPath(path)", "route.Match(path)", "psf.Can(r.URL)",
      "psf.Create(r.Pattern, r.URL)", "runZeroConsumersCloseTask(s, StreamNoConsumer)"] ∧
    IpcHub.Gen.streamCloseConds = ["atomic.LoadInt32(&s.status) != StreamOK", "status != StreamReplaced", "s.tsMuxer != nil"] ∧
    IpcHub.Gen.infosSort = ["sort.Slice", "ss[i].Path < ss[j].Path"] ∧
    IpcHub.Gen.infosReturns = ["count, ss", "count, ss[:pagesize]"] ∧
    IpcHub.Gen.getStreamInfoCalls = ["media.Get(path)", "rt.Info(includeCS)"] ∧
    IpcHub.Gen.streamInfoFields = ["Path=s.path", "ConsumptionCount=s.ConsumerCount()"] ∧
    IpcHub.Gen.unregistAllCalls = ["streams.Range", "streams.Delete(key)", "s.Close()"] ∧
    IpcHub.Gen.consumerCountExpr = "s.consumptions.Count() + s.flvConsumptions.Count()" ∧
    IpcHub.Gen.newStreamPath = "utils.CanonicalPath(path)" ∧
    IpcHub.Gen.stopStreamCalls = ["media.Get(path)", "rt.Close()"] ∧
    IpcHub.Gen.canonCalls = ["strings.ToLower(strings.TrimSpace(p))", "strings.TrimSpace(p)", "path.Clean(p)", "strings.HasPrefix(p, np)"] ∧
    IpcHub.Gen.canonConds = ["p == \"\"", "p[0] != '/'", "p[len(p)-1] == '/' && np != \"/\"", "len(p) == len(np)+1 && strings.HasPrefix(p, np)"] ∧
    IpcHub.Gen.canonStmts = ["p = strings.ToLower(strings.TrimSpace(p))", "return \"/\"", "p = \"/\" + p", "np := path.Clean(p)", "np = p", "np += \"/\"", "return np"] ∧
    IpcHub.Gen.canonLoopStmts = ["np := canonicalPath(p)", "p, np = np, canonicalPath(np)", "return np"] ∧
    IpcHub.Gen.canonLoopCond = "np != p" := by
  decide

/-- the regenerated facts are exactly the ones the property needs -/
theorem c05_facts_good : genFacts = good := by decide

/-- **Refinement (headline).**  For EVERY history of registry operations — create / register /
    unregister / close / API-stop / consumer join and leave / idle ticks / HLS access / passing of time /
    lookups under any spelling / count / paged listing / per-stream info (path and consumer count of the
    stream a path resolves to) / liveness probes, of any length over any paths — every observation of
    the model of the current source equals the observation of the specification `Spec/Registry.lean`:
    a lookup returns the most recently registered, not since unregistered, not closed stream of the
    canonical path; counts and listings are those of the live streams; the idle task closes exactly when
    nothing is attached and there was no recent HLS access. -/
theorem c05_refines (cfg : Cfg) (ops : List Op) :
    runObs cfg genFacts State.empty ops = specObs cfg Abs.empty ops := by
  rw [c05_facts_good]; exact refines cfg ops

/-- In the specification a path resolves to at most one stream, and only to a live one that owns it
    (this is what `c05_refines` transfers to the model's `Get`). -/
theorem c05_spec_resolve_live (a : Abs) (cp : Path) (i : Nat) (h : a.resolve cp = some i) :
    a.owner cp = some i ∧ a.closed i = false := by
  unfold Abs.resolve at h
  split at h
  · rename_i o ho
    by_cases hc : a.closed o = true
    · simp [hc] at h
    · simp [hc] at h; subst h; exact ⟨ho, by simpa using hc⟩
  · simp at h

/-- **One entry per path.**  In every reachable state the registry has no duplicate key and every entry
    maps a path to a stream created under exactly that (canonical) path. -/
theorem c05_one_stream_per_path (cfg : Cfg) (f : Facts) (ops : List Op) :
    let st := run cfg f State.empty ops
    (st.reg.map Prod.fst).Nodup ∧
    ∀ k i, load st.reg k = some i → ∃ s, st.streams[i]? = some s ∧ s.path = k :=
  (reachable_inv cfg f ops).1

/-- **The most recently registered stream is the one a lookup returns**, under every spelling `q` of the
    path it was created under (`p`): different case, surrounding blanks, doubled slashes, dot segments —
    anything with the same canonical form. -/
theorem c05_newest_wins (cfg : Cfg) (f : Facts) (ops : List Op) (p q : Path) (hasHls : Bool)
    (hq : canonicalPath cfg q = canonicalPath cfg p) :
    let st := run cfg f State.empty ops
    get cfg f (regist (newStream cfg st p hasHls).1 (newStream cfg st p hasHls).2) q
      = some (newStream cfg st p hasHls).2 := by
  intro st
  have hs : (newStream cfg st p hasHls).1.streams[(newStream cfg st p hasHls).2]? =
      some { path := canonicalPath cfg p, status := .ok, rtp := [], flv := [], seed := 0,
             hls := if hasHls then some st.now else none } := by
    simp [newStream]
  have h := regist_newest_wins hs rfl
  unfold Registry.get
  rw [hq]
  simp only [] at h
  rw [h.1]
  have hv : visible f (regist (newStream cfg st p hasHls).1 (newStream cfg st p hasHls).2)
      (newStream cfg st p hasHls).2 = true := by
    have := h.2
    unfold isOk at this
    unfold visible
    split at this
    · rename_i s' hs'; rw [hs']; simp at this; simp [this]
    · simp at this
  simp [hv]

/-- the canonical form is a projection: canonicalising twice changes nothing (ASCII instance: the
    unbounded Go loop is modelled with fuel `len+2`, which is proved never to run out) -/
theorem c05_canon_idem (p : List Char) :
    canonicalPath asciiCfg (canonicalPath asciiCfg p) = canonicalPath asciiCfg p :=
  ascii_canonicalPath_idem p

/-- the same for any character functions with: lower idempotent, '/' not a blank, lower '/' = '/' -/
theorem c05_canon_idem_generic (cfg : Cfg) (h : HMin cfg) (p : List Char) :
    canonicalPath cfg (canonicalPath cfg p) = canonicalPath cfg p :=
  canonicalPath_idem_min h p

/-- a canonical path is a fixed point of one pass and begins with '/' -/
theorem c05_canon_shape (p : List Char) :
    canonicalOnce asciiCfg (canonicalPath asciiCfg p) = canonicalPath asciiCfg p ∧
    (canonicalPath asciiCfg p).head? = some '/' :=
  ⟨ascii_canonicalPath_stable p, canonicalPath_head asciiCfg p⟩

/-- **Spellings of the same path.**  Any mixed-case spelling (p and q equal after lower-casing), blanks
    around the path, an added leading '/', and every '/' doubled all have the same canonical form — so by
    `c05_newest_wins` they all resolve to the same stream.  (ASCII instance; the generic versions in
    Lemmas/CanonPathSpell.lean need lower idempotent, '/' not a blank, lower fixing exactly '/', blanks
    invariant under lower.) -/
theorem c05_canon_spellings (p q l r : List Char)
    (hcase : p.map asciiLower = q.map asciiLower)
    (hl : ∀ c ∈ l, asciiSpace c = true) (hr : ∀ c ∈ r, asciiSpace c = true) :
    canonicalPath asciiCfg p = canonicalPath asciiCfg q ∧
    canonicalPath asciiCfg (p.map asciiUpper) = canonicalPath asciiCfg p ∧
    canonicalPath asciiCfg (l ++ p ++ r) = canonicalPath asciiCfg p ∧
    canonicalPath asciiCfg ('/' :: trim asciiSpace p) = canonicalPath asciiCfg p ∧
    canonicalPath asciiCfg (doubleSlashes p) = canonicalPath asciiCfg p :=
  ⟨ascii_canonicalPath_case hcase, ascii_canonicalPath_map_upper p, ascii_canonicalPath_surround l p r hl hr,
   canonicalPath_cons_slash_trim asciiCfg_HMin p, ascii_canonicalPath_doubleSlashes p⟩

/-- hence a registered live stream is found under the path it reports (`Get(s.Path()) == s`):
    registering stream i created under spelling p, then looking up its own stored path -/
theorem c05_listed_path_resolves (f : Facts) (ops : List Op) (p : Path) (hasHls : Bool) :
    let st := run asciiCfg f State.empty ops
    get asciiCfg f (regist (newStream asciiCfg st p hasHls).1 (newStream asciiCfg st p hasHls).2)
      (canonicalPath asciiCfg p) = some (newStream asciiCfg st p hasHls).2 :=
  c05_newest_wins asciiCfg f ops p (canonicalPath asciiCfg p) hasHls (c05_canon_idem p)

/-- **A closed or unregistered stream is never returned by lookup** — not now and not after any further
    history: once a stream's status is not StreamOK, no lookup under any path returns it. -/
theorem c05_closed_never_returned (cfg : Cfg) (ops1 ops2 : List Op) (i : Nat) (p : Path) :
    let st1 := run cfg genFacts State.empty ops1
    i < st1.streams.length → isOk st1 i = false →
    get cfg genFacts (run cfg genFacts st1 ops2) p ≠ some i := by
  intro st1 hi hc hget
  have h1 := run_closed_forever cfg genFacts st1 ops2 i hc hi
  have h2 := get_some_ok (f := genFacts) (by decide) hget
  rw [h1] at h2; cases h2

/-- unregistering, closing (also through the API's stop) leaves the stream not-OK, so the previous
    theorem applies from then on -/
theorem c05_unregist_close_make_not_ok (st : State) (i : Nat) :
    isOk (unregist st i) i = false ∧ isOk (closeStream st i false) i = false :=
  ⟨isOk_unregist_self st i, isOk_closeStream_self st i false⟩

/-- **Every lookup entry point gives the same answer, in every reachable state** — in particular in the
    state "closed but still registered" (closed by its owner, the API's stop or the idle task before the
    publisher has unregistered it).  `get` is the lookup of `Get`, of the info API and — by the source fact
    `getOrCreateCalls` (its first call is `Get(path)`; an obligation of `c05_source_facts`) — of
    `GetOrCreate`, the lookup of every consumer path; `listed` is what `Count` and `Infos` enumerate.
    A path resolves to stream i exactly when (canonical path, i) is listed, and then i is StreamOK: no lookup
    returns a stream the listings do not show, and none returns a closed one. -/
theorem c05_lookups_agree (cfg : Cfg) (ops : List Op) (p : Path) (i : Nat) :
    let st := run cfg genFacts State.empty ops
    (get cfg genFacts st p = some i ↔ (canonicalPath cfg p, i) ∈ listed genFacts st) ∧
    (get cfg genFacts st p = some i → isOk st i = true) := by
  intro st
  have hn : (st.reg.map Prod.fst).Nodup := (c05_one_stream_per_path cfg genFacts ops).1
  refine ⟨⟨fun h => ?_, fun h => ?_⟩, fun h => get_some_ok (by decide) h⟩
  · unfold listed
    exact List.mem_filter.mpr ⟨mem_of_load (get_some_registered h), by simpa using get_some_visible h⟩
  · unfold listed at h
    obtain ⟨hm, hv⟩ := List.mem_filter.mp h
    have hl := (load_iff_mem hn _ _).mpr hm
    unfold Registry.get
    rw [hl]
    simp only [] at hv
    simp [hv]

/-- **Registering retires the old stream: at once if it has no consumers**, else by a pending
    replaced-task (one more unfinished task watches it). -/
theorem c05_regist_retires_old (cfg : Cfg) (f : Facts) (ops : List Op) (i o : Nat) (s : Stream) :
    let st := run cfg f State.empty ops
    st.streams[i]? = some s → load st.reg s.path = some o → o ≠ i →
    (ccOf st o ≤ 0 → isOk (regist st i) o = false) ∧
    (ccOf st o > 0 → pendingTasks (regist st i) o = pendingTasks st o + 1 ∧
      ∃ t ∈ (regist st i).tasks, t.sid = o ∧ t.replaced = true) := by
  intro st hs hl hne
  exact regist_displaced (reachable_inv cfg f ops).1 hs hl hne

/-- **Whatever displaces a registered stream retires it**: for all histories, if path k resolved to
    stream o at some moment and does not any more later, then o is closed, or watched by a
    replaced-task that closes it once its consumers are gone. -/
theorem c05_displaced_is_retired (cfg : Cfg) (f : Facts) (ops1 ops2 : List Op) (k : Path) (o : Nat) :
    let st1 := run cfg f State.empty ops1
    load st1.reg k = some o → load (run cfg f st1 ops2).reg k ≠ some o →
    retired (run cfg f st1 ops2) o :=
  displaced_retired cfg f ops1 ops2 k o

/-- **Unregistering a retired stream never removes its successor**: if the path of stream i is not
    (any longer) mapped to i, `Unregist(i)` leaves the registry and every other stream untouched. -/
theorem c05_unregist_keeps_successor (st : State) (i : Nat) (s : Stream)
    (hs : st.streams[i]? = some s) (hne : load st.reg s.path ≠ some i) :
    (unregist st i).reg = st.reg ∧ ∀ j, j ≠ i → (unregist st i).streams[j]? = st.streams[j]? :=
  unregist_not_owner hs hne

/-- **Idle close only when unused**: if a run of the idle task turns a live stream into a closed one,
    that stream had no consumer in either table (RTP and FLV) and, if it has an HLS playlist, its last
    access is at least the period ago; nothing else is touched. -/
theorem c05_idle_only_when_unused (st st' : State) (t d : Nat) (r : TickResult) (task : Task) (s : Stream)
    (ht : tick genFacts st t d = (st', r)) (htask : st.tasks[t]? = some task)
    (hs : st.streams[task.sid]? = some s) (hok : s.status = .ok) (hc : isOk st' task.sid = false) :
    (s.rtp = [] ∧ s.flv = []) ∧ (∀ last, s.hls = some last → st.now - last ≥ d) ∧
    st'.reg = st.reg ∧ (∀ j, j ≠ task.sid → st'.streams[j]? = st.streams[j]?) := by
  have h := tick_close_only_idle ht htask hs hok hc
  have hf := tick_frame genFacts st t d
  rw [ht] at hf
  exact ⟨h.1 (by decide), h.2.2, hf.1, hf.2 task htask⟩

/-- **Counts and listings match the live set**: in every reachable state `Count` counts exactly the
    registry keys whose lookup succeeds (each once: keys are duplicate-free), sums the consumers of
    exactly those streams, and `Infos` reports the same total. -/
theorem c05_counts_match_live (cfg : Cfg) (ops : List Op) (token : Path) (size : Nat) :
    let st := run cfg genFacts State.empty ops
    (count genFacts st).1 = ((st.reg.map Prod.fst).filter (fun k => (lookup genFacts st k).isSome)).length ∧
    (count genFacts st).2 = (((st.reg.map Prod.fst).filterMap (lookup genFacts st)).map (ccOf st)).foldl (· + ·) 0 ∧
    (infos genFacts st token size).1 = (count genFacts st).1 := by
  intro st
  have hw := (reachable_inv cfg genFacts ops).1
  exact ⟨count_fst hw, count_snd hw, infos_fst genFacts st token size⟩

/-- **Racing registrations / unregistrations (any number of threads, any interleaving).**  With the
    lock the source takes (`registLocked`, `unregistLocked`, `registLockIsMutex` are regenerated
    facts), whenever all threads have finished, the registry state is the state after executing the
    operations one after the other in the order in which they entered the critical section, and that
    order is a permutation of the operations: every sequential theorem above applies to the outcome
    of every race. -/
theorem c05_regist_race_linearizable (st0 : State) (ops : List ROp) (sched : List Nat) :
    let locked := IpcHub.Gen.registLocked && IpcHub.Gen.unregistLocked && IpcHub.Gen.registLockIsMutex
    let c := runSched locked (initC st0 ops) sched
    allDone c = true → c.st = seqRun st0 c.lin ∧ c.lin.Perm ops := by
  have hl : (IpcHub.Gen.registLocked && IpcHub.Gen.unregistLocked && IpcHub.Gen.registLockIsMutex) = true := by decide
  simp only [hl]
  exact linearizable st0 ops sched

/-- and no schedule deadlocks: while a thread is unfinished some thread can step -/
theorem c05_regist_race_progress (st0 : State) (ops : List ROp) (sched : List Nat) :
    let c := runSched true (initC st0 ops) sched
    allDone c = false → ∃ t, (stepThread true c t).isSome = true :=
  quiescent_progress st0 ops sched

/-- Two publishers / two on-demand pulls racing for one path: after any interleaving exactly one of the
    two new streams is registered and the other one is retired (closed at once, having no consumers). -/
theorem c05_two_racers_one_registered (sched : List Nat)
    (hd : allDone (runSched true (initC cexSt cexOps) sched) = true) :
    let st := (runSched true (initC cexSt cexOps) sched).st
    (load st.reg cexPath = some 1 ∧ isOk st 1 = true ∧ isOk st 2 = false) ∨
    (load st.reg cexPath = some 2 ∧ isOk st 2 = true ∧ isOk st 1 = false) := by
  obtain ⟨l, hp, hst⟩ := serial_outcome cexSt cexOps sched hd
  intro st
  have hst' : st = seqRun cexSt l := hst
  rcases perm_pair hp with h | h
  · right; rw [hst', h]; decide
  · left; rw [hst', h]; decide

/-- Why the lock is needed (the code before the fix, `locked = false`): the schedule the harness forces
    through the verif points — first Regist paused after its Load, second Regist run, first resumed —
    ends with stream 1 registered and stream 2 still live, unregistered and never retired; this
    differs from both serial orders.  Replayed on the implementation: corpus/C05/regist-race.case. -/
theorem c05_unlocked_race_counterexample :
    allDone cexFinal = true ∧
    load cexFinal.st.reg cexPath = some 1 ∧ isOk cexFinal.st 1 = true ∧ isOk cexFinal.st 2 = true ∧
    pendingTasks cexFinal.st 2 = 0 ∧
    ∀ l : List ROp, l.Perm cexOps → cexFinal.st.streams ≠ (seqRun cexSt l).streams :=
  ⟨unlocked_counterexample.1, unlocked_counterexample.2.2.2.1, unlocked_counterexample.2.2.2.2.2.1,
   unlocked_counterexample.2.2.2.2.2.2.1, unlocked_counterexample.2.2.2.2.2.2.2.1, unlocked_not_serial.2⟩

/-- Why the other facts are needed — the old behaviours as theorems about the model with the old facts
    (witnesses in corpus/C05): a stream closed through the API was still returned by Get and counted;
    the idle task closed a stream with an FLV consumer; for a stream without playlist it panicked. -/
theorem c05_old_facts_counterexamples :
    let old : Facts := { idleCountsFlv := false, idleNilSafe := false, lookupSkipsClosed := false }
    let p : Path := ['/', 'a']
    -- new, regist, close, get, count
    runObs asciiCfg old State.empty [.new p true, .regist 0, .close 0, .get p, .count]
      = [.sid (some 0), .unit, .unit, .sid (some 0), .cnt 1 0] ∧
    specObs asciiCfg Abs.empty [.new p true, .regist 0, .close 0, .get p, .count]
      = [.sid (some 0), .unit, .unit, .sid none, .cnt 0 0] ∧
    -- new, regist, idle task, FLV join, tick
    runObs asciiCfg old State.empty [.new p true, .regist 0, .postIdle 0, .join 0 true, .tick 0 0, .get p]
      = [.sid (some 0), .unit, .unit, .cid (some 1), .tick (.ran true), .sid (some 0)] ∧
    specObs asciiCfg Abs.empty [.new p true, .regist 0, .postIdle 0, .join 0 true, .tick 0 0, .get p]
      = [.sid (some 0), .unit, .unit, .cid (some 1), .tick (.ran false), .sid (some 0)] ∧
    -- no playlist: the decision panics
    runObs asciiCfg old State.empty [.new p false, .postIdle 0, .tick 0 0]
      = [.sid (some 0), .unit, .tick .panic] := by
  decide

/-! non-vacuity: the hypotheses of the conditional theorems are met by concrete non-trivial states -/

/-- `c05_regist_retires_old`: a reachable state in which path /a is held by stream 0 (with a consumer)
    and stream 1 on the same path is about to be registered -/
example :
    let st := run asciiCfg genFacts State.empty [.new ['/', 'a'] true, .new ['/', 'A'] false, .regist 0, .join 0 false]
    st.streams[1]?.map (·.path) = some ['/', 'a'] ∧ load st.reg ['/', 'a'] = some 0 ∧ ccOf st 0 > 0 := by decide

/-- `c05_closed_never_returned` / `c05_displaced_is_retired`: a reachable state with a closed, formerly
    registered stream -/
example :
    let st := run asciiCfg genFacts State.empty [.new ['/', 'a'] true, .regist 0, .stop [' ', 'A']]
    0 < st.streams.length ∧ isOk st 0 = false ∧ load st.reg ['/', 'a'] = some 0 := by decide

/-- `c05_idle_only_when_unused`: a tick that really closes a live stream -/
example :
    let st := run asciiCfg genFacts State.empty [.new ['/', 'a'] false, .regist 0, .postIdle 0]
    (tick genFacts st 0 300).2 = .ran true ∧ isOk st 0 = true ∧ isOk (tick genFacts st 0 300).1 0 = false := by decide

/-- `c05_idle_only_when_unused`, the recency clause with time passing: an HLS access 1000 s ago is recent
    for a one-hour period (the stream stays), 6000 s ago it is not (the stream is closed); and a stream with
    an attached FLV viewer stays whatever the age — model and specification agree (`c05_refines`) -/
example :
    let ops : List Op := [.new ['/', 'a'] true, .regist 0, .postIdle 0, .advance 1000, .tick 0 3600, .get ['/', 'a'],
      .advance 5000, .tick 0 3600, .get ['/', 'a']]
    runObs asciiCfg genFacts State.empty ops =
      [.sid (some 0), .unit, .unit, .unit, .tick (.ran false), .sid (some 0), .unit, .tick (.ran true), .sid none] ∧
    specObs asciiCfg Abs.empty ops = runObs asciiCfg genFacts State.empty ops := by decide

/-- the per-stream report of a path (GET /api/v1/streams/{path}): the canonical path the stream was created
    under and the consumers attached to it in both tables; nothing for a closed stream -/
example :
    let ops : List Op := [.new [' ', 'A'] false, .regist 0, .join 0 false, .join 0 true, .info ['a', '/', '.'],
      .close 0, .info ['/', 'a']]
    runObs asciiCfg genFacts State.empty ops =
      [.sid (some 0), .unit, .cid (some 1), .cid (some 2), .sinfo (some (['/', 'a'], 2)), .unit, .sinfo none] := by decide

/-- `c05_unregist_keeps_successor`: stream 0 was replaced by stream 1; unregistering 0 keeps 1 -/
example :
    let st := run asciiCfg genFacts State.empty [.new ['/', 'a'] true, .new ['a'] true, .regist 0, .regist 1]
    load st.reg ['/', 'a'] = some 1 ∧ load (unregist st 0).reg ['/', 'a'] = some 1 := by decide

/-- `c05_two_racers_one_registered`: its hypothesis holds for a real schedule -/
example : allDone (runSched true (initC cexSt cexOps) pauseSchedule) = true := by decide

/-- `c05_canon_spellings`: its hypotheses are met by a mixed-case pair and blank paddings -/
example : ['/', 'L', 'i', 'v', 'e'].map asciiLower = ['/', 'l', 'I', 'V', 'E'].map asciiLower ∧
    (∀ c ∈ [' ', '\t'], asciiSpace c = true) := by decide

/-- `c05_newest_wins`: two different spellings with the same canonical form -/
example : canonicalPath asciiCfg [' ', 'A', '/', '/', 'b', '/', '.'] = canonicalPath asciiCfg ['/', 'a', '/', 'B'] := by decide

end IpcHub.Props.C05
