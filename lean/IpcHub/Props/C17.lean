/-
C17 — Route resolution: exact, else longest directory prefix; URL joined correctly.
Property theorems only; helper lemmas live in IpcHub/Lemmas/Route.lean, Lemmas/PathCanon.lean,
Lemmas/Tables.lean.  Model: Model/Route.lean (Match, pathMatch, init, CopyFrom),
Model/PathCanon.lean (CanonicalPath, path.Clean), Model/Tables.lean (Save/Del/…);
specification: Spec/RouteMatch.lean.
-/
import IpcHub.Lemmas.Route
import IpcHub.Lemmas.PathCanon
import IpcHub.Model.RouteInst
namespace IpcHub.Props.C17
open IpcHub.Route IpcHub.RouteSpec IpcHub.Tables

/-- The source facts the theorems rest on, regenerated from /repo on every run: Match tests
    the URL's last byte without indexing an empty string, works on a copy in both branches, runs
    under the read lock; CanonicalPath iterates to a fixed point; GetOrCreate canonicalises the
    path, resolves it with route.Match and hands `r.Pattern, r.URL` to the factory. -/
theorem c17_source_facts :
    IpcHub.Gen.routeFactsUnknown = [] ∧ IpcHub.Gen.matchUrlGuard = true ∧ IpcHub.Gen.matchCopies = true ∧
    IpcHub.Gen.matchCopiesExact = true ∧ IpcHub.Gen.matchReadLocked = true ∧ IpcHub.Gen.canonLoops = true ∧
    IpcHub.Gen.getOrCreateMatchArg = "path" ∧ IpcHub.Gen.getOrCreateCanonicalises = true ∧
    IpcHub.Gen.getOrCreateCreateArgs = "r.Pattern,r.URL" := by
  decide

/-- What the specification `resolve` means, clause by clause, for EVERY table with distinct
    patterns and EVERY request path (this is the property statement, in the terms of the
    abstract table): (1) a path whose canonical form ends in '/' resolves to nothing;
    (2) a route whose pattern equals the canonical path is the answer; (3) otherwise a
    directory route whose pattern is a prefix of the canonical path and at least as long as
    every other such pattern is the answer, published under the canonical path and with the
    remainder appended to its URL; (4) otherwise nothing. -/
theorem c17_spec_meaning (cfg : Cfg) (t : List Route) (p : List Char) (hnd : (t.map (·.pattern)).Nodup) :
    ((canon cfg p).getLast? = some '/' → resolve cfg t p = none) ∧
    ((canon cfg p).getLast? ≠ some '/' → ∀ r ∈ t, r.pattern = canon cfg p → resolve cfg t p = some r) ∧
    ((canon cfg p).getLast? ≠ some '/' → (∀ r ∈ t, r.pattern ≠ canon cfg p) →
      ∀ r ∈ t, r.pattern.getLast? = some '/' → isPrefix r.pattern (canon cfg p) = true →
        (∀ r' ∈ t, r'.pattern.getLast? = some '/' → isPrefix r'.pattern (canon cfg p) = true →
          r'.pattern.length ≤ r.pattern.length) →
        resolve cfg t p = some { pattern := canon cfg p
                                 url := joinSpec r.url ((canon cfg p).drop r.pattern.length)
                                 keepAlive := r.keepAlive }) ∧
    ((∀ r ∈ t, r.pattern ≠ canon cfg p) →
      (∀ r ∈ t, ¬ (r.pattern.getLast? = some '/' ∧ isPrefix r.pattern (canon cfg p) = true)) →
      resolve cfg t p = none) :=
  ⟨resolve_trailing_slash cfg t p,
   fun h r hr hp => resolve_exact cfg t p hnd h r hr hp,
   fun h hno r hr hd hpre hmax => resolve_directory cfg t p hnd h hno r hr hd hpre hmax,
   resolve_nothing cfg t p⟩

/-- Generic form.  For EVERY well-formed table (any size, any patterns and URLs), EVERY request
    path and any character functions: the model of `routetable.Match` — CanonicalPath, the
    trailing-slash test, the map lookup, the `for k, v := range t.m` loop with its carried `r`
    and `n`, the URL slicing — returns exactly what the specification prescribes and never
    panics, provided the last-byte test of the URL is guarded or no stored URL is empty. -/
theorem c17_match_spec_generic (cfg : Cfg) (s : State Route) (p : List Char)
    (hwf : WF (routeOps cfg) s) (hu : cfg.urlGuard = true ∨ ∀ kv ∈ s.m, kv.2.url ≠ []) :
    (matchImpl cfg s p).1 = outOf (resolve cfg s.l p) :=
  match_eq_resolve cfg s p hwf (PathCanon.canonicalPath_ne_nil _ _) hu

/-- C17 for the current source tree (model instantiated with the regenerated facts): no
    condition on the URLs any more. -/
theorem c17_match_spec (lower : Char → Char) (isSpace : Char → Bool) (urlOk : List Char → Bool)
    (s : State Route) (p : List Char) (hwf : WF (routeOps (genCfg lower isSpace urlOk)) s) :
    (matchImpl (genCfg lower isSpace urlOk) s p).1 = outOf (resolve (genCfg lower isSpace urlOk) s.l p) :=
  c17_match_spec_generic _ s p hwf (Or.inl c17_source_facts.2.1)

/-- The order in which `range t.m` visits the Go map cannot matter: for every permutation of
    the map's entries Match returns the same result (the longest matching directory pattern is
    unique). -/
theorem c17_order_independent (lower : Char → Char) (isSpace : Char → Bool) (urlOk : List Char → Bool)
    (s : State Route) (m' : List (Key × Route)) (p : List Char)
    (hwf : WF (routeOps (genCfg lower isSpace urlOk)) s) (hperm : m'.Perm s.m) :
    (matchImpl (genCfg lower isSpace urlOk) { s with m := m' } p).1 = (matchImpl (genCfg lower isSpace urlOk) s p).1 := by
  have hnd' : (m'.map (·.1)).Nodup := (hperm.map _).nodup_iff.2 hwf.nodup
  have hk' : ∀ kv ∈ m', (routeOps (genCfg lower isSpace urlOk)).key kv.2 = kv.1 :=
    fun kv h => hwf.keyed kv (hperm.mem_iff.1 h)
  rw [match_eq_resolve_map _ { s with m := m' } p hnd' hk' (PathCanon.canonicalPath_ne_nil _ _) (Or.inl c17_source_facts.2.1),
      match_eq_resolve_map _ s p hwf.nodup hwf.keyed (PathCanon.canonicalPath_ne_nil _ _) (Or.inl c17_source_facts.2.1)]
  congr 1
  apply resolve_perm _ (hperm.map _)
  have : (m'.map (·.2)).map (·.pattern) = m'.map (·.1) := by
    rw [List.map_map]; apply List.map_congr_left; intro kv h; exact hk' kv h
  rw [this]; exact hnd'

/-- A lookup never modifies the table: the state after `Match` is the state before (the
    generated fact says the writes to URL and Pattern go to a copy). -/
theorem c17_table_untouched (lower : Char → Char) (isSpace : Char → Bool) (urlOk : List Char → Bool)
    (s : State Route) (p : List Char) :
    (matchImpl (genCfg lower isSpace urlOk) s p).2 = s :=
  matchImpl_state _ s p c17_source_facts.2.2.1

end IpcHub.Props.C17
