/-
C17 — Route resolution: exact, else longest directory prefix; URL joined correctly.
Property theorems only; helper lemmas live in IpcHub/Lemmas/Route.lean, Lemmas/PathCanon.lean,
Lemmas/Tables.lean.  Model: Model/Route.lean (Match, pathMatch, init, CopyFrom),
Model/PathCanon.lean (CanonicalPath, path.Clean), Model/Tables.lean (Save/Del/…);
specification: Spec/RouteMatch.lean.
-/
import IpcHub.Lemmas.Route
import IpcHub.Lemmas.PathCanon3
import IpcHub.Lemmas.PathCanon4
import IpcHub.Lemmas.TableInst
import IpcHub.Model.RouteInst
namespace IpcHub.Props.C17
open IpcHub.Route IpcHub.RouteSpec IpcHub.Tables IpcHub.TableSpec IpcHub.EntrySpecs

/-- The source facts the theorems rest on, regenerated from /repo on every run: Match tests
    the URL's last byte without indexing an empty string, works on a copy in both branches, runs
    under the read lock; CanonicalPath iterates to a fixed point; GetOrCreate canonicalises the
    path, resolves it with route.Match and hands `r.Pattern, r.URL` to the factory. -/
theorem c17_source_facts :
    IpcHub.Gen.routeFactsUnknown = [] ∧ IpcHub.Gen.matchUrlGuard = true ∧ IpcHub.Gen.matchCopies = true ∧
    IpcHub.Gen.matchCopiesExact = true ∧ IpcHub.Gen.matchReadLocked = true ∧ IpcHub.Gen.canonLoops = true ∧
    IpcHub.Gen.getOrCreateMatchArg = "path" ∧ IpcHub.Gen.getOrCreateCanonicalises = true ∧
    IpcHub.Gen.getOrCreateCreateArgs = "r.Pattern,r.URL" := by
  decide

/-- The shape of the resolution code itself, regenerated from /repo on every run (compared as
    text): in `Match` the rule "a path ending in '/' resolves to nothing" stands BEFORE the exact
    lookup in the map (a directory pattern, which ends in '/', must never be returned as an exact
    hit); the loop over the map skips patterns that do not match and keeps the longest matching
    one; `pathMatch` compares a pattern without trailing '/' for equality and tests a directory
    pattern as a prefix under the guard `len(path) >= n`.  These are the statements the model
    `matchImpl` / `matchLoop` / `pathMatch` (Model/Route.lean) mirrors line by line. -/
theorem c17_resolution_shape_facts :
    IpcHub.Gen.matchSlashRuleFirst = true ∧ IpcHub.Gen.matchLoopKeepsLongest = true ∧
    IpcHub.Gen.pathMatchBody =
      "iflen(pattern)==0{returnfalse};n:=len(pattern);ifpattern[n-1]!='/'{returnpattern==path};returnlen(path)>=n&&path[0:n]==pattern" :=
  ⟨by decide, by decide, rfl⟩

/-- What the specification `resolve` means, clause by clause, for EVERY table with distinct
    patterns and EVERY request path (this is the property statement, in the terms of the
    abstract table): (1) a path whose canonical form ends in '/' resolves to nothing;
    (2) a route whose pattern equals the canonical path is the answer; (3) otherwise a
    directory route whose pattern is a prefix of the canonical path and at least as long as
    every other such pattern is the answer, published under the canonical path and with the
    remainder appended to its URL; (4) otherwise nothing. -/
theorem c17_spec_meaning (cfg : Cfg) (t : List Route) (p : List Char) (hnd : (t.map (·.pattern)).Nodup) :
    ((canon cfg p).getLast? = some '/' → resolve cfg t p = none) ∧
    ((canon cfg p).getLast? ≠ some '/' → ∀ r ∈ t, r.pattern = canon cfg p → resolve cfg t p = some r) ∧
    ((canon cfg p).getLast? ≠ some '/' → (∀ r ∈ t, r.pattern ≠ canon cfg p) →
      ∀ r ∈ t, r.pattern.getLast? = some '/' → isPrefix r.pattern (canon cfg p) = true →
        (∀ r' ∈ t, r'.pattern.getLast? = some '/' → isPrefix r'.pattern (canon cfg p) = true →
          r'.pattern.length ≤ r.pattern.length) →
        resolve cfg t p = some { pattern := canon cfg p
                                 url := joinSpec r.url ((canon cfg p).drop r.pattern.length)
                                 keepAlive := r.keepAlive }) ∧
    ((∀ r ∈ t, r.pattern ≠ canon cfg p) →
      (∀ r ∈ t, ¬ (r.pattern.getLast? = some '/' ∧ isPrefix r.pattern (canon cfg p) = true)) →
      resolve cfg t p = none) :=
  ⟨resolve_trailing_slash cfg t p,
   fun h r hr hp => resolve_exact cfg t p hnd h r hr hp,
   fun h hno r hr hd hpre hmax => resolve_directory cfg t p hnd h hno r hr hd hpre hmax,
   resolve_nothing cfg t p⟩

/-- Generic form.  For EVERY well-formed table (any size, any patterns and URLs), EVERY request
    path and any character functions: the model of `routetable.Match` — CanonicalPath, the
    trailing-slash test, the map lookup, the `for k, v := range t.m` loop with its carried `r`
    and `n`, the URL slicing — returns exactly what the specification prescribes and never
    panics, provided the last-byte test of the URL is guarded or no stored URL is empty. -/
theorem c17_match_spec_generic (cfg : Cfg) (s : State Route) (p : List Char)
    (hwf : WF (routeOps cfg) s) (hu : cfg.urlGuard = true ∨ ∀ kv ∈ s.m, kv.2.url ≠ []) :
    (matchImpl cfg s p).1 = outOf (resolve cfg s.l p) :=
  match_eq_resolve cfg s p hwf (PathCanon.canonicalPath_ne_nil _ _) hu

/-- C17 for the current source tree (model instantiated with the regenerated facts): no
    condition on the URLs any more. -/
theorem c17_match_spec (lower : Char → Char) (isSpace : Char → Bool) (urlOk : List Char → Bool)
    (s : State Route) (p : List Char) (hwf : WF (routeOps (genCfg lower isSpace urlOk)) s) :
    (matchImpl (genCfg lower isSpace urlOk) s p).1 = outOf (resolve (genCfg lower isSpace urlOk) s.l p) :=
  c17_match_spec_generic _ s p hwf (Or.inl c17_source_facts.2.1)

/-- "A path that itself ends in '/' resolves to nothing", in terms of the RAW request: for EVERY
    well-formed table and EVERY request whose text ends in '/' once the blanks around it are
    trimmed (whatever "." / ".." / double slashes / upper-case letters it contains — "/cam/",
    " /CAM/x/../ ", "/"), the specification resolves it to nothing and so does the model of
    `Match`, even when that very directory pattern is stored in the table. -/
theorem c17_raw_trailing_slash (lower : Char → Char) (isSpace : Char → Bool) (urlOk : List Char → Bool)
    (h1 : ∀ c, lower (lower c) = lower c) (h2 : lower '/' = '/') (h3 : isSpace '/' = false)
    (s : State Route) (p : List Char) (hwf : WF (routeOps (genCfg lower isSpace urlOk)) s)
    (hp : (PathCanon.trim isSpace p).getLast? = some '/') :
    resolve (genCfg lower isSpace urlOk) s.l p = none ∧ (matchImpl (genCfg lower isSpace urlOk) s p).1 = .none := by
  have hc : (canon (genCfg lower isSpace urlOk) p).getLast? = some '/' :=
    PathCanon.canonicalPath_trailing _ ⟨h1, h2, h3⟩ p hp
  have hr := resolve_trailing_slash (genCfg lower isSpace urlOk) s.l p hc
  exact ⟨hr, by rw [c17_match_spec lower isSpace urlOk s p hwf, hr]; rfl⟩

/-- non-vacuity: " /CAM/x/../ " ends in '/' once trimmed, and "/cam/" itself is a stored pattern -/
example : (PathCanon.trim PathCanon.asciiSpace " /CAM/x/../ ".toList).getLast? = some '/' ∧
    canon (genCfg PathCanon.asciiLower PathCanon.asciiSpace (fun _ => true)) " /CAM/x/../ ".toList = "/cam/".toList := by
  decide

/-- non-vacuity of `WF`: a table in which an exact route shadows a directory route, under a
    catch-all "/" -/
example : WF (routeOps (genCfg PathCanon.asciiLower PathCanon.asciiSpace (fun _ => true)))
    { m := [("/a/".toList, ⟨"/a/".toList, "rtsp://h/x".toList, false⟩), ("/a/b".toList, ⟨"/a/b".toList, "rtsp://h/y/".toList, true⟩),
            ("/".toList, ⟨"/".toList, "rtsp://h".toList, false⟩)]
      l := [⟨"/a/".toList, "rtsp://h/x".toList, false⟩, ⟨"/a/b".toList, "rtsp://h/y/".toList, true⟩, ⟨"/".toList, "rtsp://h".toList, false⟩]
      saves := [], removes := [] } :=
  ⟨by decide, by decide, by decide⟩

/-- … on which the model resolves the three shapes named in the statement (a test of the model
    on literals, not the unbounded claim): exact hit, nested directory, catch-all, trailing slash -/
example :
    let cfg := genCfg PathCanon.asciiLower PathCanon.asciiSpace (fun _ => true)
    let s : State Route :=
      { m := [("/a/".toList, ⟨"/a/".toList, "rtsp://h/x".toList, false⟩), ("/a/b".toList, ⟨"/a/b".toList, "rtsp://h/y/".toList, true⟩),
              ("/".toList, ⟨"/".toList, "rtsp://h".toList, false⟩)]
        l := [⟨"/a/".toList, "rtsp://h/x".toList, false⟩, ⟨"/a/b".toList, "rtsp://h/y/".toList, true⟩, ⟨"/".toList, "rtsp://h".toList, false⟩]
        saves := [], removes := [] }
    (matchImpl cfg s " /A/B ".toList).1 = .found ⟨"/a/b".toList, "rtsp://h/y/".toList, true⟩ ∧
    (matchImpl cfg s "/a/b/c".toList).1 = .found ⟨"/a/b/c".toList, "rtsp://h/x/b/c".toList, false⟩ ∧
    (matchImpl cfg s "/z".toList).1 = .found ⟨"/z".toList, "rtsp://h/z".toList, false⟩ ∧
    (matchImpl cfg s "/a/b/".toList).1 = .none := by
  decide

/-- The order in which `range t.m` visits the Go map cannot matter: for every permutation of
    the map's entries Match returns the same result (the longest matching directory pattern is
    unique). -/
theorem c17_order_independent (lower : Char → Char) (isSpace : Char → Bool) (urlOk : List Char → Bool)
    (s : State Route) (m' : List (Key × Route)) (p : List Char)
    (hwf : WF (routeOps (genCfg lower isSpace urlOk)) s) (hperm : m'.Perm s.m) :
    (matchImpl (genCfg lower isSpace urlOk) { s with m := m' } p).1 = (matchImpl (genCfg lower isSpace urlOk) s p).1 := by
  have hnd' : (m'.map (·.1)).Nodup := (hperm.map _).nodup_iff.2 hwf.nodup
  have hk' : ∀ kv ∈ m', (routeOps (genCfg lower isSpace urlOk)).key kv.2 = kv.1 :=
    fun kv h => hwf.keyed kv (hperm.mem_iff.1 h)
  rw [match_eq_resolve_map _ { s with m := m' } p hnd' hk' (PathCanon.canonicalPath_ne_nil _ _) (Or.inl c17_source_facts.2.1),
      match_eq_resolve_map _ s p hwf.nodup hwf.keyed (PathCanon.canonicalPath_ne_nil _ _) (Or.inl c17_source_facts.2.1)]
  congr 1
  apply resolve_perm _ (hperm.map _)
  have : (m'.map (·.2)).map (·.pattern) = m'.map (·.1) := by
    rw [List.map_map]; apply List.map_congr_left; intro kv h; exact hk' kv h
  rw [this]; exact hnd'

/-- The URL join of a directory match.  For EVERY request path and every directory pattern that
    is a prefix of its canonical form (which does not end in '/'): the remainder of the path after
    the pattern is non-empty and does not begin with '/', and the target URL is the route URL
    followed by the remainder with exactly one '/' between them — the URL's own trailing '/' if
    it has one, an inserted one otherwise. -/
theorem c17_url_join (cfg : Cfg) (p pattern url : List Char)
    (hd : pattern.getLast? = some '/') (hpre : isPrefix pattern (canon cfg p) = true)
    (hnd : (canon cfg p).getLast? ≠ some '/') :
    let rest := (canon cfg p).drop pattern.length
    canon cfg p = pattern ++ rest ∧ rest ≠ [] ∧ rest.head? ≠ some '/' ∧
    joinSpec url rest = (if url.getLast? = some '/' then url ++ rest else url ++ '/' :: rest) := by
  obtain ⟨rest, hrest⟩ := (isPrefix_iff _ _).1 hpre
  have hdrop : (canon cfg p).drop pattern.length = rest := by rw [hrest]; simp
  simp only [hdrop]
  obtain ⟨pre, hpat⟩ := List.getLast?_eq_some_iff.1 hd
  refine ⟨hrest, ?_, ?_, ?_⟩
  · intro e; subst e
    rw [hrest, List.append_nil] at hnd; exact hnd hd
  · have hn := PathCanon.canonicalPath_noDS cfg.canon p
    have : canon cfg p = pre ++ '/' :: rest := by rw [hrest, hpat]; simp
    unfold canon at this
    rw [this] at hn
    exact PathCanon.noDS_split pre rest hn
  · unfold joinSpec
    split
    · rename_i hu
      obtain ⟨u', hu'⟩ := List.getLast?_eq_some_iff.1 hu
      rw [hu']; simp
    · rfl

/-- "… with exactly one '/' between them", both sides of the joint: the target URL is
    `base ++ "/" ++ rest` where `base` is the route URL without one trailing '/', and `rest` (the
    remainder of the canonical path) is non-empty and does not begin with '/'.  If the route URL
    does not end in "//" (and is not the bare "/"-less empty string) `base` does not end in '/'
    either, so the '/' at the joint is the only one there. -/
theorem c17_url_join_exactly_one (cfg : Cfg) (p pattern url : List Char)
    (hd : pattern.getLast? = some '/') (hpre : isPrefix pattern (canon cfg p) = true)
    (hnd : (canon cfg p).getLast? ≠ some '/')
    (hu : ∀ u', url ≠ u' ++ ['/', '/']) :
    let rest := (canon cfg p).drop pattern.length
    let base := if url.getLast? = some '/' then url.dropLast else url
    joinSpec url rest = base ++ '/' :: rest ∧ base.getLast? ≠ some '/' ∧ rest ≠ [] ∧ rest.head? ≠ some '/' := by
  obtain ⟨_, hne, hhd, _⟩ := c17_url_join cfg p pattern url hd hpre hnd
  refine ⟨rfl, ?_, hne, hhd⟩
  split
  · rename_i hl
    obtain ⟨u', hu'⟩ := List.getLast?_eq_some_iff.1 hl
    intro hb
    rw [hu'] at hb
    simp only [List.dropLast_concat] at hb
    obtain ⟨u'', hu''⟩ := List.getLast?_eq_some_iff.1 hb
    apply hu u''
    rw [hu', hu'']; simp
  · rename_i hl; exact hl

/-- non-vacuity of the hypotheses of `c17_url_join` -/
example :
    let cfg := genCfg PathCanon.asciiLower PathCanon.asciiSpace (fun _ => true)
    ("/a/".toList).getLast? = some '/' ∧ isPrefix "/a/".toList (canon cfg "/A//b/./c".toList) = true ∧
    (canon cfg "/A//b/./c".toList).getLast? ≠ some '/' := by
  decide

/-- A lookup never modifies the table: the state after `Match` is the state before (the
    generated fact says the writes to URL and Pattern go to a copy). -/
theorem c17_table_untouched (lower : Char → Char) (isSpace : Char → Bool) (urlOk : List Char → Bool)
    (s : State Route) (p : List Char) :
    (matchImpl (genCfg lower isSpace urlOk) s p).2 = s :=
  matchImpl_state _ s p c17_source_facts.2.2.1

/-- The only assumptions on the character functions (true of unicode.ToLower / unicode.IsSpace
    and of the ASCII instance used by the driver): lower-casing is idempotent and keeps '/', and
    '/' is not a blank. -/
theorem c17_char_laws (lower : Char → Char) (isSpace : Char → Bool) (urlOk : List Char → Bool)
    (h1 : ∀ c, lower (lower c) = lower c) (h2 : lower '/' = '/') (h3 : isSpace '/' = false) :
    PathCanon.CharLaws (genCfg lower isSpace urlOk).canon :=
  ⟨h1, h2, h3⟩

/-- non-vacuity: the ASCII functions satisfy them -/
example : (∀ c, PathCanon.asciiLower (PathCanon.asciiLower c) = PathCanon.asciiLower c) ∧
    PathCanon.asciiLower '/' = '/' ∧ PathCanon.asciiSpace '/' = false :=
  ⟨(PathCanon.asciiLaws true).lower_idem, (PathCanon.asciiLaws true).lower_slash, (PathCanon.asciiLaws true).slash_not_space⟩

/-- CanonicalPath (current tree: iterate until stable) always terminates in a fixed point and is
    idempotent, for EVERY input: the model's fuel is never exhausted. -/
theorem c17_canonical_idempotent (lower : Char → Char) (isSpace : Char → Bool) (urlOk : List Char → Bool)
    (h1 : ∀ c, lower (lower c) = lower c) (h2 : lower '/' = '/') (h3 : isSpace '/' = false) (p : List Char) :
    canon (genCfg lower isSpace urlOk) (canon (genCfg lower isSpace urlOk) p) = canon (genCfg lower isSpace urlOk) p :=
  PathCanon.canonicalPath_idem _ (c17_char_laws lower isSpace urlOk h1 h2 h3) c17_source_facts.2.2.2.2.2.1 p

/-- The pulled stream is published under the requested path: whatever `media.GetOrCreate`
    hands to the pull-stream factory as local path (it canonicalises the request, resolves it with
    route.Match — which canonicalises again — and passes `r.Pattern`) is the canonical form of the
    requested path, i.e. the key under which `media.Get` looks the stream up.  Holds for exact
    and directory matches, for every well-formed table. -/
theorem c17_published_under_request (lower : Char → Char) (isSpace : Char → Bool) (urlOk : List Char → Bool)
    (h1 : ∀ c, lower (lower c) = lower c) (h2 : lower '/' = '/') (h3 : isSpace '/' = false)
    (s : State Route) (p lp u : List Char) (hwf : WF (routeOps (genCfg lower isSpace urlOk)) s)
    (hc : createArgs (genCfg lower isSpace urlOk) s p = some (lp, u)) :
    lp = canon (genCfg lower isSpace urlOk) p := by
  unfold createArgs at hc
  rw [c17_match_spec lower isSpace urlOk s _ hwf] at hc
  have hid := c17_canonical_idempotent lower isSpace urlOk h1 h2 h3 p
  cases hr : resolve (genCfg lower isSpace urlOk) s.l (canon (genCfg lower isSpace urlOk) p) with
  | none => rw [hr] at hc; simp [outOf] at hc
  | some r =>
    rw [hr] at hc
    simp only [outOf, Option.some.injEq, Prod.mk.injEq] at hc
    rw [← hc.1]
    -- the resolved route carries the canonical path as its pattern in both branches
    unfold resolve at hr
    simp only [hid] at hr
    split at hr
    · cases hr
    · split at hr
      · rename_i r' hf
        simp only [Option.some.injEq] at hr
        rw [← hr]
        have := List.find?_some hf
        simpa using this
      · split at hr
        · cases hr
        · simp only [Option.some.injEq] at hr
          rw [← hr]

/-- Why the CanonicalPath fact matters: with the pinned single pass the canonical form of
    "/a /." is "/a ", whose canonical form is "/a" — GetOrCreate (two passes) and media.Get (one
    pass) then disagree about the stream's path (corpus/C17/canon-twice.case). -/
theorem c17_single_pass_counterexample :
    let one : PathCanon.Cfg := PathCanon.asciiCfg false
    PathCanon.canonicalPath one ['/', 'a', ' ', '/', '.'] = ['/', 'a', ' '] ∧
    PathCanon.canonicalPath one ['/', 'a', ' '] = ['/', 'a'] ∧
    PathCanon.canonicalPath (PathCanon.asciiCfg true) ['/', 'a', ' ', '/', '.'] = ['/', 'a'] := by
  decide

/-- Why the URL guard matters: the pinned `r.URL[len(r.URL)-1]` panics for a directory route
    saved with an empty URL (corpus/C17/empty-url.case); the guarded test resolves the path. -/
theorem c17_empty_url_counterexample :
    let tbl : State Route := { m := [(['/', 'e', '/'], { pattern := ['/', 'e', '/'], url := [], keepAlive := false })]
                               l := [{ pattern := ['/', 'e', '/'], url := [], keepAlive := false }], saves := [], removes := [] }
    let cfg (g : Bool) : Cfg := { canon := PathCanon.asciiCfg true, urlOk := fun _ => true, urlGuard := g, copies := true }
    (matchImpl (cfg false) tbl ['/', 'e', '/', 'x']).1 = .panic ∧
    (matchImpl (cfg true) tbl ['/', 'e', '/', 'x']).1 = .found { pattern := ['/', 'e', '/', 'x'], url := ['/', 'x'], keepAlive := false } := by
  decide

/-- Why the copy matters: a Match that wrote through the table's own pointer would rewrite the
    directory route's URL and pattern on the first lookup. -/
theorem c17_no_copy_counterexample :
    let r : Route := { pattern := ['/', 'e', '/'], url := ['u'], keepAlive := false }
    let tbl : State Route := { m := [(['/', 'e', '/'], r)], l := [r], saves := [], removes := [] }
    let cfg : Cfg := { canon := PathCanon.asciiCfg true, urlOk := fun _ => true, urlGuard := true, copies := false }
    (matchImpl cfg tbl ['/', 'e', '/', 'x']).2.l = [{ pattern := ['/', 'e', '/', 'x'], url := ['u', '/', 'x'], keepAlive := false }] := by
  decide

/-- After every history: for EVERY sequence of route.Save / route.Del (and Flush / restart)
    from a fresh server, of any length, the table is well-formed and equals the abstract table
    obtained by applying the same operations to the specification, so `Match` on the real
    structure resolves every path exactly as `resolve` does on the abstract table. -/
theorem c17_after_history (lower : Char → Char) (isSpace : Char → Bool) (urlOk : List Char → Bool)
    (h1 : ∀ c, lower (lower c) = lower c) (h2 : lower '/' = '/') (h3 : isSpace '/' = false)
    (guarded : Bool) (ops : List (Op Route)) (p : List Char) :
    let cfg := genCfg lower isSpace urlOk
    let sv := Server.run (routeOps cfg) guarded defaultRoutes (Server.boot (routeOps cfg) defaultRoutes .missing).1 ops
    let a := Abs.run (routeSpec cfg) defaultRoutes (Abs.fresh (routeSpec cfg) defaultRoutes) ops
    (matchImpl cfg sv.st p).1 = outOf (resolve cfg a.cur p) ∧ (matchImpl cfg sv.st p).2 = sv.st := by
  have h := routeHyps (genCfg lower isSpace urlOk) (c17_canonical_idempotent lower isSpace urlOk h1 h2 h3)
  have hs := sim_run _ _ _ _ guarded h ops _ _ (sim_fresh _ _ _ _ h)
  simp only
  rw [c17_match_spec lower isSpace urlOk _ p hs.good.wf, hs.cur]
  exact ⟨rfl, c17_table_untouched lower isSpace urlOk _ p⟩

end IpcHub.Props.C17
