/-
C07 — Malformed media input is contained and never stops conversion of later good data.
Property theorems only; helper lemmas live in IpcHub/Lemmas/DepackTotal.lean, ContainTotal.lean,
DepackRound*.lean.  Models: Model/Depack.lean (depacketizers, sync clock, demuxer worker),
Model/CacheClassify.lean (cache classifiers run on the publisher's goroutine),
Model/RtpPacket.lean (ReadPacket / receive / the RTP header parser),
Model/Pipeline.lean (FLV and TS muxer workers).
-/
import IpcHub.Lemmas.ContainTotal
import IpcHub.Lemmas.DepackRound265
import IpcHub.Lemmas.PipelineRecover
import IpcHub.Model.PipelineInst
import IpcHub.Spec.Packetise
namespace IpcHub.Props.C07
open IpcHub.Depack IpcHub.Packetise IpcHub.Pipeline IpcHub.DepackRound

/-- The containment facts regenerated from /repo on every run: the guards of the cache
    classifiers, of ReadPacket / receive and of the FLV / TS packetizers, where each converter
    goroutine and each goroutine that parses SDP defers its `recover`, the statement order of
    `Stream.WriteRtpPacket`. -/
theorem c07_source_facts :
    IpcHub.Gen.cache264Conds = ["if len(payload) < 3", "switch naluTypeInRtp", "case h264.NalStapaInRtp, h264.NalStapbInRtp, h264.NalMtap16InRtp, h264.NalMtap24InRtp", "for", "if off+2 > len(payload)", "if nalSize < 1", "if off >= len(payload)", "if off >= len(payload)", "case h264.NalFuAInRtp, h264.NalFuBInRtp", "if (fuHeader>>7)&1 == 1", "default"] ∧
    IpcHub.Gen.cache265Conds = ["if len(payload) < 3", "switch naluType", "case hevc.NalStapInRtp", "for", "if off+2 > len(payload)", "if nalSize < 1", "if off >= len(payload)", "if off >= len(payload)", "case hevc.NalFuInRtp", "if (payload[2]>>7)&1 == 1", "default"] ∧
    IpcHub.Gen.cache264NalTypeConds = ["switch nalType", "case h264.NalSps", "case h264.NalPps", "case h264.NalIdrSlice"] ∧
    IpcHub.Gen.cache265NalTypeConds = ["if nalType >= hevc.NalBlaWLp && nalType <= hevc.NalCraNut", "switch nalType", "case hevc.NalVps", "case hevc.NalSps", "case hevc.NalPps"] ∧
    IpcHub.Gen.cache264Checked = true ∧
    IpcHub.Gen.cache265Checked = true ∧
    IpcHub.Gen.readPacketConds = ["if err != nil", "if prefix[0] != TransferPrefix", "if err != nil", "if v == channel", "if p.Channel == ChannelVideo || p.Channel == ChannelAudio", "if err != nil"] ∧
    IpcHub.Gen.readPacketReturns = ["return nil, err", "return nil, errors.New(\"RTP Pack must start with `$`\")", "return nil, err", "return p, err", "return p, nil", "return p, errors.New(\"RTP Packet illegal channel\")"] ∧
    IpcHub.Gen.unknownChannelTolerated = true ∧
    IpcHub.Gen.badHeaderTolerated = true ∧
    IpcHub.Gen.headerPanicRecovered = true ∧
    IpcHub.Gen.stripsPadding = true ∧
    IpcHub.Gen.receiveConds = ["if err != nil", "if sl[0] == rtpPackPrefix", "if err != nil", "if pack != nil", "for i < 4", "if sl[i] != rtspProto[i]", "if i == 4", "if err != nil", "if logger.LevelEnabled(xlog.DebugLevel)", "if err != nil", "if logger.LevelEnabled(xlog.DebugLevel)"] ∧
    IpcHub.Gen.receivePackBranch = ["return err", "if pack != nil { logger.Warn(err.Error()) return nil }", "logger.Errorf(\"decode rtp pack failed; %v.\", err)", "return err", "logger.Errorf(\"decode response failed; %v.\", err)", "return err", "logger.Errorf(\"decode request failed; %v.\", err)", "return err"] ∧
    IpcHub.Gen.sessionProcessRecover = "first" ∧
    IpcHub.Gen.sessionProcessRecoverInLoop = false ∧
    IpcHub.Gen.pullPlayStreamRecover = "first" ∧
    IpcHub.Gen.pullPlayStreamRecoverInLoop = false ∧
    IpcHub.Gen.pullOpenRecover = "later" ∧
    IpcHub.Gen.pullOpenRecoverInLoop = false ∧
    IpcHub.Gen.demuxerProcessRecover = "first" ∧
    IpcHub.Gen.demuxerProcessRecoverInLoop = false ∧
    IpcHub.Gen.flvMuxerProcessRecover = "first" ∧
    IpcHub.Gen.flvMuxerProcessRecoverInLoop = false ∧
    IpcHub.Gen.tsMuxerProcessRecover = "first" ∧
    IpcHub.Gen.tsMuxerProcessRecoverInLoop = false ∧
    IpcHub.Gen.flvProcessConds = ["if r != nil", "for !muxer.closed", "if f == nil", "if !muxer.closed", "if !packSequenceHeader", "if !muxer.videoMetaReady()", "switch frame.MediaType", "case codec.MediaTypeVideo", "if err != nil", "case codec.MediaTypeAudio", "if err != nil", "default"] ∧
    IpcHub.Gen.flvSequenceHeaderBlock = ["if !muxer.videoMetaReady() { continue }", "muxer.muxMetadataTag()", "muxer.vp.PacketizeSequenceHeader()", "muxer.ap.PacketizeSequenceHeader()", "packSequenceHeader = true"] ∧
    IpcHub.Gen.flvVideoMetaReadyConds = ["if vm.Codec == \"H265\"", "if len(vm.Vps) == 0 || len(vm.Sps) == 0 || len(vm.Pps) == 0", "if vm.Width != 0", "if len(vm.Sps) < 4 || len(vm.Pps) == 0", "if vm.Width != 0"] ∧
    IpcHub.Gen.flvVideoMetaReadyReturns = ["return false", "return true", "return sps.Decode(vm.Sps) == nil", "return false", "return true", "return sps.Decode(vm.Sps) == nil"] ∧
    IpcHub.Gen.flvWaitsForParameterSets = true ∧
    IpcHub.Gen.flvValidatesSps = true ∧
    IpcHub.Gen.flvH264PacketizeConds = ["if frame.Payload[0]&0x1F == h264.NalIdrSlice"] ∧
    IpcHub.Gen.tsAacPacketizeConds = ["if ap.audioSps == nil"] ∧
    IpcHub.Gen.tsAacChecked = true ∧
    IpcHub.Gen.tsProcessConds = ["if r != nil", "for !muxer.closed", "if f == nil", "if !muxer.closed", "switch frame.MediaType", "case codec.MediaTypeVideo", "if err != nil", "case codec.MediaTypeAudio", "if err != nil", "default"] ∧
    IpcHub.Gen.tsAvcHeaderConds = ["if h264.NalSlice == nalUnitType || h264.NalIdrSlice == nalUnitType || h264.NalSei == nalUnitType", "if h264.NalIdrSlice == nalUnitType", "if len(sps) > 0", "if len(pps) > 0", "if 0 == len(frame.Header)"] ∧
    IpcHub.Gen.tsAvcSkips79 = false ∧
    IpcHub.Gen.parseMetadataConds = ["if err != nil", "switch media.Type", "case \"video\"", "if video.Codec != \"\"", "if bw.Type == \"AS\"", "case \"audio\"", "if audio.Codec == \"MPEG4-GENERIC\"", "if audio.Codec != \"\"", "if bw.Type == \"AS\""] ∧
    IpcHub.Gen.writeRtpPacketBody = ["status := atomic.LoadInt32(&s.status)", "if status != StreamOK { return statusErrors[status] }", "atomic.AddUint64(&s.size, uint64(packet.Size()))", "s.cacheAndSend(&s.consumptions, s.cache, packet)", "s.rtpDemuxer.WriteRtpPacket(packet)", "return nil"] ∧
    IpcHub.Gen.containFactsUnknown = [] := by
  and_intros <;> rfl

/-- The depacketizer facts (shared with C06): every guard of the depacketizer functions. -/
theorem c07_depack_source_facts :
    IpcHub.Gen.h264DepacketizeConds = ["if len(payload) < 1", "switch", "case naluType < h264.NalStapaInRtp", "case naluType == h264.NalStapaInRtp", "case naluType == h264.NalFuAInRtp", "default"] ∧
    IpcHub.Gen.h264StapaConds = ["for", "if off+2 > len(payload)", "if nalSize < 1", "if off+int(nalSize) > len(payload)", "if err != nil", "if off >= len(payload)"] ∧
    IpcHub.Gen.h264FuAConds = ["if len(payload) < 3", "if (fuHeader>>7)&1 == 1", "if len(h264dp.fragments) == 0", "if len(h264dp.fragments) != 0 &&\n\th264dp.fragments[len(h264dp.fragments)-1].SequenceNumber != packet.SequenceNumber-1", "if (fuHeader>>6)&1 == 1"] ∧
    IpcHub.Gen.h264WriteFrameConds = ["switch nalType", "case h264.NalSps", "if len(h264dp.meta.Sps) == 0 || h264dp.unvalidated()", "case h264.NalPps", "if len(h264dp.meta.Pps) == 0 || h264dp.unvalidated()", "case h264.NalFillerData", "if !h264dp.metaReady", "if !h264.MetadataIsReady(h264dp.meta)", "if h264dp.meta.FixedFrameRate", "if h264dp.dtsStep > 0"] ∧
    IpcHub.Gen.h265DepacketizeConds = ["if len(payload) < 2", "switch naluType", "case hevc.NalStapInRtp", "case hevc.NalFuInRtp", "default"] ∧
    IpcHub.Gen.h265StapConds = ["for", "if off+2 > len(payload)", "if nalSize < 1", "if off+int(nalSize) > len(payload)", "if err != nil", "if off >= len(payload)"] ∧
    IpcHub.Gen.h265FuConds = ["if len(payload) < 3", "if (fuHeader>>7)&1 == 1", "if len(h265dp.fragments) == 0 || (len(h265dp.fragments) != 0 &&\n\th265dp.fragments[len(h265dp.fragments)-1].SequenceNumber != packet.SequenceNumber-1)", "if (fuHeader>>6)&1 == 1"] ∧
    IpcHub.Gen.h265WriteFrameConds = ["switch nalType", "case hevc.NalVps", "if len(h265dp.meta.Vps) == 0 || h265dp.unvalidated()", "case hevc.NalSps", "if len(h265dp.meta.Sps) == 0 || h265dp.unvalidated()", "case hevc.NalPps", "if len(h265dp.meta.Pps) == 0 || h265dp.unvalidated()", "if !h265dp.metaReady", "if !hevc.MetadataIsReady(h265dp.meta)", "if h265dp.meta.FixedFrameRate", "if h265dp.dtsStep > 0"] ∧
    IpcHub.Gen.aacConds = ["if len(payload) < 2", "if framesPayloadOffset > len(payload)", "for i < int(auHeadersCount)", "if int(frameSize) > len(framesPayload)", "if err != nil"] ∧
    IpcHub.Gen.syncDecodeConds = ["if len(data) >= 20 && data[1] == 200"] ∧
    IpcHub.Gen.controlConds = ["if dp.syncClock.RTPTime == 0", "if ok"] ∧
    IpcHub.Gen.demuxProcessConds = ["if r != nil", "for !demuxer.closed", "if p == nil", "if !demuxer.closed", "switch packet.Channel", "case ChannelVideo", "case ChannelVideoControl", "case ChannelAudio", "case ChannelAudioControl", "if err != nil"] ∧
    IpcHub.Gen.aacEntry = "aacdp.depacketizeFor2ByteAUHeader(packet)" ∧
    IpcHub.Gen.h264StapaHeaderAssigns = [] ∧
    IpcHub.Gen.h264FuAHeaderAssigns = ["frame.Payload[0] = (header & 0xE0) | (fuHeader & 0x1F)"] ∧
    IpcHub.Gen.h265StapHeaderAssigns = [] ∧
    IpcHub.Gen.h265FuHeaderAssigns = ["frame.Payload[0] = (payload[0] & 0x81) | (fuHeader&0x3f)<<1", "frame.Payload[1] = payload[1]"] ∧
    IpcHub.Gen.h264StapaOffsets = ["off := 1", "off += 2", "off += int(nalSize)"] ∧
    IpcHub.Gen.h264FuAOffsets = ["frameLen := 1", "frameLen += len(fragment.Payload()) - 2", "offset := 1", "offset += len(payload)"] ∧
    IpcHub.Gen.h265StapOffsets = ["off := 2", "off += 2", "off += int(nalSize)"] ∧
    IpcHub.Gen.h265FuOffsets = ["rawDataOffset := 3", "frameLen := 2", "frameLen += len(fragment.Payload()) - rawDataOffset", "offset := 2", "offset += len(payload)"] ∧
    IpcHub.Gen.aacOffsets = ["framesPayloadOffset := 2 + int(auHeadersCount)<<1", "frameTimeStamp := packet.Timestamp", "frameTimeStamp += aac.SamplesPerFrame", "frameSize := auHeader >> aacdp.indexLength", "auHeadersCount := auHeadersLength >> 4"] ∧
    IpcHub.Gen.h264Min = 1 ∧
    IpcHub.Gen.fuaMin = 3 ∧
    IpcHub.Gen.h265Min = 2 ∧
    IpcHub.Gen.fuMin = 3 ∧
    IpcHub.Gen.stapaChecked = true ∧
    IpcHub.Gen.stapaRewritesNri = false ∧
    IpcHub.Gen.fuaNeedsStart = true ∧
    IpcHub.Gen.fuaKeepsF = true ∧
    IpcHub.Gen.apChecked = true ∧
    IpcHub.Gen.aacChecked = true ∧
    IpcHub.Gen.srChecked = true ∧
    IpcHub.Gen.psUntilReady264 = true ∧
    IpcHub.Gen.psUntilReady265 = true ∧
    IpcHub.Gen.h264Unvalidated = ["return !h264dp.metaReady && h264dp.meta.Width == 0"] ∧
    IpcHub.Gen.h265Unvalidated = ["return !h265dp.metaReady && h265dp.meta.Width == 0"] ∧
    IpcHub.Gen.h264NalSps = 7 ∧
    IpcHub.Gen.h264NalPps = 8 ∧
    IpcHub.Gen.h264NalIdrSlice = 5 ∧
    IpcHub.Gen.h264NalFillerData = 12 ∧
    IpcHub.Gen.h264NalStapaInRtp = 24 ∧
    IpcHub.Gen.h264NalFuAInRtp = 28 ∧
    IpcHub.Gen.h264NalTypeBitmask = 31 ∧
    IpcHub.Gen.hevcNalVps = 32 ∧
    IpcHub.Gen.hevcNalSps = 33 ∧
    IpcHub.Gen.hevcNalPps = 34 ∧
    IpcHub.Gen.hevcNalBlaWLp = 16 ∧
    IpcHub.Gen.hevcNalCraNut = 21 ∧
    IpcHub.Gen.hevcNalStapInRtp = 48 ∧
    IpcHub.Gen.hevcNalFuInRtp = 49 ∧
    IpcHub.Gen.samplesPerFrame = 1024 ∧
    IpcHub.Gen.channelVideo = 0 ∧
    IpcHub.Gen.channelVideoControl = 1 ∧
    IpcHub.Gen.channelAudio = 2 ∧
    IpcHub.Gen.channelAudioControl = 3 ∧
    IpcHub.Gen.channelCount = 4 ∧
    IpcHub.Gen.transferPrefix = 36 ∧
    IpcHub.Gen.ptsDelayExpr = "int64(time.Second) / 2" ∧
    IpcHub.Gen.jan1970Expr = "0x83aa7e80" ∧
    IpcHub.Gen.aacSizeLength = 13 ∧
    IpcHub.Gen.aacIndexLength = 3 ∧
    IpcHub.Gen.relativeNtpBody = ["diff := int64(rtptime) - int64(sc.RTPTime)", "return int64(float64(diff) * sc.RTPTimeUnit)"] ∧
    IpcHub.Gen.payloadBody = ["if p.Channel == ChannelVideo || p.Channel == ChannelAudio { end := len(p.Data) if p.Padding && end > p.PayloadOffset { if n := int(p.Data[end-1]); n > 0 && n <= end-p.PayloadOffset { end -= n } } return p.Data[p.PayloadOffset:end] }", "return nil"] ∧
    IpcHub.Gen.payloadStripsPadding = true ∧
    IpcHub.Gen.depackFactsUnknown = [] := by
  and_intros <;> rfl

/-- the model configurations derived from those facts have every bounds check / tolerance in place -/
theorem c07_gen_cfg_safe :
    SafeCfg Depack.genCfg ∧
    Pipeline.genCfg.cache264Checked = true ∧ Pipeline.genCfg.cache265Checked = true ∧
    Pipeline.genCfg.flvWaitsForParameterSets = true ∧ Pipeline.genCfg.tsAacChecked = true ∧
    genRtpCfg.unknownChannelTolerated = true ∧ genRtpCfg.badHeaderTolerated = true ∧
    genRtpCfg.headerPanicRecovered = true ∧ Pipeline.genCfg.flvValidatesSps = true := by
  refine ⟨⟨?_, ?_, ?_, ?_, ?_, ?_, ?_, ?_⟩, ?_⟩ <;> decide

/-- C07 (totality), depacketizers: for EVERY byte string as RTP payload, every packet header,
    every depacketizer state and every verdict of the SPS decoder, a `Depacketize` call returns
    (nil or an error) — it never indexes out of range and its loops terminate (`Status.benign`
    excludes `panic` and the loop-fuel outcome). -/
theorem c07_total_depacketize (spsOk : Bytes → Bool) (st : VSt) (p : Pkt) :
    Status.benign (h264Step Depack.genCfg spsOk st p).status ∧
    Status.benign (h265Step Depack.genCfg spsOk st p).status ∧
    (∀ base, Status.benign (aacStep Depack.genCfg base p).2) :=
  ⟨h264Step_benign _ c07_gen_cfg_safe.1 spsOk st p, h265Step_benign _ c07_gen_cfg_safe.1 spsOk st p,
   fun base => aacStep_benign _ c07_gen_cfg_safe.1.aac base p⟩

/-- C07 (totality), RTCP: every byte string on a control channel leaves `Control` without a panic. -/
theorem c07_total_control (base : UInt32) (data : Bytes) : Status.benign (control Depack.genCfg base data).2 :=
  control_benign _ c07_gen_cfg_safe.1.sr base data

/-- C07: the demuxer goroutine survives EVERY sequence of packets on the four channels
    (it stays in its loop: `alive` is never cleared), for both codecs, with or without AAC. -/
theorem c07_demuxer_survives (spsOk : Bytes → Bool) (d : DemuxSt) (ins : List In) :
    (demuxRun Depack.genCfg spsOk d ins).1.alive = d.alive :=
  demuxRun_alive _ c07_gen_cfg_safe.1 spsOk ins d

/-- C07: the cache classifier that `Stream.WriteRtpPacket` runs on the publisher's goroutine
    classifies EVERY payload (no panic, the aggregation loop terminates), H.264 and H.265. -/
theorem c07_classifier_total (c : VCodec) (payload : Bytes) :
    (Pipeline.classify Pipeline.genCfg c payload).isCls := by
  have h := c07_gen_cfg_safe.2
  cases c with
  | h264 => simp only [Pipeline.classify, h.1]; exact CacheClassify.classify264_total payload
  | h265 => simp only [Pipeline.classify, h.2.1]; exact CacheClassify.classify265_total payload

/-- C07: no complete interleaved frame — unknown channel number, truncated or corrupted RTP
    header, header extension running past the packet — makes `receive` return an error or panic:
    the session loop (Session.process / PullClient.playStream) goes on to the next frame. -/
theorem c07_receive_never_closes (chans : List Int) (ch : Nat) (data : Bytes) :
    RtpPacket.receive genRtpCfg chans ch data ≠ .close ∧ RtpPacket.receive genRtpCfg chans ch data ≠ .panic :=
  RtpPacket.receive_never_closes _ c07_gen_cfg_safe.2.2.2.2.2.1 c07_gen_cfg_safe.2.2.2.2.2.2.1
    c07_gen_cfg_safe.2.2.2.2.2.2.2.1 chans ch data

/-- C07: demuxer, FLV muxer and TS muxer goroutines all survive one packet of arbitrary bytes on
    any channel, in every pipeline state, whatever the SDP's AAC config was (`ascOk`). -/
theorem c07_pipeline_survives (spsOk : Bytes → Bool) (ascOk hasTs : Bool) (s : St) (i : In) :
    let s' := (Pipeline.step Depack.genCfg Pipeline.genCfg spsOk ascOk hasTs s i).1
    s'.demux.alive = s.demux.alive ∧ s'.flv.alive = s.flv.alive ∧ s'.ts.alive = s.ts.alive :=
  step_alive _ c07_gen_cfg_safe.1 _ c07_gen_cfg_safe.2.2.2.1 c07_gen_cfg_safe.2.2.2.2.1 spsOk ascOk hasTs s i

theorem c07_round_cfg : RoundCfg Depack.genCfg := by
  refine ⟨?_, ?_, ?_, ?_, ?_, ?_⟩ <;> decide

/-- C07 (recovery).  Take ANY ready depacketizer state, feed it ANY list of video packets
    `bad` with arbitrary payload bytes, sequence numbers and timestamps (truncated or oversized
    aggregation / fragmentation units, empty payloads, interrupted fragmented units …): no call
    panics, and for EVERY well-formed stream sent afterwards (any packetisation decisions, as in
    C06) the frames handed on are exactly its units — nothing lost, nothing spliced with the
    garbage, same clock base.  H.264 (`_partial` only for the filler exclusion of C06) and H.265. -/
theorem c07_recovers_h264_partial (spsOk : Bytes → Bool) (st : VSt) (bad : List Pkt) (items : List Item) (seq0 : UInt16)
    (hr : st.ready = true) (hl : ∀ it ∈ items, legal264F it = true ∧ itemNoFiller it = true) :
    let st1 := (vRun Depack.genCfg spsOk .h264 st bad).1
    (vRun Depack.genCfg spsOk .h264 st bad).2.2 ≠ .panic ∧
    (vRun Depack.genCfg spsOk .h264 st1 (packets264 seq0 items)).2 = ((units items).map (frameOf st.base), .ok) := by
  have hk := vRun_keeps Depack.genCfg spsOk .h264 bad st hr
  refine ⟨?_, ?_⟩
  · -- no step panics
    have : ∀ (ps : List Pkt) (s : VSt), (vRun Depack.genCfg spsOk .h264 s ps).2.2 ≠ .panic := by
      intro ps
      induction ps with
      | nil => intro s; simp [vRun]
      | cons p ps ih =>
        intro s
        have hb := h264Step_benign Depack.genCfg c07_gen_cfg_safe.1 spsOk s p
        have hnp : ¬ (vStep Depack.genCfg spsOk .h264 s p).status = .panic := by
          intro h; simp only [vStep] at h; rw [h] at hb; exact hb
        simp only [vRun, hnp, if_false]
        exact ih _
    exact this bad st
  · obtain ⟨st', h, _⟩ := h264_roundtrip Depack.genCfg c07_round_cfg spsOk items _ seq0 hk.ready hl
    rw [h, hk.base]

theorem c07_recovers_h265 (spsOk : Bytes → Bool) (st : VSt) (bad : List Pkt) (items : List Item) (seq0 : UInt16)
    (hr : st.ready = true) (hl : ∀ it ∈ items, legal265 it = true) :
    let st1 := (vRun Depack.genCfg spsOk .h265 st bad).1
    (vRun Depack.genCfg spsOk .h265 st bad).2.2 ≠ .panic ∧
    (vRun Depack.genCfg spsOk .h265 st1 (packets265 seq0 items)).2 = ((units items).map (frameOf st.base), .ok) := by
  have hk := vRun_keeps Depack.genCfg spsOk .h265 bad st hr
  refine ⟨?_, ?_⟩
  · have : ∀ (ps : List Pkt) (s : VSt), (vRun Depack.genCfg spsOk .h265 s ps).2.2 ≠ .panic := by
      intro ps
      induction ps with
      | nil => intro s; simp [vRun]
      | cons p ps ih =>
        intro s
        have hb := h265Step_benign Depack.genCfg c07_gen_cfg_safe.1 spsOk s p
        have hnp : ¬ (vStep Depack.genCfg spsOk .h265 s p).status = .panic := by
          intro h; simp only [vStep] at h; rw [h] at hb; exact hb
        simp only [vRun, hnp, if_false]
        exact ih _
    exact this bad st
  · obtain ⟨st', h, _⟩ := h265_roundtrip Depack.genCfg c07_round_cfg spsOk items _ seq0 hk.ready hl
    rw [h, hk.base]

/-- non-vacuity: garbage that leaves a fragment buffer behind, then a fragmented unit -/
example :
    let bad : List Pkt := [⟨5, 1, false, [0x7c, 0x85, 0xaa]⟩, ⟨9, 1, false, [0x78, 0x00, 0x09, 0x65]⟩, ⟨10, 1, false, []⟩]
    let items : List Item := [.frag 3000 true [0x41, 1, 2, 3] [1, 1]]
    (∀ it ∈ items, legal264F it = true ∧ itemNoFiller it = true) ∧
    (vRun Depack.genCfg (fun _ => true) .h264 { ready := true } bad).1.frags.length = 1 := by
  decide

/-- C07 (recovery at the FLV and MPEG-TS / HLS outputs, H.264).  Take ANY stream whose converters
    are up (`Up m0 s`: demuxer goroutine alive and ready, both parameter sets `m0` stored, FLV
    sequence headers written, FLV and TS worker goroutines alive), feed it ANY list `bad` of
    packets — arbitrary bytes on the video, audio and both RTCP channels, in any order — and then
    the packets of ANY well-formed H.264 stream (any packetisation decisions, as in C06).  Then
    * after `bad` the stream is still up: no goroutine died, the parameter sets are untouched;
    * the FLV worker emits exactly one video tag per unit of the well-formed stream, in order, with
      the unit's bytes and its key-frame flag — nothing lost, nothing spliced with the garbage;
    * the TS worker (H.264 + AAC streams: `hasTs`) emits exactly one TS frame per unit with the
      unit's bytes and the Annex-B header built from the untouched parameter sets.
    FULL STATEMENT: also H.265 (FLV), also filler units, also a stream that is not up yet (the
    sequence headers still to come).  `_partial`: H.264 without filler data, from an up state; the
    other cases are exercised by the harness (pipe correspondence + containment judge on tags and
    TS frames) but not proved. -/
theorem c07_flv_ts_recover_h264_partial (spsOk : Bytes → Bool) (ascOk hasTs : Bool) (m0 : VMeta) (hm : Full264 m0)
    (s : St) (hu : Up m0 s) (bad : List In) (items : List Item) (seq0 : UInt16)
    (hl : ∀ it ∈ items, legal264F it = true ∧ itemNoFiller it = true) :
    let s1 := (runPipe Depack.genCfg Pipeline.genCfg spsOk ascOk hasTs s bad).1
    let r := runPipe Depack.genCfg Pipeline.genCfg spsOk ascOk hasTs s1 ((packets264 seq0 items).map In.video)
    Up m0 s1 ∧ Up m0 r.1 ∧
    r.2.2.1 = (units items).map (fun u => Tag.video (isKey .h264 u.2) u.2) ∧
    r.2.2.2 = (if hasTs then (units items).map (fun u => tsVideoOf Pipeline.genCfg m0 u.2) else []) := by
  have hsafe := c07_gen_cfg_safe.1
  have htc : Pipeline.genCfg.tsAacChecked = true := c07_gen_cfg_safe.2.2.2.2.1
  obtain ⟨hu1, _, _, _, _⟩ := runPipe_up Depack.genCfg hsafe Pipeline.genCfg htc spsOk ascOk hasTs m0 hm bad s hu
  obtain ⟨hu2, hf2, _, ht2, hs2⟩ := runPipe_up Depack.genCfg hsafe Pipeline.genCfg htc spsOk ascOk hasTs m0 hm
    ((packets264 seq0 items).map In.video) _ hu1
  have hfr : (runPipe Depack.genCfg Pipeline.genCfg spsOk ascOk hasTs
      (runPipe Depack.genCfg Pipeline.genCfg spsOk ascOk hasTs s bad).1 ((packets264 seq0 items).map In.video)).2.1
      = (units items).map (frameOf (runPipe Depack.genCfg Pipeline.genCfg spsOk ascOk hasTs s bad).1.demux.v.base) := by
    rw [hf2, demuxRun_only_video Depack.genCfg hsafe spsOk _ _ hu1.dalive, hu1.codec]
    obtain ⟨st', h, _⟩ := h264_roundtrip Depack.genCfg c07_round_cfg spsOk items _ seq0 hu1.ready hl
    rw [h]
  refine ⟨hu1, hu2, ?_, ?_⟩
  · rw [ht2, hfr, flatMap_tagOf_units]
  · rw [hs2, hfr]
    cases hasTs
    · rfl
    · simp only [if_true]
      exact flatMap_tsOf_units Pipeline.genCfg ascOk m0 _ _ (units_nonempty items (fun it h => (hl it h).1))

/-- non-vacuity: an up stream (SDP parameter sets), a truncated STAP-A, RTCP garbage and a bad AU
    header, then an IDR slice in two fragments and a P slice: two video tags, the first a key frame -/
example :
    let m0 : VMeta := { sps := [0x67, 0x42, 0x00, 0x1e], pps := [0x68, 0xce], widthKnown := true }
    let s : St := { demux := { codec := .h264, hasAac := true, v := { vmeta := m0, ready := true } }, flv := { headerDone := true } }
    let bad : List In := [.video ⟨9, 1, false, [0x78, 0x00, 0x05, 0x65]⟩, .vctl [0x80], .audio ⟨1, 1, true, [0xff, 0xff]⟩, .actl []]
    let items : List Item := [.frag 3000 true [0x65, 1, 2, 3] [1], .single 6000 true [0x41, 9]]
    Full264 m0 ∧ Up m0 s ∧
    (runPipe Depack.genCfg Pipeline.genCfg (fun _ => true) true true
      (runPipe Depack.genCfg Pipeline.genCfg (fun _ => true) true true s bad).1 ((packets264 7 items).map In.video)).2.2.1
      = [Tag.video true [0x65, 1, 2, 3], Tag.video false [0x41, 9]] := by
  refine ⟨⟨by decide, by decide⟩, ⟨rfl, rfl, rfl, rfl, rfl, rfl, rfl⟩, by decide⟩

/-- C07 (recovery of the parameter sets): whatever an H.264 depacketizer has stored as SPS / PPS
    — nothing, or garbage from a damaged packet or a hostile sprop — and whether or not the SDP
    gave it a picture size, the sender's next SPS (one the decoder accepts) and PPS, sent as
    single NAL unit packets, make it ready: from then on `c07_recovers_h264_partial` applies. -/
theorem c07_parameter_sets_recover (spsOk : Bytes → Bool) (st : VSt) (s1 s2 : UInt16) (t1 t2 : UInt32) (m1 m2 : Bool)
    (b c : UInt8) (bs cs : Bytes) (hb : b &&& 0x1f = 7) (hc : c &&& 0x1f = 8) (hok : spsOk (b :: bs) = true) :
    (vRun Depack.genCfg spsOk .h264 st [⟨s1, t1, m1, b :: bs⟩, ⟨s2, t2, m2, c :: cs⟩]).1.ready = true :=
  ps_recover264 Depack.genCfg c07_round_cfg (by decide) spsOk st s1 s2 t1 t2 m1 m2 b c bs cs hb hc hok

/-- C07 (other streams): the converter state is per stream — stepping stream `k` of any collection
    of streams with any packet leaves every other stream's state as it was (structural: each
    `media.Stream` owns its demuxer, muxers and caches; checked on the real code by the harness's
    second stream). -/
theorem c07_other_streams (spsOk : Bytes → Bool) (ascOk hasTs : Bool) (ss : List St) (k j : Nat) (i : In) (hjk : j ≠ k) :
    (ss.modify k (fun s => (Pipeline.step Depack.genCfg Pipeline.genCfg spsOk ascOk hasTs s i).1))[j]? = ss[j]? := by
  simp [List.getElem?_modify, hjk.symm]

private def pk (s : UInt16) (b : Bytes) : In := .video ⟨s, 1000, false, b⟩

/-- DESIGN §6 #8, the pinned tree: a 5-byte STAP-A `78 00 01 65 00` indexes out of range, the
    demuxer goroutine dies and the following well-formed packet produces no frame; the repaired
    tree rejects the packet with an error and hands the next unit on.
    Replayed: corpus/C07/truncated-stap.case -/
theorem c07_truncated_stap_witness :
    let d : DemuxSt := { codec := .h264, hasAac := false, v := { ready := true } }
    let ins := [pk 1 [0x78, 0x00, 0x01, 0x65, 0x00], pk 2 [0x41, 0x9a, 0x02]]
    (demuxRun pinnedCfg (fun _ => true) d ins).1.alive = false ∧
    (demuxRun pinnedCfg (fun _ => true) d ins).2.map (·.payload) = [[0x65]] ∧
    (demuxRun Depack.genCfg (fun _ => true) d ins).1.alive = true ∧
    (demuxRun Depack.genCfg (fun _ => true) d ins).2.map (·.payload) = [[0x65], [0x41, 0x9a, 0x02]] := by
  decide

/-- the pinned cache classifiers panic on a truncated aggregation unit (`18 00 01`, `60 01 00 01`):
    the publisher's session ends.  Replayed: corpus/C07/classifier.case -/
theorem c07_classifier_witness :
    CacheClassify.classify264 false [0x18, 0x00, 0x01] = .panic ∧
    CacheClassify.classify265 false [0x60, 0x01, 0x00, 0x01] = .panic ∧
    CacheClassify.classify264 true [0x18, 0x00, 0x01] = .cls {} ∧
    CacheClassify.classify265 true [0x60, 0x01, 0x00, 0x01] = .cls {} := by
  decide

/-- DESIGN §6 #9, the pinned tree: a frame on an interleaved channel that is not in the channel
    table, or a media packet with a 5-byte RTP header, closes the session.
    Replayed: corpus/C07/unknown-channel.case -/
theorem c07_unknown_channel_witness :
    RtpPacket.receive pinnedRtpCfg [0, 1, 2, 3] 5 [0x80, 0xc8] = .close ∧
    RtpPacket.receive pinnedRtpCfg [0, 1, 2, 3] 0 [0x80, 0x60, 0, 1, 0] = .close ∧
    RtpPacket.receive genRtpCfg [0, 1, 2, 3] 5 [0x80, 0xc8] = .skip ∧
    RtpPacket.receive genRtpCfg [0, 1, 2, 3] 0 [0x80, 0x60, 0, 1, 0] = .skip := by
  decide

/-- the pinned tree kept the first parameter set it ever saw: a damaged SPS `67 00 00` ahead of
    the sender's real SPS + PPS stuck, the metadata never became ready and no unit was handed on;
    the repaired tree takes the newer parameter sets while it is not ready.
    (`spsOk` accepts only the real SPS `67 42 00 1e`.)  Replayed: corpus/C07/bad-sps-first.case -/
theorem c07_bad_sps_sticks_witness :
    let ok : Bytes → Bool := fun b => b == [0x67, 0x42, 0x00, 0x1e]
    let d : DemuxSt := { codec := .h264, hasAac := false }
    let ins := [pk 1 [0x67, 0x00, 0x00], pk 2 [0x67, 0x42, 0x00, 0x1e], pk 3 [0x68, 0xce, 0x38], pk 4 [0x65, 0x88, 0x80]]
    (demuxRun pinnedCfg ok d ins).2 = [] ∧
    (demuxRun Depack.genCfg ok d ins).2.map (·.payload) = [[0x68, 0xce, 0x38], [0x65, 0x88, 0x80]] := by
  decide

/-- DESIGN §6 #19, the pinned tree: an audio frame arriving before the video parameter sets are
    known made the FLV worker build the AVC sequence header from an empty SPS (`sps[1]`): the
    goroutine died.  The repaired worker (C08 fix c2b314b) drops frames until the sets are known. -/
theorem c07_flv_audio_first_witness :
    let f : Frame := ⟨true, 0, 0, [0x21, 0x10]⟩
    (flvStep Pipeline.pinnedCfg (fun _ => true) .h264 true {} {} f).1.alive = false ∧
    (flvStep Pipeline.genCfg (fun _ => true) .h264 true {} {} f) = ({}, [], .ok) := by
  decide

/-- FIXED in round 2 (5ebbb31): flv.Muxer.videoMetaReady accepted any SPS of ≥ 4 bytes.  A stream
    without SDP parameter sets whose first SPS arrives truncated (`67 aa bb cc dd`, rejected by the
    decoder), followed by a PPS and an AAC frame: the FLV worker built the sequence header from the
    damaged SPS on the audio frame; the sender's real SPS / PPS / IDR that follow are handed on, but
    the header is sent once — every FLV client of the stream gets an undecodable configuration.
    The repaired worker waits for an SPS that is validated or decodes.
    Replayed: corpus/C07/damaged-sps-in-sequence-header.case -/
theorem c07_flv_damaged_sps_witness :
    let ok : Bytes → Bool := fun b => b == [0x67, 0x42, 0x00, 0x1e]
    let s : St := { demux := { codec := .h264, hasAac := true } }
    let ins : List In := [pk 1 [0x67, 0xaa, 0xbb, 0xcc, 0xdd], pk 2 [0x68, 0xce], .audio ⟨1, 1024, true, aacPayload [[1, 2]]⟩,
      pk 3 [0x67, 0x42, 0x00, 0x1e], pk 4 [0x68, 0xce], pk 5 [0x65, 0x88]]
    (runPipe Depack.genCfg { Pipeline.genCfg with flvValidatesSps := false } ok true false s ins).2.2.1
      = [.script, .vseq [0x67, 0xaa, 0xbb, 0xcc, 0xdd] [0x68, 0xce], .aseq, .audio [1, 2], .video false [0x67, 0x42, 0x00, 0x1e],
         .video false [0x68, 0xce], .video true [0x65, 0x88]] ∧
    (runPipe Depack.genCfg Pipeline.genCfg ok true false s ins).2.2.1
      = [.script, .vseq [0x67, 0x42, 0x00, 0x1e] [0x68, 0xce], .aseq, .video false [0x67, 0x42, 0x00, 0x1e],
         .video false [0x68, 0xce], .video true [0x65, 0x88]] := by
  decide

/-- OPEN (known finding `h264:flv-sequence-header-pps-from-malformed-packet`): a PPS cannot be
    validated by the server (there is no PPS parser), so a PPS-typed malformed packet that arrives
    while no PPS is stored — a stream without SDP parameter sets, after the sender's SPS and before
    its PPS — is stored, the depacketizer becomes ready with it, and the sender's real PPS that
    follows is ignored: the FLV sequence header and the TS key-frame headers carry the damaged PPS. -/
theorem c07_damaged_pps_sticks_witness :
    let ok : Bytes → Bool := fun b => b == [0x67, 0x42, 0x00, 0x1e]
    let s : St := { demux := { codec := .h264, hasAac := false } }
    let ins : List In := [pk 1 [0x67, 0x42, 0x00, 0x1e], pk 2 [0x68, 0xff, 0xff], pk 3 [0x68, 0xce], pk 4 [0x65, 0x88]]
    (runPipe Depack.genCfg Pipeline.genCfg ok true false s ins).2.2.1
      = [.script, .vseq [0x67, 0x42, 0x00, 0x1e] [0x68, 0xff, 0xff], .video false [0x68, 0xff, 0xff], .video false [0x68, 0xce], .video true [0x65, 0x88]] := by
  decide

/-- the pinned TS muxer dereferenced a nil AudioSpecificConfig on the first audio frame when the
    SDP's `config=` was missing or undecodable: the TS worker died and the stream had no HLS output.
    Replayed: corpus/C07/ts-no-asc.case -/
theorem c07_ts_no_asc_witness :
    let f : Frame := ⟨true, 0, 0, [0x21, 0x10]⟩
    (tsStep Pipeline.pinnedCfg false {} {} f).1.alive = false ∧
    (tsStep Pipeline.genCfg false {} {} f) = ({}, [], .err) := by
  decide

end IpcHub.Props.C07
