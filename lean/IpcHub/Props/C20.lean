/-
C20 — On-demand pull creates, serves and cleans up streams under any camera behaviour.
Property theorems only; helper lemmas in IpcHub/Lemmas/{Pull,PullRegistry,Registry,RegistryLts}.lean.
Model: Model/Pull.lean (service/rtsp/pull_client.go, pull_stream_factory.go) composed with the registry
model of C05 (media/global.go).  Specification: Spec/Pull.lean (a predicate over what is OBSERVED).
The camera is an adversary: an arbitrary (unbounded) list of response kinds, one per request it
receives — success with/without Session, 401 with a good / malformed / missing Basic or Digest
challenge, any other status, malformed bytes, orderly close, reset, silence, truncated body — then an
arbitrary list of play-phase events.
-/
import IpcHub.Model.PullInst
import IpcHub.Lemmas.Pull
import IpcHub.Lemmas.PullRegistry
namespace IpcHub.Props.C20
open IpcHub.Pull IpcHub.PullSpec

/-- The source facts the theorems rest on, regenerated from /repo on every run: the order of the
    handshake steps in Open and its error returns, Open's deferred cleanup (recover, then disconnect on
    any error), the three send/receive rounds of requestWithResponse with its challenge branches and
    status test, the read deadline before the handshake's blocking read, the guards of requestSDP /
    getSetupURL / requestSetup, the order NewStream → `go playStream`, playStream's Regist → counter →
    loop and its deferred Release → Unregist → disconnect, newRequest's credential/session rules,
    disconnect, connect's dial timeout, the factory, and the not-found answers of the requesters. -/
theorem c20_source_facts :
    IpcHub.Gen.pullFactsUnknown = [] ∧
    IpcHub.Gen.openCalls = ["c.connect", "c.requestHandshake", "c.requestSDP", "c.requestSetup", "c.requestPlay"] ∧
    IpcHub.Gen.openErrReturns = 5 ∧
    IpcHub.Gen.openDeferCalls = ["recover", "fmt.Errorf", "c.disconnect"] ∧
    IpcHub.Gen.openDeferConds = ["r != nil", "err != nil"] ∧
    IpcHub.Gen.openRecovers = true ∧
    IpcHub.Gen.rwrCalls = ["c.request", "c.receiveResponse", "trimSessionString", "resp.DigestAuth", "r.SetDigestAuth",
      "resp.BasicAuth", "r.SetBasicAuth", "c.request", "c.receiveResponse", "resp.DigestAuth", "r.SetDigestAuth",
      "resp.BasicAuth", "r.SetBasicAuth", "c.request", "c.receiveResponse"] ∧
    IpcHub.Gen.rwrConds = ["err != nil", "err != nil", "len(c.rsession) > 0", "resp.StatusCode == StatusUnauthorized",
      "len(c.userName) == 0",
      "len(auth) > len(digestAuthPrefix) && strings.EqualFold(auth[:len(digestAuthPrefix)], digestAuthPrefix)", "!ok",
      "len(auth) > len(basicAuthPrefix) && strings.EqualFold(auth[:len(basicAuthPrefix)], basicAuthPrefix)", "!ok",
      "err != nil", "err != nil", "resp.StatusCode == StatusUnauthorized",
      "len(auth) > len(digestAuthPrefix) && strings.EqualFold(auth[:len(digestAuthPrefix)], digestAuthPrefix)", "!ok",
      "len(auth) > len(basicAuthPrefix) && strings.EqualFold(auth[:len(basicAuthPrefix)], basicAuthPrefix)", "!ok",
      "err != nil", "err != nil", "!(resp.StatusCode >= 200 && resp.StatusCode <= 300)"] ∧
    IpcHub.Gen.recvCalls = ["config.NetTimeout", "c.conn.SetReadDeadline", "ReadResponse"] ∧
    IpcHub.Gen.handshakeDeadline = true ∧
    IpcHub.Gen.sdpConds = ["err != nil", "err != nil", "len(media.Format) == 0"] ∧
    IpcHub.Gen.formatGuard = true ∧
    IpcHub.Gen.setupUrlSafe = true ∧
    IpcHub.Gen.setupConds = ["len(c.vControl) > 0", "err != nil", "len(c.aControl) > 0", "err != nil"] ∧
    IpcHub.Gen.setupCalls = ["c.getSetupURL", "c.requestWithResponse", "c.getSetupURL", "c.requestWithResponse"] ∧
    IpcHub.Gen.requestPlayCalls = ["c.requestWithResponse", "media.NewStream", "go c.playStream"] ∧
    IpcHub.Gen.playStreamCalls = ["media.Regist", "stats.RtspConns.Add", "config.NetHeartbeatInterval", "config.NetTimeout",
      "c.conn.SetReadDeadline", "receive", "c.newRequest", "c.request"] ∧
    IpcHub.Gen.playStreamDefer = ["recover", "stats.RtspConns.Release", "media.Unregist", "c.disconnect"] ∧
    IpcHub.Gen.playStreamLoopCond = "!c.closed" ∧
    IpcHub.Gen.playStreamLoopConds = ["timeout > 0", "err != nil", "err != nil", "err == io.EOF", "!c.closed",
      "heartbeatInterval > 0 && time.Now().Sub(lastHeartbeat) > heartbeatInterval", "err != nil"] ∧
    IpcHub.Gen.newRequestConds = ["url == nil", "len(c.rsession) > 0", "len(c.realm) > 0", "len(c.md5password) > 0", "len(c.nonce) > 0"] ∧
    IpcHub.Gen.newRequestCalls = ["r.SetDigestAuth", "r.SetBasicAuth"] ∧
    IpcHub.Gen.disconnectConds = ["c.closed", "c.conn != nil"] ∧
    IpcHub.Gen.disconnectCalls = ["c.conn.Close"] ∧
    IpcHub.Gen.connectCalls = ["config.NetTimeout", "net.DialTimeout", "buffered.NewConn"] ∧
    IpcHub.Gen.createCalls = ["NewPullClient", "client.Open"] ∧
    IpcHub.Gen.createConds = ["err != nil", "err != nil"] ∧
    IpcHub.Gen.describeNotFound = ["stream == nil", "not-found", "return"] ∧
    IpcHub.Gen.playNotFound = ["stream == nil", "not-found", "return"] ∧
    IpcHub.Gen.httpFlvNotFound = ["stream == nil", "not-found", "return"] := by
  decide

/-- the regenerated facts are the ones the property needs -/
theorem c20_facts_good : genFacts = good := by decide

/-- **Headline: under any camera behaviour the pull satisfies the specification.**  For every route
    configuration (credentials or not, listening or not, URL with or without path, any SDP kind) and
    EVERY camera script (unbounded), the model of the current source either fails in a way the
    specification accepts — the requester gets not-found (never a hang, never a panic), the
    connection is closed, nothing is registered, the requests seen were in handshake order, credentials
    were only sent after a challenge and computed from the URL's password, and there was a reason to
    give up — or it succeeds with the complete ordered handshake, and then for EVERY play-phase event
    list that ends (EOF, reset, silence until the deadline, garbage, truncated frame, stream closed /
    replaced on the server side) every packet was delivered and registration, connection counter,
    connection and consumers are all released. -/
theorem c20_pull_satisfies_spec (cfg : Cfg) (script : List Resp) :
    ((openPull genFacts cfg script).outcome = .notFound ∧
        verdict cfg script (obsOfFail (openPull genFacts cfg script)) = "ok") ∨
    ((openPull genFacts cfg script).outcome = .stream ∧
        ∀ evs eff, playStream evs = some eff →
          verdict cfg script (obsOfPlay (openPull genFacts cfg script) evs eff) = "ok") := by
  rw [c20_facts_good]; exact good_satisfies_spec cfg script

/-- **Handshake: bounded, ordered, authenticated.**  Open sends at most 3·(3 + tracks) ≤ 15 requests;
    on success the successfully answered requests are exactly OPTIONS, DESCRIBE, one SETUP per track,
    PLAY, in this order (on failure: a prefix of it); without credentials in the URL no request carries
    an Authorization; credentials appear only after a valid challenge and a challenged first attempt is
    repeated at once with the challenged scheme. -/
theorem c20_handshake (cfg : Cfg) (script : List Resp) :
    let r := openPull genFacts cfg script
    r.reqs.length ≤ 3 * (3 + tracksOf cfg.sdp) ∧
    (r.outcome = .stream → succeeded script (r.reqs.map seen) = needed cfg) ∧
    isPrefix (succeeded script (r.reqs.map seen)) (needed cfg) = true ∧
    (cfg.hasUser = false → ∀ q ∈ r.reqs, q.auth = .none) ∧
    credsOk script (r.reqs.map seen) = true ∧
    challengeAnswered cfg script (r.reqs.map seen) = true :=
  ⟨(openPull_bounded genFacts cfg script).1, openPull_stream_complete genFacts cfg script,
   openPull_prefix genFacts cfg script, openPull_no_user_no_auth genFacts cfg script,
   openPull_credsOk genFacts cfg script, openPull_challengeAnswered genFacts cfg script⟩

/-- **Failure cleans up**: whatever the camera does, Open ends (no hang, no panic); if it fails, the
    connection — if one was made — is closed exactly once and no stream was created, so nothing is
    registered and no counter was touched. -/
theorem c20_failure_cleanup (cfg : Cfg) (script : List Resp) :
    let r := openPull genFacts cfg script
    (r.outcome = .stream ∨ r.outcome = .notFound) ∧
    (r.outcome = .notFound →
      (cfg.listens = true ∧ r.effects = [.dial, .closeConn]) ∨ (cfg.listens = false ∧ r.effects = [] ∧ r.reqs = [])) ∧
    (r.outcome = .stream → r.effects = [.dial, .newStream]) := by
  rw [c20_facts_good]
  exact ⟨openPull_good_outcome cfg script, openPull_notFound_effects good cfg script,
    fun h => (openPull_stream_effects good cfg script h).1⟩

/-- **Silence is bounded** at every step of the handshake: with the read deadline the source sets, no
    camera script makes Open hang. -/
theorem c20_silence_bounded (cfg : Cfg) (script : List Resp) :
    (openPull genFacts cfg script).outcome ≠ .hang :=
  openPull_no_hang genFacts cfg script (by decide)

/-- **Play phase cleans up**: for every event list, playStream either is still running (no terminal
    event yet) or it registered once, counted the connection once, delivered every packet that arrived
    before the end, and then released the counter, unregistered (which closes the stream and its
    consumers, C03/C05) and closed the connection — each exactly once, in this order. -/
theorem c20_play_cleanup (evs : List PlayEv) :
    (playStream evs = none ↔ ∀ e ∈ evs, terminal e = false) ∧
    ∀ eff, playStream evs = some eff →
      (∃ mid, eff = [.regist, .connAdd] ++ mid ++ [.connRelease, .unregist, .closeConn] ∧
        (∀ e ∈ mid, e = .deliver ∨ e = .keepAlive)) ∧
      eff.count .regist = 1 ∧ eff.count .connAdd = 1 ∧ eff.count .connRelease = 1 ∧
      eff.count .unregist = 1 ∧ eff.count .closeConn = 1 ∧
      (eff.filter (· = .deliver)).length = packetsBefore evs := by
  refine ⟨playStream_none_iff evs, fun eff h => ?_⟩
  obtain ⟨mid, h1, h2, _⟩ := playStream_some h
  have := playStream_once h
  exact ⟨⟨mid, h1, h2⟩, this⟩

/-- **Concurrent first requests end with one registered stream.**  Two pulls whose handshakes both
    succeeded register their fresh streams a and b for the same path from their play goroutines; for
    every interleaving of the two Regist bodies (under the lock the source takes), when both are done
    exactly one of them owns the path and is live, and the other one is retired: closed at once if it
    has no consumer (its next packet then ends its play loop: `.closedPacket` is terminal in
    `c20_play_cleanup`), otherwise watched by a replaced-task that closes it when its consumers are gone. -/
theorem c20_one_stream (st0 : IpcHub.Registry.State) (hw : IpcHub.Registry.WF st0) (a b : Nat)
    (sa sb : IpcHub.Registry.Stream)
    (ha : st0.streams[a]? = some sa) (hb : st0.streams[b]? = some sb) (hpath : sb.path = sa.path)
    (hoka : sa.status = .ok) (hokb : sb.status = .ok) (hne : a ≠ b)
    (hfa : IpcHub.Registry.load st0.reg sa.path ≠ some a) (hfb : IpcHub.Registry.load st0.reg sa.path ≠ some b)
    (sched : List Nat)
    (hd : IpcHub.RegistryLts.allDone (IpcHub.RegistryLts.runSched true
            (IpcHub.RegistryLts.initC st0 [.regist a, .regist b]) sched) = true) :
    let st := (IpcHub.RegistryLts.runSched true (IpcHub.RegistryLts.initC st0 [.regist a, .regist b]) sched).st
    (IpcHub.Registry.load st.reg sa.path = some b ∧ IpcHub.Registry.isOk st b = true ∧ IpcHub.Registry.retired st a) ∨
    (IpcHub.Registry.load st.reg sa.path = some a ∧ IpcHub.Registry.isOk st a = true ∧ IpcHub.Registry.retired st b) :=
  IpcHub.Registry.two_regist_race st0 hw a b sa sb ha hb hpath hoka hokb hne hfa hfb sched hd

/-- the lock assumed by `c20_one_stream` is the one in the source -/
theorem c20_one_stream_lock_fact :
    IpcHub.Gen.pullRegistLocked = true ∧
    IpcHub.Gen.getOrCreateCallsC20 = ["Get", "utils.CanonicalPath", "route.Match", "psf.Can", "psf.Create", "runZeroConsumersCloseTask"] ∧
    IpcHub.Gen.getOrCreateTaskGuardC20 = ["r != nil", "psf.Can(r.URL)", "err == nil", "!r.KeepAlive"] ∧
    IpcHub.Gen.getOrCreateTaskArgs = "s, StreamNoConsumer" := by decide

/-- Why the facts are needed — the behaviours of the code before the fixes, as theorems about the
    model with the old facts (witnesses: corpus/C20/handshake-silence.case, open-panic.case): without
    the handshake deadline a camera that accepts and then stays silent leaves the requester blocked for
    ever with the connection open; without the recover/guards an SDP section without formats panics
    through to the requester and skips the cleanup; the specification rejects both. -/
theorem c20_old_facts_counterexamples :
    (openPull { good with handshakeDeadline := false }
        { hasUser := false, listens := true, urlPath := true, sdp := .tracks true true false } [.silence]).outcome = .hang ∧
    (openPull { good with handshakeDeadline := false }
        { hasUser := false, listens := true, urlPath := true, sdp := .tracks true true false } [.silence]).effects = [.dial] ∧
    (openPull { good with openRecovers := false, formatGuard := false }
        { hasUser := false, listens := true, urlPath := true, sdp := .noFormat } []).outcome = .panic ∧
    (openPull { good with openRecovers := false, formatGuard := false }
        { hasUser := false, listens := true, urlPath := true, sdp := .noFormat } []).effects = [.dial] ∧
    verdict { hasUser := false, listens := true, urlPath := true, sdp := .tracks true true false } [.silence]
      (obsOfFail (openPull { good with handshakeDeadline := false }
        { hasUser := false, listens := true, urlPath := true, sdp := .tracks true true false } [.silence])) = "requester-hangs" ∧
    verdict { hasUser := false, listens := true, urlPath := true, sdp := .noFormat } []
      (obsOfFail (openPull { good with openRecovers := false, formatGuard := false }
        { hasUser := false, listens := true, urlPath := true, sdp := .noFormat } [])) = "panic-reaches-requester" := by
  refine ⟨by decide, by decide, by decide, by decide, defect_verdicts.1, defect_verdicts.2.1⟩

/-! non-vacuity -/

/-- a cooperative camera that challenges with Digest, wants the MD5 of the password on the second
    attempt, then serves two tracks: the pull succeeds with 7 requests -/
example :
    let cfg : Cfg := { hasUser := true, listens := true, urlPath := true, sdp := .tracks true true false }
    let r := openPull genFacts cfg [.status 401 .digestOk .none, .status 401 .digestOk .none, .status 200 .other .none]
    r.outcome = .stream ∧ r.reqs.length = 7 ∧ (r.reqs.map (·.md5)) = [false, false, true, true, true, true, true] := by decide

/-- a failing one: reset while waiting for the DESCRIBE answer -/
example :
    let cfg : Cfg := { hasUser := false, listens := true, urlPath := true, sdp := .tracks true false false }
    (openPull genFacts cfg [.status 200 .other .none, .reset]).outcome = .notFound := by decide

/-- a play phase that ends: three packets, a keep-alive, then the camera disappears -/
example : playStream [.packet, .idle, .packet, .packet, .eof] =
    some [.regist, .connAdd, .deliver, .deliver, .keepAlive, .deliver, .connRelease, .unregist, .closeConn] := by decide

/-- `c20_one_stream`: its hypotheses are met by two fresh streams on one path and a real schedule -/
example :
    let s : IpcHub.Registry.Stream := { path := ['/', 'a'], status := .ok, rtp := [], flv := [], seed := 0, hls := none }
    let st0 : IpcHub.Registry.State := { streams := [s, s], reg := [], tasks := [], now := 0 }
    IpcHub.RegistryLts.allDone (IpcHub.RegistryLts.runSched true
      (IpcHub.RegistryLts.initC st0 [.regist 0, .regist 1]) IpcHub.RegistryLts.pauseSchedule) = true := by decide

end IpcHub.Props.C20
