import IpcHub.Model.PullInst
import IpcHub.Spec.Pull
namespace IpcHub.Props.C20
theorem c20_source_facts_wip : IpcHub.Gen.pullFactsUnknown = [] := by decide
end IpcHub.Props.C20
