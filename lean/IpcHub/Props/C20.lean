/-
C20 — On-demand pull creates, serves and cleans up streams under any camera behaviour.
Property theorems only; helper lemmas in IpcHub/Lemmas/{Pull,PullRegistry,Registry,RegistryLts}.lean.
Model: Model/Pull.lean (service/rtsp/pull_client.go, pull_stream_factory.go) composed with the registry
model of C05 (media/global.go).  Specification: Spec/Pull.lean (a predicate over what is OBSERVED).
The camera is an adversary: an arbitrary (unbounded) list of response kinds, one per request it
receives — success with/without Session, 401 with a good / malformed / missing Basic or Digest
challenge, any other status, malformed bytes, orderly close, reset, silence, truncated body — then an
arbitrary list of play-phase events.
-/
import IpcHub.Model.PullInst
import IpcHub.Lemmas.Pull
import IpcHub.Lemmas.PullRegistry
import IpcHub.Lemmas.PullDual
namespace IpcHub.Props.C20
open IpcHub.Pull IpcHub.PullSpec

/-- The source facts the theorems rest on, regenerated from /repo on every run: the order of the
    handshake steps in Open and its error returns, Open's deferred cleanup (recover, then disconnect on
    any error), the three send/receive rounds of requestWithResponse with its challenge branches and
    status test, the read deadline before the handshake's blocking read, the guards of requestSDP /
    getSetupURL / requestSetup, the order NewStream → `go playStream`, playStream's Regist → counter →
    loop and its deferred Release → Unregist → disconnect, newRequest's credential/session rules,
    disconnect, connect's dial timeout, the built-in NetTimeout / heart-beat values (the harness shortens
    them through the verif override; a read deadline is only set when NetTimeout > 0), the factory, and
    the not-found answers of the requesters, and media.Unregist reaching `s.Close()` whatever the registry
    holds under the path (no return before it: `c20_pull_end_closes_stream`), and the Session header of EVERY
    response requestWithResponse receives — the first and the answers to the authenticated repetitions —
    being stored in `c.rsession` (what the model's `requestWithResponse` does: `c20_session_carried_partial`). -/
theorem c20_source_facts :
    IpcHub.Gen.pullFactsUnknown = [] ∧
    IpcHub.Gen.openCalls = ["c.connect", "c.requestHandshake", "c.requestSDP", "c.requestSetup", "c.requestPlay"] ∧
    IpcHub.Gen.openErrReturns = 5 ∧
    IpcHub.Gen.openDeferCalls = ["recover", "fmt.Errorf", "c.disconnect"] ∧
    IpcHub.Gen.openDeferConds = ["r != nil", "err != nil"] ∧
    IpcHub.Gen.openRecovers = true ∧
    IpcHub.Gen.rwrCalls = ["c.request", "c.receiveResponse", "trimSessionString", "resp.DigestAuth", "r.SetDigestAuth",
      "resp.BasicAuth", "r.SetBasicAuth", "c.request", "c.receiveResponse", "resp.DigestAuth", "r.SetDigestAuth",
      "resp.BasicAuth", "r.SetBasicAuth", "c.request", "c.receiveResponse"] ∧
    IpcHub.Gen.rwrConds = ["err != nil", "err != nil", "len(c.rsession) > 0", "resp.StatusCode == StatusUnauthorized",
      "len(c.userName) == 0",
      "len(auth) > len(digestAuthPrefix) && strings.EqualFold(auth[:len(digestAuthPrefix)], digestAuthPrefix)", "!ok",
      "len(auth) > len(basicAuthPrefix) && strings.EqualFold(auth[:len(basicAuthPrefix)], basicAuthPrefix)", "!ok",
      "err != nil", "err != nil", "resp.StatusCode == StatusUnauthorized",
      "len(auth) > len(digestAuthPrefix) && strings.EqualFold(auth[:len(digestAuthPrefix)], digestAuthPrefix)", "!ok",
      "len(auth) > len(basicAuthPrefix) && strings.EqualFold(auth[:len(basicAuthPrefix)], basicAuthPrefix)", "!ok",
      "err != nil", "err != nil", "!(resp.StatusCode >= 200 && resp.StatusCode <= 300)"] ∧
    IpcHub.Gen.recvCalls = ["config.NetTimeout", "c.conn.SetReadDeadline", "ReadResponse"] ∧
    IpcHub.Gen.handshakeDeadline = true ∧
    IpcHub.Gen.sdpConds = ["err != nil", "err != nil", "len(media.Format) == 0"] ∧
    IpcHub.Gen.formatGuard = true ∧
    IpcHub.Gen.setupUrlSafe = true ∧
    IpcHub.Gen.setupConds = ["len(c.vControl) > 0", "err != nil", "len(c.aControl) > 0", "err != nil"] ∧
    IpcHub.Gen.setupCalls = ["c.getSetupURL", "c.requestWithResponse", "c.getSetupURL", "c.requestWithResponse"] ∧
    IpcHub.Gen.requestPlayCalls = ["c.requestWithResponse", "media.NewStream", "go c.playStream"] ∧
    IpcHub.Gen.streamAfterPlay = true ∧
    IpcHub.Gen.netTimeoutDefault = "time.Second * 45" ∧
    IpcHub.Gen.netHeartbeatDefault = "time.Second * 30" ∧
    IpcHub.Gen.playStreamCalls = ["media.Regist", "stats.RtspConns.Add", "config.NetHeartbeatInterval", "config.NetTimeout",
      "c.conn.SetReadDeadline", "receive", "c.newRequest", "c.request"] ∧
    IpcHub.Gen.playStreamDefer = ["recover", "stats.RtspConns.Release", "media.Unregist", "c.disconnect"] ∧
    IpcHub.Gen.playStreamLoopCond = "!c.closed" ∧
    IpcHub.Gen.playStreamLoopConds = ["timeout > 0", "err != nil", "err != nil", "err == io.EOF", "!c.closed",
      "heartbeatInterval > 0 && time.Now().Sub(lastHeartbeat) > heartbeatInterval", "err != nil"] ∧
    IpcHub.Gen.newRequestConds = ["url == nil", "len(c.rsession) > 0", "len(c.realm) > 0", "len(c.md5password) > 0", "len(c.nonce) > 0"] ∧
    IpcHub.Gen.newRequestCalls = ["r.SetDigestAuth", "r.SetBasicAuth"] ∧
    IpcHub.Gen.disconnectConds = ["c.closed", "c.conn != nil"] ∧
    IpcHub.Gen.disconnectCalls = ["c.conn.Close"] ∧
    IpcHub.Gen.connectCalls = ["config.NetTimeout", "net.DialTimeout", "buffered.NewConn"] ∧
    IpcHub.Gen.createCalls = ["NewPullClient", "client.Open"] ∧
    IpcHub.Gen.createConds = ["err != nil", "err != nil"] ∧
    IpcHub.Gen.describeNotFound = ["stream == nil", "not-found", "return"] ∧
    IpcHub.Gen.playNotFound = ["stream == nil", "not-found", "return"] ∧
    IpcHub.Gen.httpFlvNotFound = ["stream == nil", "not-found", "return"] ∧
    IpcHub.Gen.unregistClosesAlways = true ∧
    IpcHub.Gen.rwrSessionSaves = ["recv", "save", "recv", "save", "recv", "save"] := by
  decide

/-- the regenerated facts are the ones the property needs -/
theorem c20_facts_good : genFacts = good := by decide

/-- **Headline: under any camera behaviour the pull satisfies the specification.**  For every route
    configuration (credentials or not, listening or not, URL with or without path, any SDP kind) and
    EVERY camera script (unbounded), the model of the current source either fails in a way the
    specification accepts — the requester gets not-found (never a hang, never a panic), the
    connection is closed, nothing is registered, the requests seen were in handshake order, credentials
    were only sent after a challenge and computed from the URL's password, and there was a reason to
    give up — or it succeeds with the complete ordered handshake, and then for EVERY play-phase event
    list that ends (EOF, reset, silence until the deadline, garbage, truncated frame, stream closed /
    replaced on the server side) every packet was delivered and registration, connection counter,
    connection and consumers are all released, and a later request pulls afresh.  The observation the
    verdict judges (`obsOfFail` / `obsOfPlay`) is computed from the model's requests and from the world
    its effects leave (connections, registration, connection counter, unclosed streams, dials) — no
    field the model speaks about is assumed. -/
theorem c20_pull_satisfies_spec (cfg : Cfg) (script : List Resp) :
    ((openPull genFacts cfg script).outcome = .notFound ∧
        verdict cfg script (obsOfFail genFacts cfg script) = "ok") ∨
    ((openPull genFacts cfg script).outcome = .stream ∧
        ∀ evs eff, playStream evs = some eff →
          verdict cfg script (obsOfPlay genFacts cfg script evs eff) = "ok") := by
  rw [c20_facts_good]; exact good_satisfies_spec cfg script

/-- **Handshake: bounded, ordered, addressed, authenticated.**  Open sends at most 3·(3 + tracks) ≤ 15
    requests; on success the successfully answered requests are exactly OPTIONS, DESCRIBE, one SETUP per
    section of the SDP that has a control attribute — the video track's control URL with channel pair
    0-1, then the audio track's with 2-3 (`Method.setup audio`) —, PLAY, in this order (on failure: a
    prefix of it); OPTIONS / DESCRIBE / PLAY name the route URL; without credentials in the URL no request carries
    an Authorization; credentials appear only after a valid challenge and a challenged first attempt is
    repeated at once with the challenged scheme. -/
theorem c20_handshake (cfg : Cfg) (script : List Resp) :
    let r := openPull genFacts cfg script
    r.reqs.length ≤ 3 * (3 + tracksOf cfg.sdp) ∧
    (r.outcome = .stream → succeeded script (r.reqs.map seen) = needed cfg) ∧
    isPrefix (succeeded script (r.reqs.map seen)) (needed cfg) = true ∧
    (cfg.hasUser = false → ∀ q ∈ r.reqs, q.auth = .none) ∧
    credsOk script (r.reqs.map seen) = true ∧
    challengeAnswered cfg script (r.reqs.map seen) = true :=
  ⟨(openPull_bounded genFacts cfg script).1, openPull_stream_complete genFacts cfg script,
   openPull_prefix genFacts cfg script, openPull_no_user_no_auth genFacts cfg script,
   openPull_credsOk genFacts cfg script, openPull_challengeAnswered genFacts cfg script⟩

/-- **Failure cleans up**: whatever the camera does, Open ends (no hang, no panic); if it fails, the
    connection — if one was made — is closed exactly once and no stream was created, so nothing is
    registered and no counter was touched. -/
theorem c20_failure_cleanup (cfg : Cfg) (script : List Resp) :
    let r := openPull genFacts cfg script
    (r.outcome = .stream ∨ r.outcome = .notFound) ∧
    (r.outcome = .notFound →
      (cfg.listens = true ∧ r.effects = [.dial, .closeConn]) ∨ (cfg.listens = false ∧ r.effects = [] ∧ r.reqs = [])) ∧
    (r.outcome = .stream → r.effects = [.dial, .newStream]) := by
  rw [c20_facts_good]
  refine ⟨openPull_good_outcome cfg script, fun ho => ?_, fun h => (openPull_stream_effects good cfg script h).1⟩
  rcases openPull_notFound_effects good cfg script ho with ⟨hl, h | ⟨h, _⟩⟩ | h
  · exact Or.inl ⟨hl, h⟩
  · cases h
  · exact Or.inr h

/-- **A pull that has ended leaves nothing behind, and a later request pulls afresh.**  The world a pull
    acts on: open connections to the camera, the registration under the path, stats.RtspConns, streams
    built and not closed, number of dials.  For every configuration, every camera script and every play
    phase that ends (for a failed Open the play events are irrelevant), starting from any world in which
    nothing is registered under the path, `GetOrCreate` ends with exactly that world again — nothing
    registered, no connection, counter and stream count unchanged — but for one more dial (none if nobody
    listens); hence the next request finds nothing registered, builds a new client, dials again, and —
    Open being a function of configuration and script alone — gets the same kind of result. -/
theorem c20_later_request_pulls_afresh (cfg : Cfg) (script : List Resp) (evs1 evs2 : List PlayEv) (w : World)
    (hw : w.registered = false)
    (h1 : (playStream evs1).isSome = true) (h2 : (playStream evs2).isSome = true) :
    let p1 := getOrCreate genFacts cfg script evs1 w
    let p2 := getOrCreate genFacts cfg script evs2 p1.1
    p1.1 = { w with dials := w.dials + (if cfg.listens then 1 else 0) } ∧
    p2.2 = p1.2 ∧ (p1.2 = .stream ∨ p1.2 = .notFound) ∧
    p2.1.dials = p1.1.dials + (if cfg.listens then 1 else 0) ∧
    p2.1.registered = false ∧ p2.1.conns = w.conns ∧ p2.1.counter = w.counter ∧ p2.1.streams = w.streams := by
  rw [c20_facts_good]
  have e1 := getOrCreate_ended cfg script evs1 w hw h1
  have e2 := getOrCreate_ended cfg script evs2 { w with dials := w.dials + (if cfg.listens then 1 else 0) } hw h2
  simp only [e1, e2]
  exact ⟨trivial, trivial, openPull_good_outcome cfg script, trivial, hw, trivial, trivial, trivial⟩

/-- **Silence is bounded** at every step of the handshake: with the read deadline the source sets, no
    camera script makes Open hang. -/
theorem c20_silence_bounded (cfg : Cfg) (script : List Resp) :
    (openPull genFacts cfg script).outcome ≠ .hang :=
  openPull_no_hang genFacts cfg script (by decide)

/-- **Play phase cleans up**: for every event list, playStream either is still running (no terminal
    event yet) or it registered once, counted the connection once, delivered every packet that arrived
    before the end, and then released the counter, unregistered (which closes the stream and its
    consumers, C03/C05) and closed the connection — each exactly once, in this order. -/
theorem c20_play_cleanup (evs : List PlayEv) :
    (playStream evs = none ↔ ∀ e ∈ evs, terminal e = false) ∧
    ∀ eff, playStream evs = some eff →
      (∃ mid, eff = [.regist, .connAdd] ++ mid ++ [.connRelease, .unregist, .closeConn] ∧
        (∀ e ∈ mid, e = .deliver ∨ e = .keepAlive)) ∧
      eff.count .regist = 1 ∧ eff.count .connAdd = 1 ∧ eff.count .connRelease = 1 ∧
      eff.count .unregist = 1 ∧ eff.count .closeConn = 1 ∧
      (eff.filter (· = .deliver)).length = packetsBefore evs := by
  refine ⟨playStream_none_iff evs, fun eff h => ?_⟩
  obtain ⟨mid, h1, h2, _⟩ := playStream_some h
  have := playStream_once h
  exact ⟨⟨mid, h1, h2⟩, this⟩

/-- **Concurrent first requests end with one registered stream.**  Two pulls whose handshakes both
    succeeded register their fresh streams a and b for the same path from their play goroutines; for
    every interleaving of the two Regist bodies (under the lock the source takes), when both are done
    exactly one of them owns the path and is live, and the other one is retired: closed at once if it
    has no consumer (its next packet then ends its play loop: `.closedPacket` is terminal in
    `c20_play_cleanup`), otherwise watched by a replaced-task that closes it when its consumers are gone. -/
theorem c20_one_stream (st0 : IpcHub.Registry.State) (hw : IpcHub.Registry.WF st0) (a b : Nat)
    (sa sb : IpcHub.Registry.Stream)
    (ha : st0.streams[a]? = some sa) (hb : st0.streams[b]? = some sb) (hpath : sb.path = sa.path)
    (hoka : sa.status = .ok) (hokb : sb.status = .ok) (hne : a ≠ b)
    (hfa : IpcHub.Registry.load st0.reg sa.path ≠ some a) (hfb : IpcHub.Registry.load st0.reg sa.path ≠ some b)
    (sched : List Nat)
    (hd : IpcHub.RegistryLts.allDone (IpcHub.RegistryLts.runSched true
            (IpcHub.RegistryLts.initC st0 [.regist a, .regist b]) sched) = true) :
    let st := (IpcHub.RegistryLts.runSched true (IpcHub.RegistryLts.initC st0 [.regist a, .regist b]) sched).st
    (IpcHub.Registry.load st.reg sa.path = some b ∧ IpcHub.Registry.isOk st b = true ∧ IpcHub.Registry.retired st a) ∨
    (IpcHub.Registry.load st.reg sa.path = some a ∧ IpcHub.Registry.isOk st a = true ∧ IpcHub.Registry.retired st b) :=
  IpcHub.Registry.two_regist_race st0 hw a b sa sb ha hb hpath hoka hokb hne hfa hfb sched hd

/-- the lock assumed by `c20_one_stream` is the one in the source -/
theorem c20_one_stream_lock_fact :
    IpcHub.Gen.pullRegistLocked = true ∧
    IpcHub.Gen.getOrCreateCallsC20 = ["Get", "utils.CanonicalPath", "route.Match", "psf.Can", "psf.Create", "runZeroConsumersCloseTask"] ∧
    IpcHub.Gen.getOrCreateTaskGuardC20 = ["r != nil", "psf.Can(r.URL)", "err == nil", "!r.KeepAlive"] ∧
    IpcHub.Gen.getOrCreateTaskArgs = "s, StreamNoConsumer" := by decide

/-- **The end of a pull closes its stream whatever the registry holds** (the clean-up clause
    "consumers of the stream are closed … nothing stays registered" for a stream that is, is no longer,
    or never was the registered one).  With the source's Unregist (fact `unregistClosesAlways`), for
    every registry state and every live stream i — registered, replaced by the other pull's stream
    while it still had a consumer, or already removed — playStream's deferred Unregist leaves i not OK
    and without consumers (both tables emptied: they are closed), not registered; every other stream
    and every other stream's registration is untouched (the survivor stays registered). -/
theorem c20_pull_end_closes_stream (st : IpcHub.Registry.State) (i : Nat) (s : IpcHub.Registry.Stream)
    (h : st.streams[i]? = some s) (hok : s.status = .ok) :
    let st' := IpcHub.PullDual.unregistF IpcHub.Gen.unregistClosesAlways st i
    IpcHub.Registry.isOk st' i = false ∧ IpcHub.Registry.ccOf st' i = 0 ∧
    IpcHub.Registry.load st'.reg s.path ≠ some i ∧
    (∀ j, j ≠ i → st'.streams[j]? = st.streams[j]?) ∧
    (∀ p j, j ≠ i → IpcHub.Registry.load st.reg p = some j → IpcHub.Registry.load st'.reg p = some j) :=
  IpcHub.PullDual.unregistF_closes st i s h hok

/-- **Two simultaneous first requests that both pulled, then every way the two pulls can end.**  For
    every scenario — a consumer attached or not to the first-registered stream before the second pull
    registers, a consumer or not on the second one, route with or without keepalive, either pull
    ending first, each in any of the ways a pull ends (camera side: close / reset / silence / garbage /
    truncated frame; server side: Stream.Close; idle: consumer leaves and the zero-consumers task
    fires) — the model of the current source (registry of C05 with the regenerated facts, Unregist
    with `unregistClosesAlways`) passes the specification of Spec/PullDual.lean at all three stages for
    BOTH streams: consumers of an ended pull closed, its connection closed, its stream not OK and not
    registered; exactly the survivor registered (or nothing); the surviving pull still served.
    (The quantifier is this finite table of scenario kinds; the unbounded statement is
    `c20_pull_end_closes_stream`.  Goroutine / counter leaks are observed, not modelled: `leak = false`.) -/
theorem c20_dual_pulls_satisfy_spec (sc : IpcHub.PullDual.Scn) :
    let s := IpcHub.PullDual.stages IpcHub.Gen.unregistClosesAlways IpcHub.Registry.genFacts sc
    IpcHub.PullDualSpec.verdict sc s.1 s.2.1 s.2.2 false = .ok := by
  obtain ⟨lc, wc, keep, lf, h1, h2⟩ := sc
  cases lc <;> cases wc <;> cases keep <;> cases lf <;> cases h1 <;> cases h2 <;> decide

/-- The session id survives the authentication (finite table, hence `_partial`): for a camera that accepts the
    route's credentials and behaves per RFC 2326 — every step answered with success, the session id handed
    out from the first SETUP on — that puts a valid Digest or Basic challenge in front of ANY subset of the
    steps (OPTIONS, DESCRIBE, each SETUP, PLAY; one or two tracks), the model of the current source ends with
    a stream, and every request after an answer that carried the session id names it (so a camera that
    answers 454 Session Not Found to a request without it never has to); the camera's script is used up
    exactly (no request beyond the challenged ones and their authenticated repetitions). -/
theorem c20_session_carried_partial :
    ∀ ch ∈ [Chal.digestOk, Chal.basicOk],
    ∀ sdp ∈ [Sdp.tracks true false false, Sdp.tracks false true false, Sdp.tracks true true false, Sdp.tracks true true true],
    ∀ mask ∈ masks (3 + tracksOf sdp),
      let r := openPull genFacts { hasUser := true, listens := true, urlPath := true, sdp := sdp } (rfcScript ch mask)
      r.outcome = .stream ∧ r.rest = [] ∧
      sessionCarried (rfcScript ch mask) (r.reqs.map (·.session.isSome)) = true := by
  decide

/-- Why the fact is needed (seeded change C20d / C03d): with an Unregist that returns early when the
    stream is not the registered one, a pulled stream that was replaced while it had a consumer stays
    live with that consumer after its camera went away; the specification rejects it. -/
theorem c20_guarded_unregist_counterexample :
    let sc : IpcHub.PullDual.Scn := { lc := true, wc := true, keep := true, loserFirst := true, how1 := .camera, how2 := .camera }
    let s := IpcHub.PullDual.stages false IpcHub.Registry.goodFacts sc
    s.2.1.l.ok = true ∧ s.2.1.l.cc = 1 ∧ s.2.1.l.cl = false ∧ s.2.1.l.up = false ∧
    IpcHub.PullDualSpec.verdict sc s.1 s.2.1 s.2.2 false = .consumerNotClosed :=
  IpcHub.PullDual.unregistF_guarded_leaves_replaced_stream_open

/-- Why the facts are needed — the behaviours of the code before the fixes, as theorems about the
    model with the old facts (witnesses: corpus/C20/handshake-silence.case, open-panic.case): without
    the handshake deadline a camera that accepts and then stays silent leaves the requester blocked for
    ever with the connection open; without the recover/guards an SDP section without formats panics
    through to the requester and skips the cleanup; when the stream is built before PLAY is sent, a
    refused PLAY leaves a stream (its conversion workers) behind although the requester gets not-found
    and the connection is closed (seeded change C20); the specification rejects all three. -/
theorem c20_old_facts_counterexamples :
    (openPull { good with handshakeDeadline := false }
        { hasUser := false, listens := true, urlPath := true, sdp := .tracks true true false } [.silence]).outcome = .hang ∧
    (openPull { good with handshakeDeadline := false }
        { hasUser := false, listens := true, urlPath := true, sdp := .tracks true true false } [.silence]).effects = [.dial] ∧
    (openPull { good with openRecovers := false, formatGuard := false }
        { hasUser := false, listens := true, urlPath := true, sdp := .noFormat } []).outcome = .panic ∧
    (openPull { good with openRecovers := false, formatGuard := false }
        { hasUser := false, listens := true, urlPath := true, sdp := .noFormat } []).effects = [.dial] ∧
    verdict cfgVA [.silence] (obsOfFail { good with handshakeDeadline := false } cfgVA [.silence]) = "requester-hangs" ∧
    verdict { hasUser := false, listens := true, urlPath := true, sdp := .noFormat } []
      (obsOfFail { good with openRecovers := false, formatGuard := false }
        { hasUser := false, listens := true, urlPath := true, sdp := .noFormat } []) = "panic-reaches-requester" ∧
    (let f : Facts := { good with streamAfterPlay := false }
     let script : List Resp := [.status 200 .other .none, .status 200 .other .none, .status 200 .other .none,
       .status 200 .other .none, .status 454 .other .none]
     (openPull f cfgVA script).outcome = .notFound ∧
     (openPull f cfgVA script).effects = [.dial, .newStream, .closeConn] ∧
     (worldAfterOpen (openPull f cfgVA script)).streams = 1 ∧
     verdict cfgVA script (obsOfFail f cfgVA script) = "connection-or-goroutine-leak") := by
  refine ⟨by decide, by decide, by decide, by decide, defect_verdicts.1, defect_verdicts.2.1,
    earlyStream_witness.1, earlyStream_witness.2.1, earlyStream_witness.2.2.1, defect_verdicts.2.2.2⟩

/-! non-vacuity -/

/-- a cooperative camera that challenges with Digest, wants the MD5 of the password on the second
    attempt, then serves two tracks: the pull succeeds with 7 requests -/
example :
    let cfg : Cfg := { hasUser := true, listens := true, urlPath := true, sdp := .tracks true true false }
    let r := openPull genFacts cfg [.status 401 .digestOk .none, .status 401 .digestOk .none, .status 200 .other .none]
    r.outcome = .stream ∧ r.reqs.length = 7 ∧ (r.reqs.map (·.md5)) = [false, false, true, true, true, true, true] := by decide

/-- `c20_handshake`: video and audio — the two SETUPs go to the video track, then to the audio track -/
example :
    let cfg : Cfg := { hasUser := false, listens := true, urlPath := true, sdp := .tracks true true false }
    (openPull genFacts cfg []).reqs.map (·.method) = [.options, .describe, .setup false, .setup true, .play] ∧
    needed cfg = [.options, .describe, .setup false, .setup true, .play] := by decide

/-- `c20_later_request_pulls_afresh`: a pull that plays three packets and loses the camera, then a second
    request: two dials, nothing left -/
example :
    let cfg : Cfg := { hasUser := false, listens := true, urlPath := true, sdp := .tracks true false false }
    let p1 := getOrCreate genFacts cfg [] [.packet, .packet, .packet, .eof] World.init
    let p2 := getOrCreate genFacts cfg [] [.reset] p1.1
    p1 = ({ World.init with dials := 1 }, .stream) ∧ p2 = ({ World.init with dials := 2 }, .stream) := by decide

/-- a failing one: reset while waiting for the DESCRIBE answer -/
example :
    let cfg : Cfg := { hasUser := false, listens := true, urlPath := true, sdp := .tracks true false false }
    (openPull genFacts cfg [.status 200 .other .none, .reset]).outcome = .notFound := by decide

/-- a play phase that ends: three packets, a keep-alive, then the camera disappears -/
example : playStream [.packet, .idle, .packet, .packet, .eof] =
    some [.regist, .connAdd, .deliver, .deliver, .keepAlive, .deliver, .connRelease, .unregist, .closeConn] := by decide

/-- `c20_one_stream`: its hypotheses are met by two fresh streams on one path and a real schedule -/
example :
    let s : IpcHub.Registry.Stream := { path := ['/', 'a'], status := .ok, rtp := [], flv := [], seed := 0, hls := none }
    let st0 : IpcHub.Registry.State := { streams := [s, s], reg := [], tasks := [], now := 0 }
    IpcHub.RegistryLts.allDone (IpcHub.RegistryLts.runSched true
      (IpcHub.RegistryLts.initC st0 [.regist 0, .regist 1]) IpcHub.RegistryLts.pauseSchedule) = true := by decide

/-- `c20_pull_end_closes_stream`: its hypotheses are met by the replaced stream of two pulls, which is
    live with one consumer while the other stream owns the path; `c20_dual_pulls_satisfy_spec`: in that
    scenario the replaced stream is served on until its camera goes away, then closed -/
example :
    let sc : IpcHub.PullDual.Scn := { lc := true, wc := true, keep := false, loserFirst := true, how1 := .camera, how2 := .idle }
    let y := IpcHub.PullDual.setup true sc
    y.st.streams[0]? = some { IpcHub.PullDual.fresh with rtp := [1], seed := 1 } ∧
    IpcHub.Registry.load y.st.reg IpcHub.PullDual.dpath = some 1 ∧
    (IpcHub.PullDual.stages true IpcHub.Registry.goodFacts sc).1.l.sv = true ∧
    (IpcHub.PullDual.stages true IpcHub.Registry.goodFacts sc).2.1.l.cl = true ∧
    (IpcHub.PullDual.stages true IpcHub.Registry.goodFacts sc).2.1.reg = some 1 ∧
    (IpcHub.PullDual.stages true IpcHub.Registry.goodFacts sc).2.2.reg = none := by decide

end IpcHub.Props.C20
