/- The multiplexer of the current source tree: `service.listen`'s registrations, resolved
   with the regenerated facts of `Gen/MuxFacts.lean` (C19). -/
import IpcHub.Model.Sniffer
import IpcHub.Spec.MuxRoute
import IpcHub.Gen.MuxFacts
namespace IpcHub.MuxInst
open IpcHub.Patricia IpcHub.Sniffer IpcHub.MuxSpec

/-- the matcher expression of a registration → the strings its patricia tree is built from -/
def matcherStrings (m : String) : Option (List Bytes) :=
  if m = "rtsp.MatchRTSP()" then some (IpcHub.Gen.matchRTSPArgs.map ascii)
  else if m = "listener.MatchHTTP()" then some (IpcHub.Gen.defaultHTTPMethods.map ascii)
  else none

/-- the serve function of a registration → which service accepts from that listener -/
def serviceOf (s : String) : Option Proto :=
  if s = "s.rtsp.Serve" then some .rtsp
  else if s = "s.http.Serve" then some .http
  else none

def parseReg (r : String × String) : Option (Proto × List Bytes) :=
  match matcherStrings r.1, serviceOf r.2 with
  | some ss, some p => some (p, ss)
  | _, _ => none

/-- registrations in source order; `none` when the translator met a registration it does
    not understand (the obligations in Props/C19 then fail) -/
def genRegs : Option (List (Proto × List Bytes)) :=
  IpcHub.Gen.muxRegistrations.mapM parseReg

def genRegsD : List (Proto × List Bytes) := genRegs.getD []

/-- `MatchPrefix` → `newPatriciaTreeString` for every registration -/
def genTrees : List Tree := genRegsD.map (fun r => newTree r.2)

def genTimeoutSet : Bool := IpcHub.Gen.sniffTimeoutSet

/-- route index → the service that accepts from the i-th registered listener -/
def svcOfRoute : Route → Proto
  | .closed => .none
  | .service i => match genRegsD[i]? with
    | some r => r.1
    | none => .none

/-- `Listener.serve` of the current tree on one connection -/
def genServe (stream : Bytes) (evs : List Ev) : Except Fault ServeRes :=
  serve genTimeoutSet genTrees stream evs

end IpcHub.MuxInst
