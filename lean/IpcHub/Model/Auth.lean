/-
Model of the authorization code of ipchub (property C11), part 1: tables and HTTP.

  provider/auth/user.go      User.init, CopyFrom, ValidatePermission, ValidatePassword, PasswordMD5
  provider/auth/manager.go   manager.Get / Save / Del
  provider/auth/token.go     TokenManager.NewToken / Refresh / AccessCheck / ExpCheck
  utils/path.go              CanonicalPath (+ path.Clean, path.Base, path.Ext of the Go library)
  service/streamapis.go      streamInterceptor, permissionInterceptor, extractStreamPathAndExt,
                             onStreamsRequest (dispatch on the extension)
  service/apis.go            the /api/ handler: noAuthRequired, authInterceptor, roleInterceptor
  service/hls/hls.go         GetTS (split of `<stream>/<seq>`), GetM3u8
  service/flv/httpflv.go     ConsumeByHTTP (registry look-up)

Strings are `List Char`.  Secrets (tokens, passwords) are symbolic.  Core Lean only.
-/
import IpcHub.Model.PathMatch
import IpcHub.Model.CanonPath
namespace IpcHub.Auth
open IpcHub.PathMatch

/-! ## source facts the model is parameterised by (regenerated: Gen/C11Facts.lean) -/

structure Cfg where
  pm : PathMatch.Cfg
  /-- user.go `User.init`: are `pushMatchers`/`pullMatchers` cleared before `initMatchers` appends? -/
  initResets : Bool
  /-- streamapis.go `permissionInterceptor`: for `.ts` the right is checked on the directory of the segment -/
  tsPermDir : Bool
  /-- streamapis.go `permissionInterceptor`: the right is checked on `utils.CanonicalPath(streamPath)` -/
  permCanonical : Bool
  /-- rtsp/session.go: WebSocket sessions look their user up per request and `checkPermission` applies to them -/
  wsRtspChecks : Bool
  /-- rtsp/session.go `onPreprocess`: a 401 after a wrong digest carries the nonce that replaced the old one -/
  digestShowsNewNonce : Bool
  /-- wsp/wsp.go `handshakeDataChannel`: a data channel may only join a control session of the same user and path -/
  wspJoinChecks : Bool
  /-- wsp/session.go: DESCRIBE / PLAY re-validate the pull right of the session's user -/
  wspPlayChecks : Bool
  /-- apis.go `authInterceptor`: the verified user name REPLACES (`r.Header.Set`) whatever value of the
      internal `user_name_in_token` header the client sent itself (anything else, e.g. `Header.Add`,
      leaves the client's value in front of the verified one) -/
  identityReplaces : Bool
  /-- token.go: life times in seconds -/
  accessTTL : Int
  refreshTTL : Int
  /-- apis.go: `noAuthRequired` keys and the GET prefix that needs no administrator -/
  noAuth : List (List Char)
  streamQueryPrefix : List Char

/-! ## secrets -/

/-- A password as stored or as presented: the plain text `s`, or the hex MD5 of the plain text `s`.
    MD5 is symbolic (injective, never a 32-digit-hex fixed point: `passwordNeedMD5 plain = true`). -/
inductive Secret where
  | plain (s : List Char)
  | md5 (s : List Char)
  deriving DecidableEq, Repr

def Secret.under : Secret → List Char
  | .plain s => s
  | .md5 s => s

/-- User.PasswordMD5 -/
def Secret.md5Of (p : Secret) : Secret := .md5 p.under

/-- User.ValidatePassword: both sides hashed unless already a hash, compared case-insensitively -/
def validatePassword (stored given : Secret) : Bool := stored.md5Of = given.md5Of

/-- the two digest responses `checkAuth` accepts: computed from `user.Password` and from `user.PasswordMD5()` -/
def digestSecretOk (stored given : Secret) : Bool := given = stored || given = stored.md5Of

/-! ## users -/

inductive Right where
  | pull | push
  deriving DecidableEq, Repr

structure User where
  name : List Char
  password : Secret
  admin : Bool
  push : List Char
  pull : List Char
  pushM : List Matcher
  pullM : List Matcher
  deriving Repr

/-- what `json.Decode` produces for POST /api/v1/users (no matchers) -/
structure UserIn where
  name : List Char
  password : Secret
  admin : Bool
  push : List Char
  pull : List Char
  deriving Repr

def lowerStr (cfg : Cfg) (s : List Char) : List Char := s.map cfg.pm.lower

/-- User.init -/
def User.init (cfg : Cfg) (u : User) : User :=
  let pull := if u.admin && u.pull.isEmpty then ['*'] else u.pull
  let push := if u.admin && u.push.isEmpty then ['*'] else u.push
  let basePush := if cfg.initResets then [] else u.pushM
  let basePull := if cfg.initResets then [] else u.pullM
  { u with name := lowerStr cfg u.name, pull := pull, push := push,
           pushM := basePush ++ initMatchers cfg.pm push,
           pullM := basePull ++ initMatchers cfg.pm pull }

def UserIn.toUser (i : UserIn) : User :=
  { name := i.name, password := i.password, admin := i.admin, push := i.push, pull := i.pull, pushM := [], pullM := [] }

/-- User.CopyFrom -/
def User.copyFrom (cfg : Cfg) (u src : User) (withPassword : Bool) : User :=
  User.init cfg { u with password := if withPassword then src.password else u.password,
                         admin := src.admin, push := src.push, pull := src.pull }

/-- User.ValidatePermission -/
def User.validatePermission (cfg : Cfg) (u : User) (path : List Char) (r : Right) : Bool :=
  let ms := match r with | .push => u.pushM | .pull => u.pullM
  ms.any (fun m => m.matches cfg.pm (trim cfg.pm.isSpace path))

/-- manager.Get -/
def getUser (cfg : Cfg) (us : List User) (name : List Char) : Option User :=
  us.find? (fun u => u.name = lowerStr cfg name)

/-- manager.Save -/
def saveUser (cfg : Cfg) (us : List User) (inp : UserIn) (updatePassword : Bool) : List User :=
  let nu := User.init cfg inp.toUser
  if us.any (fun u => u.name = nu.name) then
    us.map (fun u => if u.name = nu.name then u.copyFrom cfg nu updatePassword else u)
  else us ++ [nu]

/-- manager.Del -/
def delUser (cfg : Cfg) (us : List User) (name : List Char) : List User :=
  us.filter (fun u => u.name ≠ lowerStr cfg name)

/-! ## tokens -/

structure Tok where
  user : List Char
  a : Nat
  aexp : Int
  r : Nat
  rexp : Int
  deriving DecidableEq, Repr

/-- `sync.Map` token → *Token -/
abbrev TokTable := List (Nat × Tok)

def tget (t : TokTable) (k : Nat) : Option Tok := (t.find? (fun e => e.1 = k)).map (·.2)
def tdel (t : TokTable) (k : Nat) : TokTable := t.filter (fun e => e.1 ≠ k)
def tput (t : TokTable) (k : Nat) (v : Tok) : TokTable := (k, v) :: tdel t k

/-- TokenManager.NewToken; `next`, `next+1` are the two fresh secrets -/
def newToken (cfg : Cfg) (t : TokTable) (next : Nat) (user : List Char) (now : Int) : TokTable × Nat × Tok :=
  let tok : Tok := { user := user, a := next, aexp := now + cfg.accessTTL, r := next + 1, rexp := now + cfg.refreshTTL }
  (tput (tput t tok.a tok) tok.r tok, next + 2, tok)

/-- TokenManager.Refresh -/
def refreshToken (cfg : Cfg) (t : TokTable) (next : Nat) (rtoken : Nat) (now : Int) : TokTable × Nat × Option Tok :=
  match tget t rtoken with
  | none => (t, next, none)
  | some old =>
    if rtoken = old.r then
      let t' := tdel (tdel t old.a) old.r
      if old.rexp > now then
        let (t'', n', tok) := newToken cfg t' next old.user now
        (t'', n', some tok)
      else (t', next, none)
    else (t, next, none)

/-- TokenManager.AccessCheck -/
def accessCheck (t : TokTable) (atoken : Nat) (now : Int) : TokTable × Option (List Char) :=
  match tget t atoken with
  | none => (t, none)
  | some tok =>
    if tok.a = atoken then
      if tok.aexp > now then (t, some tok.user)
      else (tdel t tok.a, none)
    else (t, none)

/-- TokenManager.ExpCheck: `Range` over a snapshot of the entries -/
def expCheck (t : TokTable) (now : Int) : TokTable :=
  t.foldl (fun acc e =>
    let acc := if now > e.2.aexp then tdel acc e.2.a else acc
    if now > e.2.rexp then tdel acc e.2.r else acc) t

/-! ## paths -/

/-- the text after the last '/', or the whole string -/
def lastSeg : List Char → List Char
  | [] => []
  | c :: cs => if cs.contains '/' then lastSeg cs else if c = '/' then cs else c :: cs

/-- path.Base -/
def pathBase (p : List Char) : List Char :=
  if p.isEmpty then ['.'] else
  let q := trimRight isSlash p
  if q.isEmpty then ['/'] else lastSeg q

/-- the suffix starting at the last '.' of `s`, or empty -/
def dotSuffix : List Char → List Char
  | [] => []
  | c :: cs => if cs.contains '.' then dotSuffix cs else if c = '.' then c :: cs else []

/-- path.Ext: the suffix beginning at the final dot in the final slash-separated element -/
def pathExt (p : List Char) : List Char := dotSuffix (lastSeg p)

def joinSlash : List (List Char) → List Char
  | [] => []
  | [s] => s
  | s :: ss => s ++ '/' :: joinSlash ss

/-- the element loop of path.Clean for a rooted path: `acc` is the reversed output -/
def cleanSegs : List (List Char) → List (List Char) → List (List Char)
  | [], acc => acc.reverse
  | s :: ss, acc =>
    if s = [] || s = ['.'] then cleanSegs ss acc
    else if s = ['.', '.'] then cleanSegs ss acc.tail   -- ".." at the root is dropped
    else cleanSegs ss (s :: acc)

/-- path.Clean of a path that begins with '/' -/
def cleanRooted (p : List Char) : List Char := '/' :: joinSlash (cleanSegs (splitOn '/' p) [])

/-- the tail of utils.CanonicalPath and of net/http's cleanPath: root it, Clean it, keep a trailing slash -/
def cleanKeepSlash (p : List Char) : List Char :=
  if p.isEmpty then ['/'] else
  let p := if p.head? = some '/' then p else '/' :: p
  let np := cleanRooted p
  if p.getLast? = some '/' && np ≠ ['/'] then np ++ ['/'] else np

/-- utils.CanonicalPath: the model of IpcHub/Model/CanonPath.lean (the pass repeated until the
    result is its own canonical form), with this configuration's character functions -/
def canonicalPath (cfg : Cfg) (p : List Char) : List Char :=
  IpcHub.CanonPath.canonicalPath { lower := cfg.pm.lower, isSpace := cfg.pm.isSpace } p

/-- extractStreamPathAndExt; `none` = slice bounds panic -/
def extractStreamPathAndExt (rp : List Char) : Option (List Char × List Char) :=
  match rp with
  | [] => none
  | _ :: rest =>
    let ext := pathExt rp
    let tok := rest.takeWhile (· ≠ '/')
    let lo := 1 + tok.length
    let hi := rp.length - ext.length
    if lo ≤ hi then some ((rp.drop lo).take (hi - lo), ext) else none

/-- the text before / after the last '/' (strings.LastIndex + slicing in GetTS) -/
def splitLastSlash (p : List Char) : Option (List Char × List Char) :=
  if p.contains '/' then some ((p.take (p.length - (lastSeg p).length - 1)), lastSeg p) else none

def isDigit (c : Char) : Bool := '0' ≤ c && c ≤ '9'

/-- strconv.Atoi restricted to what GetTS needs: optional sign, decimal digits; `none` = syntax error -/
def atoi (s : List Char) : Option Int :=
  let (neg, ds) := match s with
    | '+' :: r => (false, r)
    | '-' :: r => (true, r)
    | r => (false, r)
  if ds.isEmpty || !ds.all isDigit then none
  else
    let n : Nat := ds.foldl (fun a c => a * 10 + (c.toNat - '0'.toNat)) 0
    some (if neg then - (n : Int) else (n : Int))

/-! ## the world -/

/-- one entry of the media registry: canonical key, sequence numbers of the HLS segments it holds,
    the RTSP session that published it (`none`: registered by the harness), multicast capable -/
structure StreamEnt where
  key : List Char
  segs : List Int
  owner : Option Nat
  deriving Repr, DecidableEq

structure World where
  authOn : Bool
  users : List User
  toks : TokTable
  next : Nat
  now : Int
  streams : List StreamEnt
  deriving Repr

def World.stream? (w : World) (key : List Char) : Option StreamEnt := w.streams.find? (·.key = key)

/-- media.GetOrCreate with an empty route table: look-up under the canonical key -/
def World.getOrCreate (cfg : Cfg) (w : World) (path : List Char) : Option StreamEnt :=
  w.stream? (canonicalPath cfg path)

/-- a token as a request carries it: absent / empty, or a secret -/
abbrev TokRef := Option Nat

/-- authInterceptor: `some name` continues, `none` is 401 -/
def authInterceptor (w : World) (tok : TokRef) : World × Option (List Char) :=
  match tok with
  | none => (w, none)
  | some t =>
    let (tt, r) := accessCheck w.toks t w.now
    ({ w with toks := tt }, r)

/-! ## /streams/ -/

inductive HMethod where
  | get | connect | other
  deriving DecidableEq, Repr

inductive Kind where
  | flv | m3u8 | ts | wsflv | wsrtsp | wsp
  deriving DecidableEq, Repr

inductive HttpOut where
  | redirect                    -- ServeMux cleaned the path: 301
  | crossdomain
  | unauthorized                -- 401
  | forbidden                   -- 403
  | serve (k : Kind) (key : List Char)   -- media of registry key `key` is delivered
  | noMedia (code : Nat)        -- passed the interceptors, nothing delivered (404 / 400)
  | panic
  deriving DecidableEq, Repr

/-- net/http ServeMux: every method but CONNECT is redirected to the cleaned path -/
def muxRedirects (m : HMethod) (path : List Char) : Bool :=
  m ≠ .connect && cleanKeepSlash path ≠ path

/-- the string `permissionInterceptor` validates -/
def permPath (cfg : Cfg) (streamPath ext : List Char) : List Char :=
  let p := if cfg.tsPermDir && ext = ".ts".toList then
      match splitLastSlash streamPath with
      | some (dir, _) => dir
      | none => streamPath
    else streamPath
  if cfg.permCanonical then canonicalPath cfg p else p

/-- permissionInterceptor -/
def permissionInterceptor (cfg : Cfg) (w : World) (userName path : List Char) : Option Bool :=
  match extractStreamPathAndExt path with
  | none => none
  | some (sp, ext) =>
    match getUser cfg w.users userName with
    | none => some false
    | some u => some (u.validatePermission cfg (permPath cfg sp ext) .pull)

inductive Gate where
  | pass (user : Option (List Char))
  | crossdomain | unauthorized | forbidden | panic
  deriving DecidableEq, Repr

/-- streamInterceptor -/
def streamInterceptor (cfg : Cfg) (w : World) (path : List Char) (tok : TokRef) : World × Gate :=
  if pathBase path = "crossdomain.xml".toList then (w, .crossdomain)
  else if !w.authOn then (w, .pass none)
  else
    match authInterceptor w tok with
    | (w', none) => (w', .unauthorized)
    | (w', some name) =>
      match permissionInterceptor cfg w' name path with
      | none => (w', .panic)
      | some false => (w', .forbidden)
      | some true => (w', .pass (some name))

/-- onStreamsRequest for a plain (non-WebSocket) request that passed the interceptor -/
def streamsDispatch (cfg : Cfg) (w : World) (path : List Char) : HttpOut :=
  match extractStreamPathAndExt path with
  | none => .panic
  | some (sp, ext) =>
    if ext = ".flv".toList then
      match w.getOrCreate cfg sp with
      | some s => .serve .flv s.key
      | none => .noMedia 404
    else if ext = ".m3u8".toList then
      match w.getOrCreate cfg sp with
      | some s => .serve .m3u8 s.key
      | none => .noMedia 404
    else if ext = ".ts".toList then
      match splitLastSlash sp with
      | none => .noMedia 400
      | some (dir, seqStr) =>
        match atoi seqStr with
        | none => .noMedia 400
        | some seq =>
          match w.getOrCreate cfg dir with
          | none => .noMedia 404
          | some s => if s.segs.contains seq then .serve .ts s.key else .noMedia 404
    else .noMedia 404

/-- one plain HTTP request on /streams/ -/
def httpStream (cfg : Cfg) (w : World) (m : HMethod) (path : List Char) (tok : TokRef) : World × HttpOut :=
  if muxRedirects m path then (w, .redirect)
  else
    match streamInterceptor cfg w path tok with
    | (w', .crossdomain) => (w', .crossdomain)
    | (w', .unauthorized) => (w', .unauthorized)
    | (w', .forbidden) => (w', .forbidden)
    | (w', .panic) => (w', .panic)
    | (w', .pass _) => (w', streamsDispatch cfg w' path)

/-! ## /api/ -/

inductive ApiOut where
  | redirect | crossdomain
  | open_          -- a path that needs no token
  | unauthorized | forbidden
  | pass (user : List Char)
  deriving DecidableEq, Repr

def isPrefix : List Char → List Char → Bool
  | [], _ => true
  | _ :: _, [] => false
  | a :: as, b :: bs => a = b && isPrefix as bs

/-- roleInterceptor -/
def roleInterceptor (cfg : Cfg) (w : World) (isGet : Bool) (path userName : List Char) : Bool :=
  if isGet && isPrefix cfg.streamQueryPrefix path then true
  else match getUser cfg w.users userName with
    | none => false
    | some u => u.admin

/-- the `/api/` handler up to `api.ServeHTTP` -/
def apiGate (cfg : Cfg) (w : World) (m : HMethod) (isGet : Bool) (path : List Char) (tok : TokRef) : World × ApiOut :=
  if muxRedirects m path then (w, .redirect)
  else if pathBase path = "crossdomain.xml".toList then (w, .crossdomain)
  else if cfg.noAuth.contains (lowerStr cfg path) then (w, .open_)
  else
    match authInterceptor w tok with
    | (w', none) => (w', .unauthorized)
    | (w', some name) =>
      if roleInterceptor cfg w' isGet path name then (w', .pass name) else (w', .forbidden)

/-- onLogin (user name and password both non-empty) -/
def apiLogin (cfg : Cfg) (w : World) (name : List Char) (pw : Secret) : World × Option Tok :=
  if name.isEmpty || pw.under.isEmpty then (w, none) else
  match getUser cfg w.users name with
  | none => (w, none)
  | some u =>
    if validatePassword u.password pw then
      let (tt, n, tok) := newToken cfg w.toks w.next u.name w.now
      ({ w with toks := tt, next := n }, some tok)
    else (w, none)

/-- onRefreshToken -/
def apiRefresh (cfg : Cfg) (w : World) (tok : TokRef) : World × Option Tok :=
  match tok with
  | none => (w, none)
  | some t =>
    let (tt, n, r) := refreshToken cfg w.toks w.next t w.now
    ({ w with toks := tt, next := n }, r)

/-! ## the internal identity header

`authInterceptor` hands the verified user name to the later interceptors and to the WebSocket
upgrade in the request header `user_name_in_token`.  A client may send a header of that name
itself (net/http canonicalises every spelling of the key to the same map key): `hdr` below is the
list of values the CLIENT sent under that key, in order.  `r.Header.Get` returns the first value
of the key. -/

/-- what `r.Header.Get(usernameHeaderKey)` yields after `authInterceptor` accepted `name` -/
def identitySeen (cfg : Cfg) (hdr : List (List Char)) (name : List Char) : List Char :=
  if cfg.identityReplaces then name
  else match hdr with
    | [] => name
    | h :: _ => h

/-- streamInterceptor, with the client's own values of the identity header -/
def streamInterceptorH (cfg : Cfg) (w : World) (path : List Char) (tok : TokRef) (hdr : List (List Char)) : World × Gate :=
  if pathBase path = "crossdomain.xml".toList then (w, .crossdomain)
  else if !w.authOn then (w, .pass none)
  else
    match authInterceptor w tok with
    | (w', none) => (w', .unauthorized)
    | (w', some name) =>
      let seen := identitySeen cfg hdr name
      match permissionInterceptor cfg w' seen path with
      | none => (w', .panic)
      | some false => (w', .forbidden)
      | some true => (w', .pass (some seen))

/-- one plain HTTP request on /streams/, with the client's own values of the identity header -/
def httpStreamH (cfg : Cfg) (w : World) (m : HMethod) (path : List Char) (tok : TokRef) (hdr : List (List Char)) : World × HttpOut :=
  if muxRedirects m path then (w, .redirect)
  else
    match streamInterceptorH cfg w path tok hdr with
    | (w', .crossdomain) => (w', .crossdomain)
    | (w', .unauthorized) => (w', .unauthorized)
    | (w', .forbidden) => (w', .forbidden)
    | (w', .panic) => (w', .panic)
    | (w', .pass _) => (w', streamsDispatch cfg w' path)

/-- the `/api/` handler up to `api.ServeHTTP`, with the client's own values of the identity header -/
def apiGateH (cfg : Cfg) (w : World) (m : HMethod) (isGet : Bool) (path : List Char) (tok : TokRef) (hdr : List (List Char)) : World × ApiOut :=
  if muxRedirects m path then (w, .redirect)
  else if pathBase path = "crossdomain.xml".toList then (w, .crossdomain)
  else if cfg.noAuth.contains (lowerStr cfg path) then (w, .open_)
  else
    match authInterceptor w tok with
    | (w', none) => (w', .unauthorized)
    | (w', some name) =>
      let seen := identitySeen cfg hdr name
      if roleInterceptor cfg w' isGet path seen then (w', .pass seen) else (w', .forbidden)

theorem identitySeen_replaces (cfg : Cfg) (h : cfg.identityReplaces = true) (hdr : List (List Char)) (name : List Char) :
    identitySeen cfg hdr name = name := by simp [identitySeen, h]

theorem identitySeen_nil (cfg : Cfg) (name : List Char) : identitySeen cfg [] name = name := by
  simp [identitySeen]

end IpcHub.Auth
