/-
Model of `(*websocketTransport).Read` (network/websocket/websocket.go): the `net.Conn` adapter
through which an RTSP-over-WebSocket session (sub-protocol `rtsp`) reads.  The RTSP server wraps
it in `buffered.NewConn` and runs the same `receive` loop over it as over a TCP connection
(service/rtsp/session.go `newSession` / `process`), so what this adapter delivers is the byte
stream the codec of C14 reads.

gorilla's connection is abstracted to what the adapter sees of it: a sequence of data messages
(`NextReader`; control frames never surface), each message reader handing out its payload in
pieces — one piece per `Read` that returns short of the message's end: at every frame border of
a fragmented message (RFC 6455 §5.4), at the border of gorilla's read buffer, wherever a frame
arrives in several segments — and then `io.EOF`.  A piece may be empty (an empty fragment).

Core Lean only (linked into the driver).
-/
namespace IpcHub.WsTransport

local notation "Bytes" => List UInt8

/-- one data message as its reader hands it out: the pieces, in order; after the last one `io.EOF` -/
abbrev Msg := List Bytes

structure Cfg where
  /-- `c.reader = nil` happens only where the message reader reported `io.EOF`
      (false: also after a read that returned fewer bytes than asked for) -/
  dropOnlyAtEOF : Bool

/-- the adapter's state: `c.reader` (the pieces the current message reader still holds) and the
    messages gorilla has not handed out yet -/
structure St where
  cur : Option Msg
  rest : List Msg

/-- all bytes the peer sent that no `Read` has returned yet -/
def pending (s : St) : Bytes := (s.cur.getD []).flatten ++ (s.rest.map List.flatten).flatten

/-- `n, err = c.reader.Read(b)` with `len(b) = cap` on the reader holding `m`, and what the adapter
    does with `c.reader` afterwards -/
def readCur (cfg : Cfg) (cap : Nat) (m : Msg) (rest : List Msg) : Bytes × St :=
  match m with
  | [] => ([], ⟨none, rest⟩)                       -- (0, io.EOF): reader dropped, (0, nil) returned
  | c :: cs =>
    if c.length ≤ cap then
      -- the whole piece; a short read when `c.length < cap`
      (c, ⟨if !cfg.dropOnlyAtEOF && decide (c.length < cap) then none else some cs, rest⟩)
    else (c.take cap, ⟨some (c.drop cap :: cs), rest⟩)

/-- one `Read(b)`, `len(b) = cap`; `none`: `NextReader` failed (the peer has closed) -/
def read (cfg : Cfg) (cap : Nat) (s : St) : Option (Bytes × St) :=
  match s.cur, s.rest with
  | some m, rest => some (readCur cfg cap m rest)
  | none, m :: ms => some (readCur cfg cap m ms)    -- c.reader == nil: NextReader
  | none, [] => none

/-- successive `Read` calls with the given buffer lengths, until the list is used up or the
    connection has ended: the bytes returned, concatenated, and the state left -/
def drain (cfg : Cfg) : List Nat → St → Bytes × St
  | [], s => ([], s)
  | cap :: caps, s =>
    match read cfg cap s with
    | none => ([], s)
    | some (b, s') => let r := drain cfg caps s'; (b ++ r.1, r.2)

/-- number of `Read` calls (with buffers of at least one byte) after which everything is delivered -/
def msgSteps (m : Msg) : Nat := 1 + (m.map (fun c => 1 + c.length)).sum

def steps (s : St) : Nat := (match s.cur with | some m => msgSteps m | none => 0) + (s.rest.map msgSteps).sum

/-- everything the adapter delivers when it is read to the end with buffers of `cap` bytes -/
def deliver (cfg : Cfg) (cap : Nat) (msgs : List Msg) : Bytes :=
  let s : St := ⟨none, msgs⟩
  (drain cfg (List.replicate (steps s) cap) s).1

/-- cut `s` into pieces of the given lengths (what is left over becomes a last piece) -/
def cutPieces : List Nat → Bytes → List Bytes
  | [], s => if s.isEmpty then [] else [s]
  | n :: ns, s => s.take n :: cutPieces ns (s.drop n)

/-- cut a stream into messages of pieces: `plan` gives, per message, the lengths of its pieces -/
def cutMsgs : List (List Nat) → Bytes → List Msg
  | [], s => if s.isEmpty then [] else [[s]]
  | m :: ms, s =>
    let n := m.sum
    (cutPieces m (s.take n)) :: cutMsgs ms (s.drop n)

end IpcHub.WsTransport
