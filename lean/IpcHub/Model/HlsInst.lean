import IpcHub.Model.Hls
import IpcHub.Model.TsInst
import IpcHub.Gen.HlsFacts
namespace IpcHub.Hls
/-- the model instantiated with the facts regenerated from /repo -/
def genCfg : Cfg :=
  { ts := IpcHub.Ts.genCfg
    remain := IpcHub.Gen.hlsRemainSegments
    minDurMs := IpcHub.Gen.hlsSegmentMinDurationMs
    aacDelay := IpcHub.Gen.hlsAacDelay
    aacSync := IpcHub.Gen.hlsConfDefaultAacSync
    samples := IpcHub.Gen.aacSamplesPerFrame
    getCopies := IpcHub.Gen.memoryGetCopies
    m3u8Copies := IpcHub.Gen.m3u8Copies
    tokenEscaped := IpcHub.Gen.m3u8TokenEscaped
    firstFromFrame := IpcHub.Gen.firstSegmentStartsAtFirstFrame
    minFragment := IpcHub.Gen.hlsFragmentMin }
end IpcHub.Hls
