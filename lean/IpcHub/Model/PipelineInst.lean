/- the containment models instantiated with the facts regenerated from /repo -/
import IpcHub.Model.Pipeline
import IpcHub.Model.DepackInst
import IpcHub.Gen.ContainFacts
namespace IpcHub.Pipeline

def genCfg : Cfg where
  flvWaitsForParameterSets := IpcHub.Gen.flvWaitsForParameterSets
  flvValidatesSps := IpcHub.Gen.flvValidatesSps
  tsAacChecked := IpcHub.Gen.tsAacChecked
  tsAvcSkips79 := IpcHub.Gen.tsAvcSkips79
  cache264Checked := IpcHub.Gen.cache264Checked
  cache265Checked := IpcHub.Gen.cache265Checked

/-- the pinned tree (49348c9) -/
def pinnedCfg : Cfg where
  flvWaitsForParameterSets := false
  flvValidatesSps := false
  tsAacChecked := false
  tsAvcSkips79 := true
  cache264Checked := false
  cache265Checked := false

def genRtpCfg : RtpPacket.Cfg where
  unknownChannelTolerated := IpcHub.Gen.unknownChannelTolerated
  badHeaderTolerated := IpcHub.Gen.badHeaderTolerated
  headerPanicRecovered := IpcHub.Gen.headerPanicRecovered
  stripsPadding := IpcHub.Gen.stripsPadding

def pinnedRtpCfg : RtpPacket.Cfg where
  unknownChannelTolerated := false
  badHeaderTolerated := false
  headerPanicRecovered := false
  stripsPadding := false

end IpcHub.Pipeline
