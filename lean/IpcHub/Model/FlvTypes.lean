/-
Vocabulary shared by the FLV model (Model/Flv.lean) and the FLV specification
(Spec/FlvParse.lean): bytes, big-endian integers, source frames.  Core Lean only.
-/
namespace IpcHub.Flv

abbrev Bytes := List UInt8

/-- low 8 bits (Go `byte(n)`) -/
@[inline] def b8 (n : Nat) : UInt8 := UInt8.ofNat n

/-- `binary.BigEndian.PutUint16(buf, uint16(n))` (truncating like the Go conversion) -/
def be16 (n : Nat) : Bytes := [b8 (n / 256), b8 n]
/-- three big-endian bytes of `n` (truncating) -/
def be24 (n : Nat) : Bytes := [b8 (n / 65536), b8 (n / 256), b8 n]
/-- `binary.BigEndian.PutUint32(buf, uint32(n))` (truncating like the Go conversion) -/
def be32 (n : Nat) : Bytes := [b8 (n / 16777216), b8 (n / 65536), b8 (n / 256), b8 n]
/-- `binary.BigEndian.PutUint64` -/
def be64 (n : Nat) : Bytes := be32 (n / 4294967296) ++ be32 n

/-- `codec.Frame`: `mediaType` is Go's `codec.MediaType` (0 video, 1 audio, anything else is
    ignored by the muxer); `dts`/`pts` in nanoseconds (Go `int64`). -/
structure Frame where
  mediaType : Int
  dts : Int
  pts : Int
  payload : Bytes
  deriving Repr, DecidableEq

/-- Go `x / int64(time.Millisecond)`: integer division truncating toward zero -/
def msOf (ns : Int) : Int := ns.tdiv 1000000

/-- Go `uint32(x)` of an `int64`: the low 32 bits of the two's-complement value -/
def u32OfInt (x : Int) : UInt32 := UInt32.ofNat (x % 4294967296).toNat

inductive VCodec where
  | h264 | h265 | other
  deriving Repr, DecidableEq

end IpcHub.Flv
