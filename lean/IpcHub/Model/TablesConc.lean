/-
Edits that arrive WHILE a flush is running (C18).

  provider/auth/manager.go  (*manager).Flush      provider/route/routetable.go  (*routetable).Flush

`Flush` takes the table's write lock in its first statement and releases it on return
(`Lock(); defer Unlock()` and no other use of the lock in its body: the regenerated fact
`managerLocks` / `routetableLocks` says "Flush:Lock").  `Save` and `Del` take the same write lock.
An edit issued from another goroutine while the provider is doing its file-system steps therefore
waits until `Flush` has returned: the concurrent execution is the sequential one `flush; edit`.

`locked = false` models the other shape a flush can have — snapshot the table under the lock,
let the provider write the snapshot with the lock released, then clear both change lists
wholesale: the edit lands in between, is applied to the table in memory, is not in the file, and
its dirty mark is wiped.  Core Lean only.
-/
import IpcHub.Model.Tables
namespace IpcHub.Tables

/-- histories in which an edit (`save` / `del`) may also be issued while a flush is inside the
    provider (at any of its file-system steps) -/
inductive XOp (V : Type) where
  | c (o : COp V)
  | flushDuring (edit : Op V)
  deriving Repr

/-- `Flush` ∥ `edit`, the edit issued once `Flush` has reached the provider's file-system steps -/
def Server.flushDuring {V : Type} (o : Ops V) (guarded locked : Bool) (dflt : List V) (sv : Server V) (edit : Op V) : Server V :=
  if locked then
    -- the edit blocks on the table lock until Flush returns
    Server.step o guarded dflt (Server.step o guarded dflt sv .flush) edit
  else
    match flush guarded sv.st with
    | (_, none) => Server.step o guarded dflt sv edit              -- nothing pending: the provider is not called
    | (_, some full) =>
      let sv1 := Server.step o guarded dflt sv edit                -- the edit lands while the snapshot is written
      { st := { sv1.st with saves := [], removes := [] }           -- m.saves = m.saves[:0]; m.removes = m.removes[:0]
        disk := .table full }                                      -- the file holds the snapshot

def Server.xstep {V : Type} (o : Ops V) (guarded locked : Bool) (dflt : List V) (sv : Server V) : XOp V → Server V
  | .c x => Server.cstep o guarded dflt sv x
  | .flushDuring e => Server.flushDuring o guarded locked dflt sv e

def Server.xrun {V : Type} (o : Ops V) (guarded locked : Bool) (dflt : List V) (sv : Server V) (ops : List (XOp V)) : Server V :=
  ops.foldl (Server.xstep o guarded locked dflt) sv

/-- the same history as one without overlap: the edit takes effect after the flush it overlapped -/
def XOp.plain {V : Type} : XOp V → List (COp V)
  | .c x => [x]
  | .flushDuring e => [.op .flush, .op e]

/-- "Flush holds the table's write lock from its first statement to its return", read off the
    regenerated list of how each method takes the lock -/
def flushHoldsLock (locks : List String) : Bool := locks.contains "Flush:Lock"

/-- … and every edit takes the same write lock -/
def editsTakeLock (locks : List String) : Bool := locks.contains "Save:Lock" && locks.contains "Del:Lock"

end IpcHub.Tables
