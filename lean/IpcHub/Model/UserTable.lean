/-
Model of the table *contents* of provider/auth/user.go (User.init, User.CopyFrom: name,
password, admin, push, pull strings) — the matcher slices built by init belong to C11/C16.
The table (manager.go) is the generic machine of Model/Tables.lean instantiated with `userOps`.
Core Lean only.   (C18)
-/
import IpcHub.Model.Tables
namespace IpcHub.UserTable
open IpcHub.Tables

structure User where
  name : List Char
  password : List Char
  admin : Bool
  push : List Char
  pull : List Char
  deriving DecidableEq, Repr

/-- (*User).init, contents only -/
def userInit (lower : Char → Char) (u : User) : User :=
  let u := { u with name := u.name.map lower }                      -- u.Name = strings.ToLower(u.Name)
  if u.admin then
    let u := if u.pull.length = 0 then { u with pull := ['*'] } else u   -- if len(u.PullAccess) == 0
    if u.push.length = 0 then { u with push := ['*'] } else u            -- if len(u.PushAccess) == 0
  else u

/-- (*User).CopyFrom(src, withPassword) -/
def userCopyFrom (lower : Char → Char) (dst src : User) (withPassword : Bool) : User :=
  let dst := if withPassword then { dst with password := src.password } else dst
  userInit lower { dst with admin := src.admin, push := src.push, pull := src.pull }

def userOps (lower : Char → Char) : Ops User :=
  { key := (·.name), init := fun u => some (userInit lower u), copyFrom := userCopyFrom lower,
    canonKey := fun n => n.map lower }                              -- strings.ToLower(userName)

end IpcHub.UserTable
