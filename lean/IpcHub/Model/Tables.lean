/-
Model of the two persistent tables of ipchub, which share one structure:
  provider/auth/manager.go  (manager:    Reset, Get, Del, Save, Flush, All)
  provider/route/routetable.go (routetable: Reset, Get, Del, Save, Flush, All)
One generic state machine, instantiated for users (Model/UserTable.lean) and routes
(Model/Route.lean).  Core Lean only.   (C17 histories, C18)

Representation.  The Go tables hold *pointers*: `m` (map key → *V), `l` (list of *V), `saves`
and `removes` (lists of *V).  At any time there is at most one live object per key and it is
the one reachable from `m`, `l` and `saves` (an update goes through the pointer found in `m`;
`Del` drops it from all three).  The model therefore keeps values in `m` and `l` and updates
both on an update, and keeps only the *keys* of `saves` / `removes` (the JSON providers ignore
these two arguments; the harness observes their keys through a spying provider).
The Go map has no order: `m` is an association list in insertion order and the theorems about
iteration (C17) hold for every permutation.
-/
namespace IpcHub.Tables

abbrev Key := List Char

/-- what distinguishes the two tables -/
structure Ops (V : Type) where
  /-- `u.Name` / `r.Pattern` -/
  key : V → Key
  /-- `(*User).init` / `(*Route).init`: canonicalise the key, apply defaults; `none` = error -/
  init : V → Option V
  /-- `dst.CopyFrom(src, flag)` (routes ignore the flag) -/
  copyFrom : V → V → Bool → V
  /-- how `Get`/`Del` normalise their argument: `strings.ToLower` / `utils.CanonicalPath` -/
  canonKey : Key → Key

structure State (V : Type) where
  m : List (Key × V)
  l : List V
  saves : List Key
  removes : List Key
  deriving Repr

def State.empty {V : Type} : State V := { m := [], l := [], saves := [], removes := [] }

/-- `t.m[k]` -/
def lookup {V : Type} (k : Key) : List (Key × V) → Option V
  | [] => none
  | (k', v) :: rest => if k' = k then some v else lookup k rest

/-- `delete(t.m, k)` -/
def eraseKey {V : Type} (k : Key) : List (Key × V) → List (Key × V)
  | [] => []
  | (k', v) :: rest => if k' = k then eraseKey k rest else (k', v) :: eraseKey k rest

/-- `t.m[k] = v` -/
def insertKey {V : Type} (k : Key) (v : V) : List (Key × V) → List (Key × V)
  | [] => [(k, v)]
  | (k', v') :: rest => if k' = k then (k, v) :: rest else (k', v') :: insertKey k v rest

/-- `for i, x := range xs { if p x { xs = append(xs[:i], xs[i+1:]...); break } }` -/
def eraseFirst {α : Type} (p : α → Bool) : List α → List α
  | [] => []
  | x :: xs => if p x then xs else x :: eraseFirst p xs

/-- `Reset`'s loop over the loaded entries: entries whose init fails are skipped -/
def loadLoop {V : Type} (o : Ops V) : List V → State V → State V
  | [], s => s
  | v :: rest, s =>
    match o.init v with
    | none => loadLoop o rest s                                   -- continue // 忽略错误的配置
    | some v' => loadLoop o rest { s with m := insertKey (o.key v') v' s.m, l := s.l ++ [v'] }

/-- `Reset(provider)` after a successful `LoadAll` -/
def reset {V : Type} (o : Ops V) (loaded : List V) : State V :=
  loadLoop o loaded State.empty

/-- `Get(name)`: the entry found in the map -/
def get {V : Type} (o : Ops V) (s : State V) (name : Key) : Option V :=
  lookup (o.canonKey name) s.m

/-- `All()`: copy of the list -/
def all {V : Type} (s : State V) : List V := s.l

/-- `Del(name)` -/
def del {V : Type} (o : Ops V) (s : State V) (name : Key) : State V :=
  let k := o.canonKey name
  match lookup k s.m with
  | none => s
  | some v =>
    { m := eraseKey k s.m                                          -- delete(t.m, pattern)
      l := eraseFirst (fun v2 => o.key v = o.key v2) s.l           -- 从完整列表中删除
      saves := eraseFirst (fun k2 => o.key v = k2) s.saves         -- 从保存列表中删除
      removes := s.removes ++ [o.key v] }                          -- t.removes = append(t.removes, r)

/-- `Save(new, flag)`; the Boolean is `err == nil` -/
def save {V : Type} (o : Ops V) (s : State V) (newv : V) (flag : Bool) : State V × Bool :=
  match o.init newv with
  | none => (s, false)                                             -- return err
  | some nv =>
    let k := o.key nv
    match lookup k s.m with
    | some _ =>                                                    -- 更新: r.CopyFrom(newr) through the shared pointer
      let upd := fun (v : V) => if o.key v = k then o.copyFrom v nv flag else v
      let s1 := { s with m := s.m.map (fun kv => if kv.1 = k then (kv.1, o.copyFrom kv.2 nv flag) else kv)
                         l := s.l.map upd }
      if s.saves.any (fun k2 => k = k2) then (s1, true)            -- 如果保存列表存在，不新增
      else ({ s1 with saves := s.saves ++ [k] }, true)
    | none =>                                                      -- 新增
      ({ m := s.m ++ [(k, nv)]                                     -- t.m[r.Pattern] = r
         l := s.l ++ [nv]
         saves := s.saves ++ [k]
         removes := eraseFirst (fun k2 => k = k2) s.removes }, true)

/-- `Flush()`: `none` when the guard `len(saves)+len(removes) == 0` returns early, otherwise the
    list handed to `provider.Flush` and the state with both change lists cleared.
    (`guarded = false` models a Flush without the early return.) -/
def flush {V : Type} (guarded : Bool) (s : State V) : State V × Option (List V) :=
  if guarded && s.saves.length + s.removes.length == 0 then (s, none)
  else ({ s with saves := [], removes := [] }, some s.l)

/-! The operations of a history, and the server around the table: the state and the table file. -/
inductive Op (V : Type) where
  | save (v : V) (flag : Bool)
  | del (name : Key)
  | flush
  | restart
  deriving Repr

/-- the table file as the JSON provider sees it -/
inductive Disk (V : Type) where
  | missing                   -- os.Stat: not exist
  | table (t : List V)        -- a JSON array that `json.Unmarshal` accepts
  | corrupt                   -- empty / truncated / not JSON: `LoadAll` returns an error
  deriving Repr

structure Server (V : Type) where
  st : State V
  disk : Disk V

/-- jsonProvider.LoadAll: a missing file yields `dflt` (the default administrator / no route),
    an unreadable one an error (`none`).  On a readable file it is the identity on the abstract
    content — assumption on encoding/json: `Unmarshal (Marshal t) = t`, exercised by the
    correspondence run. -/
def loadAll {V : Type} (dflt : List V) : Disk V → Option (List V)
  | .missing => some dflt
  | .table t => some t
  | .corrupt => none

/-- a server start: `Reset(provider)`.  `LoadAll` failing makes Reset panic ("Load user fail")
    after it has emptied the table. -/
def Server.boot {V : Type} (o : Ops V) (dflt : List V) (disk : Disk V) : Server V × Bool :=
  match loadAll dflt disk with
  | some loaded => ({ st := reset o loaded, disk := disk }, true)
  | none => ({ st := State.empty, disk := disk }, false)

def Server.step {V : Type} (o : Ops V) (guarded : Bool) (dflt : List V) (sv : Server V) : Op V → Server V
  | .save v flag => { sv with st := (save o sv.st v flag).1 }
  | .del name => { sv with st := del o sv.st name }
  | .flush =>
    match flush guarded sv.st with
    | (st', none) => { sv with st := st' }
    | (st', some full) => { st := st', disk := .table full }       -- EncodeJSONFile(p.filePath, full)
  | .restart => (Server.boot o dflt sv.disk).1

def Server.run {V : Type} (o : Ops V) (guarded : Bool) (dflt : List V) (sv : Server V) (ops : List (Op V)) : Server V :=
  ops.foldl (Server.step o guarded dflt) sv

/-! Histories in which a flush can also fail or die (C18: "if the process dies at any moment
    during a flush …").
    * `failFlush`: `provider.Flush` returns an error (provider down, EncodeJSONFile failing before
      it has touched the table file): `Flush` returns that error *before* it clears the change
      lists — nothing changes, the pending changes wait for the next `Flush`.
    * `crashFlush persisted`: `Flush` is called and the process dies inside it; the server is then
      started again.  `persisted` says whether the table file was already replaced when the
      process died — by `Props.C18.c18_crash_atomic` / `c18_crash_leaves_old_or_new_table` these
      are the only two outcomes for the regenerated program of EncodeJSONFile, whichever crash
      point and however many bytes of a write in progress.  When the guard returns early the
      file is not touched. -/
inductive COp (V : Type) where
  | op (o : Op V)
  | failFlush
  | crashFlush (persisted : Bool)
  deriving Repr

def Server.cstep {V : Type} (o : Ops V) (guarded : Bool) (dflt : List V) (sv : Server V) : COp V → Server V
  | .op x => Server.step o guarded dflt sv x
  | .failFlush => sv
  | .crashFlush persisted =>
    match flush guarded sv.st with
    | (_, none) => (Server.boot o dflt sv.disk).1
    | (_, some full) => (Server.boot o dflt (if persisted then .table full else sv.disk)).1

def Server.crun {V : Type} (o : Ops V) (guarded : Bool) (dflt : List V) (sv : Server V) (ops : List (COp V)) : Server V :=
  ops.foldl (Server.cstep o guarded dflt) sv

/-- the same history without failing or dying flushes: a failed flush is nothing, a flush that
    died after the file was replaced is a flush followed by a restart, one that died before is
    just a restart -/
def COp.plain {V : Type} : COp V → List (Op V)
  | .op x => [x]
  | .failFlush => []
  | .crashFlush true => [.flush, .restart]
  | .crashFlush false => [.restart]

/-- the representation invariant of a table: keys are distinct, every entry is filed under its
    own key, and the list holds exactly the map's entries (in this model: in the same order) -/
structure WF {V : Type} (o : Ops V) (s : State V) : Prop where
  nodup : (s.m.map (·.1)).Nodup
  keyed : ∀ kv ∈ s.m, o.key kv.2 = kv.1
  list : s.l = s.m.map (·.2)

end IpcHub.Tables
