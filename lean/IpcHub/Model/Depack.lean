/-
Model of av/format/rtp: h264_depacketizer.go, h265_depacketizer.go, aac_depacketizer.go,
syncclock.go (Decode, RelativeNtp), demuxer.go (Control, process dispatch, worker death).
Core Lean only.  Bytes are `List UInt8`; sequence numbers `UInt16`, RTP timestamps `UInt32`
(Go's wrapping arithmetic).  Every index / slice expression of the Go code that can panic is a
`Status.panic` outcome here, never a totalised default.

The behaviour of the code depends on a few guards that are literally present (or absent) in
the source; they are the fields of `Cfg`, regenerated from /repo on every run
(`Gen/DepackFacts.lean`, instantiated in `Model/DepackInst.lean`).  The model describes both
the pinned tree (guards absent) and the repaired tree (guards present).
-/
namespace IpcHub.Depack

abbrev Bytes := List UInt8

/-- Guards and constants of the source the behaviour depends on. -/
structure Cfg where
  /-- h264 `Depacketize`: `if len(payload) < h264Min { return }` (3 on the pinned tree) -/
  h264Min : Nat
  /-- `depacketizeStapa`: the loop checks `off+2 > len(payload)` and `off+int(nalSize) > len(payload)` -/
  stapaChecked : Bool
  /-- `depacketizeStapa` overwrites the NRI bits of every aggregated NAL with the STAP-A header's -/
  stapaRewritesNri : Bool
  /-- `depacketizeFuA`: `if len(payload) < fuaMin { return }` at its head (0 = no guard) -/
  fuaMin : Nat
  /-- `depacketizeFuA`: a non-start fragment arriving with an empty fragment buffer is dropped -/
  fuaNeedsStart : Bool
  /-- `depacketizeFuA` rebuilds the NAL header from F and NRI of the FU indicator
      (`header & 0xE0`); before the repair the F bit was dropped (`header & 0x60`) -/
  fuaKeepsF : Bool
  /-- h265 `Depacketize`: `if len(payload) < h265Min { return }` -/
  h265Min : Nat
  /-- `depacketizeStap` (H.265 AP): bounds checks as for STAP-A -/
  apChecked : Bool
  /-- `depacketizeFu` (H.265): `if len(payload) < fuMin { return }` (0 = no guard) -/
  fuMin : Nat
  /-- `depacketizeFor2ByteAUHeader`: length checks before every index / slice -/
  aacChecked : Bool
  /-- `SyncClock.Decode`: `len(data) >= 20` checked before indexing -/
  srChecked : Bool
  /-- `writeFrame` (H.264 / H.265): an in-band parameter set replaces the stored one while the stored
      sets are unvalidated (`unvalidated()`: not ready and no picture size decoded from the SDP's sets) -/
  psUntilReady264 : Bool
  psUntilReady265 : Bool
  /-- `aacDepacketizer.indexLength` -/
  aacIndexLength : Nat
  /-- `aac.SamplesPerFrame` -/
  samplesPerFrame : Nat
  /-- `ptsDelay` in ns -/
  ptsDelay : Int

/-- one RTP packet on a media channel, after `ReadPacket`: header fields + `Payload()` -/
structure Pkt where
  seq : UInt16
  ts : UInt32
  marker : Bool := false
  payload : Bytes
deriving DecidableEq, Repr, Inhabited

/-- a `codec.Frame` handed to the `FrameWriter`.  `ts`/`base` are the arguments of
    `SyncClock.RelativeNtp` (`rtptime`, `sc.RTPTime`); see `Frame.pts`. -/
structure Frame where
  audio : Bool
  ts : UInt32
  base : UInt32
  payload : Bytes
deriving DecidableEq, Repr, Inhabited

/-- `SyncClock.RelativeNtp` with the float multiplication replaced by exact rational
    arithmetic truncated toward zero (`int64(float64(diff) * unit)`); the harness checks the
    Go float result is within 1 ns of this. -/
def conv (rate : Nat) (diff : Int) : Int := Int.tdiv (diff * 1000000000) rate

/-- `frame.Pts = rtp2ntp(ts) + ptsDelay`; `diff := int64(rtptime) - int64(sc.RTPTime)` (NOT modular) -/
def Frame.pts (cfg : Cfg) (rate : Nat) (f : Frame) : Int :=
  conv rate ((f.ts.toNat : Int) - (f.base.toNat : Int)) + cfg.ptsDelay

inductive Status where
  | ok      -- returned nil
  | err     -- returned an error (logged by the demuxer, the loop goes on)
  | panic   -- index / slice out of range: unwinds to the goroutine's deferred recover
  | fuel    -- model artefact: loop fuel exhausted (proved impossible, `stapLoop_fuel`)
deriving DecidableEq, Repr, Inhabited

structure Res (σ : Type) where
  st : σ
  out : List Frame
  status : Status

/-- the part of `codec.VideoMeta` read and written by the depacketizers -/
structure VMeta where
  vps : Bytes := []
  sps : Bytes := []
  pps : Bytes := []
  /-- `meta.Width != 0` (set by the SDP parser when sprop parameter sets decoded) -/
  widthKnown : Bool := false
deriving DecidableEq, Repr, Inhabited

/-- state of `h264Depacketizer` / `h265Depacketizer` -/
structure VSt where
  frags : List Pkt := []
  vmeta : VMeta := {}
  ready : Bool := false
  /-- `syncClock.RTPTime` -/
  base : UInt32 := 0
deriving DecidableEq, Repr, Inhabited

def be16 (hi lo : UInt8) : Nat := hi.toNat * 256 + lo.toNat

/-! ### H.264 -/

/-- `h264.MetadataIsReady`; `spsOk` abstracts `RawSPS.Decode(sps) == nil` -/
def h264MetaReady (spsOk : Bytes → Bool) (m : VMeta) : Bool :=
  if m.sps.isEmpty || m.pps.isEmpty then false
  else if m.widthKnown then true else spsOk m.sps

/-- `h264Depacketizer.writeFrame` (DTS not modelled) -/
def h264WriteFrame (cfg : Cfg) (spsOk : Bytes → Bool) (st : VSt) (ts : UInt32) (payload : Bytes) : Res VSt :=
  match payload with
  | [] => ⟨st, [], .panic⟩                       -- frame.Payload[0]
  | b0 :: _ =>
    let t := b0 &&& 0x1f
    if t = 12 then ⟨st, [], .ok⟩                 -- NalFillerData: ignored (after the switch cases 7/8 which do not match)
    else
      let m := st.vmeta
      let m :=
        if t = 7 then (if m.sps.isEmpty || (cfg.psUntilReady264 && !st.ready && !m.widthKnown) then { m with sps := payload } else m)
        else if t = 8 then (if m.pps.isEmpty || (cfg.psUntilReady264 && !st.ready && !m.widthKnown) then { m with pps := payload } else m)
        else m
      let st := { st with vmeta := m }
      if !st.ready && !h264MetaReady spsOk m then ⟨st, [], .ok⟩
      else
        let st := { st with ready := true }
        ⟨st, [⟨false, ts, st.base, payload⟩], .ok⟩

/-- `frame.Payload[0] = 0 | (header & 0x60) | (frame.Payload[0] & 0x1F)` -/
def rewriteNri (hdr : UInt8) : Bytes → Bytes
  | [] => []
  | b :: bs => ((hdr &&& 0x60) ||| (b &&& 0x1f)) :: bs

/-- the `for` loop of `depacketizeStapa`; `rest = payload[off:]` at the loop head.
    `fuel` bounds the iterations (each consumes ≥ 3 bytes; `rest.length` suffices). -/
def stapaLoop (cfg : Cfg) (spsOk : Bytes → Bool) (hdr : UInt8) (ts : UInt32) :
    Nat → VSt → Bytes → List Frame → Res VSt
  | 0, st, _, acc => ⟨st, acc, .fuel⟩
  | fuel + 1, st, rest, acc =>
    match rest with
    | hi :: lo :: tl =>
      let n := be16 hi lo
      if n < 1 then ⟨st, acc, .ok⟩
      else if cfg.stapaChecked && tl.length < n then ⟨st, acc, .err⟩
      else
        -- make([]byte, nalSize); copy(frame.Payload, payload[off:]) — short input leaves zeros
        let nal := tl.take n ++ List.replicate (n - tl.length) 0
        let nal := if cfg.stapaRewritesNri then rewriteNri hdr nal else nal
        let r := h264WriteFrame cfg spsOk st ts nal
        match r.status with
        | .ok =>
          -- off += nalSize; if off >= len(payload) { break }
          if tl.length ≤ n then ⟨r.st, acc ++ r.out, .ok⟩
          else stapaLoop cfg spsOk hdr ts fuel r.st (tl.drop n) (acc ++ r.out)
        | s => ⟨r.st, acc ++ r.out, s⟩
    | _ =>
      -- payload[off] / payload[off+1]
      if cfg.stapaChecked then ⟨st, acc, .err⟩ else ⟨st, acc, .panic⟩

def h264Stapa (cfg : Cfg) (spsOk : Bytes → Bool) (st : VSt) (p : Pkt) : Res VSt :=
  match p.payload with
  | [] => ⟨st, [], .panic⟩                        -- payload[0]
  | hdr :: rest => stapaLoop cfg spsOk hdr p.ts (rest.length + 1) st rest []

/-- reassembly at the end bit: header byte + the fragments' payloads without their 2-byte FU prefix.
    (`frameLen`/`copy` in the source compute exactly this concatenation: every fragment has ≥ 2 bytes.) -/
def fuaJoin (frags : List Pkt) : Bytes := frags.flatMap (fun f => f.payload.drop 2)

def h264FuA (cfg : Cfg) (spsOk : Bytes → Bool) (st : VSt) (p : Pkt) : Res VSt :=
  if p.payload.length < cfg.fuaMin then ⟨st, [], .ok⟩ else
  match p.payload with
  | ind :: fuh :: _ =>
    let start := (fuh >>> (7 : UInt8)) &&& 1 = 1
    let frags := if start then [] else st.frags
    if cfg.fuaNeedsStart && !start && frags.isEmpty then ⟨{ st with frags := [] }, [], .ok⟩
    else
      let lost := match frags.getLast? with
        | some l => l.seq != p.seq - 1
        | none => false
      if lost then ⟨{ st with frags := [] }, [], .ok⟩
      else
        let frags := frags ++ [p]
        if (fuh >>> (6 : UInt8)) &&& 1 = 1 then
          h264WriteFrame cfg spsOk { st with frags := [] } p.ts
            (((ind &&& (if cfg.fuaKeepsF then 0xe0 else 0x60)) ||| (fuh &&& 0x1f)) :: fuaJoin frags)
        else ⟨{ st with frags := frags }, [], .ok⟩
  | _ => ⟨st, [], .panic⟩                         -- payload[0] / payload[1]

/-- `h264Depacketizer.Depacketize` -/
def h264Step (cfg : Cfg) (spsOk : Bytes → Bool) (st : VSt) (p : Pkt) : Res VSt :=
  if p.payload.length < cfg.h264Min then ⟨st, [], .ok⟩ else
  match p.payload with
  | [] => ⟨st, [], .panic⟩                        -- payload[0]
  | b0 :: _ =>
    let t := b0 &&& 0x1f
    if t < 24 then h264WriteFrame cfg spsOk st p.ts p.payload
    else if t = 24 then h264Stapa cfg spsOk st p
    else if t = 28 then h264FuA cfg spsOk st p
    else ⟨st, [], .err⟩

/-! ### H.265 -/

def nalType265 (b0 : UInt8) : UInt8 := (b0 >>> (1 : UInt8)) &&& 0x3f

def h265MetaReady (spsOk : Bytes → Bool) (m : VMeta) : Bool :=
  if m.vps.isEmpty || m.sps.isEmpty || m.pps.isEmpty then false
  else if m.widthKnown then true else spsOk m.sps

def h265WriteFrame (cfg : Cfg) (spsOk : Bytes → Bool) (st : VSt) (ts : UInt32) (payload : Bytes) : Res VSt :=
  match payload with
  | [] => ⟨st, [], .panic⟩
  | b0 :: _ =>
    let t := nalType265 b0
    let m := st.vmeta
    let upd := cfg.psUntilReady265 && !st.ready && !m.widthKnown
    let m :=
      if t = 32 then (if m.vps.isEmpty || upd then { m with vps := payload } else m)
      else if t = 33 then (if m.sps.isEmpty || upd then { m with sps := payload } else m)
      else if t = 34 then (if m.pps.isEmpty || upd then { m with pps := payload } else m)
      else m
    let st := { st with vmeta := m }
    if !st.ready && !h265MetaReady spsOk m then ⟨st, [], .ok⟩
    else
      let st := { st with ready := true }
      ⟨st, [⟨false, ts, st.base, payload⟩], .ok⟩

def apLoop (cfg : Cfg) (spsOk : Bytes → Bool) (ts : UInt32) :
    Nat → VSt → Bytes → List Frame → Res VSt
  | 0, st, _, acc => ⟨st, acc, .fuel⟩
  | fuel + 1, st, rest, acc =>
    match rest with
    | hi :: lo :: tl =>
      let n := be16 hi lo
      if n < 1 then ⟨st, acc, .ok⟩
      else if cfg.apChecked && tl.length < n then ⟨st, acc, .err⟩
      else
        let nal := tl.take n ++ List.replicate (n - tl.length) 0
        let r := h265WriteFrame cfg spsOk st ts nal
        match r.status with
        | .ok =>
          if tl.length ≤ n then ⟨r.st, acc ++ r.out, .ok⟩
          else apLoop cfg spsOk ts fuel r.st (tl.drop n) (acc ++ r.out)
        | s => ⟨r.st, acc ++ r.out, s⟩
    | _ => if cfg.apChecked then ⟨st, acc, .err⟩ else ⟨st, acc, .panic⟩

def h265Ap (cfg : Cfg) (spsOk : Bytes → Bool) (st : VSt) (p : Pkt) : Res VSt :=
  match p.payload with
  | _ :: _ :: rest => apLoop cfg spsOk p.ts (rest.length + 1) st rest []
  | _ =>
    -- payload[2] with off = 2 (unreachable while h265Min ≥ 2 … 3)
    if cfg.apChecked then ⟨st, [], .err⟩ else ⟨st, [], .panic⟩

def fuJoin (frags : List Pkt) : Bytes := frags.flatMap (fun f => f.payload.drop 3)

def h265Fu (cfg : Cfg) (spsOk : Bytes → Bool) (st : VSt) (p : Pkt) : Res VSt :=
  if p.payload.length < cfg.fuMin then ⟨st, [], .ok⟩ else
  match p.payload with
  | b0 :: b1 :: fuh :: _ =>
    if (fuh >>> (7 : UInt8)) &&& 1 = 1 then ⟨{ st with frags := [p] }, [], .ok⟩
    else
      let lost := match st.frags.getLast? with
        | some l => l.seq != p.seq - 1
        | none => true
      if lost then ⟨{ st with frags := [] }, [], .ok⟩
      else
        let frags := st.frags ++ [p]
        if (fuh >>> (6 : UInt8)) &&& 1 = 1 then
          h265WriteFrame cfg spsOk { st with frags := [] } p.ts
            (((b0 &&& 0x81) ||| ((fuh &&& 0x3f) <<< (1 : UInt8))) :: b1 :: fuJoin frags)
        else ⟨{ st with frags := frags }, [], .ok⟩
  | _ => ⟨st, [], .panic⟩                         -- payload[2]

/-- `h265Depacketizer.Depacketize` -/
def h265Step (cfg : Cfg) (spsOk : Bytes → Bool) (st : VSt) (p : Pkt) : Res VSt :=
  if p.payload.length < cfg.h265Min then ⟨st, [], .ok⟩ else
  match p.payload with
  | [] => ⟨st, [], .panic⟩
  | b0 :: _ =>
    let t := nalType265 b0
    if t = 48 then h265Ap cfg spsOk st p
    else if t = 49 then h265Fu cfg spsOk st p
    else h265WriteFrame cfg spsOk st p.ts p.payload

/-! ### AAC (RFC 3640, 2-byte AU headers) -/

/-- the `for` loop of `depacketizeFor2ByteAUHeader`: `k` AU headers left in `hs`, frame data `fp` -/
def aacLoop (cfg : Cfg) (base : UInt32) : Nat → Bytes → Bytes → UInt32 → List Frame → List Frame × Status
  | 0, _, _, _, acc => (acc, .ok)
  | k + 1, hi :: lo :: hs, fp, ts, acc =>
    let size := be16 hi lo >>> cfg.aacIndexLength
    if fp.length < size then (acc, if cfg.aacChecked then .err else .panic)   -- framesPayload[:frameSize]
    else aacLoop cfg base k hs (fp.drop size) (ts + UInt32.ofNat cfg.samplesPerFrame)
           (acc ++ [⟨true, ts, base, fp.take size⟩])
  | _ + 1, _, _, _, acc => (acc, .panic)           -- auHeaders[0]/[1] (unreachable: |auHeaders| = 2·count)

/-- `aacDepacketizer.Depacketize`; the state is only the clock base -/
def aacStep (cfg : Cfg) (base : UInt32) (p : Pkt) : List Frame × Status :=
  match p.payload with
  | hi :: lo :: rest =>
    let count := be16 hi lo >>> 4
    -- auHeaders := payload[2:2+2*count]; framesPayload := payload[2+2*count:]
    if rest.length < 2 * count then ([], if cfg.aacChecked then .err else .panic)
    else aacLoop cfg base count (rest.take (2 * count)) (rest.drop (2 * count)) p.ts []
  | _ => ([], if cfg.aacChecked then .err else .panic)   -- payload[0] / payload[1]

/-! ### RTCP: depacketizer.Control / SyncClock.Decode -/

def be32 (a b c d : UInt8) : UInt32 :=
  (a.toUInt32 <<< 24) ||| (b.toUInt32 <<< 16) ||| (c.toUInt32 <<< 8) ||| d.toUInt32

/-- `Control`: only while `RTPTime == 0`; `Decode` reads data[1] and, for a sender report
    (PT 200), data[8:12], data[12:16], data[16:20].  Returns the new base. -/
def control (cfg : Cfg) (base : UInt32) (data : Bytes) : UInt32 × Status :=
  if base != 0 then (base, .ok)
  else if cfg.srChecked && data.length < 20 then (base, .ok)
  else
    match data with
    | _ :: pt :: _ =>
      if pt = 200 then
        match data.drop 16 with
        | a :: b :: c :: d :: _ => (be32 a b c d, .ok)
        | _ => (base, .panic)                      -- data[8:], data[12:], data[16:] / Uint32
      else (base, .ok)
    | _ => (base, .panic)                          -- data[1]

/-! ### Demuxer.process: dispatch on the channel, death of the goroutine on the first panic -/

inductive VCodec where | h264 | h265
deriving DecidableEq, Repr, Inhabited

/-- an element of the demuxer's queue: channel (0 video, 1 video control, 2 audio, 3 audio control) -/
inductive In where
  | video (p : Pkt)
  | vctl (data : Bytes)
  | audio (p : Pkt)
  | actl (data : Bytes)
deriving Repr, Inhabited

structure DemuxSt where
  codec : VCodec
  /-- `audio.Codec == "AAC"`: otherwise the audio depacketizer is `emptyDepacketizer` -/
  hasAac : Bool
  v : VSt := {}
  abase : UInt32 := 0
  /-- the `process` goroutine is still in its loop -/
  alive : Bool := true
deriving Repr, Inhabited

def vStep (cfg : Cfg) (spsOk : Bytes → Bool) (c : VCodec) (st : VSt) (p : Pkt) : Res VSt :=
  match c with
  | .h264 => h264Step cfg spsOk st p
  | .h265 => h265Step cfg spsOk st p

/-- one iteration of the loop of `Demuxer.process` on a popped packet -/
def demuxStep (cfg : Cfg) (spsOk : Bytes → Bool) (d : DemuxSt) (i : In) : DemuxSt × List Frame × Status :=
  if !d.alive then (d, [], .ok)                    -- the packet stays in the queue for ever
  else
    match i with
    | .video p =>
      let r := vStep cfg spsOk d.codec d.v p
      ({ d with v := r.st, alive := r.status != .panic }, r.out, r.status)
    | .vctl data =>
      let (b, s) := control cfg d.v.base data
      ({ d with v := { d.v with base := b }, alive := s != .panic }, [], s)
    | .audio p =>
      if d.hasAac then
        let (fs, s) := aacStep cfg d.abase p
        ({ d with alive := s != .panic }, fs, s)
      else (d, [], .ok)
    | .actl data =>
      if d.hasAac then
        let (b, s) := control cfg d.abase data
        ({ d with abase := b, alive := s != .panic }, [], s)
      else (d, [], .ok)

def demuxRun (cfg : Cfg) (spsOk : Bytes → Bool) : DemuxSt → List In → DemuxSt × List Frame
  | d, [] => (d, [])
  | d, i :: is =>
    let (d1, fs, _) := demuxStep cfg spsOk d i
    let (d2, gs) := demuxRun cfg spsOk d1 is
    (d2, fs ++ gs)

/-- run of one video depacketizer over a packet list (synchronous `Depacketize` calls; stops at a panic) -/
def vRun (cfg : Cfg) (spsOk : Bytes → Bool) (c : VCodec) : VSt → List Pkt → VSt × List Frame × Status
  | st, [] => (st, [], .ok)
  | st, p :: ps =>
    let r := vStep cfg spsOk c st p
    if r.status = .panic then (r.st, r.out, .panic)
    else
      let (st2, gs, s) := vRun cfg spsOk c r.st ps
      (st2, r.out ++ gs, s)

end IpcHub.Depack
