/-
Model of av/codec/hevc/vps.go (H265RawNALUnitHeader.decode, H265RawProfileTierLevel.decode,
H265RawSubLayerHRDParameters.decode, H265RawHRDParameters.decode, H265RawVPS.Decode),
av/codec/hevc/sps.go (H265RawScalingList.decode, H265RawVUI.decode / setDefault,
H265RawSTRefPicSet.decode, H265RawSPS.Decode, Width, Height, FrameRate, IsFixedFrameRate) and
av/codec/hevc/shortcut.go (MetadataIsReady) — C15.

Field by field, branch by branch; array index checks of the fixed-size Go arrays are explicit
(`Fault.panic`).  Core Lean only.
-/
import IpcHub.Model.Bits
import IpcHub.Model.Epb
namespace IpcHub.Hevc
open IpcHub.Bits

/-- source facts (regenerated: Gen/CodecFacts.lean) -/
structure Cfg where
  seFromUe : Bool
  nalVps : Nat
  nalSps : Nat
  /-- HEVC_MAX_SUB_LAYERS: length of the per-sub-layer arrays -/
  maxSubLayers : Nat
  /-- HEVC_MAX_REFS: length of the arrays of H265RawSTRefPicSet -/
  maxRefs : Nat
  /-- HEVC_MAX_DPB_SIZE -/
  maxDpbSize : Nat
  /-- HEVC_MAX_LONG_TERM_REF_PICS -/
  maxLongTermRefPics : Nat
  /-- HEVC_MAX_CPB_CNT -/
  maxCpbCnt : Nat
  /-- HEVC_MAX_LAYERS: inner length of Layer_id_included_flag -/
  maxLayers : Nat
  /-- H265RawSPS.Decode starts the sub-layer ordering loop at 0 when the flag is 1 and at max otherwise
      (7.3.2.2.1; false: the pinned tree had the two cases swapped) -/
  spsOrderingStd : Bool
  /-- H265RawSTRefPicSet.decode derives the predicted set with terminating `int` loops, store-then-increment
      and Num_positive_pics = i (7.4.8; false: the pinned tree, whose `uint8` down-counting loops always
      ended in an index panic) -/
  rpsInterStd : Bool
deriving Repr

/-! ### NAL unit header -/

structure NalHeader where
  nalUnitType : Nat := 0
  nuhLayerId : Nat := 0
  nuhTemporalIdPlus1 : Nat := 0
deriving DecidableEq, Repr

/-- H265RawNALUnitHeader.decode -/
def nalHeader : P NalHeader := do
  skip 1
  let t ← readU 6 8
  let l ← readU 6 8
  let tid ← readU 3 8
  pure { nalUnitType := t, nuhLayerId := l, nuhTemporalIdPlus1 := tid }

/-! ### profile_tier_level -/

/-- the profile part of profile_tier_level (general, or one sub-layer) as the Go fields hold it -/
structure Profile where
  profileSpace : Nat := 0
  tierFlag : Nat := 0
  profileIdc : Nat := 0
  /-- the 32 profile_compatibility_flag[j], j = 0 first (for the general part also GeneralProfileCompatibilityFlags) -/
  compat : Nat := 0
  progressive : Nat := 0
  interlaced : Nat := 0
  nonPacked : Nat := 0
  frameOnly : Nat := 0
  max12 : Nat := 0
  max10 : Nat := 0
  max8 : Nat := 0
  max422 : Nat := 0
  max420 : Nat := 0
  maxMono : Nat := 0
  intra : Nat := 0
  onePic : Nat := 0
  lowerBitRate : Nat := 0
  max14 : Nat := 0
  inbld : Nat := 0
deriving DecidableEq, Repr

structure SubLayer where
  profilePresent : Nat := 0
  levelPresent : Nat := 0
  profile : Profile := {}
  levelIdc : Nat := 0
deriving DecidableEq, Repr

structure Ptl where
  general : Profile := {}
  /-- GeneralConstraintIndicatorFlags: the 48 bits peeked after the compatibility flags -/
  constraintFlags : Nat := 0
  levelIdc : Nat := 0
  subLayers : List SubLayer := []
deriving DecidableEq, Repr

/-- `profile_compatible.compatible(idc)`: profile_idc == idc || profile_compatibility_flag[idc] == 1 -/
def compatible (profileIdc compat idc : Nat) : Bool :=
  profileIdc = idc || (compat / 2 ^ (31 - idc)) % 2 = 1

/-- the 43 + 1 bits after the four source flags; `max14For` lists the idcs that select the 14-bit flag
    (5, 9, 10 for the general part; 5 for a sub-layer) -/
def profileTail (p : Profile) (max14For : List Nat) : P Profile := do
  let c := compatible p.profileIdc p.compat
  let p1 ← (if c 4 || c 5 || c 6 || c 7 || c 8 || c 9 || c 10 then do
      let a ← readBit
      let b ← readBit
      let c8 ← readBit
      let d ← readBit
      let e ← readBit
      let f ← readBit
      let g ← readBit
      let h ← readBit
      let i ← readBit
      let q := { p with max12 := a, max10 := b, max8 := c8, max422 := d, max420 := e, maxMono := f, intra := g,
                        onePic := h, lowerBitRate := i }
      if max14For.any c then do
        let m ← readBit
        skip 33
        pure { q with max14 := m }
      else do
        skip 34
        pure q
    else if c 2 then do
      skip 7
      let h ← readBit
      skip 35
      pure { p with onePic := h }
    else do
      skip 43
      pure p)
  if c 1 || c 2 || c 3 || c 4 || c 5 || c 9 then do
    let b ← readBit
    pure { p1 with inbld := b }
  else do
    skip 1
    pure p1

/-- profile_space … frame_only_constraint_flag (the 32 flags are read bit by bit: the same 32 bits as a number) -/
def profileHead : P Profile := do
  let ps ← readU 2 8
  let tier ← readBit
  let idc ← readU 5 8
  let compat ← readU 32 64
  pure { profileSpace := ps, tierFlag := tier, profileIdc := idc, compat := compat }

def sourceFlags (p : Profile) : P Profile := do
  let a ← readBit
  let b ← readBit
  let c ← readBit
  let d ← readBit
  pure { p with progressive := a, interlaced := b, nonPacked := c, frameOnly := d }

/-- `for i := 0; i < max; i++ { profile_present[i] = ReadBit(); level_present[i] = ReadBit() }` -/
def subLayerFlags : Nat → P (List (Nat × Nat))
  | 0 => pure []
  | n + 1 => do
    let a ← readBit
    let b ← readBit
    let rest ← subLayerFlags n
    pure ((a, b) :: rest)

/-- `for i := max; i < 8; i++ { r.Skip(2) }` -/
def skipPairs : Nat → P Unit
  | 0 => pure ()
  | n + 1 => do
    skip 2
    skipPairs n

def subLayerBodies : List (Nat × Nat) → P (List SubLayer)
  | [] => pure []
  | (pp, lp) :: rest => do
    let prof ← (if pp = 1 then do
        let h ← profileHead
        let h ← sourceFlags h
        profileTail h [5]
      else pure {})
    let lvl ← (if lp = 1 then readU 8 8 else pure 0)
    let others ← subLayerBodies rest
    pure ({ profilePresent := pp, levelPresent := lp, profile := prof, levelIdc := lvl } :: others)

/-- the `if profile_present_flag { … }` block and general_level_idc: (general profile, GeneralConstraintIndicatorFlags, level) -/
def ptlGeneral : P (Profile × Nat × Nat) := do
  let h ← profileHead
  let cons ← peek 48
  let h ← sourceFlags h
  let g ← profileTail h [5, 9, 10]
  let lvl ← readU 8 8
  pure (g, cons, lvl)

/-- H265RawProfileTierLevel.decode(r, true, maxNumSubLayersMinus1) -/
def ptl (maxSub : Nat) : P Ptl := do
  let (g, cons, lvl) ← ptlGeneral
  let flags ← subLayerFlags maxSub
  (if maxSub > 0 then skipPairs (8 - maxSub) else pure ())
  let subs ← subLayerBodies flags
  pure { general := g, constraintFlags := cons, levelIdc := lvl, subLayers := subs }

/-! ### HRD -/

/-- one entry of H265RawSubLayerHRDParameters: bit_rate_value_minus1, cpb_size_value_minus1,
    cpb_size_du_value_minus1, bit_rate_du_value_minus1, cbr_flag -/
abbrev CpbEntry := Nat × Nat × Nat × Nat × Nat

/-- H265RawSubLayerHRDParameters.decode: `for i := 0; i <= cpb_cnt_minus1; i++` over arrays of HEVC_MAX_CPB_CNT -/
def subLayerHrd (maxCpb : Nat) (subPic : Bool) : Nat → Nat → P (List CpbEntry)
  | 0, _ => pure []
  | n + 1, i => do
    let br ← readUe
    if i ≥ maxCpb then fail .panic else
    let cs ← readUe
    let (du1, du2) ← (if subPic then do
        let a ← readUe
        let b ← readUe
        pure (a, b)
      else pure (0, 0))
    let cbr ← readBit
    let rest ← subLayerHrd maxCpb subPic n (i + 1)
    pure ((br, cs, du1, du2, cbr) :: rest)

structure HrdSubLayer where
  fixedPicRateGeneralFlag : Nat := 0
  fixedPicRateWithinCvsFlag : Nat := 0
  elementalDurationInTcMinus1 : Nat := 0
  lowDelayHrdFlag : Nat := 0
  cpbCntMinus1 : Nat := 0
  nal : List CpbEntry := []
  vcl : List CpbEntry := []
deriving DecidableEq, Repr

structure Hrd where
  nalHrdParametersPresentFlag : Nat := 0
  vclHrdParametersPresentFlag : Nat := 0
  subPicHrdParamsPresentFlag : Nat := 0
  tickDivisorMinus2 : Nat := 0
  duCpbRemovalDelayIncrementLengthMinus1 : Nat := 0
  subPicCpbParamsInPicTimingSeiFlag : Nat := 0
  dpbOutputDelayDuLengthMinus1 : Nat := 0
  bitRateScale : Nat := 0
  cpbSizeScale : Nat := 0
  cpbSizeDuScale : Nat := 0
  initialCpbRemovalDelayLengthMinus1 : Nat := 0
  auCpbRemovalDelayLengthMinus1 : Nat := 0
  dpbOutputDelayLengthMinus1 : Nat := 0
  subLayers : List HrdSubLayer := []
deriving DecidableEq, Repr

/-- the per-sub-layer loop of H265RawHRDParameters.decode: `for i := 0; i <= max; i++` over arrays of HEVC_MAX_SUB_LAYERS -/
def hrdSubLayers (cfg : Cfg) (nalP vclP subPic : Bool) : Nat → Nat → P (List HrdSubLayer)
  | 0, _ => pure []
  | n + 1, i => do
    let g ← readBit
    if i ≥ cfg.maxSubLayers then fail .panic else
    let w ← (if g = 0 then readBit else pure 1)
    let (el, low) ← (if w = 1 then do
        let e ← readUe16
        pure (e, 0)
      else do
        let l ← readBit
        pure (0, l))
    let cnt ← (if low = 0 then readUe8 else pure 0)
    let nal ← (if nalP then subLayerHrd cfg.maxCpbCnt subPic (cnt + 1) 0 else pure [])
    let vcl ← (if vclP then subLayerHrd cfg.maxCpbCnt subPic (cnt + 1) 0 else pure [])
    let rest ← hrdSubLayers cfg nalP vclP subPic n (i + 1)
    pure ({ fixedPicRateGeneralFlag := g, fixedPicRateWithinCvsFlag := w, elementalDurationInTcMinus1 := el,
            lowDelayHrdFlag := low, cpbCntMinus1 := cnt, nal := nal, vcl := vcl } :: rest)

/-- H265RawHRDParameters.decode(r, commonInfPresent, maxNumSubLayersMinus1) on a fresh struct -/
def hrd (cfg : Cfg) (common : Bool) (maxSub : Nat) : P Hrd := do
  let h ← (if common then do
      let nal ← readBit
      let vcl ← readBit
      if nal = 1 ∨ vcl = 1 then do
        let sp ← readBit
        let (td, du, sei, dpbDu) ← (if sp = 1 then do
            let a ← readU 8 8
            let b ← readU 5 8
            let c ← readBit
            let d ← readU 5 8
            pure (a, b, c, d)
          else pure (0, 0, 0, 0))
        let brs ← readU 4 8
        let css ← readU 4 8
        let cds ← (if sp = 1 then readU 4 8 else pure 0)
        let i1 ← readU 5 8
        let i2 ← readU 5 8
        let i3 ← readU 5 8
        pure ({ nalHrdParametersPresentFlag := nal, vclHrdParametersPresentFlag := vcl, subPicHrdParamsPresentFlag := sp,
                tickDivisorMinus2 := td, duCpbRemovalDelayIncrementLengthMinus1 := du,
                subPicCpbParamsInPicTimingSeiFlag := sei, dpbOutputDelayDuLengthMinus1 := dpbDu,
                bitRateScale := brs, cpbSizeScale := css, cpbSizeDuScale := cds,
                initialCpbRemovalDelayLengthMinus1 := i1, auCpbRemovalDelayLengthMinus1 := i2,
                dpbOutputDelayLengthMinus1 := i3 } : Hrd)
      else
        pure ({ nalHrdParametersPresentFlag := nal, vclHrdParametersPresentFlag := vcl,
                initialCpbRemovalDelayLengthMinus1 := 23, auCpbRemovalDelayLengthMinus1 := 23,
                dpbOutputDelayLengthMinus1 := 23 } : Hrd)
    else pure ({} : Hrd))
  let subs ← hrdSubLayers cfg (h.nalHrdParametersPresentFlag = 1) (h.vclHrdParametersPresentFlag = 1)
    (h.subPicHrdParamsPresentFlag = 1) (maxSub + 1) 0
  pure { h with subLayers := subs }

/-! ### sub-layer ordering info (shared shape of SPS and VPS) -/

/-- (max_dec_pic_buffering_minus1, max_num_reorder_pics, max_latency_increase_plus1) -/
abbrev Ordering := Nat × Nat × Nat

/-- `for i := start; i <= max; i++ { [i] = ReadUe8(); [i] = ReadUe8(); [i] = ReadUe() }` over arrays of HEVC_MAX_SUB_LAYERS;
    `n` iterations starting at index `i` -/
def orderingLoop (cfg : Cfg) : Nat → Nat → P (List Ordering)
  | 0, _ => pure []
  | n + 1, i => do
    let a ← readUe8
    if i ≥ cfg.maxSubLayers then fail .panic else
    let b ← readUe8
    let c ← readUe
    let rest ← orderingLoop cfg n (i + 1)
    pure ((a, b, c) :: rest)

/-- the arrays after the read loop (from `start`) and the copy-down `if flag == 0 { for i < max { [i] = [max] } }`:
    entries 0 … max (entries below an un-copied start stay zero) -/
def orderingArrays (flag maxSub start : Nat) (read : List Ordering) : List Ordering :=
  let arr := List.replicate start (0, 0, 0) ++ read
  if flag = 0 then
    match arr.getLast? with
    | some last => List.replicate maxSub last ++ [last]
    | none => arr
  else arr

/-! ### scaling list -/

structure ScalingEntry where
  predModeFlag : Nat := 0
  predMatrixIdDelta : Nat := 0
  dcCoefMinus8 : Int := 0
  deltaCoeff : List Int := []
deriving DecidableEq, Repr

/-- `for i := 0; i < n; i++ { [i] = r.ReadSe8() }` -/
def readSe8s (se : Bool) : Nat → P (List Int)
  | 0 => pure []
  | n + 1 => do
    let d ← readSe8C se
    let rest ← readSe8s se n
    pure (d :: rest)

def scalingEntry (se : Bool) (sizeId : Nat) : P ScalingEntry := do
  let f ← readBit
  if f = 0 then do
    let d ← readUe8
    pure { predModeFlag := f, predMatrixIdDelta := d }
  else do
    let n := min 64 (2 ^ (4 + 2 * sizeId))
    let dc ← (if sizeId > 1 then readSe16C se else pure 0)
    let cs ← readSe8s se n
    pure { predModeFlag := f, dcCoefMinus8 := dc, deltaCoeff := cs }

/-- the matrixId loop of one sizeId: `for matrixId := 0; matrixId < 6; matrixId += step` -/
def scalingMatrices (se : Bool) (sizeId : Nat) : Nat → P (List ScalingEntry)
  | 0 => pure []
  | n + 1 => do
    let e ← scalingEntry se sizeId
    let rest ← scalingMatrices se sizeId n
    pure (e :: rest)

/-- H265RawScalingList.decode: sizeId 0,1,2 with six matrices, sizeId 3 with two (matrixId 0 and 3) -/
def scalingList (se : Bool) : P (List (List ScalingEntry)) := do
  let a ← scalingMatrices se 0 6
  let b ← scalingMatrices se 1 6
  let c ← scalingMatrices se 2 6
  let d ← scalingMatrices se 3 2
  pure [a, b, c, d]

/-! ### short-term reference picture sets -/

structure StRps where
  interRefPicSetPredictionFlag : Nat := 0
  deltaIdxMinus1 : Nat := 0
  deltaRpsSign : Nat := 0
  absDeltaRpsMinus1 : Nat := 0
  /-- Used_by_curr_pic_flag[j], Use_delta_flag[j] for j = 0 … NumDeltaPocs[RefRpsIdx] (inter prediction only) -/
  usedByCurrPicFlag : List Nat := []
  useDeltaFlag : List Nat := []
  numNegativePics : Nat := 0
  numPositivePics : Nat := 0
  /-- (Delta_poc_s0_minus1[i], Used_by_curr_pic_s0_flag[i]) for i < num_negative_pics -/
  s0 : List (Nat × Nat) := []
  /-- (Delta_poc_s1_minus1[i], Used_by_curr_pic_s1_flag[i]) for i < num_positive_pics -/
  s1 : List (Nat × Nat) := []
deriving DecidableEq, Repr

/-- `for i := 0; i < n; i++ { Delta_poc_sX_minus1[i] = ReadUe16(); Used_by_curr_pic_sX_flag[i] = ReadBit() }` -/
def rpsEntries (cfg : Cfg) : Nat → Nat → P (List (Nat × Nat))
  | 0, _ => pure []
  | n + 1, i => do
    let d ← readUe16
    if i ≥ cfg.maxRefs then fail .panic else
    let u ← readBit
    let rest ← rpsEntries cfg n (i + 1)
    pure ((d, u) :: rest)

/-- `for j := 0; j <= num_delta_pocs; j++ { used_by_curr_pic_flag[j]; use_delta_flag[j] }` -/
def rpsFlags (cfg : Cfg) : Nat → Nat → P (List (Nat × Nat))
  | 0, _ => pure []
  | n + 1, j => do
    let u ← readBit
    if j ≥ cfg.maxRefs then fail .panic else
    let d ← (if u = 0 then readBit else pure 1)
    let rest ← rpsFlags cfg n (j + 1)
    pure ((u, d) :: rest)

/-- running sums: ref_delta_poc_s0[i] = −Σ_{k ≤ i} (Delta_poc_s0_minus1[k] + 1) in uint16 (sign = −1), likewise s1 (sign = +1) -/
def deltaArray (sign : Int) : Int → List (Nat × Nat) → List Int
  | _, [] => []
  | acc, (m, _) :: rest =>
    let v := acc + sign * Int.ofNat ((m + 1) % 65536)
    v :: deltaArray sign v rest

/-- keep the entries of a (dPoc, flagIndex) list that pass `cond` and have use_delta_flag = 1: (dPoc, used_by_curr_pic_flag) -/
def selectPocs (cond : Int → Bool) (flags : List (Nat × Nat)) : List (Int × Nat) → List (Int × Nat)
  | [] => []
  | (d, idx) :: rest =>
    match flags[idx]? with
    | some (used, useDelta) =>
      if cond d ∧ useDelta = 1 then (d, used) :: selectPocs cond flags rest else selectPocs cond flags rest
    | none => selectPocs cond flags rest

/-- delta-array form back to the stored delta-step form: `uint16(|d[i] − d[i−1]| − 1)` -/
def toSteps (sign : Int) : Int → List (Int × Nat) → List (Nat × Nat)
  | _, [] => []
  | prev, (d, used) :: rest => (((sign * (d - prev) - 1) % 65536).toNat, used) :: toSteps sign d rest

/-- indexes paired with values: [(v0, base), (v1, base+1), …] -/
def withIdx (base : Nat) : List Int → List (Int × Nat)
  | [] => []
  | v :: rest => (v, base) :: withIdx (base + 1) rest

/-- the reconstruction of 7.4.8 as the current source performs it on the stored delta-step form of the reference set -/
def predictRps (ref : StRps) (deltaRps : Int) (flags : List (Nat × Nat)) : List (Nat × Nat) × List (Nat × Nat) :=
  let refS0 := deltaArray (-1) 0 ref.s0
  let refS1 := deltaArray 1 0 ref.s1
  let nNeg := ref.numNegativePics
  let nDelta := (ref.numNegativePics + ref.numPositivePics) % 256
  let add := fun (l : List (Int × Nat)) => l.map (fun (d, i) => (d + deltaRps, i))
  let neg := selectPocs (fun d => d < 0) flags
    ((add (withIdx nNeg refS1)).reverse ++ [(deltaRps, nDelta)] ++ add (withIdx 0 refS0))
  let pos := selectPocs (fun d => d > 0) flags
    ((add (withIdx 0 refS0)).reverse ++ [(deltaRps, nDelta)] ++ add (withIdx nNeg refS1))
  (toSteps (-1) 0 neg, toSteps 1 0 pos)

/-- H265RawSTRefPicSet.decode(r, st_rps_idx, sps) inside H265RawSPS.Decode (st_rps_idx < num_short_term_ref_pic_sets,
    so delta_idx_minus1 is never read); `prev` are the sets decoded so far, most recent first.  The error of the
    "too many pictures" branch is ignored by the caller: the set stays as far as it was filled. -/
def stRps (cfg : Cfg) (idx : Nat) (prev : List StRps) : P StRps := do
  let inter ← (if idx ≠ 0 then readBit else pure 0)
  if inter = 1 then do
    match prev with
    | [] => fail .panic                       -- sps.St_ref_pic_set[idx-1] with idx = 0: unreachable (idx ≠ 0 here)
    | ref :: _ => do
      let nDelta := (ref.numNegativePics + ref.numPositivePics) % 256
      let sign ← readBit
      let abs ← readUe16
      let flags ← rpsFlags cfg (nDelta + 1) 0
      let numRefPics := (flags.filter (fun (_, d) => d = 1)).length
      let base : StRps := { interRefPicSetPredictionFlag := 1, deltaRpsSign := sign, absDeltaRpsMinus1 := abs,
                            usedByCurrPicFlag := flags.map (·.1), useDeltaFlag := flags.map (·.2) }
      if numRefPics ≥ cfg.maxDpbSize then pure base
      else if cfg.rpsInterStd then do
        let deltaRps : Int := (1 - 2 * Int.ofNat sign) * (Int.ofNat abs + 1)
        let (s0, s1) := predictRps ref deltaRps flags
        pure { base with numNegativePics := s0.length, numPositivePics := s1.length, s0 := s0, s1 := s1 }
      else fail .panic
  else do
    let neg ← readUe8
    let pos ← readUe8
    let s0 ← rpsEntries cfg neg 0
    let s1 ← rpsEntries cfg pos 0
    pure { interRefPicSetPredictionFlag := 0, numNegativePics := neg, numPositivePics := pos, s0 := s0, s1 := s1 }

/-- `for i := uint8(0); i < num; i++ { sps.St_ref_pic_set[i].decode(r, i, sps) }`; result most recent first -/
def stRpsLoop (cfg : Cfg) : Nat → Nat → List StRps → P (List StRps)
  | 0, _, prev => pure prev
  | n + 1, idx, prev => do
    let s ← stRps cfg idx prev
    stRpsLoop cfg n (idx + 1) (s :: prev)

/-! ### VUI -/

structure Vui where
  aspectRatioInfoPresentFlag : Nat := 0
  aspectRatioIdc : Nat := 0
  sarWidth : Nat := 0
  sarHeight : Nat := 0
  overscanInfoPresentFlag : Nat := 0
  overscanAppropriateFlag : Nat := 0
  videoSignalTypePresentFlag : Nat := 0
  videoFormat : Nat := 0
  videoFullRangeFlag : Nat := 0
  colourDescriptionPresentFlag : Nat := 0
  colourPrimaries : Nat := 0
  transferCharacteristics : Nat := 0
  matrixCoefficients : Nat := 0
  chromaLocInfoPresentFlag : Nat := 0
  chromaSampleLocTypeTopField : Nat := 0
  chromaSampleLocTypeBottomField : Nat := 0
  neutralChromaIndicationFlag : Nat := 0
  fieldSeqFlag : Nat := 0
  frameFieldInfoPresentFlag : Nat := 0
  defaultDisplayWindowFlag : Nat := 0
  defDispWinLeftOffset : Nat := 0
  defDispWinRightOffset : Nat := 0
  defDispWinTopOffset : Nat := 0
  defDispWinBottomOffset : Nat := 0
  vuiTimingInfoPresentFlag : Nat := 0
  vuiNumUnitsInTick : Nat := 0
  vuiTimeScale : Nat := 0
  vuiPocProportionalToTimingFlag : Nat := 0
  vuiNumTicksPocDiffOneMinus1 : Nat := 0
  vuiHrdParametersPresentFlag : Nat := 0
  hrd : Hrd := {}
  bitstreamRestrictionFlag : Nat := 0
  tilesFixedStructureFlag : Nat := 0
  motionVectorsOverPicBoundariesFlag : Nat := 0
  restrictedRefPicListsFlag : Nat := 0
  minSpatialSegmentationIdc : Nat := 0
  maxBytesPerPicDenom : Nat := 0
  maxBitsPerMinCuDenom : Nat := 0
  log2MaxMvLengthHorizontal : Nat := 0
  log2MaxMvLengthVertical : Nat := 0
deriving DecidableEq, Repr

/-- (aspect_ratio_info_present_flag, aspect_ratio_idc, sar_width, sar_height) -/
def vuiAspect : P (Nat × Nat × Nat × Nat) := do
  let ar ← readBit
  if ar = 1 then do
    let idc ← readU 8 8
    if idc = 255 then do
      let w ← readU 16 16
      let h ← readU 16 16
      pure (ar, idc, w, h)
    else pure (ar, idc, 0, 0)
  else pure (ar, 0, 0, 0)

/-- (overscan_info_present_flag, overscan_appropriate_flag) -/
def vuiOverscan : P (Nat × Nat) := do
  let os ← readBit
  if os = 1 then do
    let a ← readBit
    pure (os, a)
  else pure (os, 0)

/-- (video_signal_type_present_flag, video_format, video_full_range_flag, colour_description_present_flag,
    colour_primaries, transfer_characteristics, matrix_coeffs); unlike H.264 the colour description has an explicit
    `else` (2, 2, 2) -/
def vuiSignal : P (Nat × Nat × Nat × Nat × Nat × Nat × Nat) := do
  let vs ← readBit
  if vs = 1 then do
    let fmt ← readU 3 8
    let fr ← readBit
    let cd ← readBit
    if cd = 1 then do
      let a ← readU 8 8
      let b ← readU 8 8
      let c ← readU 8 8
      pure (vs, fmt, fr, cd, a, b, c)
    else pure (vs, fmt, fr, cd, 2, 2, 2)
  else pure (vs, 5, 0, 0, 2, 2, 2)

/-- (chroma_loc_info_present_flag, top, bottom) -/
def vuiChromaLoc : P (Nat × Nat × Nat) := do
  let cl ← readBit
  if cl = 1 then do
    let a ← readUe8
    let b ← readUe8
    pure (cl, a, b)
  else pure (cl, 0, 0)

/-- (default_display_window_flag, left, right, top, bottom) -/
def vuiWindow : P (Nat × Nat × Nat × Nat × Nat) := do
  let ddw ← readBit
  if ddw = 1 then do
    let a ← readUe16
    let b ← readUe16
    let c ← readUe16
    let d ← readUe16
    pure (ddw, a, b, c, d)
  else pure (ddw, 0, 0, 0, 0)

/-- aspect ratio … default display window -/
def vuiHead : P Vui := do
  let (ar, idc, sw, sh) ← vuiAspect
  let (os, osa) ← vuiOverscan
  let (vs, fmt, fr, cd, cp, tc, mc) ← vuiSignal
  let (cl, clt, clb) ← vuiChromaLoc
  let neutral ← readBit
  let fieldSeq ← readBit
  let ffi ← readBit
  let (ddw, dl, dr, dt, db) ← vuiWindow
  pure { aspectRatioInfoPresentFlag := ar, aspectRatioIdc := idc, sarWidth := sw, sarHeight := sh,
         overscanInfoPresentFlag := os, overscanAppropriateFlag := osa, videoSignalTypePresentFlag := vs,
         videoFormat := fmt, videoFullRangeFlag := fr, colourDescriptionPresentFlag := cd, colourPrimaries := cp,
         transferCharacteristics := tc, matrixCoefficients := mc, chromaLocInfoPresentFlag := cl,
         chromaSampleLocTypeTopField := clt, chromaSampleLocTypeBottomField := clb,
         neutralChromaIndicationFlag := neutral, fieldSeqFlag := fieldSeq, frameFieldInfoPresentFlag := ffi,
         defaultDisplayWindowFlag := ddw, defDispWinLeftOffset := dl, defDispWinRightOffset := dr,
         defDispWinTopOffset := dt, defDispWinBottomOffset := db }

/-- vui_timing_info_present_flag … hrd_parameters -/
def vuiTiming (cfg : Cfg) (maxSub : Nat) (v : Vui) : P Vui := do
  let ti ← readBit
  if ti = 1 then do
    let n ← readU 32 32
    let t ← readU 32 32
    let pp ← readBit
    let nt ← (if pp = 1 then readUe else pure 0)
    let hp ← readBit
    let h ← (if hp = 1 then hrd cfg true maxSub else pure {})
    pure { v with vuiTimingInfoPresentFlag := ti, vuiNumUnitsInTick := n, vuiTimeScale := t,
                  vuiPocProportionalToTimingFlag := pp, vuiNumTicksPocDiffOneMinus1 := nt,
                  vuiHrdParametersPresentFlag := hp, hrd := h }
  else pure { v with vuiTimingInfoPresentFlag := ti }

def vuiRestriction (v : Vui) : P Vui := do
  let br ← readBit
  if br = 1 then do
    let a ← readBit
    let b ← readBit
    let c ← readBit
    let d ← readUe16
    let e ← readUe8
    let f ← readUe8
    let g ← readUe8
    let h ← readUe8
    pure { v with bitstreamRestrictionFlag := br, tilesFixedStructureFlag := a, motionVectorsOverPicBoundariesFlag := b,
                  restrictedRefPicListsFlag := c, minSpatialSegmentationIdc := d, maxBytesPerPicDenom := e,
                  maxBitsPerMinCuDenom := f, log2MaxMvLengthHorizontal := g, log2MaxMvLengthVertical := h }
  else
    pure { v with bitstreamRestrictionFlag := br, tilesFixedStructureFlag := 0, motionVectorsOverPicBoundariesFlag := 1,
                  minSpatialSegmentationIdc := 0, maxBytesPerPicDenom := 2, maxBitsPerMinCuDenom := 1,
                  log2MaxMvLengthHorizontal := 15, log2MaxMvLengthVertical := 15 }

/-- H265RawVUI.decode -/
def vui (cfg : Cfg) (maxSub : Nat) : P Vui := do
  let v ← vuiHead
  let v ← vuiTiming cfg maxSub v
  vuiRestriction v

/-- H265RawVUI.setDefault -/
def vuiDefault : Vui :=
  { aspectRatioIdc := 0, videoFormat := 5, videoFullRangeFlag := 0, colourPrimaries := 2, transferCharacteristics := 2,
    matrixCoefficients := 2, chromaSampleLocTypeTopField := 0, chromaSampleLocTypeBottomField := 0,
    tilesFixedStructureFlag := 0, motionVectorsOverPicBoundariesFlag := 1, minSpatialSegmentationIdc := 0,
    maxBytesPerPicDenom := 2, maxBitsPerMinCuDenom := 1, log2MaxMvLengthHorizontal := 15, log2MaxMvLengthVertical := 15 }

/-! ### SPS -/

/-- everything up to the conformance window: what Width()/Height() look at -/
structure SpsHead where
  nal : NalHeader := {}
  spsVideoParameterSetId : Nat := 0
  spsMaxSubLayersMinus1 : Nat := 0
  spsTemporalIdNestingFlag : Nat := 0
  ptl : Ptl := {}
  spsSeqParameterSetId : Nat := 0
  chromaFormatIdc : Nat := 0
  separateColourPlaneFlag : Nat := 0
  picWidthInLumaSamples : Nat := 0
  picHeightInLumaSamples : Nat := 0
  conformanceWindowFlag : Nat := 0
  confWinLeftOffset : Nat := 0
  confWinRightOffset : Nat := 0
  confWinTopOffset : Nat := 0
  confWinBottomOffset : Nat := 0
deriving DecidableEq, Repr

structure SpsBody where
  bitDepthLumaMinus8 : Nat := 0
  bitDepthChromaMinus8 : Nat := 0
  log2MaxPicOrderCntLsbMinus4 : Nat := 0
  spsSubLayerOrderingInfoPresentFlag : Nat := 0
  /-- entries 0 … sps_max_sub_layers_minus1 of the three arrays -/
  ordering : List Ordering := []
  log2MinLumaCodingBlockSizeMinus3 : Nat := 0
  log2DiffMaxMinLumaCodingBlockSize : Nat := 0
  log2MinLumaTransformBlockSizeMinus2 : Nat := 0
  log2DiffMaxMinLumaTransformBlockSize : Nat := 0
  maxTransformHierarchyDepthInter : Nat := 0
  maxTransformHierarchyDepthIntra : Nat := 0
  scalingListEnabledFlag : Nat := 0
  spsScalingListDataPresentFlag : Nat := 0
  scalingList : List (List ScalingEntry) := []
  ampEnabledFlag : Nat := 0
  sampleAdaptiveOffsetEnabledFlag : Nat := 0
  pcmEnabledFlag : Nat := 0
  pcmSampleBitDepthLumaMinus1 : Nat := 0
  pcmSampleBitDepthChromaMinus1 : Nat := 0
  log2MinPcmLumaCodingBlockSizeMinus3 : Nat := 0
  log2DiffMaxMinPcmLumaCodingBlockSize : Nat := 0
  pcmLoopFilterDisabledFlag : Nat := 0
  numShortTermRefPicSets : Nat := 0
  /-- St_ref_pic_set[0 … num − 1] -/
  stRefPicSets : List StRps := []
  longTermRefPicsPresentFlag : Nat := 0
  numLongTermRefPicsSps : Nat := 0
  /-- (Lt_ref_pic_poc_lsb_sps[i], Used_by_curr_pic_lt_sps_flag[i]) -/
  longTerm : List (Nat × Nat) := []
  spsTemporalMvpEnabledFlag : Nat := 0
  strongIntraSmoothingEnabledFlag : Nat := 0
  vuiParametersPresentFlag : Nat := 0
  vui : Vui := {}
  spsExtensionPresentFlag : Nat := 0
  spsRangeExtensionFlag : Nat := 0
  spsMultilayerExtensionFlag : Nat := 0
  sps3dExtensionFlag : Nat := 0
  spsSccExtensionFlag : Nat := 0
  spsExtension4bits : Nat := 0
deriving DecidableEq, Repr

structure RawSps where
  head : SpsHead := {}
  body : SpsBody := {}
deriving DecidableEq, Repr

def errShort : Fault := .err 1
def errNotSps : Fault := .err 3      -- "not is sps NAL UNIT" / "not is vps NAL UNIT"
def errMinCb : Fault := .err 4       -- "Invalid dimensions: … not divisible by MinCbSizeY"
def errNesting : Fault := .err 5     -- "vps_temporal_id_nesting_flag must be 1 if vps_max_sub_layers_minus1 is 0"

/-- NAL header … conformance window -/
def spsHead (cfg : Cfg) : P SpsHead := do
  let nal ← nalHeader
  if nal.nalUnitType ≠ cfg.nalSps then fail errNotSps else
  let vid ← readU 4 8
  let msl ← readU 3 8
  let nest ← readBit
  let p ← ptl msl
  let sid ← readUe8
  let cf ← readUe8
  let sep ← (if cf = 3 then readBit else pure 0)
  let w ← readUe16
  let h ← readUe16
  let cw ← readBit
  let (l, r, t, b) ← (if cw = 1 then do
      let l ← readUe16
      let r ← readUe16
      let t ← readUe16
      let b ← readUe16
      pure (l, r, t, b)
    else pure (0, 0, 0, 0))
  pure { nal := nal, spsVideoParameterSetId := vid, spsMaxSubLayersMinus1 := msl, spsTemporalIdNestingFlag := nest,
         ptl := p, spsSeqParameterSetId := sid, chromaFormatIdc := cf, separateColourPlaneFlag := sep,
         picWidthInLumaSamples := w, picHeightInLumaSamples := h, conformanceWindowFlag := cw,
         confWinLeftOffset := l, confWinRightOffset := r, confWinTopOffset := t, confWinBottomOffset := b }

/-- `for i := uint8(0); i < num; i++ { Lt_ref_pic_poc_lsb_sps[i] = ReadUint16(log2+4); Used_by_curr_pic_lt_sps_flag[i] = ReadBit() }` -/
def longTermLoop (cfg : Cfg) (bits : Nat) : Nat → Nat → P (List (Nat × Nat))
  | 0, _ => pure []
  | n + 1, i => do
    let v ← readU bits 16
    if i ≥ cfg.maxLongTermRefPics then fail .panic else
    let u ← readBit
    let rest ← longTermLoop cfg bits n (i + 1)
    pure ((v, u) :: rest)

/-- sps_sub_layer_ordering_info_present_flag and the three arrays: (flag, entries 0 … max) -/
def bodyOrdering (cfg : Cfg) (msl : Nat) : P (Nat × List Ordering) := do
  let oflag ← readBit
  let start := if cfg.spsOrderingStd then (if oflag = 1 then 0 else msl) else (if oflag = 1 then msl else 0)
  let read ← orderingLoop cfg (msl + 1 - start) start
  pure (oflag, orderingArrays oflag msl start read)

/-- log2_min_luma_coding_block_size_minus3 … max_transform_hierarchy_depth_intra, with the MinCbSizeY check -/
def bodyCoding (h : SpsHead) : P (Nat × Nat × Nat × Nat × Nat × Nat) := do
  let minCb ← readUe8
  let diffCb ← readUe8
  let shift := (minCb + 3) % 256
  -- `min_cb_size_y := uint16(1) << shift`; a zero divisor in `%` is a run-time panic
  if shift ≥ 16 then fail .panic else
  if h.picWidthInLumaSamples % 2 ^ shift > 0 ∨ h.picHeightInLumaSamples % 2 ^ shift > 0 then fail errMinCb else
  let minTb ← readUe8
  let diffTb ← readUe8
  let thInter ← readUe8
  let thIntra ← readUe8
  pure (minCb, diffCb, minTb, diffTb, thInter, thIntra)

/-- (scaling_list_enabled_flag, sps_scaling_list_data_present_flag, scaling list data) -/
def bodyScaling (cfg : Cfg) : P (Nat × Nat × List (List ScalingEntry)) := do
  let sle ← readBit
  if sle = 1 then do
    let p ← readBit
    if p = 1 then do
      let l ← scalingList cfg.seFromUe
      pure (sle, p, l)
    else pure (sle, p, [])
  else pure (sle, 0, [])

/-- (pcm_enabled_flag and its five elements) -/
def bodyPcm : P (Nat × Nat × Nat × Nat × Nat × Nat) := do
  let pcm ← readBit
  if pcm = 1 then do
    let a ← readU 4 8
    let b ← readU 4 8
    let c ← readUe8
    let d ← readUe8
    let e ← readBit
    pure (pcm, a, b, c, d, e)
  else pure (pcm, 0, 0, 0, 0, 0)

/-- (long_term_ref_pics_present_flag, num_long_term_ref_pics_sps, entries) -/
def bodyLongTerm (cfg : Cfg) (lsb : Nat) : P (Nat × Nat × List (Nat × Nat)) := do
  let ltp ← readBit
  if ltp = 1 then do
    let n ← readUe8
    let l ← longTermLoop cfg ((lsb + 4) % 256) n 0
    pure (ltp, n, l)
  else pure (ltp, 0, [])

/-- (sps_extension_present_flag and the five extension elements) -/
def bodyExt : P (Nat × Nat × Nat × Nat × Nat × Nat) := do
  let ext ← readBit
  if ext = 1 then do
    let a ← readBit
    let b ← readBit
    let c ← readBit
    let d ← readBit
    let e ← readU 4 8
    pure (ext, a, b, c, d, e)
  else pure (ext, 0, 0, 0, 0, 0)

/-- (vui_parameters_present_flag, VUI) -/
def bodyVui (cfg : Cfg) (msl : Nat) : P (Nat × Vui) := do
  let vf ← readBit
  if vf = 1 then do
    let v ← vui cfg msl
    pure (vf, v)
  else pure (vf, vuiDefault)

/-- bit depths … sps_extension flags -/
def spsBody (cfg : Cfg) (h : SpsHead) : P SpsBody := do
  let msl := h.spsMaxSubLayersMinus1
  let bdl ← readUe8
  let bdc ← readUe8
  let lsb ← readUe8
  let (oflag, ordering) ← bodyOrdering cfg msl
  let (minCb, diffCb, minTb, diffTb, thInter, thIntra) ← bodyCoding h
  let (sle, sldp, sl) ← bodyScaling cfg
  let amp ← readBit
  let sao ← readBit
  let (pcm, p1, p2, p3, p4, p5) ← bodyPcm
  let nrps ← readUe8
  let rps ← stRpsLoop cfg nrps 0 []
  let (ltp, nlt, lts) ← bodyLongTerm cfg lsb
  let mvp ← readBit
  let sis ← readBit
  let (vf, v) ← bodyVui cfg msl
  let (ext, e1, e2, e3, e4, e5) ← bodyExt
  pure { bitDepthLumaMinus8 := bdl, bitDepthChromaMinus8 := bdc, log2MaxPicOrderCntLsbMinus4 := lsb,
         spsSubLayerOrderingInfoPresentFlag := oflag, ordering := ordering,
         log2MinLumaCodingBlockSizeMinus3 := minCb, log2DiffMaxMinLumaCodingBlockSize := diffCb,
         log2MinLumaTransformBlockSizeMinus2 := minTb, log2DiffMaxMinLumaTransformBlockSize := diffTb,
         maxTransformHierarchyDepthInter := thInter, maxTransformHierarchyDepthIntra := thIntra,
         scalingListEnabledFlag := sle, spsScalingListDataPresentFlag := sldp, scalingList := sl,
         ampEnabledFlag := amp, sampleAdaptiveOffsetEnabledFlag := sao, pcmEnabledFlag := pcm,
         pcmSampleBitDepthLumaMinus1 := p1, pcmSampleBitDepthChromaMinus1 := p2,
         log2MinPcmLumaCodingBlockSizeMinus3 := p3, log2DiffMaxMinPcmLumaCodingBlockSize := p4,
         pcmLoopFilterDisabledFlag := p5, numShortTermRefPicSets := nrps, stRefPicSets := rps.reverse,
         longTermRefPicsPresentFlag := ltp, numLongTermRefPicsSps := nlt, longTerm := lts,
         spsTemporalMvpEnabledFlag := mvp, strongIntraSmoothingEnabledFlag := sis, vuiParametersPresentFlag := vf,
         vui := v, spsExtensionPresentFlag := ext, spsRangeExtensionFlag := e1, spsMultilayerExtensionFlag := e2,
         sps3dExtensionFlag := e3, spsSccExtensionFlag := e4, spsExtension4bits := e5 }

def spsBits (cfg : Cfg) : P RawSps := do
  let h ← spsHead cfg
  let b ← spsBody cfg h
  pure { head := h, body := b }

/-- H265RawSPS.Decode(data) on a fresh struct -/
def decodeSps (cfg : Cfg) (data : List UInt8) : Except Fault RawSps :=
  let web := Epb.removeEmulationBytes data
  if web.length < 4 then .error errShort
  else match spsBits cfg (bitsOfBytes web) with
    | .ok (s, _) => .ok s
    | .error e => .error e

/-- H265RawSPS.Width() -/
def width (h : SpsHead) : Int :=
  if h.conformanceWindowFlag = 1 then
    let subWidthC : Int := if (h.chromaFormatIdc = 1 ∨ h.chromaFormatIdc = 2) ∧ h.separateColourPlaneFlag = 0 then 2 else 1
    Int.ofNat h.picWidthInLumaSamples - subWidthC * (Int.ofNat h.confWinRightOffset + Int.ofNat h.confWinLeftOffset)
  else Int.ofNat h.picWidthInLumaSamples

/-- H265RawSPS.Height() -/
def height (h : SpsHead) : Int :=
  if h.conformanceWindowFlag = 1 then
    let subHeightC : Int := if h.chromaFormatIdc = 1 ∧ h.separateColourPlaneFlag = 0 then 2 else 1
    Int.ofNat h.picHeightInLumaSamples - subHeightC * (Int.ofNat h.confWinBottomOffset + Int.ofNat h.confWinTopOffset)
  else Int.ofNat h.picHeightInLumaSamples

/-- H265RawSPS.FrameRate() as a fraction; `none` = 0.0 -/
def frameRate (s : RawSps) : Option (Nat × Nat) :=
  if s.body.vui.vuiNumUnitsInTick = 0 then none else some (s.body.vui.vuiTimeScale, s.body.vui.vuiNumUnitsInTick)

/-- H265RawSPS.IsFixedFrameRate(): `FrameRate() > 0` -/
def isFixedFrameRate (s : RawSps) : Bool :=
  s.body.vui.vuiNumUnitsInTick ≠ 0 ∧ s.body.vui.vuiTimeScale ≠ 0

structure VideoDims where
  width : Int
  height : Int
  fixed : Bool
  fps : Option (Nat × Nat)
deriving DecidableEq, Repr

def dimsOf (s : RawSps) : VideoDims :=
  { width := width s.head, height := height s.head, fixed := isFixedFrameRate s, fps := frameRate s }

/-- hevc.MetadataIsReady(vm) for vm.Width == 0 -/
def metadataIsReady (cfg : Cfg) (vps sps pps : List UInt8) : Option VideoDims :=
  if vps.isEmpty ∨ sps.isEmpty ∨ pps.isEmpty then none
  else match decodeSps cfg sps with
    | .ok s => some (dimsOf s)
    | .error _ => none

/-! ### VPS -/

structure RawVps where
  nal : NalHeader := {}
  vpsVideoParameterSetId : Nat := 0
  vpsBaseLayerInternalFlag : Nat := 0
  vpsBaseLayerAvailableFlag : Nat := 0
  vpsMaxLayersMinus1 : Nat := 0
  vpsMaxSubLayersMinus1 : Nat := 0
  vpsTemporalIdNestingFlag : Nat := 0
  ptl : Ptl := {}
  vpsSubLayerOrderingInfoPresentFlag : Nat := 0
  ordering : List Ordering := []
  vpsMaxLayerId : Nat := 0
  vpsNumLayerSetsMinus1 : Nat := 0
  /-- Layer_id_included_flag[i][0 … vps_max_layer_id] for i = 0 … vps_num_layer_sets_minus1 -/
  layerIdIncluded : List (List Nat) := []
  vpsTimingInfoPresentFlag : Nat := 0
  vpsNumUnitsInTick : Nat := 0
  vpsTimeScale : Nat := 0
  vpsPocProportionalToTimingFlag : Nat := 0
  vpsNumTicksPocDiffOneMinus1 : Nat := 0
  vpsNumHrdParameters : Nat := 0
  /-- (Hrd_layer_set_idx[i], Cprms_present_flag[i], Hrd_parameters[i]) -/
  hrds : List (Nat × Nat × Hrd) := []
  vpsExtensionFlag : Nat := 0
deriving DecidableEq, Repr

/-- `for j := uint8(0); j <= vps_max_layer_id; j++ { [i][j] = ReadBit() }` over rows of HEVC_MAX_LAYERS -/
def layerRow (cfg : Cfg) : Nat → Nat → P (List Nat)
  | 0, _ => pure []
  | n + 1, j => do
    let b ← readBit
    if j ≥ cfg.maxLayers then fail .panic else
    let rest ← layerRow cfg n (j + 1)
    pure (b :: rest)

def layerRows (cfg : Cfg) (maxLayerId : Nat) : Nat → P (List (List Nat))
  | 0 => pure []
  | n + 1 => do
    let row ← layerRow cfg (maxLayerId + 1) 0
    let rest ← layerRows cfg maxLayerId n
    pure (row :: rest)

def vpsHrdLoop (cfg : Cfg) (maxSub : Nat) : Nat → Nat → P (List (Nat × Nat × Hrd))
  | 0, _ => pure []
  | n + 1, i => do
    let idx ← readUe16
    let cprms ← (if i > 0 then readBit else pure 1)
    let h ← hrd cfg (cprms = 1) maxSub
    let rest ← vpsHrdLoop cfg maxSub n (i + 1)
    pure ((idx, cprms, h) :: rest)

/-- vps_timing_info_present_flag … hrd_parameters: (flag, num_units_in_tick, time_scale, poc_proportional flag,
    num_ticks_poc_diff_one_minus1, vps_num_hrd_parameters, entries) -/
def vpsTiming (cfg : Cfg) (msl : Nat) : P (Nat × Nat × Nat × Nat × Nat × Nat × List (Nat × Nat × Hrd)) := do
  let ti ← readBit
  if ti = 1 then do
    let n ← readU 32 32
    let t ← readU 32 32
    let pp ← readBit
    let nt ← (if pp = 1 then readUe else pure 0)
    let nh ← readUe16
    let hs ← vpsHrdLoop cfg msl nh 0
    pure (ti, n, t, pp, nt, nh, hs)
  else pure (ti, 0, 0, 0, 0, 0, [])

/-- sub-layer ordering info of the VPS (the loop starts at 0 when the flag is 1, at max otherwise): (flag, entries 0 … max) -/
def vpsOrdering (cfg : Cfg) (msl : Nat) : P (Nat × List Ordering) := do
  let oflag ← readBit
  let start := if oflag = 1 then 0 else msl
  let read ← orderingLoop cfg (msl + 1 - start) start
  pure (oflag, orderingArrays oflag msl start read)

def vpsBits (cfg : Cfg) : P RawVps := do
  let nal ← nalHeader
  if nal.nalUnitType ≠ cfg.nalVps then fail errNotSps else
  let vid ← readU 4 8
  let bli ← readBit
  let bla ← readBit
  let ml ← readU 6 8
  let msl ← readU 3 8
  let nest ← readBit
  if msl = 0 ∧ nest ≠ 1 then fail errNesting else
  skip 16
  let p ← ptl msl
  let (oflag, ordering) ← vpsOrdering cfg msl
  let mli ← readU 6 8
  let nls ← readUe16
  -- `make([][HEVC_MAX_LAYERS]uint8, nls+1)` in uint16: 65535+1 wraps to an empty slice, every row access panics
  if nls = 65535 then fail .panic else
  let rows ← layerRows cfg mli nls
  -- row 0: `[0][j] = 1; if j == 0 { [0][j] = 0 }` for j ≤ vps_max_layer_id, on a row of HEVC_MAX_LAYERS
  if mli ≥ cfg.maxLayers then fail .panic else
  let row0 := 0 :: List.replicate mli 1
  let (ti, n, t, pp, nt, nh, hs) ← vpsTiming cfg msl
  let ext ← readBit
  pure { nal := nal, vpsVideoParameterSetId := vid, vpsBaseLayerInternalFlag := bli, vpsBaseLayerAvailableFlag := bla,
         vpsMaxLayersMinus1 := ml, vpsMaxSubLayersMinus1 := msl, vpsTemporalIdNestingFlag := nest, ptl := p,
         vpsSubLayerOrderingInfoPresentFlag := oflag, ordering := ordering, vpsMaxLayerId := mli,
         vpsNumLayerSetsMinus1 := nls, layerIdIncluded := row0 :: rows, vpsTimingInfoPresentFlag := ti,
         vpsNumUnitsInTick := n, vpsTimeScale := t, vpsPocProportionalToTimingFlag := pp,
         vpsNumTicksPocDiffOneMinus1 := nt, vpsNumHrdParameters := nh, hrds := hs, vpsExtensionFlag := ext }

/-- H265RawVPS.Decode(data) on a fresh struct -/
def decodeVps (cfg : Cfg) (data : List UInt8) : Except Fault RawVps :=
  let web := Epb.removeEmulationBytes data
  if web.length < 4 then .error errShort
  else match vpsBits cfg (bitsOfBytes web) with
    | .ok (s, _) => .ok s
    | .error e => .error e

end IpcHub.Hevc
