/-
Model of av/codec/h264/sps.go (RawSPS.Decode, scanList, RawNALUnitHeader.decode,
RawVUI.decode / parametersDefault, RawHRD.decode, Width, Height, FrameRate,
IsFixedFrameRate) and av/codec/h264/shortcut.go (MetadataIsReady) — C15.

Field by field, branch by branch; every Go struct field is a field here (zero when the Go
code leaves it untouched in a fresh struct).  Fixed-width conversions are explicit
(`% 256`, `wrapInt`).  Core Lean only.
-/
import IpcHub.Model.Bits
import IpcHub.Model.Epb
namespace IpcHub.H264
open IpcHub.Bits

/-- the source-level facts the model is instantiated with (regenerated: Gen/CodecFacts.lean) -/
structure Cfg where
  /-- bits.ReadSe computes its result from the decoded `ui32` (false: from the zero result variable) -/
  seFromUe : Bool
  /-- profile_idc values for which `Decode` reads chroma_format_idc … scaling lists -/
  highProfiles : List Nat
  /-- h264.NalSps -/
  nalSps : Nat
  /-- nal_unit_type values rejected as SVC/3D-AVC/MVC by `RawNALUnitHeader.decode` -/
  svcTypes : List Nat
  /-- h264.MaxCpbCnt: length of the arrays of RawHRD -/
  maxCpbCnt : Nat
  /-- h264.MaxDpbFrames -/
  maxDpbFrames : Nat
  /-- Width/Height use the standard's CropUnitX/CropUnitY (false: the constant 2 and uint16 arithmetic of the pinned tree) -/
  cropByChroma : Bool
  /-- Decode infers chroma_format_idc = 0 for profile_idc 183 when the element is absent (pinned tree; the standard infers 1 always) -/
  mono183 : Bool
  /-- FrameRate divides by `2*float64(num_units_in_tick)` (false: by `float64(num_units_in_tick*2)` in uint32) -/
  fpsWide : Bool
deriving Repr

structure Hrd where
  cpbCntMinus1 : Nat := 0
  bitRateScale : Nat := 0
  cpbSizeScale : Nat := 0
  /-- (BitRateValueMinus1[i], CpbSizeValueMinus1[i], CbrFlag[i]) for i = 0 … cpb_cnt_minus1 -/
  entries : List (Nat × Nat × Nat) := []
  initialCpbRemovalDelayLengthMinus1 : Nat := 0
  cpbRemovalDelayLengthMinus1 : Nat := 0
  dpbOutputDelayLengthMinus1 : Nat := 0
  timeOffsetLength : Nat := 0
deriving DecidableEq, Repr

structure Vui where
  aspectRatioInfoPresentFlag : Nat := 0
  aspectRatioIdc : Nat := 0
  sarWidth : Nat := 0
  sarHeight : Nat := 0
  overscanInfoPresentFlag : Nat := 0
  overscanAppropriateFlag : Nat := 0
  videoSignalTypePresentFlag : Nat := 0
  videoFormat : Nat := 0
  videoFullRangeFlag : Nat := 0
  colourDescriptionPresentFlag : Nat := 0
  colourPrimaries : Nat := 0
  transferCharacteristics : Nat := 0
  matrixCoefficients : Nat := 0
  chromaLocInfoPresentFlag : Nat := 0
  chromaSampleLocTypeTopField : Nat := 0
  chromaSampleLocTypeBottomField : Nat := 0
  timingInfoPresentFlag : Nat := 0
  numUnitsInTick : Nat := 0
  timeScale : Nat := 0
  fixedFrameRateFlag : Nat := 0
  nalHrdParametersPresentFlag : Nat := 0
  nalHrd : Hrd := {}
  vclHrdParametersPresentFlag : Nat := 0
  vclHrd : Hrd := {}
  lowDelayHrdFlag : Nat := 0
  picStructPresentFlag : Nat := 0
  bitstreamRestrictionFlag : Nat := 0
  motionVectorsOverPicBoundariesFlag : Nat := 0
  maxBytesPerPicDenom : Nat := 0
  maxBitsPerMbDenom : Nat := 0
  log2MaxMvLengthHorizontal : Nat := 0
  log2MaxMvLengthVertical : Nat := 0
  maxNumReorderFrames : Nat := 0
  maxDecFrameBuffering : Nat := 0
deriving DecidableEq, Repr

/-- chroma_format_idc … seq_scaling lists (the `if profile_idc == 100 || …` block of Decode) -/
structure ChromaInfo where
  chromaFormatIdc : Nat := 0
  separateColourPlaneFlag : Nat := 0
  bitDepthLumaMinus8 : Nat := 0
  bitDepthChromaMinus8 : Nat := 0
  qpprimeYZeroTransformBypassFlag : Nat := 0
  seqScalingMatrixPresentFlag : Nat := 0
  /-- SeqScalingListPresentFlag[i] for the 8 or 12 flags read -/
  seqScalingListPresentFlag : List Nat := []
  /-- for each flag read: the `current[..]` values stored by scanList ([] when the flag is 0) -/
  scalingLists : List (List Int) := []
deriving DecidableEq, Repr

/-- log2_max_frame_num_minus4 … offset_for_ref_frame -/
structure PocInfo where
  log2MaxFrameNumMinus4 : Nat := 0
  picOrderCntType : Nat := 0
  log2MaxPicOrderCntLsbMinus4 : Nat := 0
  deltaPicOrderAlwaysZeroFlag : Nat := 0
  offsetForNonRefPic : Int := 0
  offsetForTopToBottomField : Int := 0
  numRefFramesInPicOrderCntCycle : Nat := 0
  offsetForRefFrame : List Int := []
deriving DecidableEq, Repr

/-- max_num_ref_frames … frame_crop offsets -/
structure FrameInfo where
  maxNumRefFrames : Nat := 0
  gapsInFrameNumAllowedFlag : Nat := 0
  picWidthInMbsMinus1 : Nat := 0
  picHeightInMapUnitsMinus1 : Nat := 0
  frameMbsOnlyFlag : Nat := 0
  mbAdaptiveFrameFieldFlag : Nat := 0
  direct8x8InferenceFlag : Nat := 0
  frameCroppingFlag : Nat := 0
  frameCropLeftOffset : Nat := 0
  frameCropRightOffset : Nat := 0
  frameCropTopOffset : Nat := 0
  frameCropBottomOffset : Nat := 0
deriving DecidableEq, Repr

structure Header where
  forbiddenZeroBit : Nat := 0
  nalRefIdc : Nat := 0
  nalUnitType : Nat := 0
  profileIdc : Nat := 0
  constraintSet0Flag : Nat := 0
  constraintSet1Flag : Nat := 0
  constraintSet2Flag : Nat := 0
  constraintSet3Flag : Nat := 0
  constraintSet4Flag : Nat := 0
  constraintSet5Flag : Nat := 0
  reservedZero2Bits : Nat := 0
  levelIdc : Nat := 0
  seqParameterSetID : Nat := 0
deriving DecidableEq, Repr

structure RawSps where
  hdr : Header := {}
  chroma : ChromaInfo := {}
  poc : PocInfo := {}
  frame : FrameInfo := {}
  vuiParametersPresentFlag : Nat := 0
  vui : Vui := {}
deriving DecidableEq, Repr

/-- error sites of RawSPS.Decode -/
def errShort : Fault := .err 1      -- "The data is not enough"
def errSvc : Fault := .err 2        -- "SVC,3DAVC,MVC not supported"
def errNotSps : Fault := .err 3     -- "not is sps NAL UNIT"

/-- RawNALUnitHeader.decode, then `if NalUnitType != NalSps`, then profile_idc … seq_parameter_set_id -/
def header (cfg : Cfg) : P Header := do
  let fz ← readBit
  let ref ← readU 2 8
  let ty ← readU 5 8
  if cfg.svcTypes.contains ty then fail errSvc else
  if ty ≠ cfg.nalSps then fail errNotSps else
  let profile ← readU 8 8
  let c0 ← readBit
  let c1 ← readBit
  let c2 ← readBit
  let c3 ← readBit
  let c4 ← readBit
  let c5 ← readBit
  let rz ← readU 2 8
  let level ← readU 8 8
  let id ← readUe8
  pure { forbiddenZeroBit := fz, nalRefIdc := ref, nalUnitType := ty, profileIdc := profile,
         constraintSet0Flag := c0, constraintSet1Flag := c1, constraintSet2Flag := c2,
         constraintSet3Flag := c3, constraintSet4Flag := c4, constraintSet5Flag := c5,
         reservedZero2Bits := rz, levelIdc := level, seqParameterSetID := id }

/-- RawSPS.scanList: `for i = 0; i < sizeOfScan; i++ { current[i] = r.ReadSe8();
    scale = (scale + int(current[i]) + 256) % 256; if scale == 0 { break } }` -/
def scanList (se : Bool) : Nat → Int → P (List Int)
  | 0, _ => pure []
  | n + 1, scale => do
    let d ← readSe8C se
    let scale' := (scale + d + 256) % 256
    if scale' = 0 then pure [d]
    else do
      let rest ← scanList se n scale'
      pure (d :: rest)

/-- the loop `for i := 0; i < maxI; i++ { flag = ReadBit(); if flag != 0 { scanList(r, i) } }`;
    `i` is the list index (lists 0–5 are 4x4, 6–11 are 8x8) -/
def scalingLoop (se : Bool) : Nat → Nat → P (List Nat × List (List Int))
  | 0, _ => pure ([], [])
  | n + 1, i => do
    let f ← readBit
    let l ← (if f ≠ 0 then scanList se (if i < 6 then 16 else 64) 8 else pure [])
    let (fs, ls) ← scalingLoop se n (i + 1)
    pure (f :: fs, l :: ls)

def chromaInfo (cfg : Cfg) (profile : Nat) : P ChromaInfo := do
  if cfg.highProfiles.contains profile then
    let idc ← readUe8
    let sep ← (if idc = 3 then readBit else pure 0)
    let bl ← readUe8
    let bc ← readUe8
    let qp ← readBit
    let sm ← readBit
    let (fs, ls) ← (if sm ≠ 0 then scalingLoop cfg.seFromUe (if idc = 3 then 12 else 8) 0 else pure ([], []))
    pure { chromaFormatIdc := idc, separateColourPlaneFlag := sep, bitDepthLumaMinus8 := bl,
           bitDepthChromaMinus8 := bc, qpprimeYZeroTransformBypassFlag := qp,
           seqScalingMatrixPresentFlag := sm, seqScalingListPresentFlag := fs, scalingLists := ls }
  else
    pure { chromaFormatIdc := if cfg.mono183 ∧ profile = 183 then 0 else 1 }

/-- `for i := uint8(0); i < n; i++ { OffsetForRefFrame[i] = r.ReadSe() }` -/
def refFrameOffsets (se : Bool) : Nat → P (List Int)
  | 0 => pure []
  | n + 1 => do
    let z ← readSeC se
    let rest ← refFrameOffsets se n
    pure (z :: rest)

def pocInfo (cfg : Cfg) : P PocInfo := do
  let fn ← readUe8
  let ty ← readUe8
  if ty = 0 then
    let lsb ← readUe8
    pure { log2MaxFrameNumMinus4 := fn, picOrderCntType := ty, log2MaxPicOrderCntLsbMinus4 := lsb }
  else if ty = 1 then
    let dz ← readBit
    let o1 ← readSeC cfg.seFromUe
    let o2 ← readSeC cfg.seFromUe
    let n ← readUe8
    let offs ← refFrameOffsets cfg.seFromUe n
    pure { log2MaxFrameNumMinus4 := fn, picOrderCntType := ty, deltaPicOrderAlwaysZeroFlag := dz,
           offsetForNonRefPic := o1, offsetForTopToBottomField := o2,
           numRefFramesInPicOrderCntCycle := n, offsetForRefFrame := offs }
  else
    pure { log2MaxFrameNumMinus4 := fn, picOrderCntType := ty }

def frameInfo : P FrameInfo := do
  let refs ← readUe8
  let gaps ← readBit
  let w ← readUe16
  let h ← readUe16
  let fmo ← readBit
  let mbaff ← (if fmo = 0 then readBit else pure 0)
  let d8 ← readBit
  let crop ← readBit
  if crop = 1 then
    let l ← readUe16
    let r ← readUe16
    let t ← readUe16
    let b ← readUe16
    pure { maxNumRefFrames := refs, gapsInFrameNumAllowedFlag := gaps, picWidthInMbsMinus1 := w,
           picHeightInMapUnitsMinus1 := h, frameMbsOnlyFlag := fmo, mbAdaptiveFrameFieldFlag := mbaff,
           direct8x8InferenceFlag := d8, frameCroppingFlag := crop, frameCropLeftOffset := l,
           frameCropRightOffset := r, frameCropTopOffset := t, frameCropBottomOffset := b }
  else
    pure { maxNumRefFrames := refs, gapsInFrameNumAllowedFlag := gaps, picWidthInMbsMinus1 := w,
           picHeightInMapUnitsMinus1 := h, frameMbsOnlyFlag := fmo, mbAdaptiveFrameFieldFlag := mbaff,
           direct8x8InferenceFlag := d8, frameCroppingFlag := crop }

/-- the loop of RawHRD.decode: `for i := 0; i <= int(CpbCntMinus1); i++` over arrays of length MaxCpbCnt -/
def hrdEntries (maxCpb : Nat) : Nat → Nat → P (List (Nat × Nat × Nat))
  | 0, _ => pure []
  | n + 1, i => do
    let br ← readUe
    if i ≥ maxCpb then fail .panic else
    let cs ← readUe
    let cbr ← readBit
    let rest ← hrdEntries maxCpb n (i + 1)
    pure ((br, cs, cbr) :: rest)

/-- RawHRD.decode -/
def hrd (cfg : Cfg) : P Hrd := do
  let cnt ← readUe8
  let brs ← readU 4 8
  let css ← readU 4 8
  let es ← hrdEntries cfg.maxCpbCnt (cnt + 1) 0
  let a ← readU 5 8
  let b ← readU 5 8
  let c ← readU 5 8
  let d ← readU 5 8
  pure { cpbCntMinus1 := cnt, bitRateScale := brs, cpbSizeScale := css, entries := es,
         initialCpbRemovalDelayLengthMinus1 := a, cpbRemovalDelayLengthMinus1 := b,
         dpbOutputDelayLengthMinus1 := c, timeOffsetLength := d }

/-- the shared tail of RawVUI.decode's `else` branch and parametersDefault:
    MaxNumReorderFrames / MaxDecFrameBuffering inferred from profile and constraint_set3_flag -/
def inferredDpb (cfg : Cfg) (h : Header) : Nat :=
  if [44, 86, 100, 110, 122, 244].contains h.profileIdc ∧ h.constraintSet3Flag = 1 then 0 else cfg.maxDpbFrames

structure VuiAspect where
  flag : Nat
  idc : Nat
  sarW : Nat
  sarH : Nat

def vuiAspect : P VuiAspect := do
  let f ← readBit
  if f = 1 then
    let idc ← readU 8 8
    if idc = 255 then
      let w ← readU 16 16
      let h ← readU 16 16
      pure ⟨f, idc, w, h⟩
    else pure ⟨f, idc, 0, 0⟩
  else pure ⟨f, 0, 0, 0⟩

/-- (overscan_info_present_flag, overscan_appropriate_flag) -/
def vuiOverscan : P (Nat × Nat) := do
  let f ← readBit
  if f = 1 then
    let a ← readBit
    pure (f, a)
  else pure (f, 0)

structure VuiSignal where
  flag : Nat
  format : Nat
  fullRange : Nat
  colourFlag : Nat
  primaries : Nat
  transfer : Nat
  matrix : Nat

def vuiSignal : P VuiSignal := do
  let f ← readBit
  if f = 1 then
    let fmt ← readU 3 8
    let fr ← readBit
    let cd ← readBit
    if cd = 1 then
      let p ← readU 8 8
      let t ← readU 8 8
      let m ← readU 8 8
      pure ⟨f, fmt, fr, cd, p, t, m⟩
    else pure ⟨f, fmt, fr, cd, 0, 0, 0⟩     -- H.264: the three stay at their zero value here
  else pure ⟨f, 5, 0, 0, 2, 2, 2⟩

/-- (chroma_loc_info_present_flag, top, bottom) -/
def vuiChromaLoc : P (Nat × Nat × Nat) := do
  let f ← readBit
  if f = 1 then
    let t ← readUe8
    let b ← readUe8
    pure (f, t, b)
  else pure (f, 0, 0)

/-- (timing_info_present_flag, num_units_in_tick, time_scale, fixed_frame_rate_flag) -/
def vuiTiming : P (Nat × Nat × Nat × Nat) := do
  let f ← readBit
  if f = 1 then
    let n ← readU 32 32
    let t ← readU 32 32
    let x ← readBit
    pure (f, n, t, x)
  else pure (f, 0, 0, 0)

def vuiHrd (cfg : Cfg) : P (Nat × Hrd) := do
  let f ← readBit
  if f = 1 then
    let h ← hrd cfg
    pure (f, h)
  else pure (f, {})

structure VuiRestriction where
  flag : Nat
  mvOverPic : Nat
  maxBytes : Nat
  maxBits : Nat
  mvH : Nat
  mvV : Nat
  reorder : Nat
  decBuf : Nat

def vuiRestriction (cfg : Cfg) (h : Header) : P VuiRestriction := do
  let f ← readBit
  if f = 1 then
    let mv ← readBit
    let a ← readUe8
    let b ← readUe8
    let c ← readUe8
    let d ← readUe8
    let e ← readUe8
    let g ← readUe8
    pure ⟨f, mv, a, b, c, d, e, g⟩
  else pure ⟨f, 1, 2, 1, 15, 15, inferredDpb cfg h, inferredDpb cfg h⟩

/-- RawVUI.decode -/
def vui (cfg : Cfg) (h : Header) : P Vui := do
  let ar ← vuiAspect
  let (osF, osA) ← vuiOverscan
  let sg ← vuiSignal
  let (clF, clT, clB) ← vuiChromaLoc
  let (tiF, tiN, tiT, tiX) ← vuiTiming
  let (nalF, nalH) ← vuiHrd cfg
  let (vclF, vclH) ← vuiHrd cfg
  let low ← (if nalF = 1 ∨ vclF = 1 then readBit else pure (1 - tiX))
  let ps ← readBit
  let br ← vuiRestriction cfg h
  pure { aspectRatioInfoPresentFlag := ar.flag, aspectRatioIdc := ar.idc, sarWidth := ar.sarW, sarHeight := ar.sarH,
         overscanInfoPresentFlag := osF, overscanAppropriateFlag := osA,
         videoSignalTypePresentFlag := sg.flag, videoFormat := sg.format, videoFullRangeFlag := sg.fullRange,
         colourDescriptionPresentFlag := sg.colourFlag, colourPrimaries := sg.primaries,
         transferCharacteristics := sg.transfer, matrixCoefficients := sg.matrix,
         chromaLocInfoPresentFlag := clF, chromaSampleLocTypeTopField := clT, chromaSampleLocTypeBottomField := clB,
         timingInfoPresentFlag := tiF, numUnitsInTick := tiN, timeScale := tiT, fixedFrameRateFlag := tiX,
         nalHrdParametersPresentFlag := nalF, nalHrd := nalH, vclHrdParametersPresentFlag := vclF, vclHrd := vclH,
         lowDelayHrdFlag := low, picStructPresentFlag := ps,
         bitstreamRestrictionFlag := br.flag, motionVectorsOverPicBoundariesFlag := br.mvOverPic,
         maxBytesPerPicDenom := br.maxBytes, maxBitsPerMbDenom := br.maxBits,
         log2MaxMvLengthHorizontal := br.mvH, log2MaxMvLengthVertical := br.mvV,
         maxNumReorderFrames := br.reorder, maxDecFrameBuffering := br.decBuf }

/-- RawVUI.parametersDefault -/
def vuiDefault (cfg : Cfg) (h : Header) : Vui :=
  { aspectRatioIdc := 0, videoFormat := 5, videoFullRangeFlag := 0, colourPrimaries := 2,
    transferCharacteristics := 2, matrixCoefficients := 2, fixedFrameRateFlag := 0, lowDelayHrdFlag := 1,
    picStructPresentFlag := 0, motionVectorsOverPicBoundariesFlag := 1, maxBytesPerPicDenom := 2,
    maxBitsPerMbDenom := 1, log2MaxMvLengthHorizontal := 15, log2MaxMvLengthVertical := 15,
    maxNumReorderFrames := inferredDpb cfg h, maxDecFrameBuffering := inferredDpb cfg h }

/-- everything RawSPS.Decode does with the reader -/
def spsBits (cfg : Cfg) : P RawSps := do
  let h ← header cfg
  let ch ← chromaInfo cfg h.profileIdc
  let poc ← pocInfo cfg
  let fr ← frameInfo
  let vf ← readBit
  if vf = 1 then
    let v ← vui cfg h
    pure { hdr := h, chroma := ch, poc := poc, frame := fr, vuiParametersPresentFlag := vf, vui := v }
  else
    pure { hdr := h, chroma := ch, poc := poc, frame := fr, vuiParametersPresentFlag := vf, vui := vuiDefault cfg h }

/-- RawSPS.Decode(data) on a fresh struct.  A `Fault.panic` is what the deferred `recover`
    turns into the "RawSPS decode panic" error. -/
def decode (cfg : Cfg) (data : List UInt8) : Except Fault RawSps :=
  let web := Epb.removeEmulationBytes data
  if web.length < 4 then .error errShort
  else match spsBits cfg (bitsOfBytes web) with
    | .ok (sps, _) => .ok sps
    | .error e => .error e

/-- RawSPS.Width() -/
def width (cfg : Cfg) (s : RawSps) : Int :=
  if cfg.cropByChroma then
    let chromaArrayType := if s.chroma.separateColourPlaneFlag = 1 then 0 else s.chroma.chromaFormatIdc
    let cropUnitX : Int := if chromaArrayType = 1 ∨ chromaArrayType = 2 then 2 else 1
    (Int.ofNat s.frame.picWidthInMbsMinus1 + 1) * 16
      - cropUnitX * (Int.ofNat s.frame.frameCropLeftOffset + Int.ofNat s.frame.frameCropRightOffset)
  else
    -- uint16 arithmetic: (w+1)*16 - left*2 - right*2
    Int.ofNat (((s.frame.picWidthInMbsMinus1 + 1) * 16 + 2 * 65536 * 65536
      - s.frame.frameCropLeftOffset * 2 - s.frame.frameCropRightOffset * 2) % 65536)

/-- RawSPS.Height() -/
def height (cfg : Cfg) (s : RawSps) : Int :=
  if cfg.cropByChroma then
    let chromaArrayType := if s.chroma.separateColourPlaneFlag = 1 then 0 else s.chroma.chromaFormatIdc
    let subHeightC : Int := if chromaArrayType = 1 then 2 else 1
    let cropUnitY : Int := subHeightC * (2 - Int.ofNat s.frame.frameMbsOnlyFlag)
    (2 - Int.ofNat s.frame.frameMbsOnlyFlag) * (Int.ofNat s.frame.picHeightInMapUnitsMinus1 + 1) * 16
      - cropUnitY * (Int.ofNat s.frame.frameCropTopOffset + Int.ofNat s.frame.frameCropBottomOffset)
  else
    Int.ofNat (((2 - s.frame.frameMbsOnlyFlag) * (s.frame.picHeightInMapUnitsMinus1 + 1) * 16 + 2 * 65536 * 65536
      - s.frame.frameCropTopOffset * 2 - s.frame.frameCropBottomOffset * 2) % 65536)

/-- RawSPS.FrameRate() as an exact fraction (numerator, denominator); `none` is the 0.0 of
    `num_units_in_tick == 0`; a zero denominator is the +Inf of a float64 division by zero. -/
def frameRate (cfg : Cfg) (s : RawSps) : Option (Nat × Nat) :=
  if s.vui.numUnitsInTick = 0 then none
  else if cfg.fpsWide then some (s.vui.timeScale, 2 * s.vui.numUnitsInTick)
  else some (s.vui.timeScale, (s.vui.numUnitsInTick * 2) % 2 ^ 32)

/-- RawSPS.IsFixedFrameRate() -/
def isFixedFrameRate (s : RawSps) : Bool := s.vui.fixedFrameRateFlag = 1

/-- what h264.MetadataIsReady stores in a VideoMeta whose Width is still 0 -/
structure VideoDims where
  width : Int
  height : Int
  fixed : Bool
  fps : Option (Nat × Nat)
deriving DecidableEq, Repr

def dimsOf (cfg : Cfg) (s : RawSps) : VideoDims :=
  { width := width cfg s, height := height cfg s, fixed := isFixedFrameRate s, fps := frameRate cfg s }

/-- h264.MetadataIsReady(vm) for vm.Width == 0: `none` = returns false (nothing stored) -/
def metadataIsReady (cfg : Cfg) (sps pps : List UInt8) : Option VideoDims :=
  if sps.isEmpty ∨ pps.isEmpty then none
  else match decode cfg sps with
    | .ok s => some (dimsOf cfg s)
    | .error _ => none

end IpcHub.H264
