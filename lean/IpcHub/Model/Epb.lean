/-
Model of utils/h264or5.go: RemoveNaluSeparator, RemoveH264or5EmulationBytes — C15.
Core Lean only.
-/
namespace IpcHub.Epb

/-- `RemoveNaluSeparator`: strip a leading 00 00 00 01 or 00 00 01 -/
def removeNaluSeparator : List UInt8 → List UInt8
  | 0 :: 0 :: 0 :: 1 :: rest => rest
  | 0 :: 0 :: 1 :: rest => rest
  | l => l

/-- the main loop of `RemoveH264or5EmulationBytes`:
    `for i < fromSize && toSize+1 < toMaxSize { if i+2 < fromSize && from[i..i+2] == 00 00 03 {…} else {…} }`.
    State: the unread part of `from`, `toSize`, the output so far (reversed).
    Returns (output reversed, unread rest, toSize). -/
def loop (toMax : Nat) : List UInt8 → Nat → List UInt8 → List UInt8 × List UInt8 × Nat
  | [], ts, acc => (acc, [], ts)
  | 0 :: 0 :: 3 :: rest, ts, acc =>
    if ts + 1 < toMax then loop toMax rest (ts + 2) (0 :: 0 :: acc) else (acc, 0 :: 0 :: 3 :: rest, ts)
  | a :: rest, ts, acc =>
    if ts + 1 < toMax then loop toMax rest (ts + 1) (a :: acc) else (acc, a :: rest, ts)

/-- after the loop: `if i < fromSize && toSize < toMaxSize { copy one more byte }`, result `to[:toSize]` -/
def finish (toMax : Nat) : List UInt8 × List UInt8 × Nat → List UInt8
  | (acc, [], _) => acc.reverse
  | (acc, a :: _, ts) => if ts < toMax then (a :: acc).reverse else acc.reverse

/-- `RemoveH264or5EmulationBytes(from)`: separator removal, loop, final copy. -/
def removeEmulationBytes (data : List UInt8) : List UInt8 :=
  let src := removeNaluSeparator data
  finish src.length (loop src.length src 0 [])

/-- the textbook definition: drop the 03 of every 00 00 03, scanning left to right -/
def strip : List UInt8 → List UInt8
  | [] => []
  | 0 :: 0 :: 3 :: rest => 0 :: 0 :: strip rest
  | a :: rest => a :: strip rest

end IpcHub.Epb
