/-
Disk storage model for C10 (av/format/hls/segmentfile.go persistentSegmentFile; segmentgenerator.go
flushFrame / segmentClose / reapSegment; playlist.go addSegment / Segment): a persistent segment
file is the bytes the OS file holds plus the bytes still inside the 64 KiB bufio.Writer; the
generator goroutine proceeds in atomic steps and an HLS client (another goroutine: GET .m3u8, GET
.ts) can be scheduled between any two of them.  What such a client gets for a listed sequence
number is what the OS file holds at that moment (`os.Stat` + `os.Open` in persistentSegmentFile.get).
`closeFirst` is the regenerated fact "segmentClose closes (= flushes) the file before the segment
enters the playlist".
-/
namespace IpcHub.HlsDisk

abbrev Bytes := List UInt8

structure File where
  seq  : Nat
  disk : Bytes      -- in the OS file
  buf  : Bytes      -- still in the bufio.Writer
deriving Repr, BEq, DecidableEq

/-- everything written to the segment so far: the transport stream produced for that sequence number -/
def File.content (f : File) : Bytes := f.disk ++ f.buf

/-- persistentSegmentFile.close: Flush, then Close -/
def flush (f : File) : File := { f with disk := f.disk ++ f.buf, buf := [] }

structure St where
  current : Option File     -- sg.current
  closing : Option File     -- `curr` inside segmentClose
  listed  : List File       -- pl.segments
deriving Repr, BEq, DecidableEq

def init : St := { current := some { seq := 1, disk := [], buf := [] }, closing := none, listed := [] }

/-- atomic steps of the generator goroutine -/
inductive Step
  | write (data : Bytes) (spill : Nat)  -- writeFrame → bufio.Writer.Write: the writer passes the first `spill`
                                        -- buffered bytes on to the file (any policy: `spill` is arbitrary)
  | take                                -- segmentClose: curr := sg.current; sg.current = nil
  | close                               -- curr.file.close()
  | list                                -- sg.playlist.addSegment(curr): append, keep the last three
  | open (seq : Nat)                    -- segmentClose has returned; segmentOpen
deriving Repr

def step (st : St) : Step → St
  | .write data spill =>
    match st.current with
    | none => st
    | some f =>
      let all := f.buf ++ data
      { st with current := some { f with disk := f.disk ++ all.take spill, buf := all.drop spill } }
  | .take => { st with closing := st.current, current := none }
  | .close =>
    match st.closing with
    | none => st
    | some c => { st with closing := some (flush c)
                          listed := st.listed.map fun f => if f.seq = c.seq then flush f else f }
  | .list =>
    match st.closing with
    | none => st
    | some c => { st with listed := (st.listed ++ [c]).drop ((st.listed ++ [c]).length - 3) }
  | .open seq => { st with closing := none, current := some { seq := seq, disk := [], buf := [] } }

/-- what the generator does with one frame: write it, or roll over to segment `next` first
    (segmentClose's keep path, in the order the source has it) -/
inductive Act
  | frame (data : Bytes) (spill : Nat)
  | rollover (next : Nat)
deriving Repr

def steps (closeFirst : Bool) : Act → List Step
  | .frame d s => [.write d s]
  | .rollover n => if closeFirst then [.take, .close, .list, .open n] else [.take, .list, .close, .open n]

def run (st : St) (ss : List Step) : St := ss.foldl step st

/-- the states another goroutine can observe while the steps run: before the first, between any two,
    after the last -/
def trace (st : St) : List Step → List St
  | [] => [st]
  | s :: ss => st :: trace (step st s) ss

/-- every state a client can observe during a whole session -/
def observable (closeFirst : Bool) (st : St) : List Act → List St
  | [] => [st]
  | a :: as => trace st (steps closeFirst a) ++ observable closeFirst (run st (steps closeFirst a)) as

/-- Playlist.Segment(q) + reading the reader to its end: the OS file of the listed segment `q` -/
def fetch (st : St) (q : Nat) : Option Bytes := (st.listed.find? (fun f => f.seq == q)).map (·.disk)

end IpcHub.HlsDisk
