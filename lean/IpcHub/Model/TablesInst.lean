import IpcHub.Model.Tables
import IpcHub.Model.UserTable
import IpcHub.Model.RouteInst
import IpcHub.Model.Fs
import IpcHub.Gen.TableFacts
namespace IpcHub.Tables

/-- jsonProvider.LoadAll of a missing users file (provider/auth/json.go; the literal is checked
    against the regenerated `userJsonMissingFile` in Props/C18.lean) -/
def defaultUsers : List UserTable.User :=
  [{ name := "admin".toList, password := "admin".toList, admin := true, push := [], pull := [] }]

/-- … of a missing route file: `nil` -/
def defaultRoutes : List Route.Route := []

end IpcHub.Tables

namespace IpcHub.Fs

def parseName (s : String) : Option FName :=
  if s = "target" then some .target else if s = "temp" then some .temp else none

/-- the translator writes the program as string triples (Gen files import nothing) -/
def parseOp : String × String × String → Option FsOp
  | (op, a, b) =>
    if op = "openTrunc" then (parseName a).map .openTrunc
    else if op = "write" then (parseName a).map .write
    else if op = "sync" then (parseName a).map .sync
    else if op = "close" then (parseName a).map .close
    else if op = "rename" then
      match parseName a, parseName b with
      | some a, some b => some (.rename a b)
      | _, _ => none
    else if op = "marshal" then some .marshal
    else if op = "hook" then some (.hook a)
    else none

def parseProg : List (String × String × String) → Option (List FsOp)
  | [] => some []
  | s :: ss => match parseOp s, parseProg ss with
    | some o, some os => some (o :: os)
    | _, _ => none

/-- the file-system program of utils.EncodeJSONFile in the current source tree -/
def genProg : Option (List FsOp) := parseProg IpcHub.Gen.encodeJSONFileProg

end IpcHub.Fs
