import IpcHub.Model.Tables
import IpcHub.Model.UserTable
import IpcHub.Model.RouteInst
import IpcHub.Model.Fs
import IpcHub.Gen.TableFacts
namespace IpcHub.Tables

/-- jsonProvider.LoadAll of a missing users file (provider/auth/json.go; the literal is checked
    against the regenerated `userJsonMissingFile` in Props/C18.lean) -/
def defaultUsers : List UserTable.User :=
  [{ name := "admin".toList, password := "admin".toList, admin := true, push := [], pull := [] }]

/-- … of a missing route file: `nil` -/
def defaultRoutes : List Route.Route := []

end IpcHub.Tables

namespace IpcHub.Fs

def parseName : String → Option FName
  | "target" => some .target
  | "temp" => some .temp
  | _ => none

/-- the translator writes the program as strings (Gen files import nothing) -/
def parseOp (s : String) : Option FsOp :=
  match s.splitOn " " with
  | ["openTrunc", f] => (parseName f).map .openTrunc
  | ["write", f] => (parseName f).map .write
  | ["sync", f] => (parseName f).map .sync
  | ["close", f] => (parseName f).map .close
  | ["rename", a, b] => match parseName a, parseName b with
    | some a, some b => some (.rename a b)
    | _, _ => none
  | ["marshal"] => some .marshal
  | ["hook", n] => some (.hook n)
  | _ => none

def parseProg : List String → Option (List FsOp)
  | [] => some []
  | s :: ss => match parseOp s, parseProg ss with
    | some o, some os => some (o :: os)
    | _, _ => none

/-- the file-system program of utils.EncodeJSONFile in the current source tree -/
def genProg : Option (List FsOp) := parseProg IpcHub.Gen.encodeJSONFileProg

end IpcHub.Fs
