/-
The flag + queue + condition-variable protocol shared by the four worker goroutines
(media/consumption.go consume/Close; av/format/rtp/demuxer.go, av/format/flv/muxer.go,
av/format/mpegts/muxer.go process/Close) over github.com/cnotch/queue.SyncQueue
(modelled, not verified: Push = lock, append, Signal; Pop = lock, wait ONCE if empty, pop;
Signal with no waiter is lost).  Sequential consistency is assumed for the `closed` flag.
-/
namespace IpcHub.Worker

inductive Pc where
  | top                          -- about to evaluate `for !closed`
  | checked                      -- passed the check, about to call Pop
  | waiting                      -- inside cond.Wait (queue was empty)
  | got (e : Option Nat)         -- Pop returned (none = nil)
  | exited
  deriving DecidableEq, Repr

structure St where
  queue : List (Option Nat) := []
  closed : Bool := false         -- the flag
  closeStarted : Bool := false   -- Close() passed its `if closed return`
  closeDone : Bool := false      -- Close() performed its wake-up
  pc : Pc := .top
  signalled : Bool := false      -- a Signal reached the waiter
  processed : List Nat := []
  deriving DecidableEq, Repr

inductive Label where
  | w                            -- one step of the worker goroutine
  | push (x : Nat)               -- a producer pushes an element
  | closeFlag                    -- Close(): closed = true
  | closeWake                    -- Close(): the wake-up (Push(nil) or Signal())
  deriving DecidableEq, Repr

/-- `wakeViaPush`: does Close wake the worker with `recvQueue.Push(nil)` (through the queue
    lock) or with a bare `recvQueue.Signal()`?  Regenerated from the source. -/
structure Cfg where
  wakeViaPush : Bool

def pop (s : St) : St :=
  match s.queue with
  | [] => { s with pc := .got none }
  | e :: q => { s with pc := .got e, queue := q }

/-- total step function: a disabled step leaves the state unchanged -/
def step (cfg : Cfg) (s : St) : Label → St
  | .w =>
    match s.pc with
    | .top => if s.closed then { s with pc := .exited } else { s with pc := .checked }
    | .checked =>
      (match s.queue with
       | [] => { s with pc := .waiting, signalled := false }
       | e :: q => { s with pc := .got e, queue := q })
    | .waiting => if s.signalled then pop { s with signalled := false } else s
    | .got none => { s with pc := .top }
    | .got (some x) => { s with pc := .top, processed := s.processed ++ [x] }
    | .exited => s
  | .push x =>
    { s with queue := s.queue ++ [some x], signalled := s.signalled || (s.pc = .waiting) }
  | .closeFlag =>
    if s.closeStarted || s.closed then s else { s with closed := true, closeStarted := true }
  | .closeWake =>
    if s.closeStarted && !s.closeDone then
      if cfg.wakeViaPush then
        { s with queue := s.queue ++ [none], signalled := s.signalled || (s.pc = .waiting), closeDone := true }
      else
        { s with signalled := s.signalled || (s.pc = .waiting), closeDone := true }
    else s

def run (cfg : Cfg) (s : St) (ls : List Label) : St := ls.foldl (step cfg) s

/-- is the worker's own step enabled (not blocked)? -/
def workerEnabled (s : St) : Bool :=
  match s.pc with
  | .waiting => s.signalled
  | .exited => false
  | _ => true

/-- how many own steps the worker needs at most to exit once closed -/
def rank : Pc → Nat
  | .exited => 0
  | .top => 1
  | .got _ => 2
  | .checked => 3
  | .waiting => 3

end IpcHub.Worker
