/-
The bodies of media.Regist / media.Unregist as interleavable micro-steps (one sync.Map
method, one mutex operation, one retire/close per step) over the shared registry state.
`locked` is the source fact "the whole body runs under registLock".  Core Lean only.
-/
import IpcHub.Model.Registry
namespace IpcHub.RegistryLts
open IpcHub.Registry

inductive ROp where
  | regist (i : Nat)
  | unregist (i : Nat)
  deriving Repr, DecidableEq

inductive PC where
  | start                          -- before registLock.Lock()
  | locked                         -- lock taken (or no lock in the source), before streams.Load
  | loaded (old : Option Nat)      -- after Load: Regist is about to Store, Unregist about to Delete
  | stored (old : Option Nat)      -- after Store/Delete: Regist about to retire `old`, Unregist about to Close
  | unlocking                      -- body finished, deferred Unlock pending
  | done
  deriving Repr, DecidableEq

structure Thread where
  op : ROp
  pc : PC
  deriving Repr, DecidableEq

structure CState where
  st : State
  /-- registLock holder -/
  holder : Option Nat
  threads : List Thread
  /-- ghost: the operations in the order in which they entered their critical section -/
  lin : List ROp

def ROp.sid : ROp → Nat
  | .regist i => i
  | .unregist i => i

/-- the sequential meaning of an operation -/
def seqStep (st : State) : ROp → State
  | .regist i => regist st i
  | .unregist i => unregist st i

def seqRun (st : State) : List ROp → State
  | [] => st
  | o :: os => seqRun (seqStep st o) os

def setPc (c : CState) (t : Nat) (pc : PC) : CState :=
  { c with threads := c.threads.modify t (fun th => { th with pc := pc }) }

/-- one micro-step of thread t; `none` = not enabled (blocked on the mutex, finished, or no such thread) -/
def stepThread (locked : Bool) (c : CState) (t : Nat) : Option CState :=
  match c.threads[t]? with
  | none => none
  | some th =>
    match th.pc with
    | .start =>
      if locked then
        if c.holder = none then some { setPc c t .locked with holder := some t, lin := c.lin ++ [th.op] } else none
      else some { setPc c t .locked with lin := c.lin ++ [th.op] }
    | .locked =>
      match c.st.streams[th.op.sid]? with
      | none => some (setPc c t .unlocking)
      | some s =>
        let cur := load c.st.reg s.path
        match th.op with
        | .regist i => if cur = some i then some (setPc c t .unlocking) else some (setPc c t (.loaded cur))
        | .unregist i => if cur = some i then some (setPc c t (.loaded cur)) else some (setPc c t (.stored none))
    | .loaded old =>
      match c.st.streams[th.op.sid]? with
      | none => some (setPc c t .unlocking)
      | some s =>
        match th.op with
        | .regist i => some { setPc c t (.stored old) with st := { c.st with reg := store c.st.reg s.path i } }
        | .unregist _ => some { setPc c t (.stored none) with st := { c.st with reg := delete c.st.reg s.path } }
    | .stored old =>
      match th.op with
      | .regist _ => some { setPc c t .unlocking with st := retireOld c.st old }
      | .unregist i => some { setPc c t .unlocking with st := closeStream c.st i false }
    | .unlocking =>
      if locked then some { setPc c t .done with holder := none } else some (setPc c t .done)
    | .done => none

/-- run a schedule (thread indices); steps that are not enabled are skipped -/
def runSched (locked : Bool) (c : CState) : List Nat → CState
  | [] => c
  | t :: ts => runSched locked ((stepThread locked c t).getD c) ts

def allDone (c : CState) : Bool := c.threads.all (fun th => th.pc = .done)

def initC (st : State) (ops : List ROp) : CState :=
  { st := st, holder := none, threads := ops.map (fun o => { op := o, pc := .start }), lin := [] }

/-- the schedule the harness forces through the verif points: thread 0 runs until it has
    loaded (pc = loaded …), then thread 1 runs as far as it can, then thread 0 finishes, then
    thread 1 finishes.  Each thread needs at most 6 steps. -/
def pauseSchedule : List Nat := [0, 0] ++ List.replicate 6 1 ++ List.replicate 6 0 ++ List.replicate 6 1

end IpcHub.RegistryLts
