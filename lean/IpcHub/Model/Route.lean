/-
Model of provider/route/route.go (Route, init, CopyFrom) and of
provider/route/routetable.go `Match` / `pathMatch`.  The table itself (Save/Del/Flush/Reset)
is the generic machine of Model/Tables.lean instantiated with `routeOps`.
Core Lean only.   (C17, C18)
-/
import IpcHub.Model.PathCanon
import IpcHub.Model.Tables
namespace IpcHub.Route
open IpcHub.Tables

structure Route where
  pattern : List Char
  url : List Char
  keepAlive : Bool
  deriving DecidableEq, Repr

/-- parameters of the model -/
structure Cfg where
  canon : PathCanon.Cfg
  /-- `url.Parse(r.URL)` returned no error (net/url is not modelled: a parameter) -/
  urlOk : List Char → Bool
  /-- source fact: `Match` tests the URL's last byte without indexing an empty string
      (`strings.HasSuffix`); `false` = the pinned code `r.URL[len(r.URL)-1]` -/
  urlGuard : Bool
  /-- source fact: `Match` writes URL and Pattern into a copy (`ret := *r`), not into the entry -/
  copies : Bool

def canon (cfg : Cfg) (p : List Char) : List Char := PathCanon.canonicalPath cfg.canon p

/-- (*Route).init -/
def routeInit (cfg : Cfg) (r : Route) : Option Route :=
  let r := { r with pattern := canon cfg r.pattern }       -- r.Pattern = utils.CanonicalPath(r.Pattern)
  if cfg.urlOk r.url then some r else none                  -- _, err := url.Parse(r.URL)

/-- (*Route).CopyFrom -/
def routeCopyFrom (dst src : Route) (_ : Bool) : Route :=
  { dst with url := src.url, keepAlive := src.keepAlive }

def routeOps (cfg : Cfg) : Ops Route :=
  { key := (·.pattern), init := routeInit cfg, copyFrom := routeCopyFrom, canonKey := canon cfg }

/-- pathMatch(pattern, path) -/
def pathMatch (pattern path : List Char) : Bool :=
  if pattern.length = 0 then false                                   -- should not happen
  else if pattern.getLast? ≠ some '/' then pattern == path           -- return pattern == path
  else decide (path.length ≥ pattern.length) && path.take pattern.length == pattern

/-- the `for k, v := range t.m` loop of Match: `r` and `n` are the loop-carried variables.
    The list is the map in the order the range statement happens to visit it. -/
def matchLoop (path : List Char) : List (Key × Route) → Option Route → Nat → Option Route × Nat
  | [], r, n => (r, n)
  | (k, v) :: rest, r, n =>
    if !pathMatch k path then matchLoop path rest r n               -- continue
    else if r.isNone || k.length > n then matchLoop path rest (some v) k.length
    else matchLoop path rest r n

inductive MatchOut where
  | none                     -- return nil
  | found (r : Route)
  | panic                    -- index / slice out of range (propagates to the caller)
  deriving DecidableEq, Repr

/-- the URL join at the end of Match; `none` = run-time panic -/
def joinURL (cfg : Cfg) (r : Route) (path : List Char) : Option (List Char) :=
  if r.url = [] ∧ !cfg.urlGuard then none                            -- r.URL[len(r.URL)-1] with len 0
  else if r.url.getLast? = some '/' then
    if r.pattern.length ≤ path.length then some (r.url ++ path.drop r.pattern.length)   -- path[len(r.Pattern):]
    else none
  else
    if 1 ≤ r.pattern.length ∧ r.pattern.length - 1 ≤ path.length then
      some (r.url ++ path.drop (r.pattern.length - 1))               -- path[len(r.Pattern)-1:]
    else none

/-- write `f` through the pointer shared by `m` and `l` (only when Match does not copy) -/
def writeEntry (s : State Route) (k : Key) (f : Route → Route) : State Route :=
  { s with m := s.m.map (fun kv => if kv.1 = k then (kv.1, f kv.2) else kv)
           l := s.l.map (fun v => if v.pattern = k then f v else v) }

/-- routetable.Match: the result and the table afterwards -/
def matchImpl (cfg : Cfg) (s : State Route) (path0 : List Char) : MatchOut × State Route :=
  let path := canon cfg path0                                        -- path = utils.CanonicalPath(path)
  if path = [] then (.panic, s)                                      -- path[len(path)-1] on ""
  else if path.getLast? = some '/' then (.none, s)                   -- 必须有具体的子路径
  else
    match lookup path s.m with
    | some r => (.found r, s)                                        -- 精确匹配: ret := *r
    | none =>
      match (matchLoop path s.m none 0).1 with
      | none => (.none, s)
      | some r =>
        match joinURL cfg r path with
        | none => (.panic, s)
        | some u =>
          let r' := { r with url := u, pattern := path }
          (.found r', if cfg.copies then s else writeEntry s r.pattern (fun _ => r'))

/-- what media.GetOrCreate hands to `PullStreamFactory.Create(localPath, remoteURL)` -/
def createArgs (cfg : Cfg) (s : State Route) (path0 : List Char) : Option (List Char × List Char) :=
  match (matchImpl cfg s (canon cfg path0)).1 with                   -- path = utils.CanonicalPath(path); r := route.Match(path)
  | .found r => some (r.pattern, r.url)                              -- psf.Create(r.Pattern, r.URL)
  | _ => none

end IpcHub.Route
