/-
Model of the stream registry: media/global.go (Regist, Unregist, Get, Count, Infos,
runZeroConsumersCloseTask, runZeroConsumersClose.run), the parts of media/stream.go the
registry reads or drives (close, ConsumerCount, StartConsume/StopConsume as table
membership only) and service/apis.go onStopStream.  Sequential semantics of each
function here; the interleaving of Regist / Unregist bodies is in RegistryLts.lean.
Core Lean only.
-/
import IpcHub.Model.CanonPath
namespace IpcHub.Registry
open IpcHub.CanonPath

abbrev Path := List Char

/-- media/stream.go: StreamOK | StreamClosed | StreamReplaced (StreamNoConsumer is only a
    close *reason*; `close` stores StreamClosed for it) -/
inductive Status where
  | ok | closed | replaced
  deriving DecidableEq, Repr, Inhabited

structure Stream where
  /-- s.path = CanonicalPath(path given to NewStream) -/
  path : Path
  status : Status
  /-- s.consumptions: CIDs present (count = length in a sequential history) -/
  rtp : List Nat
  /-- s.flvConsumptions -/
  flv : List Nat
  /-- consumerSequenceSeed -/
  seed : Nat
  /-- `some t`: the stream has an HLS playlist, last accessed at time t; `none`: s.hlsPlaylist == nil -/
  hls : Option Nat
  deriving Repr, DecidableEq

/-- a posted runZeroConsumersClose -/
structure Task where
  sid : Nat
  /-- closedStats == StreamReplaced (posted by Regist) or StreamNoConsumer (posted by GetOrCreate) -/
  replaced : Bool
  /-- r.closed -/
  done : Bool
  deriving Repr, DecidableEq

/-- source-level facts of media/global.go (regenerated: Gen/RegistryFacts.lean) -/
structure Facts where
  /-- run(): the consumer test reads both tables (`ConsumerCount()`) rather than the RTP table only -/
  idleCountsFlv : Bool
  /-- run(): the playlist test is made on the *pointer* (`s.hlsPlaylist == nil`), not on the
      interface value returned by `Hlsable()` (which is never nil) -/
  idleNilSafe : Bool
  /-- Get / Count / Infos ignore a stream whose status is not StreamOK -/
  lookupSkipsClosed : Bool
  deriving Repr, DecidableEq

structure State where
  /-- every stream ever created; the index is the stream's identity -/
  streams : List Stream
  /-- `streams sync.Map`: canonical path ↦ stream -/
  reg : List (Path × Nat)
  /-- posted idle tasks, in posting order -/
  tasks : List Task
  /-- clock (seconds) -/
  now : Nat
  deriving Repr

def State.empty : State := { streams := [], reg := [], tasks := [], now := 0 }

/-! ### sync.Map primitives -/
def load (reg : List (Path × Nat)) (k : Path) : Option Nat :=
  match reg with
  | [] => none
  | (k', v) :: rest => if k' = k then some v else load rest k

def delete (reg : List (Path × Nat)) (k : Path) : List (Path × Nat) :=
  reg.filter (fun e => e.1 ≠ k)

def store (reg : List (Path × Nat)) (k : Path) (v : Nat) : List (Path × Nat) :=
  (k, v) :: delete reg k

/-! ### stream primitives -/
def updateStream (st : State) (i : Nat) (f : Stream → Stream) : State :=
  { st with streams := st.streams.modify i f }

/-- Stream.ConsumerCount -/
def Stream.consumerCount (s : Stream) : Int := (s.rtp.length : Int) + (s.flv.length : Int)

/-- Stream.close(status): no-op unless StreamOK; both tables are emptied (RemoveAndCloseAll) -/
def Stream.close (s : Stream) (asReplaced : Bool) : Stream :=
  if s.status ≠ .ok then s
  else { s with status := if asReplaced then .replaced else .closed, rtp := [], flv := [] }

def closeStream (st : State) (i : Nat) (asReplaced : Bool) : State :=
  updateStream st i (·.close asReplaced)

/-- runZeroConsumersCloseTask -/
def postTask (st : State) (i : Nat) (replaced : Bool) : State :=
  { st with tasks := st.tasks ++ [{ sid := i, replaced := replaced, done := false }] }

/-! ### media.Regist, split at its synchronisation-relevant points -/

/-- after `streams.Store`: retire the previous occupant -/
def retireOld (st : State) (old : Option Nat) : State :=
  match old with
  | none => st
  | some o =>
    match st.streams[o]? with
    | none => st
    | some os =>
      if os.consumerCount ≤ 0 then closeStream st o true      -- oldS.close(StreamReplaced)
      else postTask st o true                                   -- runZeroConsumersCloseTask(oldS, StreamReplaced)

/-- media.Regist(s) -/
def regist (st : State) (i : Nat) : State :=
  match st.streams[i]? with
  | none => st
  | some s =>
    let old := load st.reg s.path
    if old = some i then st                                     -- if s == oldSI { return }
    else retireOld { st with reg := store st.reg s.path i } old

/-- media.Unregist(s) -/
def unregist (st : State) (i : Nat) : State :=
  match st.streams[i]? with
  | none => st
  | some s =>
    let st1 := if load st.reg s.path = some i then { st with reg := delete st.reg s.path } else st
    closeStream st1 i false                                     -- s.Close()

/-- is stream i visible to lookups? -/
def visible (f : Facts) (st : State) (i : Nat) : Bool :=
  match st.streams[i]? with
  | none => false
  | some s => !f.lookupSkipsClosed || s.status = .ok

/-- media.Get(path) -/
def get (cfg : Cfg) (f : Facts) (st : State) (p : Path) : Option Nat :=
  match load st.reg (canonicalPath cfg p) with
  | none => none
  | some i => if visible f st i then some i else none

/-- the registry entries Range visits that Count / Infos take into account -/
def listed (f : Facts) (st : State) : List (Path × Nat) :=
  st.reg.filter (fun e => visible f st e.2)

def ccOf (st : State) (i : Nat) : Int :=
  match st.streams[i]? with
  | none => 0
  | some s => s.consumerCount

/-- media.Count -/
def count (f : Facts) (st : State) : Nat × Int :=
  ((listed f st).length, ((listed f st).map (fun e => ccOf st e.2)).foldl (· + ·) 0)

/-- byte-wise string order (Go's `<` on strings; ASCII in the correspondence) -/
def strLe (a b : Path) : Bool := !(decide (b < a))

/-- media.Infos(pagetoken, pagesize): (total, listed paths) -/
def infos (f : Facts) (st : State) (token : Path) (size : Nat) : Nat × List Path :=
  let paths := (listed f st).map (fun e => match st.streams[e.2]? with | some s => s.path | none => e.1)
  let after := paths.filter (fun p => decide (token < p))
  let sorted := after.mergeSort strLe
  (paths.length, if size > sorted.length then sorted else sorted.take size)

/-- StartConsume (table membership only): NewCID, Add -/
def join (st : State) (i : Nat) (flv : Bool) : State × Option Nat :=
  match st.streams[i]? with
  | none => (st, none)
  | some s =>
    if s.status ≠ .ok then (st, none) else       -- joining a closed stream is outside this model (C03); the harness skips it
    let cid := s.seed + 1
    (updateStream st i (fun s => if flv then { s with seed := cid, flv := cid :: s.flv }
                                    else { s with seed := cid, rtp := cid :: s.rtp }), some cid)

/-- StopConsume(cid) -/
def leave (st : State) (i : Nat) (flv : Bool) (cid : Nat) : State :=
  updateStream st i (fun s => if flv then { s with flv := s.flv.erase cid } else { s with rtp := s.rtp.erase cid })

/-- outcome of one run of the idle task -/
inductive TickResult where
  | ran (closed : Bool)      -- r.closed afterwards
  | panic                    -- nil-pointer dereference inside run (swallowed by the scheduler)
  | bad
  deriving Repr, DecidableEq

/-- the decision of runZeroConsumersClose.run for stream s with period d at time now -/
def idleDecision (f : Facts) (s : Stream) (now d : Nat) : Option Bool :=
  let cnt : Int := if f.idleCountsFlv then s.consumerCount else (s.rtp.length : Int)
  if cnt ≤ 0 then
    match s.hls with
    | none => if f.idleNilSafe then some true else none        -- typed-nil interface: LastAccessTime() on a nil *Playlist
    | some last => some (decide (now - last ≥ d))
  else some false

/-- runZeroConsumersClose.run for the t-th posted task, with period d -/
def tick (f : Facts) (st : State) (t : Nat) (d : Nat) : State × TickResult :=
  match st.tasks[t]? with
  | none => (st, .bad)
  | some task =>
    match st.streams[task.sid]? with
    | none => (st, .bad)
    | some s =>
      match idleDecision f s st.now d with
      | none => (st, .panic)
      | some false => (st, .ran task.done)
      | some true =>
        let st1 := { st with tasks := st.tasks.modify t (fun k => { k with done := true }) }
        (closeStream st1 task.sid task.replaced, .ran true)

/-- media.NewStream(path, sdp): the registry-relevant fields -/
def newStream (cfg : Cfg) (st : State) (p : Path) (hasHls : Bool) : State × Nat :=
  ({ st with streams := st.streams ++ [{ path := canonicalPath cfg p, status := .ok, rtp := [], flv := [], seed := 0,
                                          hls := if hasHls then some st.now else none }] }, st.streams.length)

/-- service/apis.go onStopStream: `rt = media.Get(path); if rt != nil { rt.Close() }` -/
def stopStream (cfg : Cfg) (f : Facts) (st : State) (p : Path) : State :=
  match get cfg f st p with
  | none => st
  | some i => closeStream st i false

/-! ### operations and observations (the line protocol of the driver mirrors these) -/
inductive Op where
  | new (p : Path) (hasHls : Bool)
  | regist (i : Nat)
  | unregist (i : Nat)
  | close (i : Nat)
  | stop (p : Path)
  | join (i : Nat) (flv : Bool)
  | leave (i : Nat) (flv : Bool) (cid : Nat)
  | tick (t : Nat) (d : Nat)
  | touch (i : Nat)            -- an HLS playlist/segment access
  | advance (n : Nat)
  | get (p : Path)
  | count
  | infos (token : Path) (size : Nat)
  | info (p : Path)            -- GET /api/v1/streams/{path}: onGetStreamInfo → media.Get(path), Stream.Info (path, cc)
  | postIdle (i : Nat)         -- GetOrCreate's runZeroConsumersCloseTask(s, StreamNoConsumer)
  | probe (i : Nat)            -- inspect stream i: is its status StreamOK, how many unfinished tasks watch it
  deriving Repr, DecidableEq

inductive Obs where
  | unit
  | sid (o : Option Nat)
  | cid (o : Option Nat)
  | cnt (sc : Nat) (cc : Int)
  | paths (total : Nat) (ps : List Path)
  | sinfo (o : Option (Path × Int))      -- the stream found under the path: its own path and consumer count
  | tick (r : TickResult)
  | probe (ok : Bool) (pending : Nat)
  deriving Repr, DecidableEq

/-- unfinished idle tasks that watch stream i -/
def pendingTasks (st : State) (i : Nat) : Nat :=
  (st.tasks.filter (fun t => t.sid = i && !t.done)).length

def isOk (st : State) (i : Nat) : Bool :=
  match st.streams[i]? with
  | some s => s.status = .ok
  | none => false

/-- Stream.Path() of stream i -/
def pathOf (st : State) (i : Nat) : Path :=
  match st.streams[i]? with
  | some s => s.path
  | none => []

def step (cfg : Cfg) (f : Facts) (st : State) : Op → State × Obs
  | .new p h => let (st', i) := newStream cfg st p h; (st', .sid (some i))
  | .regist i => (regist st i, .unit)
  | .unregist i => (unregist st i, .unit)
  | .close i => (closeStream st i false, .unit)
  | .stop p => (stopStream cfg f st p, .unit)
  | .join i flv => let (st', c) := join st i flv; (st', .cid c)
  | .leave i flv cid => (leave st i flv cid, .unit)
  | .tick t d => let (st', r) := tick f st t d; (st', .tick r)
  | .touch i => (updateStream st i (fun s => { s with hls := s.hls.map (fun _ => st.now) }), .unit)
  | .advance n => ({ st with now := st.now + n }, .unit)
  | .get p => (st, .sid (get cfg f st p))
  | .count => let (a, b) := count f st; (st, .cnt a b)
  | .infos t n => let (a, b) := infos f st t n; (st, .paths a b)
  | .info p => (st, .sinfo ((get cfg f st p).map (fun i => (pathOf st i, ccOf st i))))
  | .postIdle i => (postTask st i false, .unit)
  | .probe i => (st, .probe (isOk st i) (pendingTasks st i))

def run (cfg : Cfg) (f : Facts) (st : State) : List Op → State
  | [] => st
  | op :: ops => run cfg f (step cfg f st op).1 ops

def runObs (cfg : Cfg) (f : Facts) (st : State) : List Op → List Obs
  | [] => []
  | op :: ops => (step cfg f st op).2 :: runObs cfg f (step cfg f st op).1 ops

end IpcHub.Registry
