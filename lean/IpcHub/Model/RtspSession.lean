/-
Model of the RTSP session automaton:
  service/rtsp/session.go        onRequest / onPreprocess / onDescribe / onAnnounce / onSetup /
                                 onRecord / onPlay / parseSdp / getControlPath / process (defer)
  service/rtsp/session_roles.go  asTCPPusher / asTCPConsumer / asUDPConsumer / asMulticastConsumer,
                                 the Close methods of the roles
  service/wsp/session.go         the same automaton of the WSP control channel (no record, PAUSE)
Core Lean only.  Everything the session obtains from other packages is an `Env` input:
the stream registry (`media.GetOrCreate`), the SDP parser (`go-sdp`), `net/url`
normalisation of absolute control URLs, permission decisions (owned by C11; the sessions
are run with auth off), UDP socket creation.
-/
import IpcHub.Model.RtspTransport
namespace IpcHub.Rtsp

/-- `statusInit = iota … statusRecording` -/
inductive Status | init | ready | playing | recording
  deriving DecidableEq, Repr, Inhabited

def Status.toNat : Status → Nat
  | .init => 0 | .ready => 1 | .playing => 2 | .recording => 3

/-- which consumer role the session holds (`s.consumer`) -/
inductive Role | none | tcp | udp | mc
  deriving DecidableEq, Repr, Inhabited

/-- which branch set `resp.Status` (the harness maps the status text back to this) -/
inductive Reason
  | dflt | invalidVControl | invalidAControl | unknownControl | malformedTransport
  | cantSetupAsRecord | cantSetupAsPlay | recordOnlyTcp | wsOnlyTcp
  deriving DecidableEq, Repr, Inhabited

structure Req where
  method : Method
  cseq : Str
  /-- `utils.CanonicalPath(req.URL.Path)` -/
  path : Str
  /-- `setupURL.String()` after the `:554` defaulting -/
  setupPath : Str
  /-- `req.Header.Get("Transport")` -/
  transport : Str
  /-- `req.Header.Get("Content-Type") == "application/sdp"` -/
  ctypeSdp : Bool
  /-- `req.Header.Get("Range")` -/
  range : Str
  /-- identifier of the request body (an SDP document of the environment's table) -/
  body : Nat
  deriving Repr, Inhabited

structure Resp where
  code : Nat
  reason : Reason
  cseq : Str
  transport : Option Str
  /-- `Content-Type: application/sdp` and this SDP document as body -/
  sdp : Option Nat
  range : Option Str
  isPublic : Bool
  deriving DecidableEq, Repr, Inhabited

inductive Effect
  | attachTcp | attachUdp | attachMc     -- StartConsume / AddMember
  | register                              -- media.Regist of a new stream on s.path
  | releaseConsumer | releaseStream       -- consumer.Close / stream.Close (Unregist)
  | closeConn
  deriving DecidableEq, Repr, Inhabited

/-- what one request makes the session do, in program order -/
inductive Ev
  | resp (r : Resp)
  | eff (e : Effect)
  deriving DecidableEq, Repr, Inhabited

structure McInfo where
  ip : Str
  portBase : Nat
  src : Str
  ttl : Nat
  deriving Repr, Inhabited

/-- a registered stream: its SDP document (0 = empty string) and its multicast capability -/
structure StreamInfo where
  sdp : Nat
  mc : Option McInfo
  deriving Repr, Inhabited

inductive MediaKind | video | audio | other
  deriving DecidableEq, Repr, Inhabited

/-- result of `sdp.ParseString` and of `media.Attributes.Get("control")` per media section -/
structure SdpInfo where
  ok : Bool
  medias : List (MediaKind × Str)
  deriving Repr, Inhabited

structure Env where
  lookup : Str → Option StreamInfo
  sdp : Nat → SdpInfo
  /-- `url.Parse(ctrl)`, `:554` defaulting, `String()`; none = parse error -/
  urlNorm : Str → Option Str
  permPull : Bool
  permPush : Bool
  udpOk : Bool

/-- facts read from the source (see Gen/RtspFacts.lean and `genCfg`) -/
structure Cfg where
  /-- `onPreprocess`: may a request with this method go on in this status? -/
  gate : Status → Method → Bool
  /-- `onPlay`: the `status == statusPlaying` branch writes the response -/
  playAgainResponds : Bool
  /-- `onPlay`: `status = statusPlaying` only when the response that was written is 200 -/
  playingNeedsOk : Bool
  /-- `onPack`: an interleaved packet from a client whose session is not recording is dropped
      (before the fix it was handed to the place-holder stream, whose error ended the session) -/
  framesDropped : Bool
  /-- `newResponse` sets the Session header of every response to the session's id, which is
      assigned once (in `newSession`), and nothing else touches that header -/
  sidCarried : Bool

structure Sess where
  /-- `s.wsconn != nil` -/
  ws : Bool
  status : Status
  mode : Mode
  tr : Transport
  path : Str
  vControl : Str
  aControl : Str
  rawSdp : Nat
  role : Role
  /-- `s.stream` is a `tcpPushStream` -/
  pusher : Bool
  closed : Bool
  deriving DecidableEq, Repr, Inhabited

/-- `newSession`; a WebSocket session takes its path from the upgrade request -/
def Sess.init (ws : Bool) (wsPath : Str) : Sess :=
  { ws := ws, status := .init, mode := .unknown, tr := Transport.init, path := if ws then wsPath else [],
    vControl := [], aControl := [], rawSdp := 0, role := .none, pusher := false, closed := false }

/-- `newResponse(StatusOK, req)`: CSeq echoed, Session id (constant per session, not modelled as data) -/
def mkResp (r : Req) : Resp :=
  { code := 200, reason := .dflt, cseq := r.cseq, transport := none, sdp := none, range := none, isPublic := false }

/-! ### helpers of session.go -/

def asciiLower (c : Char) : Char := if 'A' ≤ c ∧ c ≤ 'Z' then Char.ofNat (c.toNat + 32) else c

/-- `len(ctrl) >= len(rtspURLPrefix) && strings.EqualFold(ctrl[:len(rtspURLPrefix)], rtspURLPrefix)` -/
def hasRtspPrefix (ctrl : Str) : Bool :=
  decide (ctrl.length ≥ 7) && (ctrl.take 7).map asciiLower == "rtsp://".toList

/-- rtsp `getControlPath`: none = error -/
def getControlPath (e : Env) (ctrl : Str) : Option Str :=
  if hasRtspPrefix ctrl then e.urlNorm ctrl else some ctrl

/-- wsp `getControlPath`: "" on error -/
def getControlPathWsp (e : Env) (ctrl : Str) : Str :=
  if hasRtspPrefix ctrl then (e.urlNorm ctrl).getD [] else ctrl

def lastIndexAux (s sub : Str) : Nat → Int
  | 0 => if sub.isPrefixOf s then 0 else -1
  | i + 1 => if sub.isPrefixOf (s.drop (i + 1)) then ((i + 1 : Nat) : Int) else lastIndexAux s sub i

/-- `strings.LastIndex` -/
def lastIndex (s sub : Str) : Int :=
  if sub.isEmpty then (s.length : Int)
  else if sub.length > s.length then -1
  else lastIndexAux s sub (s.length - sub.length)

/-- `setupPath == p || (p != "" && strings.LastIndex(setupPath, p) == len(setupPath)-len(p))` -/
def ctrlMatch (setupPath p : Str) : Bool :=
  setupPath == p ||
    (!p.isEmpty && lastIndex setupPath p == (setupPath.length : Int) - (p.length : Int))

/-- the loop of `parseSdp` over `s.sdp.Media` -/
def applyMedias : List (MediaKind × Str) → Str × Str → Str × Str
  | [], va => va
  | (.video, c) :: ms, (_, a) => applyMedias ms (c, a)
  | (.audio, c) :: ms, (v, _) => applyMedias ms (v, c)
  | (.other, _) :: ms, va => applyMedias ms va

/-- `parseSdp`: rawSdp is stored first; the controls only change when the parse succeeds -/
def parseSdp (s : Sess) (info : SdpInfo) (id : Nat) : Sess × Bool :=
  let s := { s with rawSdp := id }
  if !info.ok then (s, false)
  else
    let (v, a) := applyMedias info.medias (s.vControl, s.aControl)
    ({ s with vControl := v, aControl := a }, true)

def natStr (n : Nat) : Str := (Nat.repr n).toList

/-- the suffix `onSetup` appends to the Transport header for a multicast SETUP -/
def mcSuffix (m : McInfo) (ch : Nat) : Str :=
  ";destination=".toList ++ m.ip ++ ";port=".toList ++ natStr (m.portBase + ch) ++ "-".toList ++
    natStr (m.portBase + ch + 1) ++ ";source=".toList ++ m.src ++ ";ttl=".toList ++ natStr m.ttl

/-! ### handlers -/

def onDescribe (s : Sess) (r : Req) (e : Env) (resp : Resp) : Sess × Resp :=
  let s := if s.ws then s else { s with path := r.path }
  match e.lookup s.path with
  | none => (s, { resp with code := 404 })
  | some st =>
    if !e.permPull then (s, { resp with code := 403 })
    else if st.sdp == 0 then (s, { resp with code := 404 })
    else
      let (s, ok) := parseSdp s (e.sdp st.sdp) st.sdp
      if !ok then (s, { resp with code := 404 })
      else ({ s with mode := .play }, { resp with sdp := some s.rawSdp })

def onAnnounce (s : Sess) (r : Req) (e : Env) (resp : Resp) : Sess × Resp :=
  if !r.ctypeSdp then (s, { resp with code := 400 })
  else
    let s := { s with path := r.path }
    if !e.permPush then (s, { resp with code := 403 })
    else
      let (s, ok) := parseSdp s (e.sdp r.body) r.body
      if !ok then (s, { resp with code := 400 })
      else ({ s with mode := .record }, resp)

/-- which track a SETUP url addresses (audio is tested first) -/
def pickTrack (setupPath aPath vPath : Str) : Option Track :=
  if ctrlMatch setupPath aPath then some .audio
  else if ctrlMatch setupPath vPath then some .video
  else none

def toReady (s : Sess) : Sess :=
  if s.status.toNat < Status.ready.toNat then { s with status := .ready } else s

def onSetup (s : Sess) (r : Req) (e : Env) (resp : Resp) : Sess × Resp :=
  match getControlPath e s.vControl with
  | none => (s, { resp with code := 500, reason := .invalidVControl })
  | some vPath =>
    match getControlPath e s.aControl with
    | none => (s, { resp with code := 500, reason := .invalidAControl })
    | some aPath =>
      let resp := { resp with transport := some r.transport }
      match pickTrack r.setupPath aPath vPath with
      | none => (s, { resp with code := 500, reason := .unknownControl })
      | some track =>
        let (tr, err) := parseTransport s.tr track r.transport
        let s := { s with tr := tr }
        if err then (s, { resp with code := 451, reason := .malformedTransport })
        else
          let s := if s.mode == .unknown then { s with mode := tr.mode } else s
          if s.mode != tr.mode then
            (s, { resp with code := 451,
                            reason := if s.mode == .play then .cantSetupAsRecord else .cantSetupAsPlay })
          else if s.mode == .record then
            if !e.permPush then (s, { resp with code := 403 })
            else if tr.type != .tcp then (s, { resp with code := 461, reason := .recordOnlyTcp })
            else (toReady s, resp)
          else if !e.permPull then (s, { resp with code := 403 })
          else if tr.type == .multicast then
            match e.lookup s.path with
            | none => (s, { resp with code := 404 })
            | some st =>
              match st.mc with
              | none => (s, { resp with code := 461 })
              | some m =>
                (toReady s, { resp with transport := some (r.transport ++ mcSuffix m track.index) })
          else (toReady s, resp)

def onRecord (s : Sess) (e : Env) (resp : Resp) : Sess × List Ev :=
  if s.status == .recording then (s, [.resp resp])
  else if s.mode != .record || s.tr.type != .tcp then (s, [.resp { resp with code := 455 }])
  else if !e.permPush then (s, [.resp { resp with code := 403 }])
  else ({ s with pusher := true, status := .recording }, [.eff .register, .resp resp])

/-- the tail of `onPlay`: `if err == nil { s.status = statusPlaying }` -/
def afterPlay (cfg : Cfg) (s : Sess) (code : Nat) : Sess :=
  if cfg.playingNeedsOk && code != 200 then s else { s with status := .playing }

def onPlay (cfg : Cfg) (s : Sess) (r : Req) (e : Env) (resp : Resp) : Sess × List Ev :=
  if s.status == .playing then (s, if cfg.playAgainResponds then [.resp resp] else [])
  else if s.mode != .play || s.tr.type == .unknown then (s, [.resp { resp with code := 455 }])
  else
    match e.lookup s.path with
    | none => (s, [.resp { resp with code := 404 }])
    | some st =>
      if !e.permPull then (s, [.resp { resp with code := 403 }])
      else
        let resp := { resp with range := some r.range }
        match s.tr.type with
        | .tcp =>      -- asTCPConsumer: response, then StartConsume
          (afterPlay cfg { s with role := .tcp } 200, [.resp resp, .eff .attachTcp])
        | .udp =>      -- asUDPConsumer
          if !e.udpOk then (afterPlay cfg s 500, [.resp { resp with code := 500 }])
          else (afterPlay cfg { s with role := .udp } 200, [.resp resp, .eff .attachUdp])
        | _ =>         -- asMulticastConsumer
          match st.mc with
          | none => (afterPlay cfg s 461, [.resp { resp with code := 461 }])
          | some _ => (afterPlay cfg { s with role := .mc } 200, [.resp resp, .eff .attachMc])

/-- the deferred cleanup of `process` (runs when the read loop ends) -/
def finish (s : Sess) : Sess × List Ev :=
  ({ s with closed := true, status := .init, role := .none, pusher := false },
   [.eff .closeConn] ++ (if s.role != .none then [.eff .releaseConsumer] else []) ++
     (if s.pusher then [.eff .releaseStream] else []))

/-- `onRequest` (with `onPreprocess`); a closed session reads nothing any more -/
def step (cfg : Cfg) (s : Sess) (r : Req) (e : Env) : Sess × List Ev :=
  if s.closed then (s, [])
  else
    let resp := mkResp r
    if r.method == .options then (s, [.resp { resp with isPublic := true }])
    else if r.method == .teardown then
      let (s, evs) := finish s
      (s, .resp resp :: evs)
    else if !cfg.gate s.status r.method then (s, [.resp { resp with code := 455 }])
    else
      match r.method with
      | .describe => let (s, resp) := onDescribe s r e resp; (s, [.resp resp])
      | .announce => let (s, resp) := onAnnounce s r e resp; (s, [.resp resp])
      | .setup => let (s, resp) := onSetup s r e resp; (s, [.resp resp])
      | .record => onRecord s e resp
      | .play => onPlay cfg s r e resp
      | _ => (s, [.resp { resp with code := 455 }])

/-- the client hangs up: the read fails, the deferred cleanup runs -/
def disconnect (s : Sess) : Sess × List Ev :=
  if s.closed then (s, []) else finish s

/-- what the client sends: a request, a hang-up, or an interleaved frame (`ch` its channel byte,
    `hdrOk`: the payload starts with an RTP header that parses) -/
inductive Input
  | req (r : Req) (e : Env)
  | hangup
  | frame (ch : Int) (hdrOk : Bool)

/-- `ReadPacket`: the frame is handed to `onPack` when its channel is one of the negotiated four
    (first match) and, on a media channel, its RTP header parses; otherwise it is skipped with a warning -/
def frameAccepted (s : Sess) (ch : Int) (hdrOk : Bool) : Bool :=
  let c := s.tr.channels
  if ch == c.c0 then hdrOk
  else if ch == c.c1 then true
  else if ch == c.c2 then hdrOk
  else ch == c.c3

/-- `receive` of a `$` frame, then `onPack`: a recording session writes the packet to its stream
    (nothing the client sees); any other session drops it — or, before the fix, ends -/
def onFrame (cfg : Cfg) (s : Sess) (ch : Int) (hdrOk : Bool) : Sess × List Ev :=
  if s.closed then (s, [])
  else if s.status == .recording || cfg.framesDropped || !frameAccepted s ch hdrOk then (s, [])
  else finish s

def stepInput (cfg : Cfg) (s : Sess) : Input → Sess × List Ev
  | .req r e => step cfg s r e
  | .hangup => disconnect s
  | .frame ch hdrOk => onFrame cfg s ch hdrOk

/-- run a whole dialogue; one event list per input -/
def run (cfg : Cfg) : Sess → List Input → Sess × List (List Ev)
  | s, [] => (s, [])
  | s, i :: is =>
    let (s1, evs) := stepInput cfg s i
    let (s2, rest) := run cfg s1 is
    (s2, evs :: rest)

/-! ### the gate table of `onPreprocess`, as a function of the generated table

`rows` lists, per `case` of `switch s.status`, the status name, whether the expression is
negated (`!( … )`) and the methods compared with `req.Method`; the row named "default"
applies to every status without a case. -/

def methodOfName (n : String) : Method :=
  if n == "MethodOptions" then .options else if n == "MethodDescribe" then .describe
  else if n == "MethodAnnounce" then .announce else if n == "MethodSetup" then .setup
  else if n == "MethodPlay" then .play else if n == "MethodPause" then .pause
  else if n == "MethodTeardown" then .teardown else if n == "MethodGetParameter" then .getParameter
  else if n == "MethodSetParameter" then .setParameter else if n == "MethodRecord" then .record
  else if n == "MethodRedirect" then .redirect else .other

def statusName : Status → String
  | .init => "statusInit" | .ready => "statusReady"
  | .playing => "statusPlaying" | .recording => "statusRecording"

def gateRow (neg : Bool) (ms : List String) (m : Method) : Bool :=
  let hit := ms.any (fun n => methodOfName n == m)
  if neg then !hit else hit

def gateOfTable (rows : List (String × Bool × List String)) (st : Status) (m : Method) : Bool :=
  match rows.find? (fun r => r.1 == statusName st) with
  | some (_, neg, ms) => gateRow neg ms m
  | none =>
    match rows.find? (fun r => r.1 == "default") with
    | some (_, neg, ms) => gateRow neg ms m
    | none => false

/-! ### WSP control-channel session (service/wsp/session.go) -/

structure WSess where
  status : Status          -- statusInit | statusReady | statusPlaying
  paused : Bool
  tr : Transport
  path : Str
  vControl : Str
  aControl : Str
  rawSdp : Nat
  /-- `s.cid != nil` -/
  attached : Bool
  closed : Bool
  /-- ghost (not a field of the Go struct): a DESCRIBE has been answered 200 -/
  described : Bool
  deriving DecidableEq, Repr, Inhabited

def WSess.init (wsPath : Str) : WSess :=
  { status := .init, paused := false, tr := Transport.init, path := wsPath, vControl := [], aControl := [],
    rawSdp := 0, attached := false, closed := false, described := false }

def wParseSdp (s : WSess) (info : SdpInfo) (id : Nat) : WSess × Bool :=
  let s := { s with rawSdp := id }
  if !info.ok then (s, false)
  else
    let (v, a) := applyMedias info.medias (s.vControl, s.aControl)
    ({ s with vControl := v, aControl := a }, true)

def wOnDescribe (s : WSess) (e : Env) (resp : Resp) : WSess × Resp :=
  match e.lookup s.path with
  | none => (s, { resp with code := 404 })
  | some st =>
    if !e.permPull then (s, { resp with code := 403 })       -- s.checkPermission() (owned by C11)
    else if st.sdp == 0 then (s, { resp with code := 404 })
    else
      let (s, ok) := wParseSdp s (e.sdp st.sdp) st.sdp
      if !ok then (s, { resp with code := 404 })
      else ({ s with described := true }, { resp with sdp := some s.rawSdp })

def wToReady (s : WSess) : WSess :=
  if s.status.toNat < Status.ready.toNat then { s with status := .ready } else s

def wOnSetup (s : WSess) (r : Req) (e : Env) (resp : Resp) : WSess × Resp :=
  let vPath := getControlPathWsp e s.vControl
  if vPath.isEmpty then (s, { resp with code := 500, reason := .invalidVControl })
  else
    let aPath := getControlPathWsp e s.aControl
    let resp := { resp with transport := some r.transport }
    match pickTrack r.setupPath aPath vPath with
    | none => (s, { resp with code := 500, reason := .unknownControl })
    | some track =>
      let (tr, err) := parseTransport s.tr track r.transport
      let s := { s with tr := tr }
      if err then (s, { resp with code := 451, reason := .malformedTransport })
      else if tr.mode != .play then (s, { resp with code := 451, reason := .cantSetupAsRecord })
      else if tr.type != .tcp then (s, { resp with code := 461, reason := .wsOnlyTcp })
      else (wToReady s, resp)

def wOnPlay (s : WSess) (r : Req) (e : Env) (resp : Resp) : WSess × List Ev :=
  if s.status == .playing then ({ s with paused := false }, [.resp resp])
  else
    match e.lookup s.path with
    | none => (s, [.resp { resp with code := 404 }])
    | some _ =>
      if !e.permPull then (s, [.resp { resp with code := 403 }]) else
      let resp := { resp with range := some r.range }
      -- StartConsume happens inside onPlay, the response is written by `process` afterwards
      ({ s with attached := true, status := .playing, paused := false },
       (if s.attached then [] else [.eff .attachTcp]) ++ [.resp resp])

def wFinish (s : WSess) : WSess × List Ev :=
  ({ s with closed := true, status := .init, attached := false, paused := false },
   (if s.attached then [.eff .releaseConsumer] else []) ++ [.eff .closeConn])

/-- `wsp.Session.onRequest` for one WRAPped RTSP request -/
def wstep (gate : Status → Method → Bool) (s : WSess) (r : Req) (e : Env) : WSess × List Ev :=
  if s.closed then (s, [])
  else
    let resp := mkResp r
    if r.method == .options then (s, [.resp { resp with isPublic := true }])
    else if r.method == .teardown then
      let (s, evs) := wFinish s
      (s, .resp resp :: evs)
    else if !gate s.status r.method then (s, [.resp { resp with code := 455 }])
    else
      match r.method with
      | .describe => let (s, resp) := wOnDescribe s e resp; (s, [.resp resp])
      | .setup => let (s, resp) := wOnSetup s r e resp; (s, [.resp resp])
      | .play => wOnPlay s r e resp
      | .pause => (if s.status == .playing then { s with paused := true } else s, [.resp resp])
      | _ => (s, [.resp { resp with code := 455 }])

def wdisconnect (s : WSess) : WSess × List Ev :=
  if s.closed then (s, []) else wFinish s

def wstepInput (gate : Status → Method → Bool) (s : WSess) : Input → WSess × List Ev
  | .req r e => wstep gate s r e
  | .hangup => wdisconnect s
  | .frame _ _ => (s, [])       -- the control channel carries WSP text messages only

def wrun (gate : Status → Method → Bool) : WSess → List Input → WSess × List (List Ev)
  | s, [] => (s, [])
  | s, i :: is =>
    let (s1, evs) := wstepInput gate s i
    let (s2, rest) := wrun gate s1 is
    (s2, evs :: rest)

/-! ### service/rtsp/multicast_proxy.go: the member registry -/

/-- the proxy of a published source: its members (opaque handles: interface values compared with
    `==`) and whether socket + consumer are running -/
structure McProxy where
  members : List Nat
  running : Bool
  deriving DecidableEq, Repr, Inhabited

def McProxy.idle : McProxy := { members := [], running := false }

/-- `AddMember`: only the first member is stored, and starts socket and consumer -/
def McProxy.add (p : McProxy) (m : Nat) : McProxy :=
  if p.members.isEmpty then { members := [m], running := true } else p

/-- `ReleaseMember`: the member EQUAL to `m` is removed; when none is left the proxy stops -/
def McProxy.release (p : McProxy) (m : Nat) : McProxy :=
  let ms := p.members.erase m
  if ms.isEmpty then { members := [], running := false } else { p with members := ms }

end IpcHub.Rtsp
