/- `Packet.Payload()` of the model instantiated with the fact regenerated from /repo (Gen/DepackFacts) -/
import IpcHub.Model.RtpPacket
import IpcHub.Gen.DepackFacts
namespace IpcHub.RtpPacket

/-- only `stripsPadding` matters for `payload`; the tolerance flags of `receive` belong to C07
    (Model/PipelineInst.lean: `genRtpCfg`) -/
def genPayloadCfg : Cfg where
  unknownChannelTolerated := true
  badHeaderTolerated := true
  headerPanicRecovered := true
  stripsPadding := IpcHub.Gen.payloadStripsPadding

end IpcHub.RtpPacket
