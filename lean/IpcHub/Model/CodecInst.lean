/- the codec models instantiated with the facts regenerated from /repo (Gen/CodecFacts.lean) -/
import IpcHub.Model.H264Sps
import IpcHub.Gen.CodecFacts
namespace IpcHub.H264

def genCfg : Cfg :=
  { seFromUe := IpcHub.Gen.readSeFromUe
    highProfiles := IpcHub.Gen.h264HighProfiles
    nalSps := IpcHub.Gen.h264NalSps
    svcTypes := IpcHub.Gen.h264SvcTypes
    maxCpbCnt := IpcHub.Gen.h264MaxCpbCnt
    maxDpbFrames := IpcHub.Gen.h264MaxDpbFrames
    cropByChroma := IpcHub.Gen.h264CropByChroma
    mono183 := IpcHub.Gen.h264Mono183
    fpsWide := IpcHub.Gen.h264FpsWide }

end IpcHub.H264
