/- the codec models instantiated with the facts regenerated from /repo (Gen/CodecFacts.lean) -/
import IpcHub.Model.H264Sps
import IpcHub.Model.Asc
import IpcHub.Model.Hevc
import IpcHub.Model.MetaReady
import IpcHub.Gen.CodecFacts
namespace IpcHub.H264

def genCfg : Cfg :=
  { seFromUe := IpcHub.Gen.readSeFromUe
    highProfiles := IpcHub.Gen.h264HighProfiles
    nalSps := IpcHub.Gen.h264NalSps
    svcTypes := IpcHub.Gen.h264SvcTypes
    maxCpbCnt := IpcHub.Gen.h264MaxCpbCnt
    maxDpbFrames := IpcHub.Gen.h264MaxDpbFrames
    cropByChroma := IpcHub.Gen.h264CropByChroma
    mono183 := IpcHub.Gen.h264Mono183
    fpsWide := IpcHub.Gen.h264FpsWide }

end IpcHub.H264

namespace IpcHub.Asc

def genCfg : Cfg :=
  { sampleRates := IpcHub.Gen.aacSampleRates
    channels := IpcHub.Gen.aacAudioChannels
    aotNull := IpcHub.Gen.aotNull
    aotAacLc := IpcHub.Gen.aotAacLc
    aotSbr := IpcHub.Gen.aotSbr
    aotErBsac := IpcHub.Gen.aotErBsac
    aotPs := IpcHub.Gen.aotPs
    aotEscape := IpcHub.Gen.aotEscape
    aotAls := IpcHub.Gen.aotAls
    psGuardFFmpeg := IpcHub.Gen.aacPsGuardFFmpeg }

end IpcHub.Asc

namespace IpcHub.Hevc

def genCfg : Cfg :=
  { seFromUe := IpcHub.Gen.readSeFromUe
    nalVps := IpcHub.Gen.hevcNalVps
    nalSps := IpcHub.Gen.hevcNalSps
    maxSubLayers := IpcHub.Gen.hevcMaxSubLayers
    maxRefs := IpcHub.Gen.hevcMaxRefs
    maxDpbSize := IpcHub.Gen.hevcMaxDpbSize
    maxLongTermRefPics := IpcHub.Gen.hevcMaxLongTermRefPics
    maxCpbCnt := IpcHub.Gen.hevcMaxCpbCnt
    maxLayers := IpcHub.Gen.hevcMaxLayers
    spsOrderingStd := IpcHub.Gen.hevcSpsOrderingStd
    rpsInterStd := IpcHub.Gen.hevcRpsInterStd }

end IpcHub.Hevc

namespace IpcHub.MetaReady

/-- `RawSPS.Decode` followed by Width()/Height()/IsFixedFrameRate()/FrameRate(), as `h264.MetadataIsReady` uses them -/
def dec264 (cfg : H264.Cfg) (b : List UInt8) : Option Dims :=
  match H264.decode cfg b with
  | .ok s => some { width := H264.width cfg s, height := H264.height cfg s, fixed := H264.isFixedFrameRate s, fps := H264.frameRate cfg s }
  | .error _ => none

/-- `H265RawSPS.Decode` followed by Width()/Height()/IsFixedFrameRate()/FrameRate(), as `hevc.MetadataIsReady` uses them -/
def dec265 (cfg : Hevc.Cfg) (b : List UInt8) : Option Dims :=
  match Hevc.decodeSps cfg b with
  | .ok s => some { width := Hevc.width s.head, height := Hevc.height s.head, fixed := Hevc.isFixedFrameRate s, fps := Hevc.frameRate s }
  | .error _ => none

end IpcHub.MetaReady
