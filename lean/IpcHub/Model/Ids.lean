/-
C11, secrecy of tokens and nonces: a symbolic model of the identifiers ipchub hands out
(provider/security/id.go, provider/auth/token.go, service/rtsp/session.go, service/wsp/wsp.go).

Terms: values of the process-wide id counter (`security.NewID`), draws from crypto/rand
(`security.NewSecret`), and the public renderings applied to them.  The attacker knows what the
server discloses to unauthenticated or other clients (`Session:` headers, WSP channel ids, his own
nonces and tokens) and can: undo the invertible renderings, apply every public function, and move
from one counter value to any other (the counter is an integer that advances by one per id).
MD5 is not invertible; a crypto/rand draw is known only if it was disclosed.  Core Lean only.
-/
namespace IpcHub.Ids

inductive Term where
  | ctr (n : Nat)      -- the value the id counter had at some call of NewID
  | rnd (n : Nat)      -- the n-th draw of NewSecret
  | md5 (t : Term)     -- ID.MD5
  | b64 (t : Term)     -- ID.Base64 (uvarint, base64): invertible
  | dec (t : Term)     -- ID.String (decimal): invertible
  | hex (t : Term)     -- ID.Hex: invertible
  deriving DecidableEq, Repr

/-- `k` becomes `t` by undoing invertible renderings only -/
def opens (k t : Term) : Bool :=
  k = t || match k with
    | .b64 k' => opens k' t
    | .dec k' => opens k' t
    | .hex k' => opens k' t
    | _ => false

/-- `k` opens (through invertible renderings only) to some value of the counter -/
def opensToCtr : Term → Bool
  | .ctr _ => true
  | .b64 k | .dec k | .hex k => opensToCtr k
  | _ => false

/-- some disclosed term opens to a counter value -/
def ctrKnown (K : List Term) : Bool := K.any opensToCtr

/-- can the attacker compute `t` from the disclosed terms `K`? -/
def derivable (K : List Term) : Term → Bool
  | .ctr _ => ctrKnown K                          -- any counter value, once one is known
  | .rnd n => K.any (fun k => opens k (.rnd n))
  | .md5 t => derivable K t || K.any (fun k => opens k (.md5 t))
  | .b64 t => derivable K t || K.any (fun k => opens k (.b64 t))
  | .dec t => derivable K t || K.any (fun k => opens k (.dec t))
  | .hex t => derivable K t || K.any (fun k => opens k (.hex t))

/-- `t` occurs somewhere in `k` -/
def mentions (k t : Term) : Bool :=
  k = t || match k with
    | .md5 k' | .b64 k' | .dec k' | .hex k' => mentions k' t
    | _ => false

/-- how the source builds a secret: the pinned code hashed the next counter value, the repaired code
    draws it -/
inductive Source where
  | md5OfCounter | randomDraw
  deriving DecidableEq, Repr

/-- the term of the `i`-th secret when the counter stood at `c` before it was made -/
def secretTerm : Source → (c i : Nat) → Term
  | .md5OfCounter, c, _ => .md5 (.ctr (c + 1))
  | .randomDraw, _, i => .rnd i

end IpcHub.Ids
