/-
Model of network/socket/listener/matcher.go: the immutable patricia tree behind
`MatchPrefix` / `MatchHTTP` / `rtsp.MatchRTSP` (C19).  Core Lean only.

Go                                   | here
-------------------------------------|---------------------------------------------
`ptNode{prefix, next map, terminal}` | `Node.mk pfx terminal next`, the map is a total
                                     | function `UInt8 → Node` with `Node.absent` for a
                                     | missing key (`nextN, ok := n.next[b[l]]; !ok`)
`splitPrefix`                        | `splitPrefix` (longest common prefix + remainders)
`newNode` (recursion on the groups)  | `newNode fuel`; `newTree` supplies enough fuel
`(*ptNode).match(b, prefix)`         | `matchNode`
`patriciaTree{root, maxDepth}`       | `Tree`
-/
namespace IpcHub.Patricia

abbrev Bytes := List UInt8

inductive Node where
  | absent : Node
  | mk (pfx : Bytes) (terminal : Bool) (next : UInt8 → Node) : Node

/-- longest common prefix of two byte strings -/
def lcp2 : Bytes → Bytes → Bytes
  | a :: as, b :: bs => if a = b then a :: lcp2 as bs else []
  | _, _ => []

/-- the column loop of `splitPrefix`: extend while every string has the same byte at `i` -/
def lcpAll : List Bytes → Bytes
  | [] => []
  | [x] => x
  | x :: xs => lcp2 x (lcpAll xs)

/-- matcher.go `splitPrefix` -/
def splitPrefix (bss : List Bytes) : Bytes × List Bytes :=
  match bss with
  | [] => ([], [])
  | [] :: _ => ([], bss)
  | [b] => (b, [[]])
  | _ => let p := lcpAll bss; (p, bss.map (·.drop p.length))

/-- `nexts[s[0]] = append(nexts[s[0]], s[1:])` for one key `c` -/
def group (c : UInt8) (rests : List Bytes) : List Bytes :=
  rests.filterMap (fun r => match r with
    | c' :: t => if c' = c then some t else none
    | [] => none)

/-- matcher.go `newNode`.  The Go recursion descends into strictly shorter strings; `fuel`
    bounds the depth (`newTree` passes `maxLen + 1`, which the correctness theorem shows is
    enough — the out-of-fuel branch is never reached from `newTree`). -/
def newNode : Nat → List Bytes → Node
  | _, [] => .mk [] true (fun _ => .absent)
  | _, [s] => .mk s true (fun _ => .absent)
  | 0, _ :: _ :: _ => .absent
  | fuel + 1, strs@(_ :: _ :: _) =>
    let pr := splitPrefix strs
    .mk pr.1 (pr.2.any (·.isEmpty))
      (fun c => let g := group c pr.2; if g.isEmpty then .absent else newNode fuel g)

/-- matcher.go `(*ptNode).match` -/
def matchNode : Node → Bytes → Bool → Bool
  | .absent, _, _ => false
  | .mk pfx terminal next, b, prefixMode =>
    let l0 := pfx.length
    let l := if l0 > b.length then b.length else l0
    if l0 > 0 && (b.take l != pfx) then false
    else if terminal && (prefixMode || pfx.length == b.length) then true
    else if l ≥ b.length then false
    else match b.drop l with
      | [] => false          -- not reachable: l < b.length
      | c :: rest => matchNode (next c) rest prefixMode

def maxLen (ss : List Bytes) : Nat := ss.foldl (fun m s => max m s.length) 0

structure Tree where
  root : Node
  maxDepth : Nat

/-- matcher.go `newPatriciaTree` -/
def newTree (ss : List Bytes) : Tree :=
  { root := newNode (maxLen ss + 1) ss, maxDepth := maxLen ss + 1 }

/-- `matchPrefix` / `match` once `io.ReadFull` has produced the first `n ≤ maxDepth` bytes -/
def Tree.matchBuf (t : Tree) (buf : Bytes) (prefixMode : Bool) : Bool :=
  matchNode t.root buf prefixMode

/-- the whole matcher on an in-memory input (`strings.NewReader(s)`): ReadFull takes
    `min maxDepth |s|` bytes -/
def Tree.matchInput (t : Tree) (input : Bytes) (prefixMode : Bool) : Bool :=
  t.matchBuf (input.take t.maxDepth) prefixMode

end IpcHub.Patricia
