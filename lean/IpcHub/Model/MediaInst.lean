import IpcHub.Model.Media
import IpcHub.Gen.MediaFacts
namespace IpcHub.Media
open IpcHub.Gen

/-- the NAL-type constants of the current source tree (regenerated facts) -/
def genConsts : NalConsts :=
  { sps264 := h264NalSps, pps264 := h264NalPps, idr264 := h264NalIdrSlice,
    aggLo264 := h264NalStapaInRtp, aggHi264 := h264NalMtap24InRtp,
    fuLo264 := h264NalFuAInRtp, fuHi264 := h264NalFuBInRtp,
    vps265 := hevcNalVps, sps265 := hevcNalSps, pps265 := hevcNalPps,
    irapLo265 := hevcNalBlaWLp, irapHi265 := hevcNalCraNut,
    agg265 := hevcNalStapInRtp, fu265 := hevcNalFuInRtp }

def genInit (hevc cacheGop : Bool) : St := St.init genConsts IpcHub.Gen.maxQLen hevc cacheGop

end IpcHub.Media
